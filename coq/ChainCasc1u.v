(* Chain proofs, cascade, client side, part 3: the user-side ops (poll a call, drop a call,
   create a call) keep the node invariant. *)
From Coq Require Import List Bool Arith NArith Lia ZifyNat ZifyN.
Import ListNotations.
From TarpcV Require Import Base Transport Client ClientLemmas ClientProofsG1Frames ClientSimBase
     ClientProofsG1Rec.
From TarpcV Require Server Chain ChainInv ChainCross ChainCli.
From TarpcV Require Import ChainCasc1.

Arguments N.modulo : simpl never.
Arguments N.add : simpl never.
Arguments N.mul : simpl never.
Arguments N.min : simpl never.
Arguments N.sub : simpl never.

Section UserHeld.
  Implicit Types s : cst.

  Lemma held_eq s s' : queue s' = queue s -> calls s' = calls s -> held s' = held s.
  Proof. intros E1 E2. unfold held, queue_ids, staged_ids. rewrite E1, E2. reflexivity. Qed.

  Lemma held_push_cancel s id : held (push_cancel s id) = held s.
  Proof. unfold push_cancel. destruct (dropped s); [reflexivity|apply held_eq; reflexivity]. Qed.

  Lemma held_poll_slot s i id : incl (held (snd (poll_slot s i id))) (held s).
  Proof.
    unfold poll_slot. destruct (sl_val _); cbn [snd].
    - intros x H. apply held_set_phase_dead in H; [|reflexivity].
      rewrite (held_T _ _ (TFrame_slot_rx_close _ _)) in H. exact H.
    - destruct (sl_tx_gone _); cbn [snd]; [|apply incl_refl].
      intros x H. apply held_set_phase_dead in H; [|reflexivity].
      rewrite (held_T _ _ (TFrame_slot_rx_close _ _)) in H. exact H.
  Qed.

  Lemma held_fail_shutdown s i id : incl (held (snd (fail_shutdown s i id))) (held s).
  Proof.
    unfold fail_shutdown. cbn [snd]. intros x H. apply held_set_phase_dead in H; [|reflexivity].
    rewrite held_push_cancel, (held_T _ _ (TFrame_slot_rx_close _ _)), (held_T _ _ (TFrame_slot_tx_drop _ _)) in H.
    exact H.
  Qed.

  Lemma held_enqueue s i c id tc x :
    In x (held (snd (enqueue s i c id tc))) -> In x (held s) \/ x = id.
  Proof.
    unfold enqueue. intro H. apply held_poll_slot in H. apply held_set_phase_dead in H; [|reflexivity].
    unfold held, queue_ids in *. cbn [queue upd_q] in H. rewrite map_app in H.
    apply in_app_or in H. destruct H as [H|H].
    - apply in_app_or in H. destruct H as [H|[<-|[]]]; [left; apply in_or_app; left; exact H|right; reflexivity].
    - left. apply in_or_app. right. exact H.
  Qed.

  Lemma staged_with_id_new s i c id :
    nth_error (calls s) i = Some c -> gS (c_phase c) = false ->
    incl (staged_ids (with_id s i c id)) (staged_ids s).
  Proof.
    intros E G x H. unfold staged_ids, with_id in H. cbn [calls upd_calls] in H.
    destruct (staged_set_nth _ _ _ _ _ E H) as [H1|[H1 _]]; [exact H1|].
    cbn in H1. congruence.
  Qed.

  (* a poll of a call future *)
  Lemma SL_poll_call s i : (next_id s + 1 < two64)%N -> SL s (snd (poll_call s i)).
  Proof.
    intro Hw. split; [apply (nid_poll_call (fun _ => O) s i Hw)|].
    unfold poll_call. destruct (nth_error (calls s) i) as [c|] eqn:E; [|auto].
    destruct (c_phase c) eqn:EP; auto.
    - (* PNew *)
      set (s0 := with_id _ i c (next_id s)). set (s1 := set_slot s0 (next_id s) slot0).
      assert (H1 : incl (held s1) (held s)).
      { intros x H. unfold s1 in H. rewrite (held_T _ _ (TFrame_set_slot _ _ _)) in H.
        unfold held in *. apply in_app_or in H. apply in_or_app. destruct H as [H|H]; [left; exact H|right].
        apply (staged_with_id_new (upd_misc s ((next_id s + 1) mod 18446744073709551616)%N (handles s) (now s)) i c (next_id s)); [exact E|rewrite EP; reflexivity|exact H]. }
      destruct (rx_closed s1).
      + intros x H. left. apply H1. eapply held_fail_shutdown, H.
      + destruct (permits s1).
        * cbn [snd]. intros x H. unfold held in H. apply in_app_or in H. destruct H as [H|H].
          -- left. apply H1. unfold held. apply in_or_app. left.
             unfold queue_ids in *. rewrite ChainCli.queue_set_phase in H. exact H.
          -- destruct (staged_set_phase _ _ _ _ H) as [H2|(k & Hk & _ & ->)].
             ++ left. apply H1. unfold held. apply in_or_app. right. exact H2.
             ++ right. cbn [calls upd_q] in Hk. unfold s1, s0 in Hk.
                cbn [calls set_slot upd_slots with_id upd_calls] in Hk.
                rewrite nth_error_set_nth_same in Hk by (apply nth_error_Some; cbn; congruence).
                injection Hk as <-. cbn. lia.
        * intros x H. destruct (held_enqueue _ _ _ _ _ _ H) as [H2| ->]; [left; apply H1; exact H2|right; lia].
    - (* PAssigned *)
      destruct (rx_closed s).
      + intros x H. left. apply held_fail_shutdown in H. exact H.
      + intros x H. left. destruct (held_enqueue _ _ _ _ _ _ H) as [H2| ->]; [exact H2|].
        unfold held. apply in_or_app. right. apply In_staged; [eapply nth_error_In, E|rewrite EP; reflexivity].
    - intros x H. left. eapply held_fail_shutdown, H.
    - intros x H. left. eapply held_poll_slot, H.
  Qed.

  Lemma SL_guard_cancel s i : SL s (guard_cancel s i).
  Proof.
    apply SL_sub; [apply nid_guard_cancel|].
    unfold guard_cancel. destruct (nth_error (calls s) i) as [c|]; [|apply incl_refl].
    destruct (c_phase c); try apply incl_refl.
    intros x H. apply held_set_phase_dead in H; [|reflexivity]. rewrite held_push_cancel in H. exact H.
  Qed.

  Lemma SL_guard_close s i : winv s -> SL s (guard_close s i).
  Proof.
    intro W. apply SL_sub; [apply nid_guard_close|].
    unfold guard_close. destruct (nth_error (calls s) i) as [c|] eqn:E; [|apply incl_refl].
    destruct (c_phase c) eqn:EP; try apply incl_refl.
    - intros x H. apply held_set_phase_dead in H; [exact H|reflexivity].
    - intros x H. apply held_set_phase_dead in H; [|reflexivity].
      rewrite (held_T _ _ (TFrame_slot_rx_close _ _)), (held_T _ _ (TFrame_slot_tx_drop _ _)) in H.
      rewrite (held_eq s _) in H by reflexivity. exact H.
    - intros x H.
      rewrite (held_T _ _ (TFrame_slot_rx_close _ _)), (held_T _ _ (TFrame_slot_tx_drop _ _)) in H.
      assert (H1 : incl (held (set_phase s i PClosing)) (held s)) by (apply held_set_phase_dead; reflexivity).
      destruct (rx_closed (set_phase s i PClosing)).
      + rewrite (held_eq (set_phase s i PClosing) _) in H by reflexivity. apply H1, H.
      + apply H1. eapply held_release_permit; [|exact H].
        eapply winv_phase_not_waiter; [exact W|exact E|rewrite EP; discriminate|rewrite set_phase_alt; reflexivity|].
        unfold set_phase. rewrite E. reflexivity.
    - intros x H. apply held_set_phase_dead in H; [|reflexivity].
      rewrite (held_T _ _ (TFrame_slot_rx_close _ _)), (held_T _ _ (TFrame_slot_tx_drop _ _)) in H. exact H.
    - intros x H. apply held_set_phase_dead in H; [|reflexivity].
      rewrite (held_T _ _ (TFrame_slot_rx_close _ _)) in H. exact H.
  Qed.

  Lemma SL_add_call s k : gS (c_phase k) = false -> SL s (upd_calls s (calls s ++ [k])).
  Proof.
    intro G. apply SL_sub; [reflexivity|]. intros x H. unfold held, queue_ids, staged_ids in *.
    cbn [queue calls upd_calls] in H. rewrite filter_app, map_app in H. cbn [filter] in H. rewrite G in H.
    cbn in H. rewrite app_nil_r in H. exact H.
  Qed.
End UserHeld.

(* ------------------------------------------------------------------------------------------ *)
(* the user side never touches the transport *)
Section UserTr.
  Implicit Types s : cst.

  Lemma tr_T s s' : TFrame s s' -> tr s' = tr s.
  Proof. intro F. apply (if_tr _ _ (tf_i _ _ F)). Qed.
  Lemma tr_push_cancel s id : tr (push_cancel s id) = tr s.
  Proof. unfold push_cancel. destruct (dropped s); reflexivity. Qed.
  Lemma tr_release_permit s : tr (release_permit s) = tr s.
  Proof. unfold release_permit. destruct (waiters s); [reflexivity|]. rewrite ChainCli.tr_set_phase. reflexivity. Qed.
  Lemma tr_poll_slot s i id : tr (snd (poll_slot s i id)) = tr s.
  Proof.
    unfold poll_slot. destruct (sl_val _); cbn [snd].
    - rewrite ChainCli.tr_set_phase. apply tr_T, TFrame_slot_rx_close.
    - destruct (sl_tx_gone _); cbn [snd]; [|reflexivity].
      rewrite ChainCli.tr_set_phase. apply tr_T, TFrame_slot_rx_close.
  Qed.
  Lemma tr_fail_shutdown s i id : tr (snd (fail_shutdown s i id)) = tr s.
  Proof.
    unfold fail_shutdown. cbn [snd]. rewrite ChainCli.tr_set_phase, tr_push_cancel.
    rewrite (tr_T _ _ (TFrame_slot_rx_close _ _)). apply tr_T, TFrame_slot_tx_drop.
  Qed.
  Lemma tr_enqueue s i c id tc : tr (snd (enqueue s i c id tc)) = tr s.
  Proof. unfold enqueue. rewrite tr_poll_slot, ChainCli.tr_set_phase. reflexivity. Qed.
  Lemma tr_poll_call s i : tr (snd (poll_call s i)) = tr s.
  Proof.
    unfold poll_call. destruct (nth_error (calls s) i) as [c|]; [|reflexivity].
    destruct (c_phase c); try reflexivity.
    - set (s1 := set_slot _ _ _). assert (E : tr s1 = tr s) by reflexivity.
      destruct (rx_closed s1); [rewrite tr_fail_shutdown; exact E|].
      destruct (permits s1); [cbn [snd]; rewrite ChainCli.tr_set_phase; exact E|].
      rewrite tr_enqueue. exact E.
    - destruct (rx_closed s); [rewrite tr_fail_shutdown; reflexivity|apply tr_enqueue].
    - apply tr_fail_shutdown.
    - apply tr_poll_slot.
  Qed.
  Lemma tr_guard_close s i : tr (guard_close s i) = tr s.
  Proof.
    unfold guard_close. destruct (nth_error (calls s) i) as [c|]; [|reflexivity].
    destruct (c_phase c); try reflexivity; rewrite ?ChainCli.tr_set_phase;
      rewrite ?(tr_T _ _ (TFrame_slot_rx_close _ _)), ?(tr_T _ _ (TFrame_slot_tx_drop _ _)); try reflexivity.
    destruct (rx_closed _); [cbn; apply ChainCli.tr_set_phase|rewrite tr_release_permit; apply ChainCli.tr_set_phase].
  Qed.
  Lemma tr_guard_cancel s i : tr (guard_cancel s i) = tr s.
  Proof.
    unfold guard_cancel. destruct (nth_error (calls s) i) as [c|]; [|reflexivity].
    destruct (c_phase c); try reflexivity. rewrite ChainCli.tr_set_phase. apply tr_push_cancel.
  Qed.
End UserTr.

(* ------------------------------------------------------------------------------------------ *)
(* the deadlines a client holds: every one of them is the deadline of a call it was given *)
Section Clamp.
  Variable T : N.
  Implicit Types s : cst.

  Definition clampH (Hs : list (N * N * N)) : Prop :=
    forall dl tr b, In (dl, tr, b) Hs -> (dl <= T + ChainInv.MAXT)%N.

  Definition keys_of s : list (N * N * N) :=
    map ChainCli.ckey (calls s) ++ map ChainCli.qkey (queue s)
    ++ flat_map ChainCli.mkey (Chain.l_c2s (tr s)).

  Lemma cok_self s : ChainCli.cok (keys_of s) s.
  Proof.
    constructor; unfold ChainCli.link_ok, keys_of; intros x H; apply in_or_app;
      [left; exact H|right; apply in_or_app; left; exact H|right; apply in_or_app; right; exact H].
  Qed.

  Definition clamp_all s : Prop :=
    (forall k, In k (calls s) -> (c_deadline k <= T + ChainInv.MAXT)%N) /\
    (forall q, In q (queue s) -> (q_deadline q <= T + ChainInv.MAXT)%N) /\
    (forall id dl tn b, In (Server.MReq id dl tn b) (Chain.l_c2s (tr s)) -> (dl <= T + ChainInv.MAXT)%N).

  Lemma clampH_keys s : clamp_all s -> clampH (keys_of s).
  Proof.
    intros (A & B & C) dl tr b H. unfold keys_of in H. apply in_app_or in H. destruct H as [H|H].
    - apply in_map_iff in H. destruct H as (k & E & Hk). unfold ChainCli.ckey in E. injection E as <- _ _. apply A, Hk.
    - apply in_app_or in H. destruct H as [H|H].
      + apply in_map_iff in H. destruct H as (q & E & Hq). unfold ChainCli.qkey in E. injection E as <- _ _. apply B, Hq.
      + apply in_flat_map in H. destruct H as (m & Hm & Hx). destruct m as [id dl' tr' b'|]; [|destruct Hx].
        destruct Hx as [Hx|[]]. injection Hx as <- _ _. eapply C, Hm.
  Qed.

  Lemma clamp_of_cok Hs s : clampH Hs -> ChainCli.cok Hs s -> clamp_all s.
  Proof.
    intros CH [A B C]. split; [|split].
    - intros k Hk. eapply (CH _ (Chain.trnum (c_tc k)) (c_body k)). apply A.
      change (c_deadline k, Chain.trnum (c_tc k), c_body k) with (ChainCli.ckey k). apply in_map, Hk.
    - intros q Hq. eapply (CH _ (Chain.trnum (q_tc q)) (q_body q)). apply B.
      change (q_deadline q, Chain.trnum (q_tc q), q_body q) with (ChainCli.qkey q). apply in_map, Hq.
    - intros id dl tr b Hm. eapply (CH dl tr b). apply C. apply in_flat_map. eexists. split; [exact Hm|]. left. reflexivity.
  Qed.

  (* every op of the client model (a new call carrying a clamped deadline) keeps them clamped *)
  Lemma clamp_step fuel_of s o s' os :
    step ctp fuel_of s o = (s', os) ->
    (forall h d tid smp body, o = Call h d tid smp body -> (now s + d <= T + ChainInv.MAXT)%N) ->
    (forall g, o <> Tr g) -> clamp_all s -> clamp_all s'.
  Proof.
    intros E HC HT CA.
    set (Hs := keys_of s ++ match o with
                            | Call h d tid smp body =>
                              [(now s + d, Chain.trnum {| tc_tid := tid; tc_sid := 0; tc_sampled := smp |}, body)%N]
                            | _ => [] end).
    assert (CH : clampH Hs).
    { intros dl tr b H. unfold Hs in H. apply in_app_or in H. destruct H as [H|H].
      - eapply clampH_keys; eassumption.
      - destruct o; cbn in H; try contradiction. destruct H as [H|[]]. injection H as <- _ _. eapply HC. reflexivity. }
    eapply clamp_of_cok; [exact CH|].
    eapply ChainCli.cok_step; [exact E| |exact HT|].
    - intros h d tid smp body ->. unfold Hs. apply in_or_app. right. left. reflexivity.
    - pose proof (cok_self s) as [A B C]. constructor; unfold ChainCli.link_ok, Hs in *;
        (eapply incl_tran; [eassumption|apply incl_appl, incl_refl]).
  Qed.

  Lemma clamp_add_call s k :
    (c_deadline k <= T + ChainInv.MAXT)%N -> clamp_all s -> clamp_all (upd_calls s (calls s ++ [k])).
  Proof.
    intros Hk (A & B & C). split; [|split]; cbn [calls queue tr upd_calls]; try assumption.
    intros x Hx. apply in_app_or in Hx. destruct Hx as [Hx|[<-|[]]]; [apply A, Hx|exact Hk].
  Qed.
End Clamp.

(* ------------------------------------------------------------------------------------------ *)
(* phases: which calls are over (resolved or dropped), which are being dropped *)
Section Phases.
  Implicit Types s : cst.

  Definition ph_over s (j : nat) : bool :=
    match ph s j with Some p => ChainInv.over_phase p | None => false end.
  Definition no_closing s : Prop := forall j, ph s j <> Some PClosing.

  Lemma over_pclass p p' : pclass p = pclass p' -> ChainInv.over_phase p = ChainInv.over_phase p'.
  Proof. destruct p, p'; cbv; congruence. Qed.
  Lemma closing_pclass p p' : pclass p = pclass p' -> p = PClosing -> p' = PClosing.
  Proof. destruct p, p'; cbv; congruence. Qed.

  Lemma Ch_ph i s s' j : Ch i s s' -> j <> i ->
    option_map pclass (ph s' j) = option_map pclass (ph s j).
  Proof. intros C Hj. rewrite <- !nth_error_cls. apply (ch_other _ _ _ C), Hj. Qed.

  Lemma Ch_over i s s' j : Ch i s s' -> j <> i -> ph_over s' j = ph_over s j.
  Proof.
    intros C Hj. pose proof (Ch_ph i s s' j C Hj) as E. unfold ph_over.
    destruct (ph s' j), (ph s j); cbn in E; try discriminate; [|reflexivity].
    apply Some_inj in E. apply over_pclass, E.
  Qed.

  Lemma Ch_closing i s s' j : Ch i s s' -> j <> i -> ph s' j = Some PClosing -> ph s j = Some PClosing.
  Proof.
    intros C Hj H. pose proof (Ch_ph i s s' j C Hj) as E. rewrite H in E.
    destruct (ph s j) as [p|]; cbn in E; [|discriminate]. apply Some_inj in E. f_equal.
    eapply closing_pclass; [exact E|reflexivity].
  Qed.

  Lemma cls_over s s' j : cls s' = cls s -> ph_over s' j = ph_over s j.
  Proof.
    intro E. assert (E2 : option_map pclass (ph s' j) = option_map pclass (ph s j))
      by (rewrite <- !nth_error_cls, E; reflexivity).
    unfold ph_over. destruct (ph s' j), (ph s j); cbn in E2; try discriminate; [|reflexivity].
    apply Some_inj in E2. apply over_pclass, E2.
  Qed.

  Lemma cls_no_closing s s' : cls s' = cls s -> no_closing s -> no_closing s'.
  Proof.
    intros E H j Hj. assert (E2 : option_map pclass (ph s' j) = option_map pclass (ph s j))
      by (rewrite <- !nth_error_cls, E; reflexivity).
    rewrite Hj in E2. destruct (ph s j) as [p|] eqn:EP; cbn in E2; [|discriminate].
    apply Some_inj in E2. apply (H j). rewrite EP. f_equal. eapply closing_pclass; [exact E2|reflexivity].
  Qed.

  Lemma no_closing_calls s : no_closing s <-> forall k, In k (calls s) -> c_phase k <> PClosing.
  Proof.
    unfold no_closing, ph. split.
    - intros H k Hk E. apply In_nth_error in Hk. destruct Hk as [j Hj]. apply (H j). rewrite Hj. cbn. congruence.
    - intros H j E. destruct (nth_error (calls s) j) as [k|] eqn:Ek; [|discriminate].
      cbn in E. apply Some_inj in E. apply (H k); [eapply nth_error_In, Ek|exact E].
  Qed.

  (* polling call i *)
  Lemma poll_call_phases s i r s' :
    poll_call s i = (r, s') -> no_closing s ->
    no_closing s' /\ length (calls s') = length (calls s) /\
    (forall j, ph_over s j = true -> ph_over s' j = true) /\
    (forall o, r = CDone o -> ph_over s' i = true) /\
    (forall j, j <> i -> ph_over s' j = ph_over s j).
  Proof.
    intros E NC. destruct (poll_call_eff _ _ _ _ E) as [C PE].
    split; [|split; [apply C|split; [|split]]].
    - intros j Hj. destruct (Nat.eq_dec j i) as [-> |Hne].
      + unfold pc_eff in PE. rewrite Hj in PE. destruct (ph s i) as [p0|] eqn:E0.
        * destruct r; destruct PE as [PE1 PE2]; try discriminate;
            [destruct PE2; discriminate|].
          injection PE2 as <-. apply (NC i). exact E0.
        * destruct PE; discriminate.
      + apply (NC j). eapply Ch_closing; eassumption.
    - intros j Hj. destruct (Nat.eq_dec j i) as [-> |Hne]; [|rewrite (Ch_over _ _ _ _ C Hne); exact Hj].
      unfold ph_over in *. unfold pc_eff in PE. destruct (ph s i) as [p0|]; [|discriminate].
      destruct r; destruct PE as [PE1 PE2].
      + destruct PE1 as [-> |[-> |[-> | ->]]]; discriminate.
      + rewrite PE2. reflexivity.
      + rewrite PE2. exact Hj.
    - intros o ->. unfold ph_over. unfold pc_eff in PE. destruct (ph s i) as [p0|]; [|destruct PE; discriminate].
      destruct PE as [_ ->]. reflexivity.
    - intros j Hj. apply (Ch_over _ _ _ _ C Hj).
  Qed.

  (* dropping call i (both halves of the guard's drop) *)
  Lemma drop_call_phases s i :
    winv s -> no_closing s ->
    let s' := guard_cancel (guard_close s i) i in
    no_closing s' /\ length (calls s') = length (calls s) /\
    (forall j, ph_over s j = true -> ph_over s' j = true) /\
    ((i < length (calls s))%nat -> ph_over s' i = true) /\
    (forall j, j <> i -> ph_over s' j = ph_over s j).
  Proof.
    intros W NC. cbv zeta. destruct (guard_close_eff s i W) as [C1 P1].
    destruct (guard_cancel_eff (guard_close s i) i) as [C2 P2].
    pose proof (Ch_trans _ _ _ _ C1 C2) as C.
    assert (PI : ph (guard_cancel (guard_close s i) i) i = gx_phase (gc_phase (ph s i))) by (rewrite P2, P1; reflexivity).
    split; [|split; [apply C|split; [|split]]].
    - intros j Hj. destruct (Nat.eq_dec j i) as [-> |Hne].
      + rewrite PI in Hj. destruct (ph s i) as [[]|] eqn:E0; cbn in Hj; discriminate.
      + apply (NC j). eapply Ch_closing; eassumption.
    - intros j Hj. destruct (Nat.eq_dec j i) as [-> |Hne]; [|rewrite (Ch_over _ _ _ _ C Hne); exact Hj].
      unfold ph_over in *. rewrite PI. destruct (ph s i) as [[]|]; cbn in *; congruence.
    - intro Hi. unfold ph_over. rewrite PI. destruct (ph s i) as [[]|] eqn:E0; cbn; try reflexivity.
      exfalso. apply (proj2 (ph_lt s i)) in Hi. congruence.
    - intros j Hj. apply (Ch_over _ _ _ _ C Hj).
  Qed.
End Phases.

(* ------------------------------------------------------------------------------------------ *)
(* ids handed out so far <= calls polled (or dropped) so far *)
Section Npolled.
  Implicit Types s : cst.
  Notation npolled := ChainInv.npolled.
  Notation is_new := ChainInv.is_new.

  Lemma is_new_pclass p p' : pclass p = pclass p' -> is_new p = is_new p'.
  Proof. destruct p, p'; cbv; congruence. Qed.

  Definition polledb (k : call) : bool := negb (is_new (c_phase k)).
  Definition polled_at (l : list call) (i : nat) : bool :=
    match nth_error l i with Some k => polledb k | None => false end.

  Lemma filter_len_eq : forall (l l' : list call),
    (forall j, option_map polledb (nth_error l' j) = option_map polledb (nth_error l j)) ->
    length (filter polledb l') = length (filter polledb l).
  Proof.
    induction l as [|x r IH]; intros [|y r'] H.
    - reflexivity.
    - specialize (H 0%nat). discriminate.
    - specialize (H 0%nat). discriminate.
    - pose proof (H 0%nat) as H0. cbn in H0. apply Some_inj in H0. cbn [filter]. rewrite H0.
      assert (E : length (filter polledb r') = length (filter polledb r)) by (apply IH; intro j; apply (H (S j))).
      destruct (polledb x); cbn [length]; lia.
  Qed.

  Lemma filter_len_except : forall (l l' : list call) i,
    length l' = length l ->
    (forall j, j <> i -> option_map polledb (nth_error l' j) = option_map polledb (nth_error l j)) ->
    (length (filter polledb l') + b2n (polled_at l i) = length (filter polledb l) + b2n (polled_at l' i))%nat.
  Proof.
    induction l as [|x r IH]; intros [|y r'] i EL H; cbn in EL; try discriminate.
    - unfold polled_at. destruct i; cbn; reflexivity.
    - injection EL as EL. destruct i as [|i].
      + assert (E : length (filter polledb r') = length (filter polledb r)).
        { apply filter_len_eq. intro j. apply (H (S j)). discriminate. }
        unfold polled_at. cbn [nth_error filter].
        destruct (polledb x), (polledb y); cbn [length b2n]; lia.
      + pose proof (H 0%nat ltac:(discriminate)) as H0. cbn in H0. apply Some_inj in H0.
        assert (IH' : (length (filter polledb r') + b2n (polled_at r i)
                       = length (filter polledb r) + b2n (polled_at r' i))%nat).
        { apply IH; [exact EL|]. intros j Hj. apply (H (S j)). congruence. }
        unfold polled_at in *. cbn [nth_error filter]. rewrite H0.
        destruct (polledb x); cbn [length]; lia.
  Qed.

  Lemma Ch_polledb i s s' j : Ch i s s' -> j <> i ->
    option_map polledb (nth_error (calls s') j) = option_map polledb (nth_error (calls s) j).
  Proof.
    intros C Hj. pose proof (Ch_ph i s s' j C Hj) as E. unfold ph in E.
    destruct (nth_error (calls s') j), (nth_error (calls s) j); cbn in *; try discriminate; [|reflexivity].
    apply Some_inj in E. unfold polledb. rewrite (is_new_pclass _ _ E). reflexivity.
  Qed.

  Lemma npolled_Ch i s s' : Ch i s s' ->
    (npolled s' + b2n (polled_at (calls s) i) = npolled s + b2n (polled_at (calls s') i))%nat.
  Proof.
    intro C. unfold npolled. apply filter_len_except; [apply C|]. intros j Hj. apply (Ch_polledb _ _ _ _ C Hj).
  Qed.

  Lemma npolled_cls s s' : cls s' = cls s -> npolled s' = npolled s.
  Proof.
    intro E. unfold npolled. apply filter_len_eq. intro j.
    assert (E2 : option_map pclass (ph s' j) = option_map pclass (ph s j))
      by (rewrite <- !nth_error_cls, E; reflexivity).
    unfold ph in E2. destruct (nth_error (calls s') j), (nth_error (calls s) j); cbn in *; try discriminate; [|reflexivity].
    apply Some_inj in E2. unfold polledb. rewrite (is_new_pclass _ _ E2). reflexivity.
  Qed.

  Lemma nid_poll_call_old s i :
    ph s i <> Some PNew -> next_id (snd (poll_call s i)) = next_id s.
  Proof.
    unfold ph, poll_call. destruct (nth_error (calls s) i) as [c|]; [|reflexivity]. cbn.
    intro H. destruct (c_phase c); try reflexivity; try congruence.
    - destruct (rx_closed s); [rewrite nid_fail_shutdown|rewrite nid_enqueue]; reflexivity.
    - apply nid_fail_shutdown.
    - apply nid_poll_slot.
  Qed.

  Lemma nid_bound_poll_call s i r s' :
    poll_call s i = (r, s') -> (next_id s + 1 < two64)%N ->
    (next_id s <= N.of_nat (npolled s))%N -> (next_id s' <= N.of_nat (npolled s'))%N.
  Proof.
    intros E Hw B. destruct (poll_call_eff _ _ _ _ E) as [C PE].
    pose proof (npolled_Ch _ _ _ C) as NP. pose proof (nid_poll_call (fun _ => O) s i Hw) as NB.
    pose proof (nid_poll_call_old s i) as NO. rewrite E in NB, NO. cbn [snd] in NB, NO. destruct NB as [NB1 NB2].
    unfold polled_at in NP. unfold pc_eff, ph in *.
    destruct (nth_error (calls s) i) as [k|] eqn:Ek; cbn in *.
    - destruct (nth_error (calls s') i) as [k'|] eqn:Ek'; cbn in *.
      + unfold polledb in NP. destruct (c_phase k) eqn:EP.
        * (* PNew *) destruct r; destruct PE as [PE0 PE].
          -- destruct PE as [PE|PE]; injection PE as PE; rewrite PE in NP; cbn in NP; alia.
          -- injection PE as PE. rewrite PE in NP. cbn in NP. alia.
          -- destruct PE0 as [PE0|[PE0|PE0]]; discriminate.
        * rewrite NO by discriminate.
          destruct r; destruct PE as [_ PE]; try (destruct PE as [PE|PE]); injection PE as PE; rewrite PE in NP; cbn in NP; alia.
        * rewrite NO by discriminate.
          destruct r; destruct PE as [_ PE]; try (destruct PE as [PE|PE]); injection PE as PE; rewrite PE in NP; cbn in NP; alia.
        * rewrite NO by discriminate.
          destruct r; destruct PE as [_ PE]; try (destruct PE as [PE|PE]); injection PE as PE; rewrite PE in NP; cbn in NP; alia.
        * rewrite NO by discriminate.
          destruct r; destruct PE as [_ PE]; try (destruct PE as [PE|PE]); injection PE as PE; rewrite PE in NP; cbn in NP; alia.
        * rewrite NO by discriminate.
          destruct r; destruct PE as [_ PE]; try (destruct PE as [PE|PE]); injection PE as PE; rewrite PE in NP; cbn in NP; alia.
        * rewrite NO by discriminate.
          destruct r; destruct PE as [_ PE]; try (destruct PE as [PE|PE]); injection PE as PE; rewrite PE in NP; cbn in NP; alia.
        * rewrite NO by discriminate.
          destruct r; destruct PE as [_ PE]; try (destruct PE as [PE|PE]); injection PE as PE; rewrite PE in NP; cbn in NP; alia.
      + destruct r; destruct PE as [_ PE]; try (destruct PE as [PE|PE]); discriminate.
    - rewrite NO by discriminate. destruct PE as [_ PE].
      destruct (nth_error (calls s') i); [discriminate|]. cbn in NP. alia.
  Qed.

  Lemma nid_bound_drop_call s i :
    winv s -> (next_id s <= N.of_nat (npolled s))%N ->
    (next_id (guard_cancel (guard_close s i) i) <= N.of_nat (npolled (guard_cancel (guard_close s i) i)))%N.
  Proof.
    intros W B. destruct (guard_close_eff s i W) as [C1 P1].
    destruct (guard_cancel_eff (guard_close s i) i) as [C2 P2].
    pose proof (Ch_trans _ _ _ _ C1 C2) as C. pose proof (npolled_Ch _ _ _ C) as NP.
    rewrite nid_guard_cancel, nid_guard_close.
    assert (PI : ph (guard_cancel (guard_close s i) i) i = gx_phase (gc_phase (ph s i))) by (rewrite P2, P1; reflexivity).
    unfold polled_at, ph, polledb in *.
    destruct (nth_error (calls s) i) as [k|]; destruct (nth_error (calls (guard_cancel (guard_close s i) i)) i) as [k'|];
      cbn [option_map b2n] in *.
    - destruct (c_phase k); cbn in PI; injection PI as PI; rewrite PI in NP; cbn in NP; alia.
    - destruct (c_phase k); cbn in PI; discriminate.
    - cbn in PI. discriminate.
    - alia.
  Qed.

  Lemma npolled_add_call s k : (npolled s <= npolled (upd_calls s (calls s ++ [k])))%nat.
  Proof. unfold npolled. cbn [calls upd_calls]. rewrite filter_app, app_length. lia. Qed.
End Npolled.

(* ------------------------------------------------------------------------------------------ *)
(* the client of a node (its server fixed): every op keeps `cross` and `cli_inv` *)
Section NodeClient.
  Variable T : N.
  Variable sv : ChainInv.sstate.
  Implicit Types c : cst.

  Record NI c : Prop := { ni_x : ChainInv.cross T [] c (tr c) sv; ni_c : ChainInv.cli_inv T c }.

  Lemma NI_clamp_all c : NI c -> clamp_all T c.
  Proof.
    intros [X C]. split; [apply C|split; [apply C|]].
    intros id dl tn b H. eapply (ChainInv.x_clamp _ _ _ _ _ X), H.
  Qed.

  Lemma NI_CI c : NI c -> CI T sv c.
  Proof. intros [X C]. constructor; [exact X|apply C|apply C|apply C|apply C]. Qed.

  (* the injection of the current link into the client's transport field *)
  Lemma NI_inject c l :
    ChainInv.cli_inv T c -> ChainInv.cross T [] c l sv -> NI (upd_tr c l (fused c) (plog c)).
  Proof.
    intros C X. constructor.
    - cbn [tr upd_tr]. eapply ChainCross.cross_cframe; [..|exact X]; try reflexivity. apply sent_eq; reflexivity.
    - destruct C as [L Te Fi Fu NCl Nw Cc Cq Mx Nb]. constructor; cbn; try assumption.
      eapply Live_X; [apply XFrame_upd_tr|exact L].
  Qed.

  Lemma NI_user c c' :
    NI c -> UFrame c c' -> tr c' = tr c -> SL c c' -> Live c' -> now c' = now c ->
    no_closing c' -> clamp_all T c' -> (next_id c' <= N.of_nat (ChainInv.npolled c'))%N -> NI c'.
  Proof.
    intros [X C] UF Et S L' Nw NC' CA NB'. constructor.
    - rewrite Et. eapply ChainCross.cross_cframe; [| | |exact X].
      + unfold ChainInv.ifl. rewrite (uf_inflight _ _ UF). reflexivity.
      + apply (uf_timers _ _ UF).
      + intro i. apply SL_sent, S.
    - destruct C as [L Te Fi Fu NCl Nw0 Cc Cq Mx Nb]. constructor.
      + exact L'.
      + rewrite (uf_terminal _ _ UF). exact Te.
      + rewrite (uf_finished _ _ UF). exact Fi.
      + rewrite (uf_fused _ _ UF). exact Fu.
      + apply no_closing_calls, NC'.
      + rewrite Nw. exact Nw0.
      + apply CA.
      + apply CA.
      + rewrite (uf_maxif _ _ UF). exact Mx.
      + exact NB'.
  Qed.

  Variable fuel : cst -> nat.

  Lemma NI_step_poll_call c i c' os :
    NI c -> (next_id c + 1 < two64)%N -> step ctp fuel c (PollCall i) = (c', os) ->
    exists r, poll_call c i = (r, c') /\ os = match r with CNothing => [] | _ => [OCall r] end /\
              NI c' /\
              length (calls c') = length (calls c) /\
              (forall j, ph_over c j = true -> ph_over c' j = true) /\
              (forall o, r = CDone o -> ph_over c' i = true) /\
              (forall j, j <> i -> ph_over c' j = ph_over c j).
  Proof.
    intros H Hw E. pose proof (clamp_step T fuel c _ _ _ E) as CS.
    cbn [step] in E. destruct (poll_call c i) as [r c1] eqn:EP. injection E as <- <-.
    exists r. split; [reflexivity|]. split; [reflexivity|].
    assert (NC : no_closing c) by (apply no_closing_calls, (ChainInv.cv_noclosing _ _ (ni_c c H))).
    destruct (poll_call_phases _ _ _ _ EP NC) as (NC' & Ln & P1 & P2 & P3).
    split; [|auto].
    pose proof (UFrame_poll_call c i) as UF. pose proof (tr_poll_call c i) as Et.
    pose proof (SL_poll_call c i Hw) as S. pose proof (Live_poll_call c i (ChainInv.cv_live _ _ (ni_c c H)) Hw) as L'.
    pose proof (ChainCli.now_poll_call c i) as Nw. rewrite EP in *. cbn [snd] in *.
    eapply NI_user; try eassumption.
    - apply CS; [discriminate|discriminate|apply NI_clamp_all, H].
    - eapply nid_bound_poll_call; [exact EP|exact Hw|apply (ChainInv.cv_nid _ _ (ni_c c H))].
  Qed.

  Lemma NI_step_drop_call c i c' os :
    NI c -> step ctp fuel c (DropCall i) = (c', os) ->
    os = [] /\ NI c' /\
    length (calls c') = length (calls c) /\
    (forall j, ph_over c j = true -> ph_over c' j = true) /\
    ((i < length (calls c))%nat -> ph_over c' i = true) /\
    (forall j, j <> i -> ph_over c' j = ph_over c j).
  Proof.
    intros H E. pose proof (clamp_step T fuel c _ _ _ E) as CS.
    cbn [step] in E.
    assert (NC : no_closing c) by (apply no_closing_calls, (ChainInv.cv_noclosing _ _ (ni_c c H))).
    assert (NP : option_map c_phase (nth_error (calls c) i) <> Some PClosing) by (apply (NC i)).
    assert (E' : c' = guard_cancel (guard_close c i) i /\ os = []).
    { destruct (option_map c_phase (nth_error (calls c) i)) as [[]|]; injection E as <- <-; try (split; reflexivity).
      exfalso. apply NP. reflexivity. }
    destruct E' as [-> ->]. split; [reflexivity|].
    pose proof (ChainInv.cv_live _ _ (ni_c c H)) as L.
    destruct (drop_call_phases c i (l_w _ L) NC) as (NC' & Ln & P1 & P2 & P3).
    split; [|auto].
    eapply NI_user; try eassumption.
    - eapply UFrame_trans; [apply UFrame_guard_close|apply UFrame_guard_cancel].
    - rewrite tr_guard_cancel, tr_guard_close. reflexivity.
    - eapply SL_trans; [apply SL_guard_close, (l_w _ L)|apply SL_guard_cancel].
    - apply Live_guard_cancel, Live_guard_close, L.
    - rewrite ChainCli.now_guard_cancel, ChainCli.now_guard_close. reflexivity.
    - apply CS; [discriminate|discriminate|apply NI_clamp_all, H].
    - apply nid_bound_drop_call; [apply (l_w _ L)|apply (ChainInv.cv_nid _ _ (ni_c c H))].
  Qed.

  (* a new call future (never polled) with a deadline within the span *)
  Lemma NI_add_call c k :
    NI c -> c_phase k = PNew \/ c_phase k = PGone -> (c_deadline k <= T + ChainInv.MAXT)%N ->
    NI (upd_calls c (calls c ++ [k])) /\
    (forall j, (j < length (calls c))%nat -> ph_over (upd_calls c (calls c ++ [k])) j = ph_over c j).
  Proof.
    intros H Hp Hd. split.
    - eapply NI_user; [exact H|apply UFrame_upd_calls|reflexivity| | |reflexivity| | |].
      + apply SL_add_call. destruct Hp as [-> | ->]; reflexivity.
      + apply Live_call; [apply H|exact Hp].
      + apply no_closing_calls. cbn [calls upd_calls]. intros x Hx. apply in_app_or in Hx.
        destruct Hx as [Hx|[<-|[]]]; [apply (ChainInv.cv_noclosing _ _ (ni_c c H)), Hx|destruct Hp as [-> | ->]; discriminate].
      + apply clamp_add_call; [exact Hd|apply NI_clamp_all, H].
      + pose proof (npolled_add_call c k). pose proof (ChainInv.cv_nid _ _ (ni_c c H)).
        change (next_id (upd_calls c (calls c ++ [k]))) with (next_id c). lia.
    - intros j Hj. unfold ph_over, ph. cbn [calls upd_calls]. rewrite nth_error_app1 by exact Hj. reflexivity.
  Qed.

  (* the dispatch *)
  Lemma NI_step_dispatch c c' os :
    NI c -> step ctp fuel c PollDispatch = (c', os) ->
    exists lg r a b, os = [OCalls lg; ODisp r; OGauge a b] /\
      match r with
      | DReady _ => True
      | DPending => NI c' /\ cancels c' = [] /\ (forall j, ph_over c' j = ph_over c j)
                    /\ length (calls c') = length (calls c) /\ next_id c' = next_id c
      | DFuel => NI c' /\ (forall j, ph_over c' j = ph_over c j)
                 /\ length (calls c') = length (calls c) /\ next_id c' = next_id c
      end.
  Proof.
    intros H E. pose proof (clamp_step T fuel c _ _ _ E) as CS.
    specialize (CS ltac:(discriminate) ltac:(discriminate) (NI_clamp_all c H)).
    destruct (CI_step_dispatch T sv fuel c c' os (NI_CI c H)
                (ChainInv.cv_terminal _ _ (ni_c c H)) (ChainInv.cv_finished _ _ (ni_c c H)) E)
      as (lg & r & a & b & -> & R).
    exists lg, r, a, b. split; [reflexivity|].
    assert (CL : cls c' = cls c /\ max_if c' = max_if c /\ next_id c' = next_id c).
    { cbn [step] in E. rewrite (ChainInv.cv_finished _ _ (ni_c c H)) in E.
      rewrite (l_dropped _ (ChainInv.cv_live _ _ (ni_c c H))) in E.
      set (c0 := upd_tr c (tr c) (fused c) []) in *.
      destruct (poll_dispatch ctp (fuel c0) c0) as [r0 c1] eqn:EP. injection E as <- _.
      unfold poll_dispatch in EP. change (terminal c0) with (terminal c) in EP.
      rewrite (ChainInv.cv_terminal _ _ (ni_c c H)) in EP.
      destruct (run_loop ctp (fuel c0) c0) as [rr c2] eqn:ER.
      assert (L0 : Live c0) by (eapply Live_X; [apply XFrame_upd_tr|apply H]).
      destruct (Live_run_loop ctp _ _ _ _ L0 ER) as [_ EC].
      pose proof (PFrame_run_loop ctp _ _ _ _ ER) as PF.
      destruct rr as [|e| |].
      - injection EP as <- <-. cbn. split; [exact EC|split; [apply PF|apply PF]].
      - (* an error cannot happen; whatever the state, R is about DReady or a poll that ... *)
        assert (HC0 : CI T sv c0).
        { unfold c0. rewrite (ChainInv.cv_fused _ _ (ni_c c H)). apply CI_log, NI_CI, H. }
        destruct (CI_run_loop T sv _ _ _ _ HC0 ER) as [_ NE']. exfalso. eapply NE'. reflexivity.
      - injection EP as <- <-. cbn. split; [exact EC|split; [apply PF|apply PF]].
      - injection EP as <- <-. cbn. split; [exact EC|split; [apply PF|apply PF]]. }
    destruct CL as (CL & MX & NX).
    assert (mkNI : CI T sv c' -> terminal c' = None -> finished c' = None -> NI c').
    { intros [X L Fu Nw Q] Te Fi. constructor; [exact X|]. constructor; try assumption.
      - apply no_closing_calls. eapply cls_no_closing; [exact CL|].
        apply no_closing_calls, (ChainInv.cv_noclosing _ _ (ni_c c H)).
      - apply CS.
      - rewrite MX. apply (ChainInv.cv_maxif _ _ (ni_c c H)).
      - rewrite NX, (npolled_cls _ _ CL). apply (ChainInv.cv_nid _ _ (ni_c c H)). }
    assert (LN : length (calls c') = length (calls c)).
    { pose proof (f_equal (@length _) CL) as EL. unfold cls in EL. rewrite !map_length in EL. exact EL. }
    destruct r as [d| |]; [exact I| |].
    - destruct R as (R1 & R2 & R3 & R4). split; [apply mkNI; assumption|].
      split; [exact R4|]. split; [intro j; apply cls_over, CL|]. split; assumption.
    - destruct R as (R1 & R2 & R3). split; [apply mkNI; assumption|].
      split; [intro j; apply cls_over, CL|]. split; assumption.
  Qed.

  (* nothing is in flight once every call is over and every queued cancellation is written *)
  Lemma ifl_empty c :
    Live c -> cancels c = [] -> (forall j, (j < length (calls c))%nat -> ph_over c j = true) ->
    forall id, ~ In id (ChainInv.ifl c).
  Proof.
    intros L Hc Ho id Hin. unfold ChainInv.ifl in Hin. apply cI_pos_In in Hin.
    destruct (l_cov _ L id Hin) as [X|X]; [rewrite Hc in X; destruct X|].
    unfold CA in X. apply cP_pos in X. destruct X as (j & k & Hk & G & _).
    specialize (Ho j ltac:(apply nth_error_Some; congruence)). unfold ph_over, ph in Ho. rewrite Hk in Ho.
    cbn in Ho. destruct (c_phase k); discriminate.
  Qed.
End NodeClient.

(* the clock advances *)
Lemma NI_step_advance T sv fuel c dt c' os :
  NI T sv c -> step ctp fuel c (Advance dt) = (c', os) ->
  os = [] /\ tr c' = tr c /\ ChainInv.cli_inv (T + dt) c' /\
  (forall s', ChainInv.cross (T + dt) [] c (tr c) s' -> ChainInv.cross (T + dt) [] c' (tr c') s') /\
  calls c' = calls c.
Proof.
  intros [X C] E. cbn [step] in E. injection E as <- <-. split; [reflexivity|]. split; [reflexivity|].
  split; [|split; [|reflexivity]].
  - destruct C as [L Te Fi Fu NCl Nw Cc Cq Mx Nb]. constructor; cbn; try assumption.
    + eapply Live_eq; [..|exact L]; reflexivity.
    + rewrite Nw. reflexivity.
    + intros k Hk. specialize (Cc k Hk). lia.
    + intros q Hq. specialize (Cq q Hq). lia.
  - intros s' X'. cbn [tr upd_misc]. eapply ChainCross.cross_cframe; [..|exact X']; try reflexivity.
    apply sent_eq; reflexivity.
Qed.

(* back from the injected form *)
Lemma NI_uninject T sv (c : cst) l f lg :
  NI T sv (upd_tr c l f lg) -> fused c = f -> ChainInv.cli_inv T c /\ ChainInv.cross T [] c l sv.
Proof.
  intros [X C] Ef. split.
  - destruct C as [L Te Fi Fu NCl Nw Cc Cq Mx Nb]. constructor; cbn in *; try assumption.
    + eapply Live_eq; [..|exact L]; reflexivity.
    + congruence.
  - cbn [tr upd_tr] in X. eapply ChainCross.cross_cframe; [..|exact X]; try reflexivity. apply sent_eq; reflexivity.
Qed.
