(* Chain proofs: the producing handler served the caller's own request (stmt_resp_body), on
   untainted runs of fewer than 2^64 - 1 ops.  The pieces:
   - value provenance with the request id (ChainRespCli / ChainRespSrv with P id v): an Ok value
     under request id `id` on node i was produced by the handler incarnation whose recorded
     yield has that id (ChainResp2.ny_hid);
   - a recorded yield was written into that link with the same id and body (ny_sub);
   - request ids identify the caller's request (ChainIds.idc, while ids do not wrap: ChainQuiet.GU):
     the call holding that id has that body;
   - bodies are carried verbatim: head call j has the body of the monitor's head call j, the
     nested call of handler k has the body of the request yielded as incarnation k. *)
From Coq Require Import List Bool Arith NArith Lia.
Import ListNotations.
From TarpcV Require Import Base Transport TimerWheel Chain ChainSpec ChainBase ChainRespSpec ChainLoops.
From TarpcV Require Import ChainInv ChainGood ChainQuiet ChainProofs ChainResp2.
From TarpcV Require Client Server ClientSimBase ClientProofsG1Rec ClientWaiters ChainIds ChainRespCli
  ChainRespSrv ChainResp ChainResp2Cli ChainResp3 ChainResp4.

Notation cst := (Client.cstate (T := link)).
Notation winv := ClientSimBase.winv.
Notation idc := ChainIds.idc.

(* ------------------------------------------------------------------------------------------ *)
(* the bodies of the calls of a client: only ever extended *)
Definition bods (c : cst) : list N := map Client.c_body (Client.calls c).

Lemma bods_cib (c c' : cst) : map ChainIds.cib (Client.calls c') = map ChainIds.cib (Client.calls c) -> bods c' = bods c.
Proof.
  intro E. unfold bods. assert (X : forall l, map Client.c_body l = map snd (map ChainIds.cib l))
    by (intro l; rewrite map_map; reflexivity).
  rewrite !X, E. reflexivity.
Qed.
Lemma nth_eq_ext {A} : forall (l l' : list A), (forall j, nth_error l j = nth_error l' j) -> l = l'.
Proof.
  induction l as [|x r IH]; intros [|y r'] H; [reflexivity|specialize (H 0); discriminate|specialize (H 0); discriminate|].
  pose proof (H 0) as H0. cbn in H0. injection H0 as <-. f_equal. apply IH. intro j. apply (H (S j)).
Qed.
Lemma bods_phk (c c' : cst) : ClientWaiters.phk c c' -> bods c' = bods c.
Proof.
  intros (L & _ & IB). unfold bods. apply nth_eq_ext. intro j. rewrite !nth_error_map.
  destruct (nth_error (Client.calls c) j) as [k|] eqn:E.
  - destruct (IB j k E) as (k' & E' & _ & Eb & _). rewrite E'. cbn. rewrite Eb. reflexivity.
  - apply nth_error_None in E. rewrite <- L in E. apply nth_error_None in E. rewrite E. reflexivity.
Qed.

Lemma set_nth_same_val {A} : forall i (x : A) l, nth_error l i = Some x -> Client.set_nth i x l = l.
Proof.
  induction i as [|i IH]; intros x [|y r] E; cbn in *; try discriminate; try reflexivity.
  - injection E as ->. reflexivity.
  - f_equal. apply IH, E.
Qed.

(* every op of the chain's clients: bodies only appended *)
Lemma bods_step (c : cst) o c' os :
  Client.step ctp cfuel c o = (c', os) -> (forall g, o <> Client.Tr g) -> winv c ->
  bods c' = bods c ++ match o with Client.Call _ _ _ _ body => [body] | _ => [] end.
Proof.
  intros E HT W. destruct o; cbn [Client.step] in E; rewrite ?app_nil_r.
  - injection E as <- _. destruct (nth_error _ _) as [[|]|]; reflexivity.
  - injection E as <- _. destruct (nth_error _ _) as [[|]|]; reflexivity.
  - injection E as <- _. unfold bods. cbn [Client.calls Client.upd_calls]. rewrite map_app. reflexivity.
  - destruct (nth_error (Client.calls c) i) as [k|] eqn:Ek.
    + pose proof (ChainIds.poll_call_ids c i k Ek) as PI. destruct (Client.poll_call c i) as [r c1]. cbn [snd] in PI.
      injection E as <- _. destruct (Client.c_phase k); destruct PI as [_ C]; try (apply bods_cib, C).
      unfold bods. assert (X : forall l, map Client.c_body l = map snd (map ChainIds.cib l))
        by (intro l; rewrite map_map; reflexivity).
      rewrite !X, C. rewrite ChainIds.map_set_nth. cbn [snd]. f_equal. apply set_nth_same_val.
      rewrite !nth_error_map, Ek. reflexivity.
    + unfold Client.poll_call in E. rewrite Ek in E. injection E as <- _. reflexivity.
  - injection E as <- _. destruct (option_map _ _) as [[]|]; try reflexivity;
      apply bods_cib; rewrite ChainIds.cib_guard_cancel; apply ChainIds.cib_guard_close.
  - injection E as <- _. destruct (option_map _ _) as [[]|]; try reflexivity; apply bods_cib, ChainIds.cib_guard_close.
  - injection E as <- _. apply bods_cib, ChainIds.cib_guard_cancel.
  - apply bods_phk. eapply (ClientWaiters.phk_step_dispatch ctp cfuel); [|exact W]. cbn [Client.step]. exact E.
  - injection E as <- _. destruct (Client.dropped c); [reflexivity|]. apply bods_phk, ClientWaiters.phk_drop_dispatch, W.
  - injection E as <- _. reflexivity.
  - exfalso. eapply HT. reflexivity.
Qed.

(* the ops the chain makes on a client, but the dispatch poll: the id invariant *)
Definition chain_op (o : Client.op (T := link)) : Prop :=
  match o with
  | Client.Call _ _ _ _ _ | Client.PollCall _ | Client.DropCall _ | Client.DropDispatch | Client.Advance _ => True
  | _ => False
  end.

Lemma nid_drop_dispatch (c : cst) : Client.next_id (Client.drop_dispatch c) = Client.next_id c.
Proof.
  unfold Client.drop_dispatch. cbn.
  assert (FT : forall {B} (g : B -> N) (l : list B) (x : cst),
               Client.next_id (fold_left (fun acc p => Client.slot_tx_drop acc (g p)) l x) = Client.next_id x).
  { intros B g l. induction l as [|y r IH]; intro x; cbn; [reflexivity|]. rewrite IH. reflexivity. }
  rewrite !FT. apply (ClientProofsG1Frames.pf_nid _ _ (ClientProofsG1Frames.IFrame_P _ _ (ClientProofsG1Frames.IFrame_q_close c))).
Qed.

Lemma idc_step_user R (c : cst) o c' os :
  Client.step ctp cfuel c o = (c', os) -> chain_op o -> winv c ->
  (Client.next_id c + 1 < two64)%N -> idc R c -> idc R c'.
Proof.
  intros E CO W NW H. destruct o; cbn [chain_op] in CO; try contradiction; cbn [Client.step] in E.
  - injection E as <- _. apply ChainIds.idc_add_call; [|exact H]. cbn. destruct (nth_error _ _) as [[|]|]; auto.
  - pose proof (ChainIds.idc_poll_call R c i NW H) as K. destruct (Client.poll_call c i). injection E as <- _. exact K.
  - injection E as <- _. apply ChainIds.idc_drop_call; assumption.
  - injection E as <- _. destruct (Client.dropped c); [exact H|].
    apply (ChainIds.idc_idle R c); [|intros q []|exact H].
    apply ChainIds.idle_phk; [apply ClientWaiters.phk_drop_dispatch, W|apply nid_drop_dispatch].
  - injection E as <- _. apply (ChainIds.idc_idle R c); [|intros q Hq; exact Hq|exact H].
    apply ChainIds.idle_phk; [apply ClientWaiters.phk_eq; reflexivity|reflexivity].
Qed.

(* ------------------------------------------------------------------------------------------ *)
(* projections of the monitor *)
Notation dnl := (list (nat * nat * N)).
Lemma rm_dn_fold d l : forall x, rm_dn (fold_left (rm_obs d) l x) = fold_left dn_obs l (rm_dn x).
Proof. induction l as [|e r IH]; intro x; cbn [fold_left]; [reflexivity|]. rewrite IH. reflexivity. Qed.
Lemma rm_ys_fold d l : forall x, rm_ys (fold_left (rm_obs d) l x) = fold_left ys_obs l (rm_ys x).
Proof. induction l as [|e r IH]; intro x; cbn [fold_left]; [reflexivity|]. rewrite IH. reflexivity. Qed.
Lemma rm_rq_fold d l : forall x, rm_rq (fold_left (rm_obs d) l x) = fold_left rq_obs l (rm_rq x).
Proof. induction l as [|e r IH]; intro x; cbn [fold_left]; [reflexivity|]. rewrite IH. reflexivity. Qed.

Lemma dn_fold_incl l : forall dn, incl dn (fold_left dn_obs l dn).
Proof.
  induction l as [|e r IH]; intro dn; cbn [fold_left]; [apply incl_refl|].
  eapply incl_tran; [|apply IH]. destruct e; try apply incl_refl. destruct b; try apply incl_refl. apply incl_tl, incl_refl.
Qed.
Lemma ys_fold_incl l : forall ys, incl ys (fold_left ys_obs l ys).
Proof.
  induction l as [|e r IH]; intro ys; cbn [fold_left]; [apply incl_refl|].
  eapply incl_tran; [|apply IH]. destruct e; try apply incl_refl. apply incl_tl, incl_refl.
Qed.
Lemma ys_fold_noyield l : forall ys, forallb ChainResp3.noyield l = true -> fold_left ys_obs l ys = ys.
Proof.
  induction l as [|e r IH]; intros ys H; cbn [fold_left]; [reflexivity|].
  cbn [forallb] in H. apply andb_true_iff in H. destruct H as [H1 H2]. rewrite <- (IH ys H2) at 2.
  destruct e; try reflexivity. discriminate.
Qed.
Definition nohdone (e : cobs) : bool := match e with KHDone _ _ (Server.BOk _) => false | _ => true end.
Lemma dn_fold_nohdone l : forall dn, forallb nohdone l = true -> fold_left dn_obs l dn = dn.
Proof.
  induction l as [|e r IH]; intros dn H; cbn [fold_left]; [reflexivity|].
  cbn [forallb] in H. apply andb_true_iff in H. destruct H as [H1 H2]. rewrite <- (IH dn H2) at 2.
  destruct e; try reflexivity. destruct b; try reflexivity. discriminate.
Qed.

Definition Pid (ys : list (nat * nat * N * N)) (dn : dnl) (i : nat) : N -> N -> Prop :=
  fun id v => exists k b, In (i, k, id, b) ys /\ In (i, k, v) dn.
Lemma Pid_mono ys ys' dn dn' i id v : incl ys ys' -> incl dn dn' -> Pid ys dn i id v -> Pid ys' dn' i id v.
Proof. intros I1 I2 (k & b & A & B). exists k, b. split; [apply I1, A|apply I2, B]. Qed.

Definition rqof (rq : list (nat * N * N)) (i : nat) : list (N * N) :=
  flat_map (fun p => let '(i', id, b) := p in if Nat.eqb i' i then [(id, b)] else []) rq.
Lemma rqof_in rq i id b : In (id, b) (rqof rq i) <-> In (i, id, b) rq.
Proof.
  unfold rqof. rewrite in_flat_map. split.
  - intros ([[i' id'] b'] & Hin & H). destruct (Nat.eqb_spec i' i); [|destruct H].
    destruct H as [[= <- <-]|[]]. subst. exact Hin.
  - intro H. exists (i, id, b). split; [exact H|]. rewrite Nat.eqb_refl. left. reflexivity.
Qed.

Lemma served_in ys dn i b v k id :
  In (i, k, id, b) ys -> In (i, k, v) dn -> served ys dn i b v = true.
Proof.
  intros A B. unfold served. apply existsb_exists. exists (i, k, id, b). split; [exact A|].
  rewrite Nat.eqb_refl, N.eqb_refl. cbn [andb]. unfold mem_dn. apply existsb_exists. exists (i, k, v).
  split; [exact B|]. rewrite !Nat.eqb_refl, N.eqb_refl. reflexivity.
Qed.

(* ------------------------------------------------------------------------------------------ *)
(* body links: carried verbatim *)
Record BL (ys : list (nat * nat * N * N)) (mc : list hcall) (ch : chain) : Prop := {
  bl_len : forall i nd, nth_error ch i = Some nd -> length (n_hs nd) = length (Server.s_handlers (n_srv nd));
  bl_hb : forall i nd k h, nth_error ch i = Some nd -> nth_error (n_hs nd) k = Some h ->
            ys_body ys i k = Some (hi_body h);
  bl_nb : forall i nd nx k h j, nth_error ch i = Some nd -> nth_error ch (S i) = Some nx ->
            nth_error (n_hs nd) k = Some h -> hi_call h = Some j ->
            nth_error (bods (n_cli nx)) j = Some (hi_body h);
  bl_hc : forall nd0 j h, nth_error ch 0 = Some nd0 -> nth_error mc j = Some h ->
            nth_error (bods (n_cli nd0)) j = Some (hc_body h) }.

Lemma nth_app_some {A} (l l' : list A) j x : nth_error l j = Some x -> nth_error (l ++ l') j = Some x.
Proof. intro E. rewrite nth_error_app1; [exact E|]. apply nth_error_Some. congruence. Qed.

(* node i is replaced by a node with the same handler side and an extended body list *)
Lemma bl_set_client ys mc i nd nd' ch ext :
  nth_error ch i = Some nd -> n_hs nd' = n_hs nd ->
  length (Server.s_handlers (n_srv nd')) = length (Server.s_handlers (n_srv nd)) ->
  bods (n_cli nd') = bods (n_cli nd) ++ ext -> BL ys mc ch -> BL ys mc (set_node i nd' ch).
Proof.
  intros E0 EH EL EB [A B C D]. pose proof (nth_error_lt _ _ _ E0) as L.
  assert (G : forall j x, nth_error (set_node i nd' ch) j = Some x ->
              (j = i /\ x = nd') \/ (j <> i /\ nth_error ch j = Some x)).
  { intros j x E. destruct (Nat.eq_dec i j) as [<-|Ne].
    - rewrite (nth_set_node_same i nd' ch L) in E. injection E as <-. auto.
    - rewrite (nth_set_node_other i j nd' ch Ne) in E. auto. }
  constructor.
  - intros j x E. destruct (G j x E) as [[-> ->]|[_ E']]; [rewrite EH, EL; apply (A _ _ E0)|apply (A _ _ E')].
  - intros j x k h E Eh. destruct (G j x E) as [[-> ->]|[_ E']]; [rewrite EH in Eh; apply (B _ _ _ _ E0 Eh)|apply (B _ _ _ _ E' Eh)].
  - intros j x y k h j' E Ey Eh Ej.
    destruct (G j x E) as [[Ei Ex]|[Nj E']]; destruct (G (S j) y Ey) as [[Es Ey0]|[Ns Ey']]; try lia.
    + subst j x. rewrite EH in Eh. apply (C _ _ _ _ _ _ E0 Ey' Eh Ej).
    + subst y. rewrite EB. apply nth_app_some. rewrite <- Es in E0. apply (C _ _ _ _ _ _ E' E0 Eh Ej).
    + apply (C _ _ _ _ _ _ E' Ey' Eh Ej).
  - intros x j h E Eh. destruct (G 0 x E) as [[<- ->]|[_ E']]; [rewrite EB; apply nth_app_some, (D _ _ _ E0 Eh)|apply (D _ _ _ E' Eh)].
Qed.

(* the monitor side: same yields, head calls with the same bodies *)
Lemma bl_mon ys mc mc' ch :
  (forall j h', nth_error mc' j = Some h' -> exists h, nth_error mc j = Some h /\ hc_body h = hc_body h') ->
  BL ys mc ch -> BL ys mc' ch.
Proof.
  intros M [A B C D]. constructor; try assumption.
  intros nd0 j h' E Eh. destruct (M j h' Eh) as (h & Eh0 & Eb). rewrite <- Eb. apply (D _ _ _ E Eh0).
Qed.
Lemma set_over_body j l j' h' :
  nth_error (set_over j l) j' = Some h' -> exists h, nth_error l j' = Some h /\ hc_body h = hc_body h'.
Proof.
  unfold set_over. destruct (nth_error l j) as [h0|] eqn:E; [|intro H; exists h'; auto].
  destruct (Nat.eq_dec j' j) as [->|Ne].
  - rewrite ClientLemmas.nth_error_set_nth_same by (apply nth_error_Some; congruence).
    intros [= <-]. exists h0. auto.
  - rewrite ClientLemmas.nth_error_set_nth_other by congruence. intro H. exists h'. auto.
Qed.

(* ------------------------------------------------------------------------------------------ *)
(* the client / value side of one node *)
Record CL (x : rmon) (i : nat) (nd : node) : Prop := {
  cl_w : winv (n_cli nd);
  cl_v : ChainResp.vn (Pid (rm_ys x) (rm_dn x) i) nd;
  cl_id : mo_tainted (rm_mon x) = false -> idc (rqof (rm_rq x) i) (n_cli nd) }.

Lemma cl_mono x x' i nd :
  incl (rm_ys x) (rm_ys x') -> incl (rm_dn x) (rm_dn x') ->
  (forall id b, In (i, id, b) (rm_rq x') -> In (i, id, b) (rm_rq x)) ->
  (mo_tainted (rm_mon x') = false -> mo_tainted (rm_mon x) = false) ->
  CL x i nd -> CL x' i nd.
Proof.
  intros I1 I2 I3 T [W V C]. constructor; [exact W| |].
  - eapply ChainResp.vn_mono; [|exact V]. intros id v. apply Pid_mono; assumption.
  - intro T'. eapply ChainIds.idc_more; [|apply C, T, T'].
    intros id b H. left. apply rqof_in. apply I3. apply rqof_in. exact H.
Qed.

Record BI (d : nat) (x : rmon) (ch : chain) : Prop := {
  bi_j : ChainResp3.J x ch;
  bi_oi : ChainResp4.OI x ch;
  bi_len : length ch = d;
  bi_cl : forall i nd, nth_error ch i = Some nd -> CL x i nd;
  bi_bl : BL (rm_ys x) (mo_calls (rm_mon x)) ch;
  bi_body : rm_body x = true }.

(* observations that the body check ignores *)
Definition bneutral (e : cobs) : bool :=
  match e with
  | KHDone _ _ (Server.BOk _) | KCall _ (Client.CDone (Client.OReply _)) => false
  | _ => true
  end.
Lemma body_neutral d l : forall x, forallb bneutral l = true -> rm_body (fold_left (rm_obs d) l x) = rm_body x.
Proof.
  induction l as [|e tl IH]; intros x H; cbn [fold_left]; [reflexivity|].
  cbn [forallb] in H. apply andb_true_iff in H. destruct H as [H1 H2]. rewrite IH by exact H2.
  cbn [rm_obs rm_body]. destruct e as [j r|? ?|? ?|? ? ?|? ? ? ? ? ?|? ?|? ?|? ?|? ? b|? ?|? ?|? ?|? ? ?|?| |];
    cbn [body_chk]; try apply andb_true_r.
  - destruct r as [|o|]; try apply andb_true_r. destruct o; try apply andb_true_r. discriminate.
  - destruct b; try apply andb_true_r. discriminate.
Qed.
Lemma taint_fold_back d l x :
  mo_tainted (rm_mon (fold_left (rm_obs d) l x)) = false -> mo_tainted (rm_mon x) = false.
Proof.
  intro T. destruct (mo_tainted (rm_mon x)) eqn:E; [|reflexivity].
  rewrite ChainResp3.rm_mon_fold, (fold_taint_mono l _ E) in T. discriminate.
Qed.

(* ------------------------------------------------------------------------------------------ *)
(* components *)
Lemma wreq_in i ws : forall rq j id b,
  In (j, id, b) (ChainResp2Cli.wreq i rq ws) ->
  In (j, id, b) rq \/ (j = i /\ exists dl tr sid, In (WReq id dl tr sid b) ws).
Proof.
  induction ws as [|w r IH]; intros rq j id b H; cbn in H; [left; exact H|].
  destruct (IH _ _ _ _ H) as [X|(-> & dl & tr & sid & X)].
  - destruct w as [id' dl' tr' sid' b'|]; [|left; exact X].
    destruct X as [[= <- <- <-]|X]; [right; split; [reflexivity|]; exists dl', tr', sid'; left; reflexivity|left; exact X].
  - right. split; [reflexivity|]. exists dl, tr, sid. right. exact X.
Qed.
Lemma wire_writes l id dl tr sid b : In (WReq id dl tr sid b) (wire_of l) -> In (id, b) (ChainIds.writes l).
Proof.
  unfold wire_of, ChainIds.writes. rewrite !in_flat_map. intros (c & Hc & H). exists c. split; [exact Hc|].
  destruct c as [rr|m w|rr|rr|rr]; cbn in H; try contradiction.
  destruct m as [id' dl' tc b'|id' tc]; destruct w; cbn in H; try contradiction; destruct H as [H|[]]; try discriminate.
  injection H as <- _ _ _ <-. left. reflexivity.
Qed.

Lemma idc_inj R nd :
  idc R (n_cli nd) ->
  idc R (Client.upd_tr (n_cli nd) (n_link nd) (Client.fused (n_cli nd)) (Client.plog (n_cli nd))).
Proof. intros [A B C D]. constructor; assumption. Qed.
Lemma winv_inj nd :
  winv (n_cli nd) -> winv (Client.upd_tr (n_cli nd) (n_link nd) (Client.fused (n_cli nd)) (Client.plog (n_cli nd))).
Proof. intro W. eapply ClientSimBase.winv_frame; [exact W|reflexivity..]. Qed.

Lemma cl_nodes_set x i nd1 ch :
  (forall j nd, nth_error ch j = Some nd -> CL x j nd) -> CL x i nd1 ->
  forall j nd, nth_error (set_node i nd1 ch) j = Some nd -> CL x j nd.
Proof.
  intros H H1 j nd E. destruct (Nat.eq_dec i j) as [<-|Ne].
  - pose proof (nth_error_lt _ _ _ E) as L. rewrite length_set_node in L.
    rewrite (nth_set_node_same i nd1 ch L) in E. injection E as <-. exact H1.
  - rewrite (nth_set_node_other i j nd1 ch Ne) in E. apply H, E.
Qed.

Lemma bneutral_tr_cobs i l : forallb bneutral (flat_map (tr_cobs i) l) = true.
Proof.
  apply forallb_forall. intros e H. apply in_flat_map in H. destruct H as (o & _ & H).
  destruct o; cbn in H; try contradiction; destruct H as [<-|[]]; reflexivity.
Qed.

Lemma dispatch_obs_shape (c : cst) c' os :
  Client.step ctp cfuel c Client.PollDispatch = (c', os) ->
  os = [] \/ exists lg r a b, os = [Client.OCalls lg; Client.ODisp r; Client.OGauge a b].
Proof.
  cbn [Client.step]. destruct (Client.finished c); [intros [= _ <-]; left; reflexivity|].
  destruct (Client.dropped c); [intros [= _ <-]; left; reflexivity|].
  destruct (Client.poll_dispatch _ _ _) as [r s1]. intros [= _ <-]. right. unfold Client.gauges. eauto.
Qed.

Lemma bi_poll_dispatch d x i ch ch' l :
  BI d x ch -> Chain.poll_dispatch i ch = (ch', l) -> BI d (fold_left (rm_obs d) l x) ch'.
Proof.
  intros [J O L C B F] E.
  pose proof (ChainResp3.j_poll_dispatch d x i ch ch' l J E) as J'.
  pose proof (ChainResp4.oi_poll_dispatch d x i ch ch' l O E) as O'.
  unfold Chain.poll_dispatch in E. destruct (nth_error ch i) as [nd|] eqn:E0.
  2: { pinj E. constructor; assumption. }
  destruct (cstep nd Client.PollDispatch) as [nd1 l1] eqn:ES. pinj E.
  assert (NC : forallb ChainResp3.nocall (flat_map (tr_cobs i) l1) = true) by apply ChainResp3.nocall_tr_cobs.
  assert (NY : forallb ChainResp3.noyield (flat_map (tr_cobs i) l1) = true).
  { apply forallb_forall. intros e H. apply in_flat_map in H. destruct H as (o & _ & H).
    destruct o; cbn in H; try contradiction; destruct H as [<-|[]]; reflexivity. }
  assert (ND : forallb nohdone (flat_map (tr_cobs i) l1) = true).
  { apply forallb_forall. intros e H. apply in_flat_map in H. destruct H as (o & _ & H).
    destruct o; cbn in H; try contradiction; destruct H as [<-|[]]; reflexivity. }
  set (x' := fold_left (rm_obs d) (flat_map (tr_cobs i) l1) x).
  assert (EY : rm_ys x' = rm_ys x) by (unfold x'; rewrite rm_ys_fold; apply ys_fold_noyield, NY).
  assert (ED : rm_dn x' = rm_dn x) by (unfold x'; rewrite rm_dn_fold; apply dn_fold_nohdone, ND).
  assert (EC' : mo_calls (rm_mon x') = mo_calls (rm_mon x)) by (apply ChainResp4.calls_nocall, NC).
  pose proof (C _ _ E0) as [W V ID].
  unfold cstep in ES. set (c0 := Client.upd_tr _ _ _ _) in ES.
  destruct (Client.step ctp cfuel c0 Client.PollDispatch) as [c1 os] eqn:EC. pinj ES.
  pose proof (winv_inj nd W) as W0. fold c0 in W0.
  pose proof (ClientWaiters.winv_step ctp cfuel _ _ _ _ EC W0) as W1.
  pose proof (bods_step _ _ _ _ EC ltac:(discriminate) W0) as EB. rewrite app_nil_r in EB.
  (* what the poll reports, and the client afterwards *)
  assert (RQ : forall j id b, In (j, id, b) (rm_rq x') ->
               In (j, id, b) (rm_rq x) \/ (j = i /\ exists lg r a b0, os = [Client.OCalls lg; Client.ODisp r; Client.OGauge a b0]
                                                     /\ In (id, b) (ChainIds.writes lg))).
  { intros j id b Hin. unfold x' in Hin. rewrite rm_rq_fold in Hin.
    destruct (dispatch_obs_shape _ _ _ EC) as [->|(lg & r & a & b0 & ->)].
    - left. exact Hin.
    - cbn [flat_map tr_cobs app fold_left rq_obs] in Hin.
      destruct (wreq_in i (wire_of lg) _ _ _ _ Hin) as [X|(-> & dl & tr & sid & X)]; [left; exact X|].
      right. split; [reflexivity|]. exists lg, r, a, b0. split; [reflexivity|eapply wire_writes, X]. }
  constructor; try assumption.
  - rewrite length_set_node. exact L.
  - intros j ndj Ej. destruct (Nat.eq_dec i j) as [<-|Nj].
    + pose proof (nth_error_lt _ _ _ E0) as Li. rewrite (nth_set_node_same i _ ch Li) in Ej. injection Ej as <-.
      constructor; cbn [n_cli].
      * exact W1.
      * rewrite EY, ED.
        assert (VC : cstep nd Client.PollDispatch = (mknode c1 (Client.tr c1) (n_srv nd) (n_hs nd) (n_over nd), os))
          by (unfold cstep; fold c0; rewrite EC; reflexivity).
        exact (proj1 (ChainResp.vn_cstep _ _ _ _ _ VC ltac:(discriminate) V)).
      * intro T'. pose proof (ID (taint_fold_back _ _ _ T')) as H0. apply idc_inj in H0. fold c0 in H0.
        destruct (ChainIds.idc_step_dispatch cfuel _ c0 c1 os EC W0 H0) as [[-> H1]|(lg & r & a & b0 & -> & H1)].
        -- eapply ChainIds.idc_more; [|exact H1]. intros id b Hin. left. apply rqof_in. apply rqof_in in Hin.
           destruct (RQ _ _ _ Hin) as [X|(_ & lg & r & a & b0 & X & _)]; [exact X|discriminate].
        -- eapply ChainIds.idc_more; [|exact H1]. intros id b Hin. left. apply rqof_in in Hin.
           destruct (RQ _ _ _ Hin) as [X|(_ & lg' & r' & a' & b1 & [= <- _ _ _] & X)].
           ++ apply in_or_app. right. apply rqof_in, X.
           ++ apply in_or_app. left. exact X.
    + rewrite (nth_set_node_other i j _ ch Nj) in Ej.
      apply (cl_mono x x'); [rewrite EY; apply incl_refl|rewrite ED; apply incl_refl| |unfold x'; apply taint_fold_back|apply C, Ej].
      intros id b Hin. destruct (RQ _ _ _ Hin) as [X|(X & _)]; [exact X|congruence].
  - rewrite EY, EC'. eapply (bl_set_client _ _ i nd _ ch []); [exact E0|reflexivity|reflexivity| |exact B].
    cbn [n_cli]. rewrite app_nil_r. exact EB.
  - unfold x'. rewrite body_neutral; [exact F|apply bneutral_tr_cobs].
Qed.

Lemma bneutral_v l : forallb ChainResp.vneutral l = true -> forallb bneutral l = true.
Proof.
  intro H. apply forallb_forall. intros e He. rewrite forallb_forall in H. specialize (H e He).
  destruct e; try reflexivity; exact H.
Qed.
Lemma nohdone_v l : forallb ChainResp.vneutral l = true -> forallb nohdone l = true.
Proof.
  intro H. apply forallb_forall. intros e He. rewrite forallb_forall in H. specialize (H e He).
  destruct e; try reflexivity. destruct b; try reflexivity. exact H.
Qed.
Lemma rq_tr_sobs i l : forall rq, fold_left rq_obs (flat_map (tr_sobs i) l) rq = rq.
Proof.
  induction l as [|o r IH]; intro rq; cbn [flat_map]; [reflexivity|].
  rewrite fold_left_app, IH. destruct o; reflexivity.
Qed.

(* node i is replaced by a node with the same client *)
Lemma bl_set_srv ys ys' mc i nd nd' ch :
  nth_error ch i = Some nd -> n_cli nd' = n_cli nd ->
  length (n_hs nd') = length (Server.s_handlers (n_srv nd')) ->
  (forall k h, nth_error (n_hs nd') k = Some h -> ys_body ys' i k = Some (hi_body h)) ->
  (forall k h j, nth_error (n_hs nd') k = Some h -> hi_call h = Some j ->
     exists h0, nth_error (n_hs nd) k = Some h0 /\ hi_call h0 = Some j /\ hi_body h0 = hi_body h) ->
  (forall i' k b, i' <> i -> ys_body ys i' k = Some b -> ys_body ys' i' k = Some b) ->
  BL ys mc ch -> BL ys' mc (set_node i nd' ch).
Proof.
  intros E0 EC EL HB NB YO [A B C D]. pose proof (nth_error_lt _ _ _ E0) as L.
  assert (G : forall j x, nth_error (set_node i nd' ch) j = Some x ->
              (j = i /\ x = nd') \/ (j <> i /\ nth_error ch j = Some x)).
  { intros j x E. destruct (Nat.eq_dec i j) as [<-|Ne].
    - rewrite (nth_set_node_same i nd' ch L) in E. injection E as <-. auto.
    - rewrite (nth_set_node_other i j nd' ch Ne) in E. auto. }
  constructor.
  - intros j x E. destruct (G j x E) as [[-> ->]|[_ E']]; [exact EL|apply (A _ _ E')].
  - intros j x k h E Eh. destruct (G j x E) as [[-> ->]|[Nj E']]; [apply HB, Eh|apply YO; [exact Nj|apply (B _ _ _ _ E' Eh)]].
  - intros j x y k h j' E Ey Eh Ej.
    destruct (G j x E) as [[Ei Ex]|[Nj E']]; destruct (G (S j) y Ey) as [[Es Ey0]|[Ns Ey']]; try lia.
    + subst j x. destruct (NB k h j' Eh Ej) as (h0 & Eh0 & Ej0 & Eb0). rewrite <- Eb0.
      apply (C _ _ _ _ _ _ E0 Ey' Eh0 Ej0).
    + subst y. rewrite EC. rewrite <- Es in E0. apply (C _ _ _ _ _ _ E' E0 Eh Ej).
    + apply (C _ _ _ _ _ _ E' Ey' Eh Ej).
  - intros x j h E Eh. destruct (G 0 x E) as [[Ei ->]|[_ E']]; [rewrite EC; subst i; apply (D _ _ _ E0 Eh)|apply (D _ _ _ E' Eh)].
Qed.

Lemma bi_poll_requests d x i ch ch' l :
  BI d x ch -> poll_requests i ch = (ch', l) -> BI d (fold_left (rm_obs d) l x) ch'.
Proof.
  intros [J O L C B F] E.
  pose proof (ChainResp3.j_poll_requests d x i ch ch' l J E) as J'.
  pose proof (ChainResp4.oi_poll_requests d x i ch ch' l O E) as O'.
  unfold poll_requests in E. destruct (nth_error ch i) as [nd|] eqn:E0.
  2: { pinj E. constructor; assumption. }
  destruct (n_over nd || _). { pinj E. constructor; assumption. }
  destruct (sstep nd Server.OPoll) as [nd1 l1] eqn:ES. pinj E.
  set (x' := fold_left (rm_obs d) (flat_map (tr_sobs i) l1) x) in *.
  pose proof (ChainResp.neutral_poll_obs _ _ _ i ES) as NV.
  assert (ED : rm_dn x' = rm_dn x) by (unfold x'; rewrite rm_dn_fold; apply dn_fold_nohdone, nohdone_v, NV).
  assert (ER : rm_rq x' = rm_rq x) by (unfold x'; rewrite rm_rq_fold; apply rq_tr_sobs).
  assert (EC' : mo_calls (rm_mon x') = mo_calls (rm_mon x)) by (apply ChainResp4.calls_nocall, ChainResp3.nocall_tr_sobs).
  assert (IY : incl (rm_ys x) (rm_ys x')) by (unfold x'; rewrite rm_ys_fold; apply ys_fold_incl).
  pose proof (C _ _ E0) as [W V ID].
  pose proof (ChainResp4.sstep_cli _ _ _ _ ES) as ECL.
  (* the shape of the poll, as in ChainResp2.ys_poll_requests *)
  pose proof (ys_n _ _ (ChainResp3.j_ys _ _ J) _ _ E0) as [NA NB0 NC ND NG NHD NSB].
  assert (SH : (rm_ys x' = rm_ys x /\ (forall k id dl tr b, ~ In (Server.OYield k id dl tr b) l1)
                /\ length (Server.s_handlers (n_srv nd1)) = length (Server.s_handlers (n_srv nd)))
               \/ (exists id dl tr b,
                     rm_ys x' = (i, length (Server.s_handlers (n_srv nd)), id, b) :: rm_ys x
                     /\ flat_map (fun o => match o with Server.OYield _ _ dl tr body => [mkhi dl tr body None] | _ => [] end) l1
                        = [mkhi dl tr b None]
                     /\ length (Server.s_handlers (n_srv nd1)) = S (length (Server.s_handlers (n_srv nd))))).
  { unfold sstep in ES. set (s0 := Server.set_t (n_srv nd) (n_link nd)) in ES.
    destruct (Server.step stp _ _ scfg s0 Server.OPoll) as [s1 os] eqn:EP. pinj ES.
    assert (P0 : ChainResp2Srv.P i (rm_rq x) (length (Server.s_handlers s0)) (stof (rm_st x) i)
                   (map Server.h_id (Server.s_handlers s0)) s0).
    { split; [exact ND|]. split; [reflexivity|]. split; [exact NC|reflexivity]. }
    destruct (ChainResp2Srv.P_step_poll _ _ i (rm_rq x) (stof (rm_st x) i) _ _ _ EP P0)
      as [[NY0 (_ & P2 & _)]|(lg & id & dl & tr & b & hh & hs2 & -> & _ & _ & EH & LH & _)].
    - left. cbn [n_srv]. split; [|split; [exact NY0|exact P2]].
      unfold x'. rewrite rm_ys_fold. apply ys_fold_noyield. apply forallb_forall. intros e H.
      apply in_flat_map in H. destruct H as (o & Ho & H).
      destruct o; cbn in H; try contradiction; destruct H as [<-|[]]; try reflexivity. exfalso. eapply NY0, Ho.
    - right. exists id, dl, tr, b. cbn [n_srv]. split; [|split].
      + unfold x'. rewrite rm_ys_fold. cbn [flat_map tr_sobs app fold_left ys_obs].
        apply ys_fold_noyield. unfold Server.gauges. destruct (Server.s_dropped s1); [reflexivity|].
        destruct (Server.s_bad s1); reflexivity.
      + cbn [flat_map app]. unfold Server.gauges. destruct (Server.s_dropped s1); [reflexivity|].
        destruct (Server.s_bad s1); reflexivity.
      + rewrite EH, app_length, LH. cbn. lia. }
  constructor; try assumption.
  - rewrite length_set_node. exact L.
  - intros j ndj Ej. destruct (Nat.eq_dec i j) as [<-|Nj].
    + pose proof (nth_error_lt _ _ _ E0) as Li. rewrite (nth_set_node_same i _ ch Li) in Ej. injection Ej as <-.
      constructor; cbn [n_cli].
      * rewrite ECL. exact W.
      * eapply ChainResp.vn_mono; [intros id v; apply Pid_mono; [exact IY|rewrite ED; apply incl_refl]|].
        eapply ChainResp.vn_eq; [| | |eapply ChainResp.vn_sstep_poll; [exact ES|exact V]]; reflexivity.
      * intro T'. rewrite ECL, ER. apply ID. unfold x' in T'. eapply taint_fold_back, T'.
    + rewrite (nth_set_node_other i j _ ch Nj) in Ej.
      apply (cl_mono x x'); [exact IY|rewrite ED; apply incl_refl|rewrite ER; auto|unfold x'; apply taint_fold_back|apply C, Ej].
  - rewrite EC'. destruct B as [BA BB BC BD].
    assert (EHS : n_hs nd1 = n_hs nd).
    { unfold sstep in ES. destruct (Server.step _ _ _ _ _ _). injection ES as <- _. reflexivity. }
    pose proof (BA _ _ E0) as LN.
    eapply (bl_set_srv (rm_ys x) (rm_ys x') _ i nd _ ch); [exact E0|exact ECL| | | | |constructor; assumption];
      cbn [n_hs n_srv]; rewrite ?EHS.
    + destruct SH as [(_ & NYI & LH)|(id & dl & tr & b & _ & EYL & LH)].
      * assert (EN : flat_map (fun o => match o with Server.OYield _ _ dl tr body => [mkhi dl tr body None] | _ => [] end) l1 = []).
        { clear -NYI. induction l1 as [|o r IH]; [reflexivity|]. cbn [flat_map].
          rewrite IH by (intros k id dl tr b H; eapply NYI; right; exact H).
          destruct o; try reflexivity. exfalso. eapply NYI. left. reflexivity. }
        rewrite EN, app_nil_r. congruence.
      * rewrite EYL, app_length. cbn. lia.
    + intros k h Eh. destruct SH as [(EY & NYI & LH)|(id & dl & tr & b & EY & EYL & LH)].
      * assert (EN : flat_map (fun o => match o with Server.OYield _ _ dl tr body => [mkhi dl tr body None] | _ => [] end) l1 = []).
        { clear -NYI. induction l1 as [|o r IH]; [reflexivity|]. cbn [flat_map].
          rewrite IH by (intros k id dl tr b H; eapply NYI; right; exact H).
          destruct o; try reflexivity. exfalso. eapply NYI. left. reflexivity. }
        rewrite EN, app_nil_r in Eh. rewrite EY. apply (BB _ _ _ _ E0 Eh).
      * rewrite EYL in Eh. rewrite EY, ys_body_cons, Nat.eqb_refl. cbn [andb].
        destruct (Nat.lt_ge_cases k (length (n_hs nd))) as [Lt|Ge].
        -- rewrite nth_error_app1 in Eh by exact Lt. destruct (Nat.eqb_spec k (length (Server.s_handlers (n_srv nd)))); [lia|].
           apply (BB _ _ _ _ E0 Eh).
        -- rewrite nth_error_app2 in Eh by exact Ge. destruct (k - length (n_hs nd)) as [|m] eqn:Em; cbn in Eh.
           ++ injection Eh as <-. assert (k = length (Server.s_handlers (n_srv nd))) by lia. subst k.
              rewrite Nat.eqb_refl. reflexivity.
           ++ destruct m; discriminate.
    + intros k h j Eh Ej. destruct (Nat.lt_ge_cases k (length (n_hs nd))) as [Lt|Ge].
      * rewrite nth_error_app1 in Eh by exact Lt. exists h. auto.
      * rewrite nth_error_app2 in Eh by exact Ge. apply nth_error_In in Eh. apply in_flat_map in Eh.
        destruct Eh as (o & _ & Ho). destruct o; cbn in Ho; try contradiction. destruct Ho as [<-|[]]. discriminate.
    + intros i' k b Ni Eb. destruct SH as [(EY & _)|(id & dl & tr & b0 & EY & _)]; rewrite EY; [exact Eb|].
      rewrite ys_body_cons. destruct (Nat.eqb_spec i' i); [contradiction|]. exact Eb.
  - unfold x'. rewrite body_neutral; [exact F|apply bneutral_v, NV].
Qed.

Lemma untainted_nowrap x ch i nd :
  ChainResp3.J x ch -> mo_tainted (rm_mon x) = false -> nth_error ch i = Some nd ->
  (Client.next_id (n_cli nd) + 1 < two64)%N.
Proof.
  intros J T E. destruct (ChainResp3.j_gu _ _ J) as [X|G]; [congruence|].
  apply (good_nowrap _ _ i G (ChainResp3.j_small _ _ J) nd E).
Qed.

(* the caller's body: what a resolved call proves about the handler that produced the value *)
Lemma resolved_body x ch i nd (c0 : cst) j r c1 v :
  ChainResp3.J x ch -> mo_tainted (rm_mon x) = false -> nth_error ch i = Some nd ->
  ChainRespCli.cv (Pid (rm_ys x) (rm_dn x) i) c0 -> idc (rqof (rm_rq x) i) c0 ->
  Client.poll_call c0 j = (r, c1) -> r = Client.CDone (Client.OReply v) ->
  exists c, nth_error (Client.calls c0) j = Some c /\ served (rm_ys x) (rm_dn x) i (Client.c_body c) v = true.
Proof.
  intros J T E0 V ID EP ->.
  destruct (ChainRespCli.cv_poll_call _ _ _ _ _ EP V) as [_ R].
  destruct (R v eq_refl) as (c & Ec & k' & b' & Hy & Hd). exists c. split; [exact Ec|].
  pose proof (ny_sub _ _ _ (ys_n _ _ (ChainResp3.j_ys _ _ J) _ _ E0) _ _ _ Hy) as Hr.
  destruct (ChainIds.id_r _ _ ID _ _ (proj2 (rqof_in _ _ _ _) Hr)) as [Lt Ag].
  destruct (ClientProofsG1Rec.poll_call_eff _ _ _ _ EP) as [_ PE].
  unfold ClientProofsG1Rec.pc_eff, ClientProofsG1Rec.ph in PE. rewrite Ec in PE. cbn [option_map] in PE.
  destruct PE as [PH _]. unfold ChainRespCli.call_id in *.
  assert (HB : Client.c_body c = b').
  { destruct PH as [PH|[PH|[PH|PH]]]; rewrite PH in *; [lia| | |];
      (apply Ag; [eapply nth_error_In, Ec|rewrite PH; reflexivity|reflexivity]). }
  rewrite HB. eapply served_in; eassumption.
Qed.

Lemma bi_poll_head d x j ch ch' l :
  BI d x ch -> poll_head j ch = (ch', l) -> BI d (fold_left (rm_obs d) l x) ch'.
Proof.
  intros [J O L C B F] E.
  pose proof (ChainResp3.j_poll_head d x j ch ch' l J E) as J'.
  pose proof (ChainResp4.oi_poll_head d x j ch ch' l O E) as O'.
  unfold poll_head in E. destruct (nth_error ch 0) as [nd|] eqn:E0.
  2: { pinj E. constructor; assumption. }
  destruct (cstep nd (Client.PollCall j)) as [nd1 l1] eqn:ES. pinj E.
  pose proof (C _ _ E0) as [W V ID].
  assert (VC := ES). unfold cstep in ES. set (c0 := Client.upd_tr _ _ _ _) in ES.
  destruct (Client.step ctp cfuel c0 (Client.PollCall j)) as [c1 os] eqn:EC. pinj ES.
  pose proof (winv_inj nd W) as W0. fold c0 in W0.
  pose proof (ClientWaiters.winv_step ctp cfuel _ _ _ _ EC W0) as W1.
  pose proof (bods_step _ _ _ _ EC ltac:(discriminate) W0) as EB. rewrite app_nil_r in EB.
  pose proof (ChainResp.vn_cv _ _ V) as V0. fold c0 in V0.
  assert (STEP := EC). cbn [Client.step] in EC. destruct (Client.poll_call c0 j) as [r c1'] eqn:EP. pinj EC.
  set (lk := flat_map (fun o => match o with Client.OCall r0 => [KCall j r0] | _ => [] end)
                      (match r with Client.CNothing => [] | _ => [Client.OCall r] end)) in *.
  set (x' := fold_left (rm_obs d) lk x) in *.
  (* the monitor after the poll *)
  assert (MY : rm_ys x' = rm_ys x /\ rm_dn x' = rm_dn x /\ rm_rq x' = rm_rq x
               /\ (mo_tainted (rm_mon x') = false -> mo_tainted (rm_mon x) = false)
               /\ (forall j0 h', nth_error (mo_calls (rm_mon x')) j0 = Some h' ->
                     exists h, nth_error (mo_calls (rm_mon x)) j0 = Some h /\ hc_body h = hc_body h')).
  { unfold x', lk. destruct r as [|o|]; cbn [flat_map app fold_left].
    - split; [reflexivity|]. split; [reflexivity|]. split; [reflexivity|]. split; [auto|].
      intros j0 h' Eh. exists h'. auto.
    - split; [reflexivity|]. split; [reflexivity|]. split; [reflexivity|]. split; [auto|].
      cbn [rm_obs rm_mon mon_obs mo_calls]. intros j0 h' Eh. eapply set_over_body, Eh.
    - split; [reflexivity|]. split; [reflexivity|]. split; [reflexivity|]. split; [auto|].
      intros j0 h' Eh. exists h'. auto. }
  destruct MY as (EY & ED & ER & TB & MC).
  constructor; try assumption.
  - rewrite length_set_node. exact L.
  - intros i ndi Ei. destruct (Nat.eq_dec 0 i) as [<-|Ni].
    + pose proof (nth_error_lt _ _ _ E0) as Li. rewrite (nth_set_node_same 0 _ ch Li) in Ei. injection Ei as <-.
      constructor; cbn [n_cli].
      * exact W1.
      * rewrite EY, ED. exact (proj1 (ChainResp.vn_cstep _ _ _ _ _ VC ltac:(discriminate) V)).
      * intro T'. rewrite ER. pose proof (TB T') as T.
        eapply (idc_step_user _ c0 (Client.PollCall j)); [exact STEP|exact I|exact W0| |apply idc_inj, ID, T].
        apply (untainted_nowrap x ch 0 nd J T E0).
    + rewrite (nth_set_node_other 0 i _ ch Ni) in Ei.
      apply (cl_mono x x'); [rewrite EY; apply incl_refl|rewrite ED; apply incl_refl|rewrite ER; auto|exact TB|apply C, Ei].
  - rewrite EY. eapply bl_mon; [exact MC|].
    eapply (bl_set_client _ _ 0 nd _ ch []); [exact E0|reflexivity|reflexivity| |exact B].
    cbn [n_cli]. rewrite app_nil_r. exact EB.
  - (* the check *)
    unfold x', lk. destruct r as [|o|]; cbn [flat_map app fold_left]; try exact F.
    + cbn [rm_obs rm_body body_chk]. rewrite F. reflexivity.
    + cbn [rm_obs rm_body]. rewrite F. cbn [andb]. destruct o; try reflexivity. cbn [body_chk].
      destruct (mo_tainted (rm_mon x)) eqn:T; [reflexivity|]. cbn [orb].
      destruct (resolved_body x ch 0 nd c0 j _ c1' v J T E0 V0 (idc_inj _ _ (ID eq_refl)) EP eq_refl)
        as (c & Ec & SV).
      destruct (ChainResp4.oi_c _ _ O nd E0) as [_ OL _].
      assert (Lj : j < length (mo_calls (rm_mon x))) by (rewrite OL; apply nth_error_Some; cbn in Ec; congruence).
      destruct (nth_error (mo_calls (rm_mon x)) j) as [h|] eqn:Eh; [|apply nth_error_None in Eh; lia].
      pose proof (bl_hc _ _ _ B nd j h E0 Eh) as HC. unfold bods in HC. rewrite nth_error_map in HC.
      cbn in Ec. rewrite Ec in HC. cbn in HC. injection HC as HC. rewrite <- HC. exact SV.
Qed.

(* ------------------------------------------------------------------------------------------ *)
(* polling a (nested) call on a node *)
Lemma cl_poll_call x ch si nd0 nxc j nx1 lp :
  ChainResp3.J x ch -> nth_error ch si = Some nd0 ->
  winv (n_cli nxc) -> ChainResp.vn (Pid (rm_ys x) (rm_dn x) si) nxc ->
  (mo_tainted (rm_mon x) = false -> idc (rqof (rm_rq x) si) (n_cli nxc)) ->
  (mo_tainted (rm_mon x) = false -> (Client.next_id (n_cli nxc) + 1 < two64)%N) ->
  cstep nxc (Client.PollCall j) = (nx1, lp) ->
  winv (n_cli nx1) /\ ChainResp.vn (Pid (rm_ys x) (rm_dn x) si) nx1
  /\ (mo_tainted (rm_mon x) = false -> idc (rqof (rm_rq x) si) (n_cli nx1))
  /\ bods (n_cli nx1) = bods (n_cli nxc)
  /\ n_link nx1 = n_link nxc /\ n_srv nx1 = n_srv nxc /\ n_hs nx1 = n_hs nxc
  /\ (forall v, lp = [Client.OCall (Client.CDone (Client.OReply v))] -> mo_tainted (rm_mon x) = false ->
        exists c, nth_error (Client.calls (n_cli nxc)) j = Some c
                  /\ served (rm_ys x) (rm_dn x) si (Client.c_body c) v = true).
Proof.
  intros J E0 W V ID NW ES. assert (VC := ES).
  destruct (ChainResp2.cstep_other_frame _ _ _ _ ES ltac:(discriminate) ltac:(discriminate)) as [FL FS].
  unfold cstep in ES. set (c0 := Client.upd_tr _ _ _ _) in ES.
  destruct (Client.step ctp cfuel c0 (Client.PollCall j)) as [c1 os] eqn:EC. pinj ES.
  pose proof (winv_inj _ W) as W0. fold c0 in W0.
  pose proof (bods_step _ _ _ _ EC ltac:(discriminate) W0) as EB. rewrite app_nil_r in EB.
  split; [eapply ClientWaiters.winv_step; eassumption|].
  split; [exact (proj1 (ChainResp.vn_cstep _ _ _ _ _ VC ltac:(discriminate) V))|].
  split. { intro T. eapply (idc_step_user _ c0 (Client.PollCall j)); [exact EC|exact I|exact W0|apply NW, T|apply idc_inj, ID, T]. }
  split; [exact EB|]. split; [exact FL|]. split; [exact FS|]. split; [reflexivity|].
  intros v -> T. pose proof (ChainResp.vn_cv _ _ V) as V0. fold c0 in V0.
  cbn [Client.step] in EC. destruct (Client.poll_call c0 j) as [r c1'] eqn:EP.
  assert (Er : r = Client.CDone (Client.OReply v)).
  { destruct r; cbn in EC; [injection EC as _ EC; discriminate|injection EC as _ EC; congruence|injection EC as _ EC; discriminate]. }
  destruct (resolved_body x ch si nd0 c0 j r c1' v J T E0 V0 (idc_inj _ _ (ID T)) EP Er) as (c & Ec & SV).
  exists c. split; [exact Ec|exact SV].
Qed.

(* ------------------------------------------------------------------------------------------ *)
(* the check at a handler's end, along an observation list without yields *)
Lemma served_mono ys dn dn' i b v : incl dn dn' -> served ys dn i b v = true -> served ys dn' i b v = true.
Proof.
  intros I H. unfold served in *. apply existsb_exists in H. destruct H as ([[[i' k'] id'] b'] & Hin & H).
  apply existsb_exists. exists (i', k', id', b'). split; [exact Hin|].
  apply andb_true_iff in H. destruct H as [H1 H2]. rewrite H1. cbn [andb].
  unfold mem_dn in *. apply existsb_exists in H2. destruct H2 as (y & Hy & Ey). apply existsb_exists. exists y. split; [apply I, Hy|exact Ey].
Qed.
Definition hcond (d : nat) (x : rmon) (i k : nat) (v : N) : Prop :=
  negb (S i <? d) = true \/ mo_tainted (rm_mon x) = true
  \/ exists b, ys_body (rm_ys x) i k = Some b /\ served (rm_ys x) (rm_dn x) (S i) b v = true.
Lemma hcond_chk d x i k v : hcond d x i k v -> body_chk d x (KHDone i k (Server.BOk v)) = true.
Proof.
  intros [H|[H|(b & Eb & Sv)]]; cbn [body_chk]; [rewrite H; reflexivity|rewrite H; apply orb_true_iff; left; apply orb_true_r|].
  rewrite Eb, Sv. apply orb_true_r.
Qed.
Lemma hcond_obs d x e i k v : ChainResp3.noyield e = true -> hcond d x i k v -> hcond d (rm_obs d x e) i k v.
Proof.
  intros NY [H|[H|(b & Eb & Sv)]]; [left; exact H|right; left; cbn [rm_obs rm_mon]; apply mon_obs_taint_mono, H|].
  right. right. exists b. cbn [rm_obs rm_ys rm_dn].
  assert (EY : ys_obs (rm_ys x) e = rm_ys x) by (destruct e; try reflexivity; discriminate).
  rewrite EY. split; [exact Eb|]. eapply served_mono; [|exact Sv].
  destruct e; try apply incl_refl. destruct b0; try apply incl_refl. apply incl_tl, incl_refl.
Qed.
Lemma body_fold d l : forall x,
  forallb ChainResp3.noyield l = true ->
  (forall e, In e l -> bneutral e = true \/ exists i k v, e = KHDone i k (Server.BOk v) /\ hcond d x i k v) ->
  rm_body x = true -> rm_body (fold_left (rm_obs d) l x) = true.
Proof.
  induction l as [|e tl IH]; intros x NY H F; cbn [fold_left]; [exact F|].
  cbn [forallb] in NY. apply andb_true_iff in NY. destruct NY as [NY1 NY2].
  apply IH; [exact NY2| |].
  - intros e' He'. destruct (H e' (or_intror He')) as [X|(i & k & v & -> & X)]; [left; exact X|].
    right. exists i, k, v. split; [reflexivity|apply hcond_obs; assumption].
  - cbn [rm_obs rm_body]. rewrite F. cbn [andb].
    destruct (H e (or_introl eq_refl)) as [X|(i & k & v & -> & X)].
    + pose proof (body_neutral d [e] x) as BN. cbn [forallb fold_left rm_obs rm_body] in BN.
      rewrite X in BN. specialize (BN eq_refl). rewrite F in BN. exact BN.
    + apply hcond_chk, X.
Qed.

Lemma dn_fold_in l : forall dn i k v,
  In (KHDone i k (Server.BOk v)) l -> In (i, k, v) (fold_left dn_obs l dn).
Proof.
  induction l as [|e tl IH]; intros dn i k v H; [destruct H|]. destruct H as [->|H]; cbn [fold_left].
  - cbn [dn_obs]. apply dn_fold_incl. left. reflexivity.
  - apply IH, H.
Qed.

(* the observations of one poll of execute() of incarnation k on node i *)
Lemma handler_obs i k st ndx nd2 l0 (first : list cobs) :
  sstep ndx (Server.OHandlerPoll k st) = (nd2, l0) -> (first = [KHStart i k] \/ first = []) ->
  let l := first ++ flat_map (tr_sobs i) l0 in
  forallb ChainResp3.noyield l = true /\ forallb ChainResp3.nocall l = true
  /\ (forall e, In e l -> bneutral e = true \/ exists v, e = KHDone i k (Server.BOk v) /\ st = Server.SFinish v)
  /\ (forall v, In (Server.OHDone k (Server.BOk v)) l0 -> In (KHDone i k (Server.BOk v)) l).
Proof.
  intros ES HF l.
  assert (NF : forallb ChainResp3.noyield first = true /\ forallb ChainResp3.nocall first = true
               /\ forallb bneutral first = true) by (destruct HF as [-> | ->]; repeat split).
  destruct NF as (N1 & N2 & N3). split; [|split; [|split]].
  - unfold l. rewrite forallb_app, N1. apply ChainResp3.yneutral_noyield.
    eapply ChainResp2.neutral_tr_sobs_other; [exact ES|exact I].
  - unfold l. rewrite forallb_app, N2. apply ChainResp3.nocall_tr_sobs.
  - intros e He. unfold l in He. apply in_app_or in He. destruct He as [He|He].
    + left. rewrite forallb_forall in N3. apply N3, He.
    + apply in_flat_map in He. destruct He as (o & Ho & He).
      destruct o; cbn in He; try contradiction; destruct He as [<-|[]]; try (left; reflexivity).
      destruct b as [v| | |]; try (left; reflexivity). right. exists v.
      destruct (ChainResp.hdone_sstep _ _ _ _ _ _ _ ES Ho) as [-> ->]. split; reflexivity.
  - intros v Hin. unfold l. apply in_or_app. right. apply in_flat_map. exists (Server.OHDone k (Server.BOk v)).
    split; [exact Hin|]. left. reflexivity.
Qed.

(* ------------------------------------------------------------------------------------------ *)
(* the server side of a handler poll on node i *)
Lemma sstep_hs nd o nd' l : sstep nd o = (nd', l) -> n_hs nd' = n_hs nd.
Proof. unfold sstep. destruct (Server.step _ _ _ _ _ _). intros [= <- _]. reflexivity. Qed.

Lemma cl_srv_handler x x' ch i k st nd ndx nd2 l0 :
  ChainResp3.J x ch -> nth_error ch i = Some nd ->
  n_cli ndx = n_cli nd -> n_link ndx = n_link nd -> n_srv ndx = n_srv nd ->
  CL x i nd -> sstep ndx (Server.OHandlerPoll k st) = (nd2, l0) ->
  rm_ys x' = rm_ys x -> incl (rm_dn x) (rm_dn x') ->
  (forall v, In (Server.OHDone k (Server.BOk v)) l0 -> In (i, k, v) (rm_dn x')) ->
  rm_rq x' = rm_rq x -> (mo_tainted (rm_mon x') = false -> mo_tainted (rm_mon x) = false) ->
  CL x' i nd2 /\ n_hs nd2 = n_hs ndx /\ n_cli nd2 = n_cli nd
  /\ length (Server.s_handlers (n_srv nd2)) = length (Server.s_handlers (n_srv nd)).
Proof.
  intros J E0 EC EL ESV [W V ID] ES EY ID' DN ER TB.
  pose proof (ys_n _ _ (ChainResp3.j_ys _ _ J) _ _ E0) as NYn.
  assert (Vx : ChainResp.vn (Pid (rm_ys x) (rm_dn x) i) ndx) by (eapply ChainResp.vn_eq; eassumption).
  destruct (ChainResp.vn_sstep_handler (Pid (rm_ys x) (rm_dn x) i) (Pid (rm_ys x') (rm_dn x') i) _ _ _ _ _ ES Vx) as [V2 C2].
  { intros id v. apply Pid_mono; [rewrite EY; apply incl_refl|exact ID']. }
  { intros hr v Eh Hin. rewrite ESV in Eh. destruct (ny_hid _ _ _ NYn k hr Eh) as (b & Hb).
    exists k, b. split; [rewrite EY; exact Hb|apply DN, Hin]. }
  assert (NYx : NY (ymof x) i ndx) by (eapply ChainResp2.ny_eq; eassumption).
  destruct (ChainResp2.ny_sstep_handler _ _ _ _ _ _ _ ES NYx) as [NY2 _].
  split; [|split; [eapply sstep_hs, ES|split; [congruence|]]].
  - constructor; [rewrite C2, EC; exact W|exact V2|].
    intro T'. rewrite C2, EC, ER. apply ID, TB, T'.
  - pose proof (ny_cnt _ _ _ NY2) as A2. pose proof (ny_cnt _ _ _ NYn) as A1. congruence.
Qed.

(* two adjacent nodes replaced *)
Lemma nth_set2 i nd' nx' ch j x :
  i < length ch ->
  nth_error (set_node (S i) nx' (set_node i nd' ch)) j = Some x ->
  (j = i /\ x = nd') \/ (j = S i /\ x = nx' /\ S i < length ch) \/ (j <> i /\ j <> S i /\ nth_error ch j = Some x).
Proof.
  intros L E. destruct (Nat.eq_dec (S i) j) as [<-|N1].
  - right. left. pose proof (nth_error_lt _ _ _ E) as L2. rewrite !length_set_node in L2.
    rewrite nth_set_node_same in E by (rewrite length_set_node; exact L2). injection E as <-. auto.
  - rewrite nth_set_node_other in E by exact N1. destruct (Nat.eq_dec i j) as [<-|N2].
    + left. rewrite nth_set_node_same in E by exact L. injection E as <-. auto.
    + rewrite nth_set_node_other in E by exact N2. right. right. auto.
Qed.

Lemma bl_set2 ys mc i nd nx nd' nx' ch ext :
  nth_error ch i = Some nd -> nth_error ch (S i) = Some nx ->
  n_cli nd' = n_cli nd -> length (n_hs nd') = length (Server.s_handlers (n_srv nd')) ->
  (forall k h, nth_error (n_hs nd') k = Some h -> ys_body ys i k = Some (hi_body h)) ->
  n_hs nx' = n_hs nx -> length (Server.s_handlers (n_srv nx')) = length (Server.s_handlers (n_srv nx)) ->
  bods (n_cli nx') = bods (n_cli nx) ++ ext ->
  (forall k h j, nth_error (n_hs nd') k = Some h -> hi_call h = Some j ->
     nth_error (bods (n_cli nx')) j = Some (hi_body h)) ->
  BL ys mc ch -> BL ys mc (set_node (S i) nx' (set_node i nd' ch)).
Proof.
  intros E0 EX EC EL HB EHX ELX EBX NB [A B C D]. pose proof (nth_error_lt _ _ _ E0) as L.
  pose proof (nth_set2 i nd' nx' ch) as G.
  constructor.
  - intros j x E. destruct (G j x L E) as [[-> ->]|[(-> & -> & _)|(_ & _ & E')]];
      [exact EL|rewrite EHX, ELX; apply (A _ _ EX)|apply (A _ _ E')].
  - intros j x k h E Eh. destruct (G j x L E) as [[-> ->]|[(-> & -> & _)|(_ & _ & E')]];
      [apply HB, Eh|rewrite EHX in Eh; apply (B _ _ _ _ EX Eh)|apply (B _ _ _ _ E' Eh)].
  - intros j x y k h j' E Ey Eh Ej.
    destruct (G j x L E) as [[Ei Ex]|[(Ei & Ex & _)|(N1 & N2 & E')]];
      destruct (G (S j) y L Ey) as [[Es Ey0]|[(Es & Ey0 & _)|(M1 & M2 & Ey')]]; try lia.
    + subst x y. apply (NB _ _ _ Eh Ej).
    + subst j x. rewrite EHX in Eh. apply (C _ _ _ _ _ _ EX Ey' Eh Ej).
    + subst y. rewrite EC. rewrite <- Es in E0. apply (C _ _ _ _ _ _ E' E0 Eh Ej).
    + apply (C _ _ _ _ _ _ E' Ey' Eh Ej).
  - intros x j h E Eh. destruct (G 0 x L E) as [[Ei ->]|[(Ei & _)|(_ & _ & E')]];
      [rewrite EC; subst i; apply (D _ _ _ E0 Eh)|discriminate|apply (D _ _ _ E' Eh)].
Qed.

(* the monitor over the observations of one handler poll *)
Lemma handler_mon d x i k st ndx nd2 l0 (first : list cobs) :
  sstep ndx (Server.OHandlerPoll k st) = (nd2, l0) -> (first = [KHStart i k] \/ first = []) ->
  let x' := fold_left (rm_obs d) (first ++ flat_map (tr_sobs i) l0) x in
  rm_ys x' = rm_ys x /\ incl (rm_dn x) (rm_dn x')
  /\ (forall v, In (Server.OHDone k (Server.BOk v)) l0 -> In (i, k, v) (rm_dn x'))
  /\ rm_rq x' = rm_rq x
  /\ (mo_tainted (rm_mon x') = false -> mo_tainted (rm_mon x) = false)
  /\ mo_calls (rm_mon x') = mo_calls (rm_mon x)
  /\ ((forall v, st = Server.SFinish v -> hcond d x i k v) -> rm_body x = true -> rm_body x' = true).
Proof.
  intros ES HF x'. destruct (handler_obs i k st ndx nd2 l0 first ES HF) as (NY & NC & HE & HI).
  split; [unfold x'; rewrite rm_ys_fold; apply ys_fold_noyield, NY|].
  split; [unfold x'; rewrite rm_dn_fold; apply dn_fold_incl|].
  split; [intros v Hin; unfold x'; rewrite rm_dn_fold; apply dn_fold_in, HI, Hin|].
  split. { unfold x'. rewrite rm_rq_fold, fold_left_app, rq_tr_sobs. destruct HF as [-> | ->]; reflexivity. }
  split; [unfold x'; apply taint_fold_back|].
  split; [apply ChainResp4.calls_nocall, NC|].
  intros HC F. unfold x'. apply body_fold; [exact NY| |exact F].
  intros e He. destruct (HE e He) as [X|(v & -> & Es)]; [left; exact X|].
  right. exists i, k, v. split; [reflexivity|apply HC, Es].
Qed.

Record BW (d : nat) (x : rmon) (ch : chain) : Prop := {
  bw_len : length ch = d;
  bw_cl : forall i nd, nth_error ch i = Some nd -> CL x i nd;
  bw_bl : BL (rm_ys x) (mo_calls (rm_mon x)) ch;
  bw_body : rm_body x = true }.

(* a poll of execute() that touches node i only (leaf; response being sent) *)
Lemma bw_plain d x ch i k st nd nd1 l0 (first : list cobs) :
  BI d x ch -> nth_error ch i = Some nd -> (first = [KHStart i k] \/ first = []) ->
  sstep nd (Server.OHandlerPoll k st) = (nd1, l0) ->
  (forall v, st = Server.SFinish v -> hcond d x i k v) ->
  BW d (fold_left (rm_obs d) (first ++ flat_map (tr_sobs i) l0) x) (set_node i nd1 ch).
Proof.
  intros [J O L C B F] E0 HF ES HC.
  destruct (handler_mon d x i k st nd nd1 l0 first ES HF) as (EY & ID & DN & ER & TB & EM & FB).
  set (x' := fold_left (rm_obs d) (first ++ flat_map (tr_sobs i) l0) x) in *.
  destruct (cl_srv_handler x x' ch i k st nd nd nd1 l0 J E0 eq_refl eq_refl eq_refl (C _ _ E0) ES EY ID DN ER TB)
    as (C1 & H1 & K1 & L1).
  constructor.
  - rewrite length_set_node. exact L.
  - intros j ndj Ej. destruct (Nat.eq_dec i j) as [<-|Nj].
    + pose proof (nth_error_lt _ _ _ E0) as Li. rewrite (nth_set_node_same i _ ch Li) in Ej. injection Ej as <-. exact C1.
    + rewrite (nth_set_node_other i j _ ch Nj) in Ej.
      apply (cl_mono x x'); [rewrite EY; apply incl_refl|exact ID|rewrite ER; auto|exact TB|apply C, Ej].
  - rewrite EY, EM.
    eapply (bl_set_srv (rm_ys x) (rm_ys x) _ i nd nd1 ch); [exact E0|exact K1| | | | |exact B].
    + rewrite H1, L1. apply (bl_len _ _ _ B _ _ E0).
    + intros k0 h Eh. rewrite H1 in Eh. apply (bl_hb _ _ _ B _ _ _ _ E0 Eh).
    + intros k0 h j Eh Ej. rewrite H1 in Eh. exists h. auto.
    + auto.
  - apply FB; assumption.
Qed.

(* ------------------------------------------------------------------------------------------ *)
(* the client side of a handler poll: the nested call on the next node *)
Lemma bw_drop_call d x ch si nx j :
  BW d x ch -> nth_error ch si = Some nx -> BW d x (set_node si (fst (cstep nx (Client.DropCall j))) ch).
Proof.
  intros [L C B F] E0. destruct (cstep nx (Client.DropCall j)) as [nx1 lx] eqn:ES. cbn [fst].
  pose proof (C _ _ E0) as [W V ID]. assert (VC := ES).
  destruct (ChainResp2.cstep_other_frame _ _ _ _ ES ltac:(discriminate) ltac:(discriminate)) as [FL FS].
  unfold cstep in ES. set (c0 := Client.upd_tr _ _ _ _) in ES.
  destruct (Client.step ctp cfuel c0 (Client.DropCall j)) as [c1 os] eqn:EC. pinj ES.
  pose proof (winv_inj _ W) as W0. fold c0 in W0.
  pose proof (bods_step _ _ _ _ EC ltac:(discriminate) W0) as EB. rewrite app_nil_r in EB.
  constructor; [rewrite length_set_node; exact L| | |exact F].
  - intros i ndi Ei. destruct (Nat.eq_dec si i) as [<-|Ni].
    + pose proof (nth_error_lt _ _ _ E0) as Li. rewrite (nth_set_node_same si _ ch Li) in Ei. injection Ei as <-.
      constructor; cbn [n_cli].
      * eapply ClientWaiters.winv_step; eassumption.
      * exact (proj1 (ChainResp.vn_cstep _ _ _ _ _ VC ltac:(discriminate) V)).
      * intro T. cbn [Client.step] in EC. injection EC as <- _.
        exact (ChainIds.idc_drop_call _ c0 j W0 (idc_inj _ _ (ID T))).
    + rewrite (nth_set_node_other si i _ ch Ni) in Ei. apply C, Ei.
  - eapply (bl_set_client _ _ si nx _ ch []); [exact E0|reflexivity|reflexivity| |exact B].
    cbn [n_cli]. rewrite app_nil_r. exact EB.
Qed.

Lemma st_finish (lp : list Client.obs) v :
  match lp with
  | [Client.OCall (Client.CDone (Client.OReply v0))] => Server.SFinish v0
  | [Client.OCall (Client.CDone _)] => Server.SFail
  | _ => Server.SRun
  end = Server.SFinish v -> lp = [Client.OCall (Client.CDone (Client.OReply v))].
Proof.
  intro Ev. destruct lp as [|o1 rest]; [discriminate|].
  destruct o1 as [| |rc|lc|rd|ga gb]; try discriminate.
  destruct rc as [|oc|]; try discriminate; destruct rest; try discriminate; destruct oc; try discriminate.
  injection Ev as ->. reflexivity.
Qed.

Lemma set_hcall_nth k j l k0 h0 :
  nth_error (set_hcall k j l) k0 = Some h0 ->
  exists h1, nth_error l k0 = Some h1 /\ hi_body h1 = hi_body h0
             /\ (hi_call h0 = hi_call h1 \/ (k0 = k /\ hi_call h0 = Some j)).
Proof.
  unfold set_hcall. destruct (nth_error l k) as [h|] eqn:E; [|intro H; exists h0; auto].
  destruct (Nat.eq_dec k0 k) as [->|Ne].
  - rewrite ClientLemmas.nth_error_set_nth_same by (apply nth_error_Some; congruence).
    intros [= <-]. exists h. cbn. auto.
  - rewrite ClientLemmas.nth_error_set_nth_other by congruence. intro H. exists h0. auto.
Qed.
Lemma length_set_hcall k j l : length (set_hcall k j l) = length l.
Proof. unfold set_hcall. destruct (nth_error l k); [apply ClientLemmas.set_nth_length|reflexivity]. Qed.

Lemma winv_mk_call (c : cst) dl tr body : winv c -> winv (mk_call c dl tr body).
Proof.
  intros [A ND]. constructor; cbn [Client.waiters Client.calls Client.upd_calls mk_call]; [|exact ND].
  unfold mk_call. cbn [Client.calls Client.waiters Client.upd_calls].
  intros w Hw. destruct (A w Hw) as (c0 & Hc & Hp). exists c0. split; [|exact Hp].
  rewrite nth_error_app1; [exact Hc|]. apply nth_error_Some. congruence.
Qed.

(* what inner_poll leaves behind, before the execute() future is polled *)
Lemma inner_facts d x ch i k nd nx nd1 nx1 st1 :
  BI d x ch -> nth_error ch i = Some nd -> nth_error ch (S i) = Some nx ->
  inner_poll k nd nx = (nd1, nx1, st1) ->
  n_cli nd1 = n_cli nd /\ n_link nd1 = n_link nd /\ n_srv nd1 = n_srv nd
  /\ CL x (S i) nx1 /\ n_hs nx1 = n_hs nx /\ n_srv nx1 = n_srv nx
  /\ (exists ext, bods (n_cli nx1) = bods (n_cli nx) ++ ext)
  /\ length (n_hs nd1) = length (n_hs nd)
  /\ (forall k0 h0, nth_error (n_hs nd1) k0 = Some h0 -> ys_body (rm_ys x) i k0 = Some (hi_body h0))
  /\ (forall k0 h0 j0, nth_error (n_hs nd1) k0 = Some h0 -> hi_call h0 = Some j0 ->
        nth_error (bods (n_cli nx1)) j0 = Some (hi_body h0))
  /\ (forall v, st1 = Server.SFinish v -> hcond d x i k v).
Proof.
  intros [J O L C B F] E0 EX EI. pose proof (C _ _ EX) as [Wx Vx IDx].
  unfold inner_poll in EI. destruct (nth_error (n_hs nd) k) as [h|] eqn:EH.
  2: { injection EI as <- <- <-. split; [reflexivity|]. split; [reflexivity|]. split; [reflexivity|].
       split; [constructor; assumption|]. split; [reflexivity|]. split; [reflexivity|].
       split; [exists []; rewrite app_nil_r; reflexivity|]. split; [reflexivity|].
       split; [intros k0 h0 Eh; apply (bl_hb _ _ _ B _ _ _ _ E0 Eh)|].
       split; [intros k0 h0 j0 Eh Ej; apply (bl_nb _ _ _ B _ _ _ _ _ _ E0 EX Eh Ej)|].
       intros v [=]. }
  pose proof (bl_hb _ _ _ B _ _ _ _ E0 EH) as HBk.
  assert (NWx : mo_tainted (rm_mon x) = false -> (Client.next_id (n_cli nx) + 1 < two64)%N)
    by (intro T; apply (untainted_nowrap x ch (S i) nx J T EX)).
  destruct (hi_call h) as [j|] eqn:EJ.
  - (* the nested call exists already *)
    destruct (cstep nx (Client.PollCall j)) as [nx2 lp] eqn:ES. injection EI as <- <- <-.
    destruct (cl_poll_call x ch (S i) nx nx j nx2 lp J EX Wx Vx IDx NWx ES) as (W2 & V2 & ID2 & EB & FL & FS & FH & RS).
    split; [reflexivity|]. split; [reflexivity|]. split; [reflexivity|].
    split; [constructor; assumption|]. split; [exact FH|]. split; [exact FS|].
    split; [exists []; rewrite app_nil_r; exact EB|]. split; [reflexivity|].
    split; [intros k0 h0 Eh; apply (bl_hb _ _ _ B _ _ _ _ E0 Eh)|].
    split; [intros k0 h0 j0 Eh Ej; rewrite EB; apply (bl_nb _ _ _ B _ _ _ _ _ _ E0 EX Eh Ej)|].
    intros v Ev. apply st_finish in Ev. destruct (mo_tainted (rm_mon x)) eqn:T; [right; left; exact T|].
    destruct (RS v Ev eq_refl) as (c & Ec & SV). right. right. exists (hi_body h). split; [exact HBk|].
    pose proof (bl_nb _ _ _ B _ _ _ _ _ _ E0 EX EH EJ) as NBj. unfold bods in NBj.
    rewrite nth_error_map, Ec in NBj. cbn in NBj. injection NBj as <-. exact SV.
  - (* first poll: the nested call is made now *)
    match type of EI with context [cstep ?n _] => set (nxc := n) in * end.
    set (j := length (Client.calls (n_cli nx))) in *.
    destruct (cstep nxc (Client.PollCall j)) as [nx2 lp] eqn:ES. injection EI as <- <- <-.
    assert (Wc : winv (n_cli nxc)) by (apply winv_mk_call, Wx).
    assert (Vc : ChainResp.vn (Pid (rm_ys x) (rm_dn x) (S i)) nxc) by (destruct Vx as [A1 A2 A3 A4]; constructor; assumption).
    assert (IDc : mo_tainted (rm_mon x) = false -> idc (rqof (rm_rq x) (S i)) (n_cli nxc)).
    { intro T. apply ChainIds.idc_add_call; [left; reflexivity|apply IDx, T]. }
    assert (EBc : bods (n_cli nxc) = bods (n_cli nx) ++ [hi_body h]).
    { unfold nxc, bods, mk_call. cbn [n_cli Client.calls Client.upd_calls]. rewrite map_app. reflexivity. }
    destruct (cl_poll_call x ch (S i) nx nxc j nx2 lp J EX Wc Vc IDc NWx ES) as (W2 & V2 & ID2 & EB & FL & FS & FH & RS).
    assert (NJ : nth_error (bods (n_cli nx2)) j = Some (hi_body h)).
    { rewrite EB, EBc. rewrite nth_error_app2 by (unfold bods; rewrite map_length; apply Nat.le_refl).
      unfold bods. rewrite map_length. fold j. rewrite Nat.sub_diag. reflexivity. }
    split; [reflexivity|]. split; [reflexivity|]. split; [reflexivity|].
    split; [constructor; assumption|]. split; [exact FH|]. split; [exact FS|].
    split; [exists [hi_body h]; rewrite EB; exact EBc|]. cbn [n_hs]. split; [apply length_set_hcall|].
    split.
    { intros k0 h0 Eh. destruct (set_hcall_nth _ _ _ _ _ Eh) as (h1 & E1 & Eb1 & _). rewrite <- Eb1.
      apply (bl_hb _ _ _ B _ _ _ _ E0 E1). }
    split.
    { intros k0 h0 j0 Eh Ej. destruct (set_hcall_nth _ _ _ _ _ Eh) as (h1 & E1 & Eb1 & [Ec|[-> Ec]]).
      - rewrite EB, EBc. apply nth_app_some. rewrite <- Eb1. rewrite Ec in Ej.
        apply (bl_nb _ _ _ B _ _ _ _ _ _ E0 EX E1 Ej).
      - rewrite Ec in Ej. injection Ej as <-. rewrite EH in E1. injection E1 as <-. rewrite <- Eb1. exact NJ. }
    intros v Ev. apply st_finish in Ev. destruct (mo_tainted (rm_mon x)) eqn:T; [right; left; exact T|].
    destruct (RS v Ev eq_refl) as (c & Ec & SV). right. right. exists (hi_body h). split; [exact HBk|].
    assert (Ecb : Client.c_body c = hi_body h).
    { unfold nxc, mk_call in Ec. cbn [n_cli Client.calls Client.upd_calls] in Ec.
      rewrite nth_error_app2 in Ec by apply Nat.le_refl. fold j in Ec. rewrite Nat.sub_diag in Ec.
      cbn in Ec. injection Ec as <-. reflexivity. }
    rewrite <- Ecb. exact SV.
Qed.

(* a poll of execute() of a non-leaf node: the nested call on node i+1, then the future *)
Lemma bw_inner d x ch i k nd nx nd1 nx1 st1 nd2 l0 (first : list cobs) :
  BI d x ch -> nth_error ch i = Some nd -> nth_error ch (S i) = Some nx ->
  (first = [KHStart i k] \/ first = []) ->
  inner_poll k nd nx = (nd1, nx1, st1) -> sstep nd1 (Server.OHandlerPoll k st1) = (nd2, l0) ->
  BW d (fold_left (rm_obs d) (first ++ flat_map (tr_sobs i) l0) x) (set_node (S i) nx1 (set_node i nd2 ch)).
Proof.
  intros H E0 EX HF EI ES.
  destruct (inner_facts d x ch i k nd nx nd1 nx1 st1 H E0 EX EI)
    as (F1 & F2 & F3 & CX & HX & SX & (ext & EBX) & LN & HB & NB & HC).
  destruct H as [J O L C B F].
  destruct (handler_mon d x i k st1 nd1 nd2 l0 first ES HF) as (EY & ID & DN & ER & TB & EM & FB).
  set (x' := fold_left (rm_obs d) (first ++ flat_map (tr_sobs i) l0) x) in *.
  destruct (cl_srv_handler x x' ch i k st1 nd nd1 nd2 l0 J E0 F1 F2 F3 (C _ _ E0) ES EY ID DN ER TB)
    as (C1 & H1 & K1 & L1).
  pose proof (nth_error_lt _ _ _ E0) as Li.
  constructor.
  - rewrite !length_set_node. exact L.
  - intros j ndj Ej. destruct (nth_set2 i nd2 nx1 ch j ndj Li Ej) as [[-> ->]|[(-> & -> & _)|(N1 & N2 & Ej')]].
    + exact C1.
    + apply (cl_mono x x'); [rewrite EY; apply incl_refl|exact ID|rewrite ER; auto|exact TB|exact CX].
    + apply (cl_mono x x'); [rewrite EY; apply incl_refl|exact ID|rewrite ER; auto|exact TB|apply C, Ej'].
  - rewrite EY, EM.
    eapply (bl_set2 _ _ i nd nx nd2 nx1 ch ext); [exact E0|exact EX|exact K1| | |exact HX| |exact EBX| |exact B].
    + rewrite H1, LN, L1. apply (bl_len _ _ _ B _ _ E0).
    + intros k0 h0 Eh. rewrite H1 in Eh. apply HB, Eh.
    + rewrite SX. reflexivity.
    + intros k0 h0 j0 Eh Ej. rewrite H1 in Eh. apply (NB _ _ _ Eh Ej).
  - apply FB; assumption.
Qed.

Lemma bi_poll_handler d x i k st ch ch' l :
  BI d x ch -> poll_handler i k st ch = (ch', l) -> BI d (fold_left (rm_obs d) l x) ch'.
Proof.
  intros H E.
  pose proof (ChainResp3.j_poll_handler d x i k st ch ch' l (bi_j _ _ _ H) E) as J'.
  pose proof (ChainResp4.oi_poll_handler d x i k st ch ch' l (bi_oi _ _ _ H) E) as O'.
  assert (W : BW d (fold_left (rm_obs d) l x) ch'); [|destruct W as [A1 A2 A3 A4]; constructor; assumption].
  assert (W0 : BW d x ch) by (destruct H as [J O L C B F]; constructor; assumption).
  unfold poll_handler in E. destruct (nth_error ch i) as [nd|] eqn:E0; [|pinj E; exact W0].
  destruct (nth_error (Server.s_handlers (n_srv nd)) k) as [hr|]; [|pinj E; exact W0].
  assert (LEAF : forall st0 v, nth_error ch (S i) = None -> st0 = Server.SFinish v -> hcond d x i k v).
  { intros st0 v EN _. left. apply nth_error_None in EN. rewrite (bi_len _ _ _ H) in EN.
    destruct (Nat.ltb_spec (S i) d); [lia|reflexivity]. }
  assert (ABORT : forall nd1 l1, sstep nd (Server.OHandlerPoll k Server.SRun) = (nd1, l1) ->
            BW d (fold_left (rm_obs d) (flat_map (tr_sobs i) l1) x)
               (match option_map hi_call (nth_error (n_hs nd) k), nth_error (set_node i nd1 ch) (S i) with
                | Some (Some j), Some nx => set_node (S i) (fst (cstep nx (Client.DropCall j))) (set_node i nd1 ch)
                | _, _ => set_node i nd1 ch end)).
  { intros nd1 l1 ES.
    pose proof (bw_plain d x ch i k Server.SRun nd nd1 l1 [] H E0 (or_intror eq_refl) ES ltac:(intros v [=])) as W1.
    cbn [app] in W1. destruct (option_map hi_call _) as [[j|]|]; try exact W1.
    destruct (nth_error (set_node i nd1 ch) (S i)) as [nx|] eqn:EX; [|exact W1].
    apply bw_drop_call; assumption. }
  assert (RUN : forall first : list cobs, (first = [KHStart i k] \/ first = []) ->
            (match nth_error ch (S i) with
             | Some nx =>
               let '(nd1, nx1, st1) := inner_poll k nd nx in
               let '(nd2, l0) := sstep nd1 (Server.OHandlerPoll k st1) in
               (set_node (S i) nx1 (set_node i nd2 ch), first ++ flat_map (tr_sobs i) l0)
             | None =>
               let '(nd1, l0) := sstep nd (Server.OHandlerPoll k st) in
               (set_node i nd1 ch, first ++ flat_map (tr_sobs i) l0)
             end) = (ch', l) -> BW d (fold_left (rm_obs d) l x) ch').
  { intros first HF E1. destruct (nth_error ch (S i)) as [nx|] eqn:EX.
    - destruct (inner_poll k nd nx) as [[nd1 nx1] st1] eqn:EI.
      destruct (sstep nd1 (Server.OHandlerPoll k st1)) as [nd2 l0] eqn:ES. pinj E1.
      eapply bw_inner; eassumption.
    - destruct (sstep nd (Server.OHandlerPoll k st)) as [nd1 l0] eqn:ES. pinj E1.
      eapply bw_plain; try eassumption. intros v Ev. eapply LEAF; [reflexivity|exact Ev]. }
  destruct (Server.h_st hr).
  - destruct (is_aborted _ _).
    + destruct (sstep nd (Server.OHandlerPoll k Server.SRun)) as [nd1 l1] eqn:ES. pinj E. apply ABORT. reflexivity.
    + apply (RUN [KHStart i k]); [left; reflexivity|exact E].
  - destruct (is_aborted _ _).
    + destruct (sstep nd (Server.OHandlerPoll k Server.SRun)) as [nd1 l1] eqn:ES. pinj E. apply ABORT. reflexivity.
    + apply (RUN []); [right; reflexivity|exact E].
  - destruct (sstep nd (Server.OHandlerPoll k Server.SRun)) as [nd1 l1] eqn:ES. pinj E.
    apply (bw_plain d x ch i k Server.SRun nd nd1 l1 [] H E0 (or_intror eq_refl) ES). intros v [=].
  - destruct (sstep nd (Server.OHandlerPoll k Server.SRun)) as [nd1 l1] eqn:ES. pinj E.
    apply (bw_plain d x ch i k Server.SRun nd nd1 l1 [] H E0 (or_intror eq_refl) ES). intros v [=].
  - pinj E. exact W0.
  - pinj E. exact W0.
Qed.

(* ------------------------------------------------------------------------------------------ *)
(* SettleAll *)
Lemma bneutral_gauges ch : forall i, forallb bneutral (all_gauges i ch) = true.
Proof.
  induction ch as [|nd r IH]; intro i; cbn [all_gauges]; [reflexivity|].
  rewrite !forallb_app, IH. unfold cgauge, sgauge.
  destruct (Server.s_dropped _); [reflexivity|]. destruct (Server.s_bad _); reflexivity.
Qed.

Lemma bi_tail d x ch (q : bool) :
  BI d x ch -> BI d (fold_left (rm_obs d) ((if q then [] else [KRounds]) ++ all_gauges 0 ch) x) ch.
Proof.
  intros [J O L C B F]. set (l := (if q then [] else [KRounds]) ++ all_gauges 0 ch).
  assert (NT : forall e, In e l -> neutral e = true \/ taints e = true).
  { intros e He. unfold l in He. apply in_app_or in He. destruct He as [He|He]; [|eapply all_gauges_nt, He].
    destruct q; [destruct He|]. destruct He as [<-|[]]. right. reflexivity. }
  assert (NY : forallb yneutral l = true).
  { unfold l. rewrite forallb_app, ChainResp2.yneutral_gauges. destruct q; reflexivity. }
  assert (NC : forallb ChainResp3.nocall l = true).
  { unfold l. rewrite forallb_app, ChainResp3.nocall_gauges. destruct q; reflexivity. }
  assert (NB : forallb bneutral l = true).
  { unfold l. rewrite forallb_app, bneutral_gauges. destruct q; reflexivity. }
  set (x' := fold_left (rm_obs d) l x).
  assert (EY : rm_ys x' = rm_ys x) by (unfold x'; rewrite rm_ys_fold; apply ys_fold_noyield, ChainResp3.yneutral_noyield, NY).
  assert (ED : rm_dn x' = rm_dn x).
  { unfold x'. rewrite rm_dn_fold. apply dn_fold_nohdone. apply forallb_forall. intros e He.
    rewrite forallb_forall in NB. specialize (NB e He). destruct e; try reflexivity. destruct b; try reflexivity. discriminate. }
  assert (ER : rm_rq x' = rm_rq x).
  { unfold x'. rewrite rm_rq_fold. clear -NY. revert NY. generalize (rm_rq x). induction l as [|e r IH]; intros rq NY; [reflexivity|].
    cbn [forallb] in NY. apply andb_true_iff in NY. destruct NY as [N1 N2]. cbn [fold_left].
    rewrite IH by exact N2. destruct e; try reflexivity. discriminate. }
  assert (EM : mo_calls (rm_mon x') = mo_calls (rm_mon x)) by (apply ChainResp4.calls_nocall, NC).
  constructor.
  - destruct J as [G S Y U Oc]. constructor.
    + unfold x'. rewrite ChainResp3.rm_mon_fold. apply gu_fold_nt; assumption.
    + unfold x'. rewrite ChainResp3.rm_mon_fold. apply small_fold, S.
    + unfold x'. rewrite ChainResp2.fold_ymof. apply ChainResp2.ys_neutral; assumption.
    + unfold x'. rewrite ChainResp3.uniq_noyield; [exact U|apply ChainResp3.yneutral_noyield, NY].
    + apply ChainResp3.once_keep; assumption.
  - apply (ChainResp4.oi_nocall d x ch ch l O NC), ChainResp4.R0_refl.
  - exact L.
  - intros i nd E. apply (cl_mono x x'); [rewrite EY; apply incl_refl|rewrite ED; apply incl_refl|rewrite ER; auto
                                          |unfold x'; apply taint_fold_back|apply C, E].
  - rewrite EY, EM. exact B.
  - unfold x'. rewrite body_neutral; assumption.
Qed.

Lemma bi_settle_all d x ch ch' l :
  BI d x ch -> settle_all ch = (ch', l) -> BI d (fold_left (rm_obs d) l x) ch'.
Proof.
  apply (lp_settle_all rmon (rm_obs d) (BI d)).
  - intros; eapply bi_poll_head; eassumption.
  - intros; eapply bi_poll_dispatch; eassumption.
  - intros; eapply bi_poll_requests; eassumption.
  - intros; eapply bi_poll_handler; eassumption.
  - intros y e Ee. apply ChainResp3.rm_obs_nonevent, Ee.
  - intros y c q H. apply bi_tail, H.
Qed.

(* ------------------------------------------------------------------------------------------ *)
(* one op *)
Lemma bl_map ys mc (f : node -> node) ch :
  (forall nd, n_hs (f nd) = n_hs nd /\ bods (n_cli (f nd)) = bods (n_cli nd)
              /\ length (Server.s_handlers (n_srv (f nd))) = length (Server.s_handlers (n_srv nd))) ->
  BL ys mc ch -> BL ys mc (map f ch).
Proof.
  intros HF [A B C D].
  assert (G : forall j x, nth_error (map f ch) j = Some x -> exists y, nth_error ch j = Some y /\ x = f y).
  { intros j x E. rewrite nth_error_map in E. destruct (nth_error ch j) as [y|]; [|discriminate].
    injection E as <-. exists y. auto. }
  constructor.
  - intros j x E. destruct (G j x E) as (y & Ey & ->). destruct (HF y) as (H1 & _ & H3). rewrite H1, H3. apply (A _ _ Ey).
  - intros j x k h E Eh. destruct (G j x E) as (y & Ey & ->). destruct (HF y) as (H1 & _). rewrite H1 in Eh. apply (B _ _ _ _ Ey Eh).
  - intros j x z k h j' E Ez Eh Ej. destruct (G j x E) as (y & Ey & ->). destruct (G _ z Ez) as (y' & Ey' & ->).
    destruct (HF y) as (H1 & _). destruct (HF y') as (_ & H2 & _). rewrite H1 in Eh. rewrite H2.
    apply (C _ _ _ _ _ _ Ey Ey' Eh Ej).
  - intros x j h E Eh. destruct (G 0 x E) as (y & Ey & ->). destruct (HF y) as (_ & H2 & _). rewrite H2. apply (D _ _ _ Ey Eh).
Qed.

Lemma bw_set_mon d x m ch :
  rm_body x = true -> length ch = d ->
  (forall i nd, nth_error ch i = Some nd -> CL x i nd) ->
  (mo_tainted m = false -> mo_tainted (rm_mon x) = false) ->
  BL (rm_ys x) (mo_calls m) ch -> BW d (rm_set_mon x m) ch.
Proof.
  intros F L C T B. constructor; [exact L| |exact B|exact F].
  intros i nd E. destruct (C _ _ E) as [W V ID]. constructor; [exact W|exact V|].
  intro T'. apply ID, T, T'.
Qed.

Lemma bi_of d x ch : ChainResp3.J x ch -> ChainResp4.OI x ch -> BW d x ch -> BI d x ch.
Proof. intros J O [L C B F]. constructor; assumption. Qed.

Lemma bw_step d x ch o ch' l :
  ChainResp3.JS x ch -> ChainResp4.OI x ch -> BW d x ch -> small (mon_op (rm_mon x) o) ->
  step ch o = (ch', l) -> BW d (rm_step d x o l) ch'.
Proof.
  intros [C4 G Y U Oc] O W S E. pose proof W as [L C B F].
  unfold rm_step. set (x0 := rm_set_mon x (mon_op (rm_mon x) o)).
  (* component ops: mon_op is the identity *)
  assert (NOP : mon_op (rm_mon x) o = rm_mon x -> BI d x0 ch).
  { intro EM. apply bi_of.
    - constructor; unfold x0; cbn [rm_set_mon rm_mon rm_once rm_uniq]; try assumption; rewrite EM; try assumption.
    - destruct O as [O1 O2]. constructor; [exact O1|]. intros nd0 E0. unfold x0. cbn [rm_set_mon rm_mon]. rewrite EM. apply O2, E0.
    - unfold x0. apply bw_set_mon; try assumption; rewrite EM; auto. }
  assert (FIN : forall y, BW d y ch' ->
            BW d (match o with SettleAll => rm_set_mon y (mon_settled (rm_mon y) l) | _ => y end) ch').
  { intros y Wy. destruct o; try exact Wy. destruct Wy as [L1 C1 B1 F1]. apply bw_set_mon; try assumption; auto. }
  assert (OFB : forall y c, BI d y c -> BW d y c) by (intros y c [J1 O1 L1 C1 B1 F1]; constructor; assumption).
  apply FIN. destruct o; cbn [step] in E.
  - (* HCall *)
    destruct (nth_error ch 0) as [nd|] eqn:E0; pinj E; cbn [fold_left].
    2: { unfold x0. apply bw_set_mon; try assumption.
         - cbn [mon_op mo_tainted]. intro T. apply orb_false_iff in T. apply T.
         - constructor; try apply B. intros nd0 j h E'. congruence. }
    destruct (cstep nd _) as [nd1 l1] eqn:ES. cbn [fst]. assert (VC := ES).
    pose proof (C _ _ E0) as [Wn V ID].
    destruct (ChainResp2.cstep_other_frame _ _ _ _ ES ltac:(discriminate) ltac:(discriminate)) as [FL FS].
    unfold cstep in ES. set (c0 := Client.upd_tr _ _ _ _) in ES.
    destruct (Client.step ctp cfuel c0 (Client.Call 0 d0 tid smp body)) as [c1 os] eqn:EC. pinj ES.
    pose proof (winv_inj _ Wn) as W0. fold c0 in W0.
    pose proof (bods_step _ _ _ _ EC ltac:(discriminate) W0) as EB.
    assert (TB : mo_tainted (mon_op (rm_mon x) (HCall d0 tid smp body)) = false -> mo_tainted (rm_mon x) = false)
      by (cbn [mon_op mo_tainted]; intro T; apply orb_false_iff in T; apply T).
    unfold x0. apply bw_set_mon; [exact F|rewrite length_set_node; exact L| |exact TB|].
    + intros i ndi Ei. destruct (Nat.eq_dec 0 i) as [<-|Ni].
      * pose proof (nth_error_lt _ _ _ E0) as Li. rewrite (nth_set_node_same 0 _ ch Li) in Ei. injection Ei as <-.
        constructor; cbn [n_cli].
        -- eapply ClientWaiters.winv_step; eassumption.
        -- exact (proj1 (ChainResp.vn_cstep _ _ _ _ _ VC ltac:(discriminate) V)).
        -- intro T. eapply (idc_step_user _ c0 _ c1 os EC I W0); [|apply idc_inj, ID, T].
           apply (untainted_nowrap x ch 0 nd); [constructor; try assumption|exact T|exact E0].
           unfold small in *. pose proof (mon_op_calls_len (rm_mon x) (HCall d0 tid smp body)). cbn [mon_op mo_calls] in S.
           rewrite app_length in S. cbn in S. lia.
      * rewrite (nth_set_node_other 0 i _ ch Ni) in Ei. apply C, Ei.
    + rewrite ChainResp4.mon_op_calls. destruct (ChainResp4.oi_c _ _ O nd E0) as [_ OL _].
      pose proof (bl_set_client _ (mo_calls (rm_mon x)) 0 nd (mknode c1 (Client.tr c1) (n_srv nd) (n_hs nd) (n_over nd))
                    ch [body] E0 eq_refl eq_refl EB B) as B1.
      destruct B1 as [BA BB BC BD]. constructor; try assumption.
      intros nd0 j h E' Eh. pose proof (nth_error_lt _ _ _ E0) as Li.
      destruct (Nat.lt_ge_cases j (length (mo_calls (rm_mon x)))) as [Lt|Ge].
      * rewrite nth_error_app1 in Eh by exact Lt. apply (BD _ _ _ E' Eh).
      * rewrite nth_error_app2 in Eh by exact Ge. destruct (j - length (mo_calls (rm_mon x))) as [|n] eqn:En; cbn in Eh.
        -- injection Eh as <-. cbn [hc_body]. rewrite (nth_set_node_same 0 _ ch Li) in E'. injection E' as <-.
           cbn [n_cli]. rewrite EB. assert (j = length (bods c0)) by (unfold bods; rewrite map_length; cbn; lia). subst j.
           rewrite nth_error_app2 by apply Nat.le_refl. rewrite Nat.sub_diag. reflexivity.
        -- destruct n; discriminate.
  - apply OFB. eapply bi_poll_head; [apply NOP; reflexivity|exact E].
  - (* HDrop *)
    assert (W0 : BW d x0 ch).
    { unfold x0. apply bw_set_mon; try assumption; [auto|]. rewrite ChainResp4.mon_op_calls.
      eapply bl_mon; [|exact B]. intros j0 h' Eh. eapply set_over_body, Eh. }
    destruct (nth_error ch 0) as [nd|] eqn:E0; pinj E; cbn [fold_left]; [|exact W0].
    apply bw_drop_call; assumption.
  - apply OFB. eapply bi_poll_dispatch; [apply NOP; reflexivity|exact E].
  - apply OFB. eapply bi_poll_requests; [apply NOP; reflexivity|exact E].
  - apply OFB. eapply bi_poll_handler; [apply NOP; reflexivity|exact E].
  - (* DropDispatch: the run is tainted from here on *)
    destruct (nth_error ch i) as [nd|] eqn:E0; [|pinj E; cbn [fold_left]; unfold x0; apply bw_set_mon; try assumption; discriminate].
    destruct (Client.dropped _); [pinj E; cbn [fold_left]; unfold x0; apply bw_set_mon; try assumption; discriminate|].
    destruct (cstep nd Client.DropDispatch) as [nd1 l1] eqn:ES. pinj E. cbn [fold_left]. assert (VC := ES).
    pose proof (C _ _ E0) as [Wn V ID].
    unfold cstep in ES. set (c0 := Client.upd_tr _ _ _ _) in ES.
    destruct (Client.step ctp cfuel c0 Client.DropDispatch) as [c1 os] eqn:EC. pinj ES.
    pose proof (winv_inj _ Wn) as W0. fold c0 in W0.
    pose proof (bods_step _ _ _ _ EC ltac:(discriminate) W0) as EB. rewrite app_nil_r in EB.
    unfold x0. apply bw_set_mon; [exact F|rewrite length_set_node; exact L| |discriminate|].
    + intros j ndj Ej. destruct (Nat.eq_dec i j) as [<-|Nj].
      * pose proof (nth_error_lt _ _ _ E0) as Li. rewrite (nth_set_node_same i _ ch Li) in Ej. injection Ej as <-.
        constructor; cbn [n_cli n_link n_srv].
        -- eapply ClientWaiters.winv_step; eassumption.
        -- destruct (proj1 (ChainResp.vn_cstep _ _ _ _ _ VC ltac:(discriminate) V)) as [A1 A2 A3 A4].
           constructor; assumption.
        -- intro T. eapply (idc_step_user _ c0 _ c1 os EC I W0); [|apply idc_inj, ID, T].
           apply (untainted_nowrap x ch i nd); [constructor; try assumption; exact S|exact T|exact E0].
      * rewrite (nth_set_node_other i j _ ch Nj) in Ej. apply C, Ej.
    + cbn [mon_op mo_calls]. eapply (bl_set_client _ _ i nd _ ch []); [exact E0|reflexivity|reflexivity| |exact B].
      cbn [n_cli]. rewrite app_nil_r. exact EB.
  - (* DropServer *)
    destruct (nth_error ch i) as [nd|] eqn:E0; [|pinj E; cbn [fold_left]; unfold x0; apply bw_set_mon; try assumption; discriminate].
    destruct (Server.s_dropped _); [pinj E; cbn [fold_left]; unfold x0; apply bw_set_mon; try assumption; discriminate|].
    destruct (sstep nd Server.ODropChannel) as [nd1 l1] eqn:ES. pinj E. cbn [fold_left].
    pose proof (C _ _ E0) as [Wn V ID].
    pose proof (ChainResp4.sstep_cli _ _ _ _ ES) as ECL. pose proof (sstep_hs _ _ _ _ ES) as EHS.
    destruct (ChainResp2.sstep_drop_frame _ _ _ ES) as (EHD & _).
    unfold x0. apply bw_set_mon; [exact F|rewrite length_set_node; exact L| |discriminate|].
    + intros j ndj Ej. destruct (Nat.eq_dec i j) as [<-|Nj].
      * pose proof (nth_error_lt _ _ _ E0) as Li. rewrite (nth_set_node_same i _ ch Li) in Ej. injection Ej as <-.
        constructor; cbn [n_cli n_link n_srv].
        -- rewrite ECL. exact Wn.
        -- destruct (ChainResp.vn_sstep_drop _ _ _ _ ES V) as [A1 A2 A3 A4]. constructor; assumption.
        -- intro T. rewrite ECL. apply ID, T.
      * rewrite (nth_set_node_other i j _ ch Nj) in Ej. apply C, Ej.
    + cbn [mon_op mo_calls].
      eapply (bl_set_srv (rm_ys x) (rm_ys x) _ i nd _ ch); [exact E0|exact ECL| | | |auto|exact B]; cbn [n_hs n_srv].
      * rewrite EHS, EHD. apply (bl_len _ _ _ B _ _ E0).
      * intros k0 h Eh. rewrite EHS in Eh. apply (bl_hb _ _ _ B _ _ _ _ E0 Eh).
      * intros k0 h j Eh Ej. rewrite EHS in Eh. exists h. auto.
  - (* Advance *)
    pinj E. cbn [fold_left].
    assert (TB : mo_tainted (mon_op (rm_mon x) (Advance dt)) = false -> mo_tainted (rm_mon x) = false) by auto.
    unfold x0. apply bw_set_mon; [exact F|rewrite map_length; exact L| |exact TB|].
    + intros j ndj Ej. rewrite nth_error_map in Ej. destruct (nth_error ch j) as [nd|] eqn:E0; [|discriminate].
      injection Ej as <-. pose proof (C _ _ E0) as [Wn V ID].
      unfold advance_node. destruct (cstep nd (Client.Advance dt)) as [nd1 l1] eqn:E1.
      destruct (sstep nd1 (Server.OAdvance dt)) as [nd2 l2] eqn:E2. assert (VC := E1).
      unfold cstep in E1. set (c0 := Client.upd_tr _ _ _ _) in E1.
      destruct (Client.step ctp cfuel c0 (Client.Advance dt)) as [c1 os] eqn:EC. pinj E1.
      pose proof (winv_inj _ Wn) as W0. fold c0 in W0.
      pose proof (ChainResp4.sstep_cli _ _ _ _ E2) as ECL. cbn [n_cli] in ECL.
      constructor.
      * rewrite ECL. eapply ClientWaiters.winv_step; eassumption.
      * eapply ChainResp.vn_sstep_advance; [exact E2|]. exact (proj1 (ChainResp.vn_cstep _ _ _ _ _ VC ltac:(discriminate) V)).
      * intro T. rewrite ECL. eapply (idc_step_user _ c0 _ c1 os EC I W0); [|apply idc_inj, ID, T].
        apply (untainted_nowrap x ch j nd); [constructor; try assumption; exact S|exact T|exact E0].
    + cbn [mon_op mo_calls]. apply bl_map; [|exact B]. intro nd. unfold advance_node.
      destruct (cstep nd (Client.Advance dt)) as [nd1 l1] eqn:E1.
      destruct (sstep nd1 (Server.OAdvance dt)) as [nd2 l2] eqn:E2.
      destruct (ChainResp2.sstep_adv_frame _ _ _ _ E2) as (F1 & _).
      rewrite (sstep_hs _ _ _ _ E2), (ChainResp4.sstep_cli _ _ _ _ E2), F1.
      unfold cstep in E1. cbn [Client.step] in E1. injection E1 as <- _. repeat split.
  - apply OFB. eapply bi_settle_all; [apply NOP; reflexivity|exact E].
Qed.

(* ------------------------------------------------------------------------------------------ *)
(* a run *)
Lemma bw_run d : forall ops x ch,
  ChainResp3.JS x ch -> ChainResp4.OI x ch -> BW d x ch ->
  (N.of_nat (length (mo_calls (rm_mon x)) + length ops) + 1 < two64)%N ->
  exists x', rm_run d x ops (fst (run_from ch ops)) = Some x' /\ rm_body x' = true.
Proof.
  induction ops as [|o r IH]; intros x ch HJ HO HW B; cbn [run_from].
  - exists x. split; [reflexivity|apply HW].
  - destruct (step ch o) as [ch1 l] eqn:ES. destruct (run_from ch1 r) as [ls ch2] eqn:ER.
    cbn [fst rm_run].
    assert (S0 : small (mon_op (rm_mon x) o)).
    { unfold small. pose proof (mon_op_calls_len (rm_mon x) o). cbn [length] in B. lia. }
    specialize (IH (rm_step d x o l) ch1 (ChainResp3.js_step d _ _ _ _ _ HJ S0 ES)
                   (ChainResp4.oi_step d _ _ _ _ _ HO ES) (bw_step d _ _ _ _ _ HJ HO HW S0 ES)).
    rewrite ER in IH. apply IH.
    rewrite ChainResp3.rm_mon_step. pose proof (mon_step_calls_len (rm_mon x) o l). cbn [length] in B. lia.
Qed.

Lemma bw_init d : BW d rmon0 (init d).
Proof.
  constructor; [apply repeat_length| | |reflexivity].
  - intros i nd E. apply nth_error_In in E. unfold init in E. apply repeat_spec in E. subst nd.
    constructor; cbn [n_cli node0].
    + apply ClientWaiters.winv_init.
    + constructor; cbn; [intros id x []|intros r v []|intros r []|intros hr []].
    + intros _. constructor; cbn; try (intros; contradiction).
      intros j1 j2 k1 k2 E1. destruct j1; discriminate.
  - constructor.
    + intros i nd E. apply nth_error_In in E. unfold init in E. apply repeat_spec in E. subst nd. reflexivity.
    + intros i nd k h E Eh. apply nth_error_In in E. unfold init in E. apply repeat_spec in E. subst nd. destruct k; discriminate.
    + intros i nd nx k h j E _ Eh. apply nth_error_In in E. unfold init in E. apply repeat_spec in E. subst nd. destruct k; discriminate.
    + intros nd0 j h _ Eh. destruct j; discriminate.
Qed.

Theorem chain_resp_body : stmt_resp_body.
Proof.
  intros d ops Hw. unfold c01c_body, rm_flag, run.
  destruct (bw_run d ops rmon0 (init d) (ChainResp3.js_init d) (ChainResp4.oi_init d) (bw_init d)) as (x' & -> & A); [|exact A].
  unfold chain_no_wrap in Hw. cbn. unfold two64, ClientSimBase.two64. lia.
Qed.
Print Assumptions chain_resp_body.

(* the whole monitor *)
Theorem chain_resp : stmt_resp.
Proof.
  intros d ops Hw. unfold c01c_ok.
  rewrite ChainResp.chain_resp_val, (chain_resp_body d ops Hw), (ChainResp4.chain_resp_once d ops Hw),
    ChainResp2.chain_resp_yield, (ChainResp3.chain_resp_uniq d ops Hw), ChainResp2.chain_resp_start.
  reflexivity.
Qed.
Print Assumptions chain_resp.
