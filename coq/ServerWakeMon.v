(* C02, server half: the wake monitor accepts every wake-driven run of the model over the scripted
   transport (ServerWakeSpec.stmt_w_monitor).

   Structure of the proof (files ServerWakeMon0..4.v, ServerProofsPA5.v):
   - a GHOST observer of ServerMon.v runs alongside the wake monitor: every micro-step of a wake-driven
     run (environment op, one poll of the stream, one poll of an execute() future) is a `step` of
     Server.v, so ServerSim6.Top / ServerProofsPA0.TopH (InvU, InvH, Safe, OpenTrk, v08) hold along it;
   - Mon0: the wake monitor's incarnation table is related to the observer's (Rel), as long as the
     observer's C08 flag holds after every prefix of a poll's call log (PA5: PVall);
   - Mon1: model-only invariants: permit accounting of the bounded response queue, and "the response
     of a finished handler whose request is tracked is in the queue";
   - Mon2: a quiet round of `settle` leaves the potential of ServerWakeSettles.v unchanged, hence
     took the one branch of every unit that changes nothing: the final state of a settle has no
     server cancel queued, no timer due, an empty inbox, an empty response queue if the sink is
     writable, and every live handler is pending on its script or on a permit;
   - Mon3: the invariant WI through every micro-step; Mon4: the five clauses of wm_check from WI and
     the quiet-round facts;
   - here: the induction over the script; termination of every settle is w_settle_terminates_holds's
     lemma settle_no_fuel (ServerWakeSettles.v). *)
From Coq Require Import List Bool Arith NArith Lia.
Import ListNotations.
From TarpcV Require Import Base Transport TimerWheel Server ServerMon ServerFuel ServerContract
     ServerSim ServerSim2 ServerSim3 ServerSim4 ServerSim5 ServerSim6 ServerSim7 ServerProps ServerState
     ServerWake ServerWakeSpec ServerWakeSettles ServerWakeMon0 ServerWakeMon1 ServerWakeMon2 ServerWakeMon3
     ServerWakeMon4.

Section Main.
  Variable c : cfg.
  Variable cap : nat.
  Variable coupled : bool.
  Hypothesis Hbuf : 1 <= cfg_buf c.
  Notation sctl := (@s_control cmsg).

  Lemma WI_rel : forall (w : WST) m o r, WI c cap coupled w m o -> WI c cap coupled (mkw (w_s w) r (w_end w)) m o.
  Proof. intros w m o r []. constructor; assumption. Qed.

  Lemma NY_handlers : forall (a b : st), s_handlers b = s_handlers a -> NY a -> NY b.
  Proof. intros a b E H j (hr & A & B). apply (H j). exists hr. rewrite <- E. auto. Qed.

  Lemma bad_is_cut : forall l, existsb bad_obs l = existsb is_cut l.
  Proof. induction l as [|e l IH]; [reflexivity|]. cbn [existsb]. rewrite IH. destruct e; reflexivity. Qed.

  Lemma run_ok : forall (ops : list swop) (w : WST) m hyp,
    forallb wake_op ops = true ->
    (hyp = true -> (exists o, WI c cap coupled w m o) /\ NY (w_s w)) ->
    c02s_run c cap coupled m hyp ops (wrun_from stp sctl sfuel sdig c w ops) = true.
  Proof.
    induction ops as [|op ops IH]; intros w m hyp Hops Hinv; [reflexivity|].
    cbn [forallb] in Hops. apply andb_true_iff in Hops. destruct Hops as [Hop Hops].
    cbn [wrun_from]. destruct op as [p|k h|].
    - (* an environment / application op *)
      cbn [wstep]. destruct (step stp sctl sfuel c (w_s w) p) as [s1 l] eqn:ES. cbn [c02s_run].
      pose proof (step_not_cut stp sctl sfuel scripted_tfuel_ok c (w_s w) p) as Hcut. rewrite ES in Hcut. cbn [snd] in Hcut.
      rewrite bad_is_cut, Hcut. cbn [negb andb].
      apply IH; [exact Hops|]. intros Hh. destruct (Hinv Hh) as ((o & HW) & Hny). cbn [w_s].
      destruct p as [|x|k hs|k|k| |dt]; try discriminate Hop.
      + destruct (wi_ctl c cap coupled w m o x s1 l HW ES) as (HW1 & _ & Eh).
        split; [eexists; exact HW1|exact (NY_handlers _ _ Eh Hny)].
      + destruct (wi_drop_handler c cap coupled w m o k s1 l HW Hny ES) as (HW1 & _ & Hny1).
        split; [eexists; exact HW1|exact Hny1].
      + destruct (wi_drop_channel c cap coupled w m o s1 l HW ES) as (HW1 & _ & Eh).
        split; [eexists; exact HW1|exact (NY_handlers _ _ Eh Hny)].
      + destruct (wi_advance c cap coupled w m o dt s1 l HW ES) as (HW1 & _ & Eh).
        split; [eexists; exact HW1|exact (NY_handlers _ _ Eh Hny)].
    - (* a scripted handler may proceed *)
      cbn [wstep c02s_run]. apply IH; [exact Hops|]. intros Hh. destruct (Hinv Hh) as ((o & HW) & Hny). cbn [w_s].
      split; [exists o; apply WI_rel; exact HW|exact Hny].
    - (* settle *)
      cbn [wstep]. destruct (ssettle c (rounds_of sfuel (w_s w)) w (mkso [] false)) as [w1 r] eqn:ESt.
      assert (F : so_fuel r = false).
      { change r with (snd (w1, r)). rewrite <- ESt. apply settle_no_fuel; [reflexivity|]. right. apply Phi_rounds. }
      rewrite F.
      destruct (wi_settle c cap coupled _ _ _ _ _ ESt F) as (evs & Eev & Hbad & Hrun). cbn [so_ev app] in Eev.
      assert (Hgoal : forall a b,
                (a, b) = (if s_dropped (w_s w1) then 0 else length (s_inflight (w_s w1)),
                          if s_dropped (w_s w1) then 0 else length (s_timers (w_s w1))) ->
                c02s_run c cap coupled m hyp (WSettle :: ops)
                  (WS (so_ev r) a b :: wrun_from stp sctl sfuel sdig c w1 ops) = true).
      { intros a b Eab. cbn [c02s_run]. rewrite Eev, Hbad. cbn [negb andb].
        destruct (fold_left wm_event_h evs (m, hyp)) as [m1 hyp1] eqn:EF.
        destruct hyp1.
        - (* the hypothesis still holds: the clauses *)
          assert (Hh : hyp = true).
          { destruct hyp; [reflexivity|]. pose proof (fold_h_false evs (m, false) eq_refl) as X. rewrite EF in X. discriminate. }
          subst hyp. destruct (Hinv eq_refl) as ((o & HW) & Hny).
          destruct (Hrun m o HW) as (o1 & HW1); [rewrite EF; reflexivity|]. rewrite EF in HW1. cbn [fst] in HW1.
          pose proof (settle_end c _ _ _ _ _ ESt F Hny) as HQ.
          pose proof (check_ok c cap coupled Hbuf w1 m1 o1 HW1 HQ) as HC.
          injection Eab as -> ->. cbn [negb orb]. rewrite HC. cbn [andb].
          apply IH; [exact Hops|]. intros _. split; [exists o1; exact HW1|exact (proj1 HQ)].
        - cbn [negb orb andb]. apply IH; [exact Hops|]. intros X. discriminate. }
      destruct (s_dropped (w_s w1)) eqn:ED; apply Hgoal; rewrite ?ED; reflexivity.
  Qed.
End Main.

Theorem w_monitor_holds : stmt_w_monitor.
Proof.
  intros c cap coupled ops Hbuf Hops. unfold c02s_ok, swrun, wrun. cbn [st_init st_cap st_coupled].
  apply (run_ok c cap coupled Hbuf ops (mkw (init c (st_init cmsg cap coupled)) [] None) wm0 true Hops).
  intros _. destruct (wi_init c cap coupled) as (HW & Hny). split; [exists o_init; exact HW|exact Hny].
Qed.
Print Assumptions w_monitor_holds.
