(* Simulation, part 2: the observer's own functions (projections), and the invariant through the
   micro-steps of a Requests poll, one transport call at a time. *)
From Coq Require Import List Bool Arith NArith Lia.
Import ListNotations.
From TarpcV Require Import Base Transport TimerWheel Server ServerMon ServerFuel ServerSim.

(* ------------------------------------------------------------------------------------------ *)
(* projections of the observer's helper functions *)
Lemma with_v_proj : forall o v,
  o_incs (with_v o v) = o_incs o /\ o_now (with_v o v) = o_now o /\ o_dropped (with_v o v) = o_dropped o
  /\ o_eof (with_v o v) = o_eof o /\ o_pend (with_v o v) = o_pend o /\ o_gauge (with_v o v) = o_gauge o.
Proof. intros; cbn; repeat split; reflexivity. Qed.

Ltac oproj :=
  cbn [o_incs o_now o_gauge o_dropped o_eof o_dirty o_pend o_first o_after_thr o_blocked o_freed
       o_errcall o_v with_v with_incs with_pend with_call chk08 chk04 chk06e chk06l chk11 chk12a chk12b
       chk12c chk09 chk10 set_flags hyp_b1 hyp_stop cls_k1 cls_k2 mark_err mark_bad vand
       v08 v04 v06e v06l v06l_rel v11 v11_rel v12a v12b v12c v12c_rel v09 v10 h_b1 h_stop c_k1 c_k2
       c_err v_bad pend_id] in *.

Definition pre_err (o : ostate) : ostate :=
  match o_errcall o with Some _ => chk09 o false | None => o end.

Lemma pre_err_proj : forall o,
  o_incs (pre_err o) = o_incs o /\ o_now (pre_err o) = o_now o /\ o_dropped (pre_err o) = o_dropped o
  /\ o_eof (pre_err o) = o_eof o /\ o_pend (pre_err o) = o_pend o /\ o_gauge (pre_err o) = o_gauge o
  /\ o_first (pre_err o) = o_first o /\ o_after_thr (pre_err o) = o_after_thr o
  /\ o_blocked (pre_err o) = o_blocked o /\ o_freed (pre_err o) = o_freed o
  /\ o_dirty (pre_err o) = o_dirty o /\ o_errcall (pre_err o) = o_errcall o
  /\ c_err (o_v (pre_err o)) = c_err (o_v o) /\ v_bad (o_v (pre_err o)) = v_bad (o_v o)
  /\ h_b1 (o_v (pre_err o)) = h_b1 (o_v o) /\ h_stop (o_v (pre_err o)) = h_stop (o_v o).
Proof. intros o; unfold pre_err; destruct (o_errcall o) eqn:E; oproj; rewrite ?E; repeat split; reflexivity. Qed.

Lemma resolve_ignored_proj : forall o,
  o_incs (resolve_ignored o) = o_incs o /\ o_now (resolve_ignored o) = o_now o
  /\ o_dropped (resolve_ignored o) = o_dropped o /\ o_eof (resolve_ignored o) = o_eof o
  /\ o_pend (resolve_ignored o) = None /\ o_gauge (resolve_ignored o) = o_gauge o
  /\ o_blocked (resolve_ignored o) = o_blocked o /\ o_freed (resolve_ignored o) = o_freed o
  /\ o_dirty (resolve_ignored o) = o_dirty o /\ o_errcall (resolve_ignored o) = o_errcall o
  /\ c_err (o_v (resolve_ignored o)) = c_err (o_v o) /\ v_bad (o_v (resolve_ignored o)) = v_bad (o_v o)
  /\ h_stop (o_v (resolve_ignored o)) = h_stop (o_v o).
Proof.
  intros o; unfold resolve_ignored. destruct (o_pend o) as [[[[id dl] tr] body]|] eqn:E; oproj;
    repeat split; auto.
Qed.

Lemma accept_id_proj : forall id o,
  o_incs (accept_id id o) = close_at (last_open id (o_incs o)) WClosed (o_incs o)
  /\ o_now (accept_id id o) = o_now o /\ o_dropped (accept_id id o) = o_dropped o
  /\ o_eof (accept_id id o) = o_eof o /\ o_pend (accept_id id o) = o_pend o
  /\ o_gauge (accept_id id o) = o_gauge o /\ o_freed (accept_id id o) = o_freed o
  /\ o_blocked (accept_id id o) = o_blocked o /\ o_dirty (accept_id id o) = o_dirty o
  /\ o_errcall (accept_id id o) = o_errcall o
  /\ c_err (o_v (accept_id id o)) = c_err (o_v o) /\ v_bad (o_v (accept_id id o)) = v_bad (o_v o)
  /\ h_stop (o_v (accept_id id o)) = h_stop (o_v o).
Proof.
  intros id o; unfold accept_id, close_at. destruct (last_open id (o_incs o)); oproj; repeat split; auto.
Qed.

(* after closing the last open incarnation of an id, no incarnation of that id is open *)
Lemma close_last_open_none : forall id w l (HU : forall k1 k2 o1 o2,
    nth_error l k1 = Some o1 -> nth_error l k2 = Some o2 -> oi_id o1 = oi_id o2 ->
    is_open (oi_wire o1) = true -> is_open (oi_wire o2) = true -> k1 = k2),
  is_open w = false ->
  forall j x, nth_error (close_at (last_open id l) w l) j = Some x -> open_id id x = false.
Proof.
  intros id w l HU Hw j x Hx.
  destruct (close_at_nth _ _ _ _ _ Hx) as (y & Hy & I & _ & _ & _ & _ & W).
  unfold open_id. destruct W as [[_ W]|[Hne W]].
  - rewrite W, Hw. apply andb_false_r.
  - rewrite W, I. destruct (N.eqb (oi_id y) id && is_open (oi_wire y)) eqn:E; [|reflexivity].
    exfalso. apply andb_true_iff in E. destruct E as [E1 E2]. apply N.eqb_eq in E1.
    destruct (last_open id l) as [k|] eqn:EL.
    + destruct (last_open_some _ _ _ EL) as (z & Hz & Hop & _). apply open_id_true in Hop.
      destruct Hop as [Z1 Z2]. apply Hne. f_equal. apply (HU k j z y); auto. congruence.
    + pose proof (last_open_none _ _ EL j y Hy) as Hn. unfold open_id in Hn.
      rewrite E1, N.eqb_refl, E2 in Hn. discriminate.
Qed.

Section Micro.
  Context {T : Type}.
  Variable tp : transport T response cmsg.
  Notation st := (@sstate T).

  (* like InvU_frame, but the pending-request register may change when nothing is ownerless *)
  Lemma InvU_frame_owned : forall o o' (s s' : st),
    InvU o s -> all_owned o s -> c_err (o_v o) = false ->
    o_incs o' = o_incs o -> o_now o' = o_now o -> o_dropped o' = o_dropped o ->
    c_err (o_v o') = false -> same_core s s' ->
    (s_fused s' = true -> o_eof o' = true) -> InvU o' s'.
  Proof.
    intros o o' s s' HI Hall Hce T1 T2 T3 T5 (C1 & C2 & C3 & C4 & C5 & C6 & C7 & C8) He.
    pose proof (u_maybe _ _ HI) as UM.
    destruct HI. constructor; rewrite ?T1, ?T2, ?T3, ?T5, ?C1, ?C2, ?C3, ?C4, ?C5, ?C6, ?C7, ?C8; auto.
    - intros e He'. left. destruct (Hall Hce e He') as (k & Hk). exists k. eapply owns_frame; eauto.
    - intros k e oi Hin Ho. apply (UM k e oi); auto. eapply owns_frame; [| | |exact Ho]; auto.
  Qed.

  Lemma all_owned_frame : forall o o' (s s' : st),
    all_owned o s -> o_incs o' = o_incs o -> c_err (o_v o') = c_err (o_v o) ->
    s_handlers s' = s_handlers s -> s_timers s' = s_timers s -> s_inflight s' = s_inflight s ->
    all_owned o' s'.
  Proof.
    intros o o' s s' Hall Hi Hc Hh Ht Hin Hce e He. rewrite Hc in Hce. rewrite Hin in He.
    destruct (Hall Hce e He) as (k & Hk). exists k. eapply owns_frame; eauto.
  Qed.

  Lemma do_ready_core : forall (s : st) r s', do_ready tp s = (r, s') ->
    same_core s s' /\ s_fused s' = s_fused s /\ s_respq s' = s_respq s /\ s_permits s' = s_permits s
    /\ s_waiters s' = s_waiters s /\ s_log s' = CReady r :: s_log s.
  Proof.
    intros s r s' H. unfold do_ready in H. destruct (t_ready tp (s_t s)) as [x t'].
    injection H as <- <-. unfold same_core; sproj. repeat split; reflexivity.
  Qed.
  Lemma do_flush_core : forall (s : st) r s', do_flush tp s = (r, s') ->
    same_core s s' /\ s_fused s' = s_fused s /\ s_respq s' = s_respq s /\ s_permits s' = s_permits s
    /\ s_waiters s' = s_waiters s /\ s_log s' = CFlush r :: s_log s.
  Proof.
    intros s r s' H. unfold do_flush in H. destruct (t_flush tp (s_t s)) as [x t'].
    injection H as <- <-. unfold same_core; sproj. repeat split; reflexivity.
  Qed.
  Lemma do_next_core : forall (s : st) r s', do_next tp s = (r, s') ->
    same_core s s' /\ s_fused s' = s_fused s /\ s_respq s' = s_respq s /\ s_permits s' = s_permits s
    /\ s_waiters s' = s_waiters s /\ s_log s' = CNext r :: s_log s.
  Proof.
    intros s r s' H. unfold do_next in H. destruct (t_next tp (s_t s)) as [x t'].
    injection H as <- <-. unfold same_core; sproj. repeat split; reflexivity.
  Qed.
  Lemma do_send_core : forall m (s : st) r s', do_send tp m s = (r, s') ->
    same_core s s' /\ s_fused s' = s_fused s /\ s_respq s' = s_respq s /\ s_permits s' = s_permits s
    /\ s_waiters s' = s_waiters s /\ s_log s' = CSend m r :: s_log s.
  Proof.
    intros m s r s' H. unfold do_send in H. destruct (t_send tp (s_t s) m) as [x t'].
    injection H as <- <-. unfold same_core; sproj. repeat split; reflexivity.
  Qed.

  (* ---- poll_ready / poll_flush: only flags move ------------------------------------------- *)
  Lemma ocall_ready_tab : forall lim o r, same_tab o (o_call lim o (CReady r))
    /\ o_eof (o_call lim o (CReady r)) = o_eof o /\ v_bad (o_v (o_call lim o (CReady r))) = v_bad (o_v o).
  Proof.
    intros lim o r. unfold o_call. fold (pre_err o).
    destruct (pre_err_proj o) as (A1 & A2 & A3 & A4 & A5 & A6 & A7 & A8 & A9 & A10 & A11 & A12 & A13 & A14 & _).
    unfold same_tab, pend_id. oproj. rewrite A1, A2, A3, A4, A5, A13, A14. repeat split; reflexivity.
  Qed.
  Lemma ocall_flush_tab : forall lim o r, same_tab o (o_call lim o (CFlush r))
    /\ o_eof (o_call lim o (CFlush r)) = o_eof o /\ v_bad (o_v (o_call lim o (CFlush r))) = v_bad (o_v o).
  Proof.
    intros lim o r. unfold o_call. fold (pre_err o).
    destruct (pre_err_proj o) as (A1 & A2 & A3 & A4 & A5 & A6 & A7 & A8 & A9 & A10 & A11 & A12 & A13 & A14 & _).
    unfold same_tab, pend_id. oproj. rewrite A1, A2, A3, A4, A5, A13, A14. repeat split; reflexivity.
  Qed.

  Lemma step_ready : forall lim o (s : st) r s',
    InvU o s -> do_ready tp s = (r, s') -> InvU (o_call lim o (CReady r)) s'.
  Proof.
    intros lim o s r s' HI H. destruct (do_ready_core _ _ _ H) as (C & F & _).
    destruct (ocall_ready_tab lim o r) as (Tb & E & _).
    eapply InvU_frame; eauto. rewrite F, E. exact (u_eof _ _ HI).
  Qed.
  Lemma step_flush : forall lim o (s : st) r s',
    InvU o s -> do_flush tp s = (r, s') -> InvU (o_call lim o (CFlush r)) s'.
  Proof.
    intros lim o s r s' HI H. destruct (do_flush_core _ _ _ H) as (C & F & _).
    destruct (ocall_flush_tab lim o r) as (Tb & E & _).
    eapply InvU_frame; eauto. rewrite F, E. exact (u_eof _ _ HI).
  Qed.

  Lemma all_owned_of_inv : forall o (s : st),
    InvU o s -> pend_id o = None -> all_owned o s.
  Proof.
    intros o s HI Hp Hce e He. destruct (u_owner _ _ HI e He) as [H|[[H|H] _]]; [exact H| |]; congruence.
  Qed.

  (* every tracked entry belongs to some handler incarnation (model-only) *)
  Definition handled (s : st) : Prop :=
    forall e, In e (s_inflight s) -> exists hr, In hr (s_handlers s) /\ h_h hr = e_h e.

  Lemma all_owned_of_handled : forall o (s : st), InvU o s -> handled s -> all_owned o s.
  Proof.
    intros o s HI Hh Hce e He. destruct (u_owner _ _ HI e He) as [H|[_ Hno]]; [exact H|].
    exfalso. destruct (Hh e He) as (hr & Hin & Heq). exact (Hno hr Hin Heq).
  Qed.

  Lemma handled_sub : forall (s s' : st),
    handled s -> (forall e, In e (s_inflight s') -> In e (s_inflight s)) ->
    map h_h (s_handlers s') = map h_h (s_handlers s) -> handled s'.
  Proof.
    intros s s' Hh Hsub Hm e He. destruct (Hh e (Hsub e He)) as (hr & Hin & Heq).
    assert (In (h_h hr) (map h_h (s_handlers s'))) by (rewrite Hm; apply in_map; exact Hin).
    apply in_map_iff in H. destruct H as (hr' & E1 & E2). exists hr'. split; [exact E2|congruence].
  Qed.

  (* whether some handler carries the handle of e is decidable *)
  Lemma classic_handled : forall (s : st) e,
    (exists hr, In hr (s_handlers s) /\ h_h hr = e_h e)
    \/ (forall hr, In hr (s_handlers s) -> h_h hr <> e_h e).
  Proof.
    intros s e. induction (s_handlers s) as [|x l IH]; [right; intros hr []|].
    destruct (Nat.eq_dec (h_h x) (e_h e)) as [E|N].
    - left. exists x. split; [left; reflexivity|exact E].
    - destruct IH as [(hr & A & B)|IH].
      + left. exists hr. split; [right; exact A|exact B].
      + right. intros hr [<-|Hin]; auto.
  Qed.

  (* ---- poll_next of the transport ------------------------------------------------------------ *)
  Lemma ocall_next_proj : forall lim o r,
    let o' := o_call lim o (CNext r) in
    o_now o' = o_now o /\ o_dropped o' = o_dropped o /\ c_err (o_v o') = c_err (o_v o)
    /\ v_bad (o_v o') = v_bad (o_v o) /\ h_stop (o_v o') = h_stop (o_v o)
    /\ (o_eof o = true -> o_eof o' = true)
    /\ match r with
       | RItem (MReq id dl tr body) =>
         o_incs o' = o_incs o /\ o_pend o' = Some (id, dl, tr, body)
       | RItem (MCancel id _) =>
         o_incs o' = close_at (last_open id (o_incs o)) WCancelled (o_incs o) /\ o_pend o' = None
       | REof => o_incs o' = o_incs o /\ o_pend o' = None /\ o_eof o' = true
       | _ => o_incs o' = o_incs o /\ o_pend o' = None
       end.
  Proof.
    intros lim o r. cbv zeta. unfold o_call. fold (pre_err o).
    destruct (pre_err_proj o) as (A1 & A2 & A3 & A4 & A5 & A6 & A7 & A8 & A9 & A10 & A11 & A12 & A13 & A14 & A15 & A16).
    destruct (resolve_ignored_proj (pre_err o)) as (B1 & B2 & B3 & B4 & B5 & B6 & B7 & B8 & B9 & B10 & B11 & B12 & B13).
    destruct r as [[id dl tr body|id tr]| | |].
    - oproj. rewrite ?orb_false_r, ?andb_true_r. rewrite B1, B2, B3, B4, B11, B12, B13, A1, A2, A3, A4, A13, A14, A16. repeat split; auto.
    - destruct (last_open id (o_incs (resolve_ignored (pre_err o)))) as [k|] eqn:EL;
        oproj; rewrite B1 in EL; rewrite A1 in EL; rewrite EL;
        rewrite ?B1, ?B2, ?B3, ?B4, ?B5, ?B11, ?B12, ?B13, ?A1, ?A2, ?A3, ?A4, ?A13, ?A14, ?A16;
        repeat split; auto.
    - oproj. rewrite B1, B2, B3, B4, B5, B11, B12, B13, A1, A2, A3, A4, A13, A14, A16. repeat split; auto.
    - oproj. rewrite B1, B2, B3, B5, B11, B12, B13, A1, A2, A3, A13, A14, A16. repeat split; auto.
    - oproj. rewrite B1, B2, B3, B4, B5, B11, B12, B13, A1, A2, A3, A4, A13, A14, A16. repeat split; auto.
  Qed.

  Lemma drop_timer_none : forall o (s : st) id, InvU o s -> find_entry id s = None ->
    drop_timer id (s_timers s) = s_timers s.
  Proof.
    intros o s id HI Hn. pose proof (u_timers _ _ HI) as Ht. pose proof (find_entry_none _ _ Hn) as Hne.
    unfold drop_timer. revert Ht Hne. generalize (s_inflight s). induction (s_timers s) as [|[i w] l IH];
      intros es Ht Hne; cbn; auto.
    destruct es as [|e es]; [discriminate|]. cbn in Ht. inversion Ht; subst.
    assert (e_id e <> id) by (apply Hne; left; reflexivity).
    destruct (N.eqb (e_id e) id) eqn:E; [apply N.eqb_eq in E; contradiction|]. cbn. f_equal.
    apply (IH es); auto. intros e' He'. apply Hne. right. exact He'.
  Qed.

  (* the transport says Pending, end of stream, or fails *)
  Lemma step_next_idle : forall lim o (s : st) r s3,
    InvU o s -> pend_id o = None \/ all_owned o s -> c_err (o_v o) = false ->
    do_next tp s = (r, s3) ->
    match r with RItem _ => False | _ => True end ->
    let s' := match r with REof => set_fused s3 true | _ => s3 end in
    let o' := o_call lim o (CNext r) in
    InvU o' s' /\ pend_id o' = None.
  Proof.
    intros lim o s r s3 HI Hown Hce H Hr. cbv zeta.
    assert (Hall : all_owned o s) by (destruct Hown as [Hp|Ha]; [apply all_owned_of_inv; auto|exact Ha]).
    destruct (do_next_core _ _ _ H) as (C & F & _).
    destruct (ocall_next_proj lim o r) as (P1 & P2 & P3 & P4 & P5 & P6 & P7). cbv zeta in *.
    destruct r as [m| | |]; [contradiction| | |].
    - destruct P7 as (I & Pn). split; [|unfold pend_id; rewrite Pn; reflexivity].
      apply (InvU_frame_owned o _ s s3 HI Hall Hce I P1 P2); [congruence|exact C|].
      rewrite F. intros Fu. apply P6. exact (u_eof _ _ HI Fu).
    - destruct P7 as (I & Pn & E). split; [|unfold pend_id; rewrite Pn; reflexivity].
      apply (InvU_frame_owned o _ s _ HI Hall Hce I P1 P2); [congruence| |intros _; exact E].
      destruct C as (C1 & C2 & C3 & C4 & C5 & C6 & C7 & C8). unfold same_core; sproj. repeat split; auto.
    - destruct P7 as (I & Pn). split; [|unfold pend_id; rewrite Pn; reflexivity].
      apply (InvU_frame_owned o _ s s3 HI Hall Hce I P1 P2); [congruence|exact C|].
      rewrite F. intros Fu. apply P6. exact (u_eof _ _ HI Fu).
  Qed.

  (* a Cancel message *)
  Lemma step_next_cancel : forall lim o (s : st) id tr s3,
    InvU o s -> pend_id o = None \/ all_owned o s -> c_err (o_v o) = false ->
    do_next tp s = (RItem (MCancel id tr), s3) ->
    let o' := o_call lim o (CNext (RItem (MCancel id tr))) in
    InvU o' (cancel_request id s3) /\ pend_id o' = None.
  Proof.
    intros lim o s id tr s3 HI Hown Hce H. cbv zeta.
    assert (Hall : all_owned o s) by (destruct Hown as [Hp|Ha]; [apply all_owned_of_inv; auto|exact Ha]).
    destruct (do_next_core _ _ _ H) as ((C1 & C2 & C3 & C4 & C5 & C6 & C7 & C8) & F & _).
    destruct (ocall_next_proj lim o (RItem (MCancel id tr))) as (P1 & P2 & P3 & P4 & P5 & P6 & I & Pn).
    cbv zeta in *. split; [|unfold pend_id; rewrite Pn; reflexivity].
    assert (HI3 : InvU o s3).
    { eapply InvU_frame; [exact HI|repeat split; reflexivity|repeat split; auto|].
      rewrite F. exact (u_eof _ _ HI). }
    assert (Hall3 : all_owned o s3).
    { eapply all_owned_frame; eauto. }
    assert (Hownless : forall e, In e (s_inflight s3) -> (forall hr, In hr (s_handlers s3) -> h_h hr <> e_h e) -> False).
    { intros e He Hno. destruct (Hall3 Hce e He) as (k & hr & oi & A & B & C & _).
      apply (Hno hr); [eapply nth_error_In; eauto|exact C]. }
    assert (Hpend : forall e0, In e0 (s_inflight s3) -> e_id e0 <> id ->
              (forall hr, In hr (s_handlers s3) -> h_h hr <> e_h e0) ->
              pend_id o = Some (e_id e0) \/ c_err (o_v o) = true ->
              pend_id (o_call lim o (CNext (RItem (MCancel id tr)))) = Some (e_id e0)
              \/ c_err (o_v (o_call lim o (CNext (RItem (MCancel id tr))))) = true).
    { intros e0 He Hne Hno. exfalso. exact (Hownless e0 He Hno). }
    assert (Hcerr : c_err (o_v (o_call lim o (CNext (RItem (MCancel id tr))))) = false -> c_err (o_v o) = false)
      by (intros _; exact Hce).
    destruct (cancel_request_shape id s3) as [(Heq & Hnone)|(e & Hfe & B1 & B2 & B3 & B4 & B5 & B6 & B7 & B8 & B9 & _)];
      cbv zeta in *.
    - rewrite Heq.
      apply (InvU_untrack o _ s3 s3 id WCancelled HI3 I eq_refl P1 P2 P6 Hpend Hcerr).
      + symmetry. apply drop_entry_none. exact Hnone.
      + symmetry. eapply drop_timer_none; eauto.
      + left. reflexivity.
      + auto.
      + reflexivity.
      + reflexivity.
      + reflexivity.
      + reflexivity.
      + reflexivity.
    - apply (InvU_untrack o _ s3 _ id WCancelled HI3 I eq_refl P1 P2 P6 Hpend Hcerr B1 B2).
      + right. exists e. split; [exact Hfe|exact B3].
      + intros id' _ Hin. rewrite B6. exact Hin.
      + exact B4.
      + exact B5.
      + exact B7.
      + exact B8.
      + exact B9.
  Qed.

  (* ---- a Request message ------------------------------------------------------------------------ *)
  Definition PendQ (o : ostate) (s : st) (q : treq) : Prop :=
    o_pend o = Some (q_id q, q_dl q, q_tr q, q_body q)
    /\ (forall e, In e (s_inflight s) -> (forall hr, In hr (s_handlers s) -> h_h hr <> e_h e) ->
                  e = {| e_id := q_id q; e_h := q_h q; e_dl := q_dl q |})
    /\ (forall hr, In hr (s_handlers s) -> h_h hr <> q_h q)
    /\ q_h q < s_next_h s /\ ~ In (q_h q) (s_aborted s)
    /\ (forall e, In e (s_inflight s) -> e_h e = q_h q ->
                  e = {| e_id := q_id q; e_h := q_h q; e_dl := q_dl q |})
    /\ (forall e, In e (s_inflight s) -> e_id e = q_id q ->
                  e = {| e_id := q_id q; e_h := q_h q; e_dl := q_dl q |}).

  Lemma step_next_dup : forall lim o (s : st) id dl tr body s3,
    InvU o s -> pend_id o = None \/ all_owned o s -> c_err (o_v o) = false ->
    do_next tp s = (RItem (MReq id dl tr body), s3) ->
    let o' := o_call lim o (CNext (RItem (MReq id dl tr body))) in
    InvU o' s3 /\ all_owned o' s3 /\ c_err (o_v o') = false.
  Proof.
    intros lim o s id dl tr body s3 HI Hown Hce H. cbv zeta.
    assert (Hall : all_owned o s) by (destruct Hown as [Hp|Ha]; [apply all_owned_of_inv; auto|exact Ha]).
    destruct (do_next_core _ _ _ H) as (C & F & _).
    destruct (ocall_next_proj lim o (RItem (MReq id dl tr body))) as (P1 & P2 & P3 & P4 & P5 & P6 & I & Pn).
    cbv zeta in *. split; [|split].
    - apply (InvU_frame_owned o _ s s3 HI Hall Hce I P1 P2); [congruence|exact C|].
      rewrite F. intros Fu. apply P6. exact (u_eof _ _ HI Fu).
    - destruct C as (C1 & C2 & C3 & C4 & _). eapply all_owned_frame; eauto.
    - congruence.
  Qed.

  Lemma step_next_accept : forall lim o (s : st) id dl tr body s3 h s4,
    InvU o s -> pend_id o = None \/ all_owned o s -> c_err (o_v o) = false ->
    do_next tp s = (RItem (MReq id dl tr body), s3) ->
    start_request id dl s3 = Some (h, s4) ->
    let o' := o_call lim o (CNext (RItem (MReq id dl tr body))) in
    let q := {| q_id := id; q_h := h; q_dl := dl; q_tr := tr; q_body := body |} in
    InvU o' s4 /\ PendQ o' s4 q /\ c_err (o_v o') = false
    /\ In {| e_id := id; e_h := h; e_dl := dl |} (s_inflight s4).
  Proof.
    intros lim o s id dl tr body s3 h s4 HI Hown Hce H Hs. cbv zeta.
    destruct (step_next_dup lim o s id dl tr body s3 HI Hown Hce H) as (HI3 & Hall3 & Hce3).
    destruct (ocall_next_proj lim o (RItem (MReq id dl tr body))) as (P1 & P2 & P3 & P4 & P5 & P6 & I & Pn).
    cbv zeta in *.
    destruct (start_request_shape _ _ _ _ _ Hs) as (Htr & Hh & Hi & Ht & Hn & Hha & Hab & Hc & Hw & Hd & Hf & _).
    assert (Hfreshh : forall hr, In hr (s_handlers s3) -> h_h hr <> h).
    { intros hr Hin Heq. apply In_nth_error in Hin. destruct Hin as (k & Hk).
      assert (Hlt : k < length (o_incs (o_call lim o (CNext (RItem (MReq id dl tr body)))))).
      { rewrite (u_len _ _ HI3). apply nth_error_Some. congruence. }
      apply nth_error_Some in Hlt.
      destruct (nth_error (o_incs (o_call lim o (CNext (RItem (MReq id dl tr body))))) k) as [oi|] eqn:Eoi; [|congruence].
      destruct (u_hand _ _ HI3 k hr oi Hk Eoi) as (_ & _ & _ & D). subst h. lia. }
    split; [|split; [|split; [exact Hce3|rewrite Hi; apply in_or_app; right; left; reflexivity]]].
    - apply (InvU_accept _ _ s3 s4 id dl h HI3 Hall3 Hce3 Hs); auto.
    - unfold PendQ. cbn [q_id q_h q_dl q_tr q_body]. rewrite Hha, Hi, Hn, Hab.
      split; [exact Pn|]. split; [|split; [exact Hfreshh|split; [subst h; lia|split]]].
      + intros e He Hno. apply in_app_or in He. destruct He as [He|[<-|[]]]; [|reflexivity].
        exfalso. destruct (Hall3 Hce3 e He) as (k & hr & oi & A & B & C & _).
        apply (Hno hr); [eapply nth_error_In; eauto|exact C].
      + intros Hin. pose proof (u_abfresh _ _ HI3 h Hin). subst h. lia.
      + split.
        * intros e He Heh. apply in_app_or in He. destruct He as [He|[<-|[]]]; [|reflexivity].
          exfalso. pose proof (u_efresh _ _ HI3 e He). subst h. lia.
        * intros e He Heid. apply in_app_or in He. destruct He as [He|[<-|[]]]; [|reflexivity].
          exfalso. exact (tracked_false_not_in _ _ Htr e He Heid).
  Qed.

  Lemma PendQ_frame : forall o o' (s s' : st) q,
    PendQ o s q -> o_pend o' = o_pend o ->
    map h_h (s_handlers s') = map h_h (s_handlers s) -> s_next_h s' = s_next_h s ->
    s_aborted s' = s_aborted s -> (forall e, In e (s_inflight s') -> In e (s_inflight s)) ->
    PendQ o' s' q.
  Proof.
    intros o o' s s' q (A & B & C & D & E & F & G) Hp Hm Hn Ha Hi.
    assert (HinH : forall hr, In hr (s_handlers s) -> exists hr', In hr' (s_handlers s') /\ h_h hr' = h_h hr).
    { intros hr Hin. assert (In (h_h hr) (map h_h (s_handlers s'))) by (rewrite Hm; apply in_map; exact Hin).
      apply in_map_iff in H. destruct H as (hr' & E1 & E2). eauto. }
    assert (HinH' : forall hr', In hr' (s_handlers s') -> exists hr, In hr (s_handlers s) /\ h_h hr = h_h hr').
    { intros hr' Hin. assert (In (h_h hr') (map h_h (s_handlers s))) by (rewrite <- Hm; apply in_map; exact Hin).
      apply in_map_iff in H. destruct H as (hr & E1 & E2). eauto. }
    unfold PendQ. rewrite Hp, Hn, Ha. repeat split; auto.
    - intros e He Hno. apply B; auto. intros hr Hin. destruct (HinH _ Hin) as (hr' & Hin' & Eq).
      rewrite <- Eq. apply Hno. exact Hin'.
    - intros hr' Hin'. destruct (HinH' _ Hin') as (hr & Hin & Eq). rewrite <- Eq. apply C. exact Hin.
  Qed.

  (* ---- start_send ------------------------------------------------------------------------------- *)
  Lemma ocall_send_proj : forall lim o m r,
    let o' := o_call lim o (CSend m r) in
    o_now o' = o_now o /\ o_dropped o' = o_dropped o /\ o_eof o' = o_eof o
    /\ c_err (o_v o') = c_err (o_v o) /\ v_bad (o_v o') = v_bad (o_v o) /\ h_stop (o_v o') = h_stop (o_v o)
    /\ match resp_body m with
       | BThrottle => o_incs o' = close_at (last_open (resp_id m) (o_incs o)) WClosed (o_incs o)
                      /\ o_pend o' = None
       | _ => o_incs o' = close_at (last_open (resp_id m) (o_incs o)) WAnswered (o_incs o)
              /\ o_pend o' = o_pend o
       end.
  Proof.
    intros lim o m r. cbv zeta. unfold o_call. fold (pre_err o).
    destruct (pre_err_proj o) as (A1 & A2 & A3 & A4 & A5 & A6 & A7 & A8 & A9 & A10 & A11 & A12 & A13 & A14 & A15 & A16).
    destruct (resp_body m) eqn:EB.
    1,2,4: (destruct (last_open (resp_id m) (o_incs (pre_err o))) as [k|] eqn:EL;
            oproj; rewrite A1 in EL; rewrite EL; unfold close_at;
            rewrite ?A1, ?A2, ?A3, ?A4, ?A5, ?A13, ?A14, ?A16; repeat split; auto).
    destruct (accept_id_proj (resp_id m) (chk12b (pre_err o)
                (match o_pend (pre_err o) with
                 | Some (id, _, _, _) => match lim with Some _ => N.eqb id (resp_id m) | None => false end
                 | None => false end)))
      as (B1 & B2 & B3 & B4 & B5 & B6 & B7 & B8 & B9 & B10 & B11 & B12 & B13).
    oproj. rewrite ?orb_false_r, ?andb_true_r.
    match goal with |- context [accept_id ?i ?x] =>
      destruct (accept_id_proj i x) as (D1 & D2 & D3 & D4 & D5 & D6 & D7 & D8 & D9 & D10 & D11 & D12 & D13) end.
    oproj. rewrite D1, D2, D3, D4, D11, D12, D13. oproj. rewrite A1, A2, A3, A4, A13, A14, A16.
    repeat split; auto.
  Qed.

  Lemma base_start_send_shape : forall m (s : st) e s',
    base_start_send tp m s = (e, s') ->
    (find_entry (resp_id m) s = None /\ e = None /\ s' = s)
    \/ (exists en r, find_entry (resp_id m) s = Some en
        /\ (e = match r with SOk => None | SErr => Some AWrite end)
        /\ s_inflight s' = drop_entry (resp_id m) (s_inflight s)
        /\ s_timers s' = drop_timer (resp_id m) (s_timers s)
        /\ s_handlers s' = s_handlers s /\ s_next_h s' = s_next_h s /\ s_aborted s' = s_aborted s
        /\ s_cancels s' = s_cancels s /\ s_now s' = s_now s /\ s_dropped s' = s_dropped s
        /\ s_fused s' = s_fused s /\ s_respq s' = s_respq s /\ s_permits s' = s_permits s
        /\ s_waiters s' = s_waiters s /\ s_log s' = CSend m r :: s_log s).
  Proof.
    intros m s e s' H. unfold base_start_send in H.
    destruct (remove_request_shape (resp_id m) s) as [(Hf & Heq & Hn)|(Hf & (en & Hen) & B1 & B2 & B3 & B4 & B5 & B6 & B7 & B8 & B9 & B10 & B11 & B12 & B13 & B14)];
      cbv zeta in *; destruct (remove_request (resp_id m) s) as [was s1]; cbn [fst snd] in *; subst was.
    - injection H as <- <-. left. auto.
    - destruct (do_send tp m s1) as [r s2] eqn:ES. injection H as <- <-.
      destruct (do_send_core _ _ _ _ ES) as ((C1 & C2 & C3 & C4 & C5 & C6 & C7 & C8) & F & Q & P & W & L).
      right. exists en, r. repeat split; try congruence.
  Qed.

  (* the throttle reply for the request just accepted *)
  Lemma step_throttle : forall lim o (s : st) q e s',
    InvU o s -> PendQ o s q -> c_err (o_v o) = false ->
    In {| e_id := q_id q; e_h := q_h q; e_dl := q_dl q |} (s_inflight s) ->
    base_start_send tp (mkresp (q_id q) BThrottle) s = (e, s') ->
    exists r, s_log s' = CSend (mkresp (q_id q) BThrottle) r :: s_log s
      /\ (e = match r with SOk => None | SErr => Some AWrite end)
      /\ let o' := o_call lim o (CSend (mkresp (q_id q) BThrottle) r) in
         InvU o' s' /\ pend_id o' = None /\ c_err (o_v o') = false
         /\ s_inflight s' = drop_entry (q_id q) (s_inflight s).
  Proof.
    intros lim o s q e s' HI HP Hce Hin H.
    destruct (base_start_send_shape _ _ _ _ H) as [(Hn & _ & _)|(en & r & Hen & He & B1 & B2 & B3 & B4 & B5 & B6 & B7 & B8 & B9 & B10 & B11 & B12 & L)].
    { exfalso. cbn in Hn. apply (find_entry_none _ _ Hn _ Hin). reflexivity. }
    exists r. split; [exact L|]. split; [exact He|]. cbv zeta.
    destruct (ocall_send_proj lim o (mkresp (q_id q) BThrottle) r) as (P1 & P2 & P3 & P4 & P5 & P6 & I & Pn).
    cbv zeta in *. cbn [resp_body resp_id] in *.
    destruct HP as (Q1 & Q2 & Q3 & Q4 & Q5 & Q6).
    split; [|split; [unfold pend_id; rewrite Pn; reflexivity|split; [congruence|exact B1]]].
    apply (InvU_untrack o _ s s' (q_id q) WClosed HI I eq_refl P1 P2).
    - intros Eo. rewrite P3. exact Eo.
    - intros e0 He0 Hne Hno _. exfalso. pose proof (Q2 e0 He0 Hno) as ->. cbn in Hne. congruence.
    - intros _. exact Hce.
    - exact B1.
    - exact B2.
    - left. exact B5.
    - intros id' _ Hid. rewrite B6. exact Hid.
    - exact B3.
    - exact B4.
    - exact B7.
    - exact B8.
    - exact B9.
  Qed.

  (* ---- a response leaves the queue: its permit returns, then start_send --------------------- *)
  Lemma upd_nth_id : forall k (l : list oinc), upd_nth k (fun i => i) l = l.
  Proof. intros k l; revert k; induction l; destruct k; cbn; auto. f_equal; auto. Qed.

  Lemma add_permit_shape : forall (s : st),
    let s' := add_permit s in
    map h_h (s_handlers s') = map h_h (s_handlers s)
    /\ (forall j hr', nth_error (s_handlers s') j = Some hr' ->
          exists hr, nth_error (s_handlers s) j = Some hr /\ h_h hr' = h_h hr /\ h_id hr' = h_id hr
                     /\ (h_st hr' = h_st hr \/ exists b, h_st hr = HWait b /\ h_st hr' = HPermit b))
    /\ s_next_h s' = s_next_h s /\ s_inflight s' = s_inflight s /\ s_timers s' = s_timers s
    /\ s_aborted s' = s_aborted s /\ s_cancels s' = s_cancels s /\ s_now s' = s_now s
    /\ s_dropped s' = s_dropped s /\ s_fused s' = s_fused s /\ s_respq s' = s_respq s
    /\ s_log s' = s_log s /\ s_t s' = s_t s.
  Proof.
    intros s. cbv zeta. unfold add_permit.
    destruct (s_waiters s) as [|k r]; sproj.
    { repeat split; auto. intros j hr' Hj. exists hr'. auto. }
    destruct (nth_error (s_handlers s) k) as [[h i stt]|] eqn:EK; sproj.
    2: { repeat split; auto. intros j hr' Hj. exists hr'. auto. }
    destruct stt; sproj; try (repeat split; auto; intros j hr' Hj; exists hr'; auto).
    rewrite set_hst_map_h. repeat split; auto.
    intros j hr' Hj. destruct (Nat.eq_dec k j) as [->|Hne].
    - rewrite (set_hst_same _ _ _ _ EK) in Hj. inversion Hj; subst hr'. cbn.
      eexists. split; [exact EK|]. cbn. repeat split; auto. right. eauto.
    - rewrite (set_hst_other _ _ _ _ Hne) in Hj. exists hr'. auto.
  Qed.

  Lemma InvU_add_permit : forall o (s : st) q,
    InvU o s -> InvU o (add_permit (set_respq s q)).
  Proof.
    intros o s q HI.
    destruct (add_permit_shape (set_respq s q)) as (A1 & A2 & A3 & A4 & A5 & A6 & A7 & A8 & A9 & A10 & _).
    cbv zeta in *. sproj.
    apply (InvU_hupd o o s _ 0 (fun i => i) HI A1); auto.
    - symmetry. apply upd_nth_id.
    - intros j hr' oi' Hj Hoi'. destruct (A2 j hr' Hj) as (hr & Hhr & E1 & E2 & E3).
      destruct (u_hand _ _ HI j hr oi' Hhr Hoi') as (B1 & B2 & B3 & _).
      rewrite E2. split; [exact B1|].
      destruct E3 as [E3|(b & E3 & E4)]; [rewrite E3; auto|].
      rewrite E3 in B2, B3. rewrite E4. cbn in *. destruct (oi_ph oi'); auto.
    - intros id. rewrite A7. auto.
  Qed.

  (* pump_write pops one response and hands it to the channel *)
  Lemma step_send : forall lim o (s : st) m q e s',
    InvU o s -> c_err (o_v o) = false ->
    resp_body m <> BThrottle ->
    base_start_send tp m (add_permit (set_respq s q)) = (e, s') ->
    (e = None /\ s_log s' = s_log s /\ InvU o s'
     /\ (forall x, In x (s_inflight s') -> In x (s_inflight s)) /\ s_inflight s' = s_inflight s)
    \/ (exists r, s_log s' = CSend m r :: s_log s
        /\ (e = match r with SOk => None | SErr => Some AWrite end)
        /\ let o' := o_call lim o (CSend m r) in
           InvU o' s' /\ o_pend o' = o_pend o /\ c_err (o_v o') = false
           /\ s_inflight s' = drop_entry (resp_id m) (s_inflight s)).
  Proof.
    intros lim o s m q e s' HI Hce Hnt H.
    pose proof (InvU_add_permit o s q HI) as HI1.
    destruct (add_permit_shape (set_respq s q)) as (A1 & A2 & A3 & A4 & A5 & A6 & A7 & A8 & A9 & A10 & A11 & A12 & A13).
    cbv zeta in *. sproj.
    destruct (base_start_send_shape _ _ _ _ H) as [(Hn & He & Hs)|(en & r & Hen & He & B1 & B2 & B3 & B4 & B5 & B6 & B7 & B8 & B9 & B10 & B11 & B12 & L)].
    - left. subst s'. split; [exact He|split; [exact A12|split; [exact HI1|split; [intros x Hx; rewrite A4 in Hx; exact Hx|exact A4]]]].
    - right. exists r. split; [rewrite L, A12; reflexivity|]. split; [exact He|]. cbv zeta.
      destruct (ocall_send_proj lim o m r) as (P1 & P2 & P3 & P4 & P5 & P6 & P7). cbv zeta in *.
      assert (P7' : o_incs (o_call lim o (CSend m r)) = close_at (last_open (resp_id m) (o_incs o)) WAnswered (o_incs o)
                    /\ o_pend (o_call lim o (CSend m r)) = o_pend o).
      { destruct (resp_body m); try exact P7. congruence. }
      destruct P7' as (I & Pn).
      split; [|split; [exact Pn|split; [congruence|rewrite B1, A4; reflexivity]]].
      apply (InvU_untrack o _ _ s' (resp_id m) WAnswered HI1 I eq_refl P1 P2).
      + intros Eo. rewrite P3. exact Eo.
      + intros e0 He0 Hne Hno [Hp|Hc]; [left|right; congruence].
        unfold pend_id in *. rewrite Pn. exact Hp.
      + intros _. exact Hce.
      + exact B1.
      + exact B2.
      + left. exact B5.
      + intros id' _ Hid. rewrite B6. exact Hid.
      + exact B3.
      + exact B4.
      + exact B7.
      + exact B8.
      + exact B9.
  Qed.
End Micro.
