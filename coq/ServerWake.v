(* Wake-driven runs of the server (C02, server half).  Tasks: the Requests stream and every live
   execute() future (the application starts one for every request the stream yields, as tarpc's
   `execute` does).  `settle` polls the stream and then every live execute() future, round after
   round, until a round changes nothing: the executor-independent notion of "nothing is left that
   could act now".  The real harness (harness/src/srvw.rs) polls ONLY tasks whose real waker
   fired; wake sources that belong to tarpc (response queue handler -> Requests, response permits
   Requests -> blocked handlers, the server-side cancel queue, DelayQueue timers,
   AbortHandle::abort) are never forced.  If the code loses a wakeup the two disagree: the real
   system stalls where the model makes progress.  Scripted handlers have a wake source of their
   own: the script op "handler k may proceed" (WRelease) wakes its execute() task.
   The model is the frozen Server.v; this file only adds the scheduler.  No proofs in this file. *)
From Coq Require Import List Bool Arith NArith.
Import ListNotations.
From TarpcV Require Import Base Transport TimerWheel Server ServerMon.

Section Wake.
  Context {T C : Type}.
  Variable tp : transport T response cmsg.
  Variable ctl : T -> C -> T.
  Variable tfuel : T -> nat.
  (* a digest of the transport's own state (for the scripted transport: buffered items, inbox
     length, armed faults): a round that only changed the transport (a flush that made room) is
     not quiet *)
  Variable tdig : T -> list nat.
  Notation st := (@sstate T).

  (* the server state plus what the scheduler needs: the result each scripted handler has been
     released with (SRun = not released: the handler stays pending), and how the stream ended *)
  Record wstate := mkw {
    w_s : st;
    w_rel : list (nat * hstep);
    w_end : option (option activity) }.        (* Some None = end of stream, Some (Some a) = error *)

  (* what a settle observes, in order of occurrence: per stream poll the writes and the items
     read (OCalls with every other call filtered out; omitted when empty), a yield / end / error;
     per execute() poll the handler's completion, its drop, and the end of execute() *)
  Record sobs := mkso { so_ev : list obs; so_fuel : bool }.

  Definition keep_call (c : call) : bool :=
    match c with CSend _ _ => true | CNext (RItem _) => true | _ => false end.
  Definition keep_hev (e : obs) : bool :=
    match e with OHDone _ _ | OHDropped _ | OExecReady _ => true | _ => false end.

  Definition h_live (h : hstate) : bool :=
    match h with HYielded | HRunning | HWait _ | HPermit _ => true | _ => false end.

  Definition rel_of (k : nat) (rel : list (nat * hstep)) : hstep :=
    match find (fun p => Nat.eqb (fst p) k) rel with Some p => snd p | None => SRun end.

  (* poll every live execute() future once, in index order *)
  Fixpoint poll_handlers (rel : list (nat * hstep)) (s : st) (i n : nat) (acc : list obs)
    : st * list obs :=
    match n with
    | O => (s, acc)
    | S n' =>
      match nth_error (s_handlers s) i with
      | Some hr =>
        if h_live (h_st hr) then
          let '(s1, l) := execute_poll i (rel_of i rel) s in
          poll_handlers rel s1 (S i) n' (acc ++ filter keep_hev l)
        else poll_handlers rel s (S i) n' acc
      | None => (s, acc)
      end
    end.

  (* a digest of everything a poll can change besides the observations *)
  Definition hcode (h : hstate) : nat :=
    match h with HYielded => 0 | HRunning => 1 | HWait _ => 2 | HPermit _ => 3 | HDone => 4 | HGone => 5 end.
  Definition digest (s : st) : list nat * (bool * bool) :=
    ([length (s_inflight s); length (s_timers s); length (s_cancels s); length (s_aborted s);
      length (s_respq s); s_permits s; length (s_waiters s)] ++ map (fun h => hcode (h_st h)) (s_handlers s)
     ++ 99 :: tdig (s_t s),
     (s_fused s, s_dropped s)).
  Definition digest_eqb (a b : list nat * (bool * bool)) : bool :=
    list_eqb Nat.eqb (fst a) (fst b) && Bool.eqb (fst (snd a)) (fst (snd b))
    && Bool.eqb (snd (snd a)) (snd (snd b)).

  Definition is_some {A} (x : option A) : bool := match x with Some _ => true | None => false end.

  Fixpoint settle (c : cfg) (rounds : nat) (w : wstate) (o : sobs) : wstate * sobs :=
    match rounds with
    | O => (w, mkso (so_ev o) true)
    | S r =>
      let s := w_s w in
      let d0 := digest s in
      (* the stream, unless it has ended or the channel was dropped *)
      let '(s1, e1, ev1, fuel1) :=
        if s_dropped s || is_some (w_end w) then (s, w_end w, [], false)
        else
          let '(s', l) := poll_requests tp tfuel c s in
          match l with
          | [OCalls log; res] =>
            let calls := filter keep_call log in
            let pre := match calls with [] => [] | _ => [OCalls calls] end in
            match res with
            | OYield _ _ _ _ _ => (s', None, pre ++ [res], false)
            | OStreamEnd => (s', Some None, pre ++ [res], false)
            | OStreamErr a => (s', Some (Some a), pre ++ [res], false)
            | OPending => (s', None, pre, false)
            | _ => (s', None, pre, true)
            end
          | _ => (s', None, [], true)
          end in
      let '(s2, hev) := poll_handlers (w_rel w) s1 0 (length (s_handlers s1)) [] in
      let w2 := mkw s2 (w_rel w) e1 in
      let o2 := mkso (so_ev o ++ ev1 ++ hev) (so_fuel o || fuel1) in
      if fuel1 then (w2, o2)
      else
        let quiet := digest_eqb d0 (digest s2)
                     && match ev1, hev with [], [] => true | _, _ => false end
                     && Bool.eqb (is_some e1) (is_some (w_end w)) in
        if quiet then (w2, o2) else settle c r w2 o2
    end.

  (* enough rounds: every non-quiet round yields or reads a message, writes or buffers a response,
     processes a cancel / expiry, or moves a handler to another phase *)
  Definition rounds_of (s : st) : nat :=
    16 + 6 * (length (s_handlers s) + length (s_inflight s) + length (s_respq s)
              + length (s_cancels s) + length (s_timers s) + length (s_waiters s) + tfuel (s_t s)).

  Inductive wop :=
  | WOp (o : op C)                       (* an environment / application op of Server.v (no polls) *)
  | WRelease (k : nat) (h : hstep)       (* handler k may proceed: complete with this result *)
  | WSettle.

  Inductive wobs :=
  | WO (l : list obs)
  | WS (ev : list obs) (inflight timers : nat)
  | WFuel.

  Definition wstep (c : cfg) (w : wstate) (o : wop) : wstate * wobs :=
    match o with
    | WOp o => let '(s1, l) := step tp ctl tfuel c (w_s w) o in (mkw s1 (w_rel w) (w_end w), WO l)
    | WRelease k h =>
      (mkw (w_s w) ((k, h) :: filter (fun p => negb (Nat.eqb (fst p) k)) (w_rel w)) (w_end w), WO [])
    | WSettle =>
      let '(w1, r) := settle c (rounds_of (w_s w)) w (mkso [] false) in
      (w1, if so_fuel r then WFuel
           else if s_dropped (w_s w1) then WS (so_ev r) 0 0
           else WS (so_ev r) (length (s_inflight (w_s w1))) (length (s_timers (w_s w1))))
    end.

  Fixpoint wrun_from (c : cfg) (w : wstate) (ops : list wop) : list wobs :=
    match ops with
    | [] => []
    | o :: r => let '(w1, x) := wstep c w o in x :: wrun_from c w1 r
    end.
  Definition wrun (c : cfg) (t0 : T) (ops : list wop) : list wobs :=
    wrun_from c (mkw (init c t0) [] None) ops.
End Wake.

Arguments WOp {C}. Arguments WRelease {C}. Arguments WSettle {C}.

(* ------------------------------------------------------------------ scripted instance *)
Definition swop := wop (C := trop cmsg).
Definition swrun (c : cfg) (t0 : stransport cmsg) (ops : list swop) : list wobs :=
  wrun (@scripted response cmsg) (@s_control cmsg) (fun t => length (st_inbox t))
       (fun t => [st_buffered t; length (st_inbox t); Nat.b2n (st_fail_ready t); Nat.b2n (st_fail_send t);
                  Nat.b2n (st_fail_flush t); Nat.b2n (st_fail_next t); Nat.b2n (st_eof t)]) c t0 ops.

Definition wobs_eqb (a b : wobs) : bool :=
  match a, b with
  | WO x, WO y => list_eqb obs_eqb x y
  | WS e1 a1 b1, WS e2 a2 b2 => list_eqb obs_eqb e1 e2 && Nat.eqb a1 a2 && Nat.eqb b1 b2
  | WFuel, WFuel => true
  | _, _ => false
  end.

(* ------------------------------------------------------------------ C02 monitor, server half *)
(* Over a wake-driven trace, as an outside observer.  After every settle:
   (0) the settle itself terminated (no WFuel), nothing panicked or ran out of fuel;
   (a) no execute() future that had to be aborted is still running: none after the channel was
       dropped; none whose request's Cancel was read; none whose deadline timer is due while the
       stream is alive (unless the limiter is blocked on the sink: K2);
   (b) no finished handler is stuck waiting for a place in the response queue unless the queue can
       be full (at least `buffer` responses were buffered and not yet seen on the wire), and never
       after the channel was dropped;
   (c) while the stream is alive on a transport nobody tampered with, every message the peer
       delivered has been read - unless the limiter may be blocked on a sink that is not writable (K2);
   (d) while the stream is alive and the script has left the sink writable (ready, flushing, no
       fault armed, unlimited or coupled capacity), no response of a still-open request is left
       buffered and no finished handler is left waiting;
   (e) the two gauges agree, and while the stream is alive (and the limiter cannot be blocked on the
       sink) the channel tracks no request that is surely over: at most as many are in flight as
       there are incarnations that were neither dropped by the application, cancelled, answered on
       the wire nor past their deadline timer. *)
Record minc := mkmi {
  mi_id : N; mi_when : N;
  mi_done : bool;        (* the handler completed *)
  mi_ended : bool;       (* execute() returned *)
  mi_gone : bool;        (* the application dropped the execute() future *)
  mi_written : bool;     (* a response bearing its id was handed to the transport after it completed *)
  mi_cancelled : bool }. (* a Cancel bearing its id was read while it was neither written nor gone *)

Record wmon := mkwm {
  wm_incs : list minc;
  wm_now : N;
  wm_alive : bool;       (* the stream has neither ended nor failed *)
  wm_dropped : bool;     (* the channel was dropped *)
  wm_ready : bool; wm_flush : bool; wm_tainted : bool; wm_eof : bool;
  wm_delivered : nat; wm_read : nat }.

Definition wm0 : wmon := mkwm [] 0%N true false true true false false 0 0.

Definition map_incs (f : minc -> minc) (m : wmon) : wmon :=
  mkwm (map f (wm_incs m)) (wm_now m) (wm_alive m) (wm_dropped m) (wm_ready m) (wm_flush m)
       (wm_tainted m) (wm_eof m) (wm_delivered m) (wm_read m).
Fixpoint upd_k {A} (k : nat) (f : A -> A) (l : list A) : list A :=
  match l, k with
  | [], _ => []
  | x :: r, O => f x :: r
  | x :: r, S k' => x :: upd_k k' f r
  end.
Definition upd_inc (k : nat) (f : minc -> minc) (m : wmon) : wmon :=
  mkwm (upd_k k f (wm_incs m)) (wm_now m) (wm_alive m) (wm_dropped m) (wm_ready m) (wm_flush m)
       (wm_tainted m) (wm_eof m) (wm_delivered m) (wm_read m).

(* the last incarnation with this id that completed and whose response has not been seen yet *)
Fixpoint last_unwritten (id : N) (k : nat) (l : list minc) (acc : option nat) : option nat :=
  match l with
  | [] => acc
  | x :: r => last_unwritten id (S k) r
                (if N.eqb (mi_id x) id && mi_done x && negb (mi_written x) then Some k else acc)
  end.

Definition wm_call (m : wmon) (c : call) : wmon :=
  match c with
  | CNext (RItem (MCancel id _)) =>
    let m1 := map_incs (fun i => if N.eqb (mi_id i) id && negb (mi_written i) && negb (mi_gone i)
                                 then mkmi (mi_id i) (mi_when i) (mi_done i) (mi_ended i) (mi_gone i)
                                           (mi_written i) true
                                 else i) m in
    mkwm (wm_incs m1) (wm_now m1) (wm_alive m1) (wm_dropped m1) (wm_ready m1) (wm_flush m1)
         (wm_tainted m1) (wm_eof m1) (wm_delivered m1) (S (wm_read m1))
  | CNext (RItem _) =>
    mkwm (wm_incs m) (wm_now m) (wm_alive m) (wm_dropped m) (wm_ready m) (wm_flush m)
         (wm_tainted m) (wm_eof m) (wm_delivered m) (S (wm_read m))
  | CSend r _ =>
    match resp_body r with
    | BThrottle => m
    | _ => match last_unwritten (resp_id r) 0 (wm_incs m) None with
           | Some k => upd_inc k (fun i => mkmi (mi_id i) (mi_when i) (mi_done i) (mi_ended i) (mi_gone i)
                                                true (mi_cancelled i)) m
           | None => m
           end
    end
  | _ => m
  end.

(* hypothesis reuse_only_after_completion (B1) as this observer sees it: a request read bears an
   id that is new, or whose last incarnation was answered on the wire, or whose last incarnation is
   surely still tracked (not cancelled, not dropped by the application, timer not due): then it is
   a duplicate and ignored *)
Fixpoint last_with (id : N) (l : list minc) (acc : option minc) : option minc :=
  match l with
  | [] => acc
  | x :: r => last_with id r (if N.eqb (mi_id x) id then Some x else acc)
  end.
Definition b1_call (m : wmon) (c : call) : bool :=
  match c with
  | CNext (RItem (MReq id _ _ _)) =>
    match last_with id (wm_incs m) None with
    | None => true
    | Some i => mi_written i
                || (negb (mi_cancelled i) && negb (mi_gone i) && negb (N.leb (mi_when i) (wm_now m)))
    end
  | _ => true
  end.
(* folds the calls of one poll: (monitor state, hypothesis so far) *)
Definition wm_call_h (mh : wmon * bool) (c : call) : wmon * bool :=
  (wm_call (fst mh) c, snd mh && b1_call (fst mh) c).

Definition wm_event (m : wmon) (e : obs) : wmon :=
  match e with
  | OCalls cs => fold_left wm_call cs m
  | OYield _ id dl _ _ =>
    mkwm (wm_incs m ++ [mkmi id (when_of (wm_now m) dl) false false false false false])
         (wm_now m) (wm_alive m) (wm_dropped m) (wm_ready m) (wm_flush m) (wm_tainted m) (wm_eof m)
         (wm_delivered m) (wm_read m)
  | OStreamEnd | OStreamErr _ =>
    mkwm (wm_incs m) (wm_now m) false (wm_dropped m) (wm_ready m) (wm_flush m) (wm_tainted m)
         (wm_eof m) (wm_delivered m) (wm_read m)
  | OHDone k _ => upd_inc k (fun i => mkmi (mi_id i) (mi_when i) true (mi_ended i) (mi_gone i)
                                           (mi_written i) (mi_cancelled i)) m
  | OExecReady k => upd_inc k (fun i => mkmi (mi_id i) (mi_when i) (mi_done i) true (mi_gone i)
                                             (mi_written i) (mi_cancelled i)) m
  | _ => m
  end.

Definition wm_op {C : Type} (m : wmon) (o : op (trop C)) : wmon :=
  match o with
  | OCtl (TDeliver _) =>
    if wm_eof m then m else
    mkwm (wm_incs m) (wm_now m) (wm_alive m) (wm_dropped m) (wm_ready m) (wm_flush m) (wm_tainted m)
         (wm_eof m) (S (wm_delivered m)) (wm_read m)
  | OCtl TEof =>
    mkwm (wm_incs m) (wm_now m) (wm_alive m) (wm_dropped m) (wm_ready m) (wm_flush m) (wm_tainted m)
         true (wm_delivered m) (wm_read m)
  | OCtl (TSetReady b) =>
    mkwm (wm_incs m) (wm_now m) (wm_alive m) (wm_dropped m) b (wm_flush m) (wm_tainted m)
         (wm_eof m) (wm_delivered m) (wm_read m)
  | OCtl (TSetFlush b) =>
    mkwm (wm_incs m) (wm_now m) (wm_alive m) (wm_dropped m) (wm_ready m) b (wm_tainted m)
         (wm_eof m) (wm_delivered m) (wm_read m)
  | OCtl (TFail _) | OCtl (TSetClose _) =>
    mkwm (wm_incs m) (wm_now m) (wm_alive m) (wm_dropped m) (wm_ready m) (wm_flush m) true
         (wm_eof m) (wm_delivered m) (wm_read m)
  | OCtl (TDrain _) => m
  | ODropHandler k | ODropYielded k =>
    (* dropping a future that has already returned is nothing *)
    upd_inc k (fun i => if mi_ended i then i
                        else mkmi (mi_id i) (mi_when i) (mi_done i) true true (mi_written i) (mi_cancelled i)) m
  | ODropChannel =>
    mkwm (wm_incs m) (wm_now m) (wm_alive m) true (wm_ready m) (wm_flush m) (wm_tainted m)
         (wm_eof m) (wm_delivered m) (wm_read m)
  | OAdvance dt =>
    mkwm (wm_incs m) (wm_now m + dt)%N (wm_alive m) (wm_dropped m) (wm_ready m) (wm_flush m)
         (wm_tainted m) (wm_eof m) (wm_delivered m) (wm_read m)
  | _ => m
  end.

Definition wm_check (c : cfg) (cap : nat) (coupled : bool) (m : wmon) (a b : nat) : bool :=
  let alive := wm_alive m && negb (wm_dropped m) in
  let writable := wm_ready m && wm_flush m && negb (wm_tainted m) && (Nat.eqb cap 0 || coupled) in
  let limited := match cfg_limit c with Some _ => true | None => false end in
  let running := fun i => negb (mi_ended i) in
  let waiting := existsb (fun i => mi_done i && negb (mi_ended i)) (wm_incs m) in
  let bufcount := length (filter (fun i => mi_done i && mi_ended i && negb (mi_gone i)
                                            && negb (mi_written i)) (wm_incs m)) in
  (* (a) *)
  negb (existsb (fun i => running i
                          && (wm_dropped m || mi_cancelled i
                              || (alive && (negb limited || writable) && N.leb (mi_when i) (wm_now m))))
                (wm_incs m))
  (* (b) *)
  && (negb waiting || (negb (wm_dropped m) && Nat.leb (cfg_buf c) bufcount))
  (* (c) *)
  && (negb (alive && negb (wm_tainted m) && (negb limited || writable))
      || Nat.eqb (wm_delivered m) (wm_read m))
  (* (d) *)
  && (negb (alive && writable)
      || (negb waiting
          && negb (existsb (fun i => mi_done i && mi_ended i && negb (mi_gone i) && negb (mi_written i)
                                      && negb (mi_cancelled i) && negb (N.leb (mi_when i) (wm_now m)))
                           (wm_incs m))))
  (* (e) *)
  && Nat.eqb a b
  && (negb (alive && (negb limited || writable))
      || Nat.leb a (length (filter (fun i => negb (mi_gone i) && negb (mi_cancelled i) && negb (mi_written i)
                                              && negb (N.leb (mi_when i) (wm_now m))) (wm_incs m)))).

Definition bad_obs (e : obs) : bool := match e with OFuel | OPanic => true | _ => false end.

Definition wm_event_h (mh : wmon * bool) (e : obs) : wmon * bool :=
  match e with
  | OCalls cs => fold_left wm_call_h cs mh
  | _ => (wm_event (fst mh) e, snd mh)
  end.

(* hyp: reuse_only_after_completion held so far; once it fails nothing more is demanded except
   termination and the absence of panics *)
Fixpoint c02s_run (c : cfg) (cap : nat) (coupled : bool) (m : wmon) (hyp : bool) (ops : list swop)
  (tr : list wobs) : bool :=
  match ops, tr with
  | [], [] => true
  | WOp o :: ops', WO l :: tr' =>
    negb (existsb bad_obs l) && c02s_run c cap coupled (wm_op m o) hyp ops' tr'
  | WRelease _ _ :: ops', WO [] :: tr' => c02s_run c cap coupled m hyp ops' tr'
  | WSettle :: ops', WS ev a b :: tr' =>
    let '(m1, hyp1) := fold_left wm_event_h ev (m, hyp) in
    negb (existsb bad_obs ev) && (negb hyp1 || wm_check c cap coupled m1 a b)
    && c02s_run c cap coupled m1 hyp1 ops' tr'
  | _, _ => false          (* WFuel, or a malformed trace *)
  end.

Definition c02s_ok (c : cfg) (t0 : stransport cmsg) (ops : list swop) (tr : list wobs) : bool :=
  c02s_run c (st_cap t0) (st_coupled t0) wm0 true ops tr.

(* the hypothesis alone, for counting how many scripts stay inside it *)
Fixpoint c02s_hyp (m : wmon) (hyp : bool) (ops : list swop) (tr : list wobs) : bool :=
  match ops, tr with
  | WOp o :: ops', WO _ :: tr' => c02s_hyp (wm_op m o) hyp ops' tr'
  | WRelease _ _ :: ops', _ :: tr' => c02s_hyp m hyp ops' tr'
  | WSettle :: ops', WS ev _ _ :: tr' =>
    let '(m1, hyp1) := fold_left wm_event_h ev (m, hyp) in c02s_hyp m1 hyp1 ops' tr'
  | _, _ => hyp
  end.
Definition reuse_only_after_completion_w (ops : list swop) (tr : list wobs) : bool :=
  c02s_hyp wm0 true ops tr.
