(* Timer wheel: the range hypothesis of TimerWheelProofs4 (every inserted deadline below 2^36 ms
   since the queue's start) cannot be replaced by the real insert's own check
   `when - elapsed <= MAX_DURATION`: two executable witnesses on the transliteration. *)
From Coq Require Import List Bool NArith.
Import ListNotations.
From TarpcV Require Import TimerWheel.
Local Open Scope N_scope.

Definition poll1 (clock : N) (q : dqueue) : dqres * dqueue := dq_poll clock q.

(* R2, inside the real insert's contract: elapsed is brought to E0 by a firing timer; timer 3 is
   2^36 - 400 ms ahead of elapsed (<= MAX_DURATION), timer 4 is 2^31 ms ahead.  At the instant
   timer 4 is due the queue answers Pending and sleeps until a deadline 2^36 ms later. *)
Definition E0 : N := 3 * 2 ^ 30 + 500.
Definition r2_state : dqueue :=
  let q := dq_insert 2 (E0 + 5) (dq_insert 1 E0 dq_init) in
  let q := snd (poll1 E0 q) in            (* hands out timer 1 *)
  let q := snd (poll1 E0 q) in            (* Pending: timer 2 is due at E0 + 5 *)
  let q := dq_insert 3 (E0 + 2 ^ 36 - 400) q in
  dq_insert 4 (E0 + 2 ^ 31) q.
Lemma r2_insert_valid : (E0 + 2 ^ 36 - 400) - w_elapsed (dq_wheel r2_state) <=? MAX_DURATION = true.
Proof. vm_compute. reflexivity. Qed.
Lemma r2_incomplete :
  let q := snd (poll1 (E0 + 5) r2_state) in                   (* hands out timer 2 *)
  fst (poll1 (E0 + 2 ^ 31) q) = DQPending                     (* timer 4 is due now *)
  /\ dq_delay (snd (poll1 (E0 + 2 ^ 31) q)) = Some (E0 - 500 + 2 ^ 36).
Proof. vm_compute. split; reflexivity. Qed.

(* R1, beyond the real contract (the real insert would panic): the queue was idle, so elapsed is
   still 0; two timers across the absolute 2^36 boundary; the later one is handed out first,
   15 ms early *)
Lemma r1_early :
  let q := dq_insert 2 (2 ^ 36 + 10) (dq_insert 1 (2 ^ 36 - 5) dq_init) in
  fst (poll1 (2 ^ 36 - 5) q) = DQSome 2.
Proof. vm_compute. reflexivity. Qed.
