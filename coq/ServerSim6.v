(* Simulation, part 6: the invariant over whole runs (one op at a time). *)
From Coq Require Import List Bool Arith NArith Lia.
Import ListNotations.
From TarpcV Require Import Base Transport TimerWheel Server ServerMon ServerFuel ServerContract
     ServerSim ServerSim2 ServerSim3 ServerSim4 ServerSim5.

Lemma ocall_basic : forall lim o c,
  o_now (o_call lim o c) = o_now o /\ o_dropped (o_call lim o c) = o_dropped o
  /\ h_stop (o_v (o_call lim o c)) = h_stop (o_v o) /\ v_bad (o_v (o_call lim o c)) = v_bad (o_v o)
  /\ c_err (o_v (o_call lim o c)) = c_err (o_v o).
Proof.
  intros lim o c. destruct c as [r|m r|r|r|r].
  - destruct (ocall_ready_tab lim o r) as ((T1 & T2 & T3 & T4 & T5) & _ & Vb).
    repeat split; auto.
    unfold o_call. fold (pre_err o). destruct (pre_err_proj o) as (_ & _ & _ & _ & _ & _ & _ & _ & _ & _ & _ & _ & _ & _ & _ & A16).
    oproj. exact A16.
  - destruct (ocall_send_proj lim o m r) as (P1 & P2 & P3 & P4 & P5 & P6 & _). cbv zeta in *. repeat split; auto.
  - destruct (ocall_flush_tab lim o r) as ((T1 & T2 & T3 & T4 & T5) & _ & Vb).
    repeat split; auto.
    unfold o_call. fold (pre_err o). destruct (pre_err_proj o) as (_ & _ & _ & _ & _ & _ & _ & _ & _ & _ & _ & _ & _ & _ & _ & A16).
    oproj. exact A16.
  - unfold o_call. destruct (o_errcall o); oproj; rewrite ?andb_false_r, ?andb_true_r; cbn; repeat split; reflexivity.
  - destruct (ocall_next_proj lim o r) as (P1 & P2 & P3 & P4 & P5 & _). cbv zeta in *. repeat split; auto.
Qed.

Lemma ocs_proj : forall lim new o,
  o_now (fold_left (o_call lim) new o) = o_now o
  /\ o_dropped (fold_left (o_call lim) new o) = o_dropped o
  /\ h_stop (o_v (fold_left (o_call lim) new o)) = h_stop (o_v o)
  /\ v_bad (o_v (fold_left (o_call lim) new o)) = v_bad (o_v o)
  /\ c_err (o_v (fold_left (o_call lim) new o)) = c_err (o_v o).
Proof.
  intros lim new; induction new as [|c new IH]; intros o; cbn [fold_left]; [repeat split; reflexivity|].
  destruct (IH (o_call lim o c)) as (A & B & D & E & F). rewrite A, B, D, E, F. apply ocall_basic.
Qed.

Section Hrel.
  Context {T : Type}.
  Variable tp : transport T response cmsg.
  Notation st := (@sstate T).

  (* handler states only move from "queued for a permit" to "has a permit" during a poll *)
  Definition hrel (s s' : st) : Prop :=
    forall j hr', nth_error (s_handlers s') j = Some hr' ->
      exists hr, nth_error (s_handlers s) j = Some hr
        /\ (h_st hr' = h_st hr \/ exists b, h_st hr = HWait b /\ h_st hr' = HPermit b).

  Lemma hrel_eq : forall (s s' : st), s_handlers s' = s_handlers s -> hrel s s'.
  Proof. intros s s' H j hr' Hj. rewrite H in Hj. exists hr'. auto. Qed.
  Lemma hrel_trans : forall a b c, hrel a b -> hrel b c -> hrel a c.
  Proof.
    intros a b c H1 H2 j hr' Hj. destruct (H2 j hr' Hj) as (hr1 & Hj1 & E1).
    destruct (H1 j hr1 Hj1) as (hr0 & Hj0 & E0). exists hr0. split; [exact Hj0|].
    destruct E1 as [E1|(b1 & E1 & E1')]; destruct E0 as [E0|(b0 & E0 & E0')].
    - left. congruence.
    - right. exists b0. split; congruence.
    - right. exists b1. split; congruence.
    - exfalso. congruence.
  Qed.

  Lemma handlers_base : forall f (s : st) r s', base_poll_next tp f s = (r, s') -> s_handlers s' = s_handlers s.
  Proof.
    induction f as [|f IH]; intros s r s' H; cbn [base_poll_next] in H; [injection H as _ <-; reflexivity|].
    set (cs := match s_cancels s with
               | id :: r0 => (RSReady, snd (remove_request id (set_cancels s r0)))
               | [] => (RSClosed, s) end) in H.
    assert (Hc : s_handlers (snd cs) = s_handlers s).
    { subst cs. destruct (s_cancels s); [reflexivity|]. cbn [snd].
      destruct (remove_request_shape n (set_cancels s l)) as [(_ & -> & _)|(_ & _ & _ & _ & B3 & _)];
        [reflexivity|exact B3]. }
    destruct cs as [cst s1]. cbn [snd] in Hc.
    destruct (poll_expired s1) as [est s2] eqn:EE.
    destruct (poll_expired_shape _ _ _ EE) as (A1 & _).
    assert (Hfin : forall rst sx r s', s_handlers sx = s_handlers s ->
               match combine (combine cst est) rst with
               | RSReady => base_poll_next tp f sx
               | RSClosed => (PEnd, sx)
               | RSPending => (PPending, sx)
               end = (r, s') -> s_handlers s' = s_handlers s).
    { intros rst sx r0 s0 Hx HH. destruct (combine (combine cst est) rst).
      - rewrite (IH _ _ _ HH). exact Hx.
      - injection HH as _ <-. exact Hx.
      - injection HH as _ <-. exact Hx. }
    destruct (s_fused s2).
    - apply (Hfin RSClosed s2 r s'); [congruence|exact H].
    - destruct (do_next tp s2) as [rr s3] eqn:EN. destruct (do_next_core tp _ _ _ EN) as ((C1 & _) & _).
      destruct rr as [m| | |].
      + destruct m as [id dl tr body|id tr].
        * destruct (start_request id dl s3) as [[h s4]|] eqn:ES.
          -- injection H as _ <-. destruct (start_request_shape _ _ _ _ _ ES) as (_ & _ & _ & _ & _ & Hh & _). congruence.
          -- rewrite (IH _ _ _ H). congruence.
        * apply (Hfin RSReady (cancel_request id s3) r s'); [|exact H].
          destruct (cancel_request_shape id s3) as [(-> & _)|(e & _ & _ & _ & _ & B4 & _)]; congruence.
      + injection H as _ <-. congruence.
      + apply (Hfin RSClosed (set_fused s3 true) r s'); [sproj; congruence|exact H].
      + apply (Hfin RSPending s3 r s'); [congruence|exact H].
  Qed.

  Lemma handlers_start_send : forall m (s : st) e s', base_start_send tp m s = (e, s') -> s_handlers s' = s_handlers s.
  Proof.
    intros m s e s' H.
    destruct (base_start_send_shape tp _ _ _ _ H) as [(_ & _ & ->)|(_ & _ & _ & _ & _ & _ & B3 & _)]; auto.
  Qed.

  Lemma handlers_maxreq : forall f limit (s : st) r s', maxreq_poll_next tp f limit s = (r, s') -> s_handlers s' = s_handlers s.
  Proof.
    induction f as [|f IH]; intros limit s r s' H; cbn [maxreq_poll_next] in H; [injection H as _ <-; reflexivity|].
    destruct (limit <=? length (s_inflight s)).
    - destruct (do_ready tp s) as [x s1] eqn:ER. destruct (do_ready_core tp _ _ _ ER) as ((C1 & _) & _).
      destruct x; try (injection H as _ <-; exact C1).
      destruct (base_poll_next tp (S f) s1) as [y s2] eqn:EB. pose proof (handlers_base _ _ _ _ EB) as H2.
      destruct y; try (injection H as _ <-; congruence).
      destruct (base_start_send tp (mkresp (q_id x) BThrottle) s2) as [e s3] eqn:ESS.
      pose proof (handlers_start_send _ _ _ _ ESS) as H3.
      destruct e; [injection H as _ <-; congruence|]. rewrite (IH _ _ _ _ H). congruence.
    - exact (handlers_base _ _ _ _ H).
  Qed.

  Lemma dropped_base : forall f (s : st) r s', base_poll_next tp f s = (r, s') -> s_dropped s' = s_dropped s.
  Proof.
    induction f as [|f IH]; intros s r s' H; cbn [base_poll_next] in H; [injection H as _ <-; reflexivity|].
    set (cs := match s_cancels s with
               | id :: r0 => (RSReady, snd (remove_request id (set_cancels s r0)))
               | [] => (RSClosed, s) end) in H.
    assert (Hc : s_dropped (snd cs) = s_dropped s).
    { subst cs. destruct (s_cancels s); [reflexivity|]. cbn [snd].
      destruct (remove_request_shape n (set_cancels s l)) as [(_ & -> & _)|(_ & _ & _ & _ & _ & _ & _ & _ & _ & B8 & _)];
        [reflexivity|exact B8]. }
    destruct cs as [cst s1]. cbn [snd] in Hc.
    destruct (poll_expired s1) as [est s2] eqn:EE.
    destruct (poll_expired_shape _ _ _ EE) as (_ & _ & _ & _ & A1 & _).
    assert (Hfin : forall rst sx r s', s_dropped sx = s_dropped s ->
               match combine (combine cst est) rst with
               | RSReady => base_poll_next tp f sx
               | RSClosed => (PEnd, sx)
               | RSPending => (PPending, sx)
               end = (r, s') -> s_dropped s' = s_dropped s).
    { intros rst sx r0 s0 Hx HH. destruct (combine (combine cst est) rst).
      - rewrite (IH _ _ _ HH). exact Hx.
      - injection HH as _ <-. exact Hx.
      - injection HH as _ <-. exact Hx. }
    destruct (s_fused s2).
    - apply (Hfin RSClosed s2 r s'); [congruence|exact H].
    - destruct (do_next tp s2) as [rr s3] eqn:EN. destruct (do_next_core tp _ _ _ EN) as ((_ & _ & _ & _ & _ & _ & _ & C1) & _).
      destruct rr as [m| | |].
      + destruct m as [id dl tr body|id tr].
        * destruct (start_request id dl s3) as [[h s4]|] eqn:ES.
          -- injection H as _ <-. destruct (start_request_shape _ _ _ _ _ ES) as (_ & _ & _ & _ & _ & _ & _ & _ & _ & Hh & _). congruence.
          -- rewrite (IH _ _ _ H). congruence.
        * apply (Hfin RSReady (cancel_request id s3) r s'); [|exact H].
          destruct (cancel_request_shape id s3) as [(-> & _)|(e & _ & _ & _ & _ & _ & _ & _ & _ & B8 & _)]; congruence.
      + injection H as _ <-. congruence.
      + apply (Hfin RSClosed (set_fused s3 true) r s'); [sproj; congruence|exact H].
      + apply (Hfin RSPending s3 r s'); [congruence|exact H].
  Qed.

  Lemma dropped_start_send : forall m (s : st) e s', base_start_send tp m s = (e, s') -> s_dropped s' = s_dropped s.
  Proof.
    intros m s e s' H.
    destruct (base_start_send_shape tp _ _ _ _ H) as [(_ & _ & ->)|(_ & _ & _ & _ & _ & _ & _ & _ & _ & _ & _ & B8 & _)]; auto.
  Qed.

  Lemma dropped_maxreq : forall f limit (s : st) r s', maxreq_poll_next tp f limit s = (r, s') -> s_dropped s' = s_dropped s.
  Proof.
    induction f as [|f IH]; intros limit s r s' H; cbn [maxreq_poll_next] in H; [injection H as _ <-; reflexivity|].
    destruct (limit <=? length (s_inflight s)).
    - destruct (do_ready tp s) as [x s1] eqn:ER. destruct (do_ready_core tp _ _ _ ER) as ((_ & _ & _ & _ & _ & _ & _ & C1) & _).
      destruct x; try (injection H as _ <-; exact C1).
      destruct (base_poll_next tp (S f) s1) as [y s2] eqn:EB. pose proof (dropped_base _ _ _ _ EB) as H2.
      destruct y; try (injection H as _ <-; congruence).
      destruct (base_start_send tp (mkresp (q_id x) BThrottle) s2) as [e s3] eqn:ESS.
      pose proof (dropped_start_send _ _ _ _ ESS) as H3.
      destruct e; [injection H as _ <-; congruence|]. rewrite (IH _ _ _ _ H). congruence.
    - exact (dropped_base _ _ _ _ H).
  Qed.


  Lemma dropped_pump_write : forall rc (s : st) w s', pump_write tp rc s = (w, s') -> s_dropped s' = s_dropped s.
  Proof.
    intros rc s w s' H.
    unfold pump_write, poll_next_response in H.
    destruct (ensure_writeable tp s) as [x s1] eqn:EW.
    assert (H1 : s_dropped s1 = s_dropped s).
    { unfold ensure_writeable in EW.
      destruct (do_ready tp s) as [r sa] eqn:E1. destruct (do_ready_core tp _ _ _ E1) as ((_ & _ & _ & _ & _ & _ & _ & C1) & _).
      destruct r; try (injection EW as _ <-; exact C1).
      destruct (do_flush tp sa) as [f sb] eqn:E2. destruct (do_flush_core tp _ _ _ E2) as ((_ & _ & _ & _ & _ & _ & _ & C2) & _).
      destruct f; try (injection EW as _ <-; congruence).
      destruct (do_ready tp sb) as [r2 sc] eqn:E3. destruct (do_ready_core tp _ _ _ E3) as ((_ & _ & _ & _ & _ & _ & _ & C3) & _).
      destruct r2; injection EW as _ <-; congruence. }
    assert (Hfl : forall (w0 : pres unit) s0,
      (let '(f, s2) := do_flush tp s1 in
       match f with
       | TOk => if rc && Nat.eqb (length (s_inflight s2)) 0 then (@PEnd unit, s2) else (PPending, s2)
       | TErr => (PErr AFlush, s2)
       | TPending => (PPending, s2)
       end) = (w0, s0) -> s_dropped s0 = s_dropped s).
    { intros w0 s0 HH. destruct (do_flush tp s1) as [f s2] eqn:EF.
      destruct (do_flush_core tp _ _ _ EF) as ((_ & _ & _ & _ & _ & _ & _ & C2) & _).
      destruct f; [destruct (rc && _)| |]; injection HH as _ <-; congruence. }
    destruct x as [| |a].
    - destruct (s_respq s1) as [|m q] eqn:EQ; [exact (Hfl w s' H)|].
      destruct (base_start_send tp m (add_permit (set_respq s1 q))) as [e s2] eqn:ES.
      pose proof (dropped_start_send _ _ _ _ ES) as H2.
      destruct (add_permit_shape (set_respq s1 q)) as (_ & _ & _ & _ & _ & _ & _ & _ & A9 & _). cbv zeta in A9. sproj.
      destruct e; injection H as _ <-; congruence.
    - exact (Hfl w s' H).
    - injection H as _ <-. exact H1.
  Qed.

  Lemma dropped_requests : forall c f (s : st) r s', requests_poll_next tp c f s = (r, s') -> s_dropped s' = s_dropped s.
  Proof.
    intros c f; induction f as [|f IH]; intros s r s' H; cbn [requests_poll_next] in H.
    { injection H as _ <-. reflexivity. }
    destruct (pump_read tp c (S f) s) as [rd s1] eqn:ER.
    assert (H1 : s_dropped s1 = s_dropped s).
    { unfold pump_read in ER. destruct (cfg_limit c); [exact (dropped_maxreq _ _ _ _ _ ER)|exact (dropped_base _ _ _ _ ER)]. }
    destruct rd as [q| |a| |]; try (injection H as _ <-; exact H1).
    - destruct (pump_write tp false s1) as [wr s2] eqn:EW. pose proof (dropped_pump_write _ _ _ _ EW) as R2.
      destruct wr; injection H as _ <-; sproj; congruence.
    - destruct (pump_write tp true s1) as [wr s2] eqn:EW. pose proof (dropped_pump_write _ _ _ _ EW) as R2.
      destruct wr; try (injection H as _ <-; congruence). rewrite (IH _ _ _ H). congruence.
    - destruct (pump_write tp false s1) as [wr s2] eqn:EW. pose proof (dropped_pump_write _ _ _ _ EW) as R2.
      destruct wr; try (injection H as _ <-; congruence). rewrite (IH _ _ _ H). congruence.
  Qed.

  Lemma hrel_pump_write : forall rc (s : st) w s', pump_write tp rc s = (w, s') -> hrel s s'.
  Proof.
    intros rc s w s' H. unfold pump_write, poll_next_response in H.
    destruct (ensure_writeable tp s) as [x s1] eqn:EW.
    assert (H1 : s_handlers s1 = s_handlers s).
    { unfold ensure_writeable in EW.
      destruct (do_ready tp s) as [r sa] eqn:E1. destruct (do_ready_core tp _ _ _ E1) as ((C1 & _) & _).
      destruct r; try (injection EW as _ <-; exact C1).
      destruct (do_flush tp sa) as [f sb] eqn:E2. destruct (do_flush_core tp _ _ _ E2) as ((C2 & _) & _).
      destruct f; try (injection EW as _ <-; congruence).
      destruct (do_ready tp sb) as [r2 sc] eqn:E3. destruct (do_ready_core tp _ _ _ E3) as ((C3 & _) & _).
      destruct r2; injection EW as _ <-; congruence. }
    assert (Hfl : forall (w0 : pres unit) s0,
      (let '(f, s2) := do_flush tp s1 in
       match f with
       | TOk => if rc && Nat.eqb (length (s_inflight s2)) 0 then (@PEnd unit, s2) else (PPending, s2)
       | TErr => (PErr AFlush, s2)
       | TPending => (PPending, s2)
       end) = (w0, s0) -> hrel s s0).
    { intros w0 s0 HH. destruct (do_flush tp s1) as [f s2] eqn:EF.
      destruct (do_flush_core tp _ _ _ EF) as ((C2 & _) & _).
      assert (hrel s s2) by (apply hrel_eq; congruence).
      destruct f; [destruct (rc && _)| |]; injection HH as _ <-; assumption. }
    destruct x as [| |a].
    - destruct (s_respq s1) as [|m q] eqn:EQ; [exact (Hfl w s' H)|].
      destruct (base_start_send tp m (add_permit (set_respq s1 q))) as [e s2] eqn:ES.
      pose proof (handlers_start_send _ _ _ _ ES) as H2.
      destruct (add_permit_shape (set_respq s1 q)) as (_ & A2 & _). cbv zeta in A2. sproj.
      assert (hrel s s2).
      { intros j hr' Hj. rewrite H2 in Hj. destruct (A2 j hr' Hj) as (hr & Hhr & _ & _ & E).
        rewrite H1 in Hhr. exists hr. auto. }
      destruct e; injection H as _ <-; assumption.
    - exact (Hfl w s' H).
    - injection H as _ <-. apply hrel_eq. exact H1.
  Qed.

  Lemma hrel_requests : forall c f (s : st) r s', requests_poll_next tp c f s = (r, s') -> hrel s s'.
  Proof.
    intros c f; induction f as [|f IH]; intros s r s' H; cbn [requests_poll_next] in H.
    { injection H as _ <-. apply hrel_eq. reflexivity. }
    destruct (pump_read tp c (S f) s) as [rd s1] eqn:ER.
    assert (H1 : s_handlers s1 = s_handlers s).
    { unfold pump_read in ER. destruct (cfg_limit c); [exact (handlers_maxreq _ _ _ _ _ ER)|exact (handlers_base _ _ _ _ ER)]. }
    pose proof (hrel_eq _ _ H1) as R1.
    destruct rd as [q| |a| |]; try (injection H as _ <-; exact R1).
    - destruct (pump_write tp false s1) as [wr s2] eqn:EW. pose proof (hrel_pump_write _ _ _ _ EW) as R2.
      assert (R02 : hrel s s2) by (eapply hrel_trans; eauto).
      destruct wr; injection H as _ <-; try exact R02; intros j hr' Hj; sproj; exact (R02 j hr' Hj).
    - destruct (pump_write tp true s1) as [wr s2] eqn:EW. pose proof (hrel_pump_write _ _ _ _ EW) as R2.
      assert (R02 : hrel s s2) by (eapply hrel_trans; eauto).
      destruct wr; try (injection H as _ <-; exact R02). eapply hrel_trans; [exact R02|exact (IH _ _ _ H)].
    - destruct (pump_write tp false s1) as [wr s2] eqn:EW. pose proof (hrel_pump_write _ _ _ _ EW) as R2.
      assert (R02 : hrel s s2) by (eapply hrel_trans; eauto).
      destruct wr; try (injection H as _ <-; exact R02). eapply hrel_trans; [exact R02|exact (IH _ _ _ H)].
  Qed.

  (* handlers that wait for a permit (or hold one) carry a handler result, never the throttle reply *)
  Definition hb_ok (s : st) : Prop :=
    forall hr b, In hr (s_handlers s) -> (h_st hr = HWait b \/ h_st hr = HPermit b) -> b <> BThrottle.

  Lemma hb_ok_hrel : forall (s s' : st), hb_ok s -> hrel s s' -> hb_ok s'.
  Proof.
    intros s s' Hb Hr hr' b Hin Hst. apply In_nth_error in Hin. destruct Hin as (j & Hj).
    destruct (Hr j hr' Hj) as (hr & Hhr & E). apply nth_error_In in Hhr.
    destruct E as [E|(b0 & E0 & E1)].
    - apply (Hb hr b Hhr). rewrite <- E. exact Hst.
    - rewrite E1 in Hst. destruct Hst as [Hst|Hst]; [discriminate|]. inversion Hst; subst b0.
      apply (Hb hr b Hhr). left. exact E0.
  Qed.
End Hrel.

Section Top.
  Context {T C : Type}.
  Variable tp : transport T response cmsg.
  Variable ctl : T -> C -> T.
  Variable tfuel : T -> nat.
  Hypothesis TF : tfuel_ok tp tfuel.
  Variable c : cfg.
  Notation st := (@sstate T).
  Notation lim := (cfg_limit c).

  Definition Top (o : ostate) (s : st) : Prop :=
    h_stop (o_v o) = true ->
    InvU o s /\ no_thr s
    /\ (c_err (o_v o) = false ->
        handled s /\ (s_dropped s = false -> o_gauge o = length (s_inflight s))).

  Lemma split_gauges_poll : forall (s1 : st) log r,
    s_dropped s1 = false ->
    match r with OGauges _ _ | OOracle => False | _ => True end ->
    split_gauges ([OCalls log; r] ++ gauges s1)
    = ([OCalls log; r], Some (length (s_inflight s1), length (s_timers s1))).
  Proof.
    intros s1 log r Hd Hr. unfold gauges. rewrite Hd. unfold split_gauges.
    destruct (s_bad s1); cbn; destruct r; try contradiction; reflexivity.
  Qed.

  (* polling after an error: the observer stops *)
  Lemma ostep_poll_after_error : forall o l,
    h_stop (o_v o) = true -> o_dropped o = false -> c_err (o_v o) = true ->
    h_stop (o_v (ostep lim o (@OPoll C) l)) = false.
  Proof.
    intros o l EH Hod EC. unfold ostep. rewrite EH. cbn [negb].
    destruct (split_gauges l) as [body g]. rewrite Hod, EC.
    destruct g as [[a b]|]; oproj; rewrite Hod; oproj; rewrite ?EC; cbn [orb]; oproj;
      rewrite ?andb_false_r; reflexivity.
  Qed.

  Lemma requests_not_fuel : forall (s : st) r s2,
    requests_poll_next tp c (poll_fuel tfuel s) (set_log s []) = (r, s2) -> r <> PFuel.
  Proof.
    intros s r s2 H. eapply (requests_fuel tp tfuel TF c); [|exact H].
    unfold poll_fuel, mu; sproj. lia.
  Qed.

  Lemma top_poll : forall o (s : st) s' l,
    Top o s -> step tp ctl tfuel c s OPoll = (s', l) -> Top (ostep lim o (@OPoll C) l) s'.
  Proof.
    intros o s s' l HT H. unfold step in H.
    destruct (poll_requests tp tfuel c s) as [s1 l0] eqn:EP. injection H as <- <-.
    destruct (h_stop (o_v o)) eqn:EH.
    2: { unfold ostep. rewrite EH. cbn [negb]. intros Hf. congruence. }
    destruct (HT EH) as (HI & Hnt & Hrest).
    unfold poll_requests in EP.
    destruct (s_dropped s) eqn:ED.
    { (* the channel is gone: nothing happens *)
      injection EP as <- <-. unfold ostep. rewrite EH. cbn [negb]. unfold gauges. rewrite ED.
      assert (Hodt : o_dropped o = true) by (rewrite (u_dropped _ _ HI); exact ED).
      cbn [app split_gauges rev]. rewrite Hodt. cbn iota. rewrite Hodt. intros _.
      split; [exact HI|split; [exact Hnt|]].
      intros Hc. destruct (Hrest Hc) as (A & _). split; [exact A|]. intros Hd. rewrite ED in Hd. discriminate. }
    assert (Hod : o_dropped o = false) by (rewrite (u_dropped _ _ HI); exact ED).
    destruct (c_err (o_v o)) eqn:EC.
    { intros Hf. rewrite (ostep_poll_after_error o _ EH Hod EC) in Hf. discriminate. }
    destruct (Hrest eq_refl) as (Hh & Hg). specialize (Hg eq_refl).
    destruct (requests_poll_next tp c (poll_fuel tfuel s) (set_log s [])) as [r s2] eqn:ER.
    pose proof (requests_not_fuel _ _ _ ER) as Hnf.
    (* the loops *)
    assert (HB0 : BInv (start_poll o) (set_log s [])).
    { split; [apply InvU_start_poll; auto|split; [|exact EC]].
      eapply handled_sub; eauto. }
    assert (Hnt0 : no_thr (set_log s [])) by exact Hnt.
    destruct (requests_inv tp lim c _ _ _ _ _ eq_refl HB0 Hnt0 ER) as (new & X & Post & Hnt2).
    assert (HE0 : Entry (start_poll o) (set_log s [])).
    { right; right; left. split; [reflexivity|]. sproj. exact Hg. }
    destruct (requests_ctrl tp lim c _ _ _ _ _ eq_refl HE0 ER) as (new' & X' & Id).
    assert (new' = new) by (eapply ocs_ext_unique; eauto). subst new'.
    assert (Hlog : rev (s_log s2) = new).
    { unfold ext in X. sproj. rewrite X, app_nil_r, rev_involutive. reflexivity. }
    set (oc := fold_left (o_call lim) new (start_poll o)) in *.
    destruct (ocs_proj lim new (start_poll o)) as (Pn & Pd & Ph & Pb & Pc).
    fold oc in Pn, Pd, Ph, Pb, Pc. cbn [start_poll o_now o_dropped o_v] in Pn, Pd, Ph, Pb, Pc.
    destruct r as [q| |a| |]; [| | | |exfalso; apply Hnf; reflexivity].
    - (* a request is yielded *)
      injection EP as <- <-. rewrite Hlog.
      destruct Post as (HIc & HPc & Hcec).
      destruct (InvU_result_yield oc s2 q HIc HPc Hcec) as (HI1 & Hh1 & Hce1). cbv zeta in *.
      set (s1 := set_handlers s2 (s_handlers s2 ++ [{| h_h := q_h q; h_id := q_id q; h_st := HYielded |}])) in *.
      set (R := OYield (length (s_handlers s2)) (q_id q) (q_dl q) (q_tr q) (q_body q)) in *.
      assert (Hd1 : s_dropped s1 = false).
      { rewrite <- (u_dropped _ _ HI1).
        destruct (o_result_yield_proj oc (length (s_handlers s2)) (q_id q) (q_dl q) (q_tr q) (q_body q)) as (_ & _ & P3 & _).
        cbv zeta in P3. fold R in P3. rewrite P3, Pd. exact Hod. }
      unfold ostep. rewrite EH. cbn [negb].
      rewrite (split_gauges_poll s1 new R Hd1 I). rewrite Hod, EC.
      unfold o_calls. fold oc.
      destruct (o_result_yield_proj oc (length (s_handlers s2)) (q_id q) (q_dl q) (q_tr q) (q_body q))
        as (Q1 & Q2 & Q3 & Q4 & Q5 & Q6 & Q7 & Q8). cbv zeta in *. fold R in Q1, Q2, Q3, Q4, Q5, Q6, Q7, Q8.
      rewrite Q3, Pd, Hod. rewrite Q6, Hcec.
      match goal with |- Top (o_gauges ?a ?b ?x ?g1 ?g2) _ =>
        destruct (o_gauges_proj a b x g1 g2) as (G1 & G2 & G3 & G4 & G5 & G6 & G7 & G8 & G9) end.
      cbv zeta in *. oproj.
      intros _. split; [|split].
      + eapply InvU_frame; [exact HI1| |repeat split; reflexivity|].
        * unfold same_tab, pend_id. rewrite G1, G2, G3, G5, G6. repeat split; reflexivity.
        * rewrite G4. exact (u_eof _ _ HI1).
      + intros m Hm. apply Hnt2. exact Hm.
      + intros _. split; [exact Hh1|]. intros _. exact G9.
    - (* end of stream *)
      injection EP as <- <-. rewrite Hlog.
      destruct Post as (HIc & Hhc & Hcec).
      assert (HIf : InvU (finish_idle (chk10 oc (o_eof oc && negb (o_dirty oc)))) s2).
      { apply InvU_finish_idle.
        - eapply InvU_frame; [exact HIc|repeat split; reflexivity|repeat split; reflexivity|exact (u_eof _ _ HIc)].
        - oproj. intros Hb. cbn in Id. destruct Id as [Hc|Hb']; [exact Hc|congruence]. }
      destruct (finish_idle_proj (chk10 oc (o_eof oc && negb (o_dirty oc)))) as (F1 & F2 & F3 & F4 & F5 & F6 & F7 & F8).
      cbv zeta in *. oproj.
      assert (Hd1 : s_dropped s2 = false) by (rewrite <- (u_dropped _ _ HIc), Pd; exact Hod).
      unfold ostep. rewrite EH. cbn [negb].
      rewrite (split_gauges_poll s2 new OStreamEnd Hd1 I). rewrite Hod, EC.
      unfold o_calls. fold oc. cbn [o_result]. rewrite F3, Pd, Hod, F6, Hcec.
      match goal with |- Top (o_gauges ?a ?b ?x ?g1 ?g2) _ =>
        destruct (o_gauges_proj a b x g1 g2) as (G1 & G2 & G3 & G4 & G5 & G6 & G7 & G8 & G9) end.
      cbv zeta in *. oproj.
      intros _. split; [|split].
      + eapply InvU_frame; [exact HIf| |repeat split; reflexivity|].
        * unfold same_tab, pend_id. rewrite G1, G2, G3, G5, G6. repeat split; reflexivity.
        * rewrite G4. exact (u_eof _ _ HIf).
      + exact Hnt2.
      + intros _. split; [exact Hhc|]. intros _. exact G9.
    - (* an error *)
      injection EP as <- <-. rewrite Hlog.
      destruct (o_result_err_proj oc a) as (E1 & E2 & E3 & E4 & E5 & E6 & E7). cbv zeta in *.
      assert (HI1 : InvU (o_result oc (OStreamErr a)) s2).
      { destruct Post as [(HIc & _)|(q & s3 & (HIc & _) & ->)].
        - apply (InvU_err oc _ s2 s2 HIc); auto; try (intros E; rewrite E4; exact E).
        - apply (InvU_err oc _ s3 _ HIc); auto; sproj; auto;
            try (intros E; rewrite E4; exact E);
            try (intros id Hin; apply in_or_app; left; exact Hin). }
      assert (Hd1 : s_dropped s2 = false) by (rewrite <- (u_dropped _ _ HI1), E3, Pd; exact Hod).
      unfold ostep. rewrite EH. cbn [negb].
      rewrite (split_gauges_poll s2 new (OStreamErr a) Hd1 I). rewrite Hod, EC.
      unfold o_calls. fold oc. rewrite E3, Pd, Hod, E5.
      intros _. split; [exact HI1|split; [exact Hnt2|]]. rewrite E5. discriminate.
    - (* pending *)
      injection EP as <- <-. rewrite Hlog.
      destruct Post as (HIc & Hhc & Hcec).
      assert (HIf : InvU (finish_idle oc) s2).
      { apply InvU_finish_idle; [exact HIc|].
        intros Hb. cbn in Id. destruct Id as [Hc|Hb']; [exact Hc|congruence]. }
      destruct (finish_idle_proj oc) as (F1 & F2 & F3 & F4 & F5 & F6 & F7 & F8). cbv zeta in *.
      assert (Hd1 : s_dropped s2 = false) by (rewrite <- (u_dropped _ _ HIc), Pd; exact Hod).
      unfold ostep. rewrite EH. cbn [negb].
      rewrite (split_gauges_poll s2 new OPending Hd1 I). rewrite Hod, EC.
      unfold o_calls. fold oc. cbn [o_result]. rewrite F3, Pd, Hod, F6, Hcec.
      match goal with |- Top (o_gauges ?a ?b ?x ?g1 ?g2) _ =>
        destruct (o_gauges_proj a b x g1 g2) as (G1 & G2 & G3 & G4 & G5 & G6 & G7 & G8 & G9) end.
      cbv zeta in *. oproj.
      intros _. split; [|split].
      + eapply InvU_frame; [exact HIf| |repeat split; reflexivity|].
        * unfold same_tab, pend_id. rewrite G1, G2, G3, G5, G6. repeat split; reflexivity.
        * rewrite G4. exact (u_eof _ _ HIf).
      + exact Hnt2.
      + intros _. split; [exact Hhc|]. intros _. exact G9.
  Qed.

  (* ---- the ops other than a poll ---------------------------------------------------------------- *)
  Definition plain (e : obs) : bool := match e with OGauges _ _ | OOracle => false | _ => true end.

  Lemma split_gauges_plain : forall body, forallb plain body = true -> split_gauges body = (body, None).
  Proof.
    intros body H. unfold split_gauges.
    assert (Hr : forallb plain (rev body) = true).
    { rewrite forallb_forall in *. intros x Hx. apply H. apply in_rev. exact Hx. }
    destruct (rev body) as [|e r]; [reflexivity|]. cbn in Hr. apply andb_true_iff in Hr. destruct Hr as [He _].
    destruct e; try discriminate; reflexivity.
  Qed.

  Lemma split_gauges_app : forall body (s1 : st),
    s_dropped s1 = false ->
    split_gauges (body ++ gauges s1) = (body, Some (length (s_inflight s1), length (s_timers s1))).
  Proof.
    intros body s1 Hd. unfold gauges. rewrite Hd. unfold split_gauges. destruct (s_bad s1).
    - rewrite rev_app_distr. cbn. rewrite rev_involutive. reflexivity.
    - rewrite rev_app_distr. cbn. rewrite rev_involutive. reflexivity.
  Qed.

  (* the common tail of ostep for an op that is not a poll *)
  Definition otail (o1 : ostate) (g : option (nat * nat)) : ostate :=
    match g with
    | Some (a, b) =>
      if o_dropped o1 then mark_bad o1
      else if c_err (o_v o1) then o1
      else o_gauges false false (chk10 (chk12a o1 true) true) a b
    | None => if o_dropped o1 then o1 else mark_bad o1
    end.

  Lemma top_tail : forall o1 (s1 : st) body,
    forallb plain body = true ->
    (h_stop (o_v o1) = true ->
     InvU o1 s1 /\ no_thr s1 /\ (c_err (o_v o1) = false -> handled s1)) ->
    Top (otail o1 (snd (split_gauges (body ++ gauges s1)))) s1
    /\ fst (split_gauges (body ++ gauges s1)) = body.
  Proof.
    intros o1 s1 body Hpl H.
    destruct (s_dropped s1) eqn:ED.
    - unfold gauges. rewrite ED, app_nil_r, (split_gauges_plain _ Hpl). cbn [fst snd otail].
      split; [|reflexivity]. intros Hs.
      destruct (o_dropped o1) eqn:EO.
      + destruct (H Hs) as (HI & Hnt & Hh). split; [exact HI|split; [exact Hnt|]].
        intros Hc. split; [exact (Hh Hc)|]. intros Hd. congruence.
      + exfalso. unfold mark_bad in Hs. oproj. rewrite andb_true_r in Hs. destruct (H Hs) as (HI & _).
        rewrite (u_dropped _ _ HI) in EO. congruence.
    - rewrite (split_gauges_app body s1 ED). cbn [fst snd otail]. split; [|reflexivity].
      destruct (o_dropped o1) eqn:EO.
      + intros Hs. unfold mark_bad in Hs. oproj. rewrite andb_true_r in Hs. destruct (H Hs) as (HI & _).
        rewrite (u_dropped _ _ HI) in EO. congruence.
      + destruct (c_err (o_v o1)) eqn:EC.
        * intros Hs. destruct (H Hs) as (HI & Hnt & Hh). split; [exact HI|split; [exact Hnt|]]. congruence.
        * match goal with |- Top (o_gauges ?a ?b ?x ?g1 ?g2) _ =>
            destruct (o_gauges_proj a b x g1 g2) as (G1 & G2 & G3 & G4 & G5 & G6 & G7 & G8 & G9) end.
          cbv zeta in *. oproj. rewrite ?andb_true_r in *.
          intros Hs. rewrite G7 in Hs. destruct (H Hs) as (HI & Hnt & Hh).
          split; [|split; [exact Hnt|]].
          -- eapply InvU_frame; [exact HI| |repeat split; reflexivity|].
             ++ unfold same_tab, pend_id. rewrite G1, G2, G3, G5, G6. repeat split; reflexivity.
             ++ rewrite G4. exact (u_eof _ _ HI).
          -- intros _. split; [exact (Hh eq_refl)|]. intros _. exact G9.
  Qed.

  Lemma ostep_nonpoll : forall (p : op C) o l,
    h_stop (o_v o) = true ->
    match p with OPoll => False | _ => True end ->
    ostep lim o p l =
    otail (match p with
           | OCtl _ => match fst (split_gauges l) with [] => o | _ => mark_bad o end
           | OHandlerPoll k _ => fold_left o_hevent (fst (split_gauges l)) o
           | ODropHandler k => guard_dropped k PStarted (fold_left o_hevent (fst (split_gauges l)) o)
           | ODropYielded k => guard_dropped k PFresh (fold_left o_hevent (fst (split_gauges l)) o)
           | ODropChannel =>
             mko (o_incs o) (o_now o) (o_gauge o) true (o_eof o) (o_dirty o) (o_pend o) (o_first o)
                 (o_after_thr o) (o_blocked o) (o_freed o) (o_errcall o) (o_v o)
           | OAdvance dt =>
             mko (age (o_now o + dt)%N (o_incs o)) (o_now o + dt)%N (o_gauge o) (o_dropped o) (o_eof o)
                 (o_dirty o) (o_pend o) (o_first o) (o_after_thr o) (o_blocked o) (o_freed o)
                 (o_errcall o) (o_v o)
           | OPoll => o
           end) (snd (split_gauges l)).
  Proof.
    intros p o l Hs Hp. unfold ostep. rewrite Hs. cbn [negb].
    destruct (split_gauges l) as [body g]. cbn [fst snd].
    destruct p; try contradiction; unfold otail; destruct g as [[a b]|]; try reflexivity;
      cbn [negb orb]; try reflexivity.
    all: match goal with |- context [if o_dropped ?x then _ else _] => destruct (o_dropped x) end; try reflexivity.
    all: match goal with |- context [if c_err (o_v ?x) then _ else _] => destruct (c_err (o_v x)) end; try reflexivity.
    all: destruct body as [|e1 [|e2 [|e3 r]]]; try reflexivity; destruct e1; try reflexivity.
  Qed.

  Lemma top_ctl : forall o (s : st) x s' l,
    Top o s -> step tp ctl tfuel c s (OCtl x) = (s', l) -> Top (ostep lim o (OCtl x) l) s'.
  Proof.
    intros o s x s' l HT H. unfold step in H. injection H as <- <-.
    destruct (h_stop (o_v o)) eqn:EH; [|unfold ostep; rewrite EH; cbn [negb]; intros Hf; congruence].
    rewrite (ostep_nonpoll (OCtl x) o _ EH I).
    destruct (top_tail o (set_t s (ctl (s_t s) x)) [] eq_refl) as (A & B).
    - intros _. destruct (HT EH) as (HI & Hnt & Hr). split; [|split; [exact Hnt|intros Hc; exact (proj1 (Hr Hc))]].
      eapply InvU_frame; [exact HI|repeat split; reflexivity|repeat split; reflexivity|exact (u_eof _ _ HI)].
    - cbn [app] in *. rewrite B. exact A.
  Qed.

  Lemma top_advance : forall o (s : st) dt s' l,
    Top o s -> step tp ctl tfuel c s (OAdvance dt) = (s', l) -> Top (ostep lim o (@OAdvance C dt) l) s'.
  Proof.
    intros o s dt s' l HT H. unfold step in H. injection H as <- <-.
    destruct (h_stop (o_v o)) eqn:EH; [|unfold ostep; rewrite EH; cbn [negb]; intros Hf; congruence].
    rewrite (ostep_nonpoll (@OAdvance C dt) o _ EH I).
    set (o1 := mko (age (o_now o + dt)%N (o_incs o)) (o_now o + dt)%N (o_gauge o) (o_dropped o) (o_eof o)
                   (o_dirty o) (o_pend o) (o_first o) (o_after_thr o) (o_blocked o) (o_freed o)
                   (o_errcall o) (o_v o)).
    set (s1 := set_now s (s_now s + dt)%N).
    destruct (top_tail o1 s1 [] eq_refl) as (A & B).
    - intros _. destruct (HT EH) as (HI & Hnt & Hr). split; [|split; [exact Hnt|intros Hc; exact (proj1 (Hr Hc))]].
      pose proof (u_now _ _ HI) as Hnow.
      apply (InvU_map o o1 s s1
               (fun i => match oi_wire i with
                         | WOpen => if N.leb (oi_when i) (o_now o + dt) then set_wire i WMaybe else i
                         | _ => i end) HI).
      + reflexivity.
      + intros i. destruct (oi_wire i); try (repeat split; reflexivity).
        destruct (N.leb _ _); repeat split; reflexivity.
      + intros i _. destruct (oi_wire i) eqn:E; cbn; rewrite ?E; auto;
          destruct (N.leb _ _); cbn; rewrite ?E; auto.
      + intros i Hin. destruct (oi_wire i) eqn:E; cbn; rewrite ?E; intros Hw; try discriminate.
        destruct (N.leb (oi_when i) (o_now o + dt)) eqn:EL; cbn in Hw; rewrite ?E in Hw; try discriminate.
        split; [reflexivity|]. apply N.leb_gt in EL. subst s1; sproj. rewrite <- Hnow. exact EL.
      + intros i Hin. destruct (oi_wire i) eqn:E; cbn; rewrite ?E; intros Hw; try discriminate; auto.
        destruct (N.leb (oi_when i) (o_now o + dt)) eqn:EL; cbn in Hw; rewrite ?E in Hw; try discriminate.
        right. apply N.leb_le in EL. subst s1; sproj. rewrite <- Hnow. exact EL.
      + intros k e oi He (hr & oi' & A1 & B1 & C1 & D1 & E1 & F1 & G1) Hoi. rewrite Hoi in B1. inversion B1; subst oi'.
        destruct (oi_wire oi) eqn:E; cbn; rewrite ?E; auto; try (rewrite E in E1; exact E1);
          destruct (N.leb _ _); cbn; rewrite ?E; reflexivity.
      + repeat split; reflexivity.
      + repeat split; reflexivity.
      + subst s1; sproj. lia.
      + subst s1 o1; sproj. rewrite Hnow. reflexivity.
      + intros Hc _. apply all_owned_of_handled; [exact HI|exact (proj1 (Hr Hc))].
      + intros F. exact (u_eof _ _ HI F).
    - exact A.
  Qed.

  Lemma top_drop_channel : forall o (s : st) s' l,
    Top o s -> step tp ctl tfuel c s ODropChannel = (s', l) -> Top (ostep lim o (@ODropChannel C) l) s'.
  Proof.
    intros o s s' l HT H. unfold step in H. injection H as <- <-.
    destruct (h_stop (o_v o)) eqn:EH; [|unfold ostep; rewrite EH; cbn [negb]; intros Hf; congruence].
    rewrite (ostep_nonpoll (@ODropChannel C) o _ EH I).
    set (o1 := mko (o_incs o) (o_now o) (o_gauge o) true (o_eof o) (o_dirty o) (o_pend o) (o_first o)
                   (o_after_thr o) (o_blocked o) (o_freed o) (o_errcall o) (o_v o)).
    destruct (top_tail o1 (drop_channel s) [] eq_refl) as (A & B).
    - intros _. destruct (HT EH) as (HI & Hnt & Hr).
      unfold drop_channel. destruct (s_dropped s) eqn:ED.
      + split; [|split; [exact Hnt|intros Hc; exact (proj1 (Hr Hc))]].
        eapply InvU_frame; [exact HI| |repeat split; reflexivity|exact (u_eof _ _ HI)].
        unfold same_tab; subst o1; oproj. rewrite (u_dropped _ _ HI), ED. repeat split; reflexivity.
      + split; [|split; [exact Hnt|]].
        * apply (InvU_drop_channel o o1 s _ HI); try reflexivity. auto.
        * intros Hc. destruct (Hr Hc) as (Hh & _). intros e He. sproj. exact (Hh e He).
    - exact A.
  Qed.

  (* ---- handler events ----------------------------------------------------------------------------- *)
  Definition gstep (e : obs) (i : oinc) : oinc :=
    match e with
    | OHPolled _ => set_ph i PStarted
    | OHDone _ b => set_done i b
    | OExecReady _ => set_ph i PEnded
    | _ => i
    end.
  Definition for_k (k : nat) (e : obs) : bool :=
    match e with
    | OHPolled k' | OHDone k' _ | OHDropped k' | OExecReady k' | OExecPending k' => Nat.eqb k k'
    | _ => false
    end.

  Lemma upd_nth_comp : forall k (f g : oinc -> oinc) l, upd_nth k g (upd_nth k f l) = upd_nth k (fun i => g (f i)) l.
  Proof. intros k f g l; revert k; induction l; destruct k; cbn; auto. f_equal; auto. Qed.

  Lemma hevents_proj : forall k body o oi,
    forallb (for_k k) body = true -> nth_error (o_incs o) k = Some oi ->
    let o' := fold_left o_hevent body o in
    o_incs o' = upd_nth k (fun i => fold_left (fun x e => gstep e x) body i) (o_incs o)
    /\ o_now o' = o_now o /\ o_dropped o' = o_dropped o /\ o_eof o' = o_eof o /\ o_pend o' = o_pend o
    /\ o_gauge o' = o_gauge o /\ c_err (o_v o') = c_err (o_v o) /\ h_stop (o_v o') = h_stop (o_v o).
  Proof.
    intros k body; induction body as [|e body IH]; intros o oi Hb Hk; cbv zeta; cbn [fold_left].
    { rewrite upd_nth_id. repeat split; reflexivity. }
    cbn [forallb] in Hb. apply andb_true_iff in Hb. destruct Hb as [He Hb].
    assert (Hstep : o_incs (o_hevent o e) = upd_nth k (gstep e) (o_incs o)
                    /\ o_now (o_hevent o e) = o_now o /\ o_dropped (o_hevent o e) = o_dropped o
                    /\ o_eof (o_hevent o e) = o_eof o /\ o_pend (o_hevent o e) = o_pend o
                    /\ o_gauge (o_hevent o e) = o_gauge o /\ c_err (o_v (o_hevent o e)) = c_err (o_v o)
                    /\ h_stop (o_v (o_hevent o e)) = h_stop (o_v o)).
    { destruct e; cbn in He; try discriminate; apply Nat.eqb_eq in He; subst; cbn [o_hevent gstep];
        rewrite ?Hk; oproj; rewrite ?upd_nth_id; repeat split; reflexivity. }
    destruct Hstep as (S1 & S2 & S3 & S4 & S5 & S6 & S7 & S8).
    assert (Hk' : nth_error (o_incs (o_hevent o e)) k = Some (gstep e oi)).
    { rewrite S1. apply upd_nth_same. exact Hk. }
    destruct (IH (o_hevent o e) (gstep e oi) Hb Hk') as (I1 & I2 & I3 & I4 & I5 & I6 & I7 & I8).
    cbv zeta in *. rewrite I1, I2, I3, I4, I5, I6, I7, I8, S1, S2, S3, S4, S5, S6, S7, S8.
    rewrite upd_nth_comp. repeat split; reflexivity.
  Qed.

  Lemma gfold_pres : forall body i,
    let i' := fold_left (fun x e => gstep e x) body i in
    oi_id i' = oi_id i /\ oi_when i' = oi_when i /\ oi_wire i' = oi_wire i.
  Proof.
    induction body as [|e body IH]; intros i; cbv zeta; cbn [fold_left]; [repeat split; reflexivity|].
    destruct (IH (gstep e i)) as (A & B & D). cbv zeta in *. rewrite A, B, D.
    destruct e; cbn; repeat split; reflexivity.
  Qed.

  (* how one handler step may change the handler table *)
  Definition hshape (k : nat) (hr : hrec) (st' : hstate) (s s1 : st) : Prop :=
    map h_h (s_handlers s1) = map h_h (s_handlers s)
    /\ forall j hr', nth_error (s_handlers s1) j = Some hr' ->
         (j = k /\ h_id hr' = h_id hr /\ h_st hr' = st')
         \/ (j <> k /\ exists hr0, nth_error (s_handlers s) j = Some hr0 /\ h_id hr' = h_id hr0
                       /\ (h_st hr' = h_st hr0 \/ exists b, h_st hr0 = HWait b /\ h_st hr' = HPermit b)).

  Lemma InvU_hevents : forall o (s s1 : st) k hr oi body st',
    InvU o s -> nth_error (s_handlers s) k = Some hr -> nth_error (o_incs o) k = Some oi ->
    forallb (for_k k) body = true ->
    hshape k hr st' s s1 ->
    (let i' := fold_left (fun x e => gstep e x) body oi in
     phase_ok st' (oi_ph i') /\ done_ok st' (oi_done i')) ->
    (forall id, In id (s_cancels s) -> In id (s_cancels s1)) ->
    s_next_h s1 = s_next_h s -> s_inflight s1 = s_inflight s -> s_timers s1 = s_timers s ->
    s_aborted s1 = s_aborted s -> s_now s1 = s_now s -> s_dropped s1 = s_dropped s ->
    s_fused s1 = s_fused s ->
    InvU (fold_left o_hevent body o) s1.
  Proof.
    intros o s s1 k hr oi body st' HI Hk Hoi Hb (Hm & Hsh) Hfin Hcan Hn Hi Ht Hab Hw Hd Hf.
    destruct (hevents_proj k body o oi Hb Hoi) as (P1 & P2 & P3 & P4 & P5 & P6 & P7 & P8). cbv zeta in *.
    apply (InvU_hupd o _ s s1 k (fun i => fold_left (fun x e => gstep e x) body i) HI Hm P1); auto.
    - intros i _. destruct (gfold_pres body i) as (A & B & D). cbv zeta in *. auto.
    - intros j hr' oi' Hj Hoi'. rewrite P1 in Hoi'.
      destruct (Hsh j hr' Hj) as [(-> & Hid & Hst)|(Hne & hr0 & Hj0 & Hid & Hst)].
      + rewrite (upd_nth_same _ _ _ _ Hoi) in Hoi'. inversion Hoi'; subst oi'.
        destruct (gfold_pres body oi) as (A & _). cbv zeta in A.
        destruct (u_hand _ _ HI k hr oi Hk Hoi) as (B1 & _).
        rewrite Hst, A, Hid. split; [exact B1|exact Hfin].
      + rewrite (upd_nth_other _ _ _ _ (not_eq_sym Hne)) in Hoi'.
        destruct (u_hand _ _ HI j hr0 oi' Hj0 Hoi') as (B1 & B2 & B3 & _).
        rewrite Hid. split; [exact B1|].
        destruct Hst as [Hst|(b & Hs0 & Hs1)]; [rewrite Hst; auto|].
        rewrite Hs0 in B2, B3. rewrite Hs1. cbn in *. destruct (oi_ph oi'); auto.
    - intros E. rewrite P4. exact E.
    - unfold pend_id. rewrite P5. reflexivity.
  Qed.

  Lemma for_k_plain : forall k body, forallb (for_k k) body = true -> forallb plain body = true.
  Proof.
    intros k body H. rewrite forallb_forall in *. intros e He. specialize (H e He).
    destruct e; cbn in *; try discriminate; reflexivity.
  Qed.

  Lemma handled_hshape : forall (s s1 : st) k hr st',
    handled s -> hshape k hr st' s s1 -> s_inflight s1 = s_inflight s -> handled s1.
  Proof.
    intros s s1 k hr st' Hh (Hm & _) Hi. apply (handled_sub s s1 Hh); [rewrite Hi; auto|exact Hm].
  Qed.

  Lemma top_hp_case : forall o (s s1 : st) k hs hr body st',
    Top o s -> h_stop (o_v o) = true ->
    nth_error (s_handlers s) k = Some hr -> forallb (for_k k) body = true ->
    hshape k hr st' s s1 ->
    (forall oi, nth_error (o_incs o) k = Some oi ->
       phase_ok (h_st hr) (oi_ph oi) -> done_ok (h_st hr) (oi_done oi) ->
       let i' := fold_left (fun x e => gstep e x) body oi in
       phase_ok st' (oi_ph i') /\ done_ok st' (oi_done i')) ->
    (forall id, In id (s_cancels s) -> In id (s_cancels s1)) ->
    s_next_h s1 = s_next_h s -> s_inflight s1 = s_inflight s -> s_timers s1 = s_timers s ->
    s_aborted s1 = s_aborted s -> s_now s1 = s_now s -> s_dropped s1 = s_dropped s ->
    s_fused s1 = s_fused s -> no_thr s1 ->
    Top (ostep lim o (@OHandlerPoll C k hs) (body ++ gauges s1)) s1.
  Proof.
    intros o s s1 k hs hr body st' HT EH Hk Hb Hsh Hfin Hcan Hn Hi Ht Hab Hw Hd Hf Hnt1.
    rewrite (ostep_nonpoll (@OHandlerPoll C k hs) o _ EH I).
    destruct (HT EH) as (HI & Hnt & Hr).
    assert (Hoi : exists oi, nth_error (o_incs o) k = Some oi).
    { assert (k < length (o_incs o)) by (rewrite (u_len _ _ HI); apply nth_error_Some; congruence).
      apply nth_error_Some in H. destruct (nth_error (o_incs o) k); [eauto|congruence]. }
    destruct Hoi as (oi & Hoi).
    destruct (u_hand _ _ HI k hr oi Hk Hoi) as (_ & Hph & Hdn & _).
    destruct (hevents_proj k body o oi Hb Hoi) as (P1 & P2 & P3 & P4 & P5 & P6 & P7 & P8). cbv zeta in *.
    destruct (top_tail (fold_left o_hevent body o) s1 body (for_k_plain _ _ Hb)) as (A & B).
    - intros _. split; [|split; [exact Hnt1|]].
      + eapply (InvU_hevents o s s1 k hr oi body st'); eauto.
      + intros Hc. rewrite P7 in Hc. eapply handled_hshape; eauto. exact (proj1 (Hr Hc)).
    - rewrite B. exact A.
  Qed.

  Lemma hshape_set : forall (s sx : st) k hr st',
    nth_error (s_handlers s) k = Some hr ->
    map h_h (s_handlers sx) = map h_h (s_handlers s) ->
    (forall j hr', nth_error (s_handlers sx) j = Some hr' ->
       exists hr0, nth_error (s_handlers s) j = Some hr0 /\ h_h hr' = h_h hr0 /\ h_id hr' = h_id hr0
                   /\ (h_st hr' = h_st hr0 \/ exists b, h_st hr0 = HWait b /\ h_st hr' = HPermit b)) ->
    forall s1, s_handlers s1 = set_hst k st' (s_handlers sx) -> hshape k hr st' s s1.
  Proof.
    intros s sx k hr st' Hk Hm Hrel s1 Hs1. split.
    - rewrite Hs1, set_hst_map_h. exact Hm.
    - intros j hr' Hj. rewrite Hs1 in Hj. destruct (Nat.eq_dec k j) as [->|Hne].
      + left. destruct (nth_error (s_handlers sx) j) as [hx|] eqn:Ex.
        * rewrite (set_hst_same _ _ _ _ Ex) in Hj. inversion Hj; subst hr'. cbn.
          destruct (Hrel j hx Ex) as (hr0 & H0 & _ & Hid & _). rewrite Hk in H0. inversion H0; subst hr0.
          repeat split; auto.
        * exfalso. assert (j < length (s_handlers sx)).
          { rewrite <- (map_length h_h), Hm, map_length. apply nth_error_Some. congruence. }
          apply nth_error_Some in H. congruence.
      + right. split; [auto|]. rewrite (set_hst_other _ _ _ _ Hne) in Hj.
        destruct (Hrel j hr' Hj) as (hr0 & H0 & _ & Hid & Hst). eauto.
  Qed.

  Lemma hrel_refl : forall (s : st) j hr', nth_error (s_handlers s) j = Some hr' ->
    exists hr0, nth_error (s_handlers s) j = Some hr0 /\ h_h hr' = h_h hr0 /\ h_id hr' = h_id hr0
                /\ (h_st hr' = h_st hr0 \/ exists b, h_st hr0 = HWait b /\ h_st hr' = HPermit b).
  Proof. intros. exists hr'. auto. Qed.

  Lemma no_thr_push : forall (s : st) id b, no_thr s -> b <> BThrottle -> 
    forall m, In m (s_respq s ++ [mkresp id b]) -> resp_body m <> BThrottle.
  Proof.
    intros s id b Hnt Hb m Hm. apply in_app_or in Hm. destruct Hm as [Hm|[<-|[]]]; [exact (Hnt m Hm)|exact Hb].
  Qed.

  Lemma top_handler_poll : forall o (s : st) k hs s' l,
    Top o s -> hb_ok s -> step tp ctl tfuel c s (OHandlerPoll k hs) = (s', l) ->
    Top (ostep lim o (@OHandlerPoll C k hs) l) s'.
  Proof.
    intros o s k hs s' l HT Hhb H. unfold step in H.
    destruct (execute_poll k hs s) as [s1 body] eqn:EE. injection H as <- <-.
    destruct (h_stop (o_v o)) eqn:EH; [|unfold ostep; rewrite EH; cbn [negb]; intros Hf; congruence].
    destruct (HT EH) as (HI & Hnt & Hr).
    (* nothing happens *)
    assert (Hnop : s1 = s -> body = [] ->
              Top (ostep lim o (@OHandlerPoll C k hs) (body ++ gauges s1)) s1).
    { intros -> ->. rewrite (ostep_nonpoll (@OHandlerPoll C k hs) o _ EH I).
      destruct (top_tail o s [] eq_refl) as (A & B).
      - intros _. split; [exact HI|split; [exact Hnt|intros Hc; exact (proj1 (Hr Hc))]].
      - cbn [app] in *. rewrite B. exact A. }
    unfold execute_poll in EE.
    destruct (nth_error (s_handlers s) k) as [hr|] eqn:Hk; [|injection EE as <- <-; apply Hnop; reflexivity].
    destruct (add_permit_shape s) as (P1 & P2 & P3 & P4 & P5 & P6 & P7 & P8 & P9 & P10 & P11 & P12 & P13).
    cbv zeta in *.
    assert (Hrel_s : forall j hr', nth_error (s_handlers s) j = Some hr' ->
               exists hr0, nth_error (s_handlers s) j = Some hr0 /\ h_h hr' = h_h hr0 /\ h_id hr' = h_id hr0
                 /\ (h_st hr' = h_st hr0 \/ exists b, h_st hr0 = HWait b /\ h_st hr' = HPermit b))
      by (apply hrel_refl).
    assert (Hrel_p : forall j hr', nth_error (s_handlers (add_permit s)) j = Some hr' ->
               exists hr0, nth_error (s_handlers s) j = Some hr0 /\ h_h hr' = h_h hr0 /\ h_id hr' = h_id hr0
                 /\ (h_st hr' = h_st hr0 \/ exists b, h_st hr0 = HWait b /\ h_st hr' = HPermit b)).
    { intros j hr' Hj. destruct (P2 j hr' Hj) as (hr0 & A & B & D & E). eauto. }
    (* every real step goes through top_hp_case *)
    assert (Hcase : forall body0 (s0 : st) st',
              forallb (for_k k) body0 = true -> hshape k hr st' s s0 ->
              (forall oi, phase_ok (h_st hr) (oi_ph oi) -> done_ok (h_st hr) (oi_done oi) ->
                 let i' := fold_left (fun x e => gstep e x) body0 oi in
                 phase_ok st' (oi_ph i') /\ done_ok st' (oi_done i')) ->
              s_cancels s0 = s_cancels s -> s_next_h s0 = s_next_h s -> s_inflight s0 = s_inflight s ->
              s_timers s0 = s_timers s -> s_aborted s0 = s_aborted s -> s_now s0 = s_now s ->
              s_dropped s0 = s_dropped s -> s_fused s0 = s_fused s -> no_thr s0 ->
              Top (ostep lim o (@OHandlerPoll C k hs) (body0 ++ gauges s0)) s0).
    { intros body0 s0 st' Hb Hsh Hfin Hc Hn Hi Ht Hab Hw Hd Hf Hnt0.
      eapply (top_hp_case o s s0 k hs hr body0 st'); eauto.
      intros id Hin. rewrite Hc. exact Hin. }
    destruct (h_st hr) eqn:Est.
    - (* HYielded *)
      destruct (existsb (Nat.eqb (h_h hr)) (s_aborted s)).
      + injection EE as <- <-.
        apply (Hcase [OExecReady k] _ HDone); try reflexivity; try exact Hnt; try (sproj; exact ED).
        * cbn. rewrite Nat.eqb_refl. reflexivity.
        * eapply (hshape_set s s); eauto.
        * intros oi _ _. cbn. auto.
      + destruct hs as [|v|].
        * injection EE as <- <-.
          apply (Hcase [OHPolled k; OExecPending k] _ HRunning); try reflexivity; try exact Hnt; try (sproj; exact ED).
          -- cbn. rewrite Nat.eqb_refl. reflexivity.
          -- eapply (hshape_set s s); eauto.
          -- intros oi _ Hd0. cbn in *. auto.
        * destruct (s_dropped s) eqn:ED; [|destruct (s_permits s) as [|p] eqn:EPm]; injection EE as <- <-.
          -- apply (Hcase [OHPolled k; OHDone k (BOk v); OExecReady k] _ HDone); try reflexivity; try exact Hnt; try (sproj; exact ED).
             ++ cbn. rewrite Nat.eqb_refl. reflexivity.
             ++ eapply (hshape_set s s); eauto.
             ++ intros oi _ _. cbn. auto.
          -- apply (Hcase [OHPolled k; OHDone k (BOk v); OExecPending k] _ (HWait (BOk v))); try reflexivity; try exact Hnt; try (sproj; exact ED).
             ++ cbn. rewrite Nat.eqb_refl. reflexivity.
             ++ eapply (hshape_set s s); eauto.
             ++ intros oi _ _. cbn. auto.
          -- apply (Hcase [OHPolled k; OHDone k (BOk v); OExecReady k] _ HDone); try reflexivity; try (sproj; exact ED).
             ++ cbn. rewrite Nat.eqb_refl. reflexivity.
             ++ eapply (hshape_set s s); eauto.
             ++ intros oi _ _. cbn. auto.
             ++ intros m Hm. sproj. eapply no_thr_push; eauto. discriminate.
        * destruct (s_dropped s) eqn:ED; [|destruct (s_permits s) as [|p] eqn:EPm]; injection EE as <- <-.
          -- apply (Hcase [OHPolled k; OHDone k BErr; OExecReady k] _ HDone); try reflexivity; try exact Hnt; try (sproj; exact ED).
             ++ cbn. rewrite Nat.eqb_refl. reflexivity.
             ++ eapply (hshape_set s s); eauto.
             ++ intros oi _ _. cbn. auto.
          -- apply (Hcase [OHPolled k; OHDone k BErr; OExecPending k] _ (HWait BErr)); try reflexivity; try exact Hnt; try (sproj; exact ED).
             ++ cbn. rewrite Nat.eqb_refl. reflexivity.
             ++ eapply (hshape_set s s); eauto.
             ++ intros oi _ _. cbn. auto.
          -- apply (Hcase [OHPolled k; OHDone k BErr; OExecReady k] _ HDone); try reflexivity; try (sproj; exact ED).
             ++ cbn. rewrite Nat.eqb_refl. reflexivity.
             ++ eapply (hshape_set s s); eauto.
             ++ intros oi _ _. cbn. auto.
             ++ intros m Hm. sproj. eapply no_thr_push; eauto. discriminate.
    - (* HRunning *)
      destruct (existsb (Nat.eqb (h_h hr)) (s_aborted s)).
      + injection EE as <- <-.
        apply (Hcase [OHDropped k; OExecReady k] _ HDone); try reflexivity; try exact Hnt; try (sproj; exact ED).
        * cbn. rewrite Nat.eqb_refl. reflexivity.
        * eapply (hshape_set s s); eauto.
        * intros oi _ _. cbn. auto.
      + destruct hs as [|v|].
        * injection EE as <- <-.
          apply (Hcase [OHPolled k; OExecPending k] _ HRunning); try reflexivity; try exact Hnt; try (sproj; exact ED).
          -- cbn. rewrite Nat.eqb_refl. reflexivity.
          -- eapply (hshape_set s s); eauto.
          -- intros oi _ Hd0. cbn in *. auto.
        * destruct (s_dropped s) eqn:ED; [|destruct (s_permits s) as [|p] eqn:EPm]; injection EE as <- <-.
          -- apply (Hcase [OHPolled k; OHDone k (BOk v); OExecReady k] _ HDone); try reflexivity; try exact Hnt; try (sproj; exact ED).
             ++ cbn. rewrite Nat.eqb_refl. reflexivity.
             ++ eapply (hshape_set s s); eauto.
             ++ intros oi _ _. cbn. auto.
          -- apply (Hcase [OHPolled k; OHDone k (BOk v); OExecPending k] _ (HWait (BOk v))); try reflexivity; try exact Hnt; try (sproj; exact ED).
             ++ cbn. rewrite Nat.eqb_refl. reflexivity.
             ++ eapply (hshape_set s s); eauto.
             ++ intros oi _ _. cbn. auto.
          -- apply (Hcase [OHPolled k; OHDone k (BOk v); OExecReady k] _ HDone); try reflexivity; try (sproj; exact ED).
             ++ cbn. rewrite Nat.eqb_refl. reflexivity.
             ++ eapply (hshape_set s s); eauto.
             ++ intros oi _ _. cbn. auto.
             ++ intros m Hm. sproj. eapply no_thr_push; eauto. discriminate.
        * destruct (s_dropped s) eqn:ED; [|destruct (s_permits s) as [|p] eqn:EPm]; injection EE as <- <-.
          -- apply (Hcase [OHPolled k; OHDone k BErr; OExecReady k] _ HDone); try reflexivity; try exact Hnt; try (sproj; exact ED).
             ++ cbn. rewrite Nat.eqb_refl. reflexivity.
             ++ eapply (hshape_set s s); eauto.
             ++ intros oi _ _. cbn. auto.
          -- apply (Hcase [OHPolled k; OHDone k BErr; OExecPending k] _ (HWait BErr)); try reflexivity; try exact Hnt; try (sproj; exact ED).
             ++ cbn. rewrite Nat.eqb_refl. reflexivity.
             ++ eapply (hshape_set s s); eauto.
             ++ intros oi _ _. cbn. auto.
          -- apply (Hcase [OHPolled k; OHDone k BErr; OExecReady k] _ HDone); try reflexivity; try (sproj; exact ED).
             ++ cbn. rewrite Nat.eqb_refl. reflexivity.
             ++ eapply (hshape_set s s); eauto.
             ++ intros oi _ _. cbn. auto.
             ++ intros m Hm. sproj. eapply no_thr_push; eauto. discriminate.
    - (* HWait *)
      destruct (existsb (Nat.eqb (h_h hr)) (s_aborted s)); [|destruct (s_dropped s) eqn:ED]; injection EE as <- <-.
      + apply (Hcase [OExecReady k] _ HDone); try reflexivity; try exact Hnt; try (sproj; exact ED).
        * cbn. rewrite Nat.eqb_refl. reflexivity.
        * eapply (hshape_set s s); eauto.
        * intros oi _ _. cbn. auto.
      + apply (Hcase [OExecReady k] _ HDone); try reflexivity; try exact Hnt; try (sproj; exact ED).
        * cbn. rewrite Nat.eqb_refl. reflexivity.
        * eapply (hshape_set s s); eauto.
        * intros oi _ _. cbn. auto.
      + apply (Hcase [OExecPending k] s (HWait b)); try reflexivity; try exact Hnt; try (sproj; exact ED).
        * cbn. rewrite Nat.eqb_refl. reflexivity.
        * split; [reflexivity|]. intros j hr' Hj. destruct (Nat.eq_dec j k) as [->|Hne].
          -- left. rewrite Hk in Hj. inversion Hj; subst hr'. auto.
          -- right. split; [exact Hne|]. exists hr'. auto.
        * intros oi Hp Hd0. cbn. auto.
    - (* HPermit *)
      destruct (existsb (Nat.eqb (h_h hr)) (s_aborted s)); [|destruct (s_dropped s) eqn:ED]; injection EE as <- <-.
      + apply (Hcase [OExecReady k] _ HDone); sproj; try reflexivity; try congruence.
        * cbn. rewrite Nat.eqb_refl. reflexivity.
        * eapply (hshape_set s (add_permit s)); eauto.
        * intros oi _ _. cbn. auto.
        * intros m Hm. apply Hnt. rewrite <- P11. exact Hm.
      + apply (Hcase [OExecReady k] _ HDone); try reflexivity; try exact Hnt; try (sproj; exact ED).
        * cbn. rewrite Nat.eqb_refl. reflexivity.
        * eapply (hshape_set s s); eauto.
        * intros oi _ _. cbn. auto.
      + apply (Hcase [OExecReady k] _ HDone); try reflexivity; try (sproj; exact ED).
        * cbn. rewrite Nat.eqb_refl. reflexivity.
        * eapply (hshape_set s s); eauto.
        * intros oi _ _. cbn. auto.
        * intros m Hm. sproj. eapply no_thr_push; eauto.
          apply (Hhb hr b); [eapply nth_error_In; eauto|right; exact Est].
    - injection EE as <- <-. apply Hnop; reflexivity.
    - injection EE as <- <-. apply Hnop; reflexivity.
  Qed.

  (* ---- the application drops an execute() future or an unexecuted request ---------------------- *)
  Definition gdrop (dropped : bool) (i : oinc) : oinc :=
    set_ph (if dropped then i else match oi_wire i with WOpen => set_wire i WMaybe | _ => i end) PEnded.

  Lemma guard_dropped_proj : forall k need o oi,
    nth_error (o_incs o) k = Some oi ->
    (match oi_ph oi, need with PFresh, PFresh | PStarted, PStarted => true | _, _ => false end) = true ->
    let o' := guard_dropped k need o in
    o_incs o' = upd_nth k (gdrop (o_dropped o)) (o_incs o)
    /\ o_now o' = o_now o /\ o_dropped o' = o_dropped o /\ o_eof o' = o_eof o /\ o_pend o' = o_pend o
    /\ o_gauge o' = o_gauge o /\ c_err (o_v o') = c_err (o_v o) /\ h_stop (o_v o') = h_stop (o_v o).
  Proof.
    intros k need o oi Hk Hsame. cbv zeta. unfold guard_dropped, gdrop. rewrite Hk, Hsame.
    destruct (o_dropped o) eqn:EO; cbn [negb andb]; oproj; rewrite ?EO; repeat split; reflexivity.
  Qed.

  Lemma guard_dropped_noop : forall k need o oi,
    nth_error (o_incs o) k = Some oi ->
    (match oi_ph oi, need with PFresh, PFresh | PStarted, PStarted => true | _, _ => false end) = false ->
    guard_dropped k need o = o.
  Proof. intros k need o oi Hk Hs. unfold guard_dropped. rewrite Hk, Hs. reflexivity. Qed.

  (* the common part: incarnation k ends, its guard queues a server-side cancel *)
  Lemma top_drop_case : forall o (s s1 : st) (p : op C) k need hr body,
    Top o s -> h_stop (o_v o) = true ->
    match p with ODropHandler k' | ODropYielded k' => k' = k | _ => False end ->
    (match p with ODropHandler _ => need = PStarted | _ => need = PFresh end) ->
    nth_error (s_handlers s) k = Some hr ->
    (match need with PStarted => match h_st hr with HRunning | HWait _ | HPermit _ => True | _ => False end
                | _ => h_st hr = HYielded end) ->
    forallb (for_k k) body = true ->
    (forall i, fold_left (fun x e => gstep e x) body i = i) ->
    hshape k hr HGone s s1 ->
    s_cancels s1 = (if s_dropped s then s_cancels s else s_cancels s ++ [h_id hr]) ->
    s_next_h s1 = s_next_h s -> s_inflight s1 = s_inflight s -> s_timers s1 = s_timers s ->
    s_aborted s1 = s_aborted s -> s_now s1 = s_now s -> s_dropped s1 = s_dropped s ->
    s_fused s1 = s_fused s -> s_respq s1 = s_respq s ->
    Top (ostep lim o p (body ++ gauges s1)) s1.
  Proof.
    intros o s s1 p k need hr body HT EH Hp Hneed Hk Hst Hb Hbid Hsh Hcan Hn Hi Ht Hab Hw Hd Hf Hq.
    destruct (HT EH) as (HI & Hnt & Hr).
    assert (Hoi : exists oi, nth_error (o_incs o) k = Some oi).
    { assert (k < length (o_incs o)) by (rewrite (u_len _ _ HI); apply nth_error_Some; congruence).
      apply nth_error_Some in H. destruct (nth_error (o_incs o) k); [eauto|congruence]. }
    destruct Hoi as (oi & Hoi).
    destruct (u_hand _ _ HI k hr oi Hk Hoi) as (Hid & Hph & Hdn & _).
    destruct (hevents_proj k body o oi Hb Hoi) as (P1 & P2 & P3 & P4 & P5 & P6 & P7 & P8). cbv zeta in *.
    assert (P1' : o_incs (fold_left o_hevent body o) = o_incs o).
    { rewrite P1. rewrite <- (upd_nth_id k (o_incs o)) at 2.
      clear -Hbid. generalize (o_incs o). intros l. revert k. induction l; destruct k; cbn; auto.
      - rewrite Hbid. reflexivity.
      - f_equal. apply IHl. }
    set (ob := fold_left o_hevent body o) in *.
    assert (Hsame : (match oi_ph oi, need with PFresh, PFresh | PStarted, PStarted => true | _, _ => false end) = true).
    { assert (need <> PEnded) by (destruct p; try contradiction; subst need; discriminate).
      destruct need; try congruence; destruct (h_st hr); cbn in Hst; try contradiction; try discriminate;
        destruct (oi_ph oi); cbn in Hph; try contradiction; reflexivity. }
    assert (Hoib : nth_error (o_incs ob) k = Some oi) by (rewrite P1'; exact Hoi).
    destruct (guard_dropped_proj k need ob oi Hoib Hsame) as (G1 & G2 & G3 & G4 & G5 & G6 & G7 & G8). cbv zeta in *.
    assert (HIg : InvU (guard_dropped k need ob) s1).
    { destruct Hsh as (Hm & Hshape).
      apply (InvU_hupd o _ s s1 k (gdrop (o_dropped o)) HI Hm).
      - rewrite G1, P1', P3. reflexivity.
      - intros i Hi0. rewrite Hoi in Hi0. inversion Hi0; subst i. unfold gdrop.
        destruct (o_dropped o) eqn:EO; cbn; [repeat split; auto|].
        destruct (oi_wire oi) eqn:EW; cbn; rewrite ?EW; repeat split; auto.
        right. repeat split; auto. rewrite Hcan. rewrite <- (u_dropped _ _ HI), EO.
        apply in_or_app. right. left. symmetry. exact Hid.
      - intros j hr' oi' Hj Hoi'. rewrite G1, P1', P3 in Hoi'.
        destruct (Hshape j hr' Hj) as [(-> & Hid' & Hst')|(Hne & hr0 & Hj0 & Hid' & Hst')].
        + rewrite (upd_nth_same _ _ _ _ Hoi) in Hoi'. inversion Hoi'; subst oi'. rewrite Hst', Hid'.
          unfold gdrop. destruct (o_dropped o); cbn; [auto|]. destruct (oi_wire oi); cbn; auto.
        + rewrite (upd_nth_other _ _ _ _ (not_eq_sym Hne)) in Hoi'.
          destruct (u_hand _ _ HI j hr0 oi' Hj0 Hoi') as (B1 & B2 & B3 & _).
          rewrite Hid'. split; [exact B1|].
          destruct Hst' as [Hst'|(b & Hs0 & Hs1)]; [rewrite Hst'; auto|].
          rewrite Hs0 in B2, B3. rewrite Hs1. cbn in *. destruct (oi_ph oi'); auto.
      - intros id Hin. rewrite Hcan. destruct (s_dropped s); [exact Hin|apply in_or_app; left; exact Hin].
      - rewrite G2, P2. reflexivity.
      - rewrite G3, P3. reflexivity.
      - intros E. rewrite G4, P4. exact E.
      - unfold pend_id. rewrite G5, P5. reflexivity.
      - rewrite G7, P7. reflexivity.
      - exact Hn.
      - exact Hi.
      - exact Ht.
      - exact Hab.
      - exact Hw.
      - exact Hd.
      - exact Hf. }
    assert (Hpl : forallb plain body = true) by (eapply for_k_plain; eauto).
    assert (Hfinal : Top (otail (guard_dropped k need ob) (snd (split_gauges (body ++ gauges s1)))) s1
                     /\ fst (split_gauges (body ++ gauges s1)) = body).
    { apply top_tail; [exact Hpl|]. intros _. split; [exact HIg|split].
      - intros m Hm. apply Hnt. rewrite <- Hq. exact Hm.
      - intros Hc. rewrite G7, P7 in Hc. eapply handled_hshape; eauto. exact (proj1 (Hr Hc)). }
    destruct Hfinal as (A & B).
    destruct p as [|x|k' hs'|k'|k'| |dt]; try contradiction; subst.
    - rewrite (ostep_nonpoll (@ODropHandler C k) o _ EH I). rewrite B. exact A.
    - rewrite (ostep_nonpoll (@ODropYielded C k) o _ EH I). rewrite B. exact A.
  Qed.

  Lemma top_drop_noop : forall o (s : st) (p : op C) k need,
    Top o s -> h_stop (o_v o) = true ->
    match p with ODropHandler k' | ODropYielded k' => k' = k | _ => False end ->
    (match p with ODropHandler _ => need = PStarted | _ => need = PFresh end) ->
    (forall hr, nth_error (s_handlers s) k = Some hr ->
       match need with PStarted => match h_st hr with HRunning | HWait _ | HPermit _ => False | _ => True end
                  | _ => h_st hr <> HYielded end) ->
    Top (ostep lim o p ([] ++ gauges s)) s.
  Proof.
    intros o s p k need HT EH Hp Hneed Hno.
    destruct (HT EH) as (HI & Hnt & Hr).
    assert (Hg : guard_dropped k need o = o).
    { unfold guard_dropped. destruct (nth_error (o_incs o) k) as [oi|] eqn:Hoi; [|reflexivity].
      assert (Hlt : k < length (s_handlers s)) by (rewrite <- (u_len _ _ HI); apply nth_error_Some; congruence).
      apply nth_error_Some in Hlt. destruct (nth_error (s_handlers s) k) as [hr|] eqn:Hk; [|congruence].
      destruct (u_hand _ _ HI k hr oi Hk Hoi) as (_ & Hph & _). specialize (Hno hr eq_refl).
      assert (Hs : (match oi_ph oi, need with PFresh, PFresh | PStarted, PStarted => true | _, _ => false end) = false).
      { destruct p; try contradiction; subst need; destruct (h_st hr); cbn in *; try contradiction; try congruence;
          destruct (oi_ph oi); cbn in *; try contradiction; reflexivity. }
      rewrite Hs. reflexivity. }
    destruct (top_tail o s [] eq_refl) as (A & B).
    - intros _. split; [exact HI|split; [exact Hnt|intros Hc; exact (proj1 (Hr Hc))]].
    - destruct p as [|x|k' hs'|k'|k'| |dt]; try contradiction; subst.
      + rewrite (ostep_nonpoll (@ODropHandler C k) o _ EH I). rewrite B. cbn [fold_left]. rewrite Hg. exact A.
      + rewrite (ostep_nonpoll (@ODropYielded C k) o _ EH I). rewrite B. cbn [fold_left]. rewrite Hg. exact A.
  Qed.

  Lemma top_drop_handler : forall o (s : st) k s' l,
    Top o s -> step tp ctl tfuel c s (ODropHandler k) = (s', l) -> Top (ostep lim o (@ODropHandler C k) l) s'.
  Proof.
    intros o s k s' l HT H. unfold step in H.
    destruct (drop_handler k s) as [s1 body] eqn:EE. injection H as <- <-.
    destruct (h_stop (o_v o)) eqn:EH; [|unfold ostep; rewrite EH; cbn [negb]; intros Hf; congruence].
    unfold drop_handler in EE.
    destruct (nth_error (s_handlers s) k) as [hr|] eqn:Hk.
    2: { injection EE as <- <-. apply (top_drop_noop o s (@ODropHandler C k) k PStarted HT EH eq_refl eq_refl).
         intros hr Hhr. congruence. }
    destruct (add_permit_shape s) as (P1 & P2 & P3 & P4 & P5 & P6 & P7 & P8 & P9 & P10 & P11 & P12 & P13).
    cbv zeta in *.
    assert (Hrel_p : forall j hr', nth_error (s_handlers (add_permit s)) j = Some hr' ->
               exists hr0, nth_error (s_handlers s) j = Some hr0 /\ h_h hr' = h_h hr0 /\ h_id hr' = h_id hr0
                 /\ (h_st hr' = h_st hr0 \/ exists b, h_st hr0 = HWait b /\ h_st hr' = HPermit b)).
    { intros j hr' Hj. destruct (P2 j hr' Hj) as (hr0 & A & B & D & E). eauto. }
    assert (Hnoop : match h_st hr with HRunning | HWait _ | HPermit _ => False | _ => True end ->
              s1 = s -> body = [] -> Top (ostep lim o (@ODropHandler C k) (body ++ gauges s1)) s1).
    { intros Hn -> ->. apply (top_drop_noop o s (@ODropHandler C k) k PStarted HT EH eq_refl eq_refl).
      intros hr0 Hhr0. rewrite Hk in Hhr0. inversion Hhr0; subst hr0. exact Hn. }
    unfold guard_cancel in EE.
    destruct (h_st hr) eqn:Est; try (injection EE as <- <-; apply Hnoop; auto; fail).
    - (* HRunning *)
      injection EE as <- <-. sproj.
      apply (top_drop_case o s _ (@ODropHandler C k) k PStarted hr [OHDropped k] HT EH eq_refl eq_refl Hk).
      + rewrite Est. exact I.
      + cbn. rewrite Nat.eqb_refl. reflexivity.
      + intros i. reflexivity.
      + destruct (s_dropped s); eapply (hshape_set s s); eauto using hrel_refl.
      + destruct (s_dropped s); reflexivity.
      + destruct (s_dropped s); reflexivity.
      + destruct (s_dropped s); reflexivity.
      + destruct (s_dropped s); reflexivity.
      + destruct (s_dropped s); reflexivity.
      + destruct (s_dropped s); reflexivity.
      + destruct (s_dropped s) eqn:ED; sproj; rewrite ?ED; reflexivity.
      + destruct (s_dropped s); reflexivity.
      + destruct (s_dropped s); reflexivity.
    - (* HWait *)
      injection EE as <- <-. sproj.
      apply (top_drop_case o s _ (@ODropHandler C k) k PStarted hr [] HT EH eq_refl eq_refl Hk).
      + rewrite Est. exact I.
      + reflexivity.
      + intros i. reflexivity.
      + destruct (s_dropped s); eapply (hshape_set s s); eauto using hrel_refl.
      + destruct (s_dropped s); reflexivity.
      + destruct (s_dropped s); reflexivity.
      + destruct (s_dropped s); reflexivity.
      + destruct (s_dropped s); reflexivity.
      + destruct (s_dropped s); reflexivity.
      + destruct (s_dropped s); reflexivity.
      + destruct (s_dropped s) eqn:ED; sproj; rewrite ?ED; reflexivity.
      + destruct (s_dropped s); reflexivity.
      + destruct (s_dropped s); reflexivity.
    - (* HPermit *)
      injection EE as <- <-. sproj.
      apply (top_drop_case o s _ (@ODropHandler C k) k PStarted hr [] HT EH eq_refl eq_refl Hk).
      + rewrite Est. exact I.
      + reflexivity.
      + intros i. reflexivity.
      + destruct (s_dropped (add_permit s)); eapply (hshape_set s (add_permit s)); eauto.
      + rewrite P9. destruct (s_dropped s); sproj; rewrite ?P7; reflexivity.
      + rewrite P9. destruct (s_dropped s); sproj; rewrite ?P3; reflexivity.
      + rewrite P9. destruct (s_dropped s); sproj; rewrite ?P4; reflexivity.
      + rewrite P9. destruct (s_dropped s); sproj; rewrite ?P5; reflexivity.
      + rewrite P9. destruct (s_dropped s); sproj; rewrite ?P6; reflexivity.
      + rewrite P9. destruct (s_dropped s); sproj; rewrite ?P8; reflexivity.
      + rewrite P9. destruct (s_dropped s) eqn:ED; sproj; rewrite ?P9, ?ED; reflexivity.
      + rewrite P9. destruct (s_dropped s); sproj; rewrite ?P10; reflexivity.
      + rewrite P9. destruct (s_dropped s); sproj; rewrite ?P11; reflexivity.
  Qed.

  Lemma top_drop_yielded : forall o (s : st) k s' l,
    Top o s -> step tp ctl tfuel c s (ODropYielded k) = (s', l) -> Top (ostep lim o (@ODropYielded C k) l) s'.
  Proof.
    intros o s k s' l HT H. unfold step in H.
    destruct (drop_yielded k s) as [s1 body] eqn:EE. injection H as <- <-.
    destruct (h_stop (o_v o)) eqn:EH; [|unfold ostep; rewrite EH; cbn [negb]; intros Hf; congruence].
    unfold drop_yielded in EE.
    destruct (nth_error (s_handlers s) k) as [[h i stt]|] eqn:Hk.
    2: { injection EE as <- <-. apply (top_drop_noop o s (@ODropYielded C k) k PFresh HT EH eq_refl eq_refl).
         intros hr Hhr. congruence. }
    assert (Hnoop : stt <> HYielded -> s1 = s -> body = [] ->
              Top (ostep lim o (@ODropYielded C k) (body ++ gauges s1)) s1).
    { intros Hn -> ->. apply (top_drop_noop o s (@ODropYielded C k) k PFresh HT EH eq_refl eq_refl).
      intros hr0 Hhr0. rewrite Hk in Hhr0. inversion Hhr0; subst hr0. exact Hn. }
    destruct stt; try (injection EE as <- <-; apply Hnoop; auto; discriminate).
    unfold guard_cancel in EE. injection EE as <- <-. sproj.
    apply (top_drop_case o s _ (@ODropYielded C k) k PFresh _ [] HT EH eq_refl eq_refl Hk).
    - reflexivity.
    - reflexivity.
    - intros i0. reflexivity.
    - destruct (s_dropped s); eapply (hshape_set s s); eauto using hrel_refl.
    - destruct (s_dropped s); reflexivity.
    - destruct (s_dropped s); reflexivity.
    - destruct (s_dropped s); reflexivity.
    - destruct (s_dropped s); reflexivity.
    - destruct (s_dropped s); reflexivity.
    - destruct (s_dropped s); reflexivity.
    - destruct (s_dropped s) eqn:ED; sproj; rewrite ?ED; reflexivity.
    - destruct (s_dropped s); reflexivity.
    - destruct (s_dropped s); reflexivity.
  Qed.

  (* ---- the no-throttle-body invariant of handler states, and whole runs -------------------------- *)
  Definition st_safe (x : hstate) : Prop :=
    forall b, (x = HWait b \/ x = HPermit b) -> b <> BThrottle.

  Lemma hb_ok_handlers : forall (s s' : st), hb_ok s ->
    (forall hr', In hr' (s_handlers s') -> In hr' (s_handlers s) \/ st_safe (h_st hr')) -> hb_ok s'.
  Proof.
    intros s s' Hb H hr' b Hin Hst. destruct (H hr' Hin) as [Hin0|Hs]; [exact (Hb hr' b Hin0 Hst)|exact (Hs b Hst)].
  Qed.

  Lemma in_set_hst : forall k x l hr', In hr' (set_hst k x l) -> In hr' l \/ h_st hr' = x.
  Proof.
    intros k x l; revert k; induction l as [|y l IH]; destruct k; cbn; intros hr' H; try tauto.
    - destruct H as [<-|H]; [right; reflexivity|left; right; exact H].
    - destruct H as [<-|H]; [left; left; reflexivity|]. destruct (IH _ _ H); [left; right; assumption|right; assumption].
  Qed.

  Lemma hb_ok_add_permit : forall (s : st), hb_ok s -> hb_ok (add_permit s).
  Proof.
    intros s Hb. apply (hb_ok_hrel s); [exact Hb|].
    destruct (add_permit_shape s) as (_ & A2 & _). cbv zeta in A2.
    intros j hr' Hj. destruct (A2 j hr' Hj) as (hr & Hhr & _ & _ & E). eauto.
  Qed.

  Lemma hb_ok_set : forall (sx s1 : st) k x, hb_ok sx -> st_safe x ->
    s_handlers s1 = set_hst k x (s_handlers sx) -> hb_ok s1.
  Proof.
    intros sx s1 k x Hb Hs Hh. apply (hb_ok_handlers sx s1 Hb). intros hr' Hin. rewrite Hh in Hin.
    destruct (in_set_hst _ _ _ _ Hin) as [H|H]; [left; exact H|right; rewrite H; exact Hs].
  Qed.

  Lemma hb_ok_step : forall (s : st) p, hb_ok s -> hb_ok (fst (step tp ctl tfuel c s p)).
  Proof.
    intros s p Hb. unfold step.
    assert (S1 : st_safe HDone) by (intros b [H|H]; discriminate).
    assert (S2 : st_safe HGone) by (intros b [H|H]; discriminate).
    assert (S3 : st_safe HRunning) by (intros b [H|H]; discriminate).
    assert (S4 : forall v, st_safe (HWait (BOk v))) by (intros v b [H|H]; inversion H; discriminate).
    assert (S5 : st_safe (HWait BErr)) by (intros b [H|H]; inversion H; discriminate).
    assert (S6 : st_safe HYielded) by (intros b [H|H]; discriminate).
    destruct p as [|x|k hs|k|k| |dt].
    - unfold poll_requests. destruct (s_dropped s); [exact Hb|].
      destruct (requests_poll_next tp c (poll_fuel tfuel s) (set_log s [])) as [r s2] eqn:ER.
      pose proof (hrel_requests tp _ _ _ _ _ ER) as HR.
      assert (Hb2 : hb_ok s2) by (eapply hb_ok_hrel; [exact Hb|exact HR]).
      destruct r; cbn [fst]; try exact Hb2.
      apply (hb_ok_handlers s2); [exact Hb2|]. sproj. intros hr' Hin. apply in_app_or in Hin.
      destruct Hin as [Hin|[<-|[]]]; [left; exact Hin|right; exact S6].
    - exact Hb.
    - unfold execute_poll. destruct (nth_error (s_handlers s) k) as [hr|]; [|exact Hb].
      pose proof (hb_ok_add_permit s Hb) as Hbp.
      destruct (h_st hr); try exact Hb;
        destruct (existsb (Nat.eqb (h_h hr)) (s_aborted s)); try destruct hs; try destruct (s_dropped s);
        try destruct (s_permits s); cbn [fst]; try exact Hb;
        try (eapply (hb_ok_set s); [exact Hb| |sproj; reflexivity]; auto; fail);
        try (eapply (hb_ok_set (add_permit s)); [exact Hbp| |sproj; reflexivity]; auto; fail).
    - unfold drop_handler, guard_cancel. destruct (nth_error (s_handlers s) k) as [hr|]; [|exact Hb].
      pose proof (hb_ok_add_permit s Hb) as Hbp.
      destruct (h_st hr); cbn [fst]; try exact Hb; sproj.
      + destruct (s_dropped s); eapply (hb_ok_set s); try exact Hb; try exact S2; sproj; reflexivity.
      + destruct (s_dropped s); eapply (hb_ok_set s); try exact Hb; try exact S2; sproj; reflexivity.
      + destruct (s_dropped (add_permit s)); eapply (hb_ok_set (add_permit s)); try exact Hbp; try exact S2; sproj; reflexivity.
    - unfold drop_yielded, guard_cancel. destruct (nth_error (s_handlers s) k) as [[h i stt]|]; [|exact Hb].
      destruct stt; cbn [fst]; try exact Hb; sproj.
      destruct (s_dropped s); eapply (hb_ok_set s); try exact Hb; try exact S2; sproj; reflexivity.
    - cbn [fst]. unfold drop_channel. destruct (s_dropped s); exact Hb.
    - exact Hb.
  Qed.

  Lemma top_step : forall o (s : st) p s' l,
    Top o s -> hb_ok s -> step tp ctl tfuel c s p = (s', l) -> Top (ostep lim o p l) s'.
  Proof.
    intros o s p s' l HT Hb H. destruct p as [|x|k hs|k|k| |dt].
    - eapply top_poll; eauto.
    - eapply top_ctl; eauto.
    - eapply top_handler_poll; eauto.
    - eapply top_drop_handler; eauto.
    - eapply top_drop_yielded; eauto.
    - eapply top_drop_channel; eauto.
    - eapply top_advance; eauto.
  Qed.

  (* the invariant holds along every run *)
  Theorem run_top : forall ops o (s : st),
    Top o s -> hb_ok s ->
    let r := run_from tp ctl tfuel c s ops in
    Top (orun lim o ops (fst r)) (snd r) /\ hb_ok (snd r).
  Proof.
    induction ops as [|p ops IH]; intros o s HT Hb; cbn [run_from]; [cbn; auto|].
    destruct (step tp ctl tfuel c s p) as [s1 l] eqn:ES.
    pose proof (top_step o s p s1 l HT Hb ES) as HT1.
    pose proof (hb_ok_step s p Hb) as Hb1. rewrite ES in Hb1. cbn [fst] in Hb1.
    specialize (IH (ostep lim o p l) s1 HT1 Hb1). cbv zeta in IH.
    destruct (run_from tp ctl tfuel c s1 ops) as [ls s2]. cbn [fst snd orun] in *. exact IH.
  Qed.

  Lemma top_init : forall t0, Top o_init (init c t0) /\ hb_ok (init c t0).
  Proof.
    intros t0. split.
    - intros _. split; [|split].
      + unfold init. constructor; sproj; cbn [o_incs o_now o_dropped o_eof o_init o_v v0 c_err pend_id o_pend];
          try reflexivity; try (constructor); try discriminate;
          try (intros; contradiction).
        all: try (intros k hr oi H; destruct k; discriminate).
        all: try (intros k1 k2 x1 x2 H; destruct k1; discriminate).
        all: try (intros k e oi H; contradiction).
        all: try (intros _ e H; contradiction).
        all: try (match goal with H : nth_error [] ?k = Some _ |- _ => destruct k; discriminate end).
      + intros m H. contradiction.
      + intros _. split; [intros e H; contradiction|reflexivity].
    - intros hr b H. contradiction.
  Qed.
End Top.
