(* Simulation, part 6: the invariant over whole runs (one op at a time). *)
From Coq Require Import List Bool Arith NArith Lia.
Import ListNotations.
From TarpcV Require Import Base Transport TimerWheel Server ServerMon ServerFuel ServerContract
     ServerSim ServerSim2 ServerSim3 ServerSim4 ServerSim5.

Lemma ocall_basic : forall lim o c,
  o_now (o_call lim o c) = o_now o /\ o_dropped (o_call lim o c) = o_dropped o
  /\ h_stop (o_v (o_call lim o c)) = h_stop (o_v o) /\ v_bad (o_v (o_call lim o c)) = v_bad (o_v o)
  /\ c_err (o_v (o_call lim o c)) = c_err (o_v o).
Proof.
  intros lim o c. destruct c as [r|m r|r|r|r].
  - destruct (ocall_ready_tab lim o r) as ((T1 & T2 & T3 & T4 & T5) & _ & Vb).
    repeat split; auto.
    unfold o_call. fold (pre_err o). destruct (pre_err_proj o) as (_ & _ & _ & _ & _ & _ & _ & _ & _ & _ & _ & _ & _ & _ & _ & A16).
    oproj. exact A16.
  - destruct (ocall_send_proj lim o m r) as (P1 & P2 & P3 & P4 & P5 & P6 & _). cbv zeta in *. repeat split; auto.
  - destruct (ocall_flush_tab lim o r) as ((T1 & T2 & T3 & T4 & T5) & _ & Vb).
    repeat split; auto.
    unfold o_call. fold (pre_err o). destruct (pre_err_proj o) as (_ & _ & _ & _ & _ & _ & _ & _ & _ & _ & _ & _ & _ & _ & _ & A16).
    oproj. exact A16.
  - unfold o_call. destruct (o_errcall o); oproj; rewrite ?andb_false_r, ?andb_true_r; cbn; repeat split; reflexivity.
  - destruct (ocall_next_proj lim o r) as (P1 & P2 & P3 & P4 & P5 & _). cbv zeta in *. repeat split; auto.
Qed.

Lemma ocs_proj : forall lim new o,
  o_now (fold_left (o_call lim) new o) = o_now o
  /\ o_dropped (fold_left (o_call lim) new o) = o_dropped o
  /\ h_stop (o_v (fold_left (o_call lim) new o)) = h_stop (o_v o)
  /\ v_bad (o_v (fold_left (o_call lim) new o)) = v_bad (o_v o)
  /\ c_err (o_v (fold_left (o_call lim) new o)) = c_err (o_v o).
Proof.
  intros lim new; induction new as [|c new IH]; intros o; cbn [fold_left]; [repeat split; reflexivity|].
  destruct (IH (o_call lim o c)) as (A & B & D & E & F). rewrite A, B, D, E, F. apply ocall_basic.
Qed.

Section Top.
  Context {T C : Type}.
  Variable tp : transport T response cmsg.
  Variable ctl : T -> C -> T.
  Variable tfuel : T -> nat.
  Hypothesis TF : tfuel_ok tp tfuel.
  Variable c : cfg.
  Notation st := (@sstate T).
  Notation lim := (cfg_limit c).

  Definition Top (o : ostate) (s : st) : Prop :=
    h_stop (o_v o) = true ->
    InvU o s /\ no_thr s
    /\ (c_err (o_v o) = false ->
        handled s /\ (s_dropped s = false -> o_gauge o = length (s_inflight s))).

  Lemma split_gauges_poll : forall (s1 : st) log r,
    s_dropped s1 = false ->
    match r with OGauges _ _ | OOracle => False | _ => True end ->
    split_gauges ([OCalls log; r] ++ gauges s1)
    = ([OCalls log; r], Some (length (s_inflight s1), length (s_timers s1))).
  Proof.
    intros s1 log r Hd Hr. unfold gauges. rewrite Hd. unfold split_gauges.
    destruct (s_bad s1); cbn; destruct r; try contradiction; reflexivity.
  Qed.

  (* polling after an error: the observer stops *)
  Lemma ostep_poll_after_error : forall o l,
    h_stop (o_v o) = true -> o_dropped o = false -> c_err (o_v o) = true ->
    h_stop (o_v (ostep lim o (@OPoll C) l)) = false.
  Proof.
    intros o l EH Hod EC. unfold ostep. rewrite EH. cbn [negb].
    destruct (split_gauges l) as [body g]. rewrite Hod, EC.
    destruct g as [[a b]|]; oproj; rewrite Hod; oproj; rewrite ?EC; cbn [orb]; oproj;
      rewrite ?andb_false_r; reflexivity.
  Qed.

  Lemma requests_not_fuel : forall (s : st) r s2,
    requests_poll_next tp c (poll_fuel tfuel s) (set_log s []) = (r, s2) -> r <> PFuel.
  Proof.
    intros s r s2 H. eapply (requests_fuel tp tfuel TF c); [|exact H].
    unfold poll_fuel, mu; sproj. lia.
  Qed.

  Lemma top_poll : forall o (s : st) s' l,
    Top o s -> step tp ctl tfuel c s OPoll = (s', l) -> Top (ostep lim o (@OPoll C) l) s'.
  Proof.
    intros o s s' l HT H. unfold step in H.
    destruct (poll_requests tp tfuel c s) as [s1 l0] eqn:EP. injection H as <- <-.
    destruct (h_stop (o_v o)) eqn:EH.
    2: { unfold ostep. rewrite EH. cbn [negb]. intros Hf. congruence. }
    destruct (HT EH) as (HI & Hnt & Hrest).
    unfold poll_requests in EP.
    destruct (s_dropped s) eqn:ED.
    { (* the channel is gone: nothing happens *)
      injection EP as <- <-. unfold ostep. rewrite EH. cbn [negb]. unfold gauges. rewrite ED.
      assert (Hodt : o_dropped o = true) by (rewrite (u_dropped _ _ HI); exact ED).
      cbn [app split_gauges rev]. rewrite Hodt. cbn iota. rewrite Hodt. intros _.
      split; [exact HI|split; [exact Hnt|]].
      intros Hc. destruct (Hrest Hc) as (A & _). split; [exact A|]. intros Hd. rewrite ED in Hd. discriminate. }
    assert (Hod : o_dropped o = false) by (rewrite (u_dropped _ _ HI); exact ED).
    destruct (c_err (o_v o)) eqn:EC.
    { intros Hf. rewrite (ostep_poll_after_error o _ EH Hod EC) in Hf. discriminate. }
    destruct (Hrest eq_refl) as (Hh & Hg). specialize (Hg eq_refl).
    destruct (requests_poll_next tp c (poll_fuel tfuel s) (set_log s [])) as [r s2] eqn:ER.
    pose proof (requests_not_fuel _ _ _ ER) as Hnf.
    (* the loops *)
    assert (HB0 : BInv (start_poll o) (set_log s [])).
    { split; [apply InvU_start_poll; auto|split; [|exact EC]].
      eapply handled_sub; eauto. }
    assert (Hnt0 : no_thr (set_log s [])) by exact Hnt.
    destruct (requests_inv tp lim c _ _ _ _ _ eq_refl HB0 Hnt0 ER) as (new & X & Post & Hnt2).
    assert (HE0 : Entry (start_poll o) (set_log s [])).
    { right; right; left. split; [reflexivity|]. sproj. exact Hg. }
    destruct (requests_ctrl tp lim c _ _ _ _ _ eq_refl HE0 ER) as (new' & X' & Id).
    assert (new' = new) by (eapply ocs_ext_unique; eauto). subst new'.
    assert (Hlog : rev (s_log s2) = new).
    { unfold ext in X. sproj. rewrite X, app_nil_r, rev_involutive. reflexivity. }
    set (oc := fold_left (o_call lim) new (start_poll o)) in *.
    destruct (ocs_proj lim new (start_poll o)) as (Pn & Pd & Ph & Pb & Pc).
    fold oc in Pn, Pd, Ph, Pb, Pc. cbn [start_poll o_now o_dropped o_v] in Pn, Pd, Ph, Pb, Pc.
    destruct r as [q| |a| |]; [| | | |exfalso; apply Hnf; reflexivity].
    - (* a request is yielded *)
      injection EP as <- <-. rewrite Hlog.
      destruct Post as (HIc & HPc & Hcec).
      destruct (InvU_result_yield oc s2 q HIc HPc Hcec) as (HI1 & Hh1 & Hce1). cbv zeta in *.
      set (s1 := set_handlers s2 (s_handlers s2 ++ [{| h_h := q_h q; h_id := q_id q; h_st := HYielded |}])) in *.
      set (R := OYield (length (s_handlers s2)) (q_id q) (q_dl q) (q_tr q) (q_body q)) in *.
      assert (Hd1 : s_dropped s1 = false).
      { rewrite <- (u_dropped _ _ HI1).
        destruct (o_result_yield_proj oc (length (s_handlers s2)) (q_id q) (q_dl q) (q_tr q) (q_body q)) as (_ & _ & P3 & _).
        cbv zeta in P3. fold R in P3. rewrite P3, Pd. exact Hod. }
      unfold ostep. rewrite EH. cbn [negb].
      rewrite (split_gauges_poll s1 new R Hd1 I). rewrite Hod, EC.
      unfold o_calls. fold oc.
      destruct (o_result_yield_proj oc (length (s_handlers s2)) (q_id q) (q_dl q) (q_tr q) (q_body q))
        as (Q1 & Q2 & Q3 & Q4 & Q5 & Q6 & Q7 & Q8). cbv zeta in *. fold R in Q1, Q2, Q3, Q4, Q5, Q6, Q7, Q8.
      rewrite Q3, Pd, Hod. rewrite Q6, Hcec.
      match goal with |- Top (o_gauges ?a ?b ?x ?g1 ?g2) _ =>
        destruct (o_gauges_proj a b x g1 g2) as (G1 & G2 & G3 & G4 & G5 & G6 & G7 & G8 & G9) end.
      cbv zeta in *. oproj.
      intros _. split; [|split].
      + eapply InvU_frame; [exact HI1| |repeat split; reflexivity|].
        * unfold same_tab, pend_id. rewrite G1, G2, G3, G5, G6. repeat split; reflexivity.
        * rewrite G4. exact (u_eof _ _ HI1).
      + intros m Hm. apply Hnt2. exact Hm.
      + intros _. split; [exact Hh1|]. intros _. exact G9.
    - (* end of stream *)
      injection EP as <- <-. rewrite Hlog.
      destruct Post as (HIc & Hhc & Hcec).
      assert (HIf : InvU (finish_idle (chk10 oc (o_eof oc && negb (o_dirty oc)))) s2).
      { apply InvU_finish_idle.
        - eapply InvU_frame; [exact HIc|repeat split; reflexivity|repeat split; reflexivity|exact (u_eof _ _ HIc)].
        - oproj. intros Hb. cbn in Id. destruct Id as [Hc|Hb']; [exact Hc|congruence]. }
      destruct (finish_idle_proj (chk10 oc (o_eof oc && negb (o_dirty oc)))) as (F1 & F2 & F3 & F4 & F5 & F6 & F7 & F8).
      cbv zeta in *. oproj.
      assert (Hd1 : s_dropped s2 = false) by (rewrite <- (u_dropped _ _ HIc), Pd; exact Hod).
      unfold ostep. rewrite EH. cbn [negb].
      rewrite (split_gauges_poll s2 new OStreamEnd Hd1 I). rewrite Hod, EC.
      unfold o_calls. fold oc. cbn [o_result]. rewrite F3, Pd, Hod, F6, Hcec.
      match goal with |- Top (o_gauges ?a ?b ?x ?g1 ?g2) _ =>
        destruct (o_gauges_proj a b x g1 g2) as (G1 & G2 & G3 & G4 & G5 & G6 & G7 & G8 & G9) end.
      cbv zeta in *. oproj.
      intros _. split; [|split].
      + eapply InvU_frame; [exact HIf| |repeat split; reflexivity|].
        * unfold same_tab, pend_id. rewrite G1, G2, G3, G5, G6. repeat split; reflexivity.
        * rewrite G4. exact (u_eof _ _ HIf).
      + exact Hnt2.
      + intros _. split; [exact Hhc|]. intros _. exact G9.
    - (* an error *)
      injection EP as <- <-. rewrite Hlog.
      destruct (o_result_err_proj oc a) as (E1 & E2 & E3 & E4 & E5 & E6 & E7). cbv zeta in *.
      assert (HI1 : InvU (o_result oc (OStreamErr a)) s2).
      { destruct Post as [(HIc & _)|(q & s3 & (HIc & _) & ->)].
        - apply (InvU_err oc _ s2 s2 HIc); auto; try (intros E; rewrite E4; exact E).
        - apply (InvU_err oc _ s3 _ HIc); auto; sproj; auto;
            try (intros E; rewrite E4; exact E);
            try (intros id Hin; apply in_or_app; left; exact Hin). }
      assert (Hd1 : s_dropped s2 = false) by (rewrite <- (u_dropped _ _ HI1), E3, Pd; exact Hod).
      unfold ostep. rewrite EH. cbn [negb].
      rewrite (split_gauges_poll s2 new (OStreamErr a) Hd1 I). rewrite Hod, EC.
      unfold o_calls. fold oc. rewrite E3, Pd, Hod, E5.
      intros _. split; [exact HI1|split; [exact Hnt2|]]. rewrite E5. discriminate.
    - (* pending *)
      injection EP as <- <-. rewrite Hlog.
      destruct Post as (HIc & Hhc & Hcec).
      assert (HIf : InvU (finish_idle oc) s2).
      { apply InvU_finish_idle; [exact HIc|].
        intros Hb. cbn in Id. destruct Id as [Hc|Hb']; [exact Hc|congruence]. }
      destruct (finish_idle_proj oc) as (F1 & F2 & F3 & F4 & F5 & F6 & F7 & F8). cbv zeta in *.
      assert (Hd1 : s_dropped s2 = false) by (rewrite <- (u_dropped _ _ HIc), Pd; exact Hod).
      unfold ostep. rewrite EH. cbn [negb].
      rewrite (split_gauges_poll s2 new OPending Hd1 I). rewrite Hod, EC.
      unfold o_calls. fold oc. cbn [o_result]. rewrite F3, Pd, Hod, F6, Hcec.
      match goal with |- Top (o_gauges ?a ?b ?x ?g1 ?g2) _ =>
        destruct (o_gauges_proj a b x g1 g2) as (G1 & G2 & G3 & G4 & G5 & G6 & G7 & G8 & G9) end.
      cbv zeta in *. oproj.
      intros _. split; [|split].
      + eapply InvU_frame; [exact HIf| |repeat split; reflexivity|].
        * unfold same_tab, pend_id. rewrite G1, G2, G3, G5, G6. repeat split; reflexivity.
        * rewrite G4. exact (u_eof _ _ HIf).
      + exact Hnt2.
      + intros _. split; [exact Hhc|]. intros _. exact G9.
  Qed.

  (* ---- the ops other than a poll ---------------------------------------------------------------- *)
  Definition plain (e : obs) : bool := match e with OGauges _ _ | OOracle => false | _ => true end.

  Lemma split_gauges_plain : forall body, forallb plain body = true -> split_gauges body = (body, None).
  Proof.
    intros body H. unfold split_gauges.
    assert (Hr : forallb plain (rev body) = true).
    { rewrite forallb_forall in *. intros x Hx. apply H. apply in_rev. exact Hx. }
    destruct (rev body) as [|e r]; [reflexivity|]. cbn in Hr. apply andb_true_iff in Hr. destruct Hr as [He _].
    destruct e; try discriminate; reflexivity.
  Qed.

  Lemma split_gauges_app : forall body (s1 : st),
    s_dropped s1 = false ->
    split_gauges (body ++ gauges s1) = (body, Some (length (s_inflight s1), length (s_timers s1))).
  Proof.
    intros body s1 Hd. unfold gauges. rewrite Hd. unfold split_gauges. destruct (s_bad s1).
    - rewrite rev_app_distr. cbn. rewrite rev_involutive. reflexivity.
    - rewrite rev_app_distr. cbn. rewrite rev_involutive. reflexivity.
  Qed.

  (* the common tail of ostep for an op that is not a poll *)
  Definition otail (o1 : ostate) (g : option (nat * nat)) : ostate :=
    match g with
    | Some (a, b) =>
      if o_dropped o1 then mark_bad o1
      else if c_err (o_v o1) then o1
      else o_gauges false false (chk10 (chk12a o1 true) true) a b
    | None => if o_dropped o1 then o1 else mark_bad o1
    end.

  Lemma top_tail : forall o1 (s1 : st) body,
    forallb plain body = true ->
    (h_stop (o_v o1) = true ->
     InvU o1 s1 /\ no_thr s1 /\ (c_err (o_v o1) = false -> handled s1)) ->
    Top (otail o1 (snd (split_gauges (body ++ gauges s1)))) s1
    /\ fst (split_gauges (body ++ gauges s1)) = body.
  Proof.
    intros o1 s1 body Hpl H.
    destruct (s_dropped s1) eqn:ED.
    - unfold gauges. rewrite ED, app_nil_r, (split_gauges_plain _ Hpl). cbn [fst snd otail].
      split; [|reflexivity]. intros Hs.
      destruct (o_dropped o1) eqn:EO.
      + destruct (H Hs) as (HI & Hnt & Hh). split; [exact HI|split; [exact Hnt|]].
        intros Hc. split; [exact (Hh Hc)|]. intros Hd. congruence.
      + exfalso. unfold mark_bad in Hs. oproj. rewrite andb_true_r in Hs. destruct (H Hs) as (HI & _).
        rewrite (u_dropped _ _ HI) in EO. congruence.
    - rewrite (split_gauges_app body s1 ED). cbn [fst snd otail]. split; [|reflexivity].
      destruct (o_dropped o1) eqn:EO.
      + intros Hs. unfold mark_bad in Hs. oproj. rewrite andb_true_r in Hs. destruct (H Hs) as (HI & _).
        rewrite (u_dropped _ _ HI) in EO. congruence.
      + destruct (c_err (o_v o1)) eqn:EC.
        * intros Hs. destruct (H Hs) as (HI & Hnt & Hh). split; [exact HI|split; [exact Hnt|]]. congruence.
        * match goal with |- Top (o_gauges ?a ?b ?x ?g1 ?g2) _ =>
            destruct (o_gauges_proj a b x g1 g2) as (G1 & G2 & G3 & G4 & G5 & G6 & G7 & G8 & G9) end.
          cbv zeta in *. oproj. rewrite ?andb_true_r in *.
          intros Hs. rewrite G7 in Hs. destruct (H Hs) as (HI & Hnt & Hh).
          split; [|split; [exact Hnt|]].
          -- eapply InvU_frame; [exact HI| |repeat split; reflexivity|].
             ++ unfold same_tab, pend_id. rewrite G1, G2, G3, G5, G6. repeat split; reflexivity.
             ++ rewrite G4. exact (u_eof _ _ HI).
          -- intros _. split; [exact (Hh eq_refl)|]. intros _. exact G9.
  Qed.

  Lemma ostep_nonpoll : forall (p : op C) o l,
    h_stop (o_v o) = true ->
    match p with OPoll => False | _ => True end ->
    ostep lim o p l =
    otail (match p with
           | OCtl _ => match fst (split_gauges l) with [] => o | _ => mark_bad o end
           | OHandlerPoll k _ => fold_left o_hevent (fst (split_gauges l)) o
           | ODropHandler k => guard_dropped k PStarted (fold_left o_hevent (fst (split_gauges l)) o)
           | ODropYielded k => guard_dropped k PFresh (fold_left o_hevent (fst (split_gauges l)) o)
           | ODropChannel =>
             mko (o_incs o) (o_now o) (o_gauge o) true (o_eof o) (o_dirty o) (o_pend o) (o_first o)
                 (o_after_thr o) (o_blocked o) (o_freed o) (o_errcall o) (o_v o)
           | OAdvance dt =>
             mko (age (o_now o + dt)%N (o_incs o)) (o_now o + dt)%N (o_gauge o) (o_dropped o) (o_eof o)
                 (o_dirty o) (o_pend o) (o_first o) (o_after_thr o) (o_blocked o) (o_freed o)
                 (o_errcall o) (o_v o)
           | OPoll => o
           end) (snd (split_gauges l)).
  Proof.
    intros p o l Hs Hp. unfold ostep. rewrite Hs. cbn [negb].
    destruct (split_gauges l) as [body g]. cbn [fst snd].
    destruct p; try contradiction; unfold otail; destruct g as [[a b]|]; try reflexivity;
      cbn [negb orb]; try reflexivity.
    all: match goal with |- context [if o_dropped ?x then _ else _] => destruct (o_dropped x) end; try reflexivity.
    all: match goal with |- context [if c_err (o_v ?x) then _ else _] => destruct (c_err (o_v x)) end; try reflexivity.
    all: destruct body as [|e1 [|e2 [|e3 r]]]; try reflexivity; destruct e1; try reflexivity.
  Qed.

  Lemma top_ctl : forall o (s : st) x s' l,
    Top o s -> step tp ctl tfuel c s (OCtl x) = (s', l) -> Top (ostep lim o (OCtl x) l) s'.
  Proof.
    intros o s x s' l HT H. unfold step in H. injection H as <- <-.
    destruct (h_stop (o_v o)) eqn:EH; [|unfold ostep; rewrite EH; cbn [negb]; intros Hf; congruence].
    rewrite (ostep_nonpoll (OCtl x) o _ EH I).
    destruct (top_tail o (set_t s (ctl (s_t s) x)) [] eq_refl) as (A & B).
    - intros _. destruct (HT EH) as (HI & Hnt & Hr). split; [|split; [exact Hnt|intros Hc; exact (proj1 (Hr Hc))]].
      eapply InvU_frame; [exact HI|repeat split; reflexivity|repeat split; reflexivity|exact (u_eof _ _ HI)].
    - cbn [app] in *. rewrite B. exact A.
  Qed.

  Lemma top_advance : forall o (s : st) dt s' l,
    Top o s -> step tp ctl tfuel c s (OAdvance dt) = (s', l) -> Top (ostep lim o (@OAdvance C dt) l) s'.
  Proof.
    intros o s dt s' l HT H. unfold step in H. injection H as <- <-.
    destruct (h_stop (o_v o)) eqn:EH; [|unfold ostep; rewrite EH; cbn [negb]; intros Hf; congruence].
    rewrite (ostep_nonpoll (@OAdvance C dt) o _ EH I).
    set (o1 := mko (age (o_now o + dt)%N (o_incs o)) (o_now o + dt)%N (o_gauge o) (o_dropped o) (o_eof o)
                   (o_dirty o) (o_pend o) (o_first o) (o_after_thr o) (o_blocked o) (o_freed o)
                   (o_errcall o) (o_v o)).
    set (s1 := set_now s (s_now s + dt)%N).
    destruct (top_tail o1 s1 [] eq_refl) as (A & B).
    - intros _. destruct (HT EH) as (HI & Hnt & Hr). split; [|split; [exact Hnt|intros Hc; exact (proj1 (Hr Hc))]].
      pose proof (u_now _ _ HI) as Hnow.
      apply (InvU_map o o1 s s1
               (fun i => match oi_wire i with
                         | WOpen => if N.leb (oi_when i) (o_now o + dt) then set_wire i WMaybe else i
                         | _ => i end) HI).
      + reflexivity.
      + intros i. destruct (oi_wire i); try (repeat split; reflexivity).
        destruct (N.leb _ _); repeat split; reflexivity.
      + intros i _. destruct (oi_wire i) eqn:E; cbn; rewrite ?E; auto;
          destruct (N.leb _ _); cbn; rewrite ?E; auto.
      + intros i Hin. destruct (oi_wire i) eqn:E; cbn; rewrite ?E; intros Hw; try discriminate.
        destruct (N.leb (oi_when i) (o_now o + dt)) eqn:EL; cbn in Hw; rewrite ?E in Hw; try discriminate.
        split; [reflexivity|]. apply N.leb_gt in EL. subst s1; sproj. rewrite <- Hnow. exact EL.
      + intros i Hin. destruct (oi_wire i) eqn:E; cbn; rewrite ?E; intros Hw; try discriminate; auto.
        destruct (N.leb (oi_when i) (o_now o + dt)) eqn:EL; cbn in Hw; rewrite ?E in Hw; try discriminate.
        right. apply N.leb_le in EL. subst s1; sproj. rewrite <- Hnow. exact EL.
      + intros k e oi He (hr & oi' & A1 & B1 & C1 & D1 & E1 & F1 & G1) Hoi. rewrite Hoi in B1. inversion B1; subst oi'.
        destruct (oi_wire oi) eqn:E; cbn; rewrite ?E; auto; try (rewrite E in E1; exact E1);
          destruct (N.leb _ _); cbn; rewrite ?E; reflexivity.
      + repeat split; reflexivity.
      + repeat split; reflexivity.
      + subst s1; sproj. lia.
      + subst s1 o1; sproj. rewrite Hnow. reflexivity.
      + intros Hc _. apply all_owned_of_handled; [exact HI|exact (proj1 (Hr Hc))].
      + intros F. exact (u_eof _ _ HI F).
    - exact A.
  Qed.

  Lemma top_drop_channel : forall o (s : st) s' l,
    Top o s -> step tp ctl tfuel c s ODropChannel = (s', l) -> Top (ostep lim o (@ODropChannel C) l) s'.
  Proof.
    intros o s s' l HT H. unfold step in H. injection H as <- <-.
    destruct (h_stop (o_v o)) eqn:EH; [|unfold ostep; rewrite EH; cbn [negb]; intros Hf; congruence].
    rewrite (ostep_nonpoll (@ODropChannel C) o _ EH I).
    set (o1 := mko (o_incs o) (o_now o) (o_gauge o) true (o_eof o) (o_dirty o) (o_pend o) (o_first o)
                   (o_after_thr o) (o_blocked o) (o_freed o) (o_errcall o) (o_v o)).
    destruct (top_tail o1 (drop_channel s) [] eq_refl) as (A & B).
    - intros _. destruct (HT EH) as (HI & Hnt & Hr).
      unfold drop_channel. destruct (s_dropped s) eqn:ED.
      + split; [|split; [exact Hnt|intros Hc; exact (proj1 (Hr Hc))]].
        eapply InvU_frame; [exact HI| |repeat split; reflexivity|exact (u_eof _ _ HI)].
        unfold same_tab; subst o1; oproj. rewrite (u_dropped _ _ HI), ED. repeat split; reflexivity.
      + split; [|split; [exact Hnt|]].
        * apply (InvU_drop_channel o o1 s _ HI); try reflexivity. auto.
        * intros Hc. destruct (Hr Hc) as (Hh & _). intros e He. sproj. exact (Hh e He).
    - exact A.
  Qed.

  (* ---- handler events ----------------------------------------------------------------------------- *)
  Definition gstep (e : obs) (i : oinc) : oinc :=
    match e with
    | OHPolled _ => set_ph i PStarted
    | OHDone _ b => set_done i b
    | OExecReady _ => set_ph i PEnded
    | _ => i
    end.
  Definition for_k (k : nat) (e : obs) : bool :=
    match e with
    | OHPolled k' | OHDone k' _ | OHDropped k' | OExecReady k' | OExecPending k' => Nat.eqb k k'
    | _ => false
    end.

  Lemma upd_nth_comp : forall k (f g : oinc -> oinc) l, upd_nth k g (upd_nth k f l) = upd_nth k (fun i => g (f i)) l.
  Proof. intros k f g l; revert k; induction l; destruct k; cbn; auto. f_equal; auto. Qed.

  Lemma hevents_proj : forall k body o oi,
    forallb (for_k k) body = true -> nth_error (o_incs o) k = Some oi ->
    let o' := fold_left o_hevent body o in
    o_incs o' = upd_nth k (fun i => fold_left (fun x e => gstep e x) body i) (o_incs o)
    /\ o_now o' = o_now o /\ o_dropped o' = o_dropped o /\ o_eof o' = o_eof o /\ o_pend o' = o_pend o
    /\ o_gauge o' = o_gauge o /\ c_err (o_v o') = c_err (o_v o) /\ h_stop (o_v o') = h_stop (o_v o).
  Proof.
    intros k body; induction body as [|e body IH]; intros o oi Hb Hk; cbv zeta; cbn [fold_left].
    { rewrite upd_nth_id. repeat split; reflexivity. }
    cbn [forallb] in Hb. apply andb_true_iff in Hb. destruct Hb as [He Hb].
    assert (Hstep : o_incs (o_hevent o e) = upd_nth k (gstep e) (o_incs o)
                    /\ o_now (o_hevent o e) = o_now o /\ o_dropped (o_hevent o e) = o_dropped o
                    /\ o_eof (o_hevent o e) = o_eof o /\ o_pend (o_hevent o e) = o_pend o
                    /\ o_gauge (o_hevent o e) = o_gauge o /\ c_err (o_v (o_hevent o e)) = c_err (o_v o)
                    /\ h_stop (o_v (o_hevent o e)) = h_stop (o_v o)).
    { destruct e; cbn in He; try discriminate; apply Nat.eqb_eq in He; subst; cbn [o_hevent gstep];
        rewrite ?Hk; oproj; rewrite ?upd_nth_id; repeat split; reflexivity. }
    destruct Hstep as (S1 & S2 & S3 & S4 & S5 & S6 & S7 & S8).
    assert (Hk' : nth_error (o_incs (o_hevent o e)) k = Some (gstep e oi)).
    { rewrite S1. apply upd_nth_same. exact Hk. }
    destruct (IH (o_hevent o e) (gstep e oi) Hb Hk') as (I1 & I2 & I3 & I4 & I5 & I6 & I7 & I8).
    cbv zeta in *. rewrite I1, I2, I3, I4, I5, I6, I7, I8, S1, S2, S3, S4, S5, S6, S7, S8.
    rewrite upd_nth_comp. repeat split; reflexivity.
  Qed.
End Top.
