(* C03  Abandoned calls are cancelled on the wire, exactly when needed.  Statements only
   (proofs: ClientSimBase.v, ClientProofsG3*.v). *)
From Coq Require Import List Bool Arith NArith.
Import ListNotations.
From TarpcV Require Import Base Transport Client ClientS ClientMon ClientSpec ClientProofsG3.

(* For EVERY transport, configuration and op list (< 2^64 ops) - abandonment at any suspension
   point of a call (never polled, waiting for a permit, permit assigned, queued, transmitted,
   reply in flight, reply already in the oneshot), atomic or split between closing the receiver
   and queueing the cancellation (hook H3), against any state of the dispatch - the C03 monitor
   accepts the run:
   (a) a cancellation for an id is written at most once,
   (b) only after that id's request was written,
   (c) never for a call whose caller received an outcome,
   (d) after every dispatch poll that went idle with every sink answer Ok and no failure so far,
       every abandoned call whose request was transmitted has its cancellation on the wire,
       unless the request had already ended from the dispatcher's view: a response for it was
       read, its write failed, or its deadline / the longest timer span has passed. *)
Theorem C03_client_monitor : forall (T : Type) (tp : transport T cmsg resp)
    (fuel_of : cstate (T := T) -> nat) (t0 : T) (qcap maxif : nat) (ops : list (op (T := T))),
  no_wrap ops ->
  c03_ok maxif ops (client_trace tp fuel_of t0 qcap maxif ops) = true.
Proof. exact (fun T => @c03_cancel_on_wire T). Qed.

(* non-vacuity: a guard drop split around a dispatch poll (receiver closed, cancel not yet
   queued), then the cancel; a second call abandoned while still queued is never transmitted *)
Example C03_nonvacuous :
  let ops := [SCall 0 50 7 true 1; SPollCall 0; SPollD; SCall 0 50 8 true 2; SPollCall 1;
              SGClose 0; SPollD; SGCancel 0; SDropCall 1; SPollD; SPollD] in
  let tr := crun (mkcfg 2 1 0 true) ops in
  nth 9 tr [] = [OCalls [CNext RPending; CReady TOk; CSend (MCancel 0 (mktc 7 0 true)) SOk;
                         CNext RPending; CReady TOk; CReady TOk; CFlush TOk];
                 ODisp DPending; OGauge 0 0]
  /\ c03_ok 1 (map to_op ops) tr = true.
Proof. vm_compute. split; reflexivity. Qed.

(* the monitor rejects a second cancellation and a missing one *)
Example C03_monitor_rejects :
  let ops := [SCall 0 50 7 true 1; SPollCall 0; SPollD; SDropCall 0; SPollD] in
  let tr := crun (mkcfg 2 2 0 true) ops in
  let twice := firstn 4 tr ++
    [[OCalls [CNext RPending; CReady TOk; CSend (MCancel 0 (mktc 7 0 true)) SOk;
              CReady TOk; CSend (MCancel 0 (mktc 7 0 true)) SOk; CFlush TOk];
      ODisp DPending; OGauge 0 0]] in
  let missing := firstn 4 tr ++
    [[OCalls [CNext RPending; CReady TOk; CReady TOk; CFlush TOk]; ODisp DPending; OGauge 1 1]] in
  c03_ok 2 (map to_op ops) tr = true /\ c03_ok 2 (map to_op ops) twice = false
  /\ c03_ok 2 (map to_op ops) missing = false.
Proof. vm_compute. repeat split; reflexivity. Qed.

Print Assumptions C03_client_monitor.
