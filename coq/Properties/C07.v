(* C07  Deadlines propagate across hops without stretching.
   Statements only; every proof is `exact <lemma of TimeProofs / HopsProofs / WireProofs>`.
   Time.v models context.rs as it is now (serialize: saturating deadline.duration_since(now);
   deserialize: now.checked_add(d), else now + MAX_TIMEOUT; default: now + 10 s); GenChecks/C07.v
   re-derives the default, MAX_TIMEOUT, the checked add and the serde shape of the context from
   the sources on every run; Checks/C07check.v compares the chain model (Hops.v) with real chains
   of client::new / BaseChannel / handlers over JSON, bincode and the in-memory transport. *)
From Coq Require Import String Ascii.
From Coq Require Import List NArith ZArith Bool.
Import ListNotations.
From TarpcV Require Import Base Time TimeProofs Hops HopsProofs.
From TarpcV Require Schema Wire WireProofs JsonText JsonTextProofs.
Local Open Scope Z_scope.

(* ---- MAIN THEOREM: the monitor accepts every run of the chain model ----
   For every codec (JSON, bincode, in-memory), every chain length, and every script of calls,
   clock advances, sends, injected deadline-less requests and deliveries: every handler sees a
   deadline D' with  D <= D' <= max(D, ts) + (tr - ts)  (D the caller's deadline, ts / tr the
   clocks at serialisation / deserialisation), D' = tr if the request was sent after D had
   passed, D' = tr + 10 s for an omitted deadline, D' = D over the in-memory transport; and the
   Duration written is exactly max(0, D - ts). *)
Theorem C07_monitor : forall c ops, script_small ops ->
  c07_ok c ops (fst (crun c ops)) = true.
Proof. exact c07_monitor_holds. Qed.

Theorem C07_no_error : forall c ops, script_small ops ->
  Forall (fun l => ~ In OErr l) (fst (crun c ops)).
Proof. exact c07_no_error. Qed.

(* ---- one hop ---- *)

(* never an error, whatever the deadline and the clocks *)
Theorem C07_hop_total : forall ts tr D, ts_wf ts -> mono_env tr -> ts_wf D ->
  exists D', hop ts tr D = Ok D' /\ ts_wf D'.
Proof. exact hop_total. Qed.

(* sender clock ts, receiver clock tr on one time line, tr >= ts:
   decoded = D + (tr - ts) if D >= ts, = tr if D < ts; never earlier than D *)
Theorem C07_deadline_hop : forall ts tr D, ts_wf ts -> mono_env tr -> ts_wf D ->
  ts_ns ts <= ts_ns tr ->
  Z.max (ts_ns D) (ts_ns ts) + (ts_ns tr - ts_ns ts) < ts_limit ->
  exists D', hop ts tr D = Ok D' /\ ts_wf D' /\
    (ts_ns ts <= ts_ns D -> ts_ns D' = ts_ns D + (ts_ns tr - ts_ns ts)) /\
    (ts_ns D < ts_ns ts -> D' = tr) /\
    ts_ns D <= ts_ns D'.
Proof. exact deadline_hop_holds. Qed.

(* BOUNDARY: the representability premise is necessary.  Within transit time of the end of the
   Instant range (about 292 billion years away) the repaired decoder saturates at
   now + MAX_TIMEOUT, which is EARLIER than the caller's deadline. *)
Theorem C07_deadline_hop_saturation_refuted : exists ts tr D D',
  ts_wf ts /\ mono_env tr /\ ts_wf D /\ ts_ns ts <= ts_ns tr /\ ts_ns ts <= ts_ns D /\
  hop ts tr D = Ok D' /\ ts_ns D' < ts_ns D.
Proof. exact deadline_hop_saturation_refuted. Qed.

(* the Duration put on the wire *)
Theorem C07_ser_deadline : forall now D, ts_wf now -> ts_wf D ->
  dur_wf (ser_deadline now D) /\ dur_ns (ser_deadline now D) = Z.max 0 (ts_ns D - ts_ns now).
Proof. exact ser_deadline_spec. Qed.

(* ---- n hops, by induction ---- *)

(* every hop sent before the deadline it carries has passed: 0 <= D_n - D_0 <= sum of transit
   times (in fact equality) *)
Theorem C07_deadline_chain : forall hops D0, ts_wf D0 -> Forall hop_env hops ->
  sent_in_time D0 hops ->
  ts_ns D0 + transit_ns hops < ts_limit ->
  exists Dn, chain D0 hops = Ok Dn /\ ts_wf Dn /\
    ts_ns Dn - ts_ns D0 = transit_ns hops /\
    0 <= ts_ns Dn - ts_ns D0 <= transit_ns hops.
Proof. exact deadline_chain_holds. Qed.

(* in general (a hop may be sent late; it then arrives as "now"): never earlier than D_0, never
   later than the accumulated transit past the later of D_0 and the latest send *)
Theorem C07_deadline_chain_late : forall hops D0, ts_wf D0 -> Forall hop_env hops ->
  latest_send D0 hops + transit_ns hops < ts_limit ->
  exists Dn, chain D0 hops = Ok Dn /\ ts_wf Dn /\
    ts_ns D0 <= ts_ns Dn <= latest_send D0 hops + transit_ns hops.
Proof. exact deadline_chain_late_holds. Qed.

(* ---- the default: a self-describing encoding may omit the deadline ---- *)
Theorem C07_default_deadline : forall now, mono_env now ->
  exists D, de_context_deadline now None = Ok D /\ ts_wf D /\
            ts_ns D = ts_ns now + default_deadline_secs * NS.
Proof. exact default_deadline_holds. Qed.

(* a JSON request tree without `deadline` is understood and marked as omitted *)
Theorem C07_json_deadline_omitted : forall t id body,
  Wire.trace_wf t -> (id < Wire.u64_max1)%N -> Wire.body_wf body ->
  exists jt, Wire.json_enc Wire.trace_shape (Wire.trace_to_val t) = Some jt /\
  Wire.cm_of_json (Wire.JObj [("Request"%string,
                     Wire.JObj [("context"%string, Wire.JObj [("trace_context"%string, jt)]);
                                ("id"%string, Wire.JNum (Z.of_N id)); ("message"%string, Wire.JStr body)])])
  = Some (Wire.CRequest {| Wire.r_ctx := {| Wire.c_deadline := Wire.DlOmitted; Wire.c_trace := t |};
                           Wire.r_id := id; Wire.r_body := body |}).
Proof. exact WireProofs.optional_deadline. Qed.

(* the same as TEXT: a request written without a `deadline` member, with any whitespace between
   the tokens, is parsed and understood, its deadline marked as omitted (then: now + 10 s) *)
Theorem C07_json_text_deadline_omitted : forall sp t id body,
  JsonText.all_ws sp = true -> Wire.trace_wf t -> (id < Wire.u64_max1)%N -> Wire.body_wf body ->
  exists jt, Wire.json_enc Wire.trace_shape (Wire.trace_to_val t) = Some jt /\
  JsonText.cm_of_json_text (JsonText.json_text_sp sp
     (Wire.JObj [("Request"%string,
             Wire.JObj [("context"%string, Wire.JObj [("trace_context"%string, jt)]);
                        ("id"%string, Wire.JNum (Z.of_N id)); ("message"%string, Wire.JStr body)])]))
  = Some (Wire.CRequest {| Wire.r_ctx := {| Wire.c_deadline := Wire.DlOmitted; Wire.c_trace := t |};
                           Wire.r_id := id; Wire.r_body := body |}).
Proof. exact JsonTextProofs.json_text_deadline_omitted. Qed.

(* the Duration is carried exactly by the JSON TEXT as well *)
Theorem C07_duration_exact_json_text : forall m, Wire.cm_wf m ->
  exists t, JsonText.cm_json_text m = Some t /\ JsonText.cm_of_json_text t = Some m.
Proof. exact JsonTextProofs.json_text_roundtrip_cm. Qed.

(* ---- both codecs carry the Duration exactly (secs, nanos) ---- *)
Theorem C07_duration_exact_bincode : forall m, Wire.cm_wf m -> Wire.explicit m ->
  exists bs, Wire.cm_bincode m = Some bs /\ Wire.cm_of_bincode bs = Some m.
Proof. exact WireProofs.bincode_roundtrip_cm. Qed.

Theorem C07_duration_exact_json : forall m, Wire.cm_wf m ->
  exists j, Wire.cm_json m = Some j /\ Wire.cm_of_json j = Some m.
Proof. exact WireProofs.json_tree_roundtrip_cm. Qed.

(* non-vacuity: three hops over JSON with an injected deadline-less request; the first request is
   sent on hop 2 after its deadline passed and arrives as "now" *)
Example C07_nonvacuous :
  fst (crun {| lcodec_of := LJson; hops := 3 |}
         [Call 5000000001; Advance 3; Send 1; Advance 7; Inject 1; Recv 1; Advance 6000; Send 2;
          Advance 1; Recv 2; Send 3; Recv 3])
  = [[]; []; [OSent 1 4 997000001]; []; []; [OHandler 1 5007000001; OHandler 1 10010000000]; [];
     [OSent 2 0 0; OSent 2 4 0]; []; [OHandler 2 6011000000; OHandler 2 10011000000];
     [OSent 3 0 0; OSent 3 4 0]; [OHandler 3 6011000000; OHandler 3 10011000000]].
Proof. vm_compute. reflexivity. Qed.

Print Assumptions C07_monitor.
Print Assumptions C07_no_error.
Print Assumptions C07_hop_total.
Print Assumptions C07_deadline_hop.
Print Assumptions C07_deadline_hop_saturation_refuted.
Print Assumptions C07_ser_deadline.
Print Assumptions C07_deadline_chain.
Print Assumptions C07_deadline_chain_late.
Print Assumptions C07_default_deadline.
Print Assumptions C07_json_deadline_omitted.
Print Assumptions C07_json_text_deadline_omitted.
Print Assumptions C07_duration_exact_json_text.
Print Assumptions C07_duration_exact_bincode.
Print Assumptions C07_duration_exact_json.

(* ------------------------------------------------------------------------------------------ *)
(* Composition of the client model and the server model (coq/Chain*.v); names are qualified. *)
From TarpcV Require Client Server Chain ChainSpec ChainCtx ChainProofs.
(* multi-hop clause over in-memory links (the Instant is carried verbatim), on the composition,
   for every depth and every op list: the request yielded on ANY node carries the deadline of a
   head call with the same body - also when that deadline has already passed *)
Theorem C07_chain_deadline : forall (d : nat) (ops : list Chain.cop),
  Chain.c07c_ok d ops (fst (Chain.run d ops)) = true.
Proof. exact ChainCtx.chain_deadline. Qed.

Example C07_chain_nonvacuous :
  let ops := [Chain.HCall 10 7 true 5; Chain.HPoll 0; Chain.PollDispatch 0; Chain.PollRequests 0;
              Chain.Advance 25; Chain.HandlerPoll 0 0 Server.SRun; Chain.PollDispatch 1;
              Chain.PollRequests 1] in
  nth 7 (fst (Chain.run 2 ops)) [] = [Chain.KYield 1 0 0 10 15 5; Chain.KSGauge 1 1 1]
  /\ Chain.c07c_ok 2 ops (fst (Chain.run 2 ops)) = true
  /\ Chain.c07c_ok 2 ops [[]; []; []; []; []; []; []; [Chain.KYield 1 0 0 25 15 5]] = false.
Proof. vm_compute. repeat split; reflexivity. Qed.

Print Assumptions C07_chain_deadline.
