(* C16  No peer-supplied input can crash an endpoint.
   Statements only; every proof is `exact <lemma of TimeProofs / HostileProofs / ShippedProofs>`.
   Time.v models the arithmetic of /repo as it is now (checked add on receipt, timers clamped to
   MAX_TIMEOUT, rpc.deadline through the saturating format_deadline); GenChecks/C16.v re-derives
   those facts and the constants from the sources on every run; Checks/C16check.v compares the
   endpoint model (Hostile.v) with a real server, client dispatch and framed decoder.

   The environment ranges are explicit premises (recorded as assumptions of the check):
     mono_env t : Instant::now() leaves room for MAX_TIMEOUT + 1 s below i64::MAX seconds;
     wall_env t : SystemTime::now() is not before 1970;
     dq_env start elapsed now : the endpoint's timer queue (created at `start`, wheel advanced to
       `elapsed` ms) lags the clock by at most dq_lag_max = 2^36 - 1 - MAX_TIMEOUT(ms). *)
From Coq Require Import List NArith ZArith Bool.
Import ListNotations.
From TarpcV Require Import Base Schema Time TimeProofs Framing FramingProofs Hostile HostileProofs.
From TarpcV Require Wire Shipped ShippedProofs.
Local Open Scope Z_scope.

(* ---- MAIN THEOREMS: the endpoint model under every script ---- *)

(* no observation of any run is a panic: every mode, every script of well-typed messages (every
   wire deadline in u64 x u32 or omitted, every id, floods, cancels, responses), every caller-chosen
   Instant, every stream, every subscriber configuration, every cut *)
Theorem C16_no_panic_run : forall c e ops, env_ok (aged_env e (quiet_age ops)) -> Forall hop_wf ops ->
  Forall (fun l => has_panic l = false) (fst (hrun c e ops)).
Proof. exact hostile_no_panic. Qed.

(* the monitor accepts every run: probes are served, representable calls are sent, a stream of
   frames cut inside its last frame yields the whole frames and ends with an error (cut = 4: below) *)
Theorem C16_monitor : forall c e ops, env_ok (aged_env e (quiet_age ops)) -> Forall hop_wf ops ->
  hcut c <> 4%nat ->
  (mode c = MServer -> wheel_env (aged_env e (quiet_age ops))) ->
  c16_ok c e ops (fst (hrun c e ops)) = true.
Proof. exact c16_monitor_holds. Qed.

(* wheel_env (server mode only): the timer wheel is not AHEAD of the clock by the default
   deadline or more, and the queue is younger than u64::MAX ms (584 million years: beyond it
   tokio-util's ms() saturates) -- physically always true, but not implied by dq_env, and
   necessary: otherwise a probe's 10 s timer is due at once and its response is dropped *)
Theorem C16_wheel_env_necessary : forall c e, env_ok e -> mode c = MServer -> ~ wheel_env e ->
  c16_ok c e [SProbe 0%N] (fst (hrun c e [SProbe 0%N])) = false.
Proof. exact wheel_env_necessary. Qed.

(* KNOWN FINDING (eof-after-length-header): cut exactly after a 4-byte length header the stream
   ends cleanly, which the monitor rejects *)
Theorem C16_truncation_header_refuted : exists c ops,
  Forall hop_wf ops /\ hcut c = 4%nat /\ c16_ok c std_env ops (fst (hrun c std_env ops)) = false.
Proof. exact c16_header_only_refuted. Qed.

(* the same clause on the full transport model of Shipped.v (real message payloads through both
   codecs): with the strict monitor, every cut position but the header-only one *)
Theorem C16_truncated_frames_error : forall c ops,
  Forall (ShippedProofs.op_wf (Shipped.is_c2s ops)) ops ->
  Shipped.cut c <> 4%nat ->
  Shipped.wire_strict_ok c ops (fst (Shipped.run c ops)) = true.
Proof. exact ShippedProofs.strict_monitor_holds. Qed.

(* the harness's virtual clock lies inside the ranges *)
Theorem C16_std_env_ok : env_ok std_env /\ wheel_env std_env.
Proof. exact (conj std_env_ok std_env_wheel). Qed.

(* QUIET CONNECTIONS.  A script may start with Age ops: the connection exists (its timer queue was
   created) and stays quiet while the clocks move; the ranges must then hold for the AGED
   environment (the premises above).  For the harness's environment that is every quiet age up to
   37 183 476 s (dq_lag_max = 37 183 476 735 ms, about 430 days) ... *)
Theorem C16_std_env_aged_ok : forall secs, (0 <= secs <= 37183476)%Z ->
  env_ok (aged_env std_env secs) /\ wheel_env (aged_env std_env secs).
Proof. exact std_env_aged_ok. Qed.

(* ... and one second beyond it the repaired code still panics on a request whose deadline is a
   year or more away (the residual boundary of the timer wheel, with MAX_TIMEOUT = 365 days) *)
Theorem C16_aged_lag_refuted :
  let c := {| mode := MServer; listening := false; json := true; hchunks := []; hcut := 0 |} in
  fst (hrun c std_env [Age 37183477; SReq 1 (Some (94608000, 0)%N) false]) = [[]; [OPanic]].
Proof. exact aged_lag_refuted. Qed.

(* ---- the arithmetic, for EVERY decoded Duration and EVERY caller-chosen Instant ---- *)

(* decoding the deadline: now.checked_add(d) else now + MAX_TIMEOUT *)
Theorem C16_decode_no_panic : forall now d, mono_env now -> dur_wf d ->
  exists D, de_deadline now d = Ok D /\ ts_wf D /\ ts_ns now <= ts_ns D.
Proof. exact decode_no_panic. Qed.

(* arming the timer (server: D decoded from the peer; client: ANY Instant D chosen by the caller) *)
Theorem C16_arm_no_panic : forall start elapsed now_std now_tokio D,
  ts_wf now_std -> mono_env now_tokio -> ts_wf D -> dq_env start elapsed now_tokio ->
  exists a, arm_timer start elapsed now_std now_tokio D = Ok a.
Proof. exact arm_no_panic. Qed.

(* computing the rpc.deadline field (always) and rendering it (when a subscriber listens) *)
Theorem C16_field_no_panic : forall listening wall now D,
  wall_env wall -> ts_wf now -> ts_wf D -> deadline_field listening wall now D = Ok tt.
Proof. exact field_no_panic. Qed.

Theorem C16_server_no_panic : forall listening start elapsed wall now w,
  mono_env now -> wall_env wall -> dq_env start elapsed now ->
  match w with Some d => dur_wf d | None => True end ->
  exists D a, server_receive listening start elapsed wall now w = Ok (D, a) /\ ts_wf D.
Proof. exact server_no_panic. Qed.

Theorem C16_client_no_panic : forall listening start elapsed wall now D,
  mono_env now -> wall_env wall -> dq_env start elapsed now -> ts_wf D ->
  exists a d, client_send listening start elapsed wall now D = Ok (a, d) /\ dur_wf d.
Proof. exact client_no_panic. Qed.

(* ---- the pre-fix behaviour, with concrete witnesses ---- *)

(* before 89e9774: Instant::now() + peer-chosen duration *)
Theorem C16_decode_prefix_refuted :
  de_deadline_prefix {| t_secs := 1000000; t_nanos := 0 |} {| d_secs := u64_max; d_nanos := 0 |}
  = Panic SInstantAdd.
Proof. exact decode_prefix_refuted. Qed.

(* before 44cf918: DelayQueue::insert with the unclamped remaining time (3 years) *)
Theorem C16_arm_prefix_refuted :
  let now := {| t_secs := 1000000; t_nanos := 0 |} in
  arm_timer_prefix now 0 now now {| t_secs := 1000000 + 3 * 31536000; t_nanos := 0 |} = Panic SDelayQueueRange.
Proof. exact arm_prefix_refuted. Qed.

(* before 167c049: SystemTime::now() + remaining overflows even with no subscriber; a deadline
   past year 9999 panics when a subscriber renders it *)
Theorem C16_field_prefix_refuted :
  let now := {| t_secs := 1000000; t_nanos := 0 |} in
  let wall := {| t_secs := 1600000000; t_nanos := 0 |} in
  deadline_field_prefix false wall now {| t_secs := i64_max; t_nanos := 0 |} = Panic SSystemTimeAdd /\
  deadline_field_prefix true wall now {| t_secs := 1000000 + 8000 * 31536000; t_nanos := 0 |} = Panic SRfc3339Year.
Proof. exact field_prefix_refuted. Qed.

(* RESIDUAL BOUNDARY of the repaired code: outside dq_env (a timer queue quiet for longer than
   dq_lag_max) DelayQueue::insert still panics although the timeout is clamped *)
Theorem C16_arm_lag_refuted :
  let start := {| t_secs := 1000000; t_nanos := 0 |} in
  let now := {| t_secs := 1000000 + 38000000; t_nanos := 0 |} in
  ~ dq_env start 0 now /\
  arm_timer start 0 now now {| t_secs := 1000000 + 38000000 + 31536000; t_nanos := 0 |} = Panic SDelayQueueRange.
Proof. exact arm_lag_refuted. Qed.

(* non-vacuity: a server run with a deadline that overflows Instant, one beyond the timer range,
   one past year 9999 under a listening subscriber, a duplicate, a cancel and a probe *)
Example C16_nonvacuous :
  fst (hrun {| mode := MServer; listening := true; json := true; hchunks := []; hcut := 0 |} std_env
         [SReq 1 (Some (18446744073709551615, 0)%N) false; SReq 2 (Some (94608000, 0)%N) true;
          SReq 2 (Some (5, 5)%N) false; SReq 3 (Some (251802300800, 5)%N) false; SCancel 2; SProbe 9])
  = [[OStarted 1; OServed 1]; [OStarted 2]; []; [OStarted 3; OServed 3]; [OAborted 2]; [OStarted 9; OServed 9]].
Proof. vm_compute. reflexivity. Qed.

Print Assumptions C16_no_panic_run.
Print Assumptions C16_monitor.
Print Assumptions C16_wheel_env_necessary.
Print Assumptions C16_truncation_header_refuted.
Print Assumptions C16_truncated_frames_error.
Print Assumptions C16_std_env_ok.
Print Assumptions C16_std_env_aged_ok.
Print Assumptions C16_aged_lag_refuted.
Print Assumptions C16_decode_no_panic.
Print Assumptions C16_arm_no_panic.
Print Assumptions C16_field_no_panic.
Print Assumptions C16_server_no_panic.
Print Assumptions C16_client_no_panic.
Print Assumptions C16_decode_prefix_refuted.
Print Assumptions C16_arm_prefix_refuted.
Print Assumptions C16_field_prefix_refuted.
Print Assumptions C16_arm_lag_refuted.

(* ------------------------------------------------------------------------------------------ *)
(* The timer queue itself: coq/TimerWheel.v is an executable transliteration of tokio-util's
   DelayQueue wheel (third-party: MODELLED; the server model uses it as its expiry-order oracle).
   Inside its range - every deadline below 2^36 ms since the queue was created - it is a correct
   priority queue: never early, complete, no loss or duplication, least deadline first; and in
   every server run whose clock stays at or below 2^36 - 1 - MAX_TIMEOUT ms the oracle never
   disagrees with the model's due set.  Beyond the range it is not (witnesses).  Names qualified. *)
From Coq Require Import Permutation.
From TarpcV Require Transport.
From TarpcV Require TimerWheel Server TimerWheelProofs0 TimerWheelProofs4 TimerWheelProofs5 TimerWheelProofs6
  TimerWheelWitness.
Local Open Scope N_scope.

(* the queue invariant holds initially and is kept by insert (for deadlines below 2^36 ms since the
   queue's start), remove and poll_expired *)
Theorem C16_dq_init : TimerWheelProofs4.DI TimerWheel.dq_init.
Proof. exact TimerWheelProofs4.DI_init. Qed.

Theorem C16_dq_insert : forall (id when_abs : N) (q : TimerWheel.dqueue),
  TimerWheelProofs4.DI q ->
  N.max when_abs (TimerWheel.w_elapsed (TimerWheel.dq_wheel q)) < TimerWheelProofs0.RNG ->
  TimerWheelProofs4.DI (TimerWheel.dq_insert id when_abs q) /\
  Permutation (TimerWheelProofs4.contents (TimerWheel.dq_insert id when_abs q))
    ({| TimerWheel.we_id := id;
        TimerWheel.we_when := N.max when_abs (TimerWheel.w_elapsed (TimerWheel.dq_wheel q)) |}
     :: TimerWheelProofs4.contents q).
Proof. intros id w q D R. destruct (TimerWheelProofs4.dq_insert_spec id w q D R) as (A & B & _). split; assumption. Qed.

(* poll_expired: never early, complete (incl. the fuel of both loops), no loss / no duplication,
   least deadline first (see TimerWheelProofs4.poll_post) *)
Theorem C16_dq_poll : forall (clock : N) (q : TimerWheel.dqueue),
  TimerWheelProofs4.DI q ->
  TimerWheel.w_elapsed (TimerWheel.dq_wheel q) <= clock -> TimerWheel.dq_wheel_now q <= clock ->
  forall r q', TimerWheel.dq_poll clock q = (r, q') -> TimerWheelProofs4.poll_post clock q r q'.
Proof. exact TimerWheelProofs4.dq_poll_spec. Qed.

(* Server.v (no request limiter, EVERY transport, EVERY op list): while the clock - the sum of
   the OAdvance steps - stays at or below 2^36 - 1 - MAX_TIMEOUT = 37183476735 ms, the order
   oracle never disagrees: OOracle is never printed (s_bad stays false) *)
Theorem C16_server_oracle_agrees :
  forall (T C : Type) (tp : Transport.transport T Server.response Server.cmsg) (ctl : T -> C -> T) (tfuel : T -> nat)
         (t0 : T) (ops : list (Server.op C)),
  TimerWheelProofs6.advs ops <= TimerWheelProofs5.LIMIT ->
  forall l, In l (fst (Server.run tp ctl tfuel (Server.mkcfg None 100) t0 ops)) -> ~ In Server.OOracle l.
Proof. intros T C tp ctl tfuel. exact (TimerWheelProofs6.server_oracle_agrees tp ctl tfuel). Qed.

(* the range cannot be replaced by the real insert's own check `when - elapsed <= MAX_DURATION` *)
Theorem C16_dq_incomplete_inside_insert_contract :
  let q := snd (TimerWheel.dq_poll (TimerWheelWitness.E0 + 5) TimerWheelWitness.r2_state) in
  fst (TimerWheel.dq_poll (TimerWheelWitness.E0 + 2 ^ 31) q) = TimerWheel.DQPending
  /\ TimerWheel.dq_delay (snd (TimerWheel.dq_poll (TimerWheelWitness.E0 + 2 ^ 31) q))
     = Some (TimerWheelWitness.E0 - 500 + 2 ^ 36).
Proof. exact TimerWheelWitness.r2_incomplete. Qed.

Print Assumptions C16_dq_init.
Print Assumptions C16_dq_insert.
Print Assumptions C16_dq_poll.
Print Assumptions C16_server_oracle_agrees.
Print Assumptions C16_dq_incomplete_inside_insert_contract.

(* Server.v, EVERY configuration (with or without the request limiter, any buffer), EVERY
   transport, EVERY op list: inside the clock range OOracle is never printed *)
Theorem C16_server_oracle_agrees_cfg :
  forall (T C : Type) (tp : Transport.transport T Server.response Server.cmsg) (ctl : T -> C -> T) (tfuel : T -> nat)
         (c : Server.cfg) (t0 : T) (ops : list (Server.op C)),
  TimerWheelProofs6.advs ops <= TimerWheelProofs5.LIMIT ->
  forall l, In l (fst (Server.run tp ctl tfuel c t0 ops)) -> ~ In Server.OOracle l.
Proof. intros T C tp ctl tfuel. exact (TimerWheelProofs6.server_oracle_agrees_cfg tp ctl tfuel). Qed.
Print Assumptions C16_server_oracle_agrees_cfg.
