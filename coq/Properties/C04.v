(* C04  Servers stop cancelled work and cancellation cascades.
   Statements only.  Proofs: coq/ServerState.v, coq/ServerChainProofs.v, coq/ServerWitness.v,
   coq/ServerProofsPA*.v (monitor theorem), coq/ServerExecProofs2.v (through execute()),
   coq/ChainProofs*.v, ChainRounds*.v, ChainOracle.v (composition).

   (a) cancel_stops, state form (every transport, every state): a Cancel for a tracked id sets
       the abort flag of that request's handle, forgets the request (in-flight count drops) and
       removes its timer; an execute() whose handle is aborted never polls its handler again and
       buffers no response; a queued response for an untracked id is dropped (C08).
   (b) cancel_unknown_frame: a Cancel for an untracked id leaves the state unchanged.
   (c) cascade: C04_chain_cascade (end of file) over the composition of the client and server
       models, every depth, every op list.  Kept for reference only, C04_cascade_partial: over the
       abstract composition of an n-node chain, by induction on the depth; the two client-side
       facts are hypotheses of the Section (discharged in C04_chain_cascade, which runs the
       induction over the real composition), the server-side fact is (a) together with the waker
       contract of AbortHandle::abort (assumed, DESIGN section 4).  REAL chains of depth 1..3 are
       run and checked on every run (parts `chain` and `compose` of the check).
   The hypothesis reuse_only_after_completion (B1) is necessary: _refuted witness.
   Monitor theorem (proved, see the end of this file; also evaluated on the real traces on every run):
     C04_monitor : forall c t0 ops, c04_ok c ops (fst (srun c t0 ops)) = true
   (after the op in which Cancel id is read no later OHPolled for that incarnation and no
   response bearing id until a new request with that id is accepted).  The exact statement, for
   every transport, is pinned as ServerSpec.stmt_s04 (flag level: stmt_s_v04, stmt_s_v08). *)
From Coq Require Import List Bool Arith NArith.
Import ListNotations.
From TarpcV Require Import Base Transport TimerWheel Server ServerMon ServerWitness ServerState
     ServerChain ServerChainProofs.

Theorem C04_cancel_stops_tracked :
  forall (T : Type) id (s : @sstate T) e,
    find_entry id s = Some e ->
    In (e_h e) (s_aborted (cancel_request id s))
    /\ tracked id (cancel_request id s) = false
    /\ length (s_inflight (cancel_request id s)) < length (s_inflight s)
    /\ s_timers (cancel_request id s) = drop_timer id (s_timers s).
Proof. exact (@cancel_tracked_effect). Qed.

Theorem C04_aborted_never_progresses :
  forall (T : Type) k hs (s : @sstate T) hr,
    nth_error (s_handlers s) k = Some hr -> In (h_h hr) (s_aborted s) ->
    let '(s', l) := execute_poll k hs s in
    ~ In (OHPolled k) l /\ s_respq s' = s_respq s /\ (forall b, ~ In (OHDone k b) l).
Proof. exact (@aborted_stops). Qed.

Theorem C04_cancel_unknown_frame :
  forall (T : Type) id (s : @sstate T), tracked id s = false -> cancel_request id s = s.
Proof. exact (@cancel_untracked_frame). Qed.

(* (c) cascade over the abstract composition (see ServerChainProofs.v for the hypotheses) *)
Theorem C04_cascade_partial :
  forall (status : nat -> hfinal) (n : nat) (abandoned cancel_read : nat -> Prop),
    (forall i, 1 <= i -> status (S i) <> HNotStarted -> status i <> HNotStarted) ->
    (forall i, 1 <= i -> i < n -> status i = HFinished -> status (S i) = HFinished) ->
    (* client-side fact 1: dropping a handler drops (abandons) its outstanding call *)
    (forall i, 1 <= i -> i < n -> status i = HDroppedF -> status (S i) <> HNotStarted -> abandoned (S i)) ->
    (* client-side fact 2 (C03 d): an abandoned, transmitted call is cancelled on the wire *)
    (forall i, 1 <= i -> i <= n -> abandoned i -> cancel_read i) ->
    (* server-side fact (C04 a + abort wakes the execute() task) *)
    (forall i, 1 <= i -> i <= n -> cancel_read i -> status i <> HUnfinished) ->
    1 <= n -> abandoned 1 ->
    forall j, 1 <= j -> j <= n -> status j <> HUnfinished.
Proof. exact cascade_partial. Qed.

Theorem C04_reuse_after_cancel_refuted :
  reuse_only_after_completion b1_cfg b1_ops (tr_of b1_cfg b1_ops) = false
  /\ c08_core_ok b1_cfg b1_ops (tr_of b1_cfg b1_ops) = false
  /\ c04_core_ok b1_cfg b1_ops (tr_of b1_cfg b1_ops) = false
  /\ nth 9 (tr_of b1_cfg b1_ops) [] =
     [OCalls [CNext RPending; CReady TOk; CSend (mkresp 1 (BOk 11)) SOk; CNext RPending;
              CReady TOk; CFlush TOk]; OPending; OGauges 0 0]
  /\ nth 10 (tr_of b1_cfg b1_ops) [] = [OHPolled 1; OExecPending 1; OGauges 0 0].
Proof. exact b1_witness. Qed.

(* non-vacuity: a running handler whose request is cancelled is dropped at its next poll, and the
   queued response of a finished-but-unwritten one is never written *)
Example C04_nonvacuous :
  fst (srun (mkcfg None 1) t_unbounded
        [OCtl (TDeliver (MReq 1 1000 7 5)); OPoll; OHandlerPoll 0 SRun; OCtl (TDeliver (MCancel 1 7)); OPoll;
         OHandlerPoll 0 (SFinish 3); OPoll])
  = [[OGauges 0 0];
     [OCalls [CNext (RItem (MReq 1 1000 7 5)); CReady TOk; CFlush TOk]; OYield 0 1 1000 7 5; OGauges 1 1];
     [OHPolled 0; OExecPending 0; OGauges 1 1];
     [OGauges 1 1];
     [OCalls [CNext (RItem (MCancel 1 7)); CNext RPending; CReady TOk; CFlush TOk]; OPending; OGauges 0 0];
     [OHDropped 0; OExecReady 0; OGauges 0 0];
     [OCalls [CNext RPending; CReady TOk; CFlush TOk]; OPending; OGauges 0 0]].
Proof. vm_compute. reflexivity. Qed.

From TarpcV Require Import ServerFuel ServerSpec ServerProofsPA4 ServerProofsPB6 ServerProofsPC10 ServerProofsPC3.

(* THE MONITOR THEOREM (single channel): for every transport, configuration and op list the C04
   monitor accepts the run: after the op in which Cancel id is read while id is tracked, no later
   poll of that incarnation's handler, no response bearing id until a new request with that id is
   accepted, and the in-flight count drops; a Cancel for an untracked id changes nothing.
   (Hypotheses B1 and stops_after_error inside the monitor.) *)
Theorem C04_monitor : forall (T C : Type) (tp : transport T response cmsg) (ctl : T -> C -> T)
    (tfuel : T -> nat) (c : cfg) (t0 : T) (ops : list (op C)),
  tfuel_ok tp tfuel ->
  c04_ok c ops (fst (run tp ctl tfuel c t0 ops)) = true.
Proof. exact s04_proved. Qed.

(* for a channel driven through tarpc's own execute() (ServerExec.v: futures TakeWhile/FilterMap/Map
   transcribed, tied to the real Channel::execute by the srvx driver): stops_after_error is
   discharged, only B1 (and the known class) remains *)
From TarpcV Require Import ServerExec ServerExecProofs ServerExecProofs2.
Theorem C04_monitor_exec : forall (T C : Type) (tp : transport T response cmsg) (ctl : T -> C -> T)
    (tfuel : T -> nat) (c : cfg) (t0 : T) (eops : list (eop C)),
  tfuel_ok tp tfuel ->
  let ops := exec_ops tp ctl tfuel c t0 eops in
  let v := observe c ops (exec_trace tp ctl tfuel c t0 eops) in
  c04_ok c ops (exec_trace tp ctl tfuel c t0 eops) = true
  /\ h_stop v = true /\ v_bad v = false /\ (h_b1 v = true -> v04 v = true /\ v08 v = true).
Proof. exact ServerExecProofs2.C04_monitor_exec. Qed.

Print Assumptions C04_monitor_exec.
Print Assumptions C04_cancel_stops_tracked.
Print Assumptions C04_aborted_never_progresses.
Print Assumptions C04_cancel_unknown_frame.
Print Assumptions C04_cascade_partial.
Print Assumptions C04_reuse_after_cancel_refuted.
Print Assumptions C04_monitor.

(* ------------------------------------------------------------------------------------------ *)
(* Composition of the client model and the server model (coq/Chain*.v); names are qualified. *)
From TarpcV Require Client Server Chain ChainSpec ChainCtx ChainProofs.
(* (c) cascade, on the COMPOSITION of the client model and the server model (coq/Chain.v: node i =
   client i, a link modelling the two ends of transport::channel::unbounded(), server i; the
   handler of node i < d-1 is `client_{i+1}.call(ctx_of_request, body).await`; leaves scripted),
   for EVERY depth d and EVERY op list of fewer than 2^64 - 1 ops (request ids are u64 counters):
   at every SettleAll that reaches a quiet round, if every head call has been resolved or
   abandoned and nothing tainted the run (no end of a link dropped, no dispatch / request stream
   ended, no poll out of fuel, no head deadline beyond MAX_TIMEOUT = 365 days), then every handler
   that started on ANY node is Done or Dropped and every server's in-flight and timer gauges
   are 0.  This replaces C04_cascade_partial (whose three per-node facts were hypotheses): the
   client-side facts come from the client lemmas (Live, dispatch drain), the server-side fact
   from the server model, and the induction runs over the real composition. *)
Theorem C04_chain_cascade : forall (d : nat) (ops : list Chain.cop),
  ChainSpec.chain_no_wrap ops -> Chain.c04c_ok d ops (fst (Chain.run d ops)) = true.
Proof. exact ChainProofs.chain_cascade. Qed.

(* non-vacuity: depth 3, the head call is abandoned while all three handlers run; the one
   SettleAll drops them node by node and leaves every gauge at 0; and the monitor does reject a
   trace in which the last handler is not dropped *)
Example C04_chain_cascade_nonvacuous :
  let ops := [Chain.HCall 1000 7 true 5; Chain.SettleAll; Chain.HDrop 0; Chain.SettleAll] in
  nth 3 (fst (Chain.run 3 ops)) [] =
    [Chain.KWire 0 [Chain.WCancel 0 15 0]; Chain.KHDropped 0 0; Chain.KExecReady 0 0;
     Chain.KWire 1 [Chain.WCancel 0 15 0]; Chain.KHDropped 1 0; Chain.KExecReady 1 0;
     Chain.KWire 2 [Chain.WCancel 0 15 0]; Chain.KHDropped 2 0; Chain.KExecReady 2 0;
     Chain.KCGauge 0 0 0; Chain.KSGauge 0 0 0; Chain.KCGauge 1 0 0; Chain.KSGauge 1 0 0;
     Chain.KCGauge 2 0 0; Chain.KSGauge 2 0 0]
  /\ Chain.c04c_ok 3 ops (fst (Chain.run 3 ops)) = true
  /\ Chain.c04c_ok 3 ops
       [[]; nth 1 (fst (Chain.run 3 ops)) []; [];
        [Chain.KWire 0 [Chain.WCancel 0 15 0]; Chain.KHDropped 0 0; Chain.KExecReady 0 0;
         Chain.KWire 1 [Chain.WCancel 0 15 0]; Chain.KHDropped 1 0; Chain.KExecReady 1 0;
         Chain.KCGauge 0 0 0; Chain.KSGauge 0 0 0; Chain.KCGauge 1 0 0; Chain.KSGauge 1 0 0;
         Chain.KCGauge 2 1 1; Chain.KSGauge 2 1 1]] = false.
Proof. vm_compute. repeat split; reflexivity. Qed.

Print Assumptions C04_chain_cascade.

(* SettleAll terminates: the last statement of the composition *)
From TarpcV Require Client Server Chain ChainSpec ChainRounds3 ChainRounds4 ChainRounds5.
(* SettleAll of the chain composition terminates (ChainRounds0-5.v).  Everything is qualified. *)
From Coq Require Import List Bool Arith NArith.
Import ListNotations.
From TarpcV Require Import Base Transport.
From TarpcV Require Client Server Chain ChainSpec ChainRounds3 ChainRounds4 ChainRounds5.

(* a potential of the whole chain (ChainRounds3.Phi: weighted count of everything that is still
   to be moved, node i weighing its items with 22 * (number of nodes behind it)).  From ANY
   chain state (reachable or not): a round of SettleAll never increases it, and a round that
   leaves it unchanged leaves Chain.digest unchanged and has no event other than KOracle *)
Theorem C04_chain_round_potential : forall (ch ch1 : Chain.chain) (ev : list Chain.cobs),
  Chain.round ch = (ch1, ev) ->
  ChainRounds3.Phi ch1 <= ChainRounds3.Phi ch /\
  (ChainRounds3.Phi ch1 = ChainRounds3.Phi ch ->
   Chain.digest ch1 = Chain.digest ch /\ forallb ChainRounds3.okev ev = true).
Proof. exact ChainRounds4.round_RC. Qed.

(* hence, from ANY chain state: with more rounds than the potential, settle reaches a quiet
   round unless a timer-order oracle disagreed *)
Theorem C04_chain_settle_quiet :
  forall (n : nat) (ch : Chain.chain) (acc : list Chain.cobs) (ch' : Chain.chain)
         (evs : list Chain.cobs) (q : bool),
  ChainRounds3.Phi ch < n -> Chain.settle n ch acc = (ch', evs, q) ->
  q = true \/ exists i, In (Chain.KOracle i) evs.
Proof. exact ChainRounds4.settle_quiet. Qed.

(* the round budget of the model dominates the potential: Chain.rounds_of ch =
   8 + 22 * |ch| + 22 * |ch| * (sum of Chain.node_size), node_size counting every queue, list of
   timers, waiters, tracked entries, handler records and link contents of a node *)
Theorem C04_chain_potential_bound : forall ch : Chain.chain,
  ChainRounds3.Phi ch < Chain.rounds_of ch.
Proof. exact ChainRounds5.Phi_lt_rounds. Qed.

(* ChainSpec.stmt_chain_rounds: for EVERY depth and EVERY op list (tainted or not), as long as
   no timer-order oracle disagreed (KOracle is printed with the gauges of every server step),
   every SettleAll reaches a quiet round within Chain.rounds_of rounds - it never prints KRounds.
   With C14_chain_fuel_iff_rounds: the monitor Chain.cfuel_ok accepts every such run.  The
   unconditional form is false (C14_chain_fuel_pinned_refuted: beyond the DelayQueue range the
   oracle is bad for good and KOracle is an event of every round) *)
Theorem C04_chain_rounds : forall (d : nat) (ops : list Chain.cop),
  (forall l i, In l (fst (Chain.run d ops)) -> ~ In (Chain.KOracle i) l) ->
  forall l, In l (fst (Chain.run d ops)) -> ~ In Chain.KRounds l.
Proof. exact ChainRounds5.chain_rounds. Qed.

Print Assumptions C04_chain_round_potential.
Print Assumptions C04_chain_settle_quiet.
Print Assumptions C04_chain_potential_bound.
Print Assumptions C04_chain_rounds.

(* inside the clock range of the timer wheel neither the oracle taint nor the rounds budget can occur *)
From TarpcV Require TimerWheelProofs5 TimerWheelProofs6 ChainOracle.
Local Open Scope N_scope.
(* on the COMPOSITION, every depth, every op list: while the chain's clock - the sum of its
   Advance ops - stays at or below 2^36 - 1 - MAX_TIMEOUT = 37183476735 ms, the timer-order
   oracle of no node ever disagrees: KOracle is never printed *)
Theorem C04_chain_no_oracle : forall (d : nat) (ops : list Chain.cop),
  ChainOracle.chain_advs ops <= TimerWheelProofs5.LIMIT ->
  forall l i, In l (fst (Chain.run d ops)) -> ~ In (Chain.KOracle i) l.
Proof. exact ChainOracle.chain_no_oracle. Qed.

(* hence, with a clock-range hypothesis instead of the observational one of C04_chain_rounds:
   every SettleAll reaches a quiet round within Chain.rounds_of rounds *)
Theorem C04_chain_rounds_clock : forall (d : nat) (ops : list Chain.cop),
  ChainOracle.chain_advs ops <= TimerWheelProofs5.LIMIT ->
  forall l, In l (fst (Chain.run d ops)) -> ~ In Chain.KRounds l.
Proof. exact ChainOracle.chain_rounds_clock. Qed.

(* the two taints of the cascade monitor (Chain.mon_obs) that stem from the timer wheel - KOracle
   and KRounds - cannot occur inside the clock range: C04_chain_cascade is not vacuous because
   of them *)
Theorem C04_chain_clock_clean : forall (d : nat) (ops : list Chain.cop),
  ChainOracle.chain_advs ops <= TimerWheelProofs5.LIMIT ->
  forall l, In l (fst (Chain.run d ops)) -> ~ In Chain.KRounds l /\ forall i, ~ In (Chain.KOracle i) l.
Proof.
  intros d ops H l Hl. split; [exact (ChainOracle.chain_rounds_clock d ops H l Hl)|].
  intro i. exact (ChainOracle.chain_no_oracle d ops H l i Hl).
Qed.
Print Assumptions C04_chain_no_oracle.
Print Assumptions C04_chain_rounds_clock.
Print Assumptions C04_chain_clock_clean.
