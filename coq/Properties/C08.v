(* C08  One handler and at most one response per request.
   Statements only.  Model: coq/Server.v; monitors: coq/ServerMon.v (c08_ok, under the hypothesis
   reuse_only_after_completion); proofs: coq/ServerState.v, coq/ServerWitness.v, coq/ServerProofsPA*.v
   (monitor theorem), coq/ServerExecProofs2.v (through execute()), coq/ChainResp2.v, ChainResp3.v
   (composition).

   Proved here (state form, for every transport and every state):
     - a request whose id is tracked is ignored (start_request refuses it; BaseChannel::poll_next
       then goes on reading);
     - a response is handed to the transport only while its id is tracked, and that untracks it
       (so at most one response per tracked incarnation leaves the channel); a response for an
       untracked id is dropped without any transport call;
     - the hypothesis reuse_only_after_completion (B1) is NECESSARY: _refuted witness.
   Monitor theorem (proved, see the end of the single-channel part of this file; the monitor is also
   evaluated on the real code's traces on every run, and the model is tied by the correspondence):
     C08_monitor : forall c t0 ops, c08_ok c ops (fst (srun c t0 ops)) = true
   i.e. under reuse_only_after_completion and stops_after_error: every request read is yielded
   exactly once or ignored because its id is surely in flight (or throttled, C12); every response
   written answers the latest incarnation of its id, which is not yet closed by its Cancel /
   expiry / an earlier answer, with exactly the value its handler completed with; nothing is
   written after the channel is dropped.  The exact statement, for every transport, is pinned as
   ServerSpec.stmt_s08 (flag level: stmt_s_v08).  The simulation it needs is proved along every run:
   the unconditional part of the invariant in ServerSim6.run_top, the part that depends on the
   hypothesis (surely-open => tracked, provenance of queued responses, no stale server cancel) as
   the invariant InvH of ServerProofsPA0-PA4 (ServerProofsPA4.s08_proved). *)
From Coq Require Import List Bool Arith NArith.
Import ListNotations.
From TarpcV Require Import Base Transport TimerWheel Server ServerMon ServerWitness ServerState.

Theorem C08_duplicate_ignored :
  forall (T : Type) id dl (s : @sstate T), tracked id s = true -> start_request id dl s = None.
Proof. exact (@duplicate_ignored). Qed.

Theorem C08_response_untracked_dropped :
  forall (T : Type) (tp : transport T response cmsg) m (s : @sstate T),
    tracked (resp_id m) s = false -> base_start_send tp m s = (None, s).
Proof. exact (@response_untracked_dropped). Qed.

Theorem C08_response_tracked_written_once :
  forall (T : Type) (tp : transport T response cmsg) m (s : @sstate T) e s',
    tracked (resp_id m) s = true -> base_start_send tp m s = (e, s') ->
    tracked (resp_id m) s' = false
    /\ exists r, s_log s' = CSend m r :: s_log s /\ e = match r with SOk => None | SErr => Some AWrite end.
Proof. exact (@response_tracked_written). Qed.

(* B1: the hypothesis reuse_only_after_completion is necessary.  `Req 1; handler done, response
   queued, sink not ready; Cancel 1; Req 1` makes the channel answer the second request with the
   first handler's value and leaves the second handler running untracked. *)
Theorem C08_reuse_after_cancel_refuted :
  reuse_only_after_completion b1_cfg b1_ops (tr_of b1_cfg b1_ops) = false
  /\ c08_core_ok b1_cfg b1_ops (tr_of b1_cfg b1_ops) = false
  /\ c04_core_ok b1_cfg b1_ops (tr_of b1_cfg b1_ops) = false
  /\ nth 9 (tr_of b1_cfg b1_ops) [] =
     [OCalls [CNext RPending; CReady TOk; CSend (mkresp 1 (BOk 11)) SOk; CNext RPending;
              CReady TOk; CFlush TOk]; OPending; OGauges 0 0]
  /\ nth 10 (tr_of b1_cfg b1_ops) [] = [OHPolled 1; OExecPending 1; OGauges 0 0].
Proof. exact b1_witness. Qed.

(* non-vacuity: a duplicate is ignored, the handler's value is written exactly once, a late
   response for a cancelled request is dropped *)
Example C08_nonvacuous :
  c08_ok (mkcfg None 1) [OCtl (TDeliver (MReq 1 1000 7 5)); OPoll; OCtl (TDeliver (MReq 1 1000 7 6)); OPoll;
                         OHandlerPoll 0 (SFinish 9); OPoll]
    (fst (srun (mkcfg None 1) t_unbounded
        [OCtl (TDeliver (MReq 1 1000 7 5)); OPoll; OCtl (TDeliver (MReq 1 1000 7 6)); OPoll;
         OHandlerPoll 0 (SFinish 9); OPoll])) = true
  /\ nth 3 (fst (srun (mkcfg None 1) t_unbounded
        [OCtl (TDeliver (MReq 1 1000 7 5)); OPoll; OCtl (TDeliver (MReq 1 1000 7 6)); OPoll;
         OHandlerPoll 0 (SFinish 9); OPoll])) []
     = [OCalls [CNext (RItem (MReq 1 1000 7 6)); CNext RPending; CReady TOk; CFlush TOk]; OPending; OGauges 1 1].
Proof. vm_compute. split; reflexivity. Qed.

From TarpcV Require Import ServerFuel ServerSpec ServerProofsPA4 ServerProofsPB6 ServerProofsPC10 ServerProofsPC3.

(* THE MONITOR THEOREM.  For EVERY transport (any state type, behaviour, environment acting on it
   between ops, fuel measure that decreases with every item handed out), configuration and op
   list, the C08 monitor accepts the run of the server model: every request read is offered to
   the application exactly once unless its id is still in flight (then it is ignored), at most
   one response per accepted request is written, only with the value its own handler produced,
   not after its cancellation / expiry / the channel's drop, and every response written answers
   a request read on this channel.  The monitor carries its two hypotheses itself, as predicates
   on the trace: reuse_only_after_completion (B1, necessary: C08_reuse_after_cancel_refuted) and
   stops_after_error. *)
Theorem C08_monitor : forall (T C : Type) (tp : transport T response cmsg) (ctl : T -> C -> T)
    (tfuel : T -> nat) (c : cfg) (t0 : T) (ops : list (op C)),
  tfuel_ok tp tfuel ->
  c08_ok c ops (fst (run tp ctl tfuel c t0 ops)) = true.
Proof. exact s08_proved. Qed.

(* for a channel driven through tarpc's own execute() (ServerExec.v: futures TakeWhile/FilterMap/Map
   transcribed, tied to the real Channel::execute by the srvx driver): stops_after_error is
   discharged, only B1 (and the known class) remains *)
From TarpcV Require Import ServerExec ServerExecProofs ServerExecProofs2.
Theorem C08_monitor_exec : forall (T C : Type) (tp : transport T response cmsg) (ctl : T -> C -> T)
    (tfuel : T -> nat) (c : cfg) (t0 : T) (eops : list (eop C)),
  tfuel_ok tp tfuel ->
  let ops := exec_ops tp ctl tfuel c t0 eops in
  let v := observe c ops (exec_trace tp ctl tfuel c t0 eops) in
  c08_ok c ops (exec_trace tp ctl tfuel c t0 eops) = true
  /\ h_stop v = true /\ v_bad v = false /\ (h_b1 v = true -> v08 v = true).
Proof. exact ServerExecProofs2.C08_monitor_exec. Qed.

Print Assumptions C08_monitor_exec.
Print Assumptions C08_duplicate_ignored.
Print Assumptions C08_response_untracked_dropped.
Print Assumptions C08_response_tracked_written_once.
Print Assumptions C08_reuse_after_cancel_refuted.
Print Assumptions C08_monitor.

(* ------------------------------------------------------------------------------------------ *)
(* End-to-end response integrity over the composition of the client and server models
   (coq/ChainResp*.v, ChainIds.v, ClientWaiters.v; monitor ChainRespSpec.c01c_ok, also evaluated
   on every real chain trace by part compose); names are qualified. *)
From TarpcV Require Client Server Chain ChainSpec ChainRespSpec ChainResp ChainResp2 ChainResp3 ChainResp4 ChainResp5 ChainResp6.
(* C08 across the hop, on the COMPOSITION (coq/Chain.v), for EVERY depth and EVERY op list.
   (a) every state, no hypothesis: a request yielded to the application on node i (KYield i k id
       .. body) was written into link i before with this request id and this body (KWire i
       [.. WReq id .. body ..]), and its incarnation number k is the number of requests yielded
       on node i before it: the server never yields a request the client did not write. *)
Theorem C08_chain_yield_written : forall (d : nat) (ops : list Chain.cop),
  ChainRespSpec.c01c_yield d ops (fst (Chain.run d ops)) = true.
Proof. exact ChainResp2.chain_resp_yield. Qed.

(* (b) every state, no hypothesis: a handler is started (KHStart i k) only for a request that was
       yielded as incarnation k of node i, and at most once: a handler record never returns to
       the state HYielded. *)
Theorem C08_chain_start_once : forall (d : nat) (ops : list Chain.cop),
  ChainRespSpec.c01c_start d ops (fst (Chain.run d ops)) = true.
Proof. exact ChainResp2.chain_resp_start. Qed.

(* (c) fewer than 2^64 - 1 ops, owed while the run is untainted (Chain.mo_tainted: no end of a link
       dropped, no dispatch / stream ended, no oracle trouble, no head deadline beyond MAX_TIMEOUT):
       a request id is yielded at most once per link.  This is where the cascade invariant is
       used: ChainInv.cross keeps the ids in the link and the ids of all handler incarnations of
       the node pairwise distinct.  With (a) and (b): between the write of a request and its
       response, exactly one handler is started for it on the next node. *)
Theorem C08_chain_yield_once : forall (d : nat) (ops : list Chain.cop),
  ChainSpec.chain_no_wrap ops -> ChainRespSpec.c01c_uniq d ops (fst (Chain.run d ops)) = true.
Proof. exact ChainResp3.chain_resp_uniq. Qed.

(* non-vacuity: depth 2, one head call; the real run yields request 0 once on each node and starts
   each handler once.  The monitor rejects: a yield of a request id never written on that link,
   a second yield of the same id on a link, a second start of a handler, a start without yield. *)
Example C08_chain_nonvacuous :
  let ops := [Chain.HCall 1000 7 true 5; Chain.SettleAll] in
  let tr := fst (Chain.run 2 ops) in
  filter (fun e => match e with Chain.KYield _ _ _ _ _ _ | Chain.KHStart _ _ => true | _ => false end)
         (nth 1 tr []) =
    [Chain.KYield 0 0 0 1000 15 5; Chain.KHStart 0 0; Chain.KYield 1 0 0 1000 15 5; Chain.KHStart 1 0]
  /\ ChainRespSpec.c01c_ok 2 ops tr = true
  /\ ChainRespSpec.c01c_yield 2 ops [[]; [Chain.KWire 0 [Chain.WReq 0 1000 15 0 5];
                                          Chain.KYield 0 0 1 1000 15 5]] = false
  /\ ChainRespSpec.c01c_uniq 2 ops [[]; [Chain.KWire 0 [Chain.WReq 0 1000 15 0 5];
                                         Chain.KYield 0 0 0 1000 15 5; Chain.KYield 0 1 0 1000 15 5]] = false
  /\ ChainRespSpec.c01c_start 2 ops [[]; [Chain.KWire 0 [Chain.WReq 0 1000 15 0 5];
                                          Chain.KYield 0 0 0 1000 15 5; Chain.KHStart 0 0; Chain.KHStart 0 0]] = false
  /\ ChainRespSpec.c01c_start 2 ops [[]; [Chain.KHStart 0 0]] = false.
Proof. vm_compute. repeat split; reflexivity. Qed.

Print Assumptions C08_chain_yield_written.
Print Assumptions C08_chain_start_once.
Print Assumptions C08_chain_yield_once.
