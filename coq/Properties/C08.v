(* C08  One handler and at most one response per request.  Statements only. *)
From Coq Require Import List Bool Arith NArith.
Import ListNotations.
From TarpcV Require Import Base Transport TimerWheel Server ServerMon ServerWitness.

(* B1: the hypothesis reuse_only_after_completion is necessary.  `Req 1; handler done, response
   queued, sink not ready; Cancel 1; Req 1` makes the channel answer the second request with the
   first handler's value and leaves the second handler running untracked. *)
Theorem C08_reuse_after_cancel_refuted :
  reuse_only_after_completion b1_cfg b1_ops (tr_of b1_cfg b1_ops) = false
  /\ c08_core_ok b1_cfg b1_ops (tr_of b1_cfg b1_ops) = false
  /\ c04_core_ok b1_cfg b1_ops (tr_of b1_cfg b1_ops) = false
  /\ nth 9 (tr_of b1_cfg b1_ops) [] =
     [OCalls [CNext RPending; CReady TOk; CSend (mkresp 1 (BOk 11)) SOk; CNext RPending;
              CReady TOk; CFlush TOk]; OPending; OGauges 0 0]
  /\ nth 10 (tr_of b1_cfg b1_ops) [] = [OHPolled 1; OExecPending 1; OGauges 0 0].
Proof. exact b1_witness. Qed.

Print Assumptions C08_reuse_after_cancel_refuted.
