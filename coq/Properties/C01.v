(* C01  Responses reach exactly the call that asked.  Statements only (proofs: ClientSimBase.v,
   ClientProofsG2.v). *)
From Coq Require Import List Bool Arith NArith.
Import ListNotations.
From TarpcV Require Import Base Transport Client ClientS ClientMon ClientSpec ClientProofsG2.

(* For EVERY transport (any state type, any behaviour, any initial state), any fuel policy, any
   request-buffer size and in-flight limit, and every sequence of handle clones/drops, calls,
   caller polls, abandonments (atomic or split), dispatch polls, dispatch drop, clock steps and
   transport events (fewer than 2^64 of them: request ids do not wrap), the C01 monitor accepts
   the run:
   - a caller receives `OReply v` (resp. `OSrvErr k`) only if a response carrying exactly that
     body for ITS OWN request id was read from the transport after its request was written;
   - no call completes twice.
   The observer identifies a call's request id by the order of first polls, independently of
   message contents, so "delivered to a different call" is excluded for equal bodies too. *)
Theorem C01_client_monitor : forall (T : Type) (tp : transport T cmsg resp)
    (fuel_of : cstate (T := T) -> nat) (t0 : T) (qcap maxif : nat) (ops : list (op (T := T))),
  no_wrap ops ->
  c01_ok maxif ops (client_trace tp fuel_of t0 qcap maxif ops) = true.
Proof. exact (fun T => @c01_proved T). Qed.

(* "Responses whose id matches no outstanding call (late, duplicated, unsolicited) are discarded
   without disturbing any other call": reading such a response changes NOTHING in the client's
   state except the transport's own state and the call log of the poll in progress - for every
   transport and every state (state equality, not just observational). *)
Theorem C01_unknown_id_frame : forall (T : Type) (tp : transport T cmsg resp) (s : cstate (T := T))
    (x : resp) (t : T),
  fused s = false -> t_next tp (tr s) = (RItem x, t) -> alookup (r_id x) (inflight s) = None ->
  pump_read tp s = (PSome tt, upd_tr s t false (plog s ++ [CNext (RItem x)])).
Proof. exact (fun T tp => @unknown_id_frame_read T tp). Qed.

(* request ids handed out to calls are pairwise distinct in every reachable state (< 2^64 ops) *)
Theorem C01_ids_unique : forall (T : Type) (tp : transport T cmsg resp)
    (fuel_of : cstate (T := T) -> nat) (t0 : T) (qcap maxif : nat) (ops : list (op (T := T))),
  no_wrap ops ->
  let s := snd (run_from tp fuel_of (init t0 qcap maxif) ops) in
  forall i j ci cj,
    nth_error (calls s) i = Some ci -> nth_error (calls s) j = Some cj ->
    issued (c_phase ci) -> issued (c_phase cj) -> c_id ci = c_id cj -> i = j.
Proof. exact (fun T tp => @ids_unique T tp). Qed.

(* non-vacuity: two concurrent calls answered in reverse order, a duplicate and an unknown id *)
Example C01_nonvacuous :
  let ops := [SCall 0 50 7 true 1; SPollCall 0; SCall 0 50 8 false 2; SPollCall 1; SPollD;
              STr (TDeliver (mkresp 1 (BOk 20))); STr (TDeliver (mkresp 9 (BOk 99)));
              STr (TDeliver (mkresp 0 (BOk 10))); STr (TDeliver (mkresp 0 (BOk 11))); SPollD;
              SPollCall 0; SPollCall 1] in
  let tr := crun (mkcfg 2 2 0 true) ops in
  nth 10 tr [] = [OCall (CDone (OReply 10))] /\ nth 11 tr [] = [OCall (CDone (OReply 20))]
  /\ c01_ok 2 (map to_op ops) tr = true.
Proof. vm_compute. repeat split; reflexivity. Qed.

(* the monitor is not vacuous either: swapping the two replies is rejected *)
Example C01_monitor_rejects_swap :
  let ops := [SCall 0 50 7 true 1; SPollCall 0; SCall 0 50 8 false 2; SPollCall 1; SPollD;
              STr (TDeliver (mkresp 1 (BOk 20))); STr (TDeliver (mkresp 0 (BOk 10))); SPollD;
              SPollCall 0; SPollCall 1] in
  let tr := crun (mkcfg 2 2 0 true) ops in
  let bad := firstn 8 tr ++ [[OCall (CDone (OReply 20))]; [OCall (CDone (OReply 10))]] in
  c01_ok 2 (map to_op ops) tr = true /\ c01_ok 2 (map to_op ops) bad = false.
Proof. vm_compute. split; reflexivity. Qed.

Print Assumptions C01_client_monitor.
Print Assumptions C01_unknown_id_frame.
Print Assumptions C01_ids_unique.
