(* C01  Responses reach exactly the call that asked.  Statements only (proofs: ClientSimBase.v,
   ClientProofsG2.v). *)
From Coq Require Import List Bool Arith NArith.
Import ListNotations.
From TarpcV Require Import Base Transport Client ClientS ClientMon ClientSpec ClientProofsG2.

(* For EVERY transport (any state type, any behaviour, any initial state), any fuel policy, any
   request-buffer size and in-flight limit, and every sequence of handle clones/drops, calls,
   caller polls, abandonments (atomic or split), dispatch polls, dispatch drop, clock steps and
   transport events (fewer than 2^64 of them: request ids do not wrap), the C01 monitor accepts
   the run:
   - a caller receives `OReply v` (resp. `OSrvErr k`) only if a response carrying exactly that
     body for ITS OWN request id was read from the transport after its request was written;
   - no call completes twice.
   The observer identifies a call's request id by the order of first polls, independently of
   message contents, so "delivered to a different call" is excluded for equal bodies too. *)
Theorem C01_client_monitor : forall (T : Type) (tp : transport T cmsg resp)
    (fuel_of : cstate (T := T) -> nat) (t0 : T) (qcap maxif : nat) (ops : list (op (T := T))),
  no_wrap ops ->
  c01_ok maxif ops (client_trace tp fuel_of t0 qcap maxif ops) = true.
Proof. exact (fun T => @c01_proved T). Qed.

(* "Responses whose id matches no outstanding call (late, duplicated, unsolicited) are discarded
   without disturbing any other call": reading such a response changes NOTHING in the client's
   state except the transport's own state and the call log of the poll in progress - for every
   transport and every state (state equality, not just observational). *)
Theorem C01_unknown_id_frame : forall (T : Type) (tp : transport T cmsg resp) (s : cstate (T := T))
    (x : resp) (t : T),
  fused s = false -> t_next tp (tr s) = (RItem x, t) -> alookup (r_id x) (inflight s) = None ->
  pump_read tp s = (PSome tt, upd_tr s t false (plog s ++ [CNext (RItem x)])).
Proof. exact (fun T tp => @unknown_id_frame_read T tp). Qed.

(* request ids handed out to calls are pairwise distinct in every reachable state (< 2^64 ops) *)
Theorem C01_ids_unique : forall (T : Type) (tp : transport T cmsg resp)
    (fuel_of : cstate (T := T) -> nat) (t0 : T) (qcap maxif : nat) (ops : list (op (T := T))),
  no_wrap ops ->
  let s := snd (run_from tp fuel_of (init t0 qcap maxif) ops) in
  forall i j ci cj,
    nth_error (calls s) i = Some ci -> nth_error (calls s) j = Some cj ->
    issued (c_phase ci) -> issued (c_phase cj) -> c_id ci = c_id cj -> i = j.
Proof. exact (fun T tp => @ids_unique T tp). Qed.

(* non-vacuity: two concurrent calls answered in reverse order, a duplicate and an unknown id *)
Example C01_nonvacuous :
  let ops := [SCall 0 50 7 true 1; SPollCall 0; SCall 0 50 8 false 2; SPollCall 1; SPollD;
              STr (TDeliver (mkresp 1 (BOk 20))); STr (TDeliver (mkresp 9 (BOk 99)));
              STr (TDeliver (mkresp 0 (BOk 10))); STr (TDeliver (mkresp 0 (BOk 11))); SPollD;
              SPollCall 0; SPollCall 1] in
  let tr := crun (mkcfg 2 2 0 true) ops in
  nth 10 tr [] = [OCall (CDone (OReply 10))] /\ nth 11 tr [] = [OCall (CDone (OReply 20))]
  /\ c01_ok 2 (map to_op ops) tr = true.
Proof. vm_compute. repeat split; reflexivity. Qed.

(* the monitor is not vacuous either: swapping the two replies is rejected *)
Example C01_monitor_rejects_swap :
  let ops := [SCall 0 50 7 true 1; SPollCall 0; SCall 0 50 8 false 2; SPollCall 1; SPollD;
              STr (TDeliver (mkresp 1 (BOk 20))); STr (TDeliver (mkresp 0 (BOk 10))); SPollD;
              SPollCall 0; SPollCall 1] in
  let tr := crun (mkcfg 2 2 0 true) ops in
  let bad := firstn 8 tr ++ [[OCall (CDone (OReply 20))]; [OCall (CDone (OReply 10))]] in
  c01_ok 2 (map to_op ops) tr = true /\ c01_ok 2 (map to_op ops) bad = false.
Proof. vm_compute. split; reflexivity. Qed.

Print Assumptions C01_client_monitor.
Print Assumptions C01_unknown_id_frame.
Print Assumptions C01_ids_unique.

(* ------------------------------------------------------------------------------------------ *)
(* End-to-end response integrity over the composition of the client and server models
   (coq/ChainResp*.v, ChainIds.v, ClientWaiters.v; monitor ChainRespSpec.c01c_ok, also evaluated
   on every real chain trace by part compose); names are qualified. *)
From TarpcV Require Client Server Chain ChainSpec ChainRespSpec ChainResp ChainResp2 ChainResp3 ChainResp4 ChainResp5 ChainResp6.
(* value provenance across hops, on the COMPOSITION (coq/Chain.v), for EVERY depth, EVERY op
   list and EVERY state reached (tainted or not, request ids wrapped or not - no hypothesis):
   whenever a head call resolves with Ok v, some handler of node 0 finished with v before; and
   whenever a handler of a non-leaf node i finishes with Ok v, some handler of node i+1 finished
   with v before.  By induction over the hops, v is a value a LEAF handler was scripted to
   return: no client, link or server of the chain ever fabricates, alters or duplicates-into-
   existence a reply value.  (Monitor ChainRespSpec.c01c_val: flag rm_val of the fold rmon.)
   The request-identified refinements of the same monitor are all proved as well: rm_body
   (C01_chain_body below), rm_once (C01_chain_once), rm_yield / rm_uniq / rm_start (C08.v section),
   and with them the whole monitor (C01_chain_resp). *)
Theorem C01_chain_value_provenance : forall (d : nat) (ops : list Chain.cop),
  ChainRespSpec.c01c_val d ops (fst (Chain.run d ops)) = true.
Proof. exact ChainResp.chain_resp_val. Qed.

(* non-vacuity: depth 3, two head calls, the leaves answer 41 and 42; each value climbs the three
   hops and resolves its own head call; the whole monitor accepts the run.  It rejects:
   head call 0 resolved with the other request's value (rm_body), a middle handler finishing
   with a value no leaf produced (rm_val), a head call resolved twice (rm_once). *)
Example C01_chain_resp_nonvacuous :
  let ops := [Chain.HCall 1000 7 true 5; Chain.HCall 1000 9 false 6; Chain.SettleAll;
              Chain.HandlerPoll 2 0 (Server.SFinish 41); Chain.HandlerPoll 2 1 (Server.SFinish 42);
              Chain.SettleAll] in
  let tr := fst (Chain.run 3 ops) in
  let mut (f : Chain.cobs -> Chain.cobs) := map (map f) tr in
  filter (fun e => match e with Chain.KCall _ _ | Chain.KHDone _ _ _ => true | _ => false end)
         (nth 5 tr []) =
    [Chain.KHDone 1 0 (Server.BOk 41); Chain.KHDone 1 1 (Server.BOk 42);
     Chain.KHDone 0 0 (Server.BOk 41); Chain.KHDone 0 1 (Server.BOk 42);
     Chain.KCall 0 (Client.CDone (Client.OReply 41)); Chain.KCall 1 (Client.CDone (Client.OReply 42))]
  /\ ChainRespSpec.c01c_ok 3 ops tr = true
  /\ ChainRespSpec.c01c_body 3 ops
       (mut (fun e => match e with
                      | Chain.KCall 0 (Client.CDone (Client.OReply 41)) =>
                        Chain.KCall 0 (Client.CDone (Client.OReply 42))
                      | _ => e end)) = false
  /\ ChainRespSpec.c01c_val 3 ops
       (mut (fun e => match e with
                      | Chain.KHDone 1 0 (Server.BOk 41) => Chain.KHDone 1 0 (Server.BOk 43)
                      | _ => e end)) = false
  /\ ChainRespSpec.c01c_once 3 ops
       (mut (fun e => match e with
                      | Chain.KCall 1 (Client.CDone (Client.OReply 42)) =>
                        Chain.KCall 0 (Client.CDone (Client.OReply 41))
                      | _ => e end)) = false.
Proof. vm_compute. repeat split; reflexivity. Qed.

Print Assumptions C01_chain_value_provenance.

(* (ii) a head call resolves (KCall j (CDone _)) at most once and never after it was abandoned:
   every depth, every op list, EVERY state (tainted or not; no hypothesis).  It rests on the
   permit-waiter invariant of the client in all states (ClientWaiters.winv_step, for every
   transport): a call that is over is never a waiter, so no permit release or queue close
   revives it, and polling it returns nothing. *)
Theorem C01_chain_once : forall (d : nat) (ops : list Chain.cop),
  ChainRespSpec.c01c_once d ops (fst (Chain.run d ops)) = true.
Proof. exact ChainResp4.chain_resp_once_all. Qed.
Print Assumptions C01_chain_once.

(* (i) with the request identified, fewer than 2^64 - 1 ops, owed while the run is untainted
   (Chain.mo_tainted): when head call j resolves with Ok v, a handler of node 0 that served a
   request with head call j's body finished with v before; when a handler of a non-leaf node i
   (serving a request with body b) finishes with Ok v, a handler of node i+1 that served a request
   with body b finished with v before.  The proof goes through the request identity, not the
   body: the value sits in the oneshot slot of the call's request id; the value under id `id` on
   node i was produced by the handler incarnation whose yield has that id (value provenance with
   ids); that yield was written into link i with the same id and body (C08_chain_yield_written);
   and while ids do not wrap, the call holding id `id` on client i has the body under which `id`
   was queued and written (ChainIds.idc).  Bodies are carried verbatim from the head call / the
   yielded request to the call that is made for them.  So a reply is never delivered to a call it
   was not produced for - also when bodies coincide, the statement only names bodies. *)
Theorem C01_chain_body : forall (d : nat) (ops : list Chain.cop),
  ChainSpec.chain_no_wrap ops -> ChainRespSpec.c01c_body d ops (fst (Chain.run d ops)) = true.
Proof. exact ChainResp6.chain_resp_body. Qed.

(* the monitor as a whole (value provenance, body, once, and the three C08 flags): every depth, every
   op list of fewer than 2^64 - 1 ops *)
Theorem C01_chain_resp : forall (d : nat) (ops : list Chain.cop),
  ChainSpec.chain_no_wrap ops -> ChainRespSpec.c01c_ok d ops (fst (Chain.run d ops)) = true.
Proof. exact ChainResp6.chain_resp. Qed.
Print Assumptions C01_chain_body.
Print Assumptions C01_chain_resp.
