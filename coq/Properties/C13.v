(* C13  Per-key channel limit is never exceeded nor over-applied.
   Statements only; every proof is `exact <lemma of PerKeyProofs>`. The model is the repaired
   machine (fixed = true), which is what /repo contains after the fix: commit; the
   correspondence check ties it to the code on every run. *)
From Coq Require Import List Arith.
Import ListNotations.
From TarpcV Require Import PerKey PerKeyProofs PerKeyRace PerKeyRaceProofs PerKeyRaceFlow PerKeyRaceTerm.

(* for every n >= 1 and every sequence of arrivals, closes, polls and listener end:
   the monitor (never more than n alive per key at a yield; a shed only with exactly n alive;
   no poll runs out of fuel) accepts the whole observation trace *)
Theorem C13_monitor : forall n ops, 1 <= n -> c13_ok n ops (fst (run true n ops)) = true.
Proof. exact c13_monitor_holds. Qed.

(* state form: in every reachable state each key has at most n live yielded channels *)
Theorem C13_alive_le_n : forall n ops k, 1 <= n -> alive k (chans (snd (run true n ops))) <= n.
Proof. exact c13_alive_le_n. Qed.

(* closed channels free capacity: below n, the next arrival of that key is admitted *)
Theorem C13_accept_below_n : forall n ops k, 1 <= n ->
  let s := snd (run true n ops) in
  hd_error (arrivals s) = Some k -> alive k (chans s) < n ->
  exists cid, fst (poll_listener s) = LYield cid.
Proof. exact c13_accept_below_n. Qed.

(* documentation of the defect repaired by the fix: commit: the pinned poll_closed_channels *)
Theorem C13_prefix_refuted :
  alive 7 (chans (snd (run false 1 c13_witness))) = 2
  /\ c13_ok 1 c13_witness (fst (run false 1 c13_witness)) = false.
Proof. exact c13_prefix_refuted. Qed.

(* non-vacuity: a run that yields, sheds at the limit, frees and re-admits *)
Example C13_nonvacuous :
  fst (run true 1 [Arrive 7; Poll; Arrive 7; Poll; Close 0; Poll; Arrive 7; Poll])
  = [[]; [OYield 0 7]; []; [OShed 7; OPending]; []; [OPending]; []; [OYield 1 7]].
Proof. vm_compute. reflexivity. Qed.

(* ---- concurrent channel drops (PerKeyRace.v): other threads drop TrackedChannels between the
   atomic actions of the listener task (read strong_count, Weak::upgrade, receive a notification,
   examine the entry); every op list = every interleaving.  Tied to the code by part `race`
   (yield points of hook H5 between the atomic actions; Checks/C13rcheck.v); assumed: strong_count()/upgrade() are each atomic, upgrade()
   succeeds iff the count is > 0 at that instant, Tracker::drop runs exactly when the count reaches 0,
   dropped_keys is linearizable, only the listener task touches key_counts (Pin<&mut Self>). ---- *)
Theorem C13_race_alive_le_n : forall n ops k, 1 <= n ->
  alive k (chans (rb (snd (rrun n ops)))) <= n.
Proof. exact race_alive_le_n. Qed.

Theorem C13_race_monitor : forall n ops, 1 <= n ->
  c13_ok n (map to_op ops) (decision_view (fst (rrun n ops))) = true.
Proof. exact race_monitor_decision. Qed.

(* a shed is decided only on a count of n read in the state the deciding action ran in *)
Theorem C13_race_shed_only_if_was_full : forall n pre o k, 1 <= n ->
  let s := snd (rrun n pre) in
  In (OShed k) (fst (snd (rstep s o))) -> alive k (chans (rb s)) = n.
Proof. exact race_shed_only_if_was_full. Qed.

(* the sequential clause "n alive when the shed is observed" is false under the race if the shed is
   observed when poll_next finishes the iteration: conservative, never over the limit *)
Theorem C13_race_shed_at_report_refuted :
  c13_ok 1 (map to_op race_witness) (report_view (fst (rrun 1 race_witness))) = false
  /\ c13_ok 1 (map to_op race_witness) (decision_view (fst (rrun 1 race_witness))) = true
  /\ report_view (fst (rrun 1 race_witness)) = [[]; []; [OYield 0 7]; []; []; []; []; [OShed 7]]
  /\ alive 7 (chans (rb (snd (rrun 1 race_witness)))) = 0.
Proof. exact race_shed_at_report_refuted. Qed.

Theorem C13_race_accept_below_n : forall n ops k, 1 <= n ->
  let s := snd (rrun n ops) in
  pc s = PcIdle \/ pc s = PcLoop ->
  hd_error (arrivals (rb s)) = Some k -> alive k (chans (rb s)) < n ->
  (exists cid, fst (snd (rstep s RListener)) = [OYield cid k])
  \/ (exists t, pc (fst (rstep s RListener)) = PcUpgrade k t).
Proof. exact race_accept_below_n. Qed.

Theorem C13_race_accept_after_read : forall env s k t,
  pc s = PcUpgrade k t -> (forall o, In o env -> o <> RListener) ->
  let s1 := snd (rrun_from s env) in
  pc s1 = PcUpgrade k t /\ fst (snd (rstep s1 RListener)) = [OYield (next_cid (rb s1)) k].
Proof. exact race_accept_after_read. Qed.

(* control flow the `race` driver relies on when it turns the yield points that fired (hook H5) into
   the number of listener actions between them; the correspondence also compares the program counter
   after every action *)
Theorem C13_race_pc_flow : forall s,
  let s' := fst (lstep s) in
  match pc s with
  | PcIdle | PcLoop => (exists k t, pc s' = PcUpgrade k t) \/ (exists l, pc s' = PcClosed l)
  | PcUpgrade _ _ => exists l, pc s' = PcClosed l
  | PcClosed l => (exists k, pc s' = PcCheck l k) \/ at_top (pc s')
  | PcCheck _ _ => at_top (pc s')
  end.
Proof. exact race_pc_flow. Qed.

Theorem C13_race_env_keeps_pc : forall s o, o <> RListener -> pc (fst (rstep s o)) = pc s.
Proof. exact race_env_keeps_pc. Qed.

(* poll_next of the race model returns: with no interference, from any point of its loop, within
   4 * (pending arrivals + queued notifications) + 5 atomic actions of the listener *)
Theorem C13_race_poll_terminates : forall fuel s, phi s < fuel ->
  exists n, 1 <= n <= fuel /\ pc (lsteps n s) = PcIdle.
Proof. exact race_poll_terminates. Qed.

Theorem C13_race_poll_bound : forall s,
  exists n, 1 <= n <= 4 * mu (rb s) + 5 /\ pc (lsteps n s) = PcIdle.
Proof. exact race_poll_bound. Qed.

Print Assumptions C13_monitor.
Print Assumptions C13_alive_le_n.
Print Assumptions C13_accept_below_n.
Print Assumptions C13_prefix_refuted.
Print Assumptions C13_race_alive_le_n.
Print Assumptions C13_race_monitor.
Print Assumptions C13_race_shed_only_if_was_full.
Print Assumptions C13_race_shed_at_report_refuted.
Print Assumptions C13_race_accept_below_n.
Print Assumptions C13_race_accept_after_read.
Print Assumptions C13_race_pc_flow.
Print Assumptions C13_race_env_keeps_pc.
Print Assumptions C13_race_poll_terminates.
Print Assumptions C13_race_poll_bound.
