(* C13  Per-key channel limit is never exceeded nor over-applied.
   Statements only; every proof is `exact <lemma of PerKeyProofs>`. The model is the repaired
   machine (fixed = true), which is what /repo contains after the fix: commit; the
   correspondence check ties it to the code on every run. *)
From Coq Require Import List Arith.
Import ListNotations.
From TarpcV Require Import PerKey PerKeyProofs.

(* for every n >= 1 and every sequence of arrivals, closes, polls and listener end:
   the monitor (never more than n alive per key at a yield; a shed only with exactly n alive;
   no poll runs out of fuel) accepts the whole observation trace *)
Theorem C13_monitor : forall n ops, 1 <= n -> c13_ok n ops (fst (run true n ops)) = true.
Proof. exact c13_monitor_holds. Qed.

(* state form: in every reachable state each key has at most n live yielded channels *)
Theorem C13_alive_le_n : forall n ops k, 1 <= n -> alive k (chans (snd (run true n ops))) <= n.
Proof. exact c13_alive_le_n. Qed.

(* closed channels free capacity: below n, the next arrival of that key is admitted *)
Theorem C13_accept_below_n : forall n ops k, 1 <= n ->
  let s := snd (run true n ops) in
  hd_error (arrivals s) = Some k -> alive k (chans s) < n ->
  exists cid, fst (poll_listener s) = LYield cid.
Proof. exact c13_accept_below_n. Qed.

(* documentation of the defect repaired by the fix: commit: the pinned poll_closed_channels *)
Theorem C13_prefix_refuted :
  alive 7 (chans (snd (run false 1 c13_witness))) = 2
  /\ c13_ok 1 c13_witness (fst (run false 1 c13_witness)) = false.
Proof. exact c13_prefix_refuted. Qed.

(* non-vacuity: a run that yields, sheds at the limit, frees and re-admits *)
Example C13_nonvacuous :
  fst (run true 1 [Arrive 7; Poll; Arrive 7; Poll; Close 0; Poll; Arrive 7; Poll])
  = [[]; [OYield 0 7]; []; [OShed 7; OPending]; []; [OPending]; []; [OYield 1 7]].
Proof. vm_compute. reflexivity. Qed.

Print Assumptions C13_monitor.
Print Assumptions C13_alive_le_n.
Print Assumptions C13_accept_below_n.
Print Assumptions C13_prefix_refuted.
