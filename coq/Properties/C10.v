(* C10  Shutdown is orderly: queued work is drained first.  Statements only.
   Client half: ClientProofsG3*.v.  Server half: see the server section. *)
From Coq Require Import List Bool Arith NArith.
Import ListNotations.
From TarpcV Require Import Base Transport Client ClientS ClientMon ClientSpec ClientProofsG3.

(* Client dispatch.  For EVERY transport, configuration and op list (< 2^64 ops) the C10 monitor
   accepts the run:
   - nothing is written after poll_close was first called;
   - poll_close is called only when no handle and no live call future is left (so nothing can be
     queued any more), every call is done or abandoned, and every abandoned call whose request
     went out has had its cancellation written, or its request had already ended (answered,
     failed to write, deadline or timer span passed): queued requests and cancellations are
     transmitted BEFORE the write side is closed;
   - the dispatch completes successfully only in a poll that saw end-of-stream on the read side
     or a completed poll_close;
   - once the dispatch has been dropped (which is what an executor does with a finished future)
     or has failed, no caller is left pending. *)
Theorem C10_client_monitor : forall (T : Type) (tp : transport T cmsg resp)
    (fuel_of : cstate (T := T) -> nat) (t0 : T) (qcap maxif : nat) (ops : list (op (T := T))),
  no_wrap ops ->
  c10_ok maxif ops (client_trace tp fuel_of t0 qcap maxif ops) = true.
Proof. exact (fun T => @c10_orderly_shutdown T). Qed.

(* non-vacuity: an abandoned in-flight call and a queued one when the last handle goes away:
   the queued request and the cancellation are written, then the write side is closed *)
Example C10_nonvacuous :
  let ops := [SCall 0 50 7 true 1; SPollCall 0; SPollD; SCall 0 50 8 true 2; SPollCall 1;
              SDropCall 0; SDropH 0; SPollD; STr (TDeliver (mkresp 1 (BOk 5))); SPollD;
              SPollCall 1; SPollD] in
  let tr := crun (mkcfg 2 2 0 true) ops in
  nth 7 tr [] = [OCalls [CNext RPending; CReady TOk; CSend (MReq 1 50 (mktc 8 1 true) 2) SOk;
                         CNext RPending; CReady TOk;
                         CSend (MCancel 0 (mktc 7 0 true)) SOk;
                         CNext RPending; CReady TOk; CReady TOk; CFlush TOk];
                 ODisp DPending; OGauge 1 1]
  /\ nth 11 tr [] = [OCalls [CNext RPending; CReady TOk; CReady TOk; CClose TOk];
                     ODisp (DReady DOk); OGauge 0 0]
  /\ c10_ok 2 (map to_op ops) tr = true.
Proof. vm_compute. repeat split; reflexivity. Qed.


(* ------------------------------------------------------------------------------------------ *)
(* Server half (model: Server.v; proofs: Server*.v; statements restated from ServerProps.v).
   From here on unqualified names are the SERVER model's. *)
From TarpcV Require Import TimerWheel Server ServerMon ServerFuel ServerProps ServerWitness.

(* Server channel, every transport: BaseChannel::poll_next ends (yields None) only when the
   transport has reported end of stream and nothing is tracked any more (no timer, no queued
   server-side cancel).  (The full monitor - the Requests stream ends only after inbound EOF, no
   request in flight and a completed flush after the last write - is ServerSpec.stmt_s10; it runs
   on the real traces on every run and is proved below: C10_server_monitor.) *)
Theorem C10_server_base_end : forall (T : Type) (tp : transport T response cmsg) f (s s' : @sstate T),
  base_poll_next tp f s = (PEnd, s') ->
  s_fused s' = true /\ s_timers s' = [] /\ s_cancels s' = [].
Proof. exact ServerProps.C10_server_base_end. Qed.

From TarpcV Require Import ServerFuel ServerSpec ServerProofsPA4 ServerProofsPB6 ServerProofsPC10 ServerProofsPC3.

(* server MONITOR theorem: the Requests stream ends only after inbound end-of-stream was read,
   with no request in flight and a completed flush after the last write *)
Theorem C10_server_monitor : forall (T C : Type) (tp : transport T response cmsg) (ctl : T -> C -> T)
    (tfuel : T -> nat) (c : cfg) (t0 : T) (ops : list (op C)),
  tfuel_ok tp tfuel ->
  c10s_ok c ops (fst (run tp ctl tfuel c t0 ops)) = true.
Proof. exact s10_holds. Qed.

Print Assumptions C10_client_monitor.
Print Assumptions C10_server_base_end.
Print Assumptions C10_server_monitor.
