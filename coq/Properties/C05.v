(* C05  Client enforces request deadlines, never early.  Statements only. *)
From Coq Require Import List Bool Arith NArith.
Import ListNotations.
From TarpcV Require Import Base Transport Client ClientS ClientMon ClientMon2 ClientSpec ClientProofsG2
  ClientProofsG2p.

(* For every transport, configuration and op list (fewer than 2^64 ops), the C05 monitor accepts
   the run: a caller receives `ODeadline` only
   - for a request that was handed to the transport,
   - at a clock value >= its deadline (creation time + relative deadline), and
   - if no response for its id was read from the transport before that deadline
   (the last two for relative deadlines within the supported span MAX_TIMEOUT = 365 days; a
   longer deadline fires at the clamp, see DESIGN.md section 6, C05). The deadline is absolute:
   time spent queued before transmission counts against it. *)
Theorem C05_client_monitor : forall (T : Type) (tp : transport T cmsg resp)
    (fuel_of : cstate (T := T) -> nat) (t0 : T) (qcap maxif : nat) (ops : list (op (T := T))),
  no_wrap ops ->
  c05_ok maxif ops (client_trace tp fuel_of t0 qcap maxif ops) = true.
Proof. exact (fun T => @c05_proved T). Qed.

(* Promptness (to timer granularity, 1 ms): once a dispatch poll has returned Pending at clock
   T, a caller whose request had been written by then and whose deadline (or, beyond the
   supported span, the clamped timer 365 days after transmission) is <= T never again sees
   Pending: its call has been completed - with the deadline error unless something else ended
   it first.  (ClientMon2.c05p_ok; invariant: after a Pending poll no armed timer is due.) *)
Theorem C05_client_prompt : forall (T : Type) (tp : transport T cmsg resp)
    (fuel_of : cstate (T := T) -> nat) (t0 : T) (qcap maxif : nat) (ops : list (op (T := T))),
  no_wrap ops ->
  c05p_ok maxif ops (client_trace tp fuel_of t0 qcap maxif ops) = true.
Proof. exact (fun T => @c05p_proved T). Qed.

(* non-vacuity: not expired one millisecond before the deadline, expired at it; a reply that
   arrives in time wins *)
Example C05_nonvacuous :
  let ops := [SCall 0 10 7 true 1; SPollCall 0; SCall 0 10 8 true 2; SPollCall 1; SPollD;
              SAdv 9; SPollD; SPollCall 0; STr (TDeliver (mkresp 1 (BOk 5))); SPollD;
              SAdv 1; SPollD; SPollCall 0; SPollCall 1] in
  let tr := crun (mkcfg 2 2 0 true) ops in
  nth 7 tr [] = [OCall CPending] /\ nth 12 tr [] = [OCall (CDone ODeadline)]
  /\ nth 13 tr [] = [OCall (CDone (OReply 5))] /\ c05_ok 2 (map to_op ops) tr = true.
Proof. vm_compute. repeat split; reflexivity. Qed.

(* the monitor rejects an early expiry *)
Example C05_monitor_rejects_early :
  let ops := [SCall 0 10 7 true 1; SPollCall 0; SPollD; SAdv 9; SPollD; SPollCall 0] in
  let tr := crun (mkcfg 2 2 0 true) ops in
  let bad := firstn 5 tr ++ [[OCall (CDone ODeadline)]] in
  c05_ok 2 (map to_op ops) tr = true /\ c05_ok 2 (map to_op ops) bad = false.
Proof. vm_compute. split; reflexivity. Qed.

(* the promptness monitor rejects a caller left pending after the dispatch ran past its deadline *)
Example C05_prompt_rejects_stall :
  let ops := [SCall 0 10 7 true 1; SPollCall 0; SPollD; SAdv 11; SPollD; SPollCall 0] in
  let tr := crun (mkcfg 2 2 0 true) ops in
  let bad := firstn 5 tr ++ [[OCall CPending]] in
  c05p_ok 2 (map to_op ops) tr = true /\ c05p_ok 2 (map to_op ops) bad = false.
Proof. vm_compute. split; reflexivity. Qed.

Print Assumptions C05_client_monitor.
Print Assumptions C05_client_prompt.
