(* C15  Shipped transports deliver messages intact and in order.
   Statements only; every proof is `exact <lemma of WireProofs / FramingProofs / ShippedProofs /
   JsonTextProofs / JsonArrayProofs>`.
   The models (Wire.v, Framing.v, Shipped.v) describe /repo as it is now; GenChecks/C15.v ties
   the shapes and tables they use to the current sources, Checks/C15check.v ties their
   behaviour to the real codecs on every run. *)
From Coq Require Import String Ascii.
From Coq Require Import List NArith ZArith Bool.
Import ListNotations.
From TarpcV Require Import Base Schema Wire WireProofs JsonText JsonTextProofs JsonArrayProofs Framing FramingProofs Shipped ShippedProofs.

(* ---- MAIN THEOREM: the monitor accepts every run of the model ----
   For every configuration (codec or channel, every list of read-chunk sizes, every cut position)
   and every script of well-formed messages of one direction, raw payloads, reads, drops of the
   writing end (Close) and closes of it that keep it alive (CloseSink: poll_close, which must reach
   the byte stream -- OShut -- where the medium can signal a half-close: framed and bounded):
   what the reading end yields is exactly what was written, in order, then end-of-stream; of a
   stream cut inside a frame, exactly the whole frames (never a frame for the cut one), then
   the end.  (Whether that end is reported as an error is C16's clause: Shipped.wire_strict_ok.) *)
Theorem C15_monitor : forall c ops,
  Forall (op_wf (is_c2s ops)) ops ->
  c15_ok c ops (fst (run c ops)) = true.
Proof. exact c15_monitor_holds. Qed.

(* THE CLOSE CLAUSE in isolation: closing (Sink::poll_close, not dropping) the writing end of a
   framed transport makes the close reach the byte stream (OShut: poll_shutdown on the medium) and
   the reader see end-of-stream right after the last message *)
Theorem C15_close_signals_end : forall c ops,
  is_framed (codec c) = true -> cut c = 0%nat ->
  Forall (op_wf (is_c2s (ops ++ [CloseSink]))) ops ->
  Forall (fun o => match o with Close | CloseSink => False | _ => True end) ops ->
  exists items, last (fst (run c (ops ++ [CloseSink]))) [] = OShut :: items ++ [OEnd] /\
                ~ In OStreamErr items /\ ~ In OEnd items /\ ~ In OShut items.
Proof. exact c15_close_signals_end. Qed.

(* ---- THE FLUSH CLAUSE: byte streams that buffer internally (BufWriter / TLS-like) ----
   The monitor (frames_on_wire, part of c15_ok) demands that what reached the WIRE by the time the
   transport's poll_flush returned Ready(Ok) after a send is one complete frame; C15_monitor above
   covers it.  The layer below `step` justifies "a Send puts its frame on the wire" for a stream
   with a staging buffer, scripted partial writes and a flush that answers Pending any number of
   times (Shipped.bstream / wside / poll_flush). *)

(* every frame the model reports is a complete frame, for every configuration and script *)
Theorem C15_frames_on_wire : forall c ops, frames_on_wire (fst (run c ops)) = true.
Proof. exact run_frames_on_wire. Qed.

(* a Transport::poll_flush that returned Ready(Ok) left nothing behind: codec buffer and staging
   buffer are empty and everything that was in them is on the wire, in order *)
Theorem C15_flush_ready_means_on_wire : forall w w', poll_flush w = (PReady, w') ->
  w_buf w' = [] /\ b_stage (w_io w') = [] /\
  b_wire (w_io w') = b_wire (w_io w) ++ b_stage (w_io w) ++ w_buf w.
Proof. exact flush_ready_means_on_wire. Qed.

(* a Pending poll_flush loses and reorders nothing, puts nothing on the wire, and uses up script *)
Theorem C15_flush_pending_keeps_bytes : forall w w', poll_flush w = (PPending, w') ->
  b_wire (w_io w') = b_wire (w_io w) /\
  b_stage (w_io w') ++ w_buf w' = b_stage (w_io w) ++ w_buf w /\
  (length (w_wr w') + w_fl w' < length (w_wr w) + w_fl w)%nat.
Proof. exact flush_pending_keeps_bytes. Qed.

(* send a frame, poll the flush until Ready: it terminates for EVERY script of partial writes and
   Pending results, and exactly that frame was added to the wire *)
Theorem C15_send_flush_on_wire : forall w f, w_buf w = [] -> b_stage (w_io w) = [] -> exists w',
  flush_until_ready (S (length (w_wr w) + w_fl w)) (start_send_frame w f) = Some w' /\
  w_buf w' = [] /\ b_stage (w_io w') = [] /\ b_wire (w_io w') = b_wire (w_io w) ++ f.
Proof. exact send_flush_on_wire. Qed.

(* the seeded fast path (return Ready when the codec buffer is empty, without flushing the stream)
   is wrong: Ready with bytes still in the staging buffer and nothing on the wire *)
Theorem C15_flush_skipping_refuted : exists w w1 w2,
  poll_flush_skipping w = (PPending, w1) /\ poll_flush_skipping w1 = (PReady, w2) /\
  b_stage (w_io w2) <> [] /\ b_wire (w_io w2) = b_wire (w_io w).
Proof. exact flush_skipping_refuted. Qed.

(* in-memory channels need no hypothesis at all *)
Theorem C15_monitor_channels : forall c ops,
  is_framed (codec c) = false -> c15_ok c ops (fst (run c ops)) = true.
Proof. exact c15_monitor_channels. Qed.

(* ---- the two codecs: decode (encode m) = Some m, for every message value ---- *)

(* bincode DefaultOptions: every ClientMessage (both variants, every u64 id, every body, every
   trace context, every remaining Duration in u64 x [0,10^9)).  `explicit`: bincode cannot omit
   a field, so the deadline is present. *)
Theorem C15_bincode_roundtrip : forall m, cm_wf m -> explicit m ->
  exists bs, cm_bincode m = Some bs /\ cm_of_bincode bs = Some m.
Proof. exact bincode_roundtrip_cm. Qed.

(* ... and every Response; the only thing that may change is a non-portable error kind *)
Theorem C15_bincode_roundtrip_response : forall r, resp_wf r ->
  exists bs, resp_bincode r = Some bs /\ resp_of_bincode bs = Some (degrade_resp r).
Proof. exact bincode_roundtrip_resp. Qed.

(* serde_json at the level of value trees (the text layer follows below): every ClientMessage,
   including one whose deadline is omitted *)
Theorem C15_json_tree_roundtrip : forall m, cm_wf m ->
  exists j, cm_json m = Some j /\ cm_of_json j = Some m.
Proof. exact json_tree_roundtrip_cm. Qed.

Theorem C15_json_tree_roundtrip_response : forall r, resp_wf r ->
  exists j, resp_json r = Some j /\ resp_of_json j = Some (degrade_resp r).
Proof. exact json_tree_roundtrip_resp. Qed.

(* ---- serde_json's TEXT layer (JsonText.v: compact printer, total parser for the JSON subset
   tarpc's messages live in) ---- *)

(* parse (print j) = Some j for every tree whose strings are byte lists *)
Theorem C15_json_text_roundtrip : forall j, json_wf j = true -> json_parse (json_print j) = Some j.
Proof. exact json_text_roundtrip. Qed.

(* ... also with ANY whitespace string inserted at every token boundary and around the value *)
Theorem C15_json_text_roundtrip_ws : forall sp j, all_ws sp = true -> json_wf j = true ->
  json_parse (json_text_sp sp j) = Some j.
Proof. exact json_text_roundtrip_ws. Qed.

(* composed with the tree level: decode_text (encode_text m) = Some m for every ClientMessage
   (deadline present or omitted) and every Response (up to the kind degradation) *)
Theorem C15_json_text_roundtrip_message : forall m, cm_wf m ->
  exists t, cm_json_text m = Some t /\ cm_of_json_text t = Some m.
Proof. exact json_text_roundtrip_cm. Qed.

Theorem C15_json_text_roundtrip_response : forall r, resp_wf r ->
  exists t, resp_json_text r = Some t /\ resp_of_json_text t = Some (degrade_resp r).
Proof. exact json_text_roundtrip_resp. Qed.

Theorem C15_json_text_roundtrip_message_ws : forall sp m, all_ws sp = true -> cm_wf m ->
  exists j, cm_json m = Some j /\ cm_of_json_text (json_text_sp sp j) = Some m.
Proof. exact json_text_roundtrip_cm_ws. Qed.

Theorem C15_json_text_roundtrip_response_ws : forall sp r, all_ws sp = true -> resp_wf r ->
  exists j, resp_json r = Some j /\ resp_of_json_text (json_text_sp sp j) = Some (degrade_resp r).
Proof. exact json_text_roundtrip_resp_ws. Qed.

(* a Cancel written as TEXT without its trace_context, any whitespace *)
Theorem C15_json_text_cancel_no_trace : forall sp id, all_ws sp = true -> (id < u64_max1)%N ->
  cm_of_json_text (json_text_sp sp
     (JObj [("Cancel"%string, JObj [("request_id"%string, JNum (Z.of_N id))])]))
  = Some (CCancel default_trace id).
Proof. exact json_text_cancel_no_trace. Qed.

(* the parser rejects what is outside the grammar: 01, -0, 1.5, [1,], a lone surrogate, trailing
   garbage, a raw control character inside a string *)
Theorem C15_json_parse_rejects :
  json_parse [48; 49]%N = None /\
  json_parse [45; 48]%N = None /\
  json_parse [49; 46; 53]%N = None /\
  json_parse [91; 49; 44; 93]%N = None /\
  json_parse [34; 92; 117; 100; 56; 48; 48; 34]%N = None /\
  json_parse [123; 125; 32; 120]%N = None /\
  json_parse [34; 1; 34]%N = None.
Proof. exact json_parse_rejects. Qed.

(* ---- the ARRAY form: serde_json hands a JSON array to a struct's visit_seq, so a peer may write
   every struct and struct variant as the positional array of its fields (Duration as
   [secs,nanos]).  serde_json never prints it; the decoder must understand it. ---- *)

(* for ANY well-formed shape: the array form of a conforming value tree decodes to that tree *)
Theorem C15_json_array_form_schema : forall s, schema_wf s = true ->
  forall v, conforms false s v ->
  exists j, json_enc_arr s v = Some j /\ json_dec s j = Some v.
Proof. exact json_arr_roundtrip_generic. Qed.

(* decoding the array form of a message gives the message *)
Theorem C15_json_array_form_decodes : forall m, cm_wf m -> explicit m ->
  exists j, cm_json_arr m = Some j /\ cm_of_json j = Some m.
Proof. exact json_array_form_cm. Qed.

Theorem C15_json_array_form_decodes_response : forall r, resp_wf r ->
  exists j, resp_json_arr r = Some j /\ resp_of_json j = Some (degrade_resp r).
Proof. exact json_array_form_resp. Qed.

(* ... also as TEXT with any whitespace between the tokens *)
Theorem C15_json_array_form_text : forall sp m, all_ws sp = true -> cm_wf m -> explicit m ->
  exists j, cm_json_arr m = Some j /\ cm_of_json_text (json_text_sp sp j) = Some m.
Proof. exact json_array_form_text_cm. Qed.

Theorem C15_json_array_form_text_response : forall sp r, all_ws sp = true -> resp_wf r ->
  exists j, resp_json_arr r = Some j /\ resp_of_json_text (json_text_sp sp j) = Some (degrade_resp r).
Proof. exact json_array_form_text_resp. Qed.

(* positional decoding when the array is too short / too long: the missing trailing fields are
   taken from their #[serde(default)] iff ALL of them have one; left-over elements are an error *)
Theorem C15_json_array_trailing_defaults : forall fs, all_dflt fs = true ->
  json_dec_fields_seq fs [] = Some (repeat VDefault (fields_len fs)).
Proof. exact seq_trailing_defaults. Qed.
Theorem C15_json_array_too_short : forall fs, all_dflt fs = false -> json_dec_fields_seq fs [] = None.
Proof. exact seq_too_short. Qed.
Theorem C15_json_array_too_long : forall j l, json_dec_fields_seq FNil (j :: l) = None.
Proof. exact seq_too_long. Qed.

(* the protocol's own structs (no default is trailing in any of them, so no array may be short):
   the two inputs of audit finding F12, a too-short, a too-long and an empty Cancel, a Request
   whose context is an object without deadline inside an array, a context array that is too
   short, and an array-form Response *)
Theorem C15_json_array_form_examples :
  let z16 := JArr (repeat (JNum 0) 16) in
  let tc := JArr [z16; JNum 1; JStr (sbytes "Sampled")] in
  let t := {| t_trace := 0; t_span := 1; t_sampled := true |} in
  cm_of_json (JObj [("Cancel"%string, JArr [tc; JNum 7])]) = Some (CCancel t 7) /\
  cm_of_json (JObj [("Cancel"%string, JArr [tc])]) = None /\
  cm_of_json (JObj [("Cancel"%string, JArr [tc; JNum 7; JNull])]) = None /\
  cm_of_json (JObj [("Cancel"%string, JArr [])]) = None /\
  cm_of_json (JObj [("Request"%string,
      JArr [JArr [JArr [JNum 18446744073709551615; JNum 0]; tc]; JNum 1; JStr (sbytes "x")])])
    = Some (CRequest {| r_ctx := {| c_deadline := DlExplicit 18446744073709551615 0; c_trace := t |};
                        r_id := 1; r_body := sbytes "x" |}) /\
  cm_of_json (JObj [("Request"%string,
      JArr [JObj [("trace_context"%string, tc)]; JNum 1; JStr (sbytes "x")])])
    = Some (CRequest {| r_ctx := {| c_deadline := DlOmitted; c_trace := t |}; r_id := 1; r_body := sbytes "x" |}) /\
  cm_of_json (JObj [("Request"%string, JArr [JArr [tc]; JNum 1; JStr (sbytes "x")])]) = None /\
  resp_of_json (JArr [JNum 3; JObj [("Err"%string, JArr [JNum 10; JStr (sbytes "busy")])]])
    = Some {| resp_id := 3; resp_msg := RErr {| e_kind := WouldBlock; e_detail := sbytes "busy" |} |}.
Proof. exact array_form_examples. Qed.

(* both round trips hold for ANY shape that satisfies the generated side condition schema_wf *)
Theorem C15_bincode_roundtrip_schema : forall s, schema_wf s = true ->
  forall v, conforms false s v -> forall rest,
  exists b, bin_enc s v = Some b /\ bin_dec s (b ++ rest) = Some (v, rest).
Proof. exact bin_roundtrip_schema. Qed.

Theorem C15_json_tree_roundtrip_schema : forall s, schema_wf s = true ->
  forall v, conforms true s v ->
  exists j, json_enc s v = Some j /\ json_dec s j = Some v.
Proof. exact json_roundtrip_schema. Qed.

(* ---- error kinds: the 18 portable kinds round-trip exactly, every other kind degrades to
   Other, every code >= 18 reads as Other ---- *)
Theorem C15_kinds_degrade :
  (forall c, (c < 18)%N -> kind_code (kind_of_code c) = c /\ portable (kind_of_code c) = true) /\
  (forall k, kind_of_code (kind_code k) = degrade_kind k) /\
  (forall c, (18 <= c)%N -> kind_of_code c = Other) /\
  (forall k, portable k = false -> kind_code k = 16%N /\ degrade_kind k = Other) /\
  (forall k, portable k = true -> degrade_kind k = k).
Proof. exact kinds_degrade_holds. Qed.

(* ---- optional fields: a Cancel without trace_context, a Request without deadline ---- *)
Theorem C15_optional_cancel_trace : forall id, (id < u64_max1)%N ->
  cm_of_json (JObj [("Cancel"%string, JObj [("request_id"%string, JNum (Z.of_N id))])])
  = Some (CCancel default_trace id).
Proof. exact optional_cancel_trace. Qed.

Theorem C15_optional_deadline : forall t id body, trace_wf t -> (id < u64_max1)%N -> body_wf body ->
  exists jt, json_enc trace_shape (trace_to_val t) = Some jt /\
  cm_of_json (JObj [("Request"%string,
                     JObj [("context"%string, JObj [("trace_context"%string, jt)]);
                           ("id"%string, JNum (Z.of_N id)); ("message"%string, JStr body)])])
  = Some (CRequest {| r_ctx := {| c_deadline := DlOmitted; c_trace := t |}; r_id := id; r_body := body |}).
Proof. exact optional_deadline. Qed.

Theorem C15_unknown_fields_ignored : forall id extra, (id < u64_max1)%N ->
  cm_of_json (JObj [("Cancel"%string, JObj [("zzz"%string, extra); ("request_id"%string, JNum (Z.of_N id))])])
  = Some (CCancel default_trace id).
Proof. exact unknown_fields_ignored. Qed.

(* ---- framing: every chunking of the byte stream ---- *)

(* for all payload lists and ALL splittings of the concatenated frames into chunks (empty chunks
   = Pending reads), the incremental decoder yields exactly the payloads, in order, then
   end-of-stream *)
Theorem C15_framing_any_chunking : forall max ps chunks,
  (max < 4294967296)%N ->
  Forall (fun p => (blen p <= max)%N) ps ->
  concat chunks = stream_of ps ->
  read_stream max chunks = map FFrame ps ++ [FEnd].
Proof. exact framing_any_chunking_holds. Qed.

(* a stream that ends inside a frame: the whole frames, never a frame for the cut one, then an
   error -- EXCEPT when exactly the 4-byte header of a non-empty frame was read, where
   tokio-util's decode_eof reports a clean end-of-stream (see C15_truncated_header_refuted) *)
Theorem C15_framing_truncated_tail : forall max ps p tail rest chunks,
  (max < 4294967296)%N ->
  Forall (fun p => (blen p <= max)%N) ps -> (blen p <= max)%N ->
  tail <> [] -> rest <> [] -> frame p = tail ++ rest ->
  concat chunks = stream_of ps ++ tail ->
  read_stream max chunks =
    map FFrame ps ++ (if Nat.eqb (length tail) 4 then [FEnd] else [FError; FEnd]).
Proof. exact framing_truncated_holds. Qed.

(* "a truncated tail is an error" is FALSE of the faithful model in that one corner *)
Theorem C15_truncated_header_refuted :
  read_stream max_frame_default [[0; 0; 0; 3; 1; 2; 3; 0; 0; 0; 5]%N] = [FFrame [1; 2; 3]%N; FEnd].
Proof. exact framing_header_only_refuted. Qed.

(* a header announcing more than the 8 MiB cap is an error, never a frame *)
Theorem C15_framing_oversize : forall max ps a b c d junk chunks,
  (max < 4294967296)%N ->
  Forall (fun p => (blen p <= max)%N) ps ->
  (max < be32_val a b c d)%N ->
  concat chunks = stream_of ps ++ a :: b :: c :: d :: junk ->
  read_stream max chunks = map FFrame ps ++ [FError; FEnd].
Proof. exact framing_oversize_holds. Qed.

Theorem C15_framing_total : forall max chunks, ~ In FFuel (read_stream max chunks).
Proof. exact framing_no_fuel_holds. Qed.

(* ---- in-memory channels: FIFO, and end-of-stream only after the writer is gone and the queue
   is drained, for every capacity and every op list ---- *)
Theorem C15_fifo : forall (A : Type) (eqb : A -> A -> bool),
  (forall a, eqb a a = true) ->
  forall cap (ops : list (ch_op A)), fifo_ok eqb ops (ch_run cap ops) = true.
Proof. exact fifo_holds. Qed.

Theorem C15_fifo_order : forall (A : Type) cap (ops : list (ch_op A)),
  let tr := concat (ch_run cap ops) in
  let delivered := flat_map (fun o => match o with ChItem a => [a] | _ => [] end) tr in
  exists queued,
    delivered ++ queued =
    flat_map (fun p => match p with (ChSend a, [ChSent]) => [a] | _ => [] end)
             (combine ops (ch_run cap ops)).
Proof. exact fifo_order_holds. Qed.

(* ---- the defect repaired by commit 4f0943b (kind written as i32, read as u32), on the
   pre-fix shape: it violates the side condition, and the shipped bincode codec turns
   WouldBlock into Other and PermissionDenied into ConnectionRefused ---- *)
Theorem C15_kind_i32_prefix_refuted :
  schema_wf response_shape_prefix = false /\
  resp_roundtrip_bincode_prefix {| resp_id := 3; resp_msg := RErr {| e_kind := WouldBlock; e_detail := [] |} |}
  = Some {| resp_id := 3; resp_msg := RErr {| e_kind := Other; e_detail := [] |} |} /\
  resp_roundtrip_bincode_prefix {| resp_id := 3; resp_msg := RErr {| e_kind := PermissionDenied; e_detail := [] |} |}
  = Some {| resp_id := 3; resp_msg := RErr {| e_kind := ConnectionRefused; e_detail := [] |} |}.
Proof.
  exact (conj prefix_shape_not_wf (proj2 kind_i32_refuted)).
Qed.

(* non-vacuity: a request through both codecs, byte for byte *)
Example C15_nonvacuous :
  let m := CRequest {| r_ctx := {| c_deadline := DlExplicit 10 5;
                                   c_trace := {| t_trace := 258; t_span := 300; t_sampled := true |} |};
                       r_id := 70000; r_body := [104; 105]%N |} in
  cm_bincode m = Some [0; 10; 5; 2; 1; 0; 0; 0; 0; 0; 0; 0; 0; 0; 0; 0; 0; 0; 0; 251; 44; 1; 0;
                       252; 112; 17; 1; 0; 2; 104; 105]%N /\
  obind (cm_bincode m) cm_of_bincode = Some m /\ obind (cm_json m) cm_of_json = Some m /\
  read_stream max_frame_default (split_chunks [1; 0; 3; 2]%nat (stream_of [[1; 2; 3]; []; [9]]%N))
  = [FFrame [1; 2; 3]%N; FFrame []; FFrame [9]%N; FEnd].
Proof. vm_compute. repeat split; reflexivity. Qed.

(* ---- part sock: the tcp / unix front ends with custom framing (SockFront.v) ---- *)
From TarpcV Require Import SockFront SockFrontProofs.
Theorem C15_sock_model_ok : forall ms, sk_ok ms (sk_model ms) = true.
Proof. exact sk_model_ok. Qed.

Theorem C15_sock_ok_only : forall ms tr, sk_ok ms tr = true -> tr = sk_model ms.
Proof. exact sk_ok_only. Qed.

Print Assumptions C15_monitor.
Print Assumptions C15_monitor_channels.
Print Assumptions C15_close_signals_end.
Print Assumptions C15_frames_on_wire.
Print Assumptions C15_flush_ready_means_on_wire.
Print Assumptions C15_flush_pending_keeps_bytes.
Print Assumptions C15_send_flush_on_wire.
Print Assumptions C15_flush_skipping_refuted.
Print Assumptions C15_bincode_roundtrip.
Print Assumptions C15_bincode_roundtrip_response.
Print Assumptions C15_json_tree_roundtrip.
Print Assumptions C15_json_tree_roundtrip_response.
Print Assumptions C15_json_text_roundtrip.
Print Assumptions C15_json_text_roundtrip_ws.
Print Assumptions C15_json_text_roundtrip_message.
Print Assumptions C15_json_text_roundtrip_response.
Print Assumptions C15_json_text_roundtrip_message_ws.
Print Assumptions C15_json_text_roundtrip_response_ws.
Print Assumptions C15_json_text_cancel_no_trace.
Print Assumptions C15_json_parse_rejects.
Print Assumptions C15_json_array_form_schema.
Print Assumptions C15_json_array_form_decodes.
Print Assumptions C15_json_array_form_decodes_response.
Print Assumptions C15_json_array_form_text.
Print Assumptions C15_json_array_form_text_response.
Print Assumptions C15_json_array_trailing_defaults.
Print Assumptions C15_json_array_too_short.
Print Assumptions C15_json_array_too_long.
Print Assumptions C15_json_array_form_examples.
Print Assumptions C15_bincode_roundtrip_schema.
Print Assumptions C15_json_tree_roundtrip_schema.
Print Assumptions C15_kinds_degrade.
Print Assumptions C15_optional_cancel_trace.
Print Assumptions C15_optional_deadline.
Print Assumptions C15_unknown_fields_ignored.
Print Assumptions C15_framing_any_chunking.
Print Assumptions C15_framing_truncated_tail.
Print Assumptions C15_truncated_header_refuted.
Print Assumptions C15_framing_oversize.
Print Assumptions C15_framing_total.
Print Assumptions C15_fifo.
Print Assumptions C15_fifo_order.
Print Assumptions C15_kind_i32_prefix_refuted.
Print Assumptions C15_sock_model_ok.
Print Assumptions C15_sock_ok_only.
