(* C11  Tracked request state is bounded and fully reclaimed.  Statements only.
   Client half: ClientProofsG1C11.v, ClientProofsG1Rec.v.  Server half: see the server section. *)
From Coq Require Import List Bool Arith NArith.
Import ListNotations.
From TarpcV Require Import Base Transport Client ClientS ClientMon ClientSpec
  ClientProofsG1C11 ClientProofsG1Rec.

(* Client dispatch, EVERY transport, configuration and op list, NO hypothesis: after every
   dispatch poll the number of tracked (transmitted-and-unfinished) requests is at most the
   configured maximum, and the number of pending deadline timers equals it (no timer-only and
   no entry-only leak). *)
Theorem C11_client_bound : forall (T : Type) (tp : transport T cmsg resp)
    (fuel_of : cstate (T := T) -> nat) (t0 : T) (qcap maxif : nat) (ops : list (op (T := T))),
  Forall (fun os => forallb (gauge_ok maxif) os = true) (client_trace tp fuel_of t0 qcap maxif ops).
Proof. exact (fun T => @c11_bound_holds T). Qed.

(* ... and (fewer than 2^64 ops) the full C11 monitor accepts the run: in addition, whenever every
   call is done or abandoned and the dispatch has gone idle after a poll in which every sink
   answer was Ok and no failure was ever seen, zero requests and zero timers remain - without
   waiting for any deadline. *)
Theorem C11_client_monitor : forall (T : Type) (tp : transport T cmsg resp)
    (fuel_of : cstate (T := T) -> nat) (t0 : T) (qcap maxif : nat) (ops : list (op (T := T))),
  no_wrap ops ->
  c11_ok maxif ops (client_trace tp fuel_of t0 qcap maxif ops) = true.
Proof. exact (fun T => @c11_holds T). Qed.

(* non-vacuity: the limit is reached, a third call waits; everything is reclaimed by reply,
   cancellation and expiry-free abandonment *)
Example C11_nonvacuous :
  let ops := [SCall 0 500 7 true 1; SPollCall 0; SCall 0 500 8 true 2; SPollCall 1;
              SCall 0 500 9 true 3; SPollCall 2; SPollD;
              STr (TDeliver (mkresp 0 (BOk 5))); SDropCall 1; SPollD; SPollCall 0; SDropCall 2; SPollD] in
  let tr := crun (mkcfg 3 2 0 true) ops in
  last (nth 6 tr []) OPanic = OGauge 2 2 /\ last (nth 9 tr []) OPanic = OGauge 1 1
  /\ last (nth 12 tr []) OPanic = OGauge 0 0 /\ c11_ok 2 (map to_op ops) tr = true.
Proof. vm_compute. repeat split; reflexivity. Qed.


(* ------------------------------------------------------------------------------------------ *)
(* Server half (model: Server.v; proofs: Server*.v; statements restated from ServerProps.v).
   From here on unqualified names are the SERVER model's. *)
From TarpcV Require Import TimerWheel Server ServerMon ServerState ServerFuel ServerProps ServerWitness.

(* Server channel, EVERY transport, configuration and op list: in every reachable state the
   deadline-timer queue and the request table hold the same ids (no timer-only and no entry-only
   leak), and the two gauges agree after every op.  (The full monitor - in_flight equals the
   yielded incarnations not yet answered, cancelled, expired or abandoned, outside the K2 class -
   is ServerSpec.stmt_s11_rel / stmt_s11; it runs on the real traces on every run and is proved
   below: C11_server_monitor_rel, C11_server_monitor, and through execute() the *_exec forms.) *)
Theorem C11_server_timers_track_requests : forall (T C : Type) (tp : transport T response cmsg)
    (ctl : T -> C -> T) (tfuel : T -> nat) (c : cfg) (t0 : T) (ops : list (op C)),
  let s := snd (run tp ctl tfuel c t0 ops) in
  map fst (s_timers s) = map e_id (s_inflight s)
  /\ forallb gauges_agree (fst (run tp ctl tfuel c t0 ops)) = true.
Proof. exact ServerProps.C11_server_timers_track_requests. Qed.

(* K2 (known finding): at its limit with the sink not ready the limiter does not poll the inner
   channel, so an expired request stays tracked *)
Theorem C11_server_K2_witness :
  c11s_ok k2_cfg k2_ops (tr_of k2_cfg k2_ops) = false
  /\ c11s_rel_ok k2_cfg k2_ops (tr_of k2_cfg k2_ops) = true
  /\ limiter_blocked_on_sink k2_cfg k2_ops (tr_of k2_cfg k2_ops) = true.
Proof. destruct k2_witness as (_ & _ & A & B & C & _). repeat split; assumption. Qed.

From TarpcV Require Import ServerFuel ServerSpec ServerProofsPA4 ServerProofsPB6 ServerProofsPC10 ServerProofsPC3.

(* server MONITOR theorems: after every op the in-flight gauge lies between the incarnations that
   are surely still open and those possibly open, equals the timer gauge, and after a complete
   idle poll equals exactly the yielded incarnations not yet answered, cancelled, expired or
   abandoned; c11s_rel_ok exempts the K2 polls, c11s_ok is full strength outside that class *)
Theorem C11_server_monitor_rel : forall (T C : Type) (tp : transport T response cmsg) (ctl : T -> C -> T)
    (tfuel : T -> nat) (c : cfg) (t0 : T) (ops : list (op C)),
  tfuel_ok tp tfuel ->
  c11s_rel_ok c ops (fst (run tp ctl tfuel c t0 ops)) = true.
Proof. exact s11_rel_holds. Qed.

Theorem C11_server_monitor : forall (T C : Type) (tp : transport T response cmsg) (ctl : T -> C -> T)
    (tfuel : T -> nat) (c : cfg) (t0 : T) (ops : list (op C)),
  tfuel_ok tp tfuel ->
  limiter_blocked_on_sink c ops (fst (run tp ctl tfuel c t0 ops)) = false ->
  c11s_ok c ops (fst (run tp ctl tfuel c t0 ops)) = true.
Proof. exact s11_holds. Qed.

(* for a channel driven through tarpc's own execute() (ServerExec.v: futures TakeWhile/FilterMap/Map
   transcribed, tied to the real Channel::execute by the srvx driver): stops_after_error is
   discharged, only B1 (and the known class) remains *)
From TarpcV Require Import ServerExec ServerExecProofs ServerExecProofs2.
Theorem C11_server_monitor_rel_exec : forall (T C : Type) (tp : transport T response cmsg) (ctl : T -> C -> T)
    (tfuel : T -> nat) (c : cfg) (t0 : T) (eops : list (eop C)),
  tfuel_ok tp tfuel ->
  let ops := exec_ops tp ctl tfuel c t0 eops in
  let v := observe c ops (exec_trace tp ctl tfuel c t0 eops) in
  c11s_rel_ok c ops (exec_trace tp ctl tfuel c t0 eops) = true
  /\ h_stop v = true /\ v_bad v = false /\ (h_b1 v = true -> v11_rel v = true).
Proof. exact ServerExecProofs2.C11_server_monitor_rel_exec. Qed.

Theorem C11_server_monitor_exec : forall (T C : Type) (tp : transport T response cmsg) (ctl : T -> C -> T)
    (tfuel : T -> nat) (c : cfg) (t0 : T) (eops : list (eop C)),
  tfuel_ok tp tfuel ->
  let ops := exec_ops tp ctl tfuel c t0 eops in
  let v := observe c ops (exec_trace tp ctl tfuel c t0 eops) in
  limiter_blocked_on_sink c ops (exec_trace tp ctl tfuel c t0 eops) = false ->
  c11s_ok c ops (exec_trace tp ctl tfuel c t0 eops) = true
  /\ h_stop v = true /\ v_bad v = false /\ (h_b1 v = true -> v11 v = true).
Proof. exact ServerExecProofs2.C11_server_monitor_exec. Qed.

Print Assumptions C11_server_monitor_rel_exec.
Print Assumptions C11_server_monitor_exec.
Print Assumptions C11_client_bound.
Print Assumptions C11_client_monitor.
Print Assumptions C11_server_timers_track_requests.
Print Assumptions C11_server_K2_witness.
Print Assumptions C11_server_monitor_rel.
Print Assumptions C11_server_monitor.
