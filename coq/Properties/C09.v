(* C09  Transport failures are contained and reported.  Statements only.
   Client half: ClientProofsG3*.v.  Server half: see below / ServerProps.v. *)
From Coq Require Import List Bool Arith NArith.
Import ListNotations.
From TarpcV Require Import Base Transport Client ClientS ClientMon ClientSpec ClientProofsG3.

(* Client dispatch.  For EVERY transport, configuration and op list (< 2^64 ops) the C09 monitor
   accepts the run:
   - the first fatal failure is a poll_next error (ARead), a poll_ready error (AReady), a
     poll_flush error (AFlush), a poll_close error (AClose) or a failed write of a CANCELLATION
     (AWrite); a failed write of a request is not fatal and gives exactly that caller OSendErr;
   - after the first fatal failure the transport is never called again;
   - if the dispatch finishes, it finishes with DErr naming exactly that activity, and with DOk
     only if no failure was seen; every OConnErr a caller receives names that same activity;
   - once the dispatch has returned an error, or has been dropped, no caller poll answers
     Pending ever again (none hangs);
   - no panic and no unbounded poll is ever observed (the observation alphabet of the model
     contains neither; the monitor rejects them on implementation traces). *)
Theorem C09_client_monitor : forall (T : Type) (tp : transport T cmsg resp)
    (fuel_of : cstate (T := T) -> nat) (t0 : T) (qcap maxif : nat) (ops : list (op (T := T))),
  no_wrap ops ->
  c09_ok maxif ops (client_trace tp fuel_of t0 qcap maxif ops) = true.
Proof. exact (fun T => @c09_contained_and_reported T). Qed.

(* non-vacuity: a flush failure with one call in flight and one still queued behind the limit *)
Example C09_nonvacuous :
  let ops := [SCall 0 50 7 true 1; SPollCall 0; SCall 0 50 8 true 2; SPollCall 1;
              STr (TFail MFlush); SPollD; SPollCall 0; SPollCall 1; SCall 0 50 9 true 3; SPollCall 2] in
  let tr := crun (mkcfg 2 1 0 true) ops in
  nth 5 tr [] = [OCalls [CNext RPending; CReady TOk; CSend (MReq 0 50 (mktc 7 0 true) 1) SOk;
                         CNext RPending; CReady TOk; CFlush TErr];
                 ODisp (DReady (DErr AFlush)); OGauge 0 0]
  /\ nth 6 tr [] = [OCall (CDone (OConnErr AFlush))]
  /\ nth 7 tr [] = [OCall (CDone (OConnErr AFlush))]
  /\ nth 9 tr [] = [OCall (CDone OShutdown)]
  /\ c09_ok 1 (map to_op ops) tr = true.
Proof. vm_compute. repeat split; reflexivity. Qed.


(* ------------------------------------------------------------------------------------------ *)
(* Server half (model: Server.v; proofs: Server*.v; statements restated from ServerProps.v).
   From here on unqualified names are the SERVER model's. *)
From TarpcV Require Import TimerWheel Server ServerMon ServerFuel ServerProps ServerWitness.

(* Server channel: dropping the channel sets the abort flag of every tracked request, and an
   execute() whose flag is set never polls its handler again (Properties/C04.v,
   C04_aborted_never_progresses).  (The full monitor - a failing transport call ends the poll,
   which reports that activity; no transport call after it; nothing polled after the channel was
   dropped; no panic - is ServerSpec.stmt_s09; it runs on the real traces on every run and is
   proved below: C09_server_monitor, C09_server_monitor_exec.) *)
Theorem C09_server_drop_aborts : forall (T : Type) (s : @sstate T) e,
  s_dropped s = false -> In e (s_inflight s) -> In (e_h e) (s_aborted (drop_channel s)).
Proof. exact ServerProps.C09_server_drop_aborts. Qed.

From TarpcV Require Import ServerFuel ServerSpec ServerProofsPA4 ServerProofsPB6 ServerProofsPC10 ServerProofsPC3.

(* server MONITOR theorem: a failing transport call is the last call of its poll and the poll
   yields Err naming that call's activity; no transport call after it; after the channel was
   dropped no handler is polled; no panic, no unbounded poll (hypotheses B1, stops_after_error
   inside the monitor) *)
Theorem C09_server_monitor : forall (T C : Type) (tp : transport T response cmsg) (ctl : T -> C -> T)
    (tfuel : T -> nat) (c : cfg) (t0 : T) (ops : list (op C)),
  tfuel_ok tp tfuel ->
  c09s_ok c ops (fst (run tp ctl tfuel c t0 ops)) = true.
Proof. exact s09_holds. Qed.

(* the same for a channel driven through tarpc's own execute() (ServerExec.v), WITHOUT the
   hypothesis stops_after_error: it holds of every such run, only B1 remains *)
From TarpcV Require Import ServerExec ServerExecProofs.
Theorem C09_server_monitor_exec : forall (T C : Type) (tp : transport T response cmsg) (ctl : T -> C -> T)
    (tfuel : T -> nat) (c : cfg) (t0 : T) (eops : list (eop C)),
  tfuel_ok tp tfuel ->
  let ops := exec_ops tp ctl tfuel c t0 eops in
  let v := observe c ops (exec_trace tp ctl tfuel c t0 eops) in
  c09s_ok c ops (exec_trace tp ctl tfuel c t0 eops) = true
  /\ h_stop v = true /\ v_bad v = false /\ (h_b1 v = true -> v09 v = true).
Proof. exact ServerExecProofs.C09_server_monitor_exec. Qed.

(* ---- part ioerr: the byte stream under the shipped serde transport fails (ReadFault.v) ---- *)
From TarpcV Require Import ReadFault ReadFaultProofs.
Theorem C09_ioerr_model_ok : forall ids kind, rf_ok ids kind (rf_model ids kind) = true.
Proof. exact rf_model_ok. Qed.

Theorem C09_ioerr_shape : forall ids kind tr, rf_ok ids kind tr = true ->
  exists o i rest, tr = map IRecv ids ++ IErr o i :: rest.
Proof. exact rf_ok_shape. Qed.

Theorem C09_ioerr_clean_end_rejected : forall ids kind,
  rf_ok ids kind (map IRecv ids ++ [IEnd]) = false.
Proof. exact rf_clean_end_rejected. Qed.

Print Assumptions C09_client_monitor.
Print Assumptions C09_server_drop_aborts.
Print Assumptions C09_server_monitor.
Print Assumptions C09_server_monitor_exec.
Print Assumptions C09_ioerr_model_ok.
Print Assumptions C09_ioerr_shape.
Print Assumptions C09_ioerr_clean_end_rejected.
