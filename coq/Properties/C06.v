(* C06  Server enforces request deadlines, never early.  Statements only. *)
From Coq Require Import List Bool Arith NArith.
Import ListNotations.
From TarpcV Require Import Base Transport TimerWheel Server ServerMon ServerWitness.

(* K2 (known finding): at its limit with the sink not ready MaxRequests does not poll the inner
   channel, so an expired request stays tracked and its handler keeps running. *)
Theorem C06_limiter_blocked_on_sink_witness :
  c06_ok k2_cfg k2_ops (tr_of k2_cfg k2_ops) = false
  /\ c06_rel_ok k2_cfg k2_ops (tr_of k2_cfg k2_ops) = true
  /\ c11s_ok k2_cfg k2_ops (tr_of k2_cfg k2_ops) = false
  /\ c11s_rel_ok k2_cfg k2_ops (tr_of k2_cfg k2_ops) = true
  /\ limiter_blocked_on_sink k2_cfg k2_ops (tr_of k2_cfg k2_ops) = true
  /\ nth 6 (tr_of k2_cfg k2_ops) [] = [OHPolled 0; OExecPending 0; OGauges 1 1].
Proof. exact k2_witness. Qed.

Print Assumptions C06_limiter_blocked_on_sink_witness.
