(* C06  Server enforces request deadlines, never early.
   Statements only.  Proofs: coq/ServerState.v, coq/ServerSim4.v, coq/ServerSim7.v, coq/ServerWitness.v,
   coq/ServerProofsPB5.v, PB6.v (monitor theorems), coq/ServerExecProofs2.v (through execute()).

   Proved here (state form, every transport, every state):
     - the timer armed for a request is due at min(deadline, now + MAX_TIMEOUT) or later (the
       F5 clamp: a deadline more than 365 days away is enforced after 365 days), so
     - expiry (poll_expired) only ever takes a timer that is due: never early; it aborts exactly
       that request's handle and forgets exactly that request (frame: the others stay);
     - when BaseChannel::poll_next goes idle (Pending / None) no timer is due any more, and no
       server-side cancel is pending: every deadline that has passed has been enforced;
     - an aborted execute() never polls its handler again and buffers nothing (C04's lemma).
   K2 (known finding): with MaxRequests at its limit and the sink not ready the inner channel is
   not polled, so the third item does not happen until the sink is ready: witness theorem.
     - C06_never_early_monitor (trace form, by induction over op lists with the observer/model
       simulation invariant of ServerSim*.v): in EVERY run, for every transport whose fuel measure
       decreases with each item it hands out, the "never early" flag of the monitor stays true: no
       execute() ends without its handler having completed unless the request's Cancel was read,
       its deadline timer was due, or the channel was dropped; and the trace is well formed.
   Monitor theorems (proved, see the end of this file; also evaluated on the real traces on every run):
     C06_monitor_rel : forall c t0 ops, c06_rel_ok c ops (fst (srun c t0 ops)) = true
     C06_monitor     : forall c t0 ops, limiter_blocked_on_sink c ops (fst (srun c t0 ops)) = false ->
                                        c06_ok c ops (fst (srun c t0 ops)) = true
   The exact statements, for every transport, are pinned as ServerSpec.stmt_s06_rel / stmt_s06 (flag
   level: stmt_s_v06l_rel / stmt_s_v06l; the early clause v06e is C06_never_early_monitor below).
   Clock: the monitor theorems need no clock hypothesis (the observer ignores OOracle).  The generated
   scripts stay below 2^35 ms; the order oracle provably agrees with the model's due set up to
   2^36 - 1 - MAX_TIMEOUT = 37183476735 ms (C16_server_oracle_agrees_cfg); the DelayQueue's range
   beyond it is the environment hypothesis dq_env of C16. *)
From Coq Require Import List Bool Arith NArith.
Import ListNotations.
From TarpcV Require Import Base Transport TimerWheel Server ServerMon ServerFuel ServerWitness ServerSim4
     ServerSim7 ServerState ServerProps.

Theorem C06_timer_not_before_deadline :
  forall (T : Type) id dl (s : @sstate T) h s',
    start_request id dl s = Some (h, s') ->
    In (id, when_of (s_now s) dl) (s_timers s')
    /\ (N.min dl (s_now s + MAX_TIMEOUT) <= when_of (s_now s) dl)%N.
Proof. exact (@start_request_arms). Qed.

Theorem C06_expiry_never_early :
  forall (T : Type) (s s' : @sstate T),
    poll_expired s = (RSReady, s') ->
    exists id w, In (id, w) (s_timers s) /\ (w <= s_now s)%N
      /\ s_timers s' = drop_timer id (s_timers s) /\ s_inflight s' = drop_entry id (s_inflight s).
Proof. exact (@expiry_only_due). Qed.

Theorem C06_expiry_frame :
  forall (T : Type) (s s' : @sstate T) e,
    poll_expired s = (RSReady, s') -> In e (s_inflight s') -> In e (s_inflight s).
Proof. exact (@expiry_frame). Qed.

Theorem C06_idle_means_enforced :
  forall (T : Type) (tp : transport T response cmsg) f (s s' : @sstate T),
    base_poll_next tp f s = (PPending, s') -> s_cancels s' = [] /\ due s' = [].
Proof. intros T tp f s s' H. exact (base_complete tp f s _ s' H). Qed.

Theorem C06_never_early_monitor :
  forall (T C : Type) (tp : transport T response cmsg) (ctl : T -> C -> T) (tfuel : T -> nat)
         (c : cfg) (t0 : T) (ops : list (op C)),
    tfuel_ok tp tfuel ->
    let v := observe c ops (fst (run tp ctl tfuel c t0 ops)) in
    v_bad v = false /\ v06e v = true.
Proof. exact server_never_early. Qed.

(* the same for the instance the correspondence check runs *)
Theorem C06_never_early_scripted :
  forall c t0 ops,
    let v := observe c ops (fst (srun c t0 ops)) in v_bad v = false /\ v06e v = true.
Proof. intros c t0 ops. exact (server_never_early _ _ _ _ _ c t0 ops scripted_tfuel_ok). Qed.

(* K2 (known finding): at its limit with the sink not ready MaxRequests does not poll the inner
   channel, so an expired request stays tracked and its handler keeps running. *)
Theorem C06_limiter_blocked_on_sink_witness :
  c06_ok k2_cfg k2_ops (tr_of k2_cfg k2_ops) = false
  /\ c06_rel_ok k2_cfg k2_ops (tr_of k2_cfg k2_ops) = true
  /\ c11s_ok k2_cfg k2_ops (tr_of k2_cfg k2_ops) = false
  /\ c11s_rel_ok k2_cfg k2_ops (tr_of k2_cfg k2_ops) = true
  /\ limiter_blocked_on_sink k2_cfg k2_ops (tr_of k2_cfg k2_ops) = true
  /\ nth 6 (tr_of k2_cfg k2_ops) [] = [OHPolled 0; OExecPending 0; OGauges 1 1].
Proof. exact k2_witness. Qed.

(* non-vacuity: polled 1 ms before the deadline the request lives, at the deadline it is gone and
   its handler is aborted *)
Example C06_nonvacuous :
  fst (srun (mkcfg None 1) t_unbounded
        [OCtl (TDeliver (MReq 1 100 7 5)); OPoll; OHandlerPoll 0 SRun; OAdvance 99; OPoll;
         OHandlerPoll 0 SRun; OAdvance 1; OPoll; OHandlerPoll 0 SRun])
  = [[OGauges 0 0];
     [OCalls [CNext (RItem (MReq 1 100 7 5)); CReady TOk; CFlush TOk]; OYield 0 1 100 7 5; OGauges 1 1];
     [OHPolled 0; OExecPending 0; OGauges 1 1];
     [OGauges 1 1];
     [OCalls [CNext RPending; CReady TOk; CFlush TOk]; OPending; OGauges 1 1];
     [OHPolled 0; OExecPending 0; OGauges 1 1];
     [OGauges 1 1];
     [OCalls [CNext RPending; CNext RPending; CReady TOk; CFlush TOk]; OPending; OGauges 0 0];
     [OHDropped 0; OExecReady 0; OGauges 0 0]].
Proof. vm_compute. reflexivity. Qed.

From TarpcV Require Import ServerFuel ServerSpec ServerProofsPA4 ServerProofsPB6 ServerProofsPC10 ServerProofsPC3.

(* THE MONITOR THEOREMS.  Late clause: once a request's deadline has passed and the Requests stream
   has been polled to completion, its handler is never polled again and nothing is written for
   it.  c06_rel_ok exempts exactly the polls in which the limiter was blocked on a not-ready
   sink (K2, known finding); outside that class the full-strength monitor accepts. *)
Theorem C06_monitor_rel : forall (T C : Type) (tp : transport T response cmsg) (ctl : T -> C -> T)
    (tfuel : T -> nat) (c : cfg) (t0 : T) (ops : list (op C)),
  tfuel_ok tp tfuel ->
  c06_rel_ok c ops (fst (run tp ctl tfuel c t0 ops)) = true.
Proof. exact s06_rel. Qed.

Theorem C06_monitor : forall (T C : Type) (tp : transport T response cmsg) (ctl : T -> C -> T)
    (tfuel : T -> nat) (c : cfg) (t0 : T) (ops : list (op C)),
  tfuel_ok tp tfuel ->
  limiter_blocked_on_sink c ops (fst (run tp ctl tfuel c t0 ops)) = false ->
  c06_ok c ops (fst (run tp ctl tfuel c t0 ops)) = true.
Proof. exact s06. Qed.

(* for a channel driven through tarpc's own execute() (ServerExec.v: futures TakeWhile/FilterMap/Map
   transcribed, tied to the real Channel::execute by the srvx driver): stops_after_error is
   discharged, only B1 (and the known class) remains *)
From TarpcV Require Import ServerExec ServerExecProofs ServerExecProofs2.
Theorem C06_monitor_rel_exec : forall (T C : Type) (tp : transport T response cmsg) (ctl : T -> C -> T)
    (tfuel : T -> nat) (c : cfg) (t0 : T) (eops : list (eop C)),
  tfuel_ok tp tfuel ->
  let ops := exec_ops tp ctl tfuel c t0 eops in
  let v := observe c ops (exec_trace tp ctl tfuel c t0 eops) in
  c06_rel_ok c ops (exec_trace tp ctl tfuel c t0 eops) = true
  /\ h_stop v = true /\ v_bad v = false /\ v06e v = true /\ (h_b1 v = true -> v06l_rel v = true).
Proof. exact ServerExecProofs2.C06_monitor_rel_exec. Qed.

Theorem C06_monitor_exec : forall (T C : Type) (tp : transport T response cmsg) (ctl : T -> C -> T)
    (tfuel : T -> nat) (c : cfg) (t0 : T) (eops : list (eop C)),
  tfuel_ok tp tfuel ->
  let ops := exec_ops tp ctl tfuel c t0 eops in
  let v := observe c ops (exec_trace tp ctl tfuel c t0 eops) in
  limiter_blocked_on_sink c ops (exec_trace tp ctl tfuel c t0 eops) = false ->
  c06_ok c ops (exec_trace tp ctl tfuel c t0 eops) = true
  /\ h_stop v = true /\ v_bad v = false /\ v06e v = true /\ (h_b1 v = true -> v06l v = true).
Proof. exact ServerExecProofs2.C06_monitor_exec. Qed.

Print Assumptions C06_monitor_rel_exec.
Print Assumptions C06_monitor_exec.
Print Assumptions C06_timer_not_before_deadline.
Print Assumptions C06_expiry_never_early.
Print Assumptions C06_expiry_frame.
Print Assumptions C06_idle_means_enforced.
Print Assumptions C06_never_early_monitor.
Print Assumptions C06_never_early_scripted.
Print Assumptions C06_limiter_blocked_on_sink_witness.
Print Assumptions C06_monitor_rel.
Print Assumptions C06_monitor.
