(* C19  Request hooks run in order and short-circuit correctly.
   Statements only; every proof is `exact <lemma of HooksProofs>`.  The model (Hooks.v) is a
   transliteration of request_hook/{before,after,before_and_after}.rs; the correspondence check
   ties it to the code on every run.  All statements are for every tree of wrappers (any
   nesting, any depth), every chain length, every initial context (span id and deadline, elapsed
   or not) and request, and every scripted hook behaviour (span-id and deadline mutation, failure,
   result rewriting).  A context is a pair (span id, deadline - T0 in ms). *)
From Coq Require Import List NArith ZArith Arith.
Import ListNotations.
From TarpcV Require Import Hooks HooksProofs.
Local Open Scope N_scope.

(* The monitor for C19 (order, context threading, short-circuit, exactly-one after event, the
   result sent is what the outermost hook left) accepts the run of every composition. *)
Theorem C19_monitor : forall s c r, c19_ok (s, c, r) (serve s c r) = true.
Proof. exact c19_monitor_holds. Qed.

(* before_order.  For a chain l = [h0; ..; hn-1] in front of any service s:
   - if no hook fails, the events are the hooks in chain order, hook i given the context left by
     hooks 0..i-1, followed by the events of s called with the context the whole chain left, and
     the result is that of s;
   - if hook k is the first that fails (given what its predecessors left), the events are
     exactly the first k+1 hook events, no handler event exists, and the result is its error. *)
Theorem C19_before_order : forall l s c r,
  match first_fail (blist_to_list l) c r with
  | None =>
    serve (BeforeList l s) c r
    = (chain_events (blist_to_list l) c r ++ fst (serve s (chain_ctx (blist_to_list l) c r) r),
       snd (serve s (chain_ctx (blist_to_list l) c r) r))
  | Some (k, e) =>
    serve (BeforeList l s) c r = (firstn (S k) (chain_events (blist_to_list l) c r), RErr e)
    /\ count_handler (fst (serve (BeforeList l s) c r)) = O
  end.
Proof. exact c19_before_order. Qed.

(* the same holds for hooks attached one by one: s.before(hn)....before(h1) is the chain
   [h1; ..; hn] (the hook attached last runs first) *)
Theorem C19_nest_eq_chain : forall l s c r,
  serve (nest_before (blist_to_list l) s) c r = serve (BeforeList l s) c r.
Proof. exact c19_nest_eq_chain. Qed.

(* then_assoc.  `then` appends at the end; before().then(h1)...then(hn) is [h1; ..; hn];
   l.serving(s) behaves as s.before(l) (for the empty list it is s itself). *)
Theorem C19_then_appends : forall l h, blist_to_list (then_ l h) = blist_to_list l ++ [h].
Proof. exact c19_then_appends. Qed.
Theorem C19_then_builds : forall hs, blist_to_list (fold_left then_ hs BNil) = hs.
Proof. exact c19_then_builds. Qed.
Theorem C19_serving : forall l s c r, serve (serving l s) c r = serve (BeforeList l s) c r.
Proof. exact c19_serving. Qed.

(* after_once.  Whatever s is, s.after(h) produces the events of s followed by exactly one
   after-event showing the result s produced, and returns what the hook left. *)
Theorem C19_after_once : forall s h c r,
  serve (After s h) c r
  = (fst (serve s c r) ++ [EAfter (a_id h) c (snd (serve s c r))],
     after_res h c (snd (serve s c r))).
Proof. exact c19_after_once. Qed.
(* ... including an error from an inner before-hook *)
Theorem C19_after_sees_inner_error : forall hb s h c r e,
  snd (before_eff hb c r) = Some e ->
  serve (After (Before hb s) h) c r
  = ([EBefore (b_id hb) c r; EAfter (a_id h) c (RErr e)], after_res h c (RErr e)).
Proof. exact c19_after_sees_inner_error. Qed.

(* before_after.  The combined hook skips its after part (and the service) when its before part
   fails; otherwise its after part runs once, after s, and sees the context its before part
   produced. *)
Theorem C19_before_after : forall h s c r,
  match snd (before_eff (ba_b h) c r) with
  | Some e => serve (BeforeAfter h s) c r = ([EBefore (b_id (ba_b h)) c r], RErr e)
  | None =>
    let c1 := fst (before_eff (ba_b h) c r) in
    serve (BeforeAfter h s) c r
    = (EBefore (b_id (ba_b h)) c r
         :: fst (serve s c1 r) ++ [EAfter (a_id (ba_a h)) c1 (snd (serve s c1 r))],
       after_res (ba_a h) c1 (snd (serve s c1 r)))
  end.
Proof. exact c19_before_after. Qed.

(* the handler runs at most once in any composition *)
Theorem C19_handler_at_most_once : forall s c r, (count_handler (fst (serve s c r)) <= 1)%nat.
Proof. exact c19_handler_at_most_once. Qed.

(* The deadline is part of the context every hook and the handler is given: in front of the
   handler, if no hook of the chain fails -- whatever the deadline is or becomes, elapsed or not --
   every hook runs and the handler is called with the context (deadline included) the chain left. *)
Theorem C19_handler_sees_chain_ctx : forall l h c r,
  first_fail (blist_to_list l) c r = None ->
  serve (BeforeList l (Base h)) c r
  = (chain_events (blist_to_list l) c r ++ [EHandler (h_id h) (chain_ctx (blist_to_list l) c r) r],
     handler_eff h (chain_ctx (blist_to_list l) c r) r).
Proof. exact c19_handler_sees_chain_ctx. Qed.

(* hooks that leave the deadline alone hand it on unchanged *)
Theorem C19_chain_keeps_deadline : forall hs c r,
  (forall h, In h hs -> b_deff h = DKeep) -> c_dl (chain_ctx hs c r) = c_dl c.
Proof. exact c19_chain_keeps_deadline. Qed.

(* Nothing in the wrappers depends on the deadline's value: in a composition whose hooks and
   handler neither read nor change the deadline (blind), two calls that differ only in the deadline
   produce the same events (deadline erased) and the same result. *)
Theorem C19_deadline_irrelevant : forall s c1 c2 r,
  blind s = true -> c_span c1 = c_span c2 ->
  map erase (fst (serve s c1 r)) = map erase (fst (serve s c2 r))
  /\ snd (serve s c1 r) = snd (serve s c2 r).
Proof. exact c19_deadline_irrelevant. Qed.

(* non-vacuity: a composition with a mid-chain failure seen and rewritten by an outer after-hook,
   under a before-and-after hook; the monitor rejects the same events with two hooks swapped,
   a handler event after the failure, and a missing after-event.  Second: a call that arrives
   with an elapsed deadline runs the whole list and returns the LAST hook's own error; the monitor
   rejects a trace that stops after the first hook with a manufactured error. *)
Definition ex_b (i : nat) ce fe := {| b_id := i; b_ceff := ce; b_deff := DKeep; b_feff := fe |}.
Definition ex_tree : serveT :=
  BeforeAfter {| ba_b := ex_b 1 (CAdd 1) FNo;
                 ba_a := {| a_id := 2; a_ceff := CKeep; a_deff := DKeep; a_reff := RMapOk 5 |} |}
    (After
       (serving (then_ (then_ (then_ BNil (ex_b 3 (CAdd 10) FNo)) (ex_b 4 (CSet 7) (FCtxGe 11 42)))
                       (ex_b 5 CKeep FNo))
                (Base {| h_id := 0; h_eff := HPlus 1 |}))
       {| a_id := 6; a_ceff := CKeep; a_deff := DKeep; a_reff := RRecover 100 |}).
Definition d9 : Z := 9000%Z.
Example C19_nonvacuous :
  serve ex_tree (0, d9) 9
  = ([EBefore 1 (0, d9) 9; EBefore 3 (1, d9) 9; EBefore 4 (11, d9) 9; EAfter 6 (1, d9) (RErr 42);
      EAfter 2 (1, d9) (ROk 100)],
     ROk 105)
  /\ c19_ok (ex_tree, (0, d9), 9)
       ([EBefore 1 (0, d9) 9; EBefore 4 (11, d9) 9; EBefore 3 (1, d9) 9; EAfter 6 (1, d9) (RErr 42);
         EAfter 2 (1, d9) (ROk 100)], ROk 105) = false
  /\ c19_ok (ex_tree, (0, d9), 9)
       ([EBefore 1 (0, d9) 9; EBefore 3 (1, d9) 9; EBefore 4 (11, d9) 9; EHandler 0 (7, d9) 9;
         EAfter 6 (1, d9) (RErr 42); EAfter 2 (1, d9) (ROk 100)], ROk 105) = false
  /\ c19_ok (ex_tree, (0, d9), 9)
       ([EBefore 1 (0, d9) 9; EBefore 3 (1, d9) 9; EBefore 4 (11, d9) 9; EAfter 2 (1, d9) (RErr 42)],
        RErr 42) = false.
Proof. vm_compute. repeat split; reflexivity. Qed.

Definition ex_list : serveT :=
  serving (then_ (then_ (then_ BNil (ex_b 1 (CAdd 1) FNo))
                        {| b_id := 2; b_ceff := CKeep; b_deff := DSet 0; b_feff := FNo |})
                 (ex_b 3 CKeep (FFail 13)))
          (Base {| h_id := 0; h_eff := HDl |}).
Definition past : Z := (-60000)%Z.
Example C19_nonvacuous_elapsed_deadline :
  serve ex_list (5, past) 9
  = ([EBefore 1 (5, past) 9; EBefore 2 (6, past) 9; EBefore 3 (6, 0%Z) 9], RErr 13)
  /\ c19_ok (ex_list, (5, past), 9) ([EBefore 1 (5, past) 9], RErr 999999999) = false
  /\ c19_ok (ex_list, (5, past), 9)
       ([EBefore 1 (5, past) 9; EBefore 2 (6, past) 9; EBefore 3 (6, past) 9], RErr 13) = false.
Proof. vm_compute. repeat split; reflexivity. Qed.

Print Assumptions C19_monitor.
Print Assumptions C19_before_order.
Print Assumptions C19_nest_eq_chain.
Print Assumptions C19_then_appends.
Print Assumptions C19_then_builds.
Print Assumptions C19_serving.
Print Assumptions C19_after_once.
Print Assumptions C19_after_sees_inner_error.
Print Assumptions C19_before_after.
Print Assumptions C19_handler_at_most_once.
Print Assumptions C19_handler_sees_chain_ctx.
Print Assumptions C19_chain_keeps_deadline.
Print Assumptions C19_deadline_irrelevant.
