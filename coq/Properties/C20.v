(* C20  Load-balancing and retry stubs keep their dispatch promises.
   Statements only; every proof is `exact <lemma of StubsProofs>`.  The model (Stubs.v) is a
   transliteration of client/stub/load_balance.rs and client/stub/retry.rs; the correspondence
   check ties it to the code on every run. *)
From Coq Require Import List NArith ZArith Arith.
Import ListNotations.
From TarpcV Require Import Stubs StubsProofs.
Local Open Scope N_scope.

(* The monitor for C20 accepts every run of every stub: round robin over any b >= 1 backends and
   any mix of single calls and concurrent bursts of fewer than 2^64 calls in total (every pick
   valid, the caller's context and request passed on unchanged, per-backend counts never more than one apart);
   consistent hash with ANY hasher function (picks valid, equal requests -> equal picks);
   retry with ANY policy and any result scripts (same context and same request every time, attempts 1, 2, 3, ..,
   the policy sees each result, the first declined result is returned unchanged). *)
Theorem C20_monitor : forall c ops, wf c ops -> c20_ok c ops (fst (run c ops)) = true.
Proof. exact c20_monitor_holds. Qed.

(* round_robin_balanced: for every backend count b >= 1 and every number n <= 2^64 of `next`
   calls from a fresh stub, any two backends' counts differ by at most one (max - min <= 1). *)
Theorem C20_round_robin_balanced : forall b n i j,
  1 <= b -> N.of_nat n <= W64 -> i < b -> j < b ->
  count i (fst (rr_picks b 0 n)) <= count j (fst (rr_picks b 0 n)) + 1.
Proof. exact c20_round_robin_balanced. Qed.

(* ... in any interleaving: each `next` is one atomic fetch_add, so whatever the order in which
   threads perform them, the picks handed out are those of the sequential run *)
Theorem C20_rr_interleaving : forall b sched cur,
  map snd (rr_sched b cur sched) = fst (rr_picks b cur (length sched)).
Proof. exact c20_rr_interleaving. Qed.

(* the hypothesis n <= 2^64 is necessary: the cursor wraps, and with b = 3 the call number
   2^64 + 1 goes to backend 0, which then has two calls more than backend 1
   (the full statement `forall b n i j, 1 <= b -> i < b -> j < b -> count i .. <= count j .. + 1`
   without the bound is therefore false of the code) *)
Theorem C20_round_robin_wrap_refuted :
  exists n, N.of_nat n = W64 + 1
    /\ count 0 (fst (rr_picks 3 0 n)) = count 1 (fst (rr_picks 3 0 n)) + 2.
Proof. exact c20_round_robin_wrap_refuted. Qed.

(* consistent_hash: for every hasher function h, the pick is a valid backend and a function of
   the request *)
Theorem C20_consistent_hash_valid : forall (h : N -> N) b r, 1 <= b -> ch_pick h b r < b.
Proof. exact c20_consistent_hash_valid. Qed.
Theorem C20_consistent_hash_deterministic : forall (h : N -> N) b r1 r2,
  r1 = r2 -> ch_pick h b r1 = ch_pick h b r2.
Proof. exact c20_consistent_hash_deterministic. Qed.

(* retry: for every policy pol and every backend behaviour, if k >= 1 is the first attempt the
   policy declines (k below the u32 range; one less when the caller is compiled with overflow
   checks, because RangeFrom computes the successor before handing out the value), then the run
   is exactly: calls 0..k-1 each with the caller's context c and the same request rq, the policy shown (result of call j,
   attempt j+1), and the k-th result returned unchanged. *)
Theorem C20_retry : forall (ovf : bool) (pol : sres -> N -> bool) (backend : nat -> sres) c rq k fuel,
  (1 <= k)%nat -> (k <= fuel)%nat ->
  N.of_nat k < (if ovf then W32 - 1 else W32) ->
  (forall j, (j < k - 1)%nat -> pol (backend j) (N.of_nat (S j)) = true) ->
  pol (backend (k - 1)%nat) (N.of_nat k) = false ->
  retry fuel ovf pol backend c rq = retry_trace pol backend c rq k.
Proof. exact c20_retry. Qed.

(* the bound on k is necessary: without overflow checks the u32 attempt counter wraps and the
   policy is shown attempt number 0 at the 2^32-th attempt *)
Theorem C20_retry_wrap_refuted :
  exists pol backend fuel c rq res, In (OPol res 0 false) (retry fuel false pol backend c rq).
Proof. exact c20_retry_wrap_refuted. Qed.

(* The caller's context follows the call.  Retry: for every policy, every behaviour of the inner
   stub, every number of attempts (any fuel; no bound on k needed) and both overflow modes, every
   call of the inner stub carries exactly the context (trace id, span id, sampling decision,
   deadline) and the request Retry::call was given. *)
Theorem C20_retry_same_context :
  forall (ovf : bool) (pol : sres -> N -> bool) (backend : nat -> sres) fuel c rq c' rq' res,
  In (OCall c' rq' res) (retry fuel ovf pol backend c rq) -> c' = c /\ rq' = rq.
Proof. exact c20_retry_same_context. Qed.

(* Load balancers: for every configuration (any backend count, any cursor value, any hasher), the
   backend chosen for a call receives exactly the caller's context and request. *)
Theorem C20_balance_same_context : forall cf cur c rq k c' rq' resp,
  In (OPick k c' rq' resp) (snd (step cf cur (Call c rq))) -> c' = c /\ rq' = rq.
Proof. exact c20_balance_same_context. Qed.

(* non-vacuity: concrete runs of the three stubs, and traces the monitor rejects (wrong backend,
   unequal picks for equal requests, wrong attempt number, and -- last two -- a second attempt /
   a backend that is handed a context other than the caller's) *)
Definition c1 : cx := mkcx 7 3 true 5000%Z.
Definition c0 : cx := mkcx 0 0 false 5000%Z.
Example C20_nonvacuous :
  fst (run (CRR 3) [Call c1 5; Par [2%nat; 1%nat]; Call c0 6])
  = [[OPick 0 c1 5 (SOk 1005)]; [OCounts [1; 1; 1]]; [OPick 1 c0 6 (SOk 2006)]]
  /\ c20_ok (CRR 3) [Call c1 5; Call c1 6] [[OPick 0 c1 5 (SOk 1005)]; [OPick 0 c1 6 (SOk 1006)]] = false
  /\ fst (run (CCH 3 (hash_of HFnv)) [Call c1 5; Call c0 9; Call c1 5])
     = [[OPick 2 c1 5 (SOk 3005)]; [OPick 1 c0 9 (SOk 2009)]; [OPick 2 c1 5 (SOk 3005)]]
  /\ c20_ok (CCH 3 (hash_of HFnv)) [Call c1 5; Call c1 5]
       [[OPick 2 c1 5 (SOk 3005)]; [OPick 1 c1 5 (SOk 2005)]] = false
  /\ fst (run (CRetry (pol_eval (PErrLt 3)) 10 true) [RCall c1 7 [SDeadline; SServer 4; SShutdown; SOk 1]])
     = [[OCall c1 7 SDeadline; OPol SDeadline 1 true; OCall c1 7 (SServer 4); OPol (SServer 4) 2 true;
         OCall c1 7 SShutdown; OPol SShutdown 3 false; ODone SShutdown]]
  /\ c20_ok (CRetry (pol_eval PErr) 10 true) [RCall c1 7 [SDeadline; SOk 1]]
       [[OCall c1 7 SDeadline; OPol SDeadline 1 true; OCall c1 7 (SOk 1); OPol (SOk 1) 3 false;
         ODone (SOk 1)]] = false
  /\ c20_ok (CRetry (pol_eval PErr) 10 true) [RCall c1 7 [SDeadline; SOk 1]]
       [[OCall c1 7 SDeadline; OPol SDeadline 1 true; OCall c0 7 (SOk 1); OPol (SOk 1) 2 false;
         ODone (SOk 1)]] = false
  /\ c20_ok (CRR 3) [Call c1 5] [[OPick 0 c0 5 (SOk 1005)]] = false.
Proof. vm_compute. repeat split; reflexivity. Qed.

Print Assumptions C20_monitor.
Print Assumptions C20_round_robin_balanced.
Print Assumptions C20_rr_interleaving.
Print Assumptions C20_round_robin_wrap_refuted.
Print Assumptions C20_consistent_hash_valid.
Print Assumptions C20_consistent_hash_deterministic.
Print Assumptions C20_retry.
Print Assumptions C20_retry_wrap_refuted.
Print Assumptions C20_retry_same_context.
Print Assumptions C20_balance_same_context.
