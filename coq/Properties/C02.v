(* C02  Every call terminates; no wakeup is lost.  Statements only (proofs: ClientWakeProofs.v,
   ClientWakeSettles.v, ClientWakeMon.v, ClientProofsG1Fuel.v; server side: ServerWakeSettles.v,
   ServerWakeMon*.v).

   What is proved is about the executable model driven to quiescence (ClientWake.settle polls
   the dispatch and every live call future round after round until a round changes nothing).
   That the REAL tasks are woken whenever such a round would make progress is not a theorem:
   it is checked on every run by the wake-driven correspondence (Checks/C02check.v), in which the
   real client is polled ONLY where its real wakers fired and must reach exactly the outcomes of
   the model's fixpoint.  Hence: partial (see DESIGN.md section 6, C02). *)
From Coq Require Import List Bool Arith NArith.
Import ListNotations.
From TarpcV Require Import Base Transport Client ClientS ClientMon ClientSpec ClientWake
  ClientWakeSpec ClientWakeProofs ClientWakeSettles ClientWakeMon ClientProofsG1Fuel.
Local Open Scope N_scope.

(* The C02 monitor - the executable predicate that is evaluated on the REAL client's wake-driven
   traces: every settle terminates; once the dispatch failed or was dropped nobody is left
   unresolved; an unresolved call on a writable, untampered transport has something in flight;
   every delivered response has been read - accepts every wake-driven run of the model. *)
Theorem C02_monitor : forall c ops,
  wno_wrap ops -> (1 <= cf_qcap c)%nat -> c02_ok c ops (wrun c ops) = true.
Proof. exact c02_monitor_holds. Qed.

(* (ii-a) Once the dispatch has ended with an error, or has been dropped, and the system has
   been driven until nothing acts any more, no call is left unresolved - for every configuration
   and every sequence of events and settles (fewer than 2^64 of them). *)
Theorem C02_dead_resolved : forall c ops,
  wno_wrap ops ->
  let s := wfinal c (ops ++ [WSettle]) in
  (exists a, finished s = Some (DErr a)) \/ dropped s = true ->
  forall i k, nth_error (calls s) i = Some k -> is_live (c_phase k) = false.
Proof. exact c02_dead_unconditional. Qed.

(* (ii-b) While the dispatch is running on a transport that accepts writes (buffer sizes and
   limits >= 1): after driving the system to quiescence, a call that is still unresolved is
   waiting for a reply or a deadline and for nothing else - some request is in flight, every
   armed timer lies in the future, and the call's own request is in flight or is queued behind a
   full in-flight table.  So the only events still needed are exactly those that wake the
   dispatch: a reply, a timer, the transport. *)
Theorem C02_quiescent_resolved : forall c ops,
  wno_wrap ops ->
  (1 <= cf_qcap c)%nat -> (1 <= cf_maxif c)%nat ->
  let s := wfinal c (ops ++ [WSettle]) in
  writable (tr s) = true -> st_inbox (tr s) = [] -> st_eof (tr s) = false ->
  finished s = None -> dropped s = false ->
  forall i k, nth_error (calls s) i = Some k -> is_live (c_phase k) = true ->
    inflight s <> []
    /\ (forall id w, In (id, w) (timers s) -> now s < w)
    /\ (In (c_id k) (map fst (inflight s)) \/ length (inflight s) = max_if s).
Proof. exact c02_quiescent_unconditional. Qed.

(* (i') driving to quiescence always terminates: a settle never runs out of its rounds (linear
   in the number of calls and queue lengths) nor of dispatch fuel - for every configuration and
   every sequence of events and settles *)
Theorem C02_settles : forall c ops, wno_wrap ops -> settled c ops.
Proof. exact c02_settles_holds. Qed.

(* (iii) poll_total: every poll of the dispatch returns within fuel linear in the queue
   lengths (shared with C14) *)
Theorem C02_poll_total : forall cfg ops,
  cfuel_ok (cf_maxif cfg) (map to_op ops) (crun cfg ops) = true.
Proof. exact cfuel_holds. Qed.

(* non-vacuity of (ii-b): two calls with limit 1; after settling, one is in flight and the other
   queued behind the full table; after the first deadline passes the second is admitted *)
Example C02_nonvacuous :
  let ops := [WOp (SCall 0 50 7 true 1); WOp (SCall 0 90 8 true 2); WSettle;
              WOp (SAdv 50); WSettle] in
  wrun (mkcfg 2 1 0 true) ops
  = [WO []; WO [];
     WS [(MReq 0 50 (mktc 7 0 true) 1, SOk)] [] [] None 1 1;
     WO [];
     WS [(MReq 1 90 (mktc 8 1 true) 2, SOk)] [] [(0%nat, ODeadline)] None 1 1]
  /\ c02_ok (mkcfg 2 1 0 true) ops (wrun (mkcfg 2 1 0 true) ops) = true.
Proof. vm_compute. split; reflexivity. Qed.

(* the C02 monitor rejects a stalled system: the dispatch failed but a caller was never woken *)
Example C02_monitor_rejects_stall :
  let cfg := mkcfg 2 2 0 true in
  let ops := [WOp (SCall 0 50 7 true 1); WSettle; WOp (STr (TFail MNext)); WSettle] in
  let stalled := [WO []; WS [(MReq 0 50 (mktc 7 0 true) 1, SOk)] [] [] None 1 1; WO [];
                  WS [] [] [] (Some (DErr ARead)) 0 0] in
  c02_ok cfg ops (wrun cfg ops) = true /\ c02_ok cfg ops stalled = false.
Proof. vm_compute. split; reflexivity. Qed.

(* ------------------------------------------------------------------------------------------ *)
(* Server side, wake-driven (model: ServerWake.v over Server.v; statements pinned in
   ServerWakeSpec.v; proofs ServerWakeSettles.v, ServerWakeMon*.v).  Names are qualified. *)
From TarpcV Require Server ServerMon ServerWake ServerWakeSpec ServerWakeSettles ServerWakeMon.

(* every settle (poll the Requests stream, then every live execute() future, round after round
   until nothing changes) of every wake-driven run terminates within its rounds budget *)
Theorem C02_server_settles :
  forall (c : Server.cfg) (t0 : Transport.stransport Server.cmsg) (ops : list ServerWake.swop),
    ServerWakeSpec.no_wfuel (ServerWake.swrun c t0 ops) = true.
Proof. exact ServerWakeSettles.w_settle_terminates_holds. Qed.

(* the server wake monitor accepts every wake-driven run of the model: at every fixpoint no
   execute() is left running after its cancel / deadline / the channel's drop, no finished handler
   or buffered response is stuck while the sink is writable, every delivered message was read,
   gauges agree (B1 inside the monitor; K2 exempt inside clauses a, c, e) *)
Theorem C02_server_monitor :
  forall (c : Server.cfg) (cap : nat) (coupled : bool) (ops : list ServerWake.swop),
    (1 <= Server.cfg_buf c)%nat -> forallb ServerWakeSpec.wake_op ops = true ->
    ServerWake.c02s_ok c (Transport.st_init Server.cmsg cap coupled) ops
      (ServerWake.swrun c (Transport.st_init Server.cmsg cap coupled) ops) = true.
Proof. exact ServerWakeMon.w_monitor_holds. Qed.

Print Assumptions C02_monitor.
Print Assumptions C02_dead_resolved.
Print Assumptions C02_quiescent_resolved.
Print Assumptions C02_poll_total.
Print Assumptions C02_settles.
Print Assumptions C02_server_settles.
Print Assumptions C02_server_monitor.
