(* C17  Generated service glue connects each method to itself.
   Statements only; every proof is `exact <lemma of MacroProofs>`.

   `gen serde1 fb s` is the model of #[tarpc::service] (Macro.v, Part 2) applied to the service
   definition `s`: it either reports the macro's own compile errors or yields the abstract items the
   macro emits; `strip` removes what a false #[cfg] removes; `rustc_accepts` is false when the items
   contain something rustc refuses (duplicate definitions, Part 3); `client_call`, `client_request`,
   `request_name`, `client_finish` are the semantics of the items under Rust's resolution rules
   (Part 4). `fb` is the client's fallback arm (an error since fix 8afb23d, a panic before): every statement
   holds for both. The tie to the real macro is the translation validation run on every check
   (Checks/C17check.v): `gen def = the items read from rustc's expansion of def`. *)
From Coq Require Import String.
From Coq Require Import List NArith.
Import ListNotations.
From TarpcV Require Import Macro MacroProofs.
Local Open Scope N_scope.

(* For EVERY service definition the macro and rustc accept, every enabled method m of it, every
   implementor, every context c and every argument vector of m's arity: calling m on the generated
   client invokes exactly the implementor's m, with exactly those arguments in that order and with
   c, and the caller gets that invocation's result. *)
Theorem C17_glue_correct : forall serde1 fb s g,
  gen serde1 fb s = Ok g -> rustc_accepts (strip g) = true ->
  forall m, In m (s_methods s) -> enabled m = true ->
  forall (impl : implementor) c vs, length vs = length (m_args m) ->
    client_call (strip g) impl (i_txt (m_name m)) c vs
    = ODone (Inv (i_txt (m_name m)) c vs) (impl (i_txt (m_name m)) c vs).
Proof. exact glue_correct. Qed.

(* The request the client hands to its stub carries the caller's context, and its
   RequestName::name() is "<Service>.<method>", both identifiers as written in the definition
   (`display`: a raw identifier keeps its r# prefix, see C17_name_unraw_refuted). *)
Theorem C17_name_correct : forall serde1 fb s g,
  gen serde1 fb s = Ok g -> rustc_accepts (strip g) = true ->
  forall m, In m (s_methods s) -> enabled m = true ->
  forall c vs, length vs = length (m_args m) ->
    exists r, client_request (strip g) (i_txt (m_name m)) c vs = Some (c, r)
              /\ request_name (strip g) r = Some (display (s_name s) ++ lit "." ++ display (m_name m)).
Proof. exact name_correct. Qed.

(* Collisions are rejected at compile time, by the macro or by rustc, never compiled into
   something else: two methods with one camel-case variant name; a repeated argument name; an
   argument called `ctx` (the generated parameter) or `self`; a method called new / serve, raw or
   not. (Repeated/ctx arguments and r#new/r#serve matter only on methods that are not cfg'd out;
   `context` is not a collision: MacroProofs.context_arg_accepted_ctx_arg_refused.) *)
Theorem C17_rejected_not_miscompiled : forall serde1 fb s, collision s ->
  match gen serde1 fb s with
  | Err _ => True
  | Ok g => rustc_accepts (strip g) = false
  end.
Proof. exact rejected_not_miscompiled. Qed.

(* A response carrying any other method's variant never reaches the caller as Ok. *)
Theorem C17_wrong_variant_not_ok : forall serde1 fb s g,
  gen serde1 fb s = Ok g -> rustc_accepts (strip g) = true ->
  forall m, In m (s_methods s) -> enabled m = true ->
  exists f, find_client (strip g) (i_txt (m_name m)) = Some f /\
    forall i rv ret, rv <> camel m ->
      client_finish (strip g) f (SOk i rv ret) = OFallback fb i.
Proof. exact wrong_variant_not_ok. Qed.

(* The executable monitor used on the real macro's expansion and on the compiled glue accepts
   everything the model produces, for every definition and every list of scripted calls. *)
Theorem C17_monitor : forall serde1 fb s calls,
  c17_ok s calls (model serde1 fb s calls) = true.
Proof. exact c17_monitor_holds. Qed.

(* The stricter reading of "<Service>.<method>" with the bare names is FALSE of the macro as it
   is: for `trait S { async fn r#fn(); }` the reported name is "S.r#fn". *)
Theorem C17_name_unraw_refuted :
  exists s g m r,
    gen true FallbackPanic s = Ok g /\ rustc_accepts (strip g) = true /\ In m (s_methods s)
    /\ client_request (strip g) (i_txt (m_name m)) (VCtx 0 0) [] = Some (VCtx 0 0, r)
    /\ request_name (strip g) r = Some (lit "S.r#fn")
    /\ request_name (strip g) r <> Some (i_txt (s_name s) ++ lit "." ++ i_txt (m_name m)).
Proof. exact name_unraw_refuted. Qed.

(* The hypothesis `rustc_accepts` of C17_glue_correct is needed: without rustc's duplicate-
   definition errors the client fn of `foo__bar` would reach the implementor's `foo_bar`. *)
Theorem C17_duplicates_would_mispair :
  exists g, gen true FallbackPanic dup_witness = Ok g
    /\ rustc_accepts (strip g) = false
    /\ client_call (strip g) (impl_of dup_witness) (lit "foo__bar") (VCtx 1 2) [VData 7]
       = ODone (Inv (lit "foo_bar") (VCtx 1 2) [VData 7]) 200.
Proof. exact duplicates_would_mispair. Qed.

(* The comparison `gen def = items read from the expansion` made by the correspondence check is
   a sound equality test (the model's side is first shown as rustc's printer shows identifiers,
   Macro.shown). *)
Theorem C17_check_equality_sound : forall a b, generated_eqb a b = true -> a = b.
Proof. exact generated_eqb_sound. Qed.

(* The property's dichotomy in one statement, for EVERY definition: the toolchain rejects it, or
   every enabled method is connected to itself - for every argument vector, arguments of type
   Context included, whatever the arguments are called. *)
Theorem C17_rejected_or_correct : forall serde1 fb s,
  match gen serde1 fb s with
  | Err _ => True
  | Ok g =>
      rustc_accepts (strip g) = false \/
      forall m, In m (s_methods s) -> enabled m = true ->
      forall (impl : implementor) c vs, length vs = length (m_args m) ->
        client_call (strip g) impl (i_txt (m_name m)) c vs
        = ODone (Inv (i_txt (m_name m)) c vs) (impl (i_txt (m_name m)) c vs)
  end.
Proof. exact rejected_or_correct. Qed.

(* The one identifier of the expansion an argument can really capture is the server arm's `ctx`.
   An argument called `ctx` - of any type, tarpc::context::Context included - on a method that
   is not cfg'd out is rejected (duplicate parameter of the generated client fn). *)
Theorem C17_ctx_argument_rejected : forall serde1 fb s m a,
  In m (s_methods s) -> enabled m = true -> In a (m_args m) -> i_txt (a_name a) = lit "ctx" ->
  match gen serde1 fb s with
  | Err _ => True
  | Ok g => rustc_accepts (strip g) = false
  end.
Proof. exact ctx_argument_rejected. Qed.

(* That rejection is the only guard: with the client fn's parameter called `context` instead
   (items `client_ctx_renamed`), `trait Relay { async fn forward(ctx: Context) -> u8; }` is
   accepted, type-checks, and the implementor receives the argument as the request's context. *)
Theorem C17_ctx_context_argument_guard :
  exists g, gen true FallbackErr relay_witness = Ok g
    /\ rustc_accepts (strip g) = false
    /\ rustc_accepts (client_ctx_renamed (strip g)) = true
    /\ client_call (client_ctx_renamed (strip g)) (impl_of relay_witness) (lit "forward")
         (VCtx 1000 7000) (vals_of [Arg (plain "ctx") ty_context] [1])
       = ODone (Inv (lit "forward") (VCtx 1 1) [VCtx 1 1]) 200.
Proof. exact ctx_context_argument_guard. Qed.

(* The other identifiers the expansion binds (context, req, request, resp, msg, service) are
   harmless as argument names even at the type Context. *)
Theorem C17_expansion_names_harmless :
  exists g, gen true FallbackErr expansion_names_witness = Ok g
    /\ rustc_accepts (strip g) = true
    /\ client_call (strip g) (impl_of expansion_names_witness) (lit "forward") (VCtx 1000 7000)
         [VCtx 1 1; VCtx 2 2; VCtx 3 3; VCtx 4 4; VCtx 5 5; VCtx 6 6]
       = ODone (Inv (lit "forward") (VCtx 1000 7000)
                    [VCtx 1 1; VCtx 2 2; VCtx 3 3; VCtx 4 4; VCtx 5 5; VCtx 6 6]) 200.
Proof. exact expansion_names_harmless. Qed.

(* non-vacuity: an accepted definition with raw identifiers, same-typed siblings, a cfg'd-out
   method and derive options; what its scripted calls observe *)
Example C17_nonvacuous :
  o_compiled (model true FallbackPanic sample []) = true
  /\ o_runs (model true FallbackPanic sample
               [(Id true (lit "await"), (1001, 7001), [17; 18]); (plain "gone", (1, 1), [1; 2]);
                (plain "_Get__b_", (1003, 7003), [])])
     = [Some ([(lit "await", (1001, 7001), [17; 18])], [lit "r#trait.r#await"], Some 201);
        None;
        Some ([(lit "_Get__b_", (1003, 7003), [])], [lit "r#trait._Get__b_"], Some 0)].
Proof. exact sample_runs. Qed.

Print Assumptions C17_glue_correct.
Print Assumptions C17_name_correct.
Print Assumptions C17_rejected_not_miscompiled.
Print Assumptions C17_wrong_variant_not_ok.
Print Assumptions C17_monitor.
Print Assumptions C17_name_unraw_refuted.
Print Assumptions C17_duplicates_would_mispair.
Print Assumptions C17_check_equality_sound.
Print Assumptions C17_rejected_or_correct.
Print Assumptions C17_ctx_argument_rejected.
Print Assumptions C17_ctx_context_argument_guard.
Print Assumptions C17_expansion_names_harmless.
