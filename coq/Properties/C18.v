(* C18  Trace context follows the request, and only that request.  Statements only.
   Client side (no tracing subscriber installed): what goes on the wire. *)
From Coq Require Import List Bool Arith NArith.
Import ListNotations.
From TarpcV Require Import Base Transport Client ClientS ClientMon ClientSpec ClientProofsG2.

(* For every transport, configuration and op list (fewer than 2^64 ops), the C18 monitor accepts
   the run:
   - every request is written with the trace id and sampling decision its caller supplied, the
     caller's deadline and body, and a span id drawn for that request (named after its id), and
     each request id goes out at most once;
   - every cancellation carries exactly the trace context (trace id, span id, sampling) its
     request was written with - whatever other requests are in flight, answered, cancelled or
     expired in between. *)
Theorem C18_client_monitor : forall (T : Type) (tp : transport T cmsg resp)
    (fuel_of : cstate (T := T) -> nat) (t0 : T) (qcap maxif : nat) (ops : list (op (T := T))),
  no_wrap ops ->
  c18_ok maxif ops (client_trace tp fuel_of t0 qcap maxif ops) = true.
Proof. exact (fun T => @c18_proved T). Qed.

(* non-vacuity: two concurrent requests with distinct trace ids; the second is abandoned *)
Example C18_nonvacuous :
  let ops := [SCall 0 50 77 true 1; SPollCall 0; SCall 0 50 88 false 2; SPollCall 1; SPollD;
              SDropCall 1; SPollD] in
  let tr := crun (mkcfg 2 2 0 true) ops in
  nth 6 tr [] = [OCalls [CNext RPending; CReady TOk;
                         CSend (MCancel 1 (mktc 88 1 false)) SOk;
                         CNext RPending; CReady TOk; CReady TOk; CFlush TOk];
                 ODisp DPending; OGauge 1 1]
  /\ c18_ok 2 (map to_op ops) tr = true.
Proof. vm_compute. split; reflexivity. Qed.


(* ------------------------------------------------------------------------------------------ *)
(* Server half (model: Server.v; proofs: Server*.v; statements restated from ServerProps.v).
   From here on unqualified names are the SERVER model's. *)
From TarpcV Require Import TimerWheel Server ServerMon ServerFuel ServerProps ServerWitness.

(* Server channel, EVERY transport, configuration and op list: the request a poll of the
   Requests stream hands to the application carries the id, deadline, body and the trace number
   (2 * trace id + sampling bit) of the last request the transport delivered in that poll: the
   server never rewrites the trace id or the sampling decision (its own span id is a fresh draw
   and is not observed). *)
Theorem C18_server_monitor : forall (T C : Type) (tp : transport T response cmsg) (ctl : T -> C -> T)
    (tfuel : T -> nat) (c : cfg) (t0 : T) (ops : list (op C)),
  tfuel_ok tp tfuel -> c18s_ok (fst (run tp ctl tfuel c t0 ops)) = true.
Proof. exact ServerProps.C18_server_monitor. Qed.

Print Assumptions C18_client_monitor.
Print Assumptions C18_server_monitor.
