(* C18  Trace context follows the request, and only that request.  Statements only.
   Client side (no tracing subscriber installed): what goes on the wire. *)
From Coq Require Import List Bool Arith NArith.
Import ListNotations.
From TarpcV Require Import Base Transport Client ClientS ClientMon ClientSpec ClientProofsG2.

(* For every transport, configuration and op list (fewer than 2^64 ops), the C18 monitor accepts
   the run:
   - every request is written with the trace id and sampling decision its caller supplied, the
     caller's deadline and body, and a span id drawn for that request (named after its id), and
     each request id goes out at most once;
   - every cancellation carries exactly the trace context (trace id, span id, sampling) its
     request was written with - whatever other requests are in flight, answered, cancelled or
     expired in between. *)
Theorem C18_client_monitor : forall (T : Type) (tp : transport T cmsg resp)
    (fuel_of : cstate (T := T) -> nat) (t0 : T) (qcap maxif : nat) (ops : list (op (T := T))),
  no_wrap ops ->
  c18_ok maxif ops (client_trace tp fuel_of t0 qcap maxif ops) = true.
Proof. exact (fun T => @c18_proved T). Qed.

(* non-vacuity: two concurrent requests with distinct trace ids; the second is abandoned *)
Example C18_nonvacuous :
  let ops := [SCall 0 50 77 true 1; SPollCall 0; SCall 0 50 88 false 2; SPollCall 1; SPollD;
              SDropCall 1; SPollD] in
  let tr := crun (mkcfg 2 2 0 true) ops in
  nth 6 tr [] = [OCalls [CNext RPending; CReady TOk;
                         CSend (MCancel 1 (mktc 88 1 false)) SOk;
                         CNext RPending; CReady TOk; CReady TOk; CFlush TOk];
                 ODisp DPending; OGauge 1 1]
  /\ c18_ok 2 (map to_op ops) tr = true.
Proof. vm_compute. split; reflexivity. Qed.


(* ------------------------------------------------------------------------------------------ *)
(* Server half (model: Server.v; proofs: Server*.v; statements restated from ServerProps.v).
   From here on unqualified names are the SERVER model's. *)
From TarpcV Require Import TimerWheel Server ServerMon ServerFuel ServerProps ServerWitness.

(* Server channel, EVERY transport, configuration and op list: the request a poll of the
   Requests stream hands to the application carries the id, deadline, body and the trace number
   (2 * trace id + sampling bit) of the last request the transport delivered in that poll: the
   server never rewrites the trace id or the sampling decision (its own span id is a fresh draw
   and is not observed). *)
Theorem C18_server_monitor : forall (T C : Type) (tp : transport T response cmsg) (ctl : T -> C -> T)
    (tfuel : T -> nat) (c : cfg) (t0 : T) (ops : list (op C)),
  tfuel_ok tp tfuel -> c18s_ok (fst (run tp ctl tfuel c t0 ops)) = true.
Proof. exact ServerProps.C18_server_monitor. Qed.

Print Assumptions C18_client_monitor.
Print Assumptions C18_server_monitor.

(* ------------------------------------------------------------------------------------------ *)
(* Composition of the client model and the server model (coq/Chain*.v); names are qualified. *)
From TarpcV Require Client Server Chain ChainSpec ChainCtx ChainProofs.
(* multi-hop clause, on the composition, for every depth and every op list: the request yielded
   to a handler on ANY node carries the trace id and the sampling decision (2*trace_id+sampled)
   of a head call with the same body *)
Theorem C18_chain_trace : forall (d : nat) (ops : list Chain.cop),
  Chain.c18c_ok d ops (fst (Chain.run d ops)) = true.
Proof. exact ChainCtx.chain_trace. Qed.

Example C18_chain_nonvacuous :
  let ops := [Chain.HCall 1000 7 true 5; Chain.HCall 500 9 false 6; Chain.SettleAll] in
  filter (fun e => match e with Chain.KYield _ _ _ _ _ _ => true | _ => false end)
         (nth 2 (fst (Chain.run 2 ops)) []) =
    [Chain.KYield 0 0 0 1000 15 5; Chain.KYield 1 0 0 1000 15 5;
     Chain.KYield 0 1 1 500 18 6; Chain.KYield 1 1 1 500 18 6]
  /\ Chain.c18c_ok 2 ops (fst (Chain.run 2 ops)) = true
  /\ Chain.c18c_ok 2 ops [[]; []; [Chain.KYield 1 0 0 1000 14 5]] = false.
Proof. vm_compute. repeat split; reflexivity. Qed.

Print Assumptions C18_chain_trace.
