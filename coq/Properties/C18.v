(* C18  Trace context follows the request, and only that request.  Statements only.
   Client side (no tracing subscriber installed): what goes on the wire. *)
From Coq Require Import List Bool Arith NArith.
Import ListNotations.
From TarpcV Require Import Base Transport Client ClientS ClientMon ClientSpec ClientProofsG2.

(* For every transport, configuration and op list (fewer than 2^64 ops), the C18 monitor accepts
   the run:
   - every request is written with the trace id and sampling decision its caller supplied, the
     caller's deadline and body, and a span id drawn for that request (named after its id), and
     each request id goes out at most once;
   - every cancellation carries exactly the trace context (trace id, span id, sampling) its
     request was written with - whatever other requests are in flight, answered, cancelled or
     expired in between. *)
Theorem C18_client_monitor : forall (T : Type) (tp : transport T cmsg resp)
    (fuel_of : cstate (T := T) -> nat) (t0 : T) (qcap maxif : nat) (ops : list (op (T := T))),
  no_wrap ops ->
  c18_ok maxif ops (client_trace tp fuel_of t0 qcap maxif ops) = true.
Proof. exact (fun T => @c18_proved T). Qed.

(* non-vacuity: two concurrent requests with distinct trace ids; the second is abandoned *)
Example C18_nonvacuous :
  let ops := [SCall 0 50 77 true 1; SPollCall 0; SCall 0 50 88 false 2; SPollCall 1; SPollD;
              SDropCall 1; SPollD] in
  let tr := crun (mkcfg 2 2 0 true) ops in
  nth 6 tr [] = [OCalls [CNext RPending; CReady TOk;
                         CSend (MCancel 1 (mktc 88 1 false)) SOk;
                         CNext RPending; CReady TOk; CReady TOk; CFlush TOk];
                 ODisp DPending; OGauge 1 1]
  /\ c18_ok 2 (map to_op ops) tr = true.
Proof. vm_compute. split; reflexivity. Qed.


(* ------------------------------------------------------------------------------------------ *)
(* Server half (model: Server.v; proofs: Server*.v; statements restated from ServerProps.v).
   From here on unqualified names are the SERVER model's. *)
From TarpcV Require Import TimerWheel Server ServerMon ServerFuel ServerProps ServerWitness.

(* Server channel, EVERY transport, configuration and op list: the request a poll of the
   Requests stream hands to the application carries the id, deadline, body and the trace number
   (2 * trace id + sampling bit) of the last request the transport delivered in that poll: the
   server never rewrites the trace id or the sampling decision (its own span id is a fresh draw
   and is not observed). *)
Theorem C18_server_monitor : forall (T C : Type) (tp : transport T response cmsg) (ctl : T -> C -> T)
    (tfuel : T -> nat) (c : cfg) (t0 : T) (ops : list (op C)),
  tfuel_ok tp tfuel -> c18s_ok (fst (run tp ctl tfuel c t0 ops)) = true.
Proof. exact ServerProps.C18_server_monitor. Qed.

(* ---- part threads (monitor only): what an accepted trace of calls made from several OS threads
   guarantees ---- *)
From TarpcV Require Import SpanThreads SpanThreadsProofs.
Theorem C18_threads_sound : forall calls tr, c18t_ok calls tr = true ->
  NoDup (map (fun e => snd e) tr)
  /\ forall b t sp, In (b, t, sp) tr ->
       exists ct cs, nth_error calls (N.to_nat b) = Some (ct, cs) /\ t = ct /\ sp <> cs.
Proof. exact c18t_sound. Qed.

Print Assumptions C18_client_monitor.
Print Assumptions C18_server_monitor.

(* ------------------------------------------------------------------------------------------ *)
(* Composition of the client model and the server model (coq/Chain*.v); names are qualified. *)
From TarpcV Require Client Server Chain ChainSpec ChainCtx ChainProofs.
(* multi-hop clause, on the composition, for every depth and every op list: the request yielded
   to a handler on ANY node carries the trace id and the sampling decision (2*trace_id+sampled)
   of a head call with the same body *)
Theorem C18_chain_trace : forall (d : nat) (ops : list Chain.cop),
  Chain.c18c_ok d ops (fst (Chain.run d ops)) = true.
Proof. exact ChainCtx.chain_trace. Qed.

Example C18_chain_nonvacuous :
  let ops := [Chain.HCall 1000 7 true 5; Chain.HCall 500 9 false 6; Chain.SettleAll] in
  filter (fun e => match e with Chain.KYield _ _ _ _ _ _ => true | _ => false end)
         (nth 2 (fst (Chain.run 2 ops)) []) =
    [Chain.KYield 0 0 0 1000 15 5; Chain.KYield 1 0 0 1000 15 5;
     Chain.KYield 0 1 1 500 18 6; Chain.KYield 1 1 1 500 18 6]
  /\ Chain.c18c_ok 2 ops (fst (Chain.run 2 ops)) = true
  /\ Chain.c18c_ok 2 ops [[]; []; [Chain.KYield 1 0 0 1000 14 5]] = false.
Proof. vm_compute. repeat split; reflexivity. Qed.

Print Assumptions C18_chain_trace.

(* per-hop wire clause over the composition *)
From TarpcV Require ChainWire.
(* on the wire, on the COMPOSITION (coq/Chain.v), for EVERY depth and EVERY op list: every
   request a RequestDispatch of ANY node writes into its link (as the tap on the client end of
   the transport sees it, successful writes only) carries
     - a span id of its own, drawn for this request (named after its request id), and
     - the trace number (2*trace_id + sampled) and the deadline of a head call with its body;
   every cancellation written carries exactly the trace number and the span id of a request
   with the same id written earlier on the same link.  Per hop this is the content of
   C18_client_monitor; across hops it rests on the context invariant of C18_chain_trace.
   The hypothesis chain_no_wrap of the pinned statement is not used (ChainWire.chain_wire_all
   is the statement without it). *)
Theorem C18_chain_wire : forall (d : nat) (ops : list Chain.cop),
  ChainSpec.chain_no_wrap ops -> Chain.c18w_ok d ops (fst (Chain.run d ops)) = true.
Proof. exact ChainWire.chain_wire. Qed.

Theorem C18_chain_wire_all : forall (d : nat) (ops : list Chain.cop),
  Chain.c18w_ok d ops (fst (Chain.run d ops)) = true.
Proof. exact ChainWire.chain_wire_all. Qed.

(* non-vacuity: depth 2, two head calls, the first one abandoned.  Both requests cross both
   links with span id = request id and the head's trace number and deadline; the cancellation
   crosses both links with the trace number and span id of request 0.  The monitor rejects a
   request with a foreign span id, a request with another trace number, a request with another
   deadline, a cancellation for a request never written on that link, and a cancellation that
   changes the span id. *)
Example C18_chain_wire_nonvacuous :
  let ops := [Chain.HCall 1000 7 true 5; Chain.HCall 500 9 false 6; Chain.SettleAll;
              Chain.HDrop 0; Chain.SettleAll] in
  map (filter (fun e => match e with Chain.KWire _ _ => true | _ => false end))
      (fst (Chain.run 2 ops)) =
    [[]; [];
     [Chain.KWire 0 [Chain.WReq 0 1000 15 0 5; Chain.WReq 1 500 18 1 6];
      Chain.KWire 1 [Chain.WReq 0 1000 15 0 5]; Chain.KWire 1 [Chain.WReq 1 500 18 1 6]];
     [];
     [Chain.KWire 0 [Chain.WCancel 0 15 0]; Chain.KWire 1 [Chain.WCancel 0 15 0]]]
  /\ Chain.c18w_ok 2 ops (fst (Chain.run 2 ops)) = true
  /\ Chain.c18w_ok 2 ops [[]; []; [Chain.KWire 0 [Chain.WReq 0 1000 15 1 5]]; []; []] = false
  /\ Chain.c18w_ok 2 ops [[]; []; [Chain.KWire 0 [Chain.WReq 0 1000 14 0 5]]; []; []] = false
  /\ Chain.c18w_ok 2 ops [[]; []; [Chain.KWire 0 [Chain.WReq 0 999 15 0 5]]; []; []] = false
  /\ Chain.c18w_ok 2 ops [[]; []; [Chain.KWire 0 [Chain.WReq 0 1000 15 0 5]]; [];
                           [Chain.KWire 1 [Chain.WCancel 0 15 0]]] = false
  /\ Chain.c18w_ok 2 ops [[]; []; [Chain.KWire 0 [Chain.WReq 0 1000 15 0 5]]; [];
                           [Chain.KWire 0 [Chain.WCancel 0 15 7]]] = false
  /\ Chain.c18w_ok 2 ops [[]; []; [Chain.KWire 0 [Chain.WReq 0 1000 15 0 5]]; [];
                           [Chain.KWire 0 [Chain.WCancel 0 15 0]]] = true.
Proof. vm_compute. repeat split; reflexivity. Qed.

Print Assumptions C18_chain_wire.
Print Assumptions C18_chain_wire_all.
Print Assumptions C18_threads_sound.
