(* C12  Per-channel request limit throttles exactly the excess.
   Statements only; every proof is `exact <lemma>`.  Model: coq/Server.v (MaxRequests::poll_next
   over BaseChannel, Requests); monitors: coq/ServerMon.v. *)
From Coq Require Import List Bool Arith NArith.
Import ListNotations.
From TarpcV Require Import Base Transport TimerWheel Server ServerMon ServerWitness.

(* K1 (known finding): the clause "refused only if L really were in flight" is FALSE of the
   code when capacity is freed inside the same inner poll that reads the request.  Witness:
   limit 1, request 1 in flight, `Cancel 1; Request 2` read by one poll: request 2 is throttled
   with 0 in flight.  The full monitor rejects it, the relaxed one (class exempt) accepts it. *)
Theorem C12_freed_in_same_poll_witness :
  c12_ok k1_cfg k1_ops (tr_of k1_cfg k1_ops) = false
  /\ c12_rel_ok k1_cfg k1_ops (tr_of k1_cfg k1_ops) = true
  /\ freed_in_same_poll k1_cfg k1_ops (tr_of k1_cfg k1_ops) = true
  /\ nth 4 (tr_of k1_cfg k1_ops) [] =
     [OCalls [CReady TOk; CNext (RItem (MCancel 1 7)); CNext (RItem (MReq 2 1000 7 6));
              CSend (mkresp 2 BThrottle) SOk; CNext RPending; CReady TOk; CFlush TOk];
      OPending; OGauges 0 0].
Proof. exact k1_witness. Qed.

Print Assumptions C12_freed_in_same_poll_witness.
