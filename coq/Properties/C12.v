(* C12  Per-channel request limit throttles exactly the excess.
   Statements only; every proof is `exact <lemma>`.  Model: coq/Server.v (MaxRequests::poll_next
   over BaseChannel, Requests); monitors: coq/ServerMon.v; proofs: coq/ServerState.v,
   coq/ServerProps.v, coq/ServerWitness.v, coq/ServerProofsPB*.v (monitor theorems),
   coq/ServerExecProofs2.v (through execute()).

   Proved here, for every transport (any state type, any behaviour), every environment, every
   configuration (L = 0 included) and every op list:
     (a) the application is handed a request only below the limit (state form and trace form).
   Proved by computation: the witness of K1 (clause (c) is false of the code).
   Monitor theorems (proved, see the end of this file; the monitors c12_ok / c12_rel_ok are also
   evaluated on the real code's traces on every run, and the model is tied by the correspondence):
     C12_monitor_rel : forall c t0 ops, c12_rel_ok c ops (fst (srun c t0 ops)) = true
     C12_monitor     : forall c t0 ops, freed_in_same_poll c ops (fst (srun c t0 ops)) = false ->
                                        c12_ok c ops (fst (srun c t0 ops)) = true
   (clauses (b) exactly one throttle reply per refused request, never yielded, and (c) refused
   only with L in flight outside the class FreedInSamePoll).  The exact statements, for every
   transport, are pinned as ServerSpec.stmt_s12_rel / stmt_s12 (flag level: stmt_s_v12a, _v12b,
   _v12c_rel, _v12c).  The simulation they need (ServerSim*.v: observer vs model) is proved along
   every run (ServerSim6.run_top); the flags, decided in the middle of a poll, are threaded through
   it in ServerProofsPB1 (v12a), PB2 (v12b), PB4 / PB6 (v12c, v12c_rel; clause (c) under B1). *)
From Coq Require Import List Bool Arith NArith.
Import ListNotations.
From TarpcV Require Import Base Transport TimerWheel Server ServerMon ServerWitness ServerState ServerProps.

(* (a), state form: MaxRequests::poll_next returns a request only if, with it, at most `limit`
   requests are tracked *)
Theorem C12_maxreq_below_limit :
  forall (T : Type) (tp : transport T response cmsg) f limit (s s' : @sstate T) q,
    keys_ok s -> maxreq_poll_next tp f limit s = (PReady q, s') -> length (s_inflight s') <= limit.
Proof. intros T tp f limit s s' q K H. exact (proj2 (maxreq_keys_len tp f limit s _ s' H K)). Qed.

(* (a), trace form: in every run, right after a yield the in-flight gauge is at most L *)
Theorem C12_yield_within_limit :
  forall (T C : Type) (tp : transport T response cmsg) (ctl : T -> C -> T) (tfuel : T -> nat)
         (c : cfg) (t0 : T) (ops : list (op C)),
    forallb (yield_within (cfg_limit c)) (fst (run tp ctl tfuel c t0 ops)) = true.
Proof. exact C12_server_yield_within_limit. Qed.

(* K1 (known finding): the clause "refused only if L really were in flight" is FALSE of the
   code when capacity is freed inside the same poll that reads the request.  Witness: limit 1,
   request 1 in flight, `Cancel 1; Request 2` read by one poll: request 2 is throttled with 0 in
   flight.  The full monitor rejects it, the relaxed one (class exempt) accepts it. *)
Theorem C12_freed_in_same_poll_witness :
  c12_ok k1_cfg k1_ops (tr_of k1_cfg k1_ops) = false
  /\ c12_rel_ok k1_cfg k1_ops (tr_of k1_cfg k1_ops) = true
  /\ freed_in_same_poll k1_cfg k1_ops (tr_of k1_cfg k1_ops) = true
  /\ nth 4 (tr_of k1_cfg k1_ops) [] =
     [OCalls [CReady TOk; CNext (RItem (MCancel 1 7)); CNext (RItem (MReq 2 1000 7 6));
              CSend (mkresp 2 BThrottle) SOk; CNext RPending; CReady TOk; CFlush TOk];
      OPending; OGauges 0 0].
Proof. exact k1_witness. Qed.

(* non-vacuity: limit 1: the second request is throttled while the first is in flight, and is
   yielded once the first has been answered *)
Example C12_nonvacuous :
  fst (srun (mkcfg (Some 1) 1) t_unbounded
        [OCtl (TDeliver (MReq 1 1000 7 5)); OPoll; OCtl (TDeliver (MReq 2 1000 7 6)); OPoll;
         OHandlerPoll 0 (SFinish 9); OPoll; OCtl (TDeliver (MReq 3 1000 7 6)); OPoll])
  = [[OGauges 0 0];
     [OCalls [CNext (RItem (MReq 1 1000 7 5)); CReady TOk; CFlush TOk]; OYield 0 1 1000 7 5; OGauges 1 1];
     [OGauges 1 1];
     [OCalls [CReady TOk; CNext (RItem (MReq 2 1000 7 6)); CSend (mkresp 2 BThrottle) SOk; CReady TOk;
              CNext RPending; CReady TOk; CFlush TOk]; OPending; OGauges 1 1];
     [OHPolled 0; OHDone 0 (BOk 9); OExecReady 0; OGauges 1 1];
     [OCalls [CReady TOk; CNext RPending; CReady TOk; CSend (mkresp 1 (BOk 9)) SOk; CNext RPending;
              CReady TOk; CFlush TOk]; OPending; OGauges 0 0];
     [OGauges 0 0];
     [OCalls [CNext (RItem (MReq 3 1000 7 6)); CReady TOk; CFlush TOk]; OYield 1 3 1000 7 6; OGauges 1 1]].
Proof. vm_compute. reflexivity. Qed.

From TarpcV Require Import ServerFuel ServerSpec ServerProofsPA4 ServerProofsPB6 ServerProofsPC10 ServerProofsPC3.

(* THE MONITOR THEOREMS: (a) a request is handed to the application only while fewer than L are
   in flight; (b) every throttle reply answers the request just read, exactly once, and that
   request is never executed; (c) a request is refused only if L requests really were in flight
   when it was read - c12_rel_ok exempts exactly the polls in which capacity was freed earlier in
   the same poll (K1, known finding); outside that class the full-strength monitor accepts. *)
Theorem C12_monitor_rel : forall (T C : Type) (tp : transport T response cmsg) (ctl : T -> C -> T)
    (tfuel : T -> nat) (c : cfg) (t0 : T) (ops : list (op C)),
  tfuel_ok tp tfuel ->
  c12_rel_ok c ops (fst (run tp ctl tfuel c t0 ops)) = true.
Proof. exact s12_rel. Qed.

Theorem C12_monitor : forall (T C : Type) (tp : transport T response cmsg) (ctl : T -> C -> T)
    (tfuel : T -> nat) (c : cfg) (t0 : T) (ops : list (op C)),
  tfuel_ok tp tfuel ->
  freed_in_same_poll c ops (fst (run tp ctl tfuel c t0 ops)) = false ->
  c12_ok c ops (fst (run tp ctl tfuel c t0 ops)) = true.
Proof. exact s12. Qed.

(* for a channel driven through tarpc's own execute() (ServerExec.v: futures TakeWhile/FilterMap/Map
   transcribed, tied to the real Channel::execute by the srvx driver): stops_after_error is
   discharged, only B1 (and the known class) remains *)
From TarpcV Require Import ServerExec ServerExecProofs ServerExecProofs2.
Theorem C12_monitor_rel_exec : forall (T C : Type) (tp : transport T response cmsg) (ctl : T -> C -> T)
    (tfuel : T -> nat) (c : cfg) (t0 : T) (eops : list (eop C)),
  tfuel_ok tp tfuel ->
  let ops := exec_ops tp ctl tfuel c t0 eops in
  let v := observe c ops (exec_trace tp ctl tfuel c t0 eops) in
  c12_rel_ok c ops (exec_trace tp ctl tfuel c t0 eops) = true
  /\ h_stop v = true /\ v_bad v = false /\ v12a v = true /\ v12b v = true
  /\ (h_b1 v = true -> v12c_rel v = true).
Proof. exact ServerExecProofs2.C12_monitor_rel_exec. Qed.

Theorem C12_monitor_exec : forall (T C : Type) (tp : transport T response cmsg) (ctl : T -> C -> T)
    (tfuel : T -> nat) (c : cfg) (t0 : T) (eops : list (eop C)),
  tfuel_ok tp tfuel ->
  let ops := exec_ops tp ctl tfuel c t0 eops in
  let v := observe c ops (exec_trace tp ctl tfuel c t0 eops) in
  freed_in_same_poll c ops (exec_trace tp ctl tfuel c t0 eops) = false ->
  c12_ok c ops (exec_trace tp ctl tfuel c t0 eops) = true
  /\ h_stop v = true /\ v_bad v = false /\ v12a v = true /\ v12b v = true
  /\ (h_b1 v = true -> v12c v = true).
Proof. exact ServerExecProofs2.C12_monitor_exec. Qed.

Print Assumptions C12_monitor_rel_exec.
Print Assumptions C12_monitor_exec.
Print Assumptions C12_maxreq_below_limit.
Print Assumptions C12_yield_within_limit.
Print Assumptions C12_freed_in_same_poll_witness.
Print Assumptions C12_monitor_rel.
Print Assumptions C12_monitor.
