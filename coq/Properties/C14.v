(* C14  tarpc honours the pluggable transport's contract.
   Statements only.  Client half: ClientProofsG1*.v; server half: see the server section. *)
From Coq Require Import List Bool Arith NArith.
Import ListNotations.
From TarpcV Require Import Base Transport Client ClientS ClientMon ClientSpec
  ClientProofsG1 ClientProofsG1Fuel.

(* Client dispatch, for EVERY transport (any state type T, any behaviour tp, any initial state),
   any fuel policy, any request-buffer size and in-flight limit, and every sequence of calls,
   polls, abandonments, handle drops, clock steps and transport events: the per-poll call log
   satisfies the contract monitor (Transport.c_poll):
   (a) every start_send is licensed by a poll_ready -> Ready(Ok) not yet consumed by a write;
   (b) no start_send after poll_close was called, after a poll_ready/poll_flush/poll_close
       failure, or after a failed write of a cancellation;
   (c) no poll returns Pending leaving written items unflushed unless the last flush/close of
       that poll is itself pending, or the transport has reported a failure;
   (d) at most 8 consecutive "not ready"/flush polls without progress inside one poll. *)
Theorem C14_client_contract : forall (T : Type) (tp : transport T cmsg resp)
    (fuel_of : cstate (T := T) -> nat) (t0 : T) (qcap maxif : nat) (ops : list (op (T := T))),
  c14_ok maxif ops (client_trace tp fuel_of t0 qcap maxif ops) = true.
Proof. exact (fun T => @c14_holds T). Qed.

(* ... and every poll of the dispatch returns control to the executor: on the scripted
   transport no poll runs out of a fuel that is linear in the lengths of the inbound buffer
   and of the request, cancellation and timer queues *)
Theorem C14_client_poll_total : forall cfg ops,
  cfuel_ok (cf_maxif cfg) (map to_op ops) (crun cfg ops) = true.
Proof. exact cfuel_holds. Qed.

(* non-vacuity: a run in which the sink is not ready, then flushes, then accepts *)
Example C14_nonvacuous :
  crun (mkcfg 2 2 1 true)
       [SCall 0 50 7 true 1; SPollCall 0; SCall 0 50 8 true 2; SPollCall 1; SPollD]
  = [[]; [OCall CPending]; []; [OCall CPending];
     [OCalls [CNext RPending; CReady TOk; CSend (MReq 0 50 (mktc 7 0 true) 1) SOk;
              CNext RPending; CReady TPending; CFlush TOk; CReady TOk;
              CSend (MReq 1 50 (mktc 8 1 true) 2) SOk;
              CNext RPending; CReady TPending; CFlush TOk; CReady TOk; CFlush TOk];
      ODisp DPending; OGauge 2 2]].
Proof. vm_compute. reflexivity. Qed.


(* ------------------------------------------------------------------------------------------ *)
(* Server half (model: Server.v; proofs: Server*.v; statements restated from ServerProps.v).
   From here on unqualified names are the SERVER model's. *)
From TarpcV Require Import TimerWheel Server ServerMon ServerFuel ServerProps ServerWitness.

(* Requests / MaxRequests over EVERY transport (any state type, any behaviour, any environment
   `ctl` that changes it between polls, any fuel measure), every configuration (limit or none,
   response buffer) and every op list: the per-poll call log of the Requests stream satisfies
   the same contract monitor, with every failed write fatal.  `polls_of` stops at the first poll
   that yielded an error (boundary stops_after_error: tarpc's own execute() stops there; an
   application that keeps polling after an error makes the channel write after a reported
   failure - e1_witness refutes the unrestricted statement). *)
Theorem C14_server_contract : forall (T C : Type) (tp : transport T response cmsg) (ctl : T -> C -> T)
    (tfuel : T -> nat) (c : cfg) (t0 : T) (ops : list (op C)),
  contract_ok (fun _ : response => true) (polls_of ops (fst (run tp ctl tfuel c t0 ops))) = true.
Proof. exact ServerProps.C14_server_contract. Qed.

(* every poll of the Requests stream returns: no poll runs out of fuel (linear in the queue
   lengths), for every transport whose fuel measure decreases with every item it hands out *)
Theorem C14_server_poll_total : forall (T C : Type) (tp : transport T response cmsg) (ctl : T -> C -> T)
    (tfuel : T -> nat) (c : cfg) (t0 : T) (ops : list (op C)),
  tfuel_ok tp tfuel -> no_fuel (fst (run tp ctl tfuel c t0 ops)) = true.
Proof. exact ServerProps.C14_server_total. Qed.

Theorem C14_server_unrestricted_refuted :
  stops_after_error e1_cfg e1_ops (tr_of e1_cfg e1_ops) = false
  /\ contract_ok (fun _ : response => true) (polls_all e1_ops (tr_of e1_cfg e1_ops)) = false
  /\ c14s_ok e1_ops (tr_of e1_cfg e1_ops) = true.
Proof. exact e1_witness. Qed.

(* ---- the same WITHOUT the boundary, for tarpc's own consumer: Requests::execute /
   Channel::execute = take_while(is_ok).filter_map(ok).map(execute) over the Requests stream
   (ServerExec.v: futures-util 0.3 TakeWhile/FilterMap/Map transcribed, MODELLED NOT VERIFIED).
   exec_ops is the op list the channel sees when the application polls the execute-stream. ---- *)
From TarpcV Require Import ServerExec ServerExecProofs.

Theorem C14_exec_stops_after_error : forall (T C : Type) (tp : transport T response cmsg) (ctl : T -> C -> T)
    (tfuel : T -> nat) (c : cfg) (t0 : T) (eops : list (eop C)),
  stops_after_error c (exec_ops tp ctl tfuel c t0 eops) (exec_trace tp ctl tfuel c t0 eops) = true.
Proof. exact ServerExecProofs.exec_stops_after_error. Qed.

Theorem C14_exec_no_poll_after_err : forall (T C : Type) (tp : transport T response cmsg) (ctl : T -> C -> T)
    (tfuel : T -> nat) (c : cfg) (t0 : T) (eops : list (eop C)),
  no_poll_after_err false (exec_ops tp ctl tfuel c t0 eops) (exec_trace tp ctl tfuel c t0 eops) = true.
Proof. exact ServerExecProofs.exec_no_poll_after_err. Qed.

(* the contract over the call logs of EVERY poll (polls_all, not polls_of) *)
Theorem C14_server_contract_exec : forall (T C : Type) (tp : transport T response cmsg) (ctl : T -> C -> T)
    (tfuel : T -> nat) (c : cfg) (t0 : T) (eops : list (eop C)),
  tfuel_ok tp tfuel ->
  contract_ok (fun _ : response => true)
    (polls_all (exec_ops tp ctl tfuel c t0 eops) (exec_trace tp ctl tfuel c t0 eops)) = true.
Proof. exact ServerExecProofs.C14_server_contract_exec. Qed.

Print Assumptions C14_client_contract.
Print Assumptions C14_client_poll_total.
Print Assumptions C14_server_contract.
Print Assumptions C14_server_poll_total.
Print Assumptions C14_server_unrestricted_refuted.
Print Assumptions C14_exec_stops_after_error.
Print Assumptions C14_exec_no_poll_after_err.
Print Assumptions C14_server_contract_exec.

(* ------------------------------------------------------------------------------------------ *)
(* Composition of the client model and the server model (coq/Chain*.v); names are qualified. *)
From TarpcV Require Client Server Chain ChainSpec ChainFuel.
(* on the COMPOSITION (coq/Chain.v), for EVERY depth and EVERY op list, in every state reached
   (tainted or not): no poll of a RequestDispatch and no poll of a Requests stream of any node
   runs out of the fuel the model gives it (Chain.cfuel for the dispatch, the fuel of
   Server.poll_fuel with tfuel = length of the inbound side of the link for the stream).  The
   bounded loops of the model are therefore total on the links of a chain, as they are on the
   scripted transport (C14_client_poll_total / C14_server_poll_total). *)
Theorem C14_chain_poll_fuel : forall (d : nat) (ops : list Chain.cop) (l : list Chain.cobs),
  In l (fst (Chain.run d ops)) ->
  forall i, ~ In (Chain.KDisp i Client.DFuel) l /\ ~ In (Chain.KStream i Chain.KFuel) l.
Proof. exact ChainFuel.chain_poll_fuel_stmt. Qed.

(* hence the monitor Chain.cfuel_ok says exactly: no SettleAll ran out of rounds *)
Theorem C14_chain_fuel_iff_rounds : forall (d : nat) (ops : list Chain.cop),
  Chain.cfuel_ok d ops (fst (Chain.run d ops)) = true
  <-> (forall l, In l (fst (Chain.run d ops)) -> ~ In Chain.KRounds l).
Proof. exact ChainFuel.chain_fuel_iff_rounds. Qed.

(* non-vacuity: the monitor does reject a dispatch poll out of fuel, a stream poll out of fuel
   and a SettleAll out of rounds *)
Example C14_chain_fuel_nonvacuous :
  Chain.cfuel_ok 1 [Chain.PollDispatch 0] [[Chain.KDisp 0 Client.DFuel]] = false
  /\ Chain.cfuel_ok 1 [Chain.PollRequests 0] [[Chain.KStream 0 Chain.KFuel]] = false
  /\ Chain.cfuel_ok 1 [Chain.SettleAll] [[Chain.KRounds]] = false
  /\ Chain.cfuel_ok 1 [Chain.SettleAll] [[Chain.KCGauge 0 0 0; Chain.KSGauge 0 0 0]] = true.
Proof. vm_compute. repeat split; reflexivity. Qed.

(* the rounds half is ChainSpec.stmt_chain_rounds: PROVED (ChainRounds5.chain_rounds, restated as
   C04_chain_rounds in Properties/C04.v; with a clock-range hypothesis instead of the observational
   one: C04_chain_rounds_clock); Chaincheck's cfuel_ok also runs on every real trace.
   The original ChainSpec.stmt_chain_fuel (which also demands that no SettleAll runs out of
   rounds, unconditionally) is FALSE in the model: after a clock jump beyond the DelayQueue
   range (2^36 ms, the boundary `dq_env` of the trusted base) the timer-order oracle of a server
   disagrees, Server.s_bad is sticky, KOracle is an event of every later round, no later round
   is quiet and SettleAll reports KRounds *)
Theorem C14_chain_fuel_pinned_refuted : ~ ChainSpec.stmt_chain_fuel.
Proof. exact ChainFuel.chain_fuel_refuted. Qed.

Print Assumptions C14_chain_poll_fuel.
Print Assumptions C14_chain_fuel_iff_rounds.
Print Assumptions C14_chain_fuel_pinned_refuted.
