(* C14  tarpc honours the pluggable transport's contract.
   Statements only.  Client half: ClientProofsG1*.v; server half: see the server section. *)
From Coq Require Import List Bool Arith NArith.
Import ListNotations.
From TarpcV Require Import Base Transport Client ClientS ClientMon ClientSpec
  ClientProofsG1 ClientProofsG1Fuel.

(* Client dispatch, for EVERY transport (any state type T, any behaviour tp, any initial state),
   any fuel policy, any request-buffer size and in-flight limit, and every sequence of calls,
   polls, abandonments, handle drops, clock steps and transport events: the per-poll call log
   satisfies the contract monitor (Transport.c_poll):
   (a) every start_send is licensed by a poll_ready -> Ready(Ok) not yet consumed by a write;
   (b) no start_send after poll_close was called, after a poll_ready/poll_flush/poll_close
       failure, or after a failed write of a cancellation;
   (c) no poll returns Pending leaving written items unflushed unless the last flush/close of
       that poll is itself pending, or the transport has reported a failure;
   (d) at most 8 consecutive "not ready"/flush polls without progress inside one poll. *)
Theorem C14_client_contract : forall (T : Type) (tp : transport T cmsg resp)
    (fuel_of : cstate (T := T) -> nat) (t0 : T) (qcap maxif : nat) (ops : list (op (T := T))),
  c14_ok maxif ops (client_trace tp fuel_of t0 qcap maxif ops) = true.
Proof. exact (fun T => @c14_holds T). Qed.

(* ... and every poll of the dispatch returns control to the executor: on the scripted
   transport no poll runs out of a fuel that is linear in the lengths of the inbound buffer
   and of the request, cancellation and timer queues *)
Theorem C14_client_poll_total : forall cfg ops,
  cfuel_ok (cf_maxif cfg) (map to_op ops) (crun cfg ops) = true.
Proof. exact cfuel_holds. Qed.

(* non-vacuity: a run in which the sink is not ready, then flushes, then accepts *)
Example C14_nonvacuous :
  crun (mkcfg 2 2 1 true)
       [SCall 0 50 7 true 1; SPollCall 0; SCall 0 50 8 true 2; SPollCall 1; SPollD]
  = [[]; [OCall CPending]; []; [OCall CPending];
     [OCalls [CNext RPending; CReady TOk; CSend (MReq 0 50 (mktc 7 0 true) 1) SOk;
              CNext RPending; CReady TPending; CFlush TOk; CReady TOk;
              CSend (MReq 1 50 (mktc 8 1 true) 2) SOk;
              CNext RPending; CReady TPending; CFlush TOk; CReady TOk; CFlush TOk];
      ODisp DPending; OGauge 2 2]].
Proof. vm_compute. reflexivity. Qed.

Print Assumptions C14_client_contract.
Print Assumptions C14_client_poll_total.
