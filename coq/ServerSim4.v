(* Simulation, part 4: control facts.  A poll that returns Pending / end of stream either was
   blocked in MaxRequests (and the observer has noticed: o_blocked) or left the channel
   "complete": no server-side cancel pending and no timer due. *)
From Coq Require Import List Bool Arith NArith Lia.
Import ListNotations.
From TarpcV Require Import Base Transport TimerWheel Server ServerMon ServerFuel ServerContract
     ServerSim ServerSim2 ServerSim3.

(* ---- observer flags under one call ---------------------------------------------------------- *)
Lemma ocall_flags : forall lim o c,
  let o' := o_call lim o c in
  o_first o' = false /\ o_gauge o' = o_gauge o
  /\ (o_blocked o = true -> o_blocked o' = true)
  /\ (o_freed o = true -> o_freed o' = true)
  /\ (o_after_thr o' = match c with CSend m _ => match resp_body m with BThrottle => true | _ => false end
                                | _ => false end).
Proof.
  intros lim o c. cbv zeta. unfold o_call. fold (pre_err o).
  destruct (pre_err_proj o) as (A1 & A2 & A3 & A4 & A5 & A6 & A7 & A8 & A9 & A10 & A11 & A12 & A13 & A14 & A15 & A16).
  destruct c as [r|m r|r|r|r].
  - oproj. rewrite A6, A9, A10. repeat split; auto. intros ->. reflexivity.
  - destruct (resp_body m) eqn:EB.
    1,2,4: (destruct (last_open (resp_id m) (o_incs (pre_err o))); oproj; rewrite A6, A9, A10; repeat split; auto).
    match goal with |- context [accept_id ?i ?x] =>
      destruct (accept_id_proj i x) as (D1 & D2 & D3 & D4 & D5 & D6 & D7 & D8 & D9 & D10 & D11 & D12 & D13) end.
    oproj. rewrite D6, D7, D8. oproj. rewrite A6, A9, A10. repeat split; auto.
  - oproj. rewrite A6, A9, A10. repeat split; auto.
  - oproj. rewrite A6, A9, A10. repeat split; auto.
  - destruct (resolve_ignored_proj (pre_err o)) as (B1 & B2 & B3 & B4 & B5 & B6 & B7 & B8 & B9 & B10 & B11 & B12 & B13).
    destruct r as [[id dl tr body|id tr]| | |]; try (oproj; rewrite B6, B7, B8, A6, A9, A10; repeat split; auto).
    destruct (last_open id (o_incs (resolve_ignored (pre_err o)))); oproj; rewrite ?B6, ?B7, ?B8, ?A6, ?A9, ?A10;
      repeat split; auto.
Qed.

Lemma ocall_ready_blocks : forall l o,
  (o_first o = true /\ Nat.leb l (o_gauge o) = true) \/ o_after_thr o = true ->
  o_blocked (o_call (Some l) o (CReady TPending)) = true.
Proof.
  intros l o H. unfold o_call. fold (pre_err o).
  destruct (pre_err_proj o) as (A1 & A2 & A3 & A4 & A5 & A6 & A7 & A8 & A9 & A10 & A11 & A12 & A13 & A14 & A15 & A16).
  oproj. rewrite A6, A7, A8. destruct H as [[H1 H2]|H]; [rewrite H1, H2|rewrite H]; cbn;
    rewrite ?orb_true_r; reflexivity.
Qed.

Section Ctrl.
  Context {T : Type}.
  Variable tp : transport T response cmsg.
  Notation st := (@sstate T).

  Definition Complete (s : st) : Prop := s_cancels s = [] /\ due s = [].

  Lemma due_sub : forall (s s' : st),
    s_now s' = s_now s -> (forall p, In p (s_timers s') -> In p (s_timers s)) -> due s = [] -> due s' = [].
  Proof.
    intros s s' Hn Hsub Hd. unfold due in *. rewrite Hn.
    destruct (filter (fun p => N.leb (snd p) (s_now s)) (s_timers s')) as [|p l] eqn:E; [reflexivity|].
    exfalso. assert (Hin : In p (filter (fun p => N.leb (snd p) (s_now s)) (s_timers s'))) by (rewrite E; left; reflexivity).
    apply filter_In in Hin. destruct Hin as [Hin Hb].
    assert (In p (filter (fun p => N.leb (snd p) (s_now s)) (s_timers s))) by (apply filter_In; split; auto).
    rewrite Hd in H. contradiction.
  Qed.

  Lemma Complete_core : forall (s s' : st), same_core s s' -> Complete s -> Complete s'.
  Proof.
    intros s s' (C1 & C2 & C3 & C4 & C5 & C6 & C7 & C8) (A & B). split; [congruence|].
    eapply due_sub; eauto. rewrite C4. auto.
  Qed.

  (* BaseChannel::poll_next runs until nothing is left to do *)
  Lemma base_complete : forall f (s : st) r s',
    base_poll_next tp f s = (r, s') ->
    match r with
    | PPending => Complete s'
    | PEnd => Complete s' /\ s_fused s' = true /\ s_timers s' = []
    | _ => True
    end.
  Proof.
    induction f as [|f IH]; intros s r s' H; cbn [base_poll_next] in H; [injection H as <- <-; exact I|].
    set (cs := match s_cancels s with
               | id :: r0 => (RSReady, snd (remove_request id (set_cancels s r0)))
               | [] => (RSClosed, s) end) in H.
    assert (Hc : (fst cs = RSClosed -> s_cancels (snd cs) = []) /\ fst cs <> RSPending).
    { subst cs. destruct (s_cancels s) eqn:E; cbn; split; auto; discriminate. }
    destruct cs as [cst s1]. cbn [fst snd] in Hc. destruct Hc as [Hc Hcp].
    destruct (poll_expired s1) as [est s2] eqn:EE.
    destruct (poll_expired_shape _ _ _ EE) as (A1 & A2 & A3 & A4 & A5 & A6 & _ & _ & _ & _ & _ & HH).
    assert (Hfin : forall rst sx r s',
               s_cancels sx = s_cancels s2 -> s_timers sx = s_timers s2 -> s_now sx = s_now s2 ->
               (rst = RSClosed -> s_fused sx = true) ->
               match combine (combine cst est) rst with
               | RSReady => base_poll_next tp f sx
               | RSClosed => (PEnd, sx)
               | RSPending => (PPending, sx)
               end = (r, s') ->
               match r with
               | PPending => Complete s'
               | PEnd => Complete s' /\ s_fused s' = true /\ s_timers s' = []
               | _ => True
               end).
    { intros rst sx r0 s0 Hcx Htx Hnx Hfx HH'.
      destruct cst; try (exfalso; apply Hcp; reflexivity);
        destruct est, rst; cbn [combine] in HH'; try (exact (IH _ _ _ HH')); injection HH' as <- <-.
      all: destruct HH as [(_ & B1 & B2 & B3 & B4 & B5)|(Hr & _)]; try discriminate.
      all: assert (Hcan : s_cancels sx = []) by (rewrite Hcx, A3; auto).
      all: try (assert (Hd : due sx = []) by (unfold due; rewrite Htx, Hnx; fold (due s2);
                                              unfold due; rewrite B2, A4; fold (due s1); auto)).
      all: try (assert (Ht : s_timers sx = []) by (rewrite Htx, B2; auto)).
      all: try (assert (Hd' : due sx = []) by (unfold due; rewrite Ht; reflexivity)).
      all: unfold Complete; auto. }
    destruct (s_fused s2) eqn:EF.
    - apply (Hfin RSClosed s2 r s'); auto.
    - destruct (do_next tp s2) as [rr s3] eqn:EN.
      destruct (do_next_core tp _ _ _ EN) as ((C1 & C2 & C3 & C4 & C5 & C6 & C7 & C8) & F3 & _).
      destruct rr as [m| | |].
      + destruct m as [id dl tr body|id tr].
        * destruct (start_request id dl s3) as [[h s4]|] eqn:ES; [injection H as <- <-; exact I|].
          exact (IH _ _ _ H).
        * destruct cst, est; cbn [combine] in H; exact (IH _ _ _ H).
      + injection H as <- <-. exact I.
      + apply (Hfin RSClosed (set_fused s3 true) r s'); auto.
      + apply (Hfin RSPending s3 r s'); auto. discriminate.
  Qed.

  (* an accepted request is tracked when BaseChannel::poll_next returns it *)
  Lemma base_accept_tracked : forall f (s : st) r s' q,
    base_poll_next tp f s = (r, s') -> r = PReady q ->
    exists e, find_entry (q_id q) s' = Some e.
  Proof.
    induction f as [|f IH]; intros s r s' q H Hr; cbn [base_poll_next] in H; [injection H as <- <-; discriminate|].
    set (cs := match s_cancels s with
               | id :: r0 => (RSReady, snd (remove_request id (set_cancels s r0)))
               | [] => (RSClosed, s) end) in H.
    destruct cs as [cst s1]. destruct (poll_expired s1) as [est s2] eqn:EE.
    assert (Hfin : forall rst sx,
               match combine (combine cst est) rst with
               | RSReady => base_poll_next tp f sx
               | RSClosed => (PEnd, sx)
               | RSPending => (PPending, sx)
               end = (r, s') -> exists e, find_entry (q_id q) s' = Some e).
    { intros rst sx HH. destruct (combine (combine cst est) rst); [exact (IH _ _ _ _ HH Hr)| |];
        injection HH as <- <-; discriminate. }
    destruct (s_fused s2); [exact (Hfin RSClosed s2 H)|].
    destruct (do_next tp s2) as [rr s3] eqn:EN.
    destruct rr as [m| | |].
    - destruct m as [id dl tr body|id tr].
      + destruct (start_request id dl s3) as [[h s4]|] eqn:ES; [|exact (IH _ _ _ _ H Hr)].
        injection H as <- <-. inversion Hr; subst q. cbn.
        destruct (start_request_shape _ _ _ _ _ ES) as (_ & _ & Hi & _).
        apply tracked_find. unfold tracked. rewrite Hi, existsb_app. cbn. rewrite N.eqb_refl.
        apply orb_true_r.
      + exact (Hfin RSReady _ H).
    - injection H as <- <-. discriminate.
    - exact (Hfin RSClosed _ H).
    - exact (Hfin RSPending _ H).
  Qed.

  Variable lim : option nat.
  Notation ocs := (fold_left (o_call lim)).

  Lemma ocs_blocked_mono : forall new o, o_blocked o = true -> o_blocked (ocs new o) = true.
  Proof.
    induction new as [|c new IH]; intros o H; cbn [fold_left]; auto.
    apply IH. destruct (ocall_flags lim o c) as (_ & _ & B & _). cbv zeta in B. auto.
  Qed.

  Lemma ocs_gauge : forall new o, o_gauge (ocs new o) = o_gauge o.
  Proof.
    induction new as [|c new IH]; intros o; cbn [fold_left]; auto.
    rewrite IH. destruct (ocall_flags lim o c) as (_ & G & _). exact G.
  Qed.

  Definition Entry (o : ostate) (s : st) : Prop :=
    Complete s \/ o_blocked o = true
    \/ (o_first o = true /\ o_gauge o = length (s_inflight s)) \/ o_after_thr o = true.

  Definition idle_ok (r : pres treq) (o : ostate) (s : st) : Prop :=
    match r with PPending | PEnd => Complete s \/ o_blocked o = true | _ => True end.

  Lemma base_ctrl : forall f (s : st) r s' o,
    base_poll_next tp f s = (r, s') -> exists new, ext s s' new /\ idle_ok r (ocs new o) s'.
  Proof.
    intros f s r s' o H. destruct (base_ext tp _ _ _ _ H) as (new & E & _). exists new. split; [exact E|].
    pose proof (base_complete _ _ _ _ H) as HC. destruct r; cbn; auto. left. tauto.
  Qed.

  Lemma send_throttle_log : forall q (s : st) e s',
    base_start_send tp (mkresp q BThrottle) s = (e, s') ->
    s_log s' = s_log s \/ exists r, s_log s' = CSend (mkresp q BThrottle) r :: s_log s.
  Proof.
    intros q s e s' H.
    destruct (base_start_send_shape tp _ _ _ _ H) as [(_ & _ & ->)|(en & r & _ & _ & _ & _ & _ & _ & _ & _ & _ & _ & _ & _ & _ & _ & L)];
      [left; reflexivity|right; exists r; exact L].
  Qed.

  (* MaxRequests::poll_next *)
  Lemma maxreq_ctrl : forall f limit (s : st) r s' o,
    lim = Some limit -> Entry o s -> maxreq_poll_next tp f limit s = (r, s') ->
    (* a throttled request is tracked when it is answered: the write is always made *)
    exists new, ext s s' new /\ idle_ok r (ocs new o) s'.
  Proof.
    induction f as [|f IH]; intros limit s r s' o Hlim HE H; cbn [maxreq_poll_next] in H.
    { injection H as <- <-. exists []. split; [apply ext_refl|exact I]. }
    destruct (limit <=? length (s_inflight s)) eqn:EL.
    - destruct (do_ready tp s) as [x s1] eqn:ER.
      destruct (do_ready_core tp _ _ _ ER) as (C1 & _ & _ & _ & _ & L1).
      assert (E01 : ext s s1 [CReady x]) by (unfold ext; rewrite L1; reflexivity).
      destruct x.
      + destruct (base_poll_next tp (S f) s1) as [y s2] eqn:EB.
        destruct (base_ctrl _ _ _ _ (o_call lim o (CReady TOk)) EB) as (n2 & E2 & Id2).
        assert (E02 : ext s s2 ([CReady TOk] ++ n2)) by (eapply ext_trans; eauto).
        destruct y as [q| |a| |]; try (injection H as <- <-; exists ([CReady TOk] ++ n2);
          (split; [exact E02|]); rewrite fold_left_app; exact Id2).
        destruct (base_start_send tp (mkresp (q_id q) BThrottle) s2) as [e s3] eqn:ESS.
        destruct (send_throttle_log _ _ _ _ ESS) as [L3|(rr & L3)].
        * (* the request was not tracked any more: cannot happen, but then nothing was written *)
          destruct e as [a|].
          -- injection H as <- <-. exists ([CReady TOk] ++ n2). split; [unfold ext in *; rewrite L3; exact E02|exact I].
          -- assert (HE3 : Entry (ocs ([CReady TOk] ++ n2) o) s3 \/ True) by (right; exact I).
             (* without a write the observer cannot tell; fall back on what the recursion gives *)
             destruct (base_start_send_shape tp _ _ _ _ ESS) as [(Hn & _ & Hs)|(en & r0 & _ & _ & _ & _ & _ & _ & _ & _ & _ & _ & _ & _ & _ & _ & LL)].
             ++ subst s3.
                (* base accepted q, so q is tracked: contradiction *)
                exfalso. clear -EB Hn.
                destruct (base_accept_tracked _ _ _ _ q EB eq_refl) as (e0 & Ht). cbn in Hn. congruence.
             ++ exfalso. rewrite L3 in LL. clear -LL.
                assert (length (s_log s2) = length (CSend (mkresp (q_id q) BThrottle) r0 :: s_log s2)) by (rewrite <- LL; reflexivity).
                cbn in H. lia.
        * set (o3 := ocs (([CReady TOk] ++ n2) ++ [CSend (mkresp (q_id q) BThrottle) rr]) o).
          assert (E03 : ext s s3 (([CReady TOk] ++ n2) ++ [CSend (mkresp (q_id q) BThrottle) rr])).
          { eapply ext_trans; [exact E02|]. unfold ext. rewrite L3. reflexivity. }
          destruct e as [a|].
          -- injection H as <- <-. eexists; split; [exact E03|exact I].
          -- assert (HE3 : Entry o3 s3).
             { right; right; right. subst o3. rewrite fold_left_app. cbn [fold_left].
               match goal with |- o_after_thr (o_call lim ?x ?c) = true =>
                 destruct (ocall_flags lim x c) as (_ & _ & _ & _ & AT) end.
               cbv zeta in AT. rewrite AT. reflexivity. }
             destruct (IH _ _ _ _ o3 Hlim HE3 H) as (n4 & E4 & Id4).
             eexists; split; [eapply ext_trans; [exact E03|exact E4]|]. rewrite fold_left_app. exact Id4.
      + injection H as <- <-. exists [CReady TErr]. split; [exact E01|exact I].
      + injection H as <- <-. exists [CReady TPending]. split; [exact E01|]. cbn [fold_left idle_ok].
        destruct HE as [HC|[HB|[[HF HG]|HA]]].
        * left. eapply Complete_core; eauto.
        * right. destruct (ocall_flags lim o (CReady TPending)) as (_ & _ & B & _). cbv zeta in B. auto.
        * right. rewrite Hlim. apply ocall_ready_blocks. left. split; [exact HF|]. rewrite HG. exact EL.
        * right. rewrite Hlim. apply ocall_ready_blocks. right. exact HA.
    - exact (base_ctrl _ _ _ _ o H).
  Qed.

  (* pump_write neither queues cancels nor arms timers *)
  Definition tframe (s s' : st) : Prop :=
    s_cancels s' = s_cancels s /\ s_now s' = s_now s
    /\ (forall p, In p (s_timers s') -> In p (s_timers s))
    /\ length (s_inflight s') <= length (s_inflight s).

  Lemma tframe_refl : forall s, tframe s s.
  Proof. intros; unfold tframe; repeat split; auto. Qed.
  Lemma tframe_trans : forall a b c, tframe a b -> tframe b c -> tframe a c.
  Proof.
    intros a b c (A1 & A2 & A3 & A4) (B1 & B2 & B3 & B4). unfold tframe. repeat split; auto; try congruence. lia.
  Qed.
  Lemma tframe_core : forall s s', same_core s s' -> tframe s s'.
  Proof.
    intros s s' (C1 & C2 & C3 & C4 & C5 & C6 & C7 & C8). unfold tframe. rewrite C3, C4, C6, C7. repeat split; auto.
  Qed.
  Lemma Complete_tframe : forall s s', tframe s s' -> Complete s -> Complete s'.
  Proof.
    intros s s' (A1 & A2 & A3 & _) (B1 & B2). split; [congruence|]. eapply due_sub; eauto.
  Qed.

  Lemma drop_entry_len : forall id l, length (drop_entry id l) <= length l.
  Proof. intros. unfold drop_entry. induction l; cbn; [lia|]. destruct (negb _); cbn; lia. Qed.

  Lemma ensure_tframe : forall (s : st) w s', ensure_writeable tp s = (w, s') ->
    tframe s s' /\ s_respq s' = s_respq s.
  Proof.
    intros s w s' H. unfold ensure_writeable in H.
    destruct (do_ready tp s) as [r s1] eqn:E1. destruct (do_ready_core tp _ _ _ E1) as (C1 & _ & Q1 & _).
    destruct r; try (injection H as _ <-; split; [apply tframe_core; auto|auto]).
    destruct (do_flush tp s1) as [f s2] eqn:E2. destruct (do_flush_core tp _ _ _ E2) as (C2 & _ & Q2 & _).
    destruct f; try (injection H as _ <-; split; [eapply tframe_trans; apply tframe_core; eauto|congruence]).
    destruct (do_ready tp s2) as [r2 s3] eqn:E3. destruct (do_ready_core tp _ _ _ E3) as (C3 & _ & Q3 & _).
    destruct r2; injection H as _ <-;
      (split; [eapply tframe_trans; [eapply tframe_trans|]; apply tframe_core; eauto|congruence]).
  Qed.

  Lemma pump_write_tframe : forall rc (s : st) w s', pump_write tp rc s = (w, s') -> tframe s s'.
  Proof.
    intros rc s w s' H. unfold pump_write, poll_next_response in H.
    destruct (ensure_writeable tp s) as [x s1] eqn:EW. destruct (ensure_tframe _ _ _ EW) as (F1 & Q1).
    assert (Hfl : forall sx (w0 : pres unit) s0, tframe s sx ->
      (let '(f, s2) := do_flush tp sx in
       match f with
       | TOk => if rc && Nat.eqb (length (s_inflight s2)) 0 then (@PEnd unit, s2) else (PPending, s2)
       | TErr => (PErr AFlush, s2)
       | TPending => (PPending, s2)
       end) = (w0, s0) -> tframe s s0).
    { intros sx w0 s0 Fx HH. destruct (do_flush tp sx) as [f s2] eqn:EF.
      destruct (do_flush_core tp _ _ _ EF) as (C2 & _).
      assert (tframe s s2) by (eapply tframe_trans; [exact Fx|apply tframe_core; auto]).
      destruct f; [destruct (rc && _)| |]; injection HH as _ <-; assumption. }
    destruct x as [| |a].
    - destruct (s_respq s1) as [|m q] eqn:EQ.
      + apply (Hfl s1 w s' F1). exact H.
      + destruct (base_start_send tp m (add_permit (set_respq s1 q))) as [e s2] eqn:ES.
        destruct (add_permit_shape (set_respq s1 q)) as (A1 & A2 & A3 & A4 & A5 & A6 & A7 & A8 & A9 & A10 & A11 & A12 & A13).
        cbv zeta in *. sproj.
        assert (F2 : tframe s1 s2).
        { destruct (base_start_send_shape tp _ _ _ _ ES) as [(_ & _ & ->)|(en & r & _ & _ & B1 & B2 & B3 & B4 & B5 & B6 & B7 & _)].
          - unfold tframe. rewrite A7, A8, A5, A4. repeat split; auto.
          - unfold tframe. rewrite B6, B7, B2, B1, A7, A8, A5, A4. repeat split; auto.
            + intros p Hp. apply in_drop_timer in Hp. tauto.
            + apply drop_entry_len. }
        destruct e; injection H as _ <-; eapply tframe_trans; eauto.
    - apply (Hfl s1 w s' F1). exact H.
    - injection H as _ <-. exact F1.
  Qed.

  Lemma ocs_ext_unique : forall (s s' : st) a b, ext s s' a -> ext s s' b -> a = b.
  Proof.
    intros s s' a b Ha Hb. unfold ext in *. rewrite Ha in Hb. apply app_inv_tail in Hb.
    apply (f_equal (@rev call)) in Hb. rewrite !rev_involutive in Hb. exact Hb.
  Qed.

  (* impl Stream for Requests: poll_next *)
  Lemma requests_ctrl : forall c f (s : st) r s' o,
    cfg_limit c = lim -> Entry o s -> requests_poll_next tp c f s = (r, s') ->
    exists new, ext s s' new /\ idle_ok r (ocs new o) s'.
  Proof.
    intros c f; induction f as [|f IH]; intros s r s' o Hlim HE H; cbn [requests_poll_next] in H.
    { injection H as <- <-. exists []. split; [apply ext_refl|exact I]. }
    destruct (pump_read tp c (S f) s) as [rd s1] eqn:ER.
    assert (Hrd : exists n1, ext s s1 n1 /\ idle_ok rd (ocs n1 o) s1).
    { unfold pump_read in ER. destruct (cfg_limit c) as [l|] eqn:EC.
      - eapply (maxreq_ctrl (S f) l); eauto.
      - eapply base_ctrl; eauto. }
    destruct Hrd as (n1 & X1 & Id1).
    destruct rd as [q| |a| |]; try (injection H as <- <-; exists n1; split; [exact X1|exact I]).
    - destruct (pump_write tp false s1) as [wr s2] eqn:EW.
      destruct (pump_write_good tp _ _ _ _ EW) as (n2 & X2 & _).
      assert (X02 : ext s s2 (n1 ++ n2)) by (eapply ext_trans; eauto).
      destruct wr as [u| |a| |]; injection H as <- <-; exists (n1 ++ n2);
        (split; [first [exact X02|unfold ext in *; sproj; exact X02]|exact I]).
    - destruct (pump_write tp true s1) as [wr s2] eqn:EW.
      destruct (pump_write_good tp _ _ _ _ EW) as (n2 & X2 & _).
      pose proof (pump_write_tframe _ _ _ _ EW) as F2.
      assert (X02 : ext s s2 (n1 ++ n2)) by (eapply ext_trans; eauto).
      assert (Id2 : Complete s2 \/ o_blocked (ocs (n1 ++ n2) o) = true).
      { cbn in Id1. destruct Id1 as [HC|HB]; [left; eapply Complete_tframe; eauto|right].
        rewrite fold_left_app. apply ocs_blocked_mono. exact HB. }
      destruct wr as [u| |a| |]; try (injection H as <- <-; exists (n1 ++ n2); split; [exact X02|cbn; auto]).
      assert (HE2 : Entry (ocs (n1 ++ n2) o) s2) by (destruct Id2; [left|right; left]; auto).
      destruct (IH _ _ _ _ Hlim HE2 H) as (n3 & X3 & Id3).
      exists ((n1 ++ n2) ++ n3). split; [eapply ext_trans; eauto|]. rewrite fold_left_app. exact Id3.
    - destruct (pump_write tp false s1) as [wr s2] eqn:EW.
      destruct (pump_write_good tp _ _ _ _ EW) as (n2 & X2 & _).
      pose proof (pump_write_tframe _ _ _ _ EW) as F2.
      assert (X02 : ext s s2 (n1 ++ n2)) by (eapply ext_trans; eauto).
      assert (Id2 : Complete s2 \/ o_blocked (ocs (n1 ++ n2) o) = true).
      { cbn in Id1. destruct Id1 as [HC|HB]; [left; eapply Complete_tframe; eauto|right].
        rewrite fold_left_app. apply ocs_blocked_mono. exact HB. }
      destruct wr as [u| |a| |]; try (injection H as <- <-; exists (n1 ++ n2); split; [exact X02|cbn; auto]).
      assert (HE2 : Entry (ocs (n1 ++ n2) o) s2) by (destruct Id2; [left|right; left]; auto).
      destruct (IH _ _ _ _ Hlim HE2 H) as (n3 & X3 & Id3).
      exists ((n1 ++ n2) ++ n3). split; [eapply ext_trans; eauto|]. rewrite fold_left_app. exact Id3.
  Qed.
End Ctrl.
