(* Chain proofs, SettleAll terminates, part 2: the client of a node over the link transport
   Chain.ctp.  Potential PsiC (A = weight of a fresh call on the NEXT node's client; a fresh call
   here weighs A + 22).  No invariant of the client state is used. *)
From Coq Require Import List Bool Arith NArith Lia.
Import ListNotations.
From TarpcV Require Import Base Transport Client.
From TarpcV Require Chain ChainRounds0 ClientProofsG3d.
Import ChainRounds0.

Notation link := Chain.link.
Notation ctp := Chain.ctp.
Notation cst := (@cstate Chain.link).

(* ---------------------------------------------------------------- lists *)
Lemma aremove_le {X} k (m : list (N * X)) : length (aremove k m) <= length m.
Proof. induction m as [|[k' v] r IH]; cbn; [lia|]. destruct (N.eqb k k'); cbn; lia. Qed.
Lemma aremove_lt {X} k (m : list (N * X)) v : alookup k m = Some v -> length (aremove k m) < length m.
Proof.
  induction m as [|[k' v'] r IH]; cbn; [discriminate|]. destruct (N.eqb k k').
  - intros _. pose proof (aremove_le k r). lia.
  - intro H. specialize (IH H). cbn. lia.
Qed.
Lemma aremove_lt_in {X} k (m : list (N * X)) v : In (k, v) m -> length (aremove k m) < length m.
Proof.
  induction m as [|[k' v'] r IH]; cbn; [tauto|]. intros [E|H].
  - injection E as -> ->. rewrite N.eqb_refl. pose proof (aremove_le k r). lia.
  - specialize (IH H). destruct (N.eqb k k'); cbn; [pose proof (aremove_le k r)|]; lia.
Qed.
Lemma aset_le {X} k (v : X) m : length (aset k v m) <= S (length m).
Proof. unfold aset. cbn. pose proof (aremove_le k m). lia. Qed.

Lemma min_timer_in l : forall best x, min_timer l best = Some x -> In x l \/ best = Some x.
Proof.
  induction l as [|[id w] r IH]; intros best x H; cbn in H; [right; exact H|].
  destruct best as [[bid bw]|].
  - destruct (_ || _); apply IH in H; destruct H as [H|H]; try (left; right; exact H).
    + injection H as <-. left; left; reflexivity.
    + right; exact H.
  - apply IH in H. destruct H as [H|H]; [left; right; exact H|]. injection H as <-. left; left; reflexivity.
Qed.

Lemma wire_of_app l l' : Chain.wire_of (l ++ l') = Chain.wire_of l ++ Chain.wire_of l'.
Proof. unfold Chain.wire_of. apply flat_map_app. Qed.

(* set_phase as a function of the call list *)
Definition with_phase (c : call) (p : phase) : call :=
  {| c_handle := c_handle c; c_phase := p; c_id := c_id c; c_rel := c_rel c;
     c_deadline := c_deadline c; c_tc := c_tc c; c_body := c_body c |}.
Definition sph (l : list call) (i : nat) (p : phase) : list call :=
  match nth_error l i with Some c => set_nth i (with_phase c p) l | None => l end.
Lemma set_phase_eq (s : cst) i p : set_phase s i p = upd_calls s (sph (calls s) i p).
Proof. unfold set_phase, sph. destruct (nth_error (calls s) i); [reflexivity|]. destruct s; reflexivity. Qed.

Lemma nth_set_nth {X} i (x y : X) l : nth_error l i = Some y -> nth_error (set_nth i x l) i = Some x.
Proof. revert i; induction l as [|z r IH]; intros [|i]; cbn; try discriminate; auto. Qed.
Lemma length_set_nth {X} i (x : X) l : length (set_nth i x l) = length l.
Proof. revert i; induction l as [|z r IH]; intros [|i]; cbn; auto. Qed.

Definition pcodes (l : list call) : list N := map (fun c => Chain.phase_code (c_phase c)) l.

Section CliPot.
  Variable A : nat.

  Definition wp (p : phase) : nat :=
    match p with
    | PNew => A + 22 | PAcquiring => 4 | PAssigned => A + 16 | PAcqClosed => 4 | PAwaiting => 4
    | PClosing => 3 | PDone | PGone => 0
    end.
  Fixpoint CW (l : list call) : nat := match l with [] => 0 | c :: r => wp (c_phase c) + CW r end.

  Lemma CW_set_nth i c c' l :
    nth_error l i = Some c -> CW (set_nth i c' l) + wp (c_phase c) = CW l + wp (c_phase c').
  Proof.
    revert i; induction l as [|z r IH]; intros [|i]; cbn [nth_error set_nth CW]; try discriminate.
    - intros [= ->]. lia.
    - intro H. specialize (IH i H). lia.
  Qed.
  Lemma CW_app l x : CW (l ++ [x]) = CW l + wp (c_phase x).
  Proof. induction l as [|z r IH]; cbn [app CW]; [lia|]. rewrite IH. lia. Qed.
  Lemma CW_sph_le l i p : CW (sph l i p) <= CW l + wp p.
  Proof.
    unfold sph. destruct (nth_error l i) as [c|] eqn:E; [|lia].
    pose proof (CW_set_nth i c (with_phase c p) l E) as H. cbn [with_phase c_phase] in H. lia.
  Qed.
  Lemma CW_sph l i p c : nth_error l i = Some c -> CW (sph l i p) + wp (c_phase c) = CW l + wp p.
  Proof.
    intro E. unfold sph. rewrite E.
    pose proof (CW_set_nth i c (with_phase c p) l E) as H. cbn [with_phase c_phase] in H. lia.
  Qed.
  Lemma CW_le l : CW l <= (A + 22) * length l.
  Proof. induction l as [|z r IH]; cbn [CW length]; [lia|]. destruct (c_phase z); cbn [wp]; lia. Qed.

  Definition bit (b : bool) : nat := if b then 0 else 1.
  Definition obit {X} (o : option X) : nat := match o with None => 1 | Some _ => 0 end.

  Definition PsiC (s : cst) : nat :=
    CW (calls s) + (A + 11) * length (queue s) + 2 * length (cancels s) + length (inflight s)
    + length (timers s) + (A + 17) * length (waiters s) + bit (rx_closed s) + obit (terminal s)
    + obit (finished s) + LP A (tr s).

  Definition DigD (s : cst) :=
    (length (queue s), length (cancels s), length (inflight s), length (timers s),
     length (waiters s), rx_closed s, obit (terminal s), obit (finished s), dropped s,
     pcodes (calls s), ldig (tr s)).
  Definition DigC (s : cst) := (DigD s, Chain.wire_of (plog s)).

  Definition R (s s' : cst) : Prop := PsiC s' <= PsiC s /\ (PsiC s' = PsiC s -> DigC s' = DigC s).
  Lemma R_refl s : R s s.
  Proof. split; [lia|reflexivity]. Qed.
  Lemma R_trans s1 s2 s3 : R s1 s2 -> R s2 s3 -> R s1 s3.
  Proof. intros [L1 H1] [L2 H2]. split; [lia|]. intro E. rewrite H2, H1 by lia. reflexivity. Qed.
  Lemma R_strict s s' : PsiC s' < PsiC s -> R s s'.
  Proof. intro H. split; [lia|intro; lia]. Qed.
  Lemma R_le s s' : R s s' -> PsiC s' <= PsiC s.
  Proof. intros [H _]; exact H. Qed.

  (* states that differ in fields the potential and the digest do not read *)
  Definition core (s : cst) :=
    (calls s, queue s, cancels s, inflight s, timers s, waiters s, rx_closed s, terminal s,
     finished s, dropped s, tr s, plog s).
  Lemma core_Psi s s' : core s' = core s -> PsiC s' = PsiC s /\ DigC s' = DigC s.
  Proof. unfold core, PsiC, DigC, DigD. intros [= -> -> -> -> -> -> -> -> -> -> -> ->]. split; reflexivity. Qed.
  Lemma R_core s s' : core s' = core s -> R s s'.
  Proof. intro E. destruct (core_Psi _ _ E) as [P D]. split; [lia|intros _; exact D]. Qed.
  Lemma R_core_r s s1 s2 : core s2 = core s1 -> R s s1 -> R s s2.
  Proof. intros E H. eapply R_trans; [exact H|apply R_core, E]. Qed.
  Lemma Psi_core s s' : core s' = core s -> PsiC s' = PsiC s.
  Proof. intro E. apply core_Psi, E. Qed.

  Lemma core_set_slot s id x : core (set_slot s id x) = core s. Proof. reflexivity. Qed.
  Lemma core_slot_send s id o : core (slot_send s id o) = core s.
  Proof. unfold slot_send. destruct (sl_rx_closed _); reflexivity. Qed.
  Lemma core_slot_tx_drop s id : core (slot_tx_drop s id) = core s. Proof. reflexivity. Qed.
  Lemma core_slot_rx_close s id : core (slot_rx_close s id) = core s. Proof. reflexivity. Qed.

  (* ---------------------------------------------------------------- transport wrappers *)
  Lemma R_do_ready (s : cst) r s' : do_ready ctp s = (r, s') -> R s s'.
  Proof.
    unfold do_ready. cbn. intros [= <- <-]. split; [unfold PsiC; cbn; lia|intros _].
    unfold DigC, DigD. cbn. rewrite wire_of_app. cbn. rewrite app_nil_r. reflexivity.
  Qed.
  Lemma R_do_flush (s : cst) r s' : do_flush ctp s = (r, s') -> R s s'.
  Proof.
    unfold do_flush. cbn. intros [= <- <-]. split; [unfold PsiC; cbn; lia|intros _].
    unfold DigC, DigD. cbn. rewrite wire_of_app. cbn. rewrite app_nil_r. reflexivity.
  Qed.
  Lemma R_do_close (s : cst) r s' : do_close ctp s = (r, s') -> R s s'.
  Proof.
    unfold do_close. cbn. intros [= <- <-]. split; [unfold PsiC; cbn; lia|intros _].
    unfold DigC, DigD. cbn. rewrite wire_of_app. cbn. rewrite app_nil_r. reflexivity.
  Qed.
  Lemma Psi_do_send (s : cst) m r s' :
    do_send ctp s m = (r, s') -> PsiC s' <= PsiC s + msgw A (Chain.conv_msg m).
  Proof.
    unfold do_send. cbn. destruct (Chain.l_sgone (tr s)); intros [= <- <-]; unfold PsiC, LP; cbn; [lia|].
    rewrite sumw_app. cbn [sumw]. lia.
  Qed.
  Lemma R_do_next (s : cst) r s' :
    do_next ctp s = (r, s') -> R s s' /\ (forall x, r = RItem x -> PsiC s' < PsiC s).
  Proof.
    unfold do_next. destruct (fused s); [intros [= <- <-]; split; [apply R_refl|discriminate]|].
    cbn. destruct (Chain.l_s2c (tr s)) as [|x rest] eqn:E; intros [= <- <-].
    - split; [|destruct (Chain.l_sgone _); discriminate].
      split; [unfold PsiC; cbn; lia|intros _]. unfold DigC, DigD. cbn. rewrite wire_of_app.
      destruct (Chain.l_sgone _); cbn; rewrite app_nil_r; reflexivity.
    - assert (P : PsiC (upd_tr s (Chain.mklink (Chain.l_c2s (tr s)) rest (Chain.l_cgone (tr s)) (Chain.l_sgone (tr s)))
                               false (plog s ++ [CNext (RItem x)])) < PsiC s).
      { unfold PsiC, LP. cbn. rewrite E. cbn. lia. }
      split; [apply R_strict, P|intros; exact P].
  Qed.

  (* ---------------------------------------------------------------- request queue *)
  Lemma release_permit_eq (s : cst) :
    release_permit s =
    match waiters s with
    | w :: r => upd_calls (upd_q s (permits s) (queue s) r (rx_closed s)) (sph (calls s) w PAssigned)
    | [] => upd_q s (S (permits s)) (queue s) [] (rx_closed s)
    end.
  Proof. unfold release_permit. destruct (waiters s); [reflexivity|]. rewrite set_phase_eq. reflexivity. Qed.

  Lemma R_release_permit (s : cst) : R s (release_permit s).
  Proof.
    rewrite release_permit_eq. destruct (waiters s) as [|w r] eqn:E.
    - split; [unfold PsiC; cbn; rewrite E; cbn; lia|intros _; unfold DigC, DigD; cbn; rewrite E; reflexivity].
    - apply R_strict. unfold PsiC. cbn. rewrite E. cbn [length].
      pose proof (CW_sph_le (calls s) w PAssigned). cbn [wp] in *. lia.
  Qed.

  Lemma R_q_poll_recv (s : cst) r s' :
    q_poll_recv s = (r, s') ->
    R s s' /\ (forall q, r = RvSome q -> PsiC s' + (A + 11) <= PsiC s).
  Proof.
    unfold q_poll_recv. destruct (queue s) as [|x rest] eqn:E.
    - destruct (Nat.eqb (senders s) 0); [|destruct (_ && _)]; intros [= <- <-]; (split; [apply R_refl|discriminate]).
    - intros [= <- <-].
      pose proof (R_le _ _ (R_release_permit (upd_q s (permits s) rest (waiters s) (rx_closed s)))) as L.
      assert (P : PsiC (upd_q s (permits s) rest (waiters s) (rx_closed s)) + (A + 11) = PsiC s)
        by (unfold PsiC; cbn; rewrite E; cbn [length]; lia).
      split; [apply R_strict; lia|intros; lia].
  Qed.

  Lemma fold_sph ws : forall (s : cst),
    fold_left (fun acc w => set_phase acc w PAcqClosed) ws s
    = upd_calls s (fold_left (fun l w => sph l w PAcqClosed) ws (calls s)).
  Proof.
    induction ws as [|w r IH]; intro s; cbn [fold_left]; [destruct s; reflexivity|].
    rewrite IH, set_phase_eq. reflexivity.
  Qed.
  Lemma CW_fold_sph ws : forall l, CW (fold_left (fun l w => sph l w PAcqClosed) ws l) <= CW l + 4 * length ws.
  Proof.
    induction ws as [|w r IH]; intro l; cbn [fold_left length]; [lia|].
    specialize (IH (sph l w PAcqClosed)). pose proof (CW_sph_le l w PAcqClosed). cbn [wp] in *. lia.
  Qed.

  Lemma R_q_close (s : cst) : R s (q_close s) /\ (rx_closed s = false -> PsiC (q_close s) < PsiC s).
  Proof.
    unfold q_close. destruct (rx_closed s) eqn:E; [split; [apply R_refl|discriminate]|].
    rewrite fold_sph.
    assert (P : PsiC (upd_q (upd_calls s (fold_left (fun l w => sph l w PAcqClosed) (waiters s) (calls s)))
                            (permits s) (queue s) [] true) < PsiC s).
    { unfold PsiC. cbn. rewrite E. cbn [bit length]. pose proof (CW_fold_sph (waiters s) (calls s)). lia. }
    split; [apply R_strict; exact P|intros _; exact P].
  Qed.

  Lemma R_c_poll_recv (s : cst) r s' :
    c_poll_recv s = (r, s') -> R s s' /\ (forall x, r = RvSome x -> PsiC s' + 2 <= PsiC s).
  Proof.
    unfold c_poll_recv. destruct (cancels s) as [|x rest] eqn:E.
    - destruct (Nat.eqb (senders s) 0); intros [= <- <-]; (split; [apply R_refl|discriminate]).
    - intros [= <- <-].
      assert (P : PsiC (upd_cancels s rest) + 2 = PsiC s) by (unfold PsiC; cbn; rewrite E; cbn [length]; lia).
      split; [apply R_strict; lia|intros; lia].
  Qed.

  (* ---------------------------------------------------------------- in-flight requests *)
  Lemma Psi_insert_request (s : cst) q : PsiC (insert_request s q) <= PsiC s + 2.
  Proof.
    unfold insert_request, PsiC. cbn [calls queue cancels inflight timers waiters rx_closed terminal finished tr upd_if].
    pose proof (aset_le (q_id q) {| if_deadline := q_deadline q; if_tc := q_tc q |} (inflight s)).
    pose proof (aset_le (q_id q) (timer_instant s (q_deadline q)) (timers s)). lia.
  Qed.

  Lemma Psi_upd_if_remove (s : cst) id :
    PsiC (upd_if s (aremove id (inflight s)) (aremove id (timers s))) <= PsiC s.
  Proof.
    unfold PsiC. cbn. pose proof (aremove_le id (inflight s)). pose proof (aremove_le id (timers s)). lia.
  Qed.

  Lemma Psi_complete_request (s : cst) id o b s' :
    complete_request s id o = (b, s') -> PsiC s' <= PsiC s.
  Proof.
    unfold complete_request. destruct (alookup id (inflight s)); intros [= <- <-]; [|lia].
    rewrite (Psi_core _ _ (core_slot_send _ _ _)). apply Psi_upd_if_remove.
  Qed.

  Lemma Psi_cancel_request (s : cst) id e s' :
    cancel_request s id = (e, s') ->
    PsiC s' <= PsiC s /\ (forall x, e = Some x -> PsiC s' + 1 <= PsiC s) /\ (e = None -> s' = s).
  Proof.
    unfold cancel_request. destruct (alookup id (inflight s)) eqn:E; intros [= <- <-].
    - pose proof (aremove_lt id (inflight s) _ E). pose proof (aremove_le id (timers s)).
      assert (PsiC (upd_if s (aremove id (inflight s)) (aremove id (timers s))) + 1 <= PsiC s)
        by (unfold PsiC; cbn; lia).
      split; [lia|]. split; [intros; assumption|discriminate].
    - split; [lia|]. split; [discriminate|reflexivity].
  Qed.

  Lemma fold_slot_send_core o l : forall (s : cst),
    core (fold_left (fun acc (p : N * ifentry) => slot_send acc (fst p) o) l s) = core s.
  Proof.
    induction l as [|p r IH]; intro s; cbn [fold_left]; [reflexivity|]. rewrite IH. apply core_slot_send.
  Qed.
  Lemma R_complete_all (s : cst) o : R s (complete_all s o).
  Proof.
    unfold complete_all. eapply R_core_r; [apply fold_slot_send_core|].
    split; [unfold PsiC; cbn; lia|]. unfold PsiC, DigC, DigD. cbn. intro E.
    destruct (inflight s); [|cbn [length] in E; lia]. destruct (timers s); [|cbn [length] in E; lia]. reflexivity.
  Qed.

  Lemma R_poll_expired (s : cst) e s' :
    poll_expired s = (e, s') -> R s s' /\ (forall x, e = Some x -> PsiC s' < PsiC s) /\ (e = None -> s' = s).
  Proof.
    unfold poll_expired. destruct (min_timer (timers s) None) as [[id w]|] eqn:EM;
      [|intros [= <- <-]; split; [apply R_refl|split; [discriminate|reflexivity]]].
    destruct (w <=? now s)%N; [|intros [= <- <-]; split; [apply R_refl|split; [discriminate|reflexivity]]].
    apply min_timer_in in EM. destruct EM as [EM|EM]; [|discriminate].
    pose proof (aremove_lt_in id (timers s) w EM) as LT.
    cbn [inflight timers upd_if].
    destruct (alookup id (inflight s)) eqn:EL; intros [= <- <-].
    - assert (P1 : PsiC (slot_send (upd_if (upd_if s (inflight s) (aremove id (timers s))) (aremove id (inflight s)) (aremove id (timers s))) id ODeadline) < PsiC s).
      { rewrite (Psi_core _ _ (core_slot_send _ _ _)). unfold PsiC. cbn. pose proof (aremove_le id (inflight s)). lia. }
      split; [apply R_strict, P1|]. split; [intros; exact P1|discriminate].
    - assert (P1 : PsiC (upd_if s (inflight s) (aremove id (timers s))) < PsiC s) by (unfold PsiC; cbn; lia).
      split; [apply R_strict, P1|]. split; [intros; exact P1|discriminate].
  Qed.

  (* ---------------------------------------------------------------- RequestDispatch *)
  Lemma R_ensure_writeable (s : cst) w s' : ensure_writeable ctp s = (w, s') -> R s s'.
  Proof.
    unfold ensure_writeable. intro H.
    destruct (do_ready ctp s) as [r s1] eqn:E1. pose proof (R_do_ready _ _ _ E1) as R1.
    destruct r; try (injection H as _ <-; exact R1).
    destruct (do_flush ctp s1) as [f s2] eqn:E2. pose proof (R_do_flush _ _ _ E2) as R2.
    destruct f; try (injection H as _ <-; eapply R_trans; eassumption).
    destruct (do_ready ctp s2) as [r2 s3] eqn:E3. pose proof (R_do_ready _ _ _ E3) as R3.
    destruct r2; injection H as _ <-; (eapply R_trans; [exact R1|eapply R_trans; eassumption]).
  Qed.

  Lemma R_next_request_loop f : forall (s : cst) r s',
    next_request_loop f s = (r, s') -> R s s' /\ (forall q, r = PSome q -> PsiC s' + (A + 11) <= PsiC s).
  Proof.
    induction f as [|f IH]; intros s r s' H; cbn [next_request_loop] in H;
      [injection H as <- <-; split; [apply R_refl|discriminate]|].
    destruct (q_poll_recv s) as [x s1] eqn:EQ. destruct (R_q_poll_recv _ _ _ EQ) as (R1 & S1).
    destruct x as [q| |]; try (injection H as <- <-; split; [exact R1|discriminate]).
    specialize (S1 q eq_refl).
    destruct (sl_rx_closed (get_slot s1 (q_id q))).
    - destruct (IH _ _ _ H) as (R2 & S2).
      assert (R12 : R s1 s') by (eapply R_trans; [apply R_core; apply core_slot_tx_drop|exact R2]).
      split; [eapply R_trans; eassumption|]. intros q' Hq. pose proof (R_le _ _ R12). lia.
    - injection H as <- <-. split; [exact R1|intros; lia].
  Qed.

  Lemma R_poll_next_request (s : cst) r s' :
    poll_next_request ctp s = (r, s') -> R s s' /\ (forall q, r = PSome q -> PsiC s' + (A + 11) <= PsiC s).
  Proof.
    unfold poll_next_request. destruct (max_if s <=? length (inflight s))%nat;
      [intros [= <- <-]; split; [apply R_refl|discriminate]|].
    destruct (ensure_writeable ctp s) as [w s1] eqn:EW. pose proof (R_ensure_writeable _ _ _ EW) as R1.
    destruct w as [u| | |a]; try (intros [= <- <-]; split; [exact R1|discriminate]).
    intro H. destruct (R_next_request_loop _ _ _ _ H) as (R2 & S2).
    split; [eapply R_trans; eassumption|]. intros q Hq. specialize (S2 q Hq). pose proof (R_le _ _ R1). lia.
  Qed.

  Lemma R_poll_write_request (s : cst) r s' :
    poll_write_request ctp s = (r, s') -> R s s' /\ (forall u, r = PSome u -> PsiC s' < PsiC s).
  Proof.
    unfold poll_write_request. destruct (poll_next_request ctp s) as [x s1] eqn:EP.
    destruct (R_poll_next_request _ _ _ EP) as (R1 & S1).
    destruct x as [q| | |a]; try (intros [= <- <-]; split; [exact R1|discriminate]).
    specialize (S1 q eq_refl). pose proof (Psi_insert_request s1 q) as I.
    destruct (do_send ctp (insert_request s1 q) _) as [w s3] eqn:ES.
    apply Psi_do_send in ES. cbn [Chain.conv_msg msgw] in ES.
    destruct w.
    - intros [= <- <-]. assert (P : PsiC s3 < PsiC s) by lia. split; [apply R_strict, P|intros; exact P].
    - destruct (complete_request s3 (q_id q) OSendErr) as [b s4] eqn:EC. apply Psi_complete_request in EC.
      cbn [snd]. intros [= <- <-]. assert (P : PsiC s4 < PsiC s) by lia. split; [apply R_strict, P|intros; exact P].
  Qed.

  Lemma R_next_cancel_loop f : forall (s : cst) r s',
    next_cancel_loop f s = (r, s') -> R s s' /\ (forall x, r = PSome x -> PsiC s' + 3 <= PsiC s).
  Proof.
    induction f as [|f IH]; intros s r s' H; cbn [next_cancel_loop] in H;
      [injection H as <- <-; split; [apply R_refl|discriminate]|].
    destruct (c_poll_recv s) as [x s1] eqn:EQ. destruct (R_c_poll_recv _ _ _ EQ) as (R1 & S1).
    destruct x as [id| |]; try (injection H as <- <-; split; [exact R1|discriminate]).
    specialize (S1 id eq_refl).
    destruct (cancel_request s1 id) as [e s2] eqn:EC. destruct (Psi_cancel_request _ _ _ _ EC) as (L2 & S2 & N2).
    destruct e as [e|].
    - injection H as <- <-. specialize (S2 e eq_refl). split; [apply R_strict; lia|intros; lia].
    - destruct (IH _ _ _ H) as (R3 & S3). pose proof (R_le _ _ R3).
      split; [apply R_strict; lia|]. intros x Hx. specialize (S3 x Hx). lia.
  Qed.

  Lemma R_poll_next_cancellation (s : cst) r s' :
    poll_next_cancellation ctp s = (r, s') -> R s s' /\ (forall x, r = PSome x -> PsiC s' + 3 <= PsiC s).
  Proof.
    unfold poll_next_cancellation.
    destruct (ensure_writeable ctp s) as [w s1] eqn:EW. pose proof (R_ensure_writeable _ _ _ EW) as R1.
    destruct w as [u| | |a]; try (intros [= <- <-]; split; [exact R1|discriminate]).
    intro H. destruct (R_next_cancel_loop _ _ _ _ H) as (R2 & S2).
    split; [eapply R_trans; eassumption|]. intros q Hq. specialize (S2 q Hq). pose proof (R_le _ _ R1). lia.
  Qed.

  Lemma R_poll_write_cancel (s : cst) r s' :
    poll_write_cancel ctp s = (r, s') -> R s s' /\ (forall u, r = PSome u -> PsiC s' < PsiC s).
  Proof.
    unfold poll_write_cancel. destruct (poll_next_cancellation ctp s) as [x s1] eqn:EP.
    destruct (R_poll_next_cancellation _ _ _ EP) as (R1 & S1).
    destruct x as [[id e]| | |a]; try (intros [= <- <-]; split; [exact R1|discriminate]).
    specialize (S1 _ eq_refl).
    destruct (do_send ctp s1 _) as [w s2] eqn:ES. apply Psi_do_send in ES. cbn [Chain.conv_msg msgw] in ES.
    assert (P : PsiC s2 < PsiC s) by lia.
    destruct w; intros [= <- <-]; (split; [apply R_strict, P|intros; exact P]).
  Qed.

  Lemma R_pump_read (s : cst) r s' :
    pump_read ctp s = (r, s') -> R s s' /\ (forall u, r = PSome u -> PsiC s' < PsiC s).
  Proof.
    unfold pump_read. destruct (do_next ctp s) as [x s1] eqn:EN. destruct (R_do_next _ _ _ EN) as (R1 & S1).
    destruct x as [x| | |]; try (intros [= <- <-]; split; [exact R1|discriminate]).
    specialize (S1 x eq_refl). unfold complete.
    destruct (complete_request s1 (r_id x) _) as [b s2] eqn:EC. apply Psi_complete_request in EC.
    cbn [snd]. intros [= <- <-]. assert (P : PsiC s2 < PsiC s) by lia. split; [apply R_strict, P|intros; exact P].
  Qed.

  Lemma R_pump_write (s : cst) r s' :
    pump_write ctp s = (r, s') -> R s s' /\ (forall u, r = PSome u -> PsiC s' < PsiC s).
  Proof.
    unfold pump_write. destruct (poll_write_request ctp s) as [r1 s1] eqn:E1.
    destruct (R_poll_write_request _ _ _ E1) as (R1 & S1).
    assert (K : forall r s',
      (let '(r2, s2) := poll_write_cancel ctp s1 in
       match r2 with
       | PErr a => (PErr a, s2)
       | PSome _ => (PSome tt, s2)
       | _ =>
         let '(e, s3) := poll_expired s2 in
         match e with
         | Some _ => (PSome tt, s3)
         | None =>
           match r1, r2 with
           | PNone, PNone =>
             let '(c, s4) := do_close ctp s3 in
             match c with TOk => (PNone, s4) | TErr => (PErr AClose, s4) | TPending => (PPend, s4) end
           | _, _ =>
             let '(f, s4) := do_flush ctp s3 in
             match f with TErr => (PErr AFlush, s4) | _ => (PPend, s4) end
           end
         end
       end) = (r, s') -> R s1 s' /\ (forall u, r = PSome u -> PsiC s' < PsiC s1)).
    { intros r0 s0. destruct (poll_write_cancel ctp s1) as [r2 s2] eqn:E2.
      destruct (R_poll_write_cancel _ _ _ E2) as (R2 & S2).
      assert (K2 : forall r s',
        (let '(e, s3) := poll_expired s2 in
         match e with
         | Some _ => (PSome tt, s3)
         | None =>
           match r1, r2 with
           | PNone, PNone =>
             let '(c, s4) := do_close ctp s3 in
             match c with TOk => (PNone, s4) | TErr => (PErr AClose, s4) | TPending => (PPend, s4) end
           | _, _ =>
             let '(f, s4) := do_flush ctp s3 in
             match f with TErr => (PErr AFlush, s4) | _ => (PPend, s4) end
           end
         end) = (r, s') -> R s1 s' /\ (forall u, r = PSome u -> PsiC s' < PsiC s1)).
      { intros r3 s3'. destruct (poll_expired s2) as [e s3] eqn:E3.
        destruct (R_poll_expired _ _ _ E3) as (R3 & S3 & N3).
        assert (R13 : R s1 s3) by (eapply R_trans; eassumption).
        destruct e as [x|].
        - intros [= <- <-]. specialize (S3 x eq_refl). pose proof (R_le _ _ R2).
          split; [exact R13|intros; lia].
        - assert (Kc : (let '(c, s4) := do_close ctp s3 in
                        match c with TOk => (PNone, s4) | TErr => (PErr AClose, s4) | TPending => (@PPend unit, s4) end) = (r3, s3')
                       -> R s1 s3' /\ (forall u, r3 = PSome u -> PsiC s3' < PsiC s1)).
          { destruct (do_close ctp s3) as [c s4] eqn:E4. pose proof (R_do_close _ _ _ E4) as R4.
            destruct c; intros [= <- <-]; (split; [eapply R_trans; eassumption|discriminate]). }
          assert (Kf : (let '(f, s4) := do_flush ctp s3 in
                        match f with TErr => (PErr AFlush, s4) | _ => (@PPend unit, s4) end) = (r3, s3')
                       -> R s1 s3' /\ (forall u, r3 = PSome u -> PsiC s3' < PsiC s1)).
          { destruct (do_flush ctp s3) as [c s4] eqn:E4. pose proof (R_do_flush _ _ _ E4) as R4.
            destruct c; intros [= <- <-]; (split; [eapply R_trans; eassumption|discriminate]). }
          destruct r1; try exact Kf; destruct r2; try exact Kf; exact Kc. }
      destruct r2 as [u| | |a].
      - intros [= <- <-]. split; [exact R2|intros; apply S2 with u; reflexivity].
      - apply K2.
      - apply K2.
      - intros [= <- <-]. split; [exact R2|discriminate]. }
    destruct r1 as [u| | |a].
    - intros [= <- <-]. split; [exact R1|intros; apply S1 with u; reflexivity].
    - intro H. destruct (K _ _ H) as (R2 & S2). split; [eapply R_trans; eassumption|].
      intros u Hu. specialize (S2 u Hu). pose proof (R_le _ _ R1). lia.
    - intro H. destruct (K _ _ H) as (R2 & S2). split; [eapply R_trans; eassumption|].
      intros u Hu. specialize (S2 u Hu). pose proof (R_le _ _ R1). lia.
    - intros [= <- <-]. split; [exact R1|discriminate].
  Qed.

  Lemma R_run_loop f : forall (s : cst) r s', run_loop ctp f s = (r, s') -> R s s'.
  Proof.
    induction f as [|f IH]; intros s r s' H; cbn [run_loop] in H; [injection H as _ <-; apply R_refl|].
    destruct (pump_read ctp s) as [rd s1] eqn:E1. destruct (R_pump_read _ _ _ E1) as (R1 & _).
    destruct (pump_write ctp s1) as [wr s2] eqn:E2. destruct (R_pump_write _ _ _ E2) as (R2 & _).
    assert (R02 : R s s2) by (eapply R_trans; eassumption).
    assert (KL : run_loop ctp f s2 = (r, s') -> R s s') by (intro HL; eapply R_trans; [exact R02|eapply IH, HL]).
    destruct rd as [u| | |a]; [| | |injection H as _ <-; exact R1].
    all: destruct wr as [u'| | |a']; try (injection H as _ <-; exact R02); try (apply KL, H).
    all: destruct (Nat.eqb (length (inflight s2)) 0); try (injection H as _ <-; exact R02); try (apply KL, H).
  Qed.

  Lemma R_drain_loop f a : forall (s : cst) b s', drain_loop f a s = (b, s') -> R s s'.
  Proof.
    induction f as [|f IH]; intros s b s' H; cbn [drain_loop] in H; [injection H as _ <-; apply R_refl|].
    destruct (q_poll_recv s) as [x s1] eqn:EQ. destruct (R_q_poll_recv _ _ _ EQ) as (R1 & _).
    destruct x as [q| |]; try (injection H as _ <-; exact R1).
    eapply R_trans; [exact R1|]. eapply R_trans; [apply R_core; apply core_slot_send|]. eapply IH, H.
  Qed.

  Lemma R_shut_down (s : cst) a b s' : shut_down s a = (b, s') -> R s s'.
  Proof.
    unfold shut_down. intro H. eapply R_trans; [apply R_q_close|].
    eapply R_trans; [apply R_complete_all|]. eapply R_drain_loop, H.
  Qed.

  Lemma R_poll_dispatch f (s : cst) r s' : poll_dispatch ctp f s = (r, s') -> R s s'.
  Proof.
    unfold poll_dispatch. destruct (terminal s) as [a|] eqn:ET.
    - destruct (shut_down s a) as [b s1] eqn:ES. apply R_shut_down in ES.
      destruct b; intros [= _ <-]; exact ES.
    - destruct (run_loop ctp f s) as [x s1] eqn:ER. apply R_run_loop in ER.
      destruct x as [|a| |]; try (intros [= _ <-]; exact ER).
      destruct (shut_down (upd_term s1 (Some a)) a) as [b s3] eqn:ES. apply R_shut_down in ES.
      assert (R13 : R s1 s3).
      { eapply R_trans; [|exact ES]. split; [unfold PsiC; cbn; destruct (terminal s1); cbn; lia|].
        unfold PsiC, DigC, DigD. cbn. destruct (terminal s1); cbn [obit]; [reflexivity|lia]. }
      destruct b; intros [= _ <-]; (eapply R_trans; eassumption).
  Qed.

  (* ---------------------------------------------------------------- call futures *)
  Lemma Psi_set_phase_at (s : cst) i p c :
    nth_error (calls s) i = Some c -> PsiC (set_phase s i p) + wp (c_phase c) = PsiC s + wp p.
  Proof.
    intro E. rewrite set_phase_eq. unfold PsiC. cbn. pose proof (CW_sph (calls s) i p c E). lia.
  Qed.
  Lemma Psi_set_phase_le (s : cst) i p : PsiC (set_phase s i p) <= PsiC s + wp p.
  Proof. rewrite set_phase_eq. unfold PsiC. cbn. pose proof (CW_sph_le (calls s) i p). lia. Qed.

  Definition push_w (s : cst) : nat := if dropped s then 0 else 2.
  Lemma Psi_push_cancel (s : cst) id : PsiC (push_cancel s id) <= PsiC s + 2.
  Proof.
    unfold push_cancel. destruct (dropped s); [lia|]. unfold PsiC. cbn. rewrite app_length. cbn. lia.
  Qed.
  Lemma calls_push_cancel (s : cst) id : calls (push_cancel s id) = calls s.
  Proof. unfold push_cancel. destruct (dropped s); reflexivity. Qed.

  Lemma poll_slot_pot (s : cst) i id c r s' :
    nth_error (calls s) i = Some c -> poll_slot s i id = (r, s') ->
    (r = CPending /\ s' = s) \/ ((exists o, r = CDone o) /\ PsiC s' + wp (c_phase c) = PsiC s).
  Proof.
    intros E. unfold poll_slot.
    assert (P : PsiC (set_phase (slot_rx_close s id) i PDone) + wp (c_phase c) = PsiC s).
    { pose proof (Psi_set_phase_at (slot_rx_close s id) i PDone c E) as H.
      rewrite (Psi_core _ _ (core_slot_rx_close s id)) in H. cbn [wp] in H. lia. }
    destruct (sl_val (get_slot s id)) as [o|].
    - intros [= <- <-]. right. split; [eexists; reflexivity|exact P].
    - destruct (sl_tx_gone (get_slot s id)); intros [= <- <-].
      + right. split; [eexists; reflexivity|exact P].
      + left. split; reflexivity.
  Qed.

  Lemma enqueue_pot (s : cst) i c c0 id tc r s' :
    nth_error (calls s) i = Some c -> enqueue s i c0 id tc = (r, s') ->
    PsiC s' + wp (c_phase c) <= PsiC s + A + 15.
  Proof.
    intros E. unfold enqueue.
    set (q := {| q_id := id; q_deadline := c_deadline c0; q_tc := tc; q_body := c_body c0 |}).
    set (s1 := upd_q s (permits s) (queue s ++ [q]) (waiters s) (rx_closed s)).
    assert (P1 : PsiC s1 = PsiC s + A + 11) by (unfold PsiC, s1; cbn; rewrite app_length; cbn [length]; lia).
    assert (E1 : nth_error (calls s1) i = Some c) by exact E.
    pose proof (Psi_set_phase_at s1 i PAwaiting c E1) as P2. cbn [wp] in P2.
    assert (E2 : nth_error (calls (set_phase s1 i PAwaiting)) i = Some (with_phase c PAwaiting)).
    { rewrite set_phase_eq. cbn [calls upd_calls]. unfold sph. rewrite E1. eapply nth_set_nth, E1. }
    intro H. destruct (poll_slot_pot _ _ _ _ _ _ E2 H) as [[_ ->]|[_ P3]]; cbn [with_phase c_phase wp] in *; lia.
  Qed.

  Lemma fail_shutdown_pot (s : cst) i id c :
    nth_error (calls s) i = Some c ->
    PsiC (snd (fail_shutdown s i id)) + wp (c_phase c) <= PsiC s + 2.
  Proof.
    intro E. unfold fail_shutdown. cbn [snd].
    set (s2 := slot_rx_close (slot_tx_drop s id) id).
    assert (P2 : PsiC s2 = PsiC s) by reflexivity.
    pose proof (Psi_push_cancel s2 id) as P3.
    assert (E3 : nth_error (calls (push_cancel s2 id)) i = Some c) by (rewrite calls_push_cancel; exact E).
    pose proof (Psi_set_phase_at _ i PDone c E3) as P4. cbn [wp] in P4. lia.
  Qed.

  Lemma Psi_with_id (s : cst) n h nw i c id x :
    nth_error (calls s) i = Some c -> PsiC (set_slot (with_id (upd_misc s n h nw) i c id) id x) = PsiC s.
  Proof.
    intro E. unfold PsiC. cbn.
    pose proof (CW_set_nth i c {| c_handle := c_handle c; c_phase := c_phase c; c_id := id; c_rel := c_rel c;
                                  c_deadline := c_deadline c; c_tc := c_tc c; c_body := c_body c |} (calls s) E) as H.
    cbn [c_phase] in H. lia.
  Qed.

  Lemma poll_call_new (s : cst) i c r s' :
    nth_error (calls s) i = Some c -> c_phase c = PNew -> poll_call s i = (r, s') -> PsiC s' < PsiC s.
  Proof.
    intros E EP. unfold poll_call. rewrite E, EP.
      set (id := next_id s).
      set (s1 := set_slot (with_id (upd_misc s _ (handles s) (now s)) i c id) id slot0).
      set (c1 := {| c_handle := c_handle c; c_phase := c_phase c; c_id := id; c_rel := c_rel c;
                    c_deadline := c_deadline c; c_tc := c_tc c; c_body := c_body c |}).
      assert (E1 : nth_error (calls s1) i = Some c1) by (cbn; eapply nth_set_nth, E).
      assert (P1 : PsiC s1 = PsiC s).
      { apply Psi_with_id, E. }
      assert (W1 : wp (c_phase c1) = A + 22) by (unfold c1; cbn [c_phase]; rewrite EP; reflexivity).
      destruct (rx_closed s1) eqn:ER1.
      + intros H. pose proof (fail_shutdown_pot s1 i id c1 E1) as F. rewrite H in F. cbn [snd] in F. lia.
      + destruct (permits s1) as [|p].
        * intros [= <- <-].
          set (s2 := upd_q s1 0 (queue s1) (waiters s1 ++ [i]) false).
          assert (P2 : PsiC s2 = PsiC s1 + (A + 17)).
          { unfold PsiC, s2. cbn [calls queue cancels inflight timers waiters rx_closed terminal finished tr upd_q].
            rewrite ER1, app_length. cbn [length bit]. lia. }
          assert (E2 : nth_error (calls s2) i = Some c1) by exact E1.
          pose proof (Psi_set_phase_at s2 i PAcquiring c1 E2) as P3. cbn [wp] in *.
          change (PsiC (set_phase s2 i PAcquiring) < PsiC s). lia.
        * intro H.
          set (s2 := upd_q s1 p (queue s1) (waiters s1) false) in H.
          assert (P2 : PsiC s2 = PsiC s1).
          { unfold PsiC, s2. cbn [calls queue cancels inflight timers waiters rx_closed terminal finished tr upd_q].
            rewrite ER1. reflexivity. }
          assert (E2 : nth_error (calls s2) i = Some c1) by exact E1.
          pose proof (enqueue_pot _ _ _ _ _ _ _ _ E2 H). lia.
  Qed.

  Lemma poll_call_pot (s : cst) i r s' :
    poll_call s i = (r, s') ->
    (s' = s /\ forall o, r <> CDone o) \/ PsiC s' < PsiC s.
  Proof.
    unfold poll_call. destruct (nth_error (calls s) i) as [c|] eqn:E;
      [|intros [= <- <-]; left; split; [reflexivity|discriminate]].
    destruct (c_phase c) eqn:EP; try (intros [= <- <-]; left; split; [reflexivity|discriminate]).
    - (* PNew *)
      intro H. right. eapply poll_call_new; [exact E|exact EP|]. unfold poll_call. rewrite E, EP. exact H.
    - (* PAssigned *)
      destruct (rx_closed s).
      + intro H. right.
        set (s2 := upd_q s (S (permits s)) (queue s) (waiters s) true) in H.
        assert (P2 : PsiC s2 <= PsiC s) by (unfold PsiC, s2; cbn; destruct (rx_closed s); cbn; lia).
        assert (E2 : nth_error (calls s2) i = Some c) by exact E.
        pose proof (fail_shutdown_pot s2 i (c_id c) c E2) as F. rewrite H in F. cbn [snd] in F.
        rewrite EP in F. cbn [wp] in F. lia.
      + intro H. right. pose proof (enqueue_pot _ _ _ _ _ _ _ _ E H) as F. rewrite EP in F. cbn [wp] in F. lia.
    - (* PAcqClosed *)
      intro H. right. pose proof (fail_shutdown_pot s i (c_id c) c E) as F. rewrite H in F. cbn [snd] in F.
      rewrite EP in F. cbn [wp] in F. lia.
    - (* PAwaiting *)
      intro H. destruct (poll_slot_pot _ _ _ _ _ _ E H) as [[-> ->]|[_ P]].
      + left. split; [reflexivity|discriminate].
      + right. rewrite EP in P. cbn [wp] in P. lia.
  Qed.

  Lemma remove_waiter_le i l : length (remove_waiter i l) <= length l.
  Proof. unfold remove_waiter. induction l as [|x r IH]; cbn; [lia|]. destruct (negb _); cbn; lia. Qed.

  Lemma guard_close_pot (s : cst) i : guard_close s i = s \/ PsiC (guard_close s i) < PsiC s.
  Proof.
    unfold guard_close. destruct (nth_error (calls s) i) as [c|] eqn:E; [|left; reflexivity].
    destruct (c_phase c) eqn:EP; try (left; reflexivity); right.
    - pose proof (Psi_set_phase_at s i PGone c E) as P. rewrite EP in P. cbn [wp] in P. lia.
    - set (s1 := upd_q s (permits s) (queue s) (remove_waiter i (waiters s)) (rx_closed s)).
      set (s2 := slot_rx_close (slot_tx_drop s1 (c_id c)) (c_id c)).
      assert (P2 : PsiC s2 <= PsiC s).
      { unfold s2, s1, PsiC. cbn. pose proof (remove_waiter_le i (waiters s)).
        assert ((A + 17) * length (remove_waiter i (waiters s)) <= (A + 17) * length (waiters s)) by (apply Nat.mul_le_mono_l; assumption).
        lia. }
      assert (E2 : nth_error (calls s2) i = Some c) by exact E.
      pose proof (Psi_set_phase_at s2 i PClosing c E2) as P. rewrite EP in P. cbn [wp] in P. lia.
    - pose proof (Psi_set_phase_at s i PClosing c E) as P. rewrite EP in P. cbn [wp] in P.
      set (s1 := set_phase s i PClosing) in *.
      assert (P2 : PsiC (if rx_closed s1 then upd_q s1 (S (permits s1)) (queue s1) (waiters s1) true else release_permit s1) <= PsiC s1).
      { destruct (rx_closed s1) eqn:ER.
        - unfold PsiC. cbn. rewrite ER. lia.
        - apply R_le, R_release_permit. }
      match goal with |- PsiC (slot_rx_close (slot_tx_drop ?x _) _) < _ =>
        assert (P3 : PsiC (slot_rx_close (slot_tx_drop x (c_id c)) (c_id c)) = PsiC x) by reflexivity end.
      lia.
    - set (s2 := slot_rx_close (slot_tx_drop s (c_id c)) (c_id c)).
      assert (E2 : nth_error (calls s2) i = Some c) by exact E.
      pose proof (Psi_set_phase_at s2 i PClosing c E2) as P. rewrite EP in P. cbn [wp] in P.
      assert (P2 : PsiC s2 = PsiC s) by reflexivity. lia.
    - set (s2 := slot_rx_close s (c_id c)).
      assert (E2 : nth_error (calls s2) i = Some c) by exact E.
      pose proof (Psi_set_phase_at s2 i PClosing c E2) as P. rewrite EP in P. cbn [wp] in P.
      assert (P2 : PsiC s2 = PsiC s) by reflexivity. lia.
  Qed.

  Lemma guard_cancel_pot (s : cst) i : guard_cancel s i = s \/ PsiC (guard_cancel s i) < PsiC s.
  Proof.
    unfold guard_cancel. destruct (nth_error (calls s) i) as [c|] eqn:E; [|left; reflexivity].
    destruct (c_phase c) eqn:EP; try (left; reflexivity); right.
    pose proof (Psi_push_cancel s (c_id c)) as P1.
    assert (E2 : nth_error (calls (push_cancel s (c_id c))) i = Some c) by (rewrite calls_push_cancel; exact E).
    pose proof (Psi_set_phase_at _ i PGone c E2) as P. rewrite EP in P. cbn [wp] in P. lia.
  Qed.

  Lemma mk_call_pot (s : cst) dl trn body : PsiC (Chain.mk_call s dl trn body) = PsiC s + A + 22.
  Proof. unfold Chain.mk_call, PsiC. cbn. rewrite CW_app. cbn [c_phase wp]. lia. Qed.
  Lemma mk_call_new (s : cst) dl trn body :
    exists c, nth_error (calls (Chain.mk_call s dl trn body)) (length (calls s)) = Some c /\ c_phase c = PNew.
  Proof.
    unfold Chain.mk_call. cbn. eexists. split; [rewrite nth_error_app2, Nat.sub_diag by lia; reflexivity|reflexivity].
  Qed.

  (* ---------------------------------------------------------------- steps *)
  Definition RD (s s' : cst) : Prop := PsiC s' <= PsiC s /\ (PsiC s' = PsiC s -> DigD s' = DigD s).
  Lemma RD_refl s : RD s s. Proof. split; [lia|reflexivity]. Qed.
  Lemma RD_strict s s' : PsiC s' < PsiC s -> RD s s'. Proof. intro H. split; [lia|intro; lia]. Qed.
  Lemma RD_trans s1 s2 s3 : RD s1 s2 -> RD s2 s3 -> RD s1 s3.
  Proof. intros [L1 H1] [L2 H2]. split; [lia|]. intro E. rewrite H2, H1 by lia. reflexivity. Qed.

  Lemma step_poll_call fo (s : cst) i s' l :
    step ctp fo s (PollCall i) = (s', l) ->
    RD s s' /\ (PsiC s' = PsiC s -> forall o, ~ In (OCall (CDone o)) l).
  Proof.
    cbn [step]. destruct (poll_call s i) as [r s1] eqn:EP. intros [= <- <-].
    destruct (poll_call_pot _ _ _ _ EP) as [[-> N]|P].
    - split; [apply RD_refl|]. intros _ o H. destruct r as [|o'|]; cbn in H.
      + destruct H as [H|[]]. discriminate.
      + destruct H as [H|[]]. eapply N; reflexivity.
      + destruct H.
    - split; [apply RD_strict, P|lia].
  Qed.

  Lemma step_drop_call fo (s : cst) i s' l : step ctp fo s (DropCall i) = (s', l) -> RD s s'.
  Proof.
    cbn [step]. intros [= <- _].
    assert (K : RD s (guard_cancel (guard_close s i) i)).
    { destruct (guard_close_pot s i) as [E1|P1].
      - rewrite E1. destruct (guard_cancel_pot s i) as [E2|P2]; [rewrite E2; apply RD_refl|apply RD_strict, P2].
      - destruct (guard_cancel_pot (guard_close s i) i) as [E2|P2]; [rewrite E2; apply RD_strict, P1|apply RD_strict; lia]. }
    destruct (option_map c_phase (nth_error (calls s) i)) as [[]|]; try exact K. apply RD_refl.
  Qed.

  Lemma step_dispatch fo (s : cst) s' l :
    step ctp fo s PollDispatch = (s', l) -> ~ In (ODisp DFuel) l ->
    RD s s' /\ (PsiC s' = PsiC s -> forall i, filter Chain.is_event (flat_map (Chain.tr_cobs i) l) = []).
  Proof.
    cbn [step]. destruct (finished s) eqn:EF; [intros [= <- <-] _; split; [apply RD_refl|reflexivity]|].
    destruct (dropped s) eqn:ED; [intros [= <- <-] _; split; [apply RD_refl|reflexivity]|].
    set (s0 := upd_tr s (tr s) (fused s) []).
    destruct (poll_dispatch ctp (fo s0) s0) as [r s1] eqn:EP.
    destruct (ClientProofsG3d.poll_dispatch_frames _ _ _ _ _ EP) as (F1 & _). cbn in F1. rewrite EF in F1.
    pose proof (R_poll_dispatch _ _ _ _ EP) as [L1 H1].
    assert (P0 : PsiC s0 = PsiC s) by reflexivity.
    assert (D0 : DigD s0 = DigD s) by reflexivity.
    intros [= <- <-] NF.
    destruct r as [d| |].
    - assert (P : PsiC (upd_tr (upd_fin s1 (Some d) (dropped s1)) (tr s1) (fused s1) []) < PsiC s).
      { unfold PsiC in *. cbn in *. rewrite F1 in L1. cbn [obit] in L1. lia. }
      split; [apply RD_strict, P|intro E; exfalso; cbn [tr fused upd_fin] in E; lia].
    - assert (P2 : PsiC (upd_tr s1 (tr s1) (fused s1) []) = PsiC s1) by reflexivity.
      assert (D2 : DigD (upd_tr s1 (tr s1) (fused s1) []) = DigD s1) by reflexivity.
      split.
      + split; [lia|]. intro E. rewrite D2, <- D0. assert (E1 : PsiC s1 = PsiC s0) by lia.
        specialize (H1 E1). unfold DigC in H1. apply (f_equal fst) in H1. exact H1.
      + intros E i. assert (E1 : PsiC s1 = PsiC s0) by lia. specialize (H1 E1). unfold DigC in H1.
        apply (f_equal snd) in H1. cbn in H1. cbn. rewrite H1. reflexivity.
    - exfalso. apply NF. right. left. reflexivity.
  Qed.
End CliPot.
