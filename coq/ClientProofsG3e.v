(* Client proofs, group G3, part e: C03 -- a cancellation is written at most once, only for a
   written request, never for a call whose caller received an outcome; after a clean idle poll
   every abandoned request is covered. *)
From Coq Require Import List Bool Arith NArith Lia ZifyBool ZifyNat ZifyN.
Import ListNotations.
From TarpcV Require Import Base Transport Client ClientS ClientMon ClientSpec ClientLemmas
  ClientProofsG1Frames ClientSimBase ClientProofsG3a ClientProofsG3b ClientProofsG3c ClientProofsG3d.
Local Open Scope N_scope.

Arguments N.modulo : simpl never.
Arguments N.add : simpl never.
Arguments N.min : simpl never.
Arguments N.sub : simpl never.

Section RB.
  Context {T : Type}.
  Variable tp : transport T cmsg resp.
  Notation cstate := (@cstate T).
  Notation op := (@op T).
  Notation Inv := (InvX []).
  Implicit Types (s : cstate) (m : mst).

  (* always *)
  Record RC m s : Prop := {
    rc_cs : forall id, cancelled m id = true -> exists sr, In sr (m_sent m) /\ s_id sr = id;
    rc_lc : forall i c, nth_error (calls s) i = Some c -> In i (m_polled m) ->
              livep (c_phase c) = true -> cancelled m (c_id c) = false }.

  (* while the dispatch is running *)
  Record RB m s : Prop := {
    rb_nc : forall id, In id (map fst (inflight s)) -> cancelled m id = false;
    rb_dc : forall j c, nth_error (calls s) j = Some c -> In j (m_polled m) -> c_phase c = PDone ->
              ~ In (c_id c) (cancels s);
    rb_rxf : rx_closed s = false;
    rb_npq : forall j c, nth_error (calls s) j = Some c -> c_phase c <> PAcqClosed }.

  (* ---------------------------------------------------------------- the verdict of a cancel write *)
  Lemma cancel_v03 maxif m s id tc w :
    sim m s -> RB m s -> In id (cancels s) -> In id (map fst (inflight s)) ->
    v03 (chk_call maxif m (CSend (MCancel id tc) w)) = true.
  Proof.
    intros [C W D] B Hc Hi. cbn [chk_call v03].
    rewrite (rb_nc _ _ B id Hi). cbn [negb andb].
    apply in_map_iff in Hi. destruct Hi as ([id' e] & E & Hin). cbn [fst] in E. subst id'.
    destruct (sd_inflight _ _ D _ _ Hin) as (sr & Hsr & Hid & _).
    apply andb_true_iff. split.
    - unfold sent_with_id. destruct (filter _ (m_sent m)) eqn:Ef; [|reflexivity].
      exfalso. assert (H : In sr (filter (fun x => s_id x =? id) (m_sent m))).
      { apply filter_In. split; [exact Hsr|apply N.eqb_eq, Hid]. }
      rewrite Ef in H. exact H.
    - apply forallb_forall. intros [j o] Hd. cbn [fst].
      destruct (id_of m j) as [x|] eqn:Ej; [|reflexivity].
      apply negb_true_iff, N.eqb_neq. intros ->.
      destruct (id_of_bound m j id (sc_nowrap _ _ C) Ej) as [Hp _].
      pose proof (sc_range_d _ _ C j o Hd) as Hlt. rewrite (sc_len _ _ C) in Hlt.
      destruct (nth_error (calls s) j) as [c|] eqn:Ec; [|apply nth_error_None in Ec; lia].
      pose proof (sc_phase _ _ C j c Ec) as Dc.
      assert (Hph : c_phase c = PDone).
      { pose proof (d_done _ _ _ Dc) as H. assert (Hdi : done_idx m j = true) by (apply done_idx_In; eauto).
        rewrite Hdi in H. destruct (c_phase c); try discriminate. reflexivity. }
      pose proof (sc_id _ _ C j c Ec Hp) as Hid'. rewrite Ej in Hid'. injection Hid' as Hid'.
      apply (rb_dc _ _ B j c Ec Hp Hph). rewrite <- Hid'. exact Hc.
  Qed.

  (* ---------------------------------------------------------------- monotonicity *)
  Lemma RBC_shrink m s s' :
    calls_ok s s' -> (forall id, In id (cancels s') -> In id (cancels s)) ->
    (forall id, In id (map fst (inflight s')) -> In id (map fst (inflight s))) ->
    rx_closed s' = rx_closed s -> RB m s -> RC m s -> RB m s' /\ RC m s'.
  Proof.
    intros Hc Hcn Hif Hrx [] []. split; constructor.
    - intros id Hid. apply rb_nc0, Hif, Hid.
    - intros j c' Hc' Hp Hph Hin. destruct (Hc j c' Hc') as (c & Hc0 & Eid & Pp).
      assert (Hp0 : c_phase c = PDone) by (destruct Pp as [Pp|[_ Pp]]; congruence).
      rewrite Eid in Hin. apply (rb_dc0 j c Hc0 Hp Hp0), Hcn, Hin.
    - congruence.
    - intros j c' Hc' Hph. destruct (Hc j c' Hc') as (c & Hc0 & Eid & Pp).
      apply (rb_npq0 j c Hc0). destruct Pp as [Pp|[_ Pp]]; congruence.
    - exact rc_cs0.
    - intros j c' Hc' Hp Hl. destruct (Hc j c' Hc') as (c & Hc0 & Eid & Pp).
      rewrite Eid. apply (rc_lc0 j c Hc0 Hp). destruct Pp as [Pp|[Pp _]]; [rewrite <- Pp; exact Hl|].
      rewrite Pp. reflexivity.
  Qed.

  Lemma RBC_xframe m s s' : XFrame s s' -> RB m s -> RC m s -> RB m s' /\ RC m s'.
  Proof.
    intros [[] ] B C. apply (RBC_shrink m s s'); try assumption.
    - apply calls_ok_eq. assumption.
    - rewrite xf_cancels. tauto.
    - rewrite xf_inflight. tauto.
  Qed.

  Lemma RBC_rec_mono m s c :
    (forall id, cancel_id c id = false) -> RB m s -> RC m s -> RB (rec_call m c) s /\ RC (rec_call m c) s.
  Proof.
    intros Hn [] []. 
    assert (Hc : forall id, cancelled (rec_call m c) id = cancelled m id)
      by (intro id; rewrite cancelled_rec_call, Hn; apply orb_false_r).
    split; constructor; rewrite ?rec_call_polled; try assumption.
    - intros id Hid. rewrite Hc. apply rb_nc0, Hid.
    - intros id Hid. rewrite Hc in Hid. destruct (rc_cs0 id Hid) as (sr & H1 & H2).
      exists sr. split; [rewrite rec_call_sent; apply in_or_app; left; exact H1|exact H2].
    - intros i c0 Hc0 Hp Hl. rewrite Hc. apply (rc_lc0 i c0); assumption.
  Qed.

  Lemma RBC_rec_cancel m s id tc w :
    ~ In id (map fst (inflight s)) -> (exists sr, In sr (m_sent m) /\ s_id sr = id) ->
    (forall i c, nth_error (calls s) i = Some c -> livep (c_phase c) = true -> c_id c <> id) ->
    RB m s -> RC m s ->
    RB (rec_call m (CSend (MCancel id tc) w)) s /\ RC (rec_call m (CSend (MCancel id tc) w)) s.
  Proof.
    intros Hni Hsr Hlive [] [].
    assert (Hc : forall x, x <> id -> cancelled (rec_call m (CSend (MCancel id tc) w)) x = cancelled m x).
    { intros x Hx. rewrite cancelled_rec_call. cbn [cancel_id]. apply N.eqb_neq in Hx.
      rewrite N.eqb_sym, Hx. apply orb_false_r. }
    split; constructor; rewrite ?rec_call_polled; try assumption.
    - intros x Hx. rewrite Hc by congruence. apply rb_nc0, Hx.
    - intros x Hx. rewrite rec_call_sent. cbn [sent_of]. rewrite app_nil_r.
      destruct (N.eq_dec x id) as [->|Hn]; [exact Hsr|]. rewrite Hc in Hx by exact Hn. apply rc_cs0, Hx.
    - intros i c0 Hc0 Hp Hl. rewrite Hc by (apply (Hlive i c0); assumption). apply (rc_lc0 i c0); assumption.
  Qed.

  Lemma RBC_send_request m s1 q w :
    sim m (withq s1 q) -> RB m s1 -> RC m s1 ->
    RB (rec_call m (req_call q w)) (insert_request s1 q) /\ RC (rec_call m (req_call q w)) (insert_request s1 q).
  Proof.
    intros Sq B C.
    assert (Huns : forall x, In x (m_sent m) -> s_id x <> q_id q).
    { intros x Hx. apply (sd_queue_unsent _ _ (sim_d _ _ Sq) q x); [left; reflexivity|exact Hx]. }
    destruct (RBC_rec_mono m s1 (req_call q w) (fun _ => eq_refl) B C) as [[] C'].
    split; [|destruct C'; constructor; assumption].
    unfold insert_request. constructor; cbn [calls inflight cancels rx_closed upd_if]; try assumption.
    intros id Hid. apply In_map_fst_aset in Hid. destruct Hid as [->|Hid]; [|apply rb_nc0, Hid].
    rewrite cancelled_rec_call. cbn [req_call cancel_id]. rewrite orb_false_r.
    destruct (cancelled m (q_id q)) eqn:E; [|reflexivity].
    exfalso. destruct (rc_cs _ _ C _ E) as (sr & H1 & H2). apply (Huns sr H1 H2).
  Qed.

  Lemma q_pop_rxc s q s1 : q_poll_recv s = (RvSome q, s1) -> rx_closed s1 = rx_closed s.
  Proof.
    unfold q_poll_recv. destruct (queue s); [destruct (Nat.eqb _ _); [discriminate|];
      destruct (_ && _); discriminate|].
    intros [= _ <-]. unfold release_permit. cbn [waiters upd_q].
    destruct (waiters s); [reflexivity|]. rewrite set_phase_alt. reflexivity.
  Qed.

  Lemma RBC_mstep m e s s' :
    mstep tp e s s' -> sim m s -> Inv s -> RB m s -> RC m s ->
    forall seg, plog s' = plog s ++ seg -> RB (mrun m seg) s' /\ RC (mrun m seg) s'.
  Proof.
    intros H S Iv B C seg Hseg.
    assert (Seg1 : forall c, plog s' = plog s ++ [c] -> seg = [c]).
    { intros c E. rewrite E in Hseg. apply app_inv_head in Hseg. congruence. }
    assert (Seg0 : plog s' = plog s -> seg = []).
    { intros E. rewrite E in Hseg. rewrite <- (app_nil_r (plog s)) in Hseg at 1.
      apply app_inv_head in Hseg. congruence. }
    assert (Mono : forall c sx, (forall id, cancel_id c id = false) -> XFrame s sx ->
              RB (rec_call m c) sx /\ RC (rec_call m c) sx).
    { intros c sx Hn X. destruct (RBC_rec_mono m s c Hn B C) as [B1 C1]. apply (RBC_xframe _ s sx); assumption. }
    destruct H.
    - pose proof (XFrame_do_ready tp _ _ _ H) as X. apply do_ready_eq in H.
      rewrite (Seg1 (CReady r)) by (rewrite H; reflexivity). apply Mono; [reflexivity|exact X].
    - pose proof (XFrame_do_flush tp _ _ _ H) as X. apply do_flush_eq in H.
      rewrite (Seg1 (CFlush r)) by (rewrite H; reflexivity). apply Mono; [reflexivity|exact X].
    - pose proof (XFrame_do_close tp _ _ _ H3) as X. apply do_close_eq in H3.
      rewrite (Seg1 (CClose r)) by (rewrite H3; reflexivity). apply Mono; [reflexivity|exact X].
    - (* read an item *)
      pose proof (XFrame_do_next tp _ _ _ H) as X. apply do_next_eq in H.
      destruct H as [(_ & [=] & _)|(_ & H)].
      rewrite (Seg1 (CNext (RItem x))) by (rewrite plog_complete, H; reflexivity). cbn [mrun fold_left].
      destruct (Mono (CNext (RItem x)) s1 (fun _ => eq_refl) X) as [B1 C1].
      unfold complete.
      destruct (complete_request_fields s1 (r_id x)
                  (match r_body x with BOk v => OReply v | BErr k => OSrvErr k end))
        as (F1 & F2 & F3 & F4 & F5 & F6 & F7 & F8 & F9).
      apply (RBC_shrink _ s1); [apply calls_ok_eq; exact F1|rewrite F4; tauto
                               |intros id Hid; apply (F7 id Hid)| |exact B1|exact C1].
      unfold complete_request. destruct (alookup _ _); cbn [snd]; [rewrite slot_send_alt|]; reflexivity.
    - pose proof (XFrame_do_next tp _ _ _ H) as X. apply do_next_eq in H.
      destruct H as [(_ & -> & ->)|(_ & H)].
      + rewrite Seg0 by reflexivity. split; assumption.
      + rewrite (Seg1 (CNext r)) by (rewrite H; reflexivity). apply Mono; [reflexivity|exact X].
    - (* skip *)
      destruct (q_pop_fields _ _ _ H (sim_w _ _ S)) as (Q & Cc & Sn & F1 & F2 & F3 & F4 & F5 & F6 & _).
      rewrite Seg0; [|unfold slot_tx_drop, set_slot; cbn [plog upd_slots];
                      pose proof (plog_q_poll_recv s) as L; rewrite H in L; exact L].
      cbn [mrun fold_left]. apply (RBC_shrink m s); [| | | |exact B|exact C].
      + eapply calls_ok_trans; [exact Cc|apply calls_ok_eq; reflexivity].
      + unfold slot_tx_drop, set_slot. cbn [cancels upd_slots]. rewrite F4. tauto.
      + unfold slot_tx_drop, set_slot. cbn [inflight upd_slots]. rewrite F1. tauto.
      + unfold slot_tx_drop, set_slot. cbn [rx_closed upd_slots]. eapply q_pop_rxc, H.
    - (* write a request *)
      destruct (q_pop_fields _ _ _ H (sim_w _ _ S)) as (Q & Cc & Sn & F1 & F2 & F3 & F4 & F5 & F6 & _).
      pose proof (sim_q_poll_recv _ _ S) as Sq. rewrite H in Sq. cbn [fst snd] in Sq.
      destruct (RBC_shrink m s s1 Cc) as [B1 C1];
        [rewrite F4; tauto|rewrite F1; tauto|eapply q_pop_rxc, H|exact B|exact C|].
      destruct (RBC_send_request m s1 q w Sq B1 C1) as [B2 C2].
      pose proof (XFrame_do_send tp _ _ _ _ H1) as X. apply do_send_eq in H1.
      assert (L3 : plog s3 = plog s ++ [req_call q w]).
      { rewrite H1. cbn [plog upd_tr insert_request upd_if].
        pose proof (plog_q_poll_recv s) as L; rewrite H in L; cbn [snd] in L. rewrite L. reflexivity. }
      destruct (RBC_xframe _ _ _ X B2 C2) as [B3 C3].
      destruct w.
      + rewrite (Seg1 _ L3). split; assumption.
      + rewrite (Seg1 (req_call q SErr)) by (rewrite plog_complete_request; exact L3).
        cbn [mrun fold_left].
        destruct (complete_request_fields s3 (q_id q) OSendErr)
          as (G1 & G2 & G3 & G4 & G5 & G6 & G7 & G8 & G9).
        apply (RBC_shrink _ s3); [apply calls_ok_eq; exact G1|rewrite G4; tauto
                                 |intros id Hid; apply (G7 id Hid)| |exact B3|exact C3].
        unfold complete_request. destruct (alookup _ _); cbn [snd]; [rewrite slot_send_alt|]; reflexivity.
    - (* a cancellation for nothing *)
      assert (E : cancels s = id :: cancels s2 /\ s2 = upd_cancels s (cancels s2)).
      { revert H H0. unfold c_poll_recv, cancel_request.
        destruct (cancels s) as [|y l]; [destruct (Nat.eqb _ _); discriminate|]. intros [= -> <-].
        cbn [inflight upd_cancels]. destruct (alookup id (inflight s)); [discriminate|].
        intros [= <-]. split; reflexivity. }
      destruct E as [E1 E2]. rewrite Seg0 by (rewrite E2; reflexivity). cbn [mrun fold_left].
      rewrite E2. apply (RBC_shrink m s); [apply calls_ok_eq; reflexivity| |tauto|reflexivity|exact B|exact C].
      cbn [cancels upd_cancels]. intros x Hx. rewrite E1. right; exact Hx.
    - (* a cancellation on the wire *)
      assert (E : cancels s = id :: cancels s2 /\
                  s2 = upd_if (upd_cancels s (cancels s2)) (aremove id (inflight s)) (aremove id (timers s)) /\
                  alookup id (inflight s) = Some e).
      { revert H H0. unfold c_poll_recv, cancel_request.
        destruct (cancels s) as [|y l]; [destruct (Nat.eqb _ _); discriminate|]. intros [= -> <-].
        cbn [inflight timers upd_cancels]. destruct (alookup id (inflight s)) eqn:Ea; [|discriminate].
        intros [= <- <-]. repeat split. }
      destruct E as (E1 & E2 & E3).
      pose proof (XFrame_do_send tp _ _ _ _ H1) as X. apply do_send_eq in H1.
      rewrite (Seg1 (CSend (MCancel id (if_tc e)) w)) by (rewrite H1, E2; reflexivity).
      cbn [mrun fold_left].
      destruct (RBC_shrink m s s2) as [B2 C2]; [| | | |exact B|exact C|].
      { rewrite E2. apply calls_ok_eq. reflexivity. }
      { rewrite E2. cbn [cancels upd_if upd_cancels]. intros x Hx. rewrite E1. right; exact Hx. }
      { rewrite E2. cbn [inflight upd_if]. intros x Hx. apply in_map_fst_aremove in Hx. tauto. }
      { rewrite E2. reflexivity. }
      assert (Hni : ~ In id (map fst (inflight s2))).
      { rewrite E2. cbn [inflight upd_if]. apply notin_map_fst_aremove. }
      assert (Hsr : exists sr, In sr (m_sent m) /\ s_id sr = id).
      { apply alookup_in in E3. destruct (sd_inflight _ _ (sim_d _ _ S) _ _ E3) as (sr & K1 & K2 & _). eauto. }
      assert (Hlive : forall i c, nth_error (calls s2) i = Some c -> livep (c_phase c) = true -> c_id c <> id).
      { rewrite E2. cbn [calls upd_if upd_cancels]. intros i c Hc Hl.
        destruct (i_cn _ (i_ids _ _ Iv) id) as [_ K]; [rewrite E1; left; reflexivity|].
        specialize (K i). unfold phl, idl in K. rewrite Hc in K. cbn [option_map actph] in K. apply K.
        destruct (c_phase c); try discriminate; reflexivity. }
      destruct (RBC_rec_cancel m s2 id (if_tc e) w Hni Hsr Hlive B2 C2) as [B3 C3].
      apply (RBC_xframe _ s2 s3); assumption.
    - (* an expired timer *)
      pose proof (plog_poll_expired s) as L. rewrite H in L. cbn [snd] in L.
      rewrite (Seg0 L). cbn [mrun fold_left]. revert H. unfold poll_expired.
      destruct (min_timer (timers s) None) as [[idx w]|]; [|discriminate].
      destruct (N.leb w (now s)); [|discriminate]. cbn [inflight timers upd_if].
      destruct (alookup idx (inflight s)) as [e|]; intros [= _ <-].
      + rewrite slot_send_alt. unfold set_slot.
        apply (RBC_shrink m s); [apply calls_ok_eq; reflexivity|tauto| |reflexivity|exact B|exact C].
        cbn [inflight upd_slots upd_if]. intros x Hx. apply in_map_fst_aremove in Hx. tauto.
      + apply (RBC_shrink m s); [apply calls_ok_eq; reflexivity|tauto|tauto|reflexivity|exact B|exact C].
  Qed.
End RB.

(* ================================================================== a running dispatch poll, C03 *)
Section Run3.
  Context {T : Type} (tp : transport T cmsg resp) (maxif : nat) (mb : mst).
  Notation cstate := (@cstate T).
  Notation Inv := (InvX []).
  Implicit Types (s : cstate).

  Record DR3 s : Prop := {
    d3_run : DRun maxif mb s;
    d3_inv : Inv s;
    d3_fin : finished s = None;
    d3_b : RB (cur mb s) s;
    d3_c : RC (cur mb s) s;
    d3_v : v03 (fst (chk_calls maxif mb (plog s))) = true }.

  Lemma DR3_mstep e s s' : mstep tp e s s' -> DR3 s -> DR3 s'.
  Proof.
    intros H [D Iv Hf B C V]. pose proof (mstep_PFrame tp _ _ _ H) as PF.
    pose proof (DRun_mstep tp maxif mb _ _ _ H D) as D'.
    assert (Hal : alive s).
    { split; [apply (dr_d _ _ _ D)|intros a; rewrite Hf; discriminate]. }
    assert (BC : RB (cur mb s') s' /\ RC (cur mb s') s').
    { destruct (mstep_entry tp _ _ _ H) as [[E _]|(c & E & _)].
      - unfold cur. rewrite E. rewrite <- (app_nil_r (plog s)) in E.
        exact (RBC_mstep tp (cur mb s) _ _ _ H (ds_sim _ _ _ (dr_sim _ _ _ D)) Iv B C [] E).
      - unfold cur. rewrite E, mrun_app.
        exact (RBC_mstep tp (cur mb s) _ _ _ H (ds_sim _ _ _ (dr_sim _ _ _ D)) Iv B C [c] E). }
    destruct BC as [B' C']. constructor; try assumption.
    - eapply Inv_mstep; eassumption.
    - rewrite (pf_finished _ _ PF). exact Hf.
    - destruct (mstep_entry tp _ _ _ H) as [[E _]|(c & E & _ & K)]; [rewrite E; exact V|].
      rewrite E, chk_calls_snoc. cbn [vand v03]. rewrite V. cbn [andb]. fold (cur mb s).
      destruct c as [x|[id dl tc b|id tc] x|x|x|x]; try reflexivity.
      destruct K as [K1 K2]. apply (cancel_v03 maxif (cur mb s) s id tc x); try assumption.
      apply (ds_sim _ _ _ (dr_sim _ _ _ D)).
  Qed.

  Lemma DR3_msteps e s s' : msteps tp e s s' -> DR3 s -> DR3 s'.
  Proof.
    induction 1 as [s|a s s' H|e s s1 s2 H1 H2 IH]; intro D; [exact D|eapply DR3_mstep; eassumption|].
    apply IH. eapply DR3_mstep; eassumption.
  Qed.

  (* ---------------------------------------------------------------- a clean idle poll empties the cancel queue *)
  Definition sink_clean (c : tcall cmsg resp) : bool :=
    match c with
    | CReady TOk | CFlush TOk | CClose TOk | CSend _ SOk => true
    | CNext (RItem _) | CNext RPending => true
    | _ => false
    end.

  Lemma clean_log_sink l : clean_log l = true -> forallb sink_clean l = true.
  Proof. unfold clean_log. intro H. apply andb_true_iff in H. apply H. Qed.

  Lemma ncl_pend f : forall s s', next_cancel_loop f s = (PPend, s') -> (length (cancels s) < f)%nat ->
    cancels s' = [].
  Proof.
    induction f as [|f IH]; intros s s' H Hl; [lia|]. revert H. cbn [next_cancel_loop].
    destruct (c_poll_recv s) as [rv s1] eqn:E1. destruct rv as [id| |].
    - assert (Ec : exists r, cancels s = id :: r /\ s1 = upd_cancels s r).
      { revert E1. unfold c_poll_recv. destruct (cancels s) as [|y r]; [destruct (Nat.eqb _ _); discriminate|].
        intros [= -> <-]. eexists; split; reflexivity. }
      destruct Ec as (r & Ec & ->).
      destruct (cancel_request (upd_cancels s r) id) as [e s2] eqn:E2. destruct e as [e|]; [discriminate|].
      intro H. apply IH in H; [exact H|].
      pose proof (TFrame_cancel_request (upd_cancels s r) id) as F. rewrite E2 in F. cbn [snd] in F.
      rewrite (tf_cancels _ _ F). cbn [cancels upd_cancels]. rewrite Ec in Hl. cbn [length] in Hl. lia.
    - discriminate.
    - intros [= <-]. destruct (c_poll_recv_nil _ _ _ E1) as [-> Hc]; [discriminate|exact Hc].
  Qed.

  Lemma ensure_writeable_pend s s' : ensure_writeable tp s = (PPend, s') ->
    exists l, plog s' = l ++ [CFlush TPending] \/ plog s' = l ++ [CReady TPending].
  Proof.
    unfold ensure_writeable. destruct (do_ready tp s) as [r1 s1] eqn:E1. destruct r1; try discriminate.
    destruct (do_flush tp s1) as [r2 s2] eqn:E2. destruct r2; try discriminate.
    - destruct (do_ready tp s2) as [r3 s3] eqn:E3. destruct r3; try discriminate.
      intros [= <-]. apply do_ready_eq in E3. rewrite E3. eexists. right. reflexivity.
    - intros [= <-]. apply do_flush_eq in E2. rewrite E2. eexists. left. reflexivity.
  Qed.

  Definition dirty (l : list (tcall cmsg resp)) : Prop := exists c, In c l /\ sink_clean c = false.

  Lemma dirty_not_clean l : dirty l -> forallb sink_clean l = true -> False.
  Proof. intros (c & Hin & Hc) H. rewrite forallb_forall in H. rewrite (H c Hin) in Hc. discriminate. Qed.
  Lemma dirty_app l seg : dirty l -> dirty (l ++ seg).
  Proof. intros (c & Hin & Hc). exists c. split; [apply in_or_app; left; exact Hin|exact Hc]. Qed.

  Lemma poll_write_cancel_idle s r s' : poll_write_cancel tp s = (r, s') -> r = PNone \/ r = PPend ->
    cancels s' = [] \/ dirty (plog s').
  Proof.
    intros H Hr. destruct Hr as [->| ->].
    - left. apply poll_write_cancel_spec in H. destruct H as [_ H].
      destruct (c_poll_recv_nil _ _ _ (H eq_refl)) as [_ Hc]; [discriminate|exact Hc].
    - revert H. unfold poll_write_cancel, poll_next_cancellation.
      destruct (ensure_writeable tp s) as [w s1] eqn:E1. destruct w as [u| | |a]; try discriminate.
      + destruct (next_cancel_loop (S (length (cancels s1))) s1) as [r1 s2] eqn:E2.
        destruct r1 as [[id e]| | |a]; try discriminate.
        * destruct (do_send tp s2 _) as [w s3]. destruct w; discriminate.
        * intros [= <-]. left. eapply ncl_pend; [exact E2|lia].
      + intros [= <-]. right. destruct (ensure_writeable_pend _ _ E1) as (l & [E|E]); rewrite E;
          eexists; (split; [apply in_or_app; right; left; reflexivity|reflexivity]).
  Qed.

  Lemma pump_write_idle_cancels s r s' : pump_write tp s = (r, s') -> r = PPend \/ r = PNone ->
    cancels s' = [] \/ dirty (plog s').
  Proof.
    intros H Hr. apply pump_write_inv in H.
    assert (K : forall s1 r2 s2 s3 s4, poll_write_cancel tp s1 = (r2, s2) -> r2 = PNone \/ r2 = PPend ->
              poll_expired s2 = (None, s3) -> cancels s4 = cancels s3 -> (exists seg, plog s4 = plog s3 ++ seg) ->
              cancels s4 = [] \/ dirty (plog s4)).
    { intros s1 r2 s2 s3 s4 H2 I2 H3 Ec (seg & El). apply poll_expired_none in H3. subst s3.
      destruct (poll_write_cancel_idle _ _ _ H2 I2) as [Hc|Hd]; [left; congruence|right].
      rewrite El. apply dirty_app, Hd. }
    inversion H as [a s1 H1|u s1 H1|r1 s1 a s2 H1 I1 H2|r1 s1 u s2 H1 I1 H2|r1 s1 r2 s2 id s3 H1 I1 H2 I2 H3
                   |s1 s2 s3 c s4 H1 H2 H3 H4|r1 s1 r2 s2 s3 f s4 H1 I1 H2 I2 Hp H3 H4]; subst;
      try (destruct Hr; discriminate).
    - apply (K s1 PNone s2 s3 s'); [exact H2|left; reflexivity|exact H3| |].
      + apply (xf_cancels _ _ (XFrame_do_close tp _ _ _ H4)).
      + apply do_close_eq in H4. rewrite H4. eexists; reflexivity.
    - apply (K s1 r2 s2 s3 s'); [exact H2| |exact H3| |].
      + destruct I2 as [->| ->]; auto.
      + apply (xf_cancels _ _ (XFrame_do_flush tp _ _ _ H4)).
      + apply do_flush_eq in H4. rewrite H4. eexists; reflexivity.
  Qed.

  Lemma run_loop_pending_cancels f : forall s s', run_loop tp f s = (RunPending, s') ->
    cancels s' = [] \/ dirty (plog s').
  Proof.
    induction f as [|f IH]; intros s s' H; [discriminate|].
    apply run_loop_inv in H.
    inversion H as [| | | |s1 wr s2 H1 H2 Hw|rd s1 wr s2 r0 s3 H1 H2 Hc H3]; subst.
    - apply (pump_write_idle_cancels _ _ _ H2). destruct Hw as [->|[-> _]]; auto.
    - apply (IH _ _ H3).
  Qed.
End Run3.

(* ================================================================== ops, C03 *)
Section Ops3.
  Context {T : Type}.
  Variable tp : transport T cmsg resp.
  Variable fuel_of : @cstate T -> nat.
  Variable maxif : nat.
  Notation cstate := (@cstate T).
  Notation op := (@op T).
  Notation Inv := (InvX []).
  Implicit Types (s : cstate) (m : mst).

  (* ---------------------------------------------------------------- RC when the dispatch winds down *)
  Definition live_ok s s' : Prop :=
    forall i c', nth_error (calls s') i = Some c' -> livep (c_phase c') = true ->
      exists c, nth_error (calls s) i = Some c /\ c_id c' = c_id c /\ livep (c_phase c) = true.

  Lemma RC_live m s s' : live_ok s s' -> RC m s -> RC m s'.
  Proof.
    intros H []. constructor; [exact rc_cs0|].
    intros i c' Hc' Hp Hl. destruct (H i c' Hc' Hl) as (c & Hc & Eid & Hl0).
    rewrite Eid. apply (rc_lc0 i c); assumption.
  Qed.

  Lemma live_ok_eq s s' : calls s' = calls s -> live_ok s s'.
  Proof. intros E i c' H Hl. rewrite E in H. exists c'. auto. Qed.
  Lemma live_ok_trans s1 s2 s3 : live_ok s1 s2 -> live_ok s2 s3 -> live_ok s1 s3.
  Proof.
    intros H1 H2 i c3 H Hl. destruct (H2 i c3 H Hl) as (c2 & Hc2 & E2 & L2).
    destruct (H1 i c2 Hc2 L2) as (c1 & Hc1 & E1 & L1). exists c1. split; [exact Hc1|]. split; [congruence|exact L1].
  Qed.

  Lemma fold_phase_live p (l : list nat) : livep p = true -> forall (cl : list call),
    (forall w, In w l -> exists c, nth_error cl w = Some c /\ livep (c_phase c) = true) ->
    forall i c', nth_error (fold_left (fun cl w => phase_calls cl w p) l cl) i = Some c' ->
      livep (c_phase c') = true ->
      exists c, nth_error cl i = Some c /\ c_id c' = c_id c /\ livep (c_phase c) = true.
  Proof.
    intro Hp. induction l as [|w r IH]; intros cl Hl i c' H Hc'; cbn [fold_left] in H.
    - exists c'. auto.
    - destruct (Hl w (or_introl eq_refl)) as (cw & Hcw & Lw).
      destruct (IH (phase_calls cl w p)) with (i := i) (c' := c') as (c2 & Hc2 & E2 & L2); try assumption.
      + intros w' Hw'. destruct (Hl w' (or_intror Hw')) as (c0 & Hc0 & L0).
        rewrite nth_error_phase_calls. destruct (Nat.eqb w w') eqn:E.
        * rewrite Hc0. cbn [option_map]. eexists. split; [reflexivity|exact Hp].
        * exists c0. auto.
      + apply nth_error_phase_calls_inv in Hc2. destruct Hc2 as [[-> (c0 & Hc0 & ->)]|[_ Hc2]].
        * exists c0. split; [exact Hc0|]. split; [exact E2|]. congruence.
        * exists c2. auto.
  Qed.

  Lemma live_ok_q_close s : winv s -> live_ok s (q_close s).
  Proof.
    intros W. unfold q_close. destruct (rx_closed s); [apply live_ok_eq; reflexivity|].
    rewrite fold_set_phase_alt. cbn [calls upd_q upd_calls]. intros i c' H Hl.
    apply (fold_phase_live PAcqClosed (waiters s) eq_refl (calls s)); try assumption.
    intros w Hw. destruct (w_acq _ W w Hw) as (c & Hc & Hp). exists c. split; [exact Hc|rewrite Hp; reflexivity].
  Qed.

  Lemma waiters_q_close s : Inv s -> waiters (q_close s) = [].
  Proof.
    intro Iv. unfold q_close. destruct (rx_closed s) eqn:E; [apply (i_wd _ (i_w _ _ Iv) E)|reflexivity].
  Qed.

  Lemma drain_calls f a : forall s, waiters s = [] -> calls (snd (drain_loop f a s)) = calls s.
  Proof.
    induction f as [|f IH]; intros s Hw; cbn [drain_loop]; [reflexivity|].
    destruct (q_poll_recv s) as [rv s1] eqn:E1.
    assert (K : calls s1 = calls s /\ waiters s1 = []).
    { revert E1. unfold q_poll_recv. destruct (queue s).
      - destruct (Nat.eqb _ _); [intros [= _ <-]; auto|]. destruct (_ && _); intros [= _ <-]; auto.
      - intros [= _ <-]. unfold release_permit. cbn [waiters upd_q]. rewrite Hw. split; reflexivity. }
    destruct K as [K1 K2]. destruct rv as [q| |]; cbn [snd]; try exact K1.
    rewrite IH; [rewrite slot_send_alt; exact K1|rewrite slot_send_alt; exact K2].
  Qed.

  Lemma live_ok_shut_down s a : Inv s -> winv s -> live_ok s (snd (shut_down s a)).
  Proof.
    intros Iv W. unfold shut_down. eapply live_ok_trans; [apply live_ok_q_close, W|].
    apply live_ok_eq. rewrite drain_calls.
    - apply (tf_calls _ _ (TFrame_complete_all _ _)).
    - rewrite (tf_waiters _ _ (TFrame_complete_all _ _)). apply waiters_q_close, Iv.
  Qed.

  Lemma live_ok_drop_dispatch s : winv s -> live_ok s (drop_dispatch s).
  Proof.
    intros W. eapply live_ok_trans; [apply live_ok_q_close, W|]. apply live_ok_eq.
    unfold drop_dispatch. cbn [calls upd_fin upd_cancels upd_if upd_q].
    rewrite (tf_calls _ _ (TFrame_fold_slot_tx_drop _ _ _)).
    apply (tf_calls _ _ (TFrame_fold_slot_tx_drop _ _ _)).
  Qed.

  (* ---------------------------------------------------------------- frames of the call ops *)
  Lemma rxc_fail_shutdown s i id : rx_closed (snd (fail_shutdown s i id)) = rx_closed s.
  Proof. unfold fail_shutdown. cbn [snd]. rewrite set_phase_alt, push_cancel_alt. reflexivity. Qed.
  Lemma rxc_poll_slot s i id : rx_closed (snd (poll_slot s i id)) = rx_closed s.
  Proof.
    unfold poll_slot. destruct (sl_val _); cbn [snd]; [rewrite set_phase_alt; reflexivity|].
    destruct (sl_tx_gone _); cbn [snd]; [rewrite set_phase_alt|]; reflexivity.
  Qed.
  Lemma cancels_poll_slot s i id : cancels (snd (poll_slot s i id)) = cancels s.
  Proof.
    unfold poll_slot. destruct (sl_val _); cbn [snd]; [rewrite set_phase_alt; reflexivity|].
    destruct (sl_tx_gone _); cbn [snd]; [rewrite set_phase_alt|]; reflexivity.
  Qed.

  Lemma rxc_poll_call s i : rx_closed (snd (poll_call s i)) = rx_closed s.
  Proof.
    unfold poll_call. destruct (nth_error (calls s) i) as [c|]; [|reflexivity].
    destruct (c_phase c); try reflexivity.
    - set (s1 := set_slot _ (next_id s) slot0). assert (E1 : rx_closed s1 = rx_closed s) by reflexivity.
      destruct (rx_closed s1) eqn:Er.
      + rewrite rxc_fail_shutdown. congruence.
      + destruct (permits s1).
        * cbn [snd]. rewrite set_phase_alt. cbn. congruence.
        * unfold enqueue. rewrite rxc_poll_slot, set_phase_alt. cbn. congruence.
    - destruct (rx_closed s) eqn:Er.
      + rewrite rxc_fail_shutdown. reflexivity.
      + unfold enqueue. rewrite rxc_poll_slot, set_phase_alt. cbn. exact Er.
    - apply rxc_fail_shutdown.
    - apply rxc_poll_slot.
  Qed.

  Lemma cancels_poll_call_running s i :
    rx_closed s = false -> (forall c, nth_error (calls s) i = Some c -> c_phase c <> PAcqClosed) ->
    cancels (snd (poll_call s i)) = cancels s.
  Proof.
    intros Hrx Hn. unfold poll_call. destruct (nth_error (calls s) i) as [c|] eqn:Ec; [|reflexivity].
    specialize (Hn c eq_refl). destruct (c_phase c); try reflexivity; try congruence.
    - set (s1 := set_slot _ (next_id s) slot0). assert (E1 : rx_closed s1 = rx_closed s) by reflexivity.
      rewrite E1, Hrx. destruct (permits s1).
      + cbn [snd]. rewrite set_phase_alt. reflexivity.
      + unfold enqueue. rewrite cancels_poll_slot, set_phase_alt. reflexivity.
    - rewrite Hrx. unfold enqueue. rewrite cancels_poll_slot, set_phase_alt. reflexivity.
    - apply cancels_poll_slot.
  Qed.

  Lemma rxc_release_permit s : rx_closed (release_permit s) = rx_closed s.
  Proof. unfold release_permit. destruct (waiters s); [reflexivity|]. rewrite set_phase_alt. reflexivity. Qed.

  Lemma guard_close_frames s i :
    rx_closed (guard_close s i) = rx_closed s /\ cancels (guard_close s i) = cancels s.
  Proof.
    unfold guard_close. destruct (nth_error (calls s) i) as [c|]; [|split; reflexivity].
    destruct (c_phase c); try (split; reflexivity); rewrite ?set_phase_alt; try (split; reflexivity).
    unfold slot_rx_close, slot_tx_drop, set_slot. cbn [rx_closed cancels upd_slots].
    destruct (rx_closed (upd_calls s _)) eqn:E.
    - cbn [rx_closed cancels upd_q upd_calls]. split; [symmetry; exact E|reflexivity].
    - rewrite rxc_release_permit. split; [reflexivity|].
      unfold release_permit. destruct (waiters _); [reflexivity|]. rewrite set_phase_alt. reflexivity.
  Qed.

  (* the request id of call i after its poll *)
  Lemma idl_set_phase s i p j : idl (calls (set_phase s i p)) j = idl (calls s) j.
  Proof. rewrite set_phase_alt. cbn [calls upd_calls]. apply idl_phase_calls. Qed.

  Lemma idl_fail_shutdown s i id j : idl (calls (snd (fail_shutdown s i id))) j = idl (calls s) j.
  Proof.
    unfold fail_shutdown. cbn [snd]. rewrite idl_set_phase, push_cancel_alt. reflexivity.
  Qed.
  Lemma idl_poll_slot s i id j : idl (calls (snd (poll_slot s i id))) j = idl (calls s) j.
  Proof.
    unfold poll_slot. destruct (sl_val _); cbn [snd]; [rewrite idl_set_phase; reflexivity|].
    destruct (sl_tx_gone _); cbn [snd]; [rewrite idl_set_phase|]; reflexivity.
  Qed.

  Lemma poll_call_id s i c :
    nth_error (calls s) i = Some c ->
    idl (calls (snd (poll_call s i))) i = match c_phase c with PNew => next_id s | _ => c_id c end.
  Proof.
    intro Ec. pose proof (idl_nth _ _ _ Ec) as Hid.
    assert (Hlt : (i < length (calls s))%nat) by (apply nth_error_Some; congruence).
    unfold poll_call. rewrite Ec. destruct (c_phase c); cbn [snd]; try exact Hid.
    - set (s1 := set_slot _ (next_id s) slot0).
      assert (I1 : idl (calls s1) i = next_id s).
      { unfold s1, set_slot, with_id. cbn [calls upd_slots upd_calls upd_misc].
        rewrite idl_set_nth by exact Hlt. rewrite Nat.eqb_refl. reflexivity. }
      destruct (rx_closed s1); [rewrite idl_fail_shutdown; exact I1|].
      destruct (permits s1); cbn [snd]; [rewrite idl_set_phase; exact I1|].
      unfold enqueue. rewrite idl_poll_slot, idl_set_phase. exact I1.
    - destruct (rx_closed s); [rewrite idl_fail_shutdown; exact Hid|].
      unfold enqueue. rewrite idl_poll_slot, idl_set_phase. exact Hid.
    - rewrite idl_fail_shutdown. exact Hid.
    - rewrite idl_poll_slot. exact Hid.
  Qed.

  Lemma guard_close_phase s i c' :
    winv s -> nth_error (calls (guard_close s i)) i = Some c' ->
    c_phase c' = PGone \/ c_phase c' = PClosing \/ nth_error (calls s) i = Some c'.
  Proof.
    intro W. unfold guard_close. destruct (nth_error (calls s) i) as [c|] eqn:Ec; [|intro H; right; right; congruence].
    assert (K : forall (st : cstate) p, nth_error (calls st) i = Some (with_phase c p) ->
              nth_error (calls st) i = Some c' -> c_phase c' = p).
    { intros st p H1 H2. rewrite H1 in H2. injection H2 as <-. reflexivity. }
    destruct (c_phase c) eqn:Ep; try (intro H; right; right; congruence).
    - intro H. left. eapply K; [|exact H]. apply nth_set_phase_self, Ec.
    - intro H. right; left. eapply K; [|exact H]. apply nth_set_phase_self, Ec.
    - intro H. right; left. revert H.
      unfold slot_rx_close, slot_tx_drop, set_slot. cbn [calls upd_slots].
      assert (H1 : nth_error (calls (set_phase s i PClosing)) i = Some (with_phase c PClosing))
        by (apply nth_set_phase_self; exact Ec).
      destruct (rx_closed (set_phase s i PClosing)); [intro H; eapply K; [exact H1|exact H]|].
      unfold release_permit. destruct (waiters (set_phase s i PClosing)) as [|w r] eqn:Ew;
        [intro H; eapply K; [exact H1|exact H]|].
      rewrite set_phase_alt. cbn [calls upd_calls upd_q]. rewrite nth_error_phase_calls.
      destruct (Nat.eqb w i) eqn:E; [|intro H; eapply K; [exact H1|exact H]].
      exfalso. apply Nat.eqb_eq in E. subst w. rewrite set_phase_alt in Ew. cbn [waiters upd_calls] in Ew.
      destruct (w_acq _ W i) as (cw & Hcw & Hpw); [rewrite Ew; left; reflexivity|]. congruence.
    - intro H. right; left. eapply K; [|exact H]. apply nth_set_phase_self, Ec.
    - intro H. right; left. eapply K; [|exact H]. apply nth_set_phase_self, Ec.
  Qed.

  Lemma guard_cancel_effect s i :
    guard_cancel s i = s \/
    exists c, nth_error (calls s) i = Some c /\ c_phase c = PClosing /\
              guard_cancel s i = set_phase (push_cancel s (c_id c)) i PGone.
  Proof.
    unfold guard_cancel. destruct (nth_error (calls s) i) as [c|] eqn:Ec; [|left; reflexivity].
    destruct (c_phase c) eqn:Ep; try (left; reflexivity). right. exists c. auto.
  Qed.

  (* ---------------------------------------------------------------- RC / RB across an op on call i *)
  Lemma RC_op_gen m m' s s' i :
    m_sent m' = m_sent m -> m_cancels m' = m_cancels m ->
    (forall j, In j (m_polled m') -> j <> i -> In j (m_polled m)) ->
    OpFr s s' i ->
    (forall c', nth_error (calls s') i = Some c' -> In i (m_polled m') -> livep (c_phase c') = true ->
                cancelled m (c_id c') = false) ->
    RC m s -> RC m' s'.
  Proof.
    intros M1 M2 Hpol F Hi [].
    assert (Hc : forall id, cancelled m' id = cancelled m id) by (intro; unfold cancelled; rewrite M2; reflexivity).
    constructor; rewrite ?M1.
    - intros id Hid. rewrite Hc in Hid. apply rc_cs0, Hid.
    - intros j c' Hc' Hp Hl. rewrite Hc. destruct (Nat.eq_dec j i) as [->|Hn]; [apply Hi; assumption|].
      destruct (of_calls _ _ _ F j c' Hn Hc') as (c & Hc0 & Eid & Pp).
      rewrite Eid. apply (rc_lc0 j c Hc0 (Hpol j Hp Hn)).
      destruct Pp as [Pp|[Pp _]]; [rewrite <- Pp; exact Hl|rewrite Pp; reflexivity].
  Qed.

  Lemma RB_op_gen m m' s s' i :
    m_cancels m' = m_cancels m ->
    (forall j, In j (m_polled m') -> j <> i -> In j (m_polled m)) ->
    OpFr s s' i -> rx_closed s' = rx_closed s ->
    (forall id, In id (cancels s') -> In id (cancels s) \/
       (forall j c, j <> i -> In j (m_polled m) -> nth_error (calls s) j = Some c -> c_id c <> id)) ->
    (forall c', nth_error (calls s') i = Some c' ->
       c_phase c' <> PAcqClosed /\
       (In i (m_polled m') -> c_phase c' = PDone -> ~ In (c_id c') (cancels s'))) ->
    RB m s -> RB m' s'.
  Proof.
    intros M2 Hpol F Hrx Hcg Hi [].
    assert (Hc : forall id, cancelled m' id = cancelled m id) by (intro; unfold cancelled; rewrite M2; reflexivity).
    constructor.
    - intros id Hid. rewrite Hc. apply rb_nc0. rewrite <- (of_inflight _ _ _ F). exact Hid.
    - intros j c' Hc' Hp Hph. destruct (Nat.eq_dec j i) as [->|Hn]; [apply (Hi c' Hc'); assumption|].
      destruct (of_calls _ _ _ F j c' Hn Hc') as (c & Hc0 & Eid & Pp).
      assert (Hp0 : c_phase c = PDone) by (destruct Pp as [Pp|[_ Pp]]; congruence).
      rewrite Eid. intro Hin. destruct (Hcg _ Hin) as [H|H].
      + apply (rb_dc0 j c Hc0 (Hpol j Hp Hn) Hp0 H).
      + apply (H j c Hn (Hpol j Hp Hn) Hc0). reflexivity.
    - congruence.
    - intros j c' Hc'. destruct (Nat.eq_dec j i) as [->|Hn]; [apply (Hi c' Hc')|].
      destruct (of_calls _ _ _ F j c' Hn Hc') as (c & Hc0 & Eid & Pp).
      destruct Pp as [Pp|[_ Pp]]; [rewrite Pp; apply (rb_npq0 j c Hc0)|congruence].
  Qed.

  Lemma RBC_same m m' s s' :
    m_sent m' = m_sent m -> m_cancels m' = m_cancels m -> m_polled m' = m_polled m ->
    calls s' = calls s -> cancels s' = cancels s -> inflight s' = inflight s -> rx_closed s' = rx_closed s ->
    (RB m s -> RB m' s') /\ (RC m s -> RC m' s').
  Proof.
    intros M1 M2 M3 E1 E2 E3 E4.
    assert (Hc : forall id, cancelled m' id = cancelled m id) by (intro; unfold cancelled; rewrite M2; reflexivity).
    split; intros []; constructor; rewrite ?M1, ?M3, ?E1, ?E2, ?E3, ?E4; try assumption.
    - intros id Hid. rewrite Hc. apply rb_nc0, Hid.
    - intros id Hid. rewrite Hc in Hid. apply rc_cs0, Hid.
    - intros j c Hc0 Hp Hl. rewrite Hc. apply (rc_lc0 j c); assumption.
  Qed.

  (* a never used request id has not been cancelled *)
  Lemma fresh_not_cancelled m s id : sim m s -> RC m s -> next_id s <= id -> cancelled m id = false.
  Proof.
    intros [C W D] R Hid. destruct (cancelled m id) eqn:E; [|reflexivity]. exfalso.
    destruct (rc_cs _ _ R id E) as (sr & H1 & H2).
    pose proof (req_of_bound m _ _ _ _ (sc_nowrap _ _ C) (sd_sent _ _ D sr H1)) as Hb.
    rewrite (sc_next _ _ C) in Hid. lia.
  Qed.

  Lemma livep_polled m s i c :
    sim m s -> nth_error (calls s) i = Some c -> livep (c_phase c) = true -> In i (m_polled m).
  Proof.
    intros [C _ _] Hc Hl. pose proof (sc_phase _ _ C i c Hc) as [Dp _ _ _].
    apply mem_nat_In. apply Dp. destruct (c_phase c); try discriminate; reflexivity.
  Qed.

  Lemma lci_poll_call m s i r s' :
    sim m s -> RC m s -> poll_call s i = (r, s') ->
    forall c', nth_error (calls s') i = Some c' -> livep (c_phase c') = true -> cancelled m (c_id c') = false.
  Proof.
    intros S R H c' Hc' Hl.
    destruct (nth_error (calls s) i) as [c|] eqn:Ec.
    2:{ revert H. unfold poll_call. rewrite Ec. intros [= _ <-]. congruence. }
    pose proof (poll_call_id s i c Ec) as Hid. rewrite H in Hid. cbn [snd] in Hid.
    pose proof (idl_nth _ _ _ Hc') as Hid'. rewrite Hid' in Hid.
    destruct (phase_eq_dec (c_phase c) PNew) as [Ep|Ep].
    - rewrite Ep in Hid. rewrite Hid. eapply fresh_not_cancelled; [exact S|exact R|lia].
    - assert (Hidc : c_id c' = c_id c) by (rewrite Hid; destruct (c_phase c); congruence).
      rewrite Hidc. destruct (livep (c_phase c)) eqn:Elive.
      + apply (rc_lc _ _ R i c Ec); [eapply livep_polled; eassumption|exact Elive].
      + exfalso. assert (Hd : poll_call s i = (CNothing, s)).
        { apply poll_call_dead. intros c0 Hc0. assert (c0 = c) by congruence. subst c0.
          destruct (c_phase c); try discriminate; try congruence; auto. }
        rewrite Hd in H. injection H as _ <-. assert (c' = c) by congruence. subst c'. congruence.
  Qed.

  Lemma RC_step m s (o : op) :
    o <> PollDispatch -> o <> DropDispatch -> sim m s -> next_id s + 1 < two64 -> RC m s ->
    RC (snd (chk_obs maxif o m (snd (step tp fuel_of s o)))) (fst (step tp fuel_of s o)).
  Proof.
    intros N1 N2 S Hw R.
    destruct (chk_obs_mframe maxif o m (snd (step tp fuel_of s o)) N1) as ([M1 M2 M3 M4] & Mp & Mn).
    set (m' := snd (chk_obs maxif o m (snd (step tp fuel_of s o)))) in *.
    assert (Same : forall s', (forall i, o <> PollCall i) -> calls s' = calls s -> cancels s' = cancels s ->
              inflight s' = inflight s -> rx_closed s' = rx_closed s -> RC m' s').
    { intros s' Hn E1 E2 E3 E4. apply (RBC_same m m' s s'); try assumption.
      rewrite Mp. apply rec_op_polled, Hn. }
    destruct o; try congruence.
    - apply Same; try discriminate; cbn [step fst]; destruct (nth_error (handles s) h) as [[|]|]; reflexivity.
    - apply Same; try discriminate; cbn [step fst]; destruct (nth_error (handles s) h) as [[|]|]; reflexivity.
    - (* Call *)
      cbn [step fst]. apply (RC_op_gen m m' s _ (length (calls s))); try assumption.
      + intros j Hj _. rewrite Mp, rec_op_polled in Hj by discriminate. exact Hj.
      + constructor; try reflexivity; try tauto; try lia. apply lok_app. reflexivity.
      + intros c' _ Hp. exfalso. rewrite Mp, rec_op_polled in Hp by discriminate.
        pose proof (sc_range_p _ _ (sim_c _ _ S) _ Hp) as H. rewrite (sc_len _ _ (sim_c _ _ S)) in H. lia.
    - (* PollCall *)
      cbn [step] in *. destruct (poll_call s i) as [r s1] eqn:E. cbn [fst snd] in *.
      apply (RC_op_gen m m' s s1 i); try assumption.
      + intros j Hj Hn. rewrite Mp in Hj. cbn [rec_op m_polled upd_m] in Hj.
        destruct (_ || _) in Hj; [exact Hj|]. apply in_app_or in Hj. destruct Hj as [Hj|[Hj|[]]]; congruence.
      + pose proof (OpFr_poll_call s i Hw) as F. rewrite E in F. exact F.
      + intros c' Hc' _ Hl. eapply lci_poll_call; eassumption.
    - (* DropCall *)
      cbn [step fst] in *.
      assert (R1 : RC m (match option_map c_phase (nth_error (calls s) i) with
                         | Some PClosing => s | _ => guard_cancel (guard_close s i) i end)).
      { assert (K : RC m (guard_cancel (guard_close s i) i)).
        { apply (RC_op_gen m m s _ i); try reflexivity; try tauto; try assumption.
          - eapply OpFr_trans; [apply OpFr_guard_close, S|apply OpFr_guard_cancel].
          - intros c' Hc' Hp Hl. destruct (guard_cancel_effect (guard_close s i) i) as [E|(c & Hc & Hph & E)].
            + rewrite E in Hc'. destruct (guard_close_phase s i c' (sim_w _ _ S) Hc') as [H|[H|H]];
                [rewrite H in Hl; discriminate|rewrite H in Hl; discriminate|].
              apply (rc_lc _ _ R i c' H Hp Hl).
            + rewrite E in Hc'. rewrite (nth_set_phase_self (push_cancel (guard_close s i) (c_id c)) i PGone c) in Hc'
                by (rewrite push_cancel_alt; exact Hc).
              injection Hc' as <-. discriminate. }
        destruct (option_map c_phase (nth_error (calls s) i)) as [[]|]; try exact K. exact R. }
      eapply (proj2 (RBC_same m m' _ _ M1 M2 _ eq_refl eq_refl eq_refl eq_refl)); [exact R1].
      Unshelve. rewrite Mp. apply rec_op_polled. discriminate.
    - (* GuardClose *)
      cbn [step fst] in *.
      assert (R1 : RC m (match option_map c_phase (nth_error (calls s) i) with
                         | Some PClosing => s | _ => guard_close s i end)).
      { assert (K : RC m (guard_close s i)).
        { apply (RC_op_gen m m s _ i); try reflexivity; try tauto; try assumption.
          - apply OpFr_guard_close, S.
          - intros c' Hc' Hp Hl. destruct (guard_close_phase s i c' (sim_w _ _ S) Hc') as [H|[H|H]];
              [rewrite H in Hl; discriminate|rewrite H in Hl; discriminate|].
            apply (rc_lc _ _ R i c' H Hp Hl). }
        destruct (option_map c_phase (nth_error (calls s) i)) as [[]|]; try exact K. exact R. }
      eapply (proj2 (RBC_same m m' _ _ M1 M2 _ eq_refl eq_refl eq_refl eq_refl)); [exact R1].
      Unshelve. rewrite Mp. apply rec_op_polled. discriminate.
    - (* GuardCancel *)
      cbn [step fst] in *.
      assert (R1 : RC m (guard_cancel s i)).
      { apply (RC_op_gen m m s _ i); try reflexivity; try tauto; try assumption.
        - apply OpFr_guard_cancel.
        - intros c' Hc' Hp Hl. destruct (guard_cancel_effect s i) as [E|(c & Hc & Hph & E)].
          + rewrite E in Hc'. apply (rc_lc _ _ R i c' Hc' Hp Hl).
          + rewrite E in Hc'. rewrite (nth_set_phase_self (push_cancel s (c_id c)) i PGone c) in Hc'
              by (rewrite push_cancel_alt; exact Hc).
            injection Hc' as <-. discriminate. }
      eapply (proj2 (RBC_same m m' _ _ M1 M2 _ eq_refl eq_refl eq_refl eq_refl)); [exact R1].
      Unshelve. rewrite Mp. apply rec_op_polled. discriminate.
    - apply Same; try discriminate; reflexivity.
    - apply Same; try discriminate; reflexivity.
  Qed.

  Lemma active_livep p : livep p = true -> active p = true.
  Proof. destruct p; try discriminate; reflexivity. Qed.

  Lemma dci_poll_call m s i r s' :
    sim m s -> Inv s -> RB m s -> poll_call s i = (r, s') ->
    forall c', nth_error (calls s') i = Some c' ->
      c_phase c' <> PAcqClosed /\
      (In i (m_polled (rec_op (T:=T) m (PollCall i))) -> c_phase c' = PDone -> ~ In (c_id c') (cancels s')).
  Proof.
    intros S Iv B H c' Hc'.
    destruct (nth_error (calls s) i) as [c|] eqn:Ec.
    2:{ revert H. unfold poll_call. rewrite Ec. intros [= _ <-]. congruence. }
    pose proof (rb_npq _ _ B i c Ec) as Hnq.
    assert (Hcn : cancels s' = cancels s).
    { pose proof (cancels_poll_call_running s i (rb_rxf _ _ B)) as K. rewrite H in K. apply K.
      intros c0 Hc0. assert (c0 = c) by congruence. subst. exact Hnq. }
    split.
    - destruct (poll_call_phase _ _ _ _ H) as [->|Hf].
      + assert (c' = c) by congruence. subst. exact Hnq.
      + rewrite (phl_nth _ _ _ Hc') in Hf. intro E. rewrite E in Hf.
        destruct Hf as [Hf|[Hf|[Hf|Hf]]]; discriminate Hf.
    - intros Hp Hph. rewrite Hcn.
      pose proof (poll_call_id s i c Ec) as Hid. rewrite H in Hid. cbn [snd] in Hid.
      rewrite (idl_nth _ _ _ Hc') in Hid.
      destruct (phase_eq_dec (c_phase c) PNew) as [Ep|Ep].
      + rewrite Ep in Hid. rewrite Hid. intro Hin. destruct (i_cn _ (i_ids _ _ Iv) _ Hin) as [Hlt _]. lia.
      + assert (Hidc : c_id c' = c_id c) by (rewrite Hid; destruct (c_phase c); congruence).
        rewrite Hidc. destruct (active (c_phase c)) eqn:Ea.
        * intro Hin. destruct (i_cn _ (i_ids _ _ Iv) _ Hin) as [_ K]. apply (K i).
          -- unfold phl. rewrite Ec. exact Ea.
          -- unfold idl. rewrite Ec. reflexivity.
        * assert (Hd : poll_call s i = (CNothing, s)).
          { apply poll_call_dead. intros c0 Hc0. assert (c0 = c) by congruence. subst c0.
            destruct (c_phase c); try discriminate; try congruence; auto. }
          rewrite Hd in H. injection H as _ <-. assert (c' = c) by congruence. subst c'.
          apply (rb_dc _ _ B i c Ec); [|exact Hph].
          rewrite (polled_poll_call m s i c S Ec Ep) in Hp. exact Hp.
  Qed.

  Lemma idl_guard_close s i j : idl (calls (guard_close s i)) j = idl (calls s) j.
  Proof.
    unfold guard_close. destruct (nth_error (calls s) i) as [c|]; [|reflexivity].
    destruct (c_phase c); try reflexivity; rewrite ?idl_set_phase; try reflexivity.
    unfold slot_rx_close, slot_tx_drop, set_slot. cbn [calls upd_slots].
    destruct (rx_closed _); [cbn [calls upd_q]; apply idl_set_phase|].
    unfold release_permit. destruct (waiters _); [cbn [calls upd_q]; apply idl_set_phase|].
    rewrite idl_set_phase. cbn [calls upd_q]. apply idl_set_phase.
  Qed.

  Lemma RB_guard_close_st m s i : sim m s -> RB m s -> RB m (guard_close s i).
  Proof.
    intros S B. destruct (guard_close_frames s i) as [Frx Fcn].
    apply (RB_op_gen m m s _ i); try reflexivity; try tauto; try assumption.
    - apply OpFr_guard_close, S.
    - rewrite Fcn. tauto.
    - intros c' Hc'. destruct (guard_close_phase s i c' (sim_w _ _ S) Hc') as [H|[H|H]].
      + split; [congruence|intros _ E; congruence].
      + split; [congruence|intros _ E; congruence].
      + split; [apply (rb_npq _ _ B i c' H)|]. intros Hp Hph. rewrite Fcn. apply (rb_dc _ _ B i c' H Hp Hph).
  Qed.

  Lemma RB_guard_cancel_st' m s i :
    (forall c, nth_error (calls s) i = Some c -> c_phase c = PClosing -> In i (m_polled m)) ->
    (forall j cj c, j <> i -> In j (m_polled m) -> nth_error (calls s) j = Some cj ->
                    nth_error (calls s) i = Some c -> c_phase c = PClosing -> c_id cj <> c_id c) ->
    RB m s -> RB m (guard_cancel s i).
  Proof.
    intros HP HU B. destruct (guard_cancel_effect s i) as [E|(c & Hc & Hph & E)]; [rewrite E; exact B|].
    pose proof (HP c Hc Hph) as Hpi.
    apply (RB_op_gen m m s (guard_cancel s i) i); [reflexivity|tauto|apply OpFr_guard_cancel| | | |exact B].
    - rewrite E, set_phase_alt, push_cancel_alt. reflexivity.
    - rewrite E, set_phase_alt, push_cancel_alt. cbn [cancels upd_calls upd_cancels].
      intros id Hin. destruct (dropped s); [left; exact Hin|]. apply in_app_or in Hin.
      destruct Hin as [Hin|[<-|[]]]; [left; exact Hin|right].
      intros j cj Hn Hpj Hcj. apply (HU j cj c); assumption.
    - intros c' Hc'. rewrite E in Hc'.
      rewrite (nth_set_phase_self (push_cancel s (c_id c)) i PGone c) in Hc' by (rewrite push_cancel_alt; exact Hc).
      injection Hc' as <-. cbn [c_phase with_phase]. split; [discriminate|intros _ H; discriminate].
  Qed.

  Lemma RB_guard_cancel_st m s i : sim m s -> RB m s -> RB m (guard_cancel s i).
  Proof.
    intros S B. apply RB_guard_cancel_st'; [| |exact B].
    - intros c Hc Hph. pose proof (sc_phase _ _ (sim_c _ _ S) i c Hc) as [Dp _ _ _]. apply mem_nat_In, Dp.
      rewrite Hph. reflexivity.
    - intros j cj c Hn Hpj Hcj Hc Hph He. apply Hn.
      assert (Hpi : In i (m_polled m)).
      { pose proof (sc_phase _ _ (sim_c _ _ S) i c Hc) as [Dp _ _ _]. apply mem_nat_In, Dp.
        rewrite Hph. reflexivity. }
      eapply (sim_ids_unique m s j i cj c); try eassumption. apply (sim_c _ _ S).
  Qed.

  Lemma RB_step m s (o : op) :
    o <> PollDispatch -> o <> DropDispatch -> sim m s -> Inv s -> next_id s + 1 < two64 -> RB m s ->
    RB (snd (chk_obs maxif o m (snd (step tp fuel_of s o)))) (fst (step tp fuel_of s o)).
  Proof.
    intros N1 N2 S Iv Hw B.
    destruct (chk_obs_mframe maxif o m (snd (step tp fuel_of s o)) N1) as ([M1 M2 M3 M4] & Mp & Mn).
    set (m' := snd (chk_obs maxif o m (snd (step tp fuel_of s o)))) in *.
    assert (Same : forall s', (forall i, o <> PollCall i) -> calls s' = calls s -> cancels s' = cancels s ->
              inflight s' = inflight s -> rx_closed s' = rx_closed s -> RB m s -> RB m' s').
    { intros s' Hn E1 E2 E3 E4. apply (RBC_same m m' s s'); try assumption.
      rewrite Mp. apply rec_op_polled, Hn. }
    destruct o; try congruence.
    - apply Same; try discriminate; try exact B; cbn [step fst];
        destruct (nth_error (handles s) h) as [[|]|]; reflexivity.
    - apply Same; try discriminate; try exact B; cbn [step fst];
        destruct (nth_error (handles s) h) as [[|]|]; reflexivity.
    - (* Call *)
      cbn [step fst]. apply (RB_op_gen m m' s _ (length (calls s))); try assumption; try reflexivity.
      + intros j Hj _. rewrite Mp, rec_op_polled in Hj by discriminate. exact Hj.
      + constructor; try reflexivity; try tauto; try lia. apply lok_app. reflexivity.
      + cbn [cancels upd_calls]. tauto.
      + intros c' Hc'. cbn [calls upd_calls] in Hc'. rewrite nth_error_app_last in Hc'. injection Hc' as <-.
        cbn [c_phase]. destruct (nth_error (handles s) h) as [[|]|]; (split; [discriminate|intros _ E; discriminate]).
    - (* PollCall *)
      cbn [step] in *. destruct (poll_call s i) as [r s1] eqn:E. cbn [fst snd] in *.
      apply (RB_op_gen m m' s s1 i); try assumption.
      + intros j Hj Hn. rewrite Mp in Hj. cbn [rec_op m_polled upd_m] in Hj.
        destruct (_ || _) in Hj; [exact Hj|]. apply in_app_or in Hj. destruct Hj as [Hj|[Hj|[]]]; congruence.
      + pose proof (OpFr_poll_call s i Hw) as F. rewrite E in F. exact F.
      + pose proof (rxc_poll_call s i) as K. rewrite E in K. exact K.
      + pose proof (cancels_poll_call_running s i (rb_rxf _ _ B)) as K. rewrite E in K. cbn [snd] in K.
        rewrite K; [tauto|]. intros c Hc. apply (rb_npq _ _ B i c Hc).
      + intros c' Hc'. rewrite Mp. eapply dci_poll_call; eassumption.
    - (* DropCall *)
      cbn [step fst] in *.
      assert (R1 : RB m (match option_map c_phase (nth_error (calls s) i) with
                         | Some PClosing => s | _ => guard_cancel (guard_close s i) i end)).
      { assert (K : RB m (guard_cancel (guard_close s i) i)).
        { apply RB_guard_cancel_st'; [| |apply RB_guard_close_st; assumption].
          - intros c1 Hc1 Hph1.
            destruct (nth_error (calls s) i) as [c|] eqn:Ec;
              [|rewrite guard_close_none in Hc1 by exact Ec; congruence].
            pose proof (sc_phase _ _ (sim_c _ _ S) i c Ec) as [Dp _ _ _]. apply mem_nat_In, Dp.
            destruct (phase_eq_dec (c_phase c) PNew) as [Ep|Ep]; [|destruct (c_phase c) eqn:Epp; try reflexivity; try congruence].
            + exfalso. revert Hc1. unfold guard_close. rewrite Ec, Ep.
              rewrite (nth_set_phase_self s i PGone c Ec). intros [= <-]. discriminate.
            + exfalso. revert Hc1. unfold guard_close. rewrite Ec, Epp. intro H. rewrite Ec in H.
              injection H as <-. congruence.
          - intros j cj c1 Hn Hpj Hcj Hc1 Hph1 He. apply Hn.
            destruct (of_calls _ _ _ (OpFr_guard_close s i (sim_w _ _ S)) j cj Hn Hcj) as (cj0 & Hcj0 & Eid & _).
            destruct (nth_error (calls s) i) as [c|] eqn:Ec;
              [|rewrite guard_close_none in Hc1 by exact Ec; congruence].
            assert (Eid1 : c_id c1 = c_id c).
            { pose proof (idl_guard_close s i i) as K. unfold idl in K. rewrite Hc1, Ec in K. exact K. }
            assert (Hpi : In i (m_polled m)).
            { pose proof (sc_phase _ _ (sim_c _ _ S) i c Ec) as [Dp _ _ _]. apply mem_nat_In, Dp.
              destruct (phase_eq_dec (c_phase c) PNew) as [Ep|Ep]; [|destruct (c_phase c) eqn:Epp; try reflexivity; try congruence].
              - exfalso. revert Hc1. unfold guard_close. rewrite Ec, Ep.
                rewrite (nth_set_phase_self s i PGone c Ec). intros [= <-]. discriminate.
              - exfalso. revert Hc1. unfold guard_close. rewrite Ec, Epp. intro H. rewrite Ec in H.
                injection H as <-. congruence. }
            eapply (sim_ids_unique m s j i cj0 c); try eassumption; [apply (sim_c _ _ S)|congruence]. }
        destruct (option_map c_phase (nth_error (calls s) i)) as [[]|]; try exact K. exact B. }
      eapply (proj1 (RBC_same m m' _ _ M1 M2 _ eq_refl eq_refl eq_refl eq_refl)); [exact R1].
      Unshelve. rewrite Mp. apply rec_op_polled. discriminate.
    - (* GuardClose *)
      cbn [step fst] in *.
      assert (R1 : RB m (match option_map c_phase (nth_error (calls s) i) with
                         | Some PClosing => s | _ => guard_close s i end)).
      { destruct (option_map c_phase (nth_error (calls s) i)) as [[]|]; try exact B;
          apply RB_guard_close_st; assumption. }
      eapply (proj1 (RBC_same m m' _ _ M1 M2 _ eq_refl eq_refl eq_refl eq_refl)); [exact R1].
      Unshelve. rewrite Mp. apply rec_op_polled. discriminate.
    - (* GuardCancel *)
      cbn [step fst] in *. pose proof (RB_guard_cancel_st m s i S B) as R1.
      eapply (proj1 (RBC_same m m' _ _ M1 M2 _ eq_refl eq_refl eq_refl eq_refl)); [exact R1].
      Unshelve. rewrite Mp. apply rec_op_polled. discriminate.
    - apply Same; try discriminate; try exact B; reflexivity.
    - apply Same; try discriminate; try exact B; reflexivity.
  Qed.

  (* ---------------------------------------------------------------- the outcome a caller receives *)
  Lemma done_v03 m s i out s' :
    sim m s -> RC m s -> poll_call s i = (CDone out, s') ->
    sim (snd (chk_obs maxif (PollCall i : op) m [OCall (CDone out)])) s' ->
    v03 (chk_done (rec_op (T:=T) m (PollCall i)) i out) = true.
  Proof.
    intros S R H S'. cbn [chk_done v03]. set (m1 := rec_op (T:=T) m (PollCall i)).
    apply forallb_forall. intros sr Hsr. apply negb_true_iff.
    unfold sent_for in Hsr. destruct (id_of m1 i) as [id|] eqn:Eid; [|destruct Hsr].
    apply filter_In in Hsr. destruct Hsr as [Hsr He]. apply N.eqb_eq in He.
    assert (Hc : forall x, cancelled m1 x = cancelled m x).
    { intro x. unfold cancelled, m1. rewrite rec_op_cancels. reflexivity. }
    rewrite Hc.
    (* the id of call i after the poll *)
    destruct (poll_call_done _ _ _ _ H) as (_ & Hp & _).
    unfold phl in Hp. destruct (nth_error (calls s') i) as [c'|] eqn:Ec'; [|discriminate].
    cbn [option_map] in Hp. injection Hp as Hp.
    destruct S' as [C' _ _]. cbn [chk_obs snd] in C'.
    pose proof (sc_phase _ _ C' _ _ Ec') as D. rewrite Hp in D.
    pose proof (d_polled _ _ _ D true eq_refl) as Hin. apply mem_nat_In in Hin.
    pose proof (sc_id _ _ C' _ _ Ec' Hin) as Hid.
    assert (Eid' : id = c_id c').
    { change (id_of m1 i = Some (c_id c')) in Hid. congruence. }
    rewrite He, Eid'. clear He Eid' Eid.
    (* before the poll the call was live or new *)
    destruct (nth_error (calls s) i) as [c|] eqn:Ec.
    2:{ revert H. unfold poll_call. rewrite Ec. discriminate. }
    pose proof (poll_call_id s i c Ec) as Hidl. rewrite H in Hidl. cbn [snd] in Hidl.
    rewrite (idl_nth _ _ _ Ec') in Hidl.
    destruct (phase_eq_dec (c_phase c) PNew) as [Ep|Ep].
    - rewrite Ep in Hidl. rewrite Hidl. eapply fresh_not_cancelled; [exact S|exact R|lia].
    - assert (Hidc : c_id c' = c_id c) by (rewrite Hidl; destruct (c_phase c); congruence).
      rewrite Hidc. destruct (livep (c_phase c)) eqn:Elive.
      + apply (rc_lc _ _ R i c Ec); [eapply livep_polled; eassumption|exact Elive].
      + exfalso. assert (Hd : poll_call s i = (CNothing, s)).
        { apply poll_call_dead. intros c0 Hc0. assert (c0 = c) by congruence. subst c0.
          destruct (c_phase c); try discriminate; try congruence; auto. }
        rewrite Hd in H. discriminate.
  Qed.

  (* ---------------------------------------------------------------- the relation and one op *)
  Record R03 m s : Prop := {
    r3_10 : R10 m s;
    r3_c : RC m s;
    r3_b : running s -> RB m s }.

  Lemma RB_init t0 qcap mif : RB m0 (init (T:=T) t0 qcap mif).
  Proof.
    constructor; cbn [inflight calls rx_closed init map]; try reflexivity; try (intros; contradiction);
      intros [|j] c H; discriminate.
  Qed.
  Lemma RC_init t0 qcap mif : RC m0 (init (T:=T) t0 qcap mif).
  Proof.
    constructor; cbn [calls init].
    - intros id H. discriminate.
    - intros [|j] c H; discriminate.
  Qed.
  Lemma R03_init t0 qcap mif : R03 m0 (init (T:=T) t0 qcap mif).
  Proof. constructor; [apply R10_init|apply RC_init|intros _; apply RB_init]. Qed.

  Lemma c03_run_loop m s0 f rr sA :
    run_loop tp f s0 = (rr, sA) -> plog s0 = [] -> sim m s0 -> Inv s0 -> RA m s0 -> RB m s0 -> RC m s0 ->
    fused s0 = false -> terminal s0 = None -> dropped s0 = false -> finished s0 = None ->
    DR3 maxif m sA.
  Proof.
    intros H Hp S Iv R B C Hf Ht Hd Hfin.
    assert (D0 : DR3 maxif m s0).
    { constructor; try assumption; unfold cur; rewrite ?Hp; try assumption; try reflexivity.
      constructor; try assumption; unfold cur; rewrite ?Hp; try assumption; try reflexivity.
      - constructor; unfold cur; rewrite Hp; [exact S|reflexivity].
      - congruence. }
    exact (DR3_msteps tp maxif m _ _ _ (run_loop_msteps tp _ _ _ _ H) D0).
  Qed.

  Lemma clean_log_dirty l : dirty l -> clean_log l = false.
  Proof.
    intro H. destruct (clean_log l) eqn:E; [|reflexivity]. exfalso.
    eapply dirty_not_clean; [exact H|apply clean_log_sink, E].
  Qed.

  Lemma c03_step m s (o : op) :
    sim m s -> N.of_nat (S (length (m_polled m))) < two64 -> Inv s -> R03 m s ->
    v03 (fst (chk_obs maxif o m (snd (step tp fuel_of s o)))) = true /\
    R03 (snd (chk_obs maxif o m (snd (step tp fuel_of s o)))) (fst (step tp fuel_of s o)).
  Proof.
    intros HS Hw Iv [R1 RCc RBr].
    destruct (c10_step tp fuel_of maxif m s o HS Hw Iv R1) as [_ R1'].
    pose proof (sim_step tp fuel_of maxif m s o HS Hw) as HS'.
    assert (Hnid : next_id s + 1 < two64) by (rewrite (sc_next _ _ (sim_c _ _ HS)); lia).
    assert (NonD : forall o' : op, o' <> PollDispatch -> o' <> DropDispatch ->
              R10 (snd (chk_obs maxif o' m (snd (step tp fuel_of s o')))) (fst (step tp fuel_of s o')) ->
              R03 (snd (chk_obs maxif o' m (snd (step tp fuel_of s o')))) (fst (step tp fuel_of s o'))).
    { intros o' H2 H3 R1o.
      assert (F : UFrame s (fst (step tp fuel_of s o'))).
      { destruct (step tp fuel_of s o') as [sx osx] eqn:Es. eapply (UFrame_step tp fuel_of); eassumption. }
      constructor; [exact R1o|apply RC_step; assumption|].
      intro Hr. apply RB_step; try assumption. apply RBr. eapply running_UFrame; eassumption. }
    assert (NilV : forall o' : op, (forall j, o' <> PollCall j) -> o' <> PollDispatch ->
              v03 (fst (chk_obs maxif o' m (snd (step tp fuel_of s o')))) = true).
    { intros o' H1 H2. rewrite (step_nil_obs tp fuel_of s o' H1 H2), chk_obs_nil. reflexivity. }
    destruct o; try (split; [apply NilV; [intros j; discriminate|discriminate]
                            |apply NonD; [discriminate|discriminate|exact R1']]).
    - (* PollCall *)
      split; [|apply NonD; [discriminate|discriminate|exact R1']].
      revert HS'. cbn [step]. destruct (poll_call s i) as [r s'] eqn:E. cbn [fst snd].
      destruct r as [|out|]; cbn [fst snd chk_obs]; try reflexivity.
      intro HS'. eapply done_v03; eassumption.
    - (* PollDispatch *)
      clear HS'.
      destruct (finished s) as [d|] eqn:Ef.
      { revert R1'. cbn [step]. rewrite Ef. cbn. intro R1'. split; [reflexivity|].
        constructor; [exact R1'|exact RCc|intros (_ & _ & H); congruence]. }
      destruct (dropped s) eqn:Ed.
      { revert R1'. cbn [step]. rewrite Ef, Ed. cbn. intro R1'. split; [reflexivity|].
        constructor; [exact R1'|exact RCc|intros (_ & H & _); congruence]. }
      set (s0 := upd_tr s (tr s) (fused s) []).
      destruct (poll_dispatch tp (fuel_of s0) s0) as [r s1] eqn:E.
      set (s2 := match r with DReady d => upd_fin s1 (Some d) (dropped s1) | _ => s1 end).
      assert (Est : step tp fuel_of s PollDispatch =
                    (upd_tr s2 (tr s2) (fused s2) [],
                     [OCalls (plog s1); ODisp r;
                      OGauge (N.of_nat (length (inflight s2))) (N.of_nat (length (timers s2)))])).
      { cbn [step]. rewrite Ef, Ed. fold s0. rewrite E. reflexivity. }
      revert R1'. rewrite Est. cbn [fst snd]. intro R1'.
      assert (S0 : sim m s0) by (eapply sim_frame; [exact HS|reflexivity..]).
      assert (I0 : Inv s0) by (eapply InvX_vframe; [|exact Iv]; constructor; reflexivity).
      assert (R90 : R09 m s0) by (destruct (r10_09 _ _ R1); constructor; assumption).
      assert (Hal0 : alive s0) by (split; cbn; [exact Ed|rewrite Ef; discriminate]).
      destruct (c09_poll_dispatch tp fuel_of maxif m s0 _ _ _ E eq_refl R90 I0 Hal0) as (_ & Ee & _ & _).
      (* what the poll did *)
      assert (K : v03 (fst (chk_calls maxif m (plog s1))) = true /\
                  (r = DPending -> clean_log (plog s1) = true -> terminal s1 = None ->
                   abandoned_covered (mrun m (plog s1)) = true) /\
                  RC (mrun m (plog s1)) s1 /\
                  (running s2 -> RB (mrun m (plog s1)) s1)).
      { revert E. unfold poll_dispatch. destruct (terminal s0) as [a|] eqn:Et.
        - destruct (shut_down s0 a) as [b sx] eqn:Ex.
          pose proof (plog_shut_down _ _ _ _ Ex) as P1. pose proof (PFrame_shut_down _ _ _ _ Ex) as F1.
          pose proof (live_ok_shut_down s0 a I0 (sim_w _ _ S0)) as L. rewrite Ex in L. cbn [snd] in L.
          assert (C0 : RC m s0) by (destruct RCc; constructor; assumption).
          destruct b; intros [= <- <-]; rewrite P1; cbn [plog upd_tr s0 chk_calls fst mrun fold_left];
            (split; [reflexivity|split; [|split; [apply (RC_live m s0 _ L C0)|]]]).
          + discriminate.
          + intros (H1 & _ & _). exfalso. unfold s2 in H1. cbn [terminal upd_fin] in H1.
            rewrite (pf_terminal _ _ F1) in H1. congruence.
          + intros _ _ H1. exfalso. rewrite (pf_terminal _ _ F1) in H1. congruence.
          + intros (H1 & _ & _). exfalso. unfold s2 in H1. rewrite (pf_terminal _ _ F1) in H1. congruence.
        - destruct (run_loop tp (fuel_of s0) s0) as [rr sA] eqn:Ex.
          assert (Hrun : running s) by (repeat split; [exact Et|exact Ed|exact Ef]).
          assert (RA0 : RA m s0).
          { exact (RA_frame m m s s0 eq_refl eq_refl eq_refl eq_refl eq_refl eq_refl
                     eq_refl eq_refl eq_refl eq_refl eq_refl eq_refl eq_refl eq_refl eq_refl (r10_ra _ _ R1 Hrun)). }
          assert (B0 : RB m s0) by (destruct (RBr Hrun); constructor; assumption).
          assert (C0 : RC m s0) by (destruct RCc; constructor; assumption).
          pose proof (c03_run_loop m s0 _ _ _ Ex eq_refl S0 I0 RA0 B0 C0 (r10_fu _ _ R1 Hrun) Et Ed Ef) as D3.
          destruct D3 as [DR Iva Hfa Ba Ca Va].
          destruct rr as [|a| |].
          + intros [= <- <-]. split; [exact Va|]. split; [discriminate|]. split; [exact Ca|intros _; exact Ba].
          + destruct (shut_down (upd_term sA (Some a)) a) as [b sy] eqn:Ey.
            pose proof (plog_shut_down _ _ _ _ Ey) as P2. pose proof (PFrame_shut_down _ _ _ _ Ey) as F2.
            cbn [plog upd_term] in P2.
            assert (Iu : Inv (upd_term sA (Some a))) by (apply Inv_upd_term; [apply (dr_t _ _ _ DR)|exact Iva]).
            assert (Wu : winv (upd_term sA (Some a))).
            { eapply winv_frame; [apply (sim_w _ _ (ds_sim _ _ _ (dr_sim _ _ _ DR)))|reflexivity..]. }
            pose proof (live_ok_shut_down _ a Iu Wu) as L. rewrite Ey in L. cbn [snd] in L.
            assert (Cu : RC (mrun m (plog sA)) (upd_term sA (Some a))) by (destruct Ca; constructor; assumption).
            assert (Ht : terminal sy = Some a) by (rewrite (pf_terminal _ _ F2); reflexivity).
            destruct b; intros [= <- <-]; rewrite P2;
              (split; [exact Va|split; [|split; [apply (RC_live _ _ _ L Cu)|]]]).
            * discriminate.
            * intros (H1 & _ & _). exfalso. unfold s2 in H1. cbn [terminal upd_fin] in H1. congruence.
            * intros _ _ H1. congruence.
            * intros (H1 & _ & _). exfalso. unfold s2 in H1. congruence.
          + intros [= <- <-]. split; [exact Va|]. split; [|split; [exact Ca|intros _; exact Ba]].
            intros _ Hcl _. destruct (run_loop_pending_cancels tp _ _ _ Ex) as [Hc|Hd].
            * apply (ab_cov (mrun m (plog sA)) sA); [apply (ds_sim _ _ _ (dr_sim _ _ _ DR))|apply (dr_ra _ _ _ DR)
                                                    |exact Hc|apply (dr_t _ _ _ DR)|apply (dr_d _ _ _ DR)].
            * rewrite (clean_log_dirty _ Hd) in Hcl. discriminate.
          + intros [= <- <-]. split; [exact Va|]. split; [discriminate|]. split; [exact Ca|intros _; exact Ba]. }
      destruct K as (V & Hab & Cc1 & Bb1).
      revert R1'. cbn [chk_obs rec_op].
      pose proof (chk_calls_snd maxif m (plog s1)) as Esnd.
      destruct (chk_calls maxif m (plog s1)) as [v m2]. cbn [fst snd] in V, Esnd. subst m2.
      destruct (c_poll _ _ _) as [okc c2]. cbn [fst snd vand v03]. intro R1'. rewrite V. cbn [andb]. split.
      * destruct (is_pending r && clean_log (plog s1) &&
                  match m_first_err (mrun m (plog s1)) with None => true | Some _ => false end) eqn:Ec;
          [|reflexivity]. cbn [negb orb].
        apply andb_true_iff in Ec. destruct Ec as [Ec E3]. apply andb_true_iff in Ec. destruct Ec as [E1' E2].
        apply Hab; [destruct r; try discriminate; reflexivity|exact E2|].
        rewrite Ee in E3. destruct (terminal s1); [discriminate|reflexivity].
      * assert (Es2 : running s2 -> s2 = s1).
        { intros (_ & _ & H). unfold s2 in *. destruct r as [d| |]; try reflexivity. cbn in H. discriminate. }
        constructor; [exact R1'| |].
        -- assert (C2 : RC (mrun m (plog s1)) s2).
           { unfold s2. destruct r; try exact Cc1. destruct Cc1; constructor; assumption. }
           match goal with |- RC ?mm ?ss =>
             exact (proj2 (RBC_same (mrun m (plog s1)) mm s2 ss eq_refl eq_refl eq_refl eq_refl eq_refl eq_refl eq_refl) C2)
           end.
        -- intros Hr. assert (Hr2 : running s2) by exact Hr. rewrite (Es2 Hr2).
           match goal with |- RB ?mm ?ss =>
             exact (proj1 (RBC_same (mrun m (plog s1)) mm s1 ss eq_refl eq_refl eq_refl eq_refl eq_refl eq_refl eq_refl)
                      (Bb1 Hr2))
           end.
    - (* DropDispatch *)
      split; [reflexivity|]. revert R1'. cbn [step fst snd]. rewrite chk_obs_nil. cbn [snd]. intro R1'.
      constructor; [exact R1'| |].
      + assert (C2 : RC m (if dropped s then s else drop_dispatch s)).
        { destruct (dropped s); [exact RCc|]. apply (RC_live m s); [apply live_ok_drop_dispatch, HS|exact RCc]. }
        match goal with |- RC ?mm ?ss =>
          apply (proj2 (RBC_same m mm ss ss (rec_op_sent m _) (rec_op_cancels m _)
                          (rec_op_polled m DropDispatch ltac:(discriminate))
                          eq_refl eq_refl eq_refl eq_refl)); exact C2
        end.
      + intros (_ & H & _). exfalso. revert H.
        destruct (dropped s) eqn:Ed; [congruence|]. destruct (drop_dispatch_frame s) as (_ & _ & F3). congruence.
  Qed.

  Lemma c03_run (ops : list op) : forall m s,
    sim m s -> N.of_nat (length (m_polled m) + length ops) < two64 -> Inv s -> R03 m s ->
    v03 (chk_run maxif m ops (fst (run_from tp fuel_of s ops))) = true.
  Proof.
    induction ops as [|o ops IH]; intros m s HS Hw Iv R; cbn [run_from chk_run fst]; [reflexivity|].
    assert (Hw1 : N.of_nat (S (length (m_polled m))) < two64) by (cbn [length] in Hw; lia).
    destruct (c03_step m s o HS Hw1 Iv R) as [V R'].
    pose proof (sim_step tp fuel_of maxif m s o HS Hw1) as HS'.
    pose proof (polled_chk_obs_le maxif m o (snd (step tp fuel_of s o))) as Hle.
    assert (Iv' : Inv (fst (step tp fuel_of s o))).
    { destruct (step tp fuel_of s o) as [s1 l] eqn:Es. cbn [fst].
      eapply (Inv_step tp fuel_of); [exact Es| |exact Iv].
      rewrite (sc_next _ _ (sim_c _ _ HS)). lia. }
    destruct (step tp fuel_of s o) as [s1 l]. cbn [fst snd] in *.
    destruct (run_from tp fuel_of s1 ops) as [ls s2] eqn:Er. cbn [fst].
    destruct (chk_obs maxif o m l) as [v m']. cbn [fst snd] in *. cbn [vand v03].
    rewrite V. cbn [andb].
    specialize (IH m' s1 HS'). rewrite Er in IH. apply IH; [|exact Iv'|exact R'].
    cbn [length] in Hw. lia.
  Qed.
End Ops3.

Theorem c03_cancel_on_wire {T : Type} : @stmt_c03 T.
Proof.
  intros tp fuel_of t0 qcap maxif ops Hw. unfold c03_ok, monitors, client_trace.
  apply c03_run; [apply sim_init| |apply Inv_init|apply R03_init].
  unfold no_wrap in Hw. cbn. unfold two64. lia.
Qed.
Print Assumptions c03_cancel_on_wire.
