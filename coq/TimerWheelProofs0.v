(* Timer wheel proofs, part 0: arithmetic of level_for / slot_for (TimerWheel.v). *)
From Coq Require Import List Bool Arith NArith Lia.
Import ListNotations.
From TarpcV Require Import TimerWheel.
Local Open Scope N_scope.

Definition RNG : N := 68719476736.   (* 2^36 = MAX_DURATION + 1 *)

Lemma slot_range_pow lv : slot_range lv = 2 ^ (N.of_nat (6 * lv)).
Proof.
  unfold slot_range. rewrite Nat2N.inj_mul. change (N.of_nat 6) with 6.
  change 64 with (2 ^ 6). rewrite <- N.pow_mul_r. reflexivity.
Qed.
Lemma slot_range_pos lv : 0 < slot_range lv.
Proof. unfold slot_range. apply N.neq_0_lt_0, N.pow_nonzero. discriminate. Qed.
Lemma slot_range_S lv : slot_range (S lv) = 64 * slot_range lv.
Proof. unfold slot_range. rewrite Nat2N.inj_succ, N.pow_succ_r'. reflexivity. Qed.
Lemma level_range_S lv : level_range lv = slot_range (S lv).
Proof. unfold level_range. rewrite slot_range_S. reflexivity. Qed.

Lemma slot_for_div w lv : slot_for w lv = (w / slot_range lv) mod 64.
Proof. unfold slot_for. rewrite N.shiftr_div_pow2, <- slot_range_pow. reflexivity. Qed.
Lemma slot_for_lt w lv : slot_for w lv < 64.
Proof. rewrite slot_for_div. apply N.mod_lt. discriminate. Qed.

(* x < 2^k from (x | 63) < 2^k *)
Lemma lor_lt_pow2 x k : N.lor x 63 < 2 ^ k -> x < 2 ^ k.
Proof.
  intro H. destruct (N.eq_dec x 0) as [->|NZ]; [apply N.neq_0_lt_0, N.pow_nonzero; discriminate|].
  apply N.log2_lt_pow2; [lia|].
  assert (L : N.log2 (N.lor x 63) < k).
  { apply N.log2_lt_pow2; [|exact H]. destruct (N.lor x 63) eqn:E; [|lia].
    apply N.lor_eq_0_iff in E. destruct E; discriminate. }
  eapply N.le_lt_trans; [|exact L]. rewrite N.log2_lor. apply N.le_max_l.
Qed.

Lemma shiftr_eq_of_lxor_lt a b k : N.lxor a b < 2 ^ k -> N.shiftr a k = N.shiftr b k.
Proof.
  intro H. apply N.lxor_eq. rewrite <- N.shiftr_lxor. rewrite N.shiftr_div_pow2. apply N.div_small, H.
Qed.
Lemma lxor_lt_pow2 a b k : a < 2 ^ k -> b < 2 ^ k -> N.lxor a b < 2 ^ k.
Proof.
  intros A B. destruct (N.eq_dec a 0) as [->|NA]; [rewrite N.lxor_0_l; exact B|].
  destruct (N.eq_dec b 0) as [->|NB]; [rewrite N.lxor_0_r; exact A|].
  destruct (N.eq_dec (N.lxor a b) 0) as [->|NZ]; [apply N.neq_0_lt_0, N.pow_nonzero; discriminate|].
  apply N.log2_lt_pow2; [lia|]. eapply N.le_lt_trans; [apply N.log2_lxor|].
  apply N.max_lub_lt; apply N.log2_lt_pow2; lia.
Qed.


Lemma lor63_lt a k : a < 2 ^ k -> 6 <= k -> N.lor a 63 < 2 ^ k.
Proof.
  intros A K. assert (NZ : N.lor a 63 <> 0) by (intro E; apply N.lor_eq_0_iff in E; destruct E; discriminate).
  apply N.log2_lt_pow2; [lia|]. rewrite N.log2_lor. apply N.max_lub_lt.
  - destruct (N.eq_dec a 0) as [->|]; [cbn; lia|apply N.log2_lt_pow2; lia].
  - change (N.log2 63) with 5. lia.
Qed.

Lemma level_for_spec E w :
  E < RNG -> w < RNG ->
  (level_for E w <= 5)%nat /\
  E / slot_range (S (level_for E w)) = w / slot_range (S (level_for E w)) /\
  ((0 < level_for E w)%nat -> E / slot_range (level_for E w) <> w / slot_range (level_for E w)).
Proof.
  intros HE Hw. unfold level_for.
  set (x := N.lxor E w). set (m0 := N.lor x 63).
  assert (X : x < 2 ^ 36) by (apply lxor_lt_pow2; assumption).
  assert (M0 : m0 < 2 ^ 36) by (apply lor63_lt; [exact X|lia]).
  assert (NZ : m0 <> 0) by (intro E0; apply N.lor_eq_0_iff in E0; destruct E0; discriminate).
  set (m := if MAX_DURATION <=? m0 then MAX_DURATION - 1 else m0).
  assert (LG : N.log2 m = N.log2 m0).
  { unfold m. destruct (MAX_DURATION <=? m0) eqn:C; [|reflexivity].
    apply N.leb_le in C. unfold MAX_DURATION in *. assert (m0 = 68719476735) by (change (2^36) with 68719476736 in M0; lia).
    subst m0. rewrite H. reflexivity. }
  cbv zeta. fold x. fold m0. fold m. rewrite LG.
  set (n := N.log2 m0).
  assert (N35 : n < 36) by (apply N.log2_lt_pow2; lia).
  destruct (N.log2_spec m0 ltac:(lia)) as [LO HI]. fold n in LO, HI.
  set (lv := Nat.div (N.to_nat n) 6).
  assert (LV1 : (6 * lv <= N.to_nat n)%nat /\ (N.to_nat n < 6 * S lv)%nat).
  { unfold lv. pose proof (Nat.div_mod (N.to_nat n) 6 ltac:(discriminate)).
    pose proof (Nat.mod_upper_bound (N.to_nat n) 6 ltac:(discriminate)). lia. }
  split; [lia|]. split.
  - rewrite !slot_range_pow, <- !N.shiftr_div_pow2. apply shiftr_eq_of_lxor_lt. fold x.
    apply lor_lt_pow2. fold m0. eapply N.lt_le_trans; [exact HI|]. apply N.pow_le_mono_r; lia.
  - intros LP. rewrite !slot_range_pow, <- !N.shiftr_div_pow2. intro EQ.
    assert (B : N.testbit m0 n = true) by (apply N.bit_log2; exact NZ).
    unfold m0 in B. rewrite N.lor_spec in B.
    assert (B63 : N.testbit 63 n = false) by (apply N.bits_above_log2; change (N.log2 63) with 5; lia).
    rewrite B63, orb_false_r in B. unfold x in B. rewrite N.lxor_spec in B.
    set (k := N.of_nat (6 * lv)) in *.
    assert (T : forall a, N.testbit a n = N.testbit (N.shiftr a k) (n - k)).
    { intro a. rewrite N.shiftr_spec by lia. f_equal. unfold k. lia. }
    rewrite (T E), (T w), EQ in B. destruct (N.testbit (N.shiftr w k) (n - k)); discriminate.
Qed.

(* lia with quotients and remainders as opaque atoms *)
Ltac hide_div :=
  repeat match goal with
  | |- context [N.div ?a ?b] => let q := fresh "q" in set (q := N.div a b) in *; clearbody q
  | H : context [N.div ?a ?b] |- _ => let q := fresh "q" in set (q := N.div a b) in *; clearbody q
  | |- context [N.modulo ?a ?b] => let q := fresh "q" in set (q := N.modulo a b) in *; clearbody q
  | H : context [N.modulo ?a ?b] |- _ => let q := fresh "q" in set (q := N.modulo a b) in *; clearbody q
  end.
Ltac dlia := hide_div; lia.
