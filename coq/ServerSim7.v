(* Simulation, part 7: verdict flags that are decided at op boundaries or by handler events
   (never in the middle of a poll): no malformed trace (v_bad), C06 "never early" (v06e). *)
From Coq Require Import List Bool Arith NArith Lia.
Import ListNotations.
From TarpcV Require Import Base Transport TimerWheel Server ServerMon ServerFuel ServerContract
     ServerSim ServerSim2 ServerSim3 ServerSim4 ServerSim5 ServerSim6.

Definition VA (o : ostate) : Prop := v_bad (o_v o) = false /\ v06e (o_v o) = true.

(* a transport call never decides these flags *)
Lemma ocall_va : forall lim o c,
  v_bad (o_v (o_call lim o c)) = v_bad (o_v o) /\ v06e (o_v (o_call lim o c)) = v06e (o_v o).
Proof.
  intros lim o c. unfold o_call.
  assert (P : v_bad (o_v (match o_errcall o with Some _ => chk09 o false | None => o end)) = v_bad (o_v o)
              /\ v06e (o_v (match o_errcall o with Some _ => chk09 o false | None => o end)) = v06e (o_v o)).
  { destruct (o_errcall o); oproj; rewrite ?andb_true_r; auto. }
  destruct P as (P1 & P2).
  set (o0 := match o_errcall o with Some _ => chk09 o false | None => o end) in *.
  destruct c as [r|m r|r|r|r].
  - oproj. auto.
  - destruct (resp_body m).
    1,2,4: (destruct (last_open (resp_id m) (o_incs o0)); oproj; rewrite ?andb_true_r; auto).
    unfold accept_id. destruct (last_open (resp_id m) _); oproj; rewrite ?andb_true_r, ?orb_false_r; auto.
  - oproj. auto.
  - oproj. rewrite ?andb_true_r. auto.
  - unfold resolve_ignored. destruct (o_pend o0) as [[[[a b] d] e]|];
      destruct r as [[id dl tr body|id tr]| | |]; oproj; rewrite ?andb_true_r, ?orb_false_r; auto;
      destruct (last_open id _); oproj; rewrite ?andb_true_r, ?orb_false_r; auto.
Qed.

Lemma ocs_va : forall lim new o,
  v_bad (o_v (fold_left (o_call lim) new o)) = v_bad (o_v o)
  /\ v06e (o_v (fold_left (o_call lim) new o)) = v06e (o_v o).
Proof.
  intros lim new; induction new as [|c new IH]; intros o; cbn [fold_left]; [auto|].
  destruct (IH (o_call lim o c)) as (A & B). destruct (ocall_va lim o c) as (D & E). split; congruence.
Qed.

Lemma oresult_va : forall o r,
  match r with OYield _ _ _ _ _ | OPending | OStreamEnd | OStreamErr _ => True | _ => False end ->
  v_bad (o_v (o_result o r)) = v_bad (o_v o) /\ v06e (o_v (o_result o r)) = v06e (o_v o).
Proof.
  intros o r Hr. destruct r; try contradiction; unfold o_result, finish_idle, accept_id.
  - destruct (last_open id _); oproj; rewrite ?andb_true_r, ?orb_false_r; auto.
  - destruct (o_blocked _); oproj; rewrite ?andb_true_r, ?orb_false_r; auto.
  - destruct (o_blocked _); oproj; rewrite ?andb_true_r, ?orb_false_r; auto.
  - oproj; rewrite ?andb_true_r, ?orb_false_r; auto.
Qed.

Lemma otail_va : forall o1 a b,
  o_dropped o1 = false ->
  VA o1 -> VA (otail o1 (Some (a, b))).
Proof.
  intros o1 a b Hd (A & B). unfold otail. rewrite Hd. destruct (c_err (o_v o1)); [split; auto|].
  unfold o_gauges, VA. oproj. rewrite ?andb_true_r. auto.
Qed.

Section VARun.
  Context {T C : Type}.
  Variable tp : transport T response cmsg.
  Variable ctl : T -> C -> T.
  Variable tfuel : T -> nat.
  Hypothesis TF : tfuel_ok tp tfuel.
  Variable c : cfg.
  Notation st := (@sstate T).
  Notation lim := (cfg_limit c).

  (* what a poll of a live channel emits *)
  Lemma poll_shape : forall (s : st) s1 l0,
    s_dropped s = false -> poll_requests tp tfuel c s = (s1, l0) ->
    exists log R, l0 = [OCalls log; R] /\ s_dropped s1 = false
      /\ match R with OYield _ _ _ _ _ | OPending | OStreamEnd | OStreamErr _ => True | _ => False end.
  Proof.
    intros s s1 l0 ED EP. unfold poll_requests in EP. rewrite ED in EP.
    destruct (requests_poll_next tp c (poll_fuel tfuel s) (set_log s [])) as [r s2] eqn:ER.
    pose proof (requests_not_fuel tp tfuel TF c _ _ _ ER) as Hnf.
    pose proof (dropped_requests tp _ _ _ _ _ ER) as Hd. sproj.
    destruct r; [| | | |exfalso; apply Hnf; reflexivity]; injection EP as <- <-; do 2 eexists;
      (split; [reflexivity|split; [sproj; congruence|exact I]]).
  Qed.

  Lemma oresult_dropped : forall o r,
    match r with OYield _ _ _ _ _ | OPending | OStreamEnd | OStreamErr _ => True | _ => False end ->
    o_dropped (o_result o r) = o_dropped o /\ h_stop (o_v (o_result o r)) = h_stop (o_v o).
  Proof.
    intros o r Hr. destruct r; try contradiction.
    - destruct (o_result_yield_proj o k id dl tr body) as (_ & _ & P3 & _ & _ & _ & P7 & _). auto.
    - cbn [o_result]. destruct (finish_idle_proj o) as (_ & _ & P3 & _ & _ & _ & P7 & _). auto.
    - cbn [o_result]. destruct (finish_idle_proj (chk10 o (o_eof o && negb (o_dirty o)))) as (_ & _ & P3 & _ & _ & _ & P7 & _).
      cbv zeta in *. oproj. auto.
    - destruct (o_result_err_proj o a) as (_ & _ & P3 & _ & _ & P6 & _). auto.
  Qed.

  Lemma va_poll : forall o (s : st) s' l,
    Top o s -> VA o -> step tp ctl tfuel c s OPoll = (s', l) -> VA (ostep lim o (@OPoll C) l).
  Proof.
    intros o s s' l HT HV H.
    unfold step in H. destruct (poll_requests tp tfuel c s) as [s1 l0] eqn:EP. injection H as <- <-.
    destruct (h_stop (o_v o)) eqn:EH; [|unfold ostep; rewrite EH; exact HV].
    destruct (HT EH) as (HI & Hnt & Hrest).
    destruct (s_dropped s) eqn:ED.
    { unfold poll_requests in EP. rewrite ED in EP. injection EP as <- <-.
      unfold ostep. rewrite EH. cbn [negb]. unfold gauges. rewrite ED.
      assert (Hodt : o_dropped o = true) by (rewrite (u_dropped _ _ HI); exact ED).
      cbn [app split_gauges rev]. rewrite Hodt. cbn iota. rewrite Hodt. exact HV. }
    assert (Hod : o_dropped o = false) by (rewrite (u_dropped _ _ HI); exact ED).
    destruct (poll_shape _ _ _ ED EP) as (log & R & -> & Hd1 & HR).
    unfold ostep. rewrite EH. cbn [negb].
    rewrite (split_gauges_poll s1 log R Hd1);
      [|destruct R; try contradiction; exact I].
    rewrite Hod. destruct HV as (A & B).
    destruct (c_err (o_v o)) eqn:EC.
    { assert (E1 : o_dropped (hyp_stop o false) = false) by (oproj; exact Hod).
      assert (E2 : c_err (o_v (hyp_stop o false)) = true) by (oproj; rewrite EC; reflexivity).
      cbv iota beta. rewrite E1, E2. unfold VA. oproj. rewrite ?andb_true_r, ?orb_false_r. auto. }
    unfold o_calls.
    set (oc := fold_left (o_call lim) log (start_poll o)).
    destruct (ocs_va lim log (start_poll o)) as (V1 & V2). fold oc in V1, V2.
    cbn [start_poll o_v] in V1, V2.
    destruct (ocs_proj lim log (start_poll o)) as (_ & Pd & _). fold oc in Pd. cbn [start_poll o_dropped] in Pd.
    destruct (oresult_va oc R HR) as (W1 & W2). destruct (oresult_dropped oc R HR) as (X1 & _).
    rewrite X1, Pd, Hod.
    destruct (c_err (o_v (o_result oc R))); [split; congruence|].
    unfold o_gauges, VA.
    match goal with |- context [if ?b then _ else _] => destruct b end; oproj; rewrite ?andb_true_r;
      try (match goal with |- context [if ?b then _ else _] => destruct b end; oproj; rewrite ?andb_true_r);
      split; congruence.
  Qed.

  (* ---- the other ops ------------------------------------------------------------------------------- *)
  Lemma va_tail : forall o1 (s1 : st) body,
    o_dropped o1 = s_dropped s1 -> forallb plain body = true -> VA o1 ->
    VA (otail o1 (snd (split_gauges (body ++ gauges s1)))).
  Proof.
    intros o1 s1 body Hd Hpl HV. destruct (s_dropped s1) eqn:ED.
    - unfold gauges. rewrite ED, app_nil_r, (split_gauges_plain _ Hpl). cbn [snd otail]. rewrite Hd. exact HV.
    - rewrite (split_gauges_app body s1 ED). cbn [snd]. apply otail_va; auto.
  Qed.

  (* the C06 check of a handler-event list: execute() may end without the handler having completed
     only if that is licensed (Cancel read, timer due, channel dropped) *)
  Fixpoint chk_body (body : list obs) (done : bool) (lic : bool) : bool :=
    match body with
    | [] => true
    | OHDone _ _ :: r => chk_body r true lic
    | OExecReady _ :: r => (done || lic) && chk_body r done lic
    | _ :: r => chk_body r done lic
    end.

  Lemma va_hevents : forall k body o oi,
    forallb (for_k k) body = true -> nth_error (o_incs o) k = Some oi ->
    let o' := fold_left o_hevent body o in
    v_bad (o_v o') = v_bad (o_v o)
    /\ v06e (o_v o') = v06e (o_v o)
                       && chk_body body (match oi_done oi with Some _ => true | None => false end)
                                   (match oi_wire oi with WOpen => o_dropped o | _ => true end).
  Proof.
    intros k body; induction body as [|e body IH]; intros o oi Hb Hk; cbv zeta; cbn [fold_left chk_body].
    { rewrite andb_true_r. auto. }
    cbn [forallb] in Hb. apply andb_true_iff in Hb. destruct Hb as [He Hb].
    destruct (hevents_proj k [e] o oi) as (S1 & _ & S3 & _); [cbn; rewrite He; reflexivity|exact Hk|].
    cbv zeta in S1, S3. cbn [fold_left] in S1, S3.
    assert (Hk' : nth_error (o_incs (o_hevent o e)) k = Some (gstep e oi)).
    { rewrite S1. apply upd_nth_same. exact Hk. }
    destruct (IH (o_hevent o e) (gstep e oi) Hb Hk') as (I1 & I2). cbv zeta in I1, I2. rewrite I1, I2, S3.
    destruct e; cbn in He; try discriminate; apply Nat.eqb_eq in He; subst; cbn [o_hevent gstep chk_body];
      rewrite ?Hk; oproj; rewrite ?andb_true_r; cbn [oi_done oi_wire set_ph set_done]; auto.
    all: try (split; [reflexivity|]).
    all: destruct (oi_done oi); cbn [negb orb andb]; try reflexivity;
      try (destruct (oi_wire oi); cbn [negb orb andb]; rewrite ?andb_assoc, ?andb_true_r; reflexivity).
  Qed.

  Definition waits (x : hstate) : bool := match x with HWait _ | HPermit _ => true | _ => false end.

  Lemma execute_poll_body : forall k hs (s : st) s1 body hr,
    execute_poll k hs s = (s1, body) -> nth_error (s_handlers s) k = Some hr ->
    forallb (for_k k) body = true /\ s_dropped s1 = s_dropped s
    /\ chk_body body (waits (h_st hr)) (existsb (Nat.eqb (h_h hr)) (s_aborted s)) = true.
  Proof.
    intros k hs s s1 body hr H Hk. unfold execute_poll in H. rewrite Hk in H.
    destruct (add_permit_shape s) as (_ & _ & _ & _ & _ & _ & _ & _ & P9 & _). cbv zeta in P9.
    destruct (h_st hr) eqn:Est; cbn [waits];
      destruct (existsb (Nat.eqb (h_h hr)) (s_aborted s)) eqn:EA;
      try destruct hs; try destruct (s_dropped s) eqn:ED; try destruct (s_permits s);
      injection H as <- <-; sproj; cbn [forallb for_k chk_body orb andb]; rewrite ?Nat.eqb_refl, ?P9, ?ED;
      repeat split; reflexivity.
  Qed.

  Lemma va_handler_poll : forall o (s : st) k hs s' l,
    Top o s -> VA o -> step tp ctl tfuel c s (OHandlerPoll k hs) = (s', l) ->
    VA (ostep lim o (@OHandlerPoll C k hs) l).
  Proof.
    intros o s k hs s' l HT HV H. unfold step in H.
    destruct (execute_poll k hs s) as [s1 body] eqn:EE. injection H as <- <-.
    destruct (h_stop (o_v o)) eqn:EH; [|unfold ostep; rewrite EH; exact HV].
    destruct (HT EH) as (HI & Hnt & Hr).
    rewrite (ostep_nonpoll c (@OHandlerPoll C k hs) o _ EH I).
    destruct (nth_error (s_handlers s) k) as [hr|] eqn:Hk.
    2: { unfold execute_poll in EE. rewrite Hk in EE. injection EE as <- <-.
         cbn [app]. assert (Hs : fst (split_gauges (gauges s)) = []).
         { destruct (s_dropped s) eqn:ED; [unfold gauges; rewrite ED; reflexivity|].
           change (gauges s) with ([] ++ gauges s). rewrite (split_gauges_app [] s ED). reflexivity. }
         rewrite Hs. cbn [fold_left]. apply (va_tail o s []); auto. exact (u_dropped _ _ HI). }
    destruct (execute_poll_body _ _ _ _ _ _ EE Hk) as (Hb & Hd & Hc).
    assert (Hoi : exists oi, nth_error (o_incs o) k = Some oi).
    { assert (k < length (o_incs o)) by (rewrite (u_len _ _ HI); apply nth_error_Some; congruence).
      apply nth_error_Some in H. destruct (nth_error (o_incs o) k); [eauto|congruence]. }
    destruct Hoi as (oi & Hoi).
    assert (Hfst : fst (split_gauges (body ++ gauges s1)) = body).
    { destruct (s_dropped s1) eqn:ED.
      - unfold gauges. rewrite ED, app_nil_r, (split_gauges_plain _ (for_k_plain _ _ Hb)). reflexivity.
      - rewrite (split_gauges_app body s1 ED). reflexivity. }
    rewrite Hfst.
    destruct (hevents_proj k body o oi Hb Hoi) as (_ & _ & P3 & _). cbv zeta in P3.
    destruct (va_hevents k body o oi Hb Hoi) as (V1 & V2). cbv zeta in V1, V2.
    apply va_tail.
    - rewrite P3, Hd. exact (u_dropped _ _ HI).
    - eapply for_k_plain; eauto.
    - destruct HV as (A & B). split; [congruence|]. rewrite V2, B. cbn [andb].
      (* the licence *)
      destruct (u_hand _ _ HI k hr oi Hk Hoi) as (_ & Hph & Hdn & _).
      assert (Hdone : waits (h_st hr) = true -> match oi_done oi with Some _ => true | None => false end = true).
      { destruct (h_st hr); cbn; try discriminate; intros _; cbn in Hdn; rewrite Hdn; reflexivity. }
      assert (Hlic : existsb (Nat.eqb (h_h hr)) (s_aborted s) = true ->
                     match oi_wire oi with WOpen => o_dropped o | _ => true end = true).
      { intros Hex. apply existsb_exists in Hex. destruct Hex as (x & Hin & Heq). apply Nat.eqb_eq in Heq. subst x.
        destruct (u_aborted _ _ HI k hr oi Hk Hoi Hin) as [Hw|Hdr].
        - destruct (oi_wire oi); auto; congruence.
        - rewrite (u_dropped _ _ HI), Hdr. destruct (oi_wire oi); reflexivity. }
      clear -Hc Hdone Hlic.
      revert Hc Hdone Hlic. generalize (waits (h_st hr)) (existsb (Nat.eqb (h_h hr)) (s_aborted s)).
      generalize (match oi_done oi with Some _ => true | None => false end).
      generalize (match oi_wire oi with WOpen => o_dropped o | _ => true end).
      intros lic done w a. revert done w. induction body as [|e body IH]; intros done w Hc Hd Hl; [reflexivity|].
      destruct e; cbn [chk_body] in *; try (apply (IH done w); auto).
      + apply (IH true true); auto.
      + apply andb_true_iff in Hc. destruct Hc as [Hc1 Hc2]. apply andb_true_iff. split.
        * apply orb_true_iff in Hc1. destruct Hc1 as [Hc1|Hc1]; [rewrite (Hd Hc1); reflexivity|rewrite (Hl Hc1); apply orb_true_r].
        * apply (IH done w); auto.
  Qed.

  Lemma fst_split_nil : forall (s1 : st), fst (split_gauges ([] ++ gauges s1)) = [].
  Proof.
    intros s1. destruct (s_dropped s1) eqn:ED; [cbn [app]; unfold gauges; rewrite ED; reflexivity|].
    rewrite (split_gauges_app [] s1 ED). reflexivity.
  Qed.

  Lemma fst_split_nil' : forall (s1 : st), fst (split_gauges (gauges s1)) = [].
  Proof. intros s1. exact (fst_split_nil s1). Qed.

  Lemma guard_dropped_va : forall k need o,
    VA o -> VA (guard_dropped k need o) /\ o_dropped (guard_dropped k need o) = o_dropped o.
  Proof.
    intros k need o HV. unfold guard_dropped. destruct (nth_error (o_incs o) k); [|auto].
    match goal with |- context [if ?b then _ else _] => destruct b end; oproj; auto.
    match goal with |- context [if ?b then _ else _] => destruct b end; oproj; auto.
  Qed.

  Lemma va_step : forall o (s : st) p s' l,
    Top o s -> VA o -> step tp ctl tfuel c s p = (s', l) -> VA (ostep lim o p l).
  Proof.
    intros o s p s' l HT HV H. destruct p as [|x|k hs|k|k| |dt].
    - eapply va_poll; eauto.
    - unfold step in H. injection H as <- <-.
      destruct (h_stop (o_v o)) eqn:EH; [|unfold ostep; rewrite EH; exact HV].
      destruct (HT EH) as (HI & _). rewrite (ostep_nonpoll c (OCtl x) o _ EH I). cbn [app]. rewrite fst_split_nil'.
      apply (va_tail o _ []); auto. sproj. exact (u_dropped _ _ HI).
    - eapply va_handler_poll; eauto.
    - (* drop the execute() future *)
      unfold step in H. destruct (drop_handler k s) as [s1 body] eqn:EE. injection H as <- <-.
      destruct (h_stop (o_v o)) eqn:EH; [|unfold ostep; rewrite EH; exact HV].
      destruct (HT EH) as (HI & _). rewrite (ostep_nonpoll c (@ODropHandler C k) o _ EH I).
      assert (Hbody : (body = [] \/ body = [OHDropped k]) /\ s_dropped s1 = s_dropped s).
      { unfold drop_handler, guard_cancel in EE. destruct (nth_error (s_handlers s) k) as [hr|]; [|injection EE as <- <-; auto].
        destruct (add_permit_shape s) as (_ & _ & _ & _ & _ & _ & _ & _ & P9 & _). cbv zeta in P9.
        destruct (h_st hr); injection EE as <- <-; sproj; rewrite ?P9; destruct (s_dropped s) eqn:ED; sproj; rewrite ?P9, ?ED; auto. }
      destruct Hbody as (Hb & Hd).
      assert (Hpl : forallb plain body = true) by (destruct Hb as [->| ->]; reflexivity).
      assert (Hfst : fst (split_gauges (body ++ gauges s1)) = body).
      { destruct (s_dropped s1) eqn:ED.
        - unfold gauges. rewrite ED, app_nil_r, (split_gauges_plain _ Hpl). reflexivity.
        - rewrite (split_gauges_app body s1 ED). reflexivity. }
      rewrite Hfst.
      assert (Hfold : fold_left o_hevent body o = o) by (destruct Hb as [->| ->]; reflexivity).
      rewrite Hfold. destruct (guard_dropped_va k PStarted o HV) as (A & B).
      apply va_tail; auto. rewrite B, Hd. exact (u_dropped _ _ HI).
    - unfold step in H. destruct (drop_yielded k s) as [s1 body] eqn:EE. injection H as <- <-.
      destruct (h_stop (o_v o)) eqn:EH; [|unfold ostep; rewrite EH; exact HV].
      destruct (HT EH) as (HI & _). rewrite (ostep_nonpoll c (@ODropYielded C k) o _ EH I).
      assert (Hbody : body = [] /\ s_dropped s1 = s_dropped s).
      { unfold drop_yielded, guard_cancel in EE. destruct (nth_error (s_handlers s) k) as [[h i stt]|]; [|injection EE as <- <-; auto].
        destruct stt; injection EE as <- <-; sproj; destruct (s_dropped s) eqn:ED; sproj; rewrite ?ED; auto. }
      destruct Hbody as (-> & Hd). cbn [app]. rewrite fst_split_nil'. cbn [fold_left].
      destruct (guard_dropped_va k PFresh o HV) as (A & B).
      apply (va_tail _ s1 []); auto. rewrite B, Hd. exact (u_dropped _ _ HI).
    - unfold step in H. injection H as <- <-.
      destruct (h_stop (o_v o)) eqn:EH; [|unfold ostep; rewrite EH; exact HV].
      destruct (HT EH) as (HI & _). rewrite (ostep_nonpoll c (@ODropChannel C) o _ EH I).
      apply (va_tail _ (drop_channel s) []); auto.
      + oproj. unfold drop_channel. destruct (s_dropped s) eqn:ED; sproj; auto.
    - unfold step in H. injection H as <- <-.
      destruct (h_stop (o_v o)) eqn:EH; [|unfold ostep; rewrite EH; exact HV].
      destruct (HT EH) as (HI & _). rewrite (ostep_nonpoll c (@OAdvance C dt) o _ EH I).
      apply (va_tail _ (set_now s (s_now s + dt)%N) []); auto. oproj. sproj. exact (u_dropped _ _ HI).
  Qed.

  Theorem run_va : forall ops o (s : st),
    Top o s -> hb_ok s -> VA o ->
    VA (orun lim o ops (fst (run_from tp ctl tfuel c s ops))).
  Proof.
    induction ops as [|p ops IH]; intros o s HT Hb HV; cbn [run_from]; [exact HV|].
    destruct (step tp ctl tfuel c s p) as [s1 l] eqn:ES.
    pose proof (top_step tp ctl tfuel TF c o s p s1 l HT Hb ES) as HT1.
    pose proof (hb_ok_step tp ctl tfuel c s p Hb) as Hb1. rewrite ES in Hb1. cbn [fst] in Hb1.
    pose proof (va_step o s p s1 l HT HV ES) as HV1.
    specialize (IH (ostep lim o p l) s1 HT1 Hb1 HV1).
    destruct (run_from tp ctl tfuel c s1 ops) as [ls s2]. cbn [fst orun] in *. exact IH.
  Qed.
End VARun.

(* C06, "never early", as a monitor theorem: in every run, for every transport whose fuel measure
   decreases with every item it hands out, no execute() ends without its handler having completed
   unless the channel had a licence for the abort (the request's Cancel was read, its deadline
   timer was due, or the channel was dropped); and the trace is well formed. *)
Theorem server_never_early :
  forall (T C : Type) (tp : transport T response cmsg) (ctl : T -> C -> T) (tfuel : T -> nat)
         (c : cfg) (t0 : T) (ops : list (op C)),
    tfuel_ok tp tfuel ->
    let v := observe c ops (fst (run tp ctl tfuel c t0 ops)) in
    v_bad v = false /\ v06e v = true.
Proof.
  intros T C tp ctl tfuel c t0 ops TF. cbv zeta. unfold observe, run.
  destruct (top_init c t0) as (HT & Hb).
  exact (run_va tp ctl tfuel TF c ops o_init (init c t0) HT Hb (conj eq_refl eq_refl)).
Qed.
