(* Chain proofs, SettleAll terminates, part 3: nodes, the chain potential Phi, the four
   component polls, a round, settle.  Node i of a chain of length n uses the weight parameter
   A_i = 22 * (n - 1 - i): a fresh call on node i+1's client weighs A_(i+1) + 22 = A_i, which is
   what a yielded request of node i keeps in reserve until its handler makes the nested call. *)
From Coq Require Import List Bool Arith NArith Lia.
Import ListNotations.
From TarpcV Require Import Base Transport TimerWheel Chain ChainBase ChainLoops.
From TarpcV Require Client Server ServerFuel ChainFuel ChainRounds0 ChainRounds1 ChainRounds2.
Import ChainRounds0.
Module S1 := ChainRounds1.
Module C2 := ChainRounds2.

Notation sfuel := (fun t : link => length (l_c2s t)).

Definition PC0 (A : nat) (c : cstate) : nat :=
  C2.CW A (Client.calls c) + (A + 11) * length (Client.queue c) + 2 * length (Client.cancels c)
  + length (Client.inflight c) + length (Client.timers c) + (A + 17) * length (Client.waiters c)
  + C2.bit (Client.rx_closed c) + C2.obit (Client.terminal c) + C2.obit (Client.finished c).
Lemma PsiC_split A c : C2.PsiC A c = PC0 A c + LP A (Client.tr c).
Proof. reflexivity. Qed.

Definition PS0 (s : sstate) : nat :=
  S1.WH (Server.s_handlers s) + 2 * length (Server.s_respq s) + length (Server.s_cancels s)
  + length (Server.s_timers s) + length (Server.s_inflight s) + (if Server.s_fused s then 0 else 1).
Lemma PsiS_split A s : S1.PsiS A s = PS0 s + LP A (Server.s_t s).
Proof. unfold S1.PsiS, PS0. lia. Qed.

Definition isnone (h : hinfo) : bool := match hi_call h with None => true | Some _ => false end.
Definition hsw (A : nat) (l : list hinfo) : nat := A * length (filter isnone l).
Definition ovw (b : bool) : nat := if b then 0 else 3.

Definition NP (A : nat) (nd : node) : nat :=
  PC0 A (n_cli nd) + LP A (n_link nd) + PS0 (n_srv nd) + hsw A (n_hs nd) + ovw (n_over nd).

Definition cli_of (nd : node) : cstate :=
  Client.upd_tr (n_cli nd) (n_link nd) (Client.fused (n_cli nd)) (Client.plog (n_cli nd)).
Definition srv_of (nd : node) : sstate := Server.set_t (n_srv nd) (n_link nd).

Lemma NP_cli A nd :
  NP A nd = C2.PsiC A (cli_of nd) + PS0 (n_srv nd) + hsw A (n_hs nd) + ovw (n_over nd).
Proof. rewrite PsiC_split. unfold NP, PC0, cli_of. cbn. lia. Qed.
Lemma NP_srv A nd :
  NP A nd = PC0 A (n_cli nd) + S1.PsiS A (srv_of nd) + hsw A (n_hs nd) + ovw (n_over nd).
Proof. rewrite PsiS_split. unfold NP, PS0, srv_of. ServerFuel.sproj. lia. Qed.

(* ---------------------------------------------------------------- digests *)
Lemma of_nat_len {X Y} (a : list X) (b : list Y) : length a = length b -> len a = len b.
Proof. unfold len. intros ->. reflexivity. Qed.

Lemma dig_cli nd c1 hs :
  C2.DigD c1 = C2.DigD (cli_of nd) ->
  digest_node (mknode c1 (Client.tr c1) (n_srv nd) hs (n_over nd)) = digest_node nd.
Proof.
  unfold C2.DigD, cli_of, ldig. cbn. intros [= E1 E2 E3 E4 E5 E6 E7 E8 E9 E10 E11 E12 E13 E14].
  unfold digest_node. cbn [n_cli n_srv n_link n_over].
  rewrite (of_nat_len _ _ E1), (of_nat_len _ _ E2), (of_nat_len _ _ E3), (of_nat_len _ _ E4),
    (of_nat_len _ _ E5), (of_nat_len _ _ E11), (of_nat_len _ _ E12), E6, E9, E13, E14.
  unfold C2.pcodes in E10. rewrite E10.
  replace (match Client.terminal c1 with None => 0%N | Some _ => 1%N end)
    with (match Client.terminal (n_cli nd) with None => 0%N | Some _ => 1%N end)
    by (destruct (Client.terminal c1), (Client.terminal (n_cli nd)); cbn in E7; congruence).
  replace (match Client.finished c1 with None => 0%N | Some _ => 1%N end)
    with (match Client.finished (n_cli nd) with None => 0%N | Some _ => 1%N end)
    by (destruct (Client.finished c1), (Client.finished (n_cli nd)); cbn in E8; congruence).
  reflexivity.
Qed.

Lemma dig_srv nd s1 hs :
  S1.SameS (srv_of nd) s1 ->
  digest_node (mknode (n_cli nd) (Server.s_t s1) s1 hs (n_over nd)) = digest_node nd.
Proof.
  intros []. unfold srv_of, ldig in *. revert ss_t. ServerFuel.sproj. intros [= T1 T2 T3 T4].
  unfold digest_node. cbn [n_cli n_srv n_link n_over].
  unfold S1.codes in ss_codes. cbn in ss_codes.
  rewrite (of_nat_len _ _ ss_inflight), (of_nat_len _ _ ss_timers), (of_nat_len _ _ ss_cancels),
    (of_nat_len _ _ ss_aborted), (of_nat_len _ _ ss_respq), (of_nat_len _ _ ss_waiters),
    (of_nat_len _ _ T1), (of_nat_len _ _ T2), T3, T4, ss_permits, ss_fused, ss_dropped, ss_codes.
  reflexivity.
Qed.

Lemma dig_frame nd hs : digest_node (mknode (n_cli nd) (n_link nd) (n_srv nd) hs (n_over nd)) = digest_node nd.
Proof. reflexivity. Qed.

(* ---------------------------------------------------------------- one step of a node *)
Lemma cstep_node A nd o nd1 l :
  cstep nd o = (nd1, l) ->
  exists c1, Client.step ctp cfuel (cli_of nd) o = (c1, l) /\
    NP A nd1 + C2.PsiC A (cli_of nd) = NP A nd + C2.PsiC A c1 /\
    (C2.DigD c1 = C2.DigD (cli_of nd) -> digest_node nd1 = digest_node nd) /\
    nd1 = mknode c1 (Client.tr c1) (n_srv nd) (n_hs nd) (n_over nd).
Proof.
  unfold cstep. fold (cli_of nd). destruct (Client.step ctp cfuel (cli_of nd) o) as [c1 l1] eqn:ES.
  intros [= <- <-]. exists c1. split; [reflexivity|]. split; [|split; [apply dig_cli|reflexivity]].
  rewrite (NP_cli A nd). rewrite (NP_cli A (mknode _ _ _ _ _)). cbn [n_srv n_hs n_over].
  assert (E : C2.PsiC A (cli_of (mknode c1 (Client.tr c1) (n_srv nd) (n_hs nd) (n_over nd))) = C2.PsiC A c1) by reflexivity.
  rewrite E. lia.
Qed.

Lemma sstep_node A nd o nd1 l :
  sstep nd o = (nd1, l) ->
  exists s1, Server.step stp (fun t (_ : unit) => t) sfuel scfg (srv_of nd) o = (s1, l) /\
    NP A nd1 + S1.PsiS A (srv_of nd) = NP A nd + S1.PsiS A s1 /\
    (S1.SameS (srv_of nd) s1 -> digest_node nd1 = digest_node nd) /\
    nd1 = mknode (n_cli nd) (Server.s_t s1) s1 (n_hs nd) (n_over nd).
Proof.
  unfold sstep. fold (srv_of nd).
  destruct (Server.step stp (fun t (_ : unit) => t) sfuel scfg (srv_of nd) o) as [s1 l1] eqn:ES.
  intros [= <- <-]. exists s1. split; [reflexivity|]. split; [|split; [apply dig_srv|reflexivity]].
  rewrite (NP_srv A nd). rewrite (NP_srv A (mknode _ _ _ _ _)). cbn [n_cli n_hs n_over].
  assert (E : S1.PsiS A (srv_of (mknode (n_cli nd) (Server.s_t s1) s1 (n_hs nd) (n_over nd))) = S1.PsiS A s1).
  { unfold S1.PsiS, srv_of. ServerFuel.sproj. reflexivity. }
  rewrite E. lia.
Qed.

(* ---------------------------------------------------------------- the chain potential *)
Fixpoint Phi (ch : chain) : nat :=
  match ch with [] => 0 | nd :: r => NP (22 * length r) nd + Phi r end.
Definition Aof (ch : chain) (i : nat) : nat := 22 * (length ch - S i).

Lemma Phi_set_node ch : forall i nd nd1,
  nth_error ch i = Some nd ->
  Phi (set_node i nd1 ch) + NP (Aof ch i) nd = Phi ch + NP (Aof ch i) nd1.
Proof.
  induction ch as [|x r IH]; intros [|i] nd nd1 H; cbn [nth_error] in H; try discriminate.
  - injection H as ->. unfold Aof. change (set_node 0 nd1 (nd :: r)) with (nd1 :: r). cbn [Phi length]. rewrite Nat.sub_succ, Nat.sub_0_r. lia.
  - specialize (IH i nd nd1 H). unfold Aof in *. change (set_node (S i) nd1 (x :: r)) with (x :: set_node i nd1 r). cbn [Phi length]. rewrite length_set_node.
    rewrite Nat.sub_succ. lia.
Qed.
Lemma digest_set_node ch : forall i nd nd1,
  nth_error ch i = Some nd -> digest_node nd1 = digest_node nd -> digest (set_node i nd1 ch) = digest ch.
Proof.
  induction ch as [|x r IH]; intros [|i] nd nd1 H E; cbn [nth_error] in H; try discriminate; unfold digest in *.
  - injection H as ->. change (set_node 0 nd1 (nd :: r)) with (nd1 :: r). cbn [map]. rewrite E. reflexivity.
  - change (set_node (S i) nd1 (x :: r)) with (x :: set_node i nd1 r). cbn [map]. rewrite (IH i nd nd1 H E). reflexivity.
Qed.
Lemma Aof_succ ch i nx : nth_error ch (S i) = Some nx -> Aof ch i = Aof ch (S i) + 22.
Proof. intro H. apply nth_error_lt in H. unfold Aof. lia. Qed.
Lemma Aof_last ch i : nth_error ch (S i) = None -> i < length ch -> Aof ch i = 0.
Proof. intros H L. apply nth_error_None in H. unfold Aof. lia. Qed.
Lemma Aof_set_node ch i j nd : Aof (set_node j nd ch) i = Aof ch i.
Proof. unfold Aof. rewrite length_set_node. reflexivity. Qed.

(* ---------------------------------------------------------------- events *)
Definition okev (e : cobs) : bool :=
  negb (is_event e) || match e with KOracle _ => true | _ => false end.

Definition RC (ch ch' : chain) (l : list cobs) : Prop :=
  Phi ch' <= Phi ch /\ (Phi ch' = Phi ch -> digest ch' = digest ch /\ forallb okev l = true).

Lemma RC_refl ch : RC ch ch [].
Proof. split; [lia|intros _; split; reflexivity]. Qed.
Lemma RC_trans a b c l1 l2 : RC a b l1 -> RC b c l2 -> RC a c (l1 ++ l2).
Proof.
  intros [L1 H1] [L2 H2]. split; [lia|]. intro E.
  destruct H1 as [D1 O1]; [lia|]. destruct H2 as [D2 O2]; [lia|].
  split; [congruence|]. rewrite forallb_app, O1, O2. reflexivity.
Qed.
Lemma RC_node ch i nd nd1 l :
  nth_error ch i = Some nd ->
  NP (Aof ch i) nd1 <= NP (Aof ch i) nd ->
  (NP (Aof ch i) nd1 = NP (Aof ch i) nd -> digest_node nd1 = digest_node nd /\ forallb okev l = true) ->
  RC ch (set_node i nd1 ch) l.
Proof.
  intros H L E. pose proof (Phi_set_node ch i nd nd1 H) as P. split; [lia|]. intro Q.
  destruct E as [D O]; [lia|]. split; [eapply digest_set_node; eassumption|exact O].
Qed.

Lemma forallb_flat_map {X Y} (p : Y -> bool) (g : X -> list Y) l :
  (forall x, In x l -> forallb p (g x) = true) -> forallb p (flat_map g l) = true.
Proof.
  induction l as [|x r IH]; intro H; cbn [flat_map]; [reflexivity|].
  rewrite forallb_app, (H x (or_introl eq_refl)), IH; [reflexivity|]. intros y Hy. apply H. right; exact Hy.
Qed.

Lemma okev_gauges i (s : sstate) : forallb okev (flat_map (tr_sobs i) (Server.gauges s)) = true.
Proof. unfold Server.gauges. destruct (Server.s_dropped s); [reflexivity|]. destruct (Server.s_bad s); reflexivity. Qed.

(* ---------------------------------------------------------------- the head caller's poll *)
Lemma rc_poll_head j ch ch' l : poll_head j ch = (ch', l) -> RC ch ch' l.
Proof.
  unfold poll_head. destruct (nth_error ch 0) as [nd|] eqn:E; [|intros [= <- <-]; apply RC_refl].
  destruct (cstep nd (Client.PollCall j)) as [nd1 l1] eqn:ES. intros [= <- <-].
  destruct (cstep_node (Aof ch 0) _ _ _ _ ES) as (c1 & EC & P & D & _).
  destruct (C2.step_poll_call (Aof ch 0) _ _ _ _ _ EC) as ([L H] & Q).
  eapply RC_node; [exact E|lia|]. intro X. assert (X' : C2.PsiC (Aof ch 0) c1 = C2.PsiC (Aof ch 0) (cli_of nd)) by lia.
  split; [apply D, H, X'|]. apply forallb_flat_map. intros o Ho.
  destruct o as [| |r| | |]; try reflexivity. destruct r as [|o|]; try reflexivity.
  exfalso. exact (Q X' o Ho).
Qed.

(* ---------------------------------------------------------------- the dispatch's poll *)
Lemma rc_poll_dispatch i ch ch' l : Chain.poll_dispatch i ch = (ch', l) -> RC ch ch' l.
Proof.
  unfold Chain.poll_dispatch. destruct (nth_error ch i) as [nd|] eqn:E; [|intros [= <- <-]; apply RC_refl].
  destruct (cstep nd Client.PollDispatch) as [nd1 l1] eqn:ES. intros [= <- <-].
  pose proof (ChainFuel.cstep_dispatch_nofuel _ _ _ ES) as NF.
  destruct (cstep_node (Aof ch i) _ _ _ _ ES) as (c1 & EC & P & D & _).
  destruct (C2.step_dispatch (Aof ch i) _ _ _ _ EC NF) as ([L H] & Q).
  eapply RC_node; [exact E|lia|]. intro X. assert (X' : C2.PsiC (Aof ch i) c1 = C2.PsiC (Aof ch i) (cli_of nd)) by lia.
  split; [apply D, H, X'|]. specialize (Q X' i).
  clear - Q. induction (flat_map (tr_cobs i) l1) as [|e r IH]; [reflexivity|].
  cbn [filter] in Q. cbn [forallb]. unfold okev at 1. destruct (is_event e); [discriminate|]. cbn. apply IH, Q.
Qed.

(* ---------------------------------------------------------------- the request stream's poll *)
Definition yielded_of (l : list Server.obs) : list hinfo :=
  flat_map (fun o => match o with
                     | Server.OYield _ _ dl tr body => [mkhi dl tr body None]
                     | _ => [] end) l.
Definition over_of (l : list Server.obs) : bool :=
  existsb (fun o => match o with
                    | Server.OStreamEnd | Server.OStreamErr _ => true
                    | _ => false end) l.
Lemma yielded_gauges (s : sstate) : yielded_of (Server.gauges s) = [].
Proof. unfold Server.gauges. destruct (Server.s_dropped s); [reflexivity|]. destruct (Server.s_bad s); reflexivity. Qed.
Lemma over_gauges (s : sstate) : over_of (Server.gauges s) = false.
Proof. unfold Server.gauges. destruct (Server.s_dropped s); [reflexivity|]. destruct (Server.s_bad s); reflexivity. Qed.

Lemma hsw_app A l x : hsw A (l ++ [x]) = hsw A l + (if isnone x then A else 0).
Proof. unfold hsw. rewrite filter_app, app_length. cbn [filter]. destruct (isnone x); cbn [length]; lia. Qed.

Lemma rc_poll_requests i ch ch' l : poll_requests i ch = (ch', l) -> RC ch ch' l.
Proof.
  unfold poll_requests. destruct (nth_error ch i) as [nd|] eqn:E; [|intros [= <- <-]; apply RC_refl].
  destruct (n_over nd) eqn:EO; [intros [= <- <-]; apply RC_refl|].
  destruct (Server.s_dropped (n_srv nd)) eqn:EDr; [intros [= <- <-]; apply RC_refl|]. cbn [orb].
  destruct (sstep nd Server.OPoll) as [nd1 l1] eqn:ES. intros [= <- <-].
  set (A := Aof ch i).
  destruct (sstep_node A _ _ _ _ ES) as (s1 & EC & P & D & EN).
  unfold Server.step in EC.
  destruct (Server.poll_requests stp sfuel scfg (srv_of nd)) as [s1' l0] eqn:EP. injection EC as -> <-.
  assert (Hd : Server.s_dropped (srv_of nd) = false) by exact EDr.
  destruct (S1.poll_requests_pot A _ _ _ Hd EP) as (log & res & -> & Hres & [L H] & Y).
  fold yielded_of. fold over_of. subst nd1. cbn [n_cli n_link n_srv n_hs n_over].
  unfold yielded_of, over_of. rewrite flat_map_app, existsb_app.
  fold (yielded_of (Server.gauges s1)). fold (over_of (Server.gauges s1)).
  rewrite yielded_gauges, over_gauges, app_nil_r, orb_false_r, EO. cbn [orb].
  set (nd1 := mknode (n_cli nd) (Server.s_t s1) s1 (n_hs nd) (n_over nd)) in *.
  eapply RC_node; [exact E| |]; fold A.
  - destruct res; try contradiction; cbn [flat_map existsb app orb]; rewrite ?app_nil_r;
      unfold NP in *; cbn [n_cli n_link n_srv n_hs n_over nd1 ovw] in *; rewrite ?hsw_app; cbn [isnone hi_call];
      rewrite EO in *; cbn [ovw] in *; lia.
  - destruct res; try contradiction; cbn [flat_map existsb app orb]; rewrite ?app_nil_r; intro X;
      try (exfalso; unfold NP in *; cbn [n_cli n_link n_srv n_hs n_over nd1 ovw] in *; rewrite ?hsw_app in X; cbn [isnone hi_call] in X;
           rewrite EO in *; cbn [ovw] in *; lia).
    assert (X' : S1.PsiS A s1 = S1.PsiS A (srv_of nd)).
    { unfold NP in *. cbn [n_cli n_link n_srv n_hs n_over nd1 ovw] in *. rewrite EO in *. cbn [ovw] in *. lia. }
    split.
    + rewrite <- (D (H X')). unfold nd1. rewrite EO. reflexivity.
    + cbn [forallb tr_sobs app]. cbn [okev is_event negb orb andb]. apply okev_gauges.
Qed.

(* ---------------------------------------------------------------- the execute() future's poll *)
Lemma okev_hquiet i l : forallb S1.hquiet l = true -> forallb okev (flat_map (tr_sobs i) l) = true.
Proof.
  intro H. apply forallb_flat_map. intros o Ho. rewrite forallb_forall in H. specialize (H o Ho).
  destruct o; try discriminate; reflexivity.
Qed.

Lemma sstep_exec A i nd k st nd1 l :
  sstep nd (Server.OHandlerPoll k st) = (nd1, l) ->
  NP A nd1 <= NP A nd /\
  (NP A nd1 = NP A nd -> digest_node nd1 = digest_node nd /\ forallb okev (flat_map (tr_sobs i) l) = true) /\
  (forall hr, nth_error (Server.s_handlers (n_srv nd)) k = Some hr -> Server.h_st hr = Server.HYielded ->
              NP A nd1 < NP A nd) /\
  n_cli nd1 = n_cli nd /\ n_hs nd1 = n_hs nd /\ n_over nd1 = n_over nd.
Proof.
  intro ES. destruct (sstep_node A _ _ _ _ ES) as (s1 & EC & P & D & EN).
  unfold Server.step in EC.
  destruct (Server.execute_poll k st (srv_of nd)) as [s1' l0] eqn:EP. injection EC as -> <-.
  destruct (S1.exec_pot A _ _ _ _ _ EP) as ([L H] & Q & Y).
  split; [lia|]. split; [|split].
  - intro X. assert (X' : S1.PsiS A s1 = S1.PsiS A (srv_of nd)) by lia. split; [apply D, H, X'|].
    rewrite flat_map_app, forallb_app, (okev_hquiet i _ (Q X')), okev_gauges. reflexivity.
  - intros hr Hk Hy. assert (S1.PsiS A s1 < S1.PsiS A (srv_of nd)); [|lia].
    apply (Y hr); [|exact Hy]. unfold srv_of. ServerFuel.sproj. exact Hk.
  - subst nd1. repeat split.
Qed.

Lemma filter_set_nth k (h h' : hinfo) l :
  nth_error l k = Some h -> isnone h = true -> isnone h' = false ->
  length (filter isnone (Client.set_nth k h' l)) + 1 = length (filter isnone l).
Proof.
  revert k; induction l as [|x r IH]; intros [|k] H N N'; cbn [nth_error] in H; try discriminate.
  - injection H as ->. cbn [Client.set_nth filter]. rewrite N, N'. cbn [length]. lia.
  - specialize (IH k H N N'). cbn [Client.set_nth filter]. destruct (isnone x); cbn [length]; lia.
Qed.
Lemma hsw_set_hcall A k j l h :
  nth_error l k = Some h -> hi_call h = None -> hsw A (set_hcall k j l) + A = hsw A l.
Proof.
  intros H N. unfold set_hcall, hsw. rewrite H.
  pose proof (filter_set_nth k h (mkhi (hi_dl h) (hi_tr h) (hi_body h) (Some j)) l H) as F.
  unfold isnone at 1 2 in F. rewrite N in F. cbn [hi_call] in F. specialize (F eq_refl eq_refl).
  rewrite <- F. lia.
Qed.

Lemma cstep_RD A nd o nd1 l :
  cstep nd o = (nd1, l) ->
  (forall c1, Client.step ctp cfuel (cli_of nd) o = (c1, l) -> C2.RD A (cli_of nd) c1) ->
  NP A nd1 <= NP A nd /\ (NP A nd1 = NP A nd -> digest_node nd1 = digest_node nd).
Proof.
  intros ES K. destruct (cstep_node A _ _ _ _ ES) as (c1 & EC & P & D & _).
  destruct (K c1 EC) as [L H]. split; [lia|]. intro X. apply D, H. lia.
Qed.

Lemma NP_mk_call A nx dl tr body :
  NP A (mknode (mk_call (n_cli nx) dl tr body) (n_link nx) (n_srv nx) (n_hs nx) (n_over nx)) = NP A nx + A + 22.
Proof.
  unfold NP, PC0, mk_call. cbn. rewrite C2.CW_app. cbn. lia.
Qed.

Lemma inner_poll_pot A A' k nd nx nd1 nx1 st :
  A = A' + 22 -> inner_poll k nd nx = (nd1, nx1, st) ->
  NP A nd1 + NP A' nx1 <= NP A nd + NP A' nx /\
  (NP A nd1 + NP A' nx1 = NP A nd + NP A' nx -> digest_node nx1 = digest_node nx) /\
  NP A nd1 <= NP A nd /\
  digest_node nd1 = digest_node nd /\ n_srv nd1 = n_srv nd /\ n_link nd1 = n_link nd.
Proof.
  intros EA. unfold inner_poll. destruct (nth_error (n_hs nd) k) as [h|] eqn:Eh;
    [|intros [= <- <- _]; repeat split; lia].
  destruct (hi_call h) as [j|] eqn:Ec.
  - destruct (cstep nx (Client.PollCall j)) as [nx2 l] eqn:ES. intros [= <- <- _].
    destruct (cstep_RD A' _ _ _ _ ES) as [L H].
    { intros c1 EC. apply (C2.step_poll_call A' _ _ _ _ _ EC). }
    split; [lia|]. split; [intro X; apply H; lia|]. repeat split; lia.
  - set (j := length (Client.calls (n_cli nx))).
    set (nd' := mknode (n_cli nd) (n_link nd) (n_srv nd) (set_hcall k j (n_hs nd)) (n_over nd)).
    set (nx' := mknode (mk_call (n_cli nx) (hi_dl h) (hi_tr h) (hi_body h)) (n_link nx) (n_srv nx) (n_hs nx) (n_over nx)).
    destruct (cstep nx' (Client.PollCall j)) as [nx2 l] eqn:ES. intros [= <- <- _].
    assert (P1 : NP A nd' + A = NP A nd).
    { unfold NP, nd'. cbn [n_cli n_link n_srv n_hs n_over]. pose proof (hsw_set_hcall A k j _ _ Eh Ec). lia. }
    pose proof (NP_mk_call A' nx (hi_dl h) (hi_tr h) (hi_body h)) as P2. fold nx' in P2.
    destruct (cstep_node A' _ _ _ _ ES) as (c1 & EC & P & _ & _).
    cbn [Client.step] in EC. destruct (Client.poll_call (cli_of nx') j) as [r c1'] eqn:EPc. injection EC as -> _.
    assert (P3 : C2.PsiC A' c1 < C2.PsiC A' (cli_of nx')).
    { destruct (C2.mk_call_new (cli_of nx) (hi_dl h) (hi_tr h) (hi_body h)) as (c & Nc & Pc).
      eapply C2.poll_call_new; [|exact Pc|exact EPc]. exact Nc. }
    split; [lia|]. split; [intro X; exfalso; lia|]. split; [lia|]. repeat split.
Qed.

Lemma rc_poll_handler i k leaf ch ch' l : poll_handler i k leaf ch = (ch', l) -> RC ch ch' l.
Proof.
  unfold poll_handler. destruct (nth_error ch i) as [nd|] eqn:E; [|intros [= <- <-]; apply RC_refl].
  destruct (nth_error (Server.s_handlers (n_srv nd)) k) as [hr|] eqn:Ek; [|intros [= <- <-]; apply RC_refl].
  set (A := Aof ch i).
  (* a plain poll of the execute future on node i *)
  assert (Plain : forall st nd1 l1, sstep nd (Server.OHandlerPoll k st) = (nd1, l1) ->
                    RC ch (set_node i nd1 ch) (flat_map (tr_sobs i) l1) /\
                    (Server.h_st hr = Server.HYielded -> Phi (set_node i nd1 ch) < Phi ch)).
  { intros st nd1 l1 ES. destruct (sstep_exec A i _ _ _ _ _ ES) as (L & H & Y & _).
    split; [eapply RC_node; [exact E|exact L|exact H]|].
    intro Hy. pose proof (Phi_set_node ch i nd nd1 E) as P. specialize (Y hr Ek Hy). fold A in P. lia. }
  assert (First : forall ch2 l2, RC ch ch2 l2 -> (Server.h_st hr = Server.HYielded -> Phi ch2 < Phi ch) ->
                    RC ch ch2 (match Server.h_st hr with Server.HYielded => [KHStart i k] | _ => [] end ++ l2)).
  { intros ch2 l2 [L H] Y. destruct (Server.h_st hr) eqn:Est; try (split; [exact L|exact H]).
    specialize (Y eq_refl). split; [lia|intro; lia]. }
  assert (Run : (if is_aborted (n_srv nd) hr
     then
      let '(nd1, l0) := sstep nd (Server.OHandlerPoll k Server.SRun) in
      let ch1 := set_node i nd1 ch in
      let ch2 :=
        match option_map hi_call (nth_error (n_hs nd) k) with
        | Some (Some j) =>
            match nth_error ch1 (S i) with
            | Some nx => set_node (S i) (fst (cstep nx (Client.DropCall j))) ch1
            | None => ch1
            end
        | _ => ch1
        end in
      (ch2, flat_map (tr_sobs i) l0)
     else
      let first := match Server.h_st hr with
                   | Server.HYielded => [KHStart i k]
                   | _ => []
                   end in
      match nth_error ch (S i) with
      | Some nx =>
          let '(nd1, nx1, st) := inner_poll k nd nx in
          let '(nd2, l0) := sstep nd1 (Server.OHandlerPoll k st) in
          (set_node (S i) nx1 (set_node i nd2 ch), first ++ flat_map (tr_sobs i) l0)
      | None =>
          let '(nd1, l0) := sstep nd (Server.OHandlerPoll k leaf) in
          (set_node i nd1 ch, first ++ flat_map (tr_sobs i) l0)
      end) = (ch', l) -> RC ch ch' l).
  { destruct (is_aborted (n_srv nd) hr).
    - destruct (sstep nd (Server.OHandlerPoll k Server.SRun)) as [nd1 l0] eqn:ES. cbv zeta.
      destruct (Plain _ _ _ ES) as [R1 _]. set (ch1 := set_node i nd1 ch) in *.
      assert (R2 : forall j nx, nth_error ch1 (S i) = Some nx ->
                     RC ch1 (set_node (S i) (fst (cstep nx (Client.DropCall j))) ch1) []).
      { intros j nx En. destruct (cstep nx (Client.DropCall j)) as [nx1 lx] eqn:EX. cbn [fst].
        destruct (cstep_RD (Aof ch1 (S i)) _ _ _ _ EX) as [L H].
        { intros c1 EC. apply (C2.step_drop_call _ _ _ _ _ _ EC). }
        eapply RC_node; [exact En|exact L|]. intro X. split; [apply H, X|reflexivity]. }
      destruct (option_map hi_call (nth_error (n_hs nd) k)) as [[j|]|];
        try (intros [= <- <-]; rewrite <- (app_nil_r (flat_map _ _)); eapply RC_trans; [exact R1|apply RC_refl]).
      destruct (nth_error ch1 (S i)) as [nx|] eqn:En; intros [= <- <-]; rewrite <- (app_nil_r (flat_map _ _)).
      + eapply RC_trans; [exact R1|apply (R2 j nx eq_refl)].
      + eapply RC_trans; [exact R1|apply RC_refl].
    - destruct (nth_error ch (S i)) as [nx|] eqn:En.
      + destruct (inner_poll k nd nx) as [[nd1 nx1] st] eqn:EI.
        destruct (sstep nd1 (Server.OHandlerPoll k st)) as [nd2 l0] eqn:ES. intros [= <- <-].
        set (A' := Aof ch (S i)).
        assert (EA : A = A' + 22) by (apply (Aof_succ ch i nx En)).
        destruct (inner_poll_pot A A' _ _ _ _ _ _ EA EI) as (I1 & I2 & I3 & I4 & I5 & I6).
        destruct (sstep_exec A i _ _ _ _ _ ES) as (L & H & Y & _).
        pose proof (Phi_set_node ch i nd nd2 E) as P1. fold A in P1.
        assert (En' : nth_error (set_node i nd2 ch) (S i) = Some nx).
        { rewrite nth_set_node_other by lia. exact En. }
        pose proof (Phi_set_node (set_node i nd2 ch) (S i) nx nx1 En') as P2.
        rewrite Aof_set_node in P2. fold A' in P2.
        apply First.
        * split; [lia|]. intro X.
          assert (X1 : NP A nd2 = NP A nd1) by lia.
          assert (X2 : NP A nd1 + NP A' nx1 = NP A nd + NP A' nx) by lia.
          destruct (H X1) as [D2 O2]. split; [|exact O2].
          rewrite (digest_set_node _ (S i) nx nx1 En' (I2 X2)).
          apply (digest_set_node ch i nd nd2 E). congruence.
        * intro Hy. assert (NP A nd2 < NP A nd1); [|lia].
          apply (Y hr); [rewrite I5; exact Ek|exact Hy].
      + destruct (sstep nd (Server.OHandlerPoll k leaf)) as [nd1 l0] eqn:ES. intros [= <- <-].
        destruct (Plain _ _ _ ES) as [R1 Y1]. apply First; assumption. }
  destruct (Server.h_st hr) eqn:Est; try exact Run; try (intros [= <- <-]; apply RC_refl).
  - destruct (sstep nd (Server.OHandlerPoll k Server.SRun)) as [nd1 l0] eqn:ES. intros [= <- <-].
    apply (Plain _ _ _ ES).
  - destruct (sstep nd (Server.OHandlerPoll k Server.SRun)) as [nd1 l0] eqn:ES. intros [= <- <-].
    apply (Plain _ _ _ ES).
Qed.
