(* Model of the tarpc client: client.rs (Channel::call, ResponseGuard, RequestDispatch),
   client/in_flight_requests.rs and cancellations.rs, over an ARBITRARY transport.
   One Gallina function per Rust function, same order of effects.  No proofs in this file.

   Third-party behaviour that is modelled (never verified):
   - tokio bounded mpsc (request queue): capacity = permits; a released permit is assigned to
     the first waiter; close() fails all waiters; poll_recv = None iff (closed or no sender)
     and nothing queued and no permit outstanding;
   - tokio unbounded mpsc (cancel queue); tokio oneshot (one slot per request id);
   - tokio-util DelayQueue (ms granularity; an entry fires once the clock reaches its instant);
   - futures Fuse on the transport's stream half. *)
From Coq Require Import List Bool Arith NArith Lia.
Import ListNotations.
From TarpcV Require Import Base Transport.
Local Open Scope N_scope.

(* ------------------------------------------------------------------ data *)
Record tctx := { tc_tid : N; tc_sid : N; tc_sampled : bool }.
Inductive rbody := BOk (v : N) | BErr (kind : N).
Record resp := { r_id : N; r_body : rbody }.
Inductive cmsg := MReq (id deadline : N) (tc : tctx) (body : N) | MCancel (id : N) (tc : tctx).

Inductive outcome :=
| OReply (v : N) | OSrvErr (k : N) | ODeadline | OSendErr | OConnErr (a : activity) | OShutdown.

(* tokio oneshot, one per request id *)
Record slot := { sl_rx_closed : bool; sl_val : option outcome; sl_tx_gone : bool }.
Definition slot0 := {| sl_rx_closed := false; sl_val := None; sl_tx_gone := false |}.

Inductive phase :=
| PNew          (* future created, never polled *)
| PAcquiring    (* waiting for a permit of the request queue *)
| PAssigned     (* a permit was handed to this waiter; it has not been polled since *)
| PAcqClosed    (* was waiting when the queue was closed *)
| PAwaiting     (* request enqueued, awaiting the oneshot *)
| PClosing      (* guard drop in progress: receiver closed, cancel not yet queued *)
| PDone | PGone.

Record call := {
  c_handle : nat; c_phase : phase; c_id : N; c_rel : N (* deadline relative to creation, ms *);
  c_deadline : N (* absolute ms *); c_tc : tctx; c_body : N }.

Record qitem := { q_id : N; q_deadline : N; q_tc : tctx; q_body : N }.
Record ifentry := { if_deadline : N; if_tc : tctx }.

(* MAX_TIMEOUT of util.rs, in ms (365 days) *)
Definition max_timeout_ms : N := 31536000000.

Inductive dres := DOk | DErr (a : activity).

Section Client.
  Context {T : Type} (tp : transport T cmsg resp).

  Record cstate := {
    next_id : N;
    handles : list bool;                 (* alive flags, index = handle *)
    calls : list call;                   (* index = call *)
    q_cap : nat; permits : nat; queue : list qitem; waiters : list nat; rx_closed : bool;
    cancels : list N;
    inflight : list (N * ifentry);
    timers : list (N * N);               (* id, instant (ms) at which it fires *)
    slots : list (N * slot);
    max_if : nat;
    tr : T; fused : bool;
    terminal : option activity;
    finished : option dres;              (* the dispatch future has returned Ready *)
    dropped : bool;                      (* the dispatch future was dropped *)
    now : N;
    plog : list (tcall cmsg resp)        (* transport calls of the poll in progress *)
  }.

  Definition upd_calls s v := {| next_id := next_id s; handles := handles s; calls := v; q_cap := q_cap s; permits := permits s; queue := queue s; waiters := waiters s; rx_closed := rx_closed s; cancels := cancels s; inflight := inflight s; timers := timers s; slots := slots s; max_if := max_if s; tr := tr s; fused := fused s; terminal := terminal s; finished := finished s; dropped := dropped s; now := now s; plog := plog s |}.
  Definition upd_slots s v := {| next_id := next_id s; handles := handles s; calls := calls s; q_cap := q_cap s; permits := permits s; queue := queue s; waiters := waiters s; rx_closed := rx_closed s; cancels := cancels s; inflight := inflight s; timers := timers s; slots := v; max_if := max_if s; tr := tr s; fused := fused s; terminal := terminal s; finished := finished s; dropped := dropped s; now := now s; plog := plog s |}.
  Definition upd_cancels s v := {| next_id := next_id s; handles := handles s; calls := calls s; q_cap := q_cap s; permits := permits s; queue := queue s; waiters := waiters s; rx_closed := rx_closed s; cancels := v; inflight := inflight s; timers := timers s; slots := slots s; max_if := max_if s; tr := tr s; fused := fused s; terminal := terminal s; finished := finished s; dropped := dropped s; now := now s; plog := plog s |}.
  Definition upd_if s i t := {| next_id := next_id s; handles := handles s; calls := calls s; q_cap := q_cap s; permits := permits s; queue := queue s; waiters := waiters s; rx_closed := rx_closed s; cancels := cancels s; inflight := i; timers := t; slots := slots s; max_if := max_if s; tr := tr s; fused := fused s; terminal := terminal s; finished := finished s; dropped := dropped s; now := now s; plog := plog s |}.
  Definition upd_q s p q w c := {| next_id := next_id s; handles := handles s; calls := calls s; q_cap := q_cap s; permits := p; queue := q; waiters := w; rx_closed := c; cancels := cancels s; inflight := inflight s; timers := timers s; slots := slots s; max_if := max_if s; tr := tr s; fused := fused s; terminal := terminal s; finished := finished s; dropped := dropped s; now := now s; plog := plog s |}.
  Definition upd_tr s t f l := {| next_id := next_id s; handles := handles s; calls := calls s; q_cap := q_cap s; permits := permits s; queue := queue s; waiters := waiters s; rx_closed := rx_closed s; cancels := cancels s; inflight := inflight s; timers := timers s; slots := slots s; max_if := max_if s; tr := t; fused := f; terminal := terminal s; finished := finished s; dropped := dropped s; now := now s; plog := l |}.
  Definition upd_term s t := {| next_id := next_id s; handles := handles s; calls := calls s; q_cap := q_cap s; permits := permits s; queue := queue s; waiters := waiters s; rx_closed := rx_closed s; cancels := cancels s; inflight := inflight s; timers := timers s; slots := slots s; max_if := max_if s; tr := tr s; fused := fused s; terminal := t; finished := finished s; dropped := dropped s; now := now s; plog := plog s |}.
  Definition upd_fin s f d := {| next_id := next_id s; handles := handles s; calls := calls s; q_cap := q_cap s; permits := permits s; queue := queue s; waiters := waiters s; rx_closed := rx_closed s; cancels := cancels s; inflight := inflight s; timers := timers s; slots := slots s; max_if := max_if s; tr := tr s; fused := fused s; terminal := terminal s; finished := f; dropped := d; now := now s; plog := plog s |}.
  Definition upd_misc s nid h n := {| next_id := nid; handles := h; calls := calls s; q_cap := q_cap s; permits := permits s; queue := queue s; waiters := waiters s; rx_closed := rx_closed s; cancels := cancels s; inflight := inflight s; timers := timers s; slots := slots s; max_if := max_if s; tr := tr s; fused := fused s; terminal := terminal s; finished := finished s; dropped := dropped s; now := n; plog := plog s |}.

  (* ------------------------------------------------------------------ association lists on N *)
  Fixpoint alookup {A} (k : N) (m : list (N * A)) : option A :=
    match m with [] => None | (k', v) :: r => if N.eqb k k' then Some v else alookup k r end.
  Fixpoint aremove {A} (k : N) (m : list (N * A)) : list (N * A) :=
    match m with
    | [] => []
    | (k', v) :: r => if N.eqb k k' then aremove k r else (k', v) :: aremove k r
    end.
  Definition aset {A} (k : N) (v : A) (m : list (N * A)) := (k, v) :: aremove k m.

  Definition get_slot s id := match alookup id (slots s) with Some x => x | None => slot0 end.
  Definition set_slot s id x := upd_slots s (aset id x (slots s)).

  (* oneshot::Sender::send: the value is stored unless the receiver is closed *)
  Definition slot_send s id (o : outcome) :=
    let x := get_slot s id in
    if sl_rx_closed x then set_slot s id {| sl_rx_closed := true; sl_val := sl_val x; sl_tx_gone := true |}
    else set_slot s id {| sl_rx_closed := false; sl_val := Some o; sl_tx_gone := true |}.
  Definition slot_tx_drop s id :=
    let x := get_slot s id in
    set_slot s id {| sl_rx_closed := sl_rx_closed x; sl_val := sl_val x; sl_tx_gone := true |}.
  Definition slot_rx_close s id :=
    let x := get_slot s id in
    set_slot s id {| sl_rx_closed := true; sl_val := sl_val x; sl_tx_gone := sl_tx_gone x |}.

  Fixpoint set_nth {A} (n : nat) (x : A) (l : list A) : list A :=
    match l, n with
    | [], _ => []
    | _ :: r, O => x :: r
    | y :: r, S n' => y :: set_nth n' x r
    end.

  Definition set_phase s i p :=
    match nth_error (calls s) i with
    | Some c => upd_calls s (set_nth i {| c_handle := c_handle c; c_phase := p; c_id := c_id c; c_rel := c_rel c; c_deadline := c_deadline c; c_tc := c_tc c; c_body := c_body c |} (calls s))
    | None => s
    end.

  Definition live_phase (p : phase) : bool :=
    match p with PDone | PGone => false | _ => true end.
  (* senders of both queues: live handles + live call futures (each future owns a clone) *)
  Definition senders s : nat :=
    length (filter (fun b => b) (handles s)) + length (filter (fun c => live_phase (c_phase c)) (calls s)).

  (* ------------------------------------------------------------------ transport wrappers *)
  Definition do_ready s : tres * cstate :=
    let '(r, t) := t_ready tp (tr s) in (r, upd_tr s t (fused s) (plog s ++ [CReady r])).
  Definition do_send s m : sres * cstate :=
    let '(r, t) := t_send tp (tr s) m in (r, upd_tr s t (fused s) (plog s ++ [CSend m r])).
  Definition do_flush s : tres * cstate :=
    let '(r, t) := t_flush tp (tr s) in (r, upd_tr s t (fused s) (plog s ++ [CFlush r])).
  Definition do_close s : tres * cstate :=
    let '(r, t) := t_close tp (tr s) in (r, upd_tr s t (fused s) (plog s ++ [CClose r])).
  (* Fuse: after the stream ended it is never polled again *)
  Definition do_next s : rres resp * cstate :=
    if fused s then (REof, s) else
    let '(r, t) := t_next tp (tr s) in
    (r, upd_tr s t (match r with REof => true | _ => false end) (plog s ++ [CNext r])).

  (* ------------------------------------------------------------------ request queue (tokio mpsc) *)
  (* a permit is released: it goes to the first waiter, else back to the semaphore *)
  Definition release_permit s :=
    match waiters s with
    | w :: r => set_phase (upd_q s (permits s) (queue s) r (rx_closed s)) w PAssigned
    | [] => upd_q s (S (permits s)) (queue s) [] (rx_closed s)
    end.

  Definition assigned_count s : nat :=
    length (filter (fun c => match c_phase c with PAssigned => true | _ => false end) (calls s)).

  Inductive recv (A : Type) := RvSome (x : A) | RvNone | RvPending.
  Arguments RvSome {A}. Arguments RvNone {A}. Arguments RvPending {A}.

  Definition q_poll_recv s : recv qitem * cstate :=
    match queue s with
    | x :: r => (RvSome x, release_permit (upd_q s (permits s) r (waiters s) (rx_closed s)))
    | [] =>
      if Nat.eqb (senders s) 0 then (RvNone, s)
      else if rx_closed s && Nat.eqb (assigned_count s) 0 then (RvNone, s)
      else (RvPending, s)
    end.

  (* Receiver::close: waiters fail; already assigned permits stay outstanding *)
  Definition q_close s :=
    if rx_closed s then s else
    let s1 := fold_left (fun acc w => set_phase acc w PAcqClosed) (waiters s) s in
    upd_q s1 (permits s1) (queue s1) [] true.

  Definition c_poll_recv s : recv N * cstate :=
    match cancels s with
    | x :: r => (RvSome x, upd_cancels s r)
    | [] => if Nat.eqb (senders s) 0 then (RvNone, s) else (RvPending, s)
    end.

  (* ------------------------------------------------------------------ InFlightRequests *)
  Definition timer_instant (s : cstate) (deadline : N) : N :=
    now s + N.min (deadline - now s) max_timeout_ms.

  Definition insert_request s (q : qitem) :=
    upd_if s (aset (q_id q) {| if_deadline := q_deadline q; if_tc := q_tc q |} (inflight s))
             (aset (q_id q) (timer_instant s (q_deadline q)) (timers s)).

  Definition complete_request s id (o : outcome) : bool * cstate :=
    match alookup id (inflight s) with
    | Some _ => (true, slot_send (upd_if s (aremove id (inflight s)) (aremove id (timers s))) id o)
    | None => (false, s)
    end.

  Definition cancel_request s id : option ifentry * cstate :=
    match alookup id (inflight s) with
    | Some e => (Some e, upd_if s (aremove id (inflight s)) (aremove id (timers s)))
    | None => (None, s)
    end.

  Definition complete_all s (o : outcome) :=
    fold_left (fun acc p => slot_send acc (fst p) o) (inflight s) (upd_if s [] []).

  (* earliest expired timer (ties: the queue's internal order; the canonical order is by
     instant, then by id) *)
  Fixpoint min_timer (l : list (N * N)) (best : option (N * N)) : option (N * N) :=
    match l with
    | [] => best
    | (id, w) :: r =>
      match best with
      | None => min_timer r (Some (id, w))
      | Some (bid, bw) =>
        if (w <? bw) || ((w =? bw) && (id <? bid)) then min_timer r (Some (id, w))
        else min_timer r best
      end
    end.

  (* poll_expired: Ready(Some id) for one expired entry *)
  Definition poll_expired s : option N * cstate :=
    match min_timer (timers s) None with
    | Some (id, w) =>
      if w <=? now s then
        let s1 := upd_if s (inflight s) (aremove id (timers s)) in
        match alookup id (inflight s1) with
        | Some _ => (Some id, slot_send (upd_if s1 (aremove id (inflight s1)) (timers s1)) id ODeadline)
        | None => (Some id, s1)
        end
      else (None, s)
    | None => (None, s)
    end.

  (* ------------------------------------------------------------------ RequestDispatch *)
  (* Poll<Option<Result<X, activity>>> *)
  Inductive pres (A : Type) := PSome (x : A) | PNone | PPend | PErr (a : activity).
  Arguments PSome {A}. Arguments PNone {A}. Arguments PPend {A}. Arguments PErr {A}.

  (* ensure_writeable (repaired): ready? else flush once and ask once more *)
  Definition ensure_writeable s : pres unit * cstate :=
    let '(r, s1) := do_ready s in
    match r with
    | TOk => (PSome tt, s1)
    | TErr => (PErr AReady, s1)
    | TPending =>
      let '(f, s2) := do_flush s1 in
      match f with
      | TErr => (PErr AFlush, s2)
      | TPending => (PPend, s2)
      | TOk =>
        let '(r2, s3) := do_ready s2 in
        match r2 with
        | TOk => (PSome tt, s3)
        | TErr => (PErr AReady, s3)
        | TPending => (PPend, s3)
        end
      end
    end.

  (* the dequeue loop of poll_next_request: requests whose receiver is closed are skipped *)
  Fixpoint next_request_loop (fuel : nat) s : pres qitem * cstate :=
    match fuel with
    | O => (PPend, s)
    | S f =>
      let '(r, s1) := q_poll_recv s in
      match r with
      | RvSome q =>
        if sl_rx_closed (get_slot s1 (q_id q)) then next_request_loop f (slot_tx_drop s1 (q_id q))
        else (PSome q, s1)
      | RvNone => (PNone, s1)
      | RvPending => (PPend, s1)
      end
    end.

  Definition poll_next_request s : pres qitem * cstate :=
    if (max_if s <=? length (inflight s))%nat then (PPend, s)
    else
      let '(w, s1) := ensure_writeable s in
      match w with
      | PSome _ => next_request_loop (S (length (queue s1))) s1
      | PNone => (PNone, s1)
      | PPend => (PPend, s1)
      | PErr a => (PErr a, s1)
      end.

  Definition poll_write_request s : pres unit * cstate :=
    let '(r, s1) := poll_next_request s in
    match r with
    | PSome q =>
      let s2 := insert_request s1 q in
      let '(w, s3) := do_send s2 (MReq (q_id q) (q_deadline q) (q_tc q) (q_body q)) in
      match w with
      | SOk => (PSome tt, s3)
      | SErr => (PSome tt, snd (complete_request s3 (q_id q) OSendErr))
      end
    | PNone => (PNone, s1)
    | PPend => (PPend, s1)
    | PErr a => (PErr a, s1)
    end.

  Fixpoint next_cancel_loop (fuel : nat) s : pres (N * ifentry) * cstate :=
    match fuel with
    | O => (PPend, s)
    | S f =>
      let '(r, s1) := c_poll_recv s in
      match r with
      | RvSome id =>
        let '(e, s2) := cancel_request s1 id in
        match e with
        | Some e => (PSome (id, e), s2)
        | None => next_cancel_loop f s2
        end
      | RvNone => (PNone, s1)
      | RvPending => (PPend, s1)
      end
    end.

  Definition poll_next_cancellation s : pres (N * ifentry) * cstate :=
    let '(w, s1) := ensure_writeable s in
    match w with
    | PSome _ => next_cancel_loop (S (length (cancels s1))) s1
    | PNone => (PNone, s1)
    | PPend => (PPend, s1)
    | PErr a => (PErr a, s1)
    end.

  Definition poll_write_cancel s : pres unit * cstate :=
    let '(r, s1) := poll_next_cancellation s in
    match r with
    | PSome (id, e) =>
      let '(w, s2) := do_send s1 (MCancel id (if_tc e)) in
      match w with
      | SOk => (PSome tt, s2)
      | SErr => (PErr AWrite, s2)
      end
    | PNone => (PNone, s1)
    | PPend => (PPend, s1)
    | PErr a => (PErr a, s1)
    end.

  Definition complete s (r : resp) : cstate :=
    snd (complete_request s (r_id r)
           (match r_body r with BOk v => OReply v | BErr k => OSrvErr k end)).

  Definition pump_read s : pres unit * cstate :=
    let '(r, s1) := do_next s in
    match r with
    | RItem x => (PSome tt, complete s1 x)
    | RErr => (PErr ARead, s1)
    | REof => (PNone, s1)
    | RPending => (PPend, s1)
    end.

  Definition pump_write s : pres unit * cstate :=
    let '(r1, s1) := poll_write_request s in
    match r1 with
    | PErr a => (PErr a, s1)
    | PSome _ => (PSome tt, s1)
    | _ =>
      let '(r2, s2) := poll_write_cancel s1 in
      match r2 with
      | PErr a => (PErr a, s2)
      | PSome _ => (PSome tt, s2)
      | _ =>
        let '(e, s3) := poll_expired s2 in
        match e with
        | Some _ => (PSome tt, s3)
        | None =>
          match r1, r2 with
          | PNone, PNone =>
            let '(c, s4) := do_close s3 in
            match c with
            | TOk => (PNone, s4)
            | TErr => (PErr AClose, s4)
            | TPending => (PPend, s4)
            end
          | _, _ =>
            let '(f, s4) := do_flush s3 in
            match f with
            | TErr => (PErr AFlush, s4)
            | _ => (PPend, s4)
            end
          end
        end
      end
    end.

  (* Poll<Result<(), activity>> of `run`, plus out-of-fuel *)
  Inductive rres_run := RunOk | RunErr (a : activity) | RunPending | RunFuel.

  Fixpoint run_loop (fuel : nat) s : rres_run * cstate :=
    match fuel with
    | O => (RunFuel, s)
    | S f =>
      let '(rd, s1) := pump_read s in
      match rd with
      | PErr a => (RunErr a, s1)
      | _ =>
        let '(wr, s2) := pump_write s1 in
        match wr with
        | PErr a => (RunErr a, s2)
        | _ =>
          match rd, wr with
          | PNone, _ => (RunOk, s2)
          | _, PNone =>
            if Nat.eqb (length (inflight s2)) 0 then (RunOk, s2)
            else match rd with PSome _ => run_loop f s2 | _ => (RunPending, s2) end
          | PSome _, _ | _, PSome _ => run_loop f s2
          | _, _ => (RunPending, s2)
          end
        end
      end
    end.

  (* shut_down_with_terminal_error: true = Ready(()) *)
  Fixpoint drain_loop (fuel : nat) (a : activity) s : bool * cstate :=
    match fuel with
    | O => (false, s)
    | S f =>
      let '(r, s1) := q_poll_recv s in
      match r with
      | RvSome q => drain_loop f a (slot_send s1 (q_id q) (OConnErr a))
      | RvNone => (true, s1)
      | RvPending => (false, s1)
      end
    end.

  Definition shut_down s (a : activity) : bool * cstate :=
    let s1 := q_close s in
    let s2 := complete_all s1 (OConnErr a) in
    drain_loop (S (length (queue s2))) a s2.

  Inductive dpoll := DReady (r : dres) | DPending | DFuel.

  (* <RequestDispatch as Future>::poll *)
  Definition poll_dispatch (fuel : nat) s : dpoll * cstate :=
    match terminal s with
    | Some a =>
      let '(b, s1) := shut_down s a in
      if b then (DReady (DErr a), s1) else (DPending, s1)
    | None =>
      let '(r, s1) := run_loop fuel s in
      match r with
      | RunOk => (DReady DOk, s1)
      | RunPending => (DPending, s1)
      | RunFuel => (DFuel, s1)
      | RunErr a =>
        let s2 := upd_term s1 (Some a) in
        let '(b, s3) := shut_down s2 a in
        if b then (DReady (DErr a), s3) else (DPending, s3)
      end
    end.

  (* dropping the dispatch: the request receiver closes and drops what is queued, the cancel
     receiver goes away, every in-flight oneshot sender is dropped *)
  Definition drop_dispatch s :=
    let s1 := q_close s in
    let s2 := fold_left (fun acc q => slot_tx_drop acc (q_id q)) (queue s1) s1 in
    let s3 := fold_left (fun acc p => slot_tx_drop acc (fst p)) (inflight s2) s2 in
    let s4 := upd_q s3 (permits s3 + length (queue s3))%nat [] [] true in
    upd_fin (upd_cancels (upd_if s4 [] []) []) (finished s4) true.

  (* ------------------------------------------------------------------ Channel::call *)
  Inductive cpoll := CPending | CDone (o : outcome) | CNothing.

  (* RequestCancellation::cancel: lost if the dispatch is gone *)
  Definition push_cancel s id := if dropped s then s else upd_cancels s (cancels s ++ [id]).

  (* a call that ends here (send failed): guard drop = close receiver, queue cancel *)
  Definition fail_shutdown s i id :=
    let s1 := slot_tx_drop s id in
    let s2 := slot_rx_close s1 id in
    let s3 := push_cancel s2 id in
    (CDone OShutdown, set_phase s3 i PDone).

  (* polling the oneshot receiver inside ResponseGuard::response *)
  Definition poll_slot s i id : cpoll * cstate :=
    let x := get_slot s id in
    match sl_val x with
    | Some o => (CDone o, set_phase (slot_rx_close s id) i PDone)
    | None =>
      if sl_tx_gone x then (CDone OShutdown, set_phase (slot_rx_close s id) i PDone)
      else (CPending, s)
    end.

  Definition enqueue s i (c : call) id tc : cpoll * cstate :=
    let q := {| q_id := id; q_deadline := c_deadline c; q_tc := tc; q_body := c_body c |} in
    let s1 := upd_q s (permits s) (queue s ++ [q]) (waiters s) (rx_closed s) in
    poll_slot (set_phase s1 i PAwaiting) i id.

  Definition with_id s i (c : call) id :=
    upd_calls s (set_nth i {| c_handle := c_handle c; c_phase := c_phase c; c_id := id; c_rel := c_rel c; c_deadline := c_deadline c; c_tc := c_tc c; c_body := c_body c |} (calls s)).

  Definition poll_call s (i : nat) : cpoll * cstate :=
    match nth_error (calls s) i with
    | None => (CNothing, s)
    | Some c =>
      match c_phase c with
      | PNew =>
        (* first poll: child trace context (span id drawn here, named after the request id),
           request id from the shared counter, oneshot, guard, then `send` *)
        let id := next_id s in
        let s0 := with_id (upd_misc s (N.modulo (id + 1) 18446744073709551616) (handles s) (now s)) i c id in
        let s1 := set_slot s0 id slot0 in
        let tc := {| tc_tid := tc_tid (c_tc c); tc_sid := id; tc_sampled := tc_sampled (c_tc c) |} in
        if rx_closed s1 then fail_shutdown s1 i id
        else match permits s1 with
             | S p => enqueue (upd_q s1 p (queue s1) (waiters s1) (rx_closed s1)) i c id tc
             | O => (CPending, set_phase (upd_q s1 O (queue s1) (waiters s1 ++ [i]) (rx_closed s1)) i PAcquiring)
             end
      | PAcquiring => (CPending, s)
      | PAssigned =>
        let id := c_id c in
        let tc := {| tc_tid := tc_tid (c_tc c); tc_sid := id; tc_sampled := tc_sampled (c_tc c) |} in
        if rx_closed s then
          (* Acquire sees the closed semaphore; its drop returns the permit *)
          fail_shutdown (upd_q s (S (permits s)) (queue s) (waiters s) (rx_closed s)) i id
        else enqueue s i c id tc
      | PAcqClosed => fail_shutdown s i (c_id c)
      | PAwaiting => poll_slot s i (c_id c)
      | _ => (CNothing, s)
      end
    end.

  Definition remove_waiter (i : nat) (l : list nat) := filter (fun w => negb (Nat.eqb w i)) l.

  (* first half of dropping a call future: up to and including `self.response.close()` *)
  Definition guard_close s (i : nat) : cstate :=
    match nth_error (calls s) i with
    | None => s
    | Some c =>
      match c_phase c with
      | PNew => set_phase s i PGone
      | PAcquiring =>
        let s1 := upd_q s (permits s) (queue s) (remove_waiter i (waiters s)) (rx_closed s) in
        set_phase (slot_rx_close (slot_tx_drop s1 (c_id c)) (c_id c)) i PClosing
      | PAssigned =>
        (* the assigned permit goes back: to the next waiter, else to the semaphore *)
        let s1 := set_phase s i PClosing in
        let s2 := if rx_closed s1 then upd_q s1 (S (permits s1)) (queue s1) (waiters s1) true
                  else release_permit s1 in
        slot_rx_close (slot_tx_drop s2 (c_id c)) (c_id c)
      | PAcqClosed => set_phase (slot_rx_close (slot_tx_drop s (c_id c)) (c_id c)) i PClosing
      | PAwaiting => set_phase (slot_rx_close s (c_id c)) i PClosing
      | _ => s
      end
    end.

  (* second half: `self.cancellation.cancel(self.request_id)` *)
  Definition guard_cancel s (i : nat) : cstate :=
    match nth_error (calls s) i with
    | None => s
    | Some c =>
      match c_phase c with
      | PClosing => set_phase (push_cancel s (c_id c)) i PGone
      | _ => s
      end
    end.

  (* ------------------------------------------------------------------ ops *)
  Inductive op :=
  | CloneHandle (h : nat) | DropHandle (h : nat)
  | Call (h : nat) (d : N) (tid : N) (sampled : bool) (body : N)
  | PollCall (i : nat) | DropCall (i : nat) | GuardClose (i : nat) | GuardCancel (i : nat)
  | PollDispatch | DropDispatch | Advance (dt : N)
  | Tr (o : T -> T).       (* transport remote control: instance specific *)

  Inductive obs :=
  | OPanic | OSpin                           (* implementation only: a poll panicked / spun *)
  | OCall (r : cpoll)
  | OCalls (l : list (tcall cmsg resp))      (* transport calls made by this dispatch poll *)
  | ODisp (r : dpoll)
  | OGauge (inflight timers : N).

  Definition gauges s := [OGauge (N.of_nat (length (inflight s))) (N.of_nat (length (timers s)))].

  Variable fuel_of : cstate -> nat.

  Definition step s (o : op) : cstate * list obs :=
    match o with
    | CloneHandle h =>
      (match nth_error (handles s) h with
       | Some true => upd_misc s (next_id s) (handles s ++ [true]) (now s)
       | _ => s end, [])
    | DropHandle h =>
      (match nth_error (handles s) h with
       | Some true => upd_misc s (next_id s) (set_nth h false (handles s)) (now s)
       | _ => s end, [])
    | Call h d tid smp body =>
      (* a call on a dropped handle cannot be written in Rust; it still takes an index *)
      let ph := match nth_error (handles s) h with Some true => PNew | _ => PGone end in
      (upd_calls s (calls s ++ [{| c_handle := h; c_phase := ph; c_id := 0; c_rel := d;
                                   c_deadline := now s + d;
                                   c_tc := {| tc_tid := tid; tc_sid := 0; tc_sampled := smp |};
                                   c_body := body |}]), [])
    | PollCall i =>
      let '(r, s1) := poll_call s i in
      (s1, match r with CNothing => [] | _ => [OCall r] end)
    | DropCall i =>
      (match option_map c_phase (nth_error (calls s) i) with
       | Some PClosing => s
       | _ => guard_cancel (guard_close s i) i end, [])
    | GuardClose i =>
      (match option_map c_phase (nth_error (calls s) i) with
       | Some PClosing => s
       | _ => guard_close s i end, [])
    | GuardCancel i => (guard_cancel s i, [])
    | PollDispatch =>
      match finished s, dropped s with
      | None, false =>
        let s0 := upd_tr s (tr s) (fused s) [] in
        let '(r, s1) := poll_dispatch (fuel_of s0) s0 in
        let s2 := match r with DReady d => upd_fin s1 (Some d) (dropped s1) | _ => s1 end in
        (upd_tr s2 (tr s2) (fused s2) [], [OCalls (plog s1); ODisp r] ++ gauges s2)
      | _, _ => (s, [])
      end
    | DropDispatch => (if dropped s then s else drop_dispatch s, [])
    | Advance dt => (upd_misc s (next_id s) (handles s) (now s + dt), [])
    | Tr f => (upd_tr s (f (tr s)) (fused s) (plog s), [])
    end.

  Fixpoint run_from s (ops : list op) : list (list obs) * cstate :=
    match ops with
    | [] => ([], s)
    | o :: r => let '(s1, l) := step s o in
                let '(ls, s2) := run_from s1 r in (l :: ls, s2)
    end.

  Definition init (t0 : T) (qcap maxif : nat) : cstate :=
    {| next_id := 0; handles := [true]; calls := []; q_cap := qcap; permits := qcap; queue := [];
       waiters := []; rx_closed := false; cancels := []; inflight := []; timers := [];
       slots := []; max_if := maxif; tr := t0; fused := false; terminal := None;
       finished := None; dropped := false; now := 0; plog := [] |}.
End Client.

Arguments RvSome {A}. Arguments RvNone {A}. Arguments RvPending {A}.
Arguments PSome {A}. Arguments PNone {A}. Arguments PPend {A}. Arguments PErr {A}.
