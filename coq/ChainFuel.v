(* Chain proofs, fuel (C14 in the composition).
   1. `chain_poll_fuel`: for every depth and every op list, no poll of any component of any node
      runs out of its fuel: no `KDisp _ DFuel`, no `KStream _ KFuel` anywhere in the trace.  No
      invariant is needed: the measures of ChainFuelCli (dispatch) and ServerFuel (request
      stream) bound the loops in every state.
   2. `chain_fuel_iff_rounds`: hence `cfuel_ok` is exactly "no SettleAll ran out of rounds".
   3. `chain_fuel_refuted`: the pinned `stmt_chain_fuel` is FALSE in the model: a clock jump
      beyond the DelayQueue range (2^36 ms) makes the timer-order oracle of a server disagree,
      `s_bad` is sticky, `KOracle` is an event of every later round, so no later round is quiet
      and SettleAll reports KRounds. *)
From Coq Require Import List Bool Arith NArith Lia.
Import ListNotations.
From TarpcV Require Import Base Transport TimerWheel Chain ChainSpec ChainBase.
From TarpcV Require Client Server ServerFuel ChainSrv ChainFuelCli.

(* the two "out of fuel" observations *)
Definition pfuel (e : cobs) : bool :=
  match e with
  | KDisp _ Client.DFuel | KStream _ KFuel => true
  | _ => false
  end.
Definition nf (l : list cobs) : Prop := forall e, In e l -> pfuel e = false.

Lemma nf_nil : nf []. Proof. intros e []. Qed.
Lemma nf_app l1 l2 : nf l1 -> nf l2 -> nf (l1 ++ l2).
Proof. intros A B e H. apply in_app_or in H. destruct H; auto. Qed.
Lemma nf_filter f l : nf l -> nf (filter f l).
Proof. intros A e H. apply filter_In in H. apply A, H. Qed.

(* ------------------------------------------------------------------------------------------ *)
(* the two polls *)
Lemma cstep_dispatch_nofuel nd nd1 l :
  cstep nd Client.PollDispatch = (nd1, l) -> ~ In (Client.ODisp Client.DFuel) l.
Proof.
  unfold cstep. set (c0 := Client.upd_tr _ _ _ _).
  cbn [Client.step]. destruct (Client.finished c0); [intros [= <- <-] []|].
  destruct (Client.dropped c0); [intros [= <- <-] []|].
  set (s0 := Client.upd_tr c0 _ _ _).
  destruct (Client.poll_dispatch ctp (cfuel s0) s0) as [r s1] eqn:EP.
  pose proof (ChainFuelCli.poll_dispatch_fuel _ _ _ _ (ChainFuelCli.phi_lt_cfuel s0) EP) as NF.
  intros [= <- <-] H. cbn [app] in H. destruct H as [H|[H|H]]; [discriminate|congruence|].
  unfold Client.gauges in H. destruct H as [H|[]]. discriminate.
Qed.

Lemma stp_tfuel_ok : ServerFuel.tfuel_ok stp (fun t => length (l_c2s t)).
Proof.
  unfold ServerFuel.tfuel_ok. cbn [stp t_ready t_flush t_send t_next snd fst].
  split; [intro t; cbn; lia|]. split; [intro t; cbn; lia|]. split.
  - intros t m. destruct (l_cgone t); cbn; lia.
  - intro t. destruct (l_c2s t) eqn:E; cbn.
    + destruct (l_cgone t); cbn; rewrite E; cbn; lia.
    + lia.
Qed.

Lemma sstep_nofuel nd o nd1 l : sstep nd o = (nd1, l) -> ~ In Server.OFuel l.
Proof.
  unfold sstep. set (s0 := Server.set_t _ _).
  destruct o as [|[]| | | | |].
  - pose proof (ServerFuel.poll_requests_no_fuel stp (fun t => length (l_c2s t)) stp_tfuel_ok scfg s0) as NF.
    unfold Server.step.
    destruct (Server.poll_requests stp (fun t => length (l_c2s t)) scfg s0) as [s1 l1]. cbn [snd] in NF.
    intros [= _ <-] H. apply in_app_or in H. destruct H as [H|H]; [exact (NF H)|].
    unfold Server.gauges in H. destruct (Server.s_dropped s1); [destruct H|].
    destruct H as [H|H]; [discriminate|]. destruct (Server.s_bad s1); [destruct H as [H|[]]; discriminate|destruct H].
  - unfold Server.step. intros [= _ <-] H. cbn [app] in H.
    unfold Server.gauges in H. destruct (Server.s_dropped _); [destruct H|].
    destruct H as [H|H]; [discriminate|]. destruct (Server.s_bad _); [destruct H as [H|[]]; discriminate|destruct H].
  - pose proof (ChainSrv.hobs_step_other (fun t (_ : unit) => t) (fun t => length (l_c2s t)) scfg s0
                  (Server.OHandlerPoll k st) I) as HB.
    destruct (Server.step _ _ _ _ _ _) as [s1 l1]. cbn [snd] in HB. intros [= _ <-] H.
    rewrite forallb_forall in HB. specialize (HB _ H). discriminate.
  - pose proof (ChainSrv.hobs_step_other (fun t (_ : unit) => t) (fun t => length (l_c2s t)) scfg s0
                  (Server.ODropHandler k) I) as HB.
    destruct (Server.step _ _ _ _ _ _) as [s1 l1]. cbn [snd] in HB. intros [= _ <-] H.
    rewrite forallb_forall in HB. specialize (HB _ H). discriminate.
  - pose proof (ChainSrv.hobs_step_other (fun t (_ : unit) => t) (fun t => length (l_c2s t)) scfg s0
                  (Server.ODropYielded k) I) as HB.
    destruct (Server.step _ _ _ _ _ _) as [s1 l1]. cbn [snd] in HB. intros [= _ <-] H.
    rewrite forallb_forall in HB. specialize (HB _ H). discriminate.
  - pose proof (ChainSrv.hobs_step_other (fun t (_ : unit) => t) (fun t => length (l_c2s t)) scfg s0
                  Server.ODropChannel I) as HB.
    destruct (Server.step _ _ _ _ _ _) as [s1 l1]. cbn [snd] in HB. intros [= _ <-] H.
    rewrite forallb_forall in HB. specialize (HB _ H). discriminate.
  - pose proof (ChainSrv.hobs_step_other (fun t (_ : unit) => t) (fun t => length (l_c2s t)) scfg s0
                  (Server.OAdvance dt) I) as HB.
    destruct (Server.step _ _ _ _ _ _) as [s1 l1]. cbn [snd] in HB. intros [= _ <-] H.
    rewrite forallb_forall in HB. specialize (HB _ H). discriminate.
Qed.

Lemma nf_tr_cobs i l : ~ In (Client.ODisp Client.DFuel) l -> nf (flat_map (tr_cobs i) l).
Proof.
  intros N e H. apply in_flat_map in H. destruct H as (o & Ho & H).
  destruct o; cbn in H; try contradiction; try (destruct H as [H|[]]; subst e; try reflexivity).
  destruct r; try reflexivity. contradiction.
Qed.
Lemma nf_tr_sobs i l : ~ In Server.OFuel l -> nf (flat_map (tr_sobs i) l).
Proof.
  intros N e H. apply in_flat_map in H. destruct H as (o & Ho & H).
  destruct o; cbn in H; try contradiction; try (destruct H as [H|[]]; subst e; try reflexivity).
Qed.

(* ------------------------------------------------------------------------------------------ *)
(* component polls *)
Lemma nf_poll_head j ch : nf (snd (poll_head j ch)).
Proof.
  unfold poll_head. destruct (nth_error ch 0) as [nd|]; [|apply nf_nil].
  destruct (cstep nd (Client.PollCall j)) as [nd1 l]. cbn [snd]. intros e H.
  apply in_flat_map in H. destruct H as (o & _ & H). destruct o; cbn in H; try contradiction.
  destruct H as [<-|[]]. reflexivity.
Qed.
Lemma nf_poll_dispatch i ch : nf (snd (Chain.poll_dispatch i ch)).
Proof.
  unfold Chain.poll_dispatch. destruct (nth_error ch i) as [nd|]; [|apply nf_nil].
  destruct (cstep nd Client.PollDispatch) as [nd1 l] eqn:E. cbn [snd].
  apply nf_tr_cobs. eapply cstep_dispatch_nofuel, E.
Qed.
Lemma nf_poll_requests i ch : nf (snd (poll_requests i ch)).
Proof.
  unfold poll_requests. destruct (nth_error ch i) as [nd|]; [|apply nf_nil].
  destruct (n_over nd || _); [apply nf_nil|].
  destruct (sstep nd Server.OPoll) as [nd1 l] eqn:E. cbn [snd].
  apply nf_tr_sobs. eapply sstep_nofuel, E.
Qed.
Lemma nf_first (b : bool) i k l : nf l -> nf ((if b then [KHStart i k] else []) ++ l).
Proof. intro A. apply nf_app; [|exact A]. destruct b; [|apply nf_nil]. intros e [<-|[]]. reflexivity. Qed.
Lemma nf_poll_handler i k st ch : nf (snd (poll_handler i k st ch)).
Proof.
  unfold poll_handler. destruct (nth_error ch i) as [nd|]; [|apply nf_nil].
  destruct (nth_error (Server.s_handlers (n_srv nd)) k) as [hr|]; [|apply nf_nil].
  assert (F : forall (x : list cobs) l, (x = [KHStart i k] \/ x = []) -> nf l -> nf (x ++ l)).
  { intros x l [-> | ->] A; [|exact A]. apply nf_app; [|exact A]. intros e [<-|[]]. reflexivity. }
  destruct (Server.h_st hr).
  1,2: destruct (is_aborted _ _);
    [destruct (sstep nd _) as [nd1 l] eqn:E; cbn [snd]; apply nf_tr_sobs; eapply sstep_nofuel, E|];
    destruct (nth_error ch (S i)) as [nx|];
    [destruct (inner_poll k nd nx) as [[nd1 nx1] st1]; destruct (sstep nd1 _) as [nd2 l] eqn:E
    |destruct (sstep nd _) as [nd1 l] eqn:E];
    cbn [snd]; (apply F; [auto|]); apply nf_tr_sobs; eapply sstep_nofuel, E.
  1,2: destruct (sstep nd _) as [nd1 l] eqn:E; cbn [snd]; apply nf_tr_sobs; eapply sstep_nofuel, E.
  all: apply nf_nil.
Qed.

(* ------------------------------------------------------------------------------------------ *)
(* SettleAll *)
Lemma nf_poll_heads n : forall j ch acc, nf acc -> nf (snd (poll_heads j n ch acc)).
Proof.
  induction n as [|n IH]; intros j ch acc A; cbn [poll_heads]; [exact A|].
  match goal with |- context [if ?b then _ else _] => destruct b end; [|apply IH, A].
  pose proof (nf_poll_head j ch) as H. destruct (poll_head j ch) as [ch1 l]. cbn [snd] in H.
  apply IH, nf_app; assumption.
Qed.
Lemma nf_poll_handlers i n : forall k ch acc, nf acc -> nf (snd (poll_handlers i k n ch acc)).
Proof.
  induction n as [|n IH]; intros k ch acc A; cbn [poll_handlers]; [exact A|].
  pose proof (nf_poll_handler i k Server.SRun ch) as H.
  destruct (poll_handler i k Server.SRun ch) as [ch1 l]. cbn [snd] in H.
  apply IH, nf_app; assumption.
Qed.
Lemma nf_settle_node i ch : nf (snd (settle_node i ch)).
Proof.
  unfold settle_node.
  pose proof (nf_poll_dispatch i ch) as H1. destruct (Chain.poll_dispatch i ch) as [ch1 l1].
  pose proof (nf_poll_requests i ch1) as H2. destruct (poll_requests i ch1) as [ch2 l2].
  match goal with |- context [poll_handlers i 0 ?n ch2 []] =>
    pose proof (nf_poll_handlers i n 0 ch2 [] nf_nil) as H3;
    destruct (poll_handlers i 0 n ch2 []) as [ch3 l3] end.
  cbn [snd] in *. repeat apply nf_app; assumption.
Qed.
Lemma nf_settle_nodes n : forall i ch acc, nf acc -> nf (snd (settle_nodes i n ch acc)).
Proof.
  induction n as [|n IH]; intros i ch acc A; cbn [settle_nodes]; [exact A|].
  pose proof (nf_settle_node i ch) as H. destruct (settle_node i ch) as [ch1 l]. cbn [snd] in H.
  apply IH, nf_app; assumption.
Qed.
Lemma nf_round ch : nf (snd (round ch)).
Proof.
  unfold round.
  match goal with |- context [poll_heads 0 ?n ch []] =>
    pose proof (nf_poll_heads n 0 ch [] nf_nil) as H1; destruct (poll_heads 0 n ch []) as [ch1 l1] end.
  pose proof (nf_settle_nodes (length ch1) 0 ch1 [] nf_nil) as H2.
  destruct (settle_nodes 0 (length ch1) ch1 []) as [ch2 l2]. cbn [snd] in *.
  apply nf_filter, nf_app; assumption.
Qed.
Lemma nf_settle n : forall ch acc, nf acc -> nf (snd (fst (settle n ch acc))).
Proof.
  induction n as [|n IH]; intros ch acc A; cbn [settle]; [exact A|].
  pose proof (nf_round ch) as H. destruct (round ch) as [ch1 ev]. cbn [snd] in H.
  match goal with |- context [if ?b then _ else _] => destruct b end; [exact A|].
  apply IH, nf_app; assumption.
Qed.
Lemma nf_gauges ch : forall i, nf (all_gauges i ch).
Proof.
  induction ch as [|nd r IH]; intro i; cbn [all_gauges]; [apply nf_nil|].
  apply nf_app; [intros e [<-|[]]; reflexivity|]. apply nf_app; [|apply IH].
  unfold sgauge. destruct (Server.s_dropped _); [apply nf_nil|].
  destruct (Server.s_bad _); intros e H; cbn in H; intuition (subst; reflexivity).
Qed.
Lemma nf_settle_all ch : nf (snd (settle_all ch)).
Proof.
  unfold settle_all. pose proof (nf_settle (rounds_of ch) ch [] nf_nil) as H.
  destruct (settle (rounds_of ch) ch []) as [[ch1 ev] q]. cbn [fst snd] in *.
  apply nf_app; [exact H|]. apply nf_app; [|apply nf_gauges].
  destruct q; [apply nf_nil|]. intros e [<-|[]]. reflexivity.
Qed.

Lemma nf_step ch o : nf (snd (step ch o)).
Proof.
  destruct o; cbn [step].
  - destruct (nth_error ch 0); apply nf_nil.
  - apply nf_poll_head.
  - destruct (nth_error ch 0); apply nf_nil.
  - apply nf_poll_dispatch.
  - apply nf_poll_requests.
  - apply nf_poll_handler.
  - destruct (nth_error ch i) as [nd|]; [|apply nf_nil].
    destruct (Client.dropped _); [apply nf_nil|]. destruct (cstep nd _). apply nf_nil.
  - destruct (nth_error ch i) as [nd|]; [|apply nf_nil].
    destruct (Server.s_dropped _); [apply nf_nil|]. destruct (sstep nd _). apply nf_nil.
  - apply nf_nil.
  - apply nf_settle_all.
Qed.

Lemma nf_run_from ops : forall ch l, In l (fst (run_from ch ops)) -> nf l.
Proof.
  induction ops as [|o r IH]; intros ch l; cbn [run_from]; [intros []|].
  pose proof (nf_step ch o) as H. destruct (step ch o) as [ch1 l1]. cbn [snd] in H.
  specialize (IH ch1). destruct (run_from ch1 r) as [ls ch2]. cbn [fst] in *.
  intros [<-|H1]; [exact H|apply IH, H1].
Qed.

(* for every depth, every op list: no observation of the run is a poll out of fuel *)
Theorem chain_poll_fuel : forall d ops l e,
  In l (fst (run d ops)) -> In e l -> pfuel e = false.
Proof. intros d ops l e Hl He. exact (nf_run_from ops (init d) l Hl e He). Qed.
Print Assumptions chain_poll_fuel.

(* ------------------------------------------------------------------------------------------ *)
(* the monitor: mo_fuel falls exactly on a poll out of fuel or on KRounds *)
Definition no_rounds (tr : list (list cobs)) : Prop := forall l, In l tr -> ~ In KRounds l.

Lemma mon_wire_fuel i m w : mo_fuel (mon_wire i m w) = mo_fuel m.
Proof. destruct w; reflexivity. Qed.
Lemma mon_obs_fuel m e :
  mo_fuel (mon_obs m e) = mo_fuel m && negb (pfuel e) && negb (cobs_eqb e KRounds).
Proof.
  destruct e; cbn [mon_obs pfuel cobs_eqb]; rewrite ?andb_true_r; try reflexivity.
  - destruct r; cbn; rewrite ?andb_true_r; reflexivity.
  - rewrite (fold_mon_wire_inv mo_fuel i (mon_wire_fuel i)). reflexivity.
  - destruct r; cbn; rewrite ?andb_true_r, ?andb_false_r; reflexivity.
  - destruct r; cbn; rewrite ?andb_true_r, ?andb_false_r; reflexivity.
  - cbn. rewrite andb_false_r. reflexivity.
Qed.
Lemma fold_mon_obs_fuel l : forall m,
  nf l -> mo_fuel (fold_left mon_obs l m) = mo_fuel m && negb (existsb (cobs_eqb KRounds) l).
Proof.
  induction l as [|e r IH]; intros m A; cbn [fold_left existsb]; [rewrite andb_true_r; reflexivity|].
  rewrite IH by (intros x Hx; apply A; right; exact Hx).
  rewrite mon_obs_fuel, (A e (or_introl eq_refl)). cbn [negb]. rewrite andb_true_r.
  assert (S : cobs_eqb e KRounds = cobs_eqb KRounds e) by (destruct e; reflexivity).
  rewrite S, negb_orb, andb_assoc. reflexivity.
Qed.
Lemma mon_op_fuel m o : mo_fuel (mon_op m o) = mo_fuel m.
Proof. destruct o; reflexivity. Qed.
Lemma mon_step_fuel m o l :
  nf l -> mo_fuel (mon_step m o l) = mo_fuel m && negb (existsb (cobs_eqb KRounds) l).
Proof.
  intro A. unfold mon_step.
  assert (E : mo_fuel (fold_left mon_obs l (mon_op m o)) = mo_fuel m && negb (existsb (cobs_eqb KRounds) l))
    by (rewrite fold_mon_obs_fuel, mon_op_fuel by exact A; reflexivity).
  destruct o; exact E.
Qed.

Lemma existsb_rounds l : existsb (cobs_eqb KRounds) l = true <-> In KRounds l.
Proof.
  rewrite existsb_exists. split.
  - intros (x & Hx & E). destruct x; try discriminate. exact Hx.
  - intro H. exists KRounds. split; [exact H|reflexivity].
Qed.

Lemma fuel_run_from ops : forall ch m,
  match mon_run m ops (fst (run_from ch ops)) with
  | Some m' => mo_fuel m' = true <-> (mo_fuel m = true /\ no_rounds (fst (run_from ch ops)))
  | None => False
  end.
Proof.
  induction ops as [|o r IH]; intros ch m; cbn [run_from].
  - cbn. split; [intro H; split; [exact H|intros l []]|tauto].
  - pose proof (nf_step ch o) as A. destruct (step ch o) as [ch1 l1]. cbn [snd] in A.
    specialize (IH ch1 (mon_step m o l1)). destruct (run_from ch1 r) as [ls ch2]. cbn [fst mon_run] in *.
    destruct (mon_run (mon_step m o l1) r ls) as [m'|]; [|exact IH].
    rewrite IH, (mon_step_fuel m o l1 A), andb_true_iff, negb_true_iff. split.
    + intros [[F R] NR]. split; [exact F|]. intros l [<-|Hl]; [|apply NR, Hl].
      intro H. apply existsb_rounds in H. congruence.
    + intros [F NR]. split; [split; [exact F|]|intros l Hl; apply NR; right; exact Hl].
      destruct (existsb _ l1) eqn:E; [|reflexivity]. apply existsb_rounds in E.
      exfalso. exact (NR l1 (or_introl eq_refl) E).
Qed.

(* cfuel_ok says exactly: no SettleAll ran out of rounds *)
Theorem chain_fuel_iff_rounds : forall d ops,
  cfuel_ok d ops (fst (run d ops)) = true <-> no_rounds (fst (run d ops)).
Proof.
  intros d ops. unfold cfuel_ok, run. pose proof (fuel_run_from ops (init d) mon0) as H.
  destruct (mon_run mon0 ops _) as [m|]; [|contradiction].
  rewrite H. cbn [mo_fuel mon0]. tauto.
Qed.
Print Assumptions chain_fuel_iff_rounds.

(* ------------------------------------------------------------------------------------------ *)
(* the pinned statement does not hold: depth 1, two calls with timers on the server's wheel,
   then a clock jump of 2^37 ms (beyond the DelayQueue range of 2^36 - 1 ms), one more call *)
Definition fuel_witness : list cop :=
  [HCall 1 1 true 0; HCall 4095 1 true 1; SettleAll; Advance 137438953472;
   HCall 4096 1 true 6; SettleAll].

Lemma fuel_witness_false : cfuel_ok 1 fuel_witness (fst (run 1 fuel_witness)) = false.
Proof. vm_compute. reflexivity. Qed.

Theorem chain_fuel_refuted : ~ stmt_chain_fuel.
Proof. intro H. specialize (H 1 fuel_witness). rewrite fuel_witness_false in H. discriminate. Qed.
Print Assumptions chain_fuel_refuted.

(* the pinned statement (A) *)
Theorem chain_poll_fuel_stmt : stmt_chain_poll_fuel.
Proof.
  intros d ops l Hl i. split; intro H; pose proof (chain_poll_fuel d ops l _ Hl H) as E; discriminate.
Qed.
Print Assumptions chain_poll_fuel_stmt.
