(* Server proofs, engineer C, part 2a: C09 (server half), the transport-call clauses.  In every
   poll of the Requests stream a transport call that answers Err is the LAST call of that poll, the
   poll then returns the error naming that call's activity, a poll that returns anything else had
   no failing call, and poll_close is never called.  Model-only and observer-only facts: no
   hypothesis on the peer is needed for these clauses of v09. *)
From Coq Require Import List Bool Arith NArith Lia.
Import ListNotations.
From TarpcV Require Import Base Transport TimerWheel Server ServerMon ServerFuel ServerContract
     ServerSim ServerSim2.

(* the activity a call failed in, if it failed *)
Definition err_of (c : call) : option activity :=
  match c with
  | CReady TErr => Some AReady
  | CFlush TErr => Some AFlush
  | CNext RErr => Some ARead
  | CSend _ SErr => Some AWrite
  | _ => None
  end.
Definition not_close (c : call) : Prop := match c with CClose _ => False | _ => True end.
Definition quiet (c : call) : Prop := err_of c = None /\ not_close c.
Definition Clean (l : list call) : Prop := Forall quiet l.

(* the log of a poll that ends with `e` *)
Definition elog (e : option activity) (new : list call) : Prop :=
  match e with
  | None => Clean new
  | Some a => exists pre c, new = pre ++ [c] /\ Clean pre /\ err_of c = Some a /\ not_close c
  end.

Lemma elog_app : forall a b e, Clean a -> elog e b -> elog e (a ++ b).
Proof.
  intros a b e Ha Hb. destruct e as [x|]; cbn in *.
  - destruct Hb as (pre & c & -> & Hp & He & Hn). exists (a ++ pre), c.
    split; [apply app_assoc|]. split; [apply Forall_app; auto|auto].
  - apply Forall_app; auto.
Qed.
Lemma Clean_nil : Clean []. Proof. constructor. Qed.
Lemma Clean_one : forall c, quiet c -> Clean [c]. Proof. intros c H. constructor; [exact H|constructor]. Qed.
Lemma elog_err_one : forall c a, err_of c = Some a -> not_close c -> elog (Some a) [c].
Proof. intros c a H N. exists [], c. split; [reflexivity|]. split; [constructor|auto]. Qed.

Definition perr {A} (r : pres A) : option activity := match r with PErr a => Some a | _ => None end.

Section ELog.
  Context {T : Type}.
  Variable tp : transport T response cmsg.
  Notation st := (@sstate T).

  Lemma base_elog : forall f (s : st) r s',
    base_poll_next tp f s = (r, s') -> exists new, ext s s' new /\ elog (perr r) new.
  Proof.
    induction f as [|f IH]; intros s r s' H; cbn [base_poll_next] in H.
    { injection H as <- <-. exists []. split; [apply ext_refl|constructor]. }
    set (cs := match s_cancels s with
               | id :: r0 => (RSReady, snd (remove_request id (set_cancels s r0)))
               | [] => (RSClosed, s) end) in H.
    assert (Hc : s_log (snd cs) = s_log s).
    { subst cs. destruct (s_cancels s); [reflexivity|]. cbn [snd]. rewrite log_remove_request. reflexivity. }
    destruct cs as [cst s1]. cbn [snd] in Hc.
    pose proof (log_poll_expired s1) as He. destruct (poll_expired s1) as [est s2]. cbn [snd] in He.
    assert (H02 : ext s s2 []) by (apply ext_same; congruence).
    assert (Hfin : forall rst sx new0 r s',
               ext s sx new0 -> Clean new0 ->
               match combine (combine cst est) rst with
               | RSReady => base_poll_next tp f sx
               | RSClosed => (PEnd, sx)
               | RSPending => (PPending, sx)
               end = (r, s') -> exists new, ext s s' new /\ elog (perr r) new).
    { intros rst sx new0 r0 s0 Hx Hn HH. destruct (combine (combine cst est) rst).
      - destruct (IH _ _ _ HH) as (n1 & E1 & F1). exists (new0 ++ n1).
        split; [eapply ext_trans; eauto|apply elog_app; auto].
      - injection HH as <- <-. eauto.
      - injection HH as <- <-. eauto. }
    destruct (s_fused s2).
    - eapply Hfin; [exact H02|constructor|exact H].
    - unfold do_next in H. destruct (t_next tp (s_t s2)) as [rr t'].
      set (s3 := set_log (set_t s2 t') (CNext rr :: s_log s2)) in *.
      assert (H23 : ext s s3 [CNext rr]).
      { unfold ext in *. subst s3; sproj. rewrite H02. reflexivity. }
      destruct rr as [m| | |].
      + assert (Fn : Clean [CNext (RItem m)]) by (apply Clean_one; split; [reflexivity|exact I]).
        destruct m as [id dl tr body|id tr].
        * destruct (start_request id dl s3) as [[h s4]|] eqn:ES.
          -- injection H as <- <-. exists [CNext (RItem (MReq id dl tr body))]. split; [|exact Fn].
             unfold ext in *. rewrite (log_start_request _ _ _ _ _ ES). exact H23.
          -- destruct (IH _ _ _ H) as (n1 & E1 & F1). exists ([CNext (RItem (MReq id dl tr body))] ++ n1).
             split; [eapply ext_trans; eauto|apply elog_app; auto].
        * eapply (Hfin RSReady (cancel_request id s3) [CNext (RItem (MCancel id tr))]); [|exact Fn|exact H].
          unfold ext in *. rewrite log_cancel_request. exact H23.
      + injection H as <- <-. exists [CNext RErr]. split; [exact H23|]. apply elog_err_one; [reflexivity|exact I].
      + eapply (Hfin RSClosed (set_fused s3 true) [CNext REof]); [exact H23|apply Clean_one; split; [reflexivity|exact I]|exact H].
      + eapply (Hfin RSPending s3 [CNext RPending]); [exact H23|apply Clean_one; split; [reflexivity|exact I]|exact H].
  Qed.

  Lemma start_send_elog : forall m (s : st) e s',
    base_start_send tp m s = (e, s') -> exists new, ext s s' new /\ elog e new.
  Proof.
    intros m s e s' H. unfold base_start_send in H.
    pose proof (log_remove_request (resp_id m) s) as L1.
    destruct (remove_request (resp_id m) s) as [was s1]. cbn [snd] in L1.
    destruct was.
    - unfold do_send in H. destruct (t_send tp (s_t s1) m) as [r t']. injection H as <- <-.
      exists [CSend m r]. split; [unfold ext; sproj; rewrite L1; reflexivity|].
      destruct r; [apply Clean_one; split; [reflexivity|exact I]|apply elog_err_one; [reflexivity|exact I]].
    - injection H as <- <-. exists []. split; [apply ext_same; exact L1|constructor].
  Qed.

  Lemma ready_log : forall (s : st) r s1, do_ready tp s = (r, s1) -> ext s s1 [CReady r].
  Proof. intros s r s1 H. destruct (do_ready_core tp _ _ _ H) as (_ & _ & _ & _ & _ & L). unfold ext. rewrite L. reflexivity. Qed.
  Lemma flush_log : forall (s : st) r s1, do_flush tp s = (r, s1) -> ext s s1 [CFlush r].
  Proof. intros s r s1 H. destruct (do_flush_core tp _ _ _ H) as (_ & _ & _ & _ & _ & L). unfold ext. rewrite L. reflexivity. Qed.

  Lemma q_ready_ok : quiet (CReady TOk). Proof. split; [reflexivity|exact I]. Qed.
  Lemma q_ready_pend : quiet (CReady TPending). Proof. split; [reflexivity|exact I]. Qed.
  Lemma q_flush_ok : quiet (CFlush TOk). Proof. split; [reflexivity|exact I]. Qed.
  Lemma q_flush_pend : quiet (CFlush TPending). Proof. split; [reflexivity|exact I]. Qed.

  Lemma maxreq_elog : forall f limit (s : st) r s',
    maxreq_poll_next tp f limit s = (r, s') -> exists new, ext s s' new /\ elog (perr r) new.
  Proof.
    induction f as [|f IH]; intros limit s r s' H; cbn [maxreq_poll_next] in H.
    { injection H as <- <-. exists []. split; [apply ext_refl|constructor]. }
    destruct (limit <=? length (s_inflight s)); [|exact (base_elog _ _ _ _ H)].
    destruct (do_ready tp s) as [x s1] eqn:ER. pose proof (ready_log _ _ _ ER) as X1.
    destruct x.
    - destruct (base_poll_next tp (S f) s1) as [y s2] eqn:EB.
      destruct (base_elog _ _ _ _ EB) as (n2 & X2 & E2).
      assert (X02 : ext s s2 ([CReady TOk] ++ n2)) by (eapply ext_trans; eauto).
      assert (Hother : forall y', y' = y -> (forall q, y <> PReady q) -> (y, s2) = (r, s') ->
                 exists new, ext s s' new /\ elog (perr r) new).
      { intros y' _ _ HH. injection HH as <- <-. eexists; split; [exact X02|].
        apply elog_app; [apply Clean_one, q_ready_ok|exact E2]. }
      destruct y as [q| |a| |]; try (apply (Hother _ eq_refl); [discriminate|exact H]).
      destruct (base_start_send tp (mkresp (q_id q) BThrottle) s2) as [e s3] eqn:ESS.
      destruct (start_send_elog _ _ _ _ ESS) as (n3 & X3 & E3).
      assert (X03 : ext s s3 (([CReady TOk] ++ n2) ++ n3)) by (eapply ext_trans; eauto).
      assert (C02 : Clean ([CReady TOk] ++ n2)) by (apply Forall_app; split; [apply Clean_one, q_ready_ok|exact E2]).
      destruct e as [a|].
      + injection H as <- <-. eexists; split; [exact X03|]. apply elog_app; auto.
      + destruct (IH _ _ _ _ H) as (n4 & X4 & E4). eexists; split; [eapply ext_trans; [exact X03|exact X4]|].
        apply elog_app; [apply Forall_app; split; [exact C02|exact E3]|exact E4].
    - injection H as <- <-. eexists; split; [exact X1|]. apply elog_err_one; [reflexivity|exact I].
    - injection H as <- <-. eexists; split; [exact X1|]. apply Clean_one, q_ready_pend.
  Qed.

  Definition werr (w : @wres) : option activity := match w with WErr a => Some a | _ => None end.

  Lemma ensure_elog : forall (s : st) w s',
    ensure_writeable tp s = (w, s') -> exists new, ext s s' new /\ elog (werr w) new.
  Proof.
    intros s w s' H. unfold ensure_writeable in H.
    destruct (do_ready tp s) as [r s1] eqn:E1. pose proof (ready_log _ _ _ E1) as X1.
    destruct r.
    - injection H as <- <-. eexists; split; [exact X1|apply Clean_one, q_ready_ok].
    - injection H as <- <-. eexists; split; [exact X1|apply elog_err_one; [reflexivity|exact I]].
    - destruct (do_flush tp s1) as [f s2] eqn:E2. pose proof (flush_log _ _ _ E2) as X2.
      assert (X02 : ext s s2 ([CReady TPending] ++ [CFlush f])) by (eapply ext_trans; eauto).
      destruct f.
      + destruct (do_ready tp s2) as [r2 s3] eqn:E3. pose proof (ready_log _ _ _ E3) as X3.
        assert (X03 : ext s s3 (([CReady TPending] ++ [CFlush TOk]) ++ [CReady r2])) by (eapply ext_trans; eauto).
        assert (C2 : Clean ([CReady TPending] ++ [CFlush TOk])).
        { apply Forall_app; split; [apply Clean_one, q_ready_pend|apply Clean_one, q_flush_ok]. }
        destruct r2; injection H as <- <-; eexists; (split; [exact X03|]); apply elog_app; auto.
        * apply Clean_one, q_ready_ok.
        * apply elog_err_one; [reflexivity|exact I].
        * apply Clean_one, q_ready_pend.
      + injection H as <- <-. eexists; split; [exact X02|]. apply elog_app; [apply Clean_one, q_ready_pend|].
        apply elog_err_one; [reflexivity|exact I].
      + injection H as <- <-. eexists; split; [exact X02|]. apply elog_app; [apply Clean_one, q_ready_pend|].
        apply Clean_one, q_flush_pend.
  Qed.

  Lemma pump_write_elog : forall rc (s : st) w s',
    pump_write tp rc s = (w, s') -> exists new, ext s s' new /\ elog (perr w) new.
  Proof.
    intros rc s w s' H. unfold pump_write, poll_next_response in H.
    destruct (ensure_writeable tp s) as [x s1] eqn:EW.
    destruct (ensure_elog _ _ _ EW) as (n1 & X1 & E1).
    assert (Hflush : werr x = None -> forall w s',
      (let '(f, s2) := do_flush tp s1 in
       match f with
       | TOk => if rc && Nat.eqb (length (s_inflight s2)) 0 then (@PEnd unit, s2) else (PPending, s2)
       | TErr => (PErr AFlush, s2)
       | TPending => (PPending, s2)
       end) = (w, s') -> exists new, ext s s' new /\ elog (perr w) new).
    { intros Hx w0 s0 HH. rewrite Hx in E1. destruct (do_flush tp s1) as [f s2] eqn:EF.
      pose proof (flush_log _ _ _ EF) as X2.
      assert (X02 : ext s s2 (n1 ++ [CFlush f])) by (eapply ext_trans; eauto).
      destruct f; [destruct (rc && _)| |]; injection HH as <- <-; eexists; (split; [exact X02|]);
        apply elog_app; auto; first [apply Clean_one, q_flush_ok|apply Clean_one, q_flush_pend
                                    |apply elog_err_one; [reflexivity|exact I]]. }
    destruct x as [| |a].
    - destruct (s_respq s1) as [|m q] eqn:EQ; [exact (Hflush eq_refl w s' H)|].
      destruct (base_start_send tp m (add_permit (set_respq s1 q))) as [e s2] eqn:ES.
      destruct (start_send_elog _ _ _ _ ES) as (n2 & X2 & E2).
      assert (X02 : ext s s2 (n1 ++ n2)).
      { eapply ext_trans; [exact X1|]. unfold ext in *. rewrite X2, log_add_permit. reflexivity. }
      destruct e; injection H as <- <-; eexists; (split; [exact X02|]); apply elog_app; auto.
    - exact (Hflush eq_refl w s' H).
    - injection H as <- <-. eexists; split; [exact X1|exact E1].
  Qed.

  Lemma pump_read_elog : forall c f (s : st) r s',
    pump_read tp c f s = (r, s') -> exists new, ext s s' new /\ elog (perr r) new.
  Proof.
    intros c f s r s' H. unfold pump_read in H. destruct (cfg_limit c).
    - eapply maxreq_elog; eauto.
    - eapply base_elog; eauto.
  Qed.

  Lemma requests_elog : forall c f (s : st) r s',
    requests_poll_next tp c f s = (r, s') -> exists new, ext s s' new /\ elog (perr r) new.
  Proof.
    intros c f; induction f as [|f IH]; intros s r s' H; cbn [requests_poll_next] in H.
    { injection H as <- <-. exists []. split; [apply ext_refl|constructor]. }
    destruct (pump_read tp c (S f) s) as [rd s1] eqn:ER.
    destruct (pump_read_elog _ _ _ _ _ ER) as (n1 & X1 & E1).
    assert (Hw : perr rd = None -> forall rc wr s2, pump_write tp rc s1 = (wr, s2) ->
              exists n2, ext s s2 (n1 ++ n2) /\ Clean n1 /\ elog (perr wr) n2).
    { intros Hrd rc wr s2 EW. rewrite Hrd in E1. destruct (pump_write_elog _ _ _ _ EW) as (n2 & X2 & E2).
      exists n2. split; [eapply ext_trans; eauto|auto]. }
    destruct rd as [q| |a| |].
    - destruct (pump_write tp false s1) as [wr s2] eqn:EW.
      destruct (Hw eq_refl _ _ _ EW) as (n2 & X2 & C1 & E2).
      destruct wr as [u| |a| |]; injection H as <- <-; exists (n1 ++ n2);
        (split; [first [exact X2|unfold ext in *; sproj; exact X2]|apply elog_app; auto]).
    - destruct (pump_write tp true s1) as [wr s2] eqn:EW.
      destruct (Hw eq_refl _ _ _ EW) as (n2 & X2 & C1 & E2).
      destruct wr as [u| |a| |]; try (injection H as <- <-; exists (n1 ++ n2); (split; [exact X2|apply elog_app; auto])).
      destruct (IH _ _ _ H) as (n3 & X3 & E3). exists ((n1 ++ n2) ++ n3).
      split; [eapply ext_trans; eauto|]. apply elog_app; [apply Forall_app; auto|exact E3].
    - injection H as <- <-. exists n1. auto.
    - destruct (pump_write tp false s1) as [wr s2] eqn:EW.
      destruct (Hw eq_refl _ _ _ EW) as (n2 & X2 & C1 & E2).
      destruct wr as [u| |a| |]; try (injection H as <- <-; exists (n1 ++ n2); (split; [exact X2|apply elog_app; auto])).
      destruct (IH _ _ _ H) as (n3 & X3 & E3). exists ((n1 ++ n2) ++ n3).
      split; [eapply ext_trans; eauto|]. apply elog_app; [apply Forall_app; auto|exact E3].
    - injection H as <- <-. exists n1. auto.
  Qed.
End ELog.

(* ---------------------------------------------------------------- the observer on such a log *)
Lemma ocall_quiet_v09 : forall lim o c,
  o_errcall o = None -> quiet c ->
  v09 (o_v (o_call lim o c)) = v09 (o_v o) /\ o_errcall (o_call lim o c) = None.
Proof.
  intros lim o c He (Hq & Hn). unfold o_call. rewrite He.
  destruct c as [r|m r|r|r|r]; try contradiction.
  - destruct r; try discriminate; oproj; rewrite ?He; auto.
  - destruct r; try discriminate. destruct (resp_body m).
    1,2,4: (destruct (last_open (resp_id m) (o_incs o)); oproj; rewrite ?andb_true_r, ?He; auto).
    unfold accept_id. destruct (last_open (resp_id m) _); oproj; rewrite ?andb_true_r, ?He; auto.
  - destruct r; try discriminate; oproj; rewrite ?He; auto.
  - unfold resolve_ignored. destruct (o_pend o) as [[[[a b] d] e]|];
      destruct r as [[id dl tr body|id tr]| | |]; try discriminate; oproj; rewrite ?andb_true_r, ?He; auto;
      destruct (last_open id _); oproj; rewrite ?andb_true_r, ?He; auto.
Qed.

Lemma ocall_err_v09 : forall lim o c a,
  o_errcall o = None -> err_of c = Some a -> not_close c ->
  v09 (o_v (o_call lim o c)) = v09 (o_v o) /\ o_errcall (o_call lim o c) = Some a.
Proof.
  intros lim o c a He Hq Hn. unfold o_call. rewrite He.
  destruct c as [r|m r|r|r|r]; try contradiction.
  - destruct r; try discriminate. injection Hq as <-. oproj. auto.
  - destruct r; try discriminate. injection Hq as <-. destruct (resp_body m).
    1,2,4: (destruct (last_open (resp_id m) (o_incs o)); oproj; rewrite ?andb_true_r; auto).
    unfold accept_id. destruct (last_open (resp_id m) _); oproj; rewrite ?andb_true_r; auto.
  - destruct r; try discriminate. injection Hq as <-. oproj. auto.
  - destruct r as [x| | |]; try discriminate. injection Hq as <-.
    unfold resolve_ignored. destruct (o_pend o) as [[[[a b] d] e]|]; oproj; rewrite ?andb_true_r; auto.
Qed.

Lemma ocs_clean_v09 : forall lim new o,
  o_errcall o = None -> Clean new ->
  v09 (o_v (fold_left (o_call lim) new o)) = v09 (o_v o)
  /\ o_errcall (fold_left (o_call lim) new o) = None.
Proof.
  intros lim new; induction new as [|c new IH]; intros o He Hc; cbn [fold_left]; [auto|].
  inversion Hc as [|? ? Hq Hr]; subst. destruct (ocall_quiet_v09 lim o c He Hq) as (A & B).
  destruct (IH _ B Hr) as (A' & B'). split; congruence.
Qed.

Lemma ocs_elog_v09 : forall lim new o e,
  o_errcall o = None -> elog e new ->
  v09 (o_v (fold_left (o_call lim) new o)) = v09 (o_v o)
  /\ o_errcall (fold_left (o_call lim) new o) = e.
Proof.
  intros lim new o e He H. destruct e as [a|]; cbn in H.
  - destruct H as (pre & c & -> & Hp & Hc & Hn). rewrite fold_left_app. cbn [fold_left].
    destruct (ocs_clean_v09 lim pre o He Hp) as (A & B).
    destruct (ocall_err_v09 lim _ c a B Hc Hn) as (A' & B'). split; congruence.
  - apply ocs_clean_v09; auto.
Qed.
