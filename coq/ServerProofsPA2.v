(* Server proofs, group A, part 2: the Requests poll keeps TopH (ServerProofsPA0.v). *)
From Coq Require Import List Bool Arith NArith Lia.
Import ListNotations.
From TarpcV Require Import Base Transport TimerWheel Server ServerMon ServerFuel ServerContract
     ServerSim ServerSim2 ServerSim3 ServerSim4 ServerSim5 ServerSim6 ServerSim7 ServerProofsPA0.

Section PollH.
  Context {T C : Type}.
  Variable tp : transport T response cmsg.
  Variable ctl : T -> C -> T.
  Variable tfuel : T -> nat.
  Hypothesis TF : tfuel_ok tp tfuel.
  Variable c : cfg.
  Notation st := (@sstate T).
  Notation lim := (cfg_limit c).

  Lemma topH_poll : forall o (s : st) s' l,
    Top o s -> TopH o s -> step tp ctl tfuel c s OPoll = (s', l) -> TopH (ostep lim o (@OPoll C) l) s'.
  Proof.
    intros o s s' l HT HTH H. unfold step in H.
    destruct (poll_requests tp tfuel c s) as [s1 l0] eqn:EP. injection H as <- <-.
    destruct (h_stop (o_v o)) eqn:EH.
    2: { unfold ostep. rewrite EH. cbn [negb]. intros Hf. congruence. }
    destruct (HT EH) as (HI & Hnt & Hrest).
    unfold poll_requests in EP.
    destruct (s_dropped s) eqn:ED.
    { injection EP as <- <-. unfold ostep. rewrite EH. cbn [negb]. unfold gauges. rewrite ED.
      assert (Hodt : o_dropped o = true) by (rewrite (u_dropped _ _ HI); exact ED).
      cbn [app split_gauges rev]. rewrite Hodt. cbn iota. rewrite Hodt. exact HTH. }
    assert (Hod : o_dropped o = false) by (rewrite (u_dropped _ _ HI); exact ED).
    destruct (c_err (o_v o)) eqn:EC.
    { intros Hf. rewrite (ostep_poll_after_error c o _ EH Hod EC) in Hf. discriminate. }
    destruct (Hrest eq_refl) as (Hh & Hg). specialize (Hg eq_refl).
    destruct (requests_poll_next tp c (poll_fuel tfuel s) (set_log s [])) as [r s2] eqn:ER.
    pose proof (requests_not_fuel tp tfuel TF c _ _ _ ER) as Hnf.
    assert (HB0 : BInv (start_poll o) (set_log s [])).
    { split; [apply InvU_start_poll; auto|split; [|exact EC]]. eapply handled_sub; eauto. }
    assert (Hnt0 : no_thr (set_log s [])) by exact Hnt.
    assert (HH0 : BH (start_poll o) (set_log s [])).
    { split; [apply pend_ok_none; reflexivity|]. intros Hb. cbn [start_poll o_v] in Hb.
      destruct (HTH EH Hb) as (_ & _ & V8 & _ & A). split; [|exact V8].
      eapply InvH_frame; [exact (A EC)|reflexivity..]. }
    destruct (requests_invH tp lim c _ _ _ _ _ eq_refl HB0 Hnt0 HH0 eq_refl ER) as (new & X & Post & Hnt2 & PostH).
    assert (HE0 : Entry (start_poll o) (set_log s [])).
    { right; right; left. split; [reflexivity|]. sproj. exact Hg. }
    destruct (requests_ctrl tp lim c _ _ _ _ _ eq_refl HE0 ER) as (new' & X' & Id).
    assert (new' = new) by (eapply ocs_ext_unique; eauto). subst new'.
    assert (Hlog : rev (s_log s2) = new).
    { unfold ext in X. sproj. rewrite X, app_nil_r, rev_involutive. reflexivity. }
    set (oc := fold_left (o_call lim) new (start_poll o)) in *.
    destruct (ocs_proj lim new (start_poll o)) as (Pn & Pd & Ph & Pb & Pc).
    fold oc in Pn, Pd, Ph, Pb, Pc. cbn [start_poll o_now o_dropped o_v] in Pn, Pd, Ph, Pb, Pc.
    destruct (ocs_v04_b1 lim new (start_poll o)) as (V4c & B1c). fold oc in V4c, B1c.
    cbn [start_poll o_v] in V4c, B1c.
    (* what the run so far gives, once the final h_b1 is known *)
    assert (Hpre : h_b1 (o_v oc) = true -> v04 (o_v oc) = true).
    { intros Hb. destruct (HTH EH (B1c Hb)) as (_ & _ & _ & V4 & _). congruence. }
    destruct r as [q| |a| |]; [| | | |exfalso; apply Hnf; reflexivity].
    - (* a request is yielded *)
      injection EP as <- <-. rewrite Hlog.
      destruct Post as (HIc & HPc & Hcec). destruct PostH as (HQ & HinQ).
      destruct (InvU_result_yield oc s2 q HIc HPc Hcec) as (HI1 & Hh1 & Hce1). cbv zeta in *.
      set (s1 := set_handlers s2 (s_handlers s2 ++ [{| h_h := q_h q; h_id := q_id q; h_st := HYielded |}])) in *.
      set (R := OYield (length (s_handlers s2)) (q_id q) (q_dl q) (q_tr q) (q_body q)) in *.
      assert (Hd1 : s_dropped s1 = false).
      { rewrite <- (u_dropped _ _ HI1).
        destruct (o_result_yield_proj oc (length (s_handlers s2)) (q_id q) (q_dl q) (q_tr q) (q_body q)) as (_ & _ & P3 & _).
        cbv zeta in P3. fold R in P3. rewrite P3, Pd. exact Hod. }
      unfold ostep. rewrite EH. cbn [negb].
      rewrite (split_gauges_poll s1 new R Hd1 I). rewrite Hod, EC.
      unfold o_calls. fold oc.
      destruct (o_result_yield_proj oc (length (s_handlers s2)) (q_id q) (q_dl q) (q_tr q) (q_body q))
        as (Q1 & Q2 & Q3 & Q4 & Q5 & Q6 & Q7 & Q8). cbv zeta in *. fold R in Q1, Q2, Q3, Q4, Q5, Q6, Q7, Q8.
      destruct (o_result_yield_flags oc (length (s_handlers s2)) (q_id q) (q_dl q) (q_tr q) (q_body q)) as (Y8 & Y4 & Yb).
      cbv zeta in *. fold R in Y8, Y4, Yb.
      rewrite Q3, Pd, Hod. rewrite Q6, Hcec.
      match goal with |- TopH (o_gauges ?a ?b ?x ?g1 ?g2) _ =>
        destruct (o_gauges_proj a b x g1 g2) as (G1 & G2 & G3 & G4 & G5 & G6 & G7 & G8 & G9);
        destruct (o_gauges_flags a b x g1 g2) as (W8 & W4 & Wb) end.
      cbv zeta in *. oproj.
      intros _ Hb. rewrite Wb, Yb in Hb. destruct (HQ Hb) as (A & B & PH).
      pose proof (last_open_closed _ _ (ph_closed _ _ _ PH)) as Hlo.
      assert (AY : InvH (o_result oc R) s1).
      { rewrite Hlo in Q1. cbn [close_at] in Q1.
        apply (InvH_yield oc _ s2 s1 q _ A (u_len _ _ HIc) PH Q1); try reflexivity.
        - cbn. destruct (N.leb _ _); discriminate.
        - exact (HinQ Hb). }
      assert (AF : InvH (o_gauges false false (chk10 (chk12a (o_result oc R)
                     (negb true || match lim with Some l0 => Nat.leb (length (s_inflight s1)) l0 | None => true end))
                     (negb false || Nat.eqb (length (s_inflight s1)) 0)) (length (s_inflight s1)) (length (s_timers s1))) s1).
      { eapply InvH_frame; [exact AY|exact G1|reflexivity..]. }
      split; [exact (h_safe _ _ AF)|split; [exact (h_open_tracked _ _ AF)|split; [|split; [|intros _; exact AF]]]].
      + rewrite W8. oproj. rewrite ?andb_true_r. rewrite Y8, B. destruct HPc as (Qp & _). rewrite Qp, !N.eqb_refl. cbn [andb].
        rewrite (u_len _ _ HIc), Nat.eqb_refl. unfold not_must. rewrite Hlo. reflexivity.
      + rewrite W4, Y4. oproj. rewrite ?andb_true_r. exact (Hpre Hb).
    - (* end of stream *)
      injection EP as <- <-. rewrite Hlog.
      destruct Post as (HIc & Hhc & Hcec). destruct PostH as ((_ & G) & Pnone).
      destruct (finish_idle_proj (chk10 oc (o_eof oc && negb (o_dirty oc)))) as (F1 & F2 & F3 & F4 & F5 & F6 & F7 & F8).
      destruct (finish_idle_flags (chk10 oc (o_eof oc && negb (o_dirty oc)))) as (Y8 & Y4 & Yb).
      cbv zeta in *. oproj.
      assert (Hd1 : s_dropped s2 = false) by (rewrite <- (u_dropped _ _ HIc), Pd; exact Hod).
      unfold ostep. rewrite EH. cbn [negb].
      rewrite (split_gauges_poll s2 new OStreamEnd Hd1 I). rewrite Hod, EC.
      unfold o_calls. fold oc. cbn [o_result]. rewrite F3, Pd, Hod, F6, Hcec.
      match goal with |- TopH (o_gauges ?a ?b ?x ?g1 ?g2) _ =>
        destruct (o_gauges_proj a b x g1 g2) as (G1 & G2 & G3 & G4 & G5 & G6 & G7 & G8 & G9);
        destruct (o_gauges_flags a b x g1 g2) as (W8 & W4 & Wb) end.
      cbv zeta in *. oproj.
      intros _ Hb. rewrite Wb, Yb in Hb. rewrite ?andb_true_r in Hb. destruct (G Hb) as (A & B).
      match goal with |- Safe _ /\ OpenTrk ?of _ /\ _ => assert (AF : InvH of s2) end.
      { eapply (InvH_map oc _ s2 s2 (fun i => if o_blocked oc then (if is_open (oi_wire i) && N.leb (oi_when i) (o_now oc) then set_late i else i)
                                              else match oi_wire i with WMaybe => set_wire i WClosed | _ => i end) A);
          try reflexivity.
        - rewrite G1, F1. destruct (o_blocked oc); reflexivity.
        - intros i. destruct (o_blocked oc); [destruct (is_open (oi_wire i) && _)|destruct (oi_wire i)]; cbn; auto.
        - intros i. destruct (o_blocked oc); [destruct (is_open (oi_wire i) && _)|destruct (oi_wire i) eqn:E]; cbn; rewrite ?E; auto; discriminate.
        - intros i. destruct (o_blocked oc); [destruct (is_open (oi_wire i) && _)|destruct (oi_wire i) eqn:E]; cbn; rewrite ?E; auto; discriminate.
        - intros i. destruct (o_blocked oc); [destruct (is_open (oi_wire i) && _)|destruct (oi_wire i) eqn:E]; cbn; rewrite ?E; auto; discriminate. }
      split; [exact (h_safe _ _ AF)|split; [exact (h_open_tracked _ _ AF)|split; [|split; [|intros _; exact AF]]]].
      + rewrite W8, Y8. oproj. rewrite ?andb_true_r, B, Pnone. reflexivity.
      + rewrite W4, Y4. oproj. rewrite ?andb_true_r. exact (Hpre Hb).
    - (* an error *)
      injection EP as <- <-. rewrite Hlog.
      destruct (o_result_err_proj oc a) as (E1 & E2 & E3 & E4 & E5 & E6 & E7).
      destruct (o_result_err_flags oc a) as (Y8 & Y4 & Yb). cbv zeta in *.
      assert (HI1 : InvU (o_result oc (OStreamErr a)) s2).
      { destruct Post as [(HIc & _)|(q & s3 & (HIc & _) & ->)].
        - apply (InvU_err oc _ s2 s2 HIc); auto; try (intros E; rewrite E4; exact E).
        - apply (InvU_err oc _ s3 _ HIc); auto; sproj; auto;
            try (intros E; rewrite E4; exact E);
            try (intros id Hin; apply in_or_app; left; exact Hin). }
      assert (Hd1 : s_dropped s2 = false) by (rewrite <- (u_dropped _ _ HI1), E3, Pd; exact Hod).
      unfold ostep. rewrite EH. cbn [negb].
      rewrite (split_gauges_poll s2 new (OStreamErr a) Hd1 I). rewrite Hod, EC.
      unfold o_calls. fold oc. rewrite E3, Pd, Hod, E5.
      intros _ Hb. rewrite Yb in Hb. destruct (PostH Hb) as (S2 & B & OT).
      split; [exact S2|split; [|split; [congruence|split; [rewrite Y4; exact (Hpre Hb)|rewrite E5; discriminate]]]].
      intros k oi Hk Hw. rewrite E1 in Hk. exact (OT k oi Hk Hw).
    - (* pending *)
      injection EP as <- <-. rewrite Hlog.
      destruct Post as (HIc & Hhc & Hcec). destruct PostH as ((_ & G) & Pnone).
      destruct (finish_idle_proj oc) as (F1 & F2 & F3 & F4 & F5 & F6 & F7 & F8).
      destruct (finish_idle_flags oc) as (Y8 & Y4 & Yb). cbv zeta in *.
      assert (Hd1 : s_dropped s2 = false) by (rewrite <- (u_dropped _ _ HIc), Pd; exact Hod).
      unfold ostep. rewrite EH. cbn [negb].
      rewrite (split_gauges_poll s2 new OPending Hd1 I). rewrite Hod, EC.
      unfold o_calls. fold oc. cbn [o_result]. rewrite F3, Pd, Hod, F6, Hcec.
      match goal with |- TopH (o_gauges ?a ?b ?x ?g1 ?g2) _ =>
        destruct (o_gauges_proj a b x g1 g2) as (G1 & G2 & G3 & G4 & G5 & G6 & G7 & G8 & G9);
        destruct (o_gauges_flags a b x g1 g2) as (W8 & W4 & Wb) end.
      cbv zeta in *. oproj.
      intros _ Hb. rewrite Wb, Yb in Hb. destruct (G Hb) as (A & B).
      match goal with |- Safe _ /\ OpenTrk ?of _ /\ _ => assert (AF : InvH of s2) end.
      { eapply (InvH_map oc _ s2 s2 (fun i => if o_blocked oc then (if is_open (oi_wire i) && N.leb (oi_when i) (o_now oc) then set_late i else i)
                                              else match oi_wire i with WMaybe => set_wire i WClosed | _ => i end) A);
          try reflexivity.
        - rewrite G1, F1. destruct (o_blocked oc); reflexivity.
        - intros i. destruct (o_blocked oc); [destruct (is_open (oi_wire i) && _)|destruct (oi_wire i)]; cbn; auto.
        - intros i. destruct (o_blocked oc); [destruct (is_open (oi_wire i) && _)|destruct (oi_wire i) eqn:E]; cbn; rewrite ?E; auto; discriminate.
        - intros i. destruct (o_blocked oc); [destruct (is_open (oi_wire i) && _)|destruct (oi_wire i) eqn:E]; cbn; rewrite ?E; auto; discriminate.
        - intros i. destruct (o_blocked oc); [destruct (is_open (oi_wire i) && _)|destruct (oi_wire i) eqn:E]; cbn; rewrite ?E; auto; discriminate. }
      split; [exact (h_safe _ _ AF)|split; [exact (h_open_tracked _ _ AF)|split; [|split; [|intros _; exact AF]]]].
      + rewrite W8. oproj. rewrite ?andb_true_r. rewrite Y8, B, Pnone. reflexivity.
      + rewrite W4, Y4. oproj. rewrite ?andb_true_r. exact (Hpre Hb).
  Qed.
End PollH.
