(* The client model instantiated with the scripted transport, and the concrete script ops the
   correspondence harness prints.  No proofs here. *)
From Coq Require Import List Bool Arith NArith.
Import ListNotations.
From TarpcV Require Import Base Transport Client.
Local Open Scope N_scope.

Definition stp : transport (stransport resp) cmsg resp := scripted.

Inductive sop :=
| SClone (h : nat) | SDropH (h : nat)
| SCall (h : nat) (d tid : N) (sampled : bool) (body : N)
| SPollCall (i : nat) | SDropCall (i : nat) | SGClose (i : nat) | SGCancel (i : nat)
| SPollD | SDropD | SAdv (dt : N)
| STr (o : trop resp)
| SNop.

Definition to_op (o : sop) : op (T := stransport resp) :=
  match o with
  | SClone h => CloneHandle h | SDropH h => DropHandle h
  | SCall h d tid smp b => Call h d tid smp b
  | SPollCall i => PollCall i | SDropCall i => DropCall i
  | SGClose i => GuardClose i | SGCancel i => GuardCancel i
  | SPollD => PollDispatch | SDropD => DropDispatch | SAdv dt => Advance dt
  | STr o => Tr (fun t => s_control t o)
  | SNop => Advance 0
  end.

(* every iteration of the dispatch's pump loop consumes an inbound item, a queued request,
   a queued cancellation or an expired timer, or ends the poll *)
Definition sfuel (s : cstate (T := stransport resp)) : nat :=
  (8 + 2 * (length (st_inbox (tr s)) + length (queue s) + length (cancels s)
            + length (timers s)))%nat.

Record ccfg := { cf_qcap : nat; cf_maxif : nat; cf_cap : nat; cf_coupled : bool }.

Definition cinit (c : ccfg) : cstate (T := stransport resp) :=
  init (st_init resp (cf_cap c) (cf_coupled c)) (cf_qcap c) (cf_maxif c).

Definition crun (c : ccfg) (ops : list sop) : list (list (obs)) :=
  fst (run_from stp sfuel (cinit c) (map to_op ops)).

(* ---------------------------------------------------------------- equality of observations *)
Definition tctx_eqb (a b : tctx) : bool :=
  (tc_tid a =? tc_tid b) && (tc_sid a =? tc_sid b) && Bool.eqb (tc_sampled a) (tc_sampled b).
Definition cmsg_eqb (a b : cmsg) : bool :=
  match a, b with
  | MReq i d t x, MReq i' d' t' x' => (i =? i') && (d =? d') && tctx_eqb t t' && (x =? x')
  | MCancel i t, MCancel i' t' => (i =? i') && tctx_eqb t t'
  | _, _ => false
  end.
Definition rbody_eqb (a b : rbody) : bool :=
  match a, b with BOk v, BOk v' => v =? v' | BErr k, BErr k' => k =? k' | _, _ => false end.
Definition resp_eqb (a b : resp) : bool := (r_id a =? r_id b) && rbody_eqb (r_body a) (r_body b).
Definition outcome_eqb (a b : outcome) : bool :=
  match a, b with
  | OReply v, OReply v' => v =? v' | OSrvErr k, OSrvErr k' => k =? k'
  | ODeadline, ODeadline | OSendErr, OSendErr | OShutdown, OShutdown => true
  | OConnErr x, OConnErr y => activity_eqb x y
  | _, _ => false
  end.
Definition cpoll_eqb (a b : cpoll) : bool :=
  match a, b with
  | CPending, CPending | CNothing, CNothing => true
  | CDone x, CDone y => outcome_eqb x y
  | _, _ => false
  end.
Definition dpoll_eqb (a b : dpoll) : bool :=
  match a, b with
  | DPending, DPending | DFuel, DFuel => true
  | DReady DOk, DReady DOk => true
  | DReady (DErr x), DReady (DErr y) => activity_eqb x y
  | _, _ => false
  end.
Definition obs_eqb (a b : obs) : bool :=
  match a, b with
  | OPanic, OPanic | OSpin, OSpin => true
  | OCall x, OCall y => cpoll_eqb x y
  | OCalls x, OCalls y => list_eqb (tcall_eqb cmsg_eqb resp_eqb) x y
  | ODisp x, ODisp y => dpoll_eqb x y
  | OGauge a1 b1, OGauge a2 b2 => (a1 =? a2) && (b1 =? b2)
  | _, _ => false
  end.
Definition trace_eqb := list_eqb (list_eqb obs_eqb).

Definition mkresp (id : N) (b : rbody) : resp := {| r_id := id; r_body := b |}.
Definition mktc (t s : N) (b : bool) : tctx := {| tc_tid := t; tc_sid := s; tc_sampled := b |}.
Definition mkcfg (q m c : nat) (k : bool) : ccfg :=
  {| cf_qcap := q; cf_maxif := m; cf_cap := c; cf_coupled := k |}.
