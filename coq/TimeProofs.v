(* Proofs about the time-arithmetic model Time.v: C07 (deadline propagation) and C16 (no panic
   on any deadline).  Technique: bridge the (secs, nanos) records to one line of nanoseconds
   (ts_ns, dur_ns), then linear integer arithmetic. *)
From Coq Require Import List ZArith Bool Lia.
Import ListNotations.
From TarpcV Require Import Time.
Local Open Scope Z_scope.

(* the largest nanosecond count an Instant/SystemTime can hold, plus one *)
Definition ts_limit : Z := (i64_max + 1) * NS.
(* environment: a monotonic clock that leaves room for MAX_TIMEOUT below i64::MAX seconds *)
Definition mono_env (t : timespec) : Prop := ts_wf t /\ t_secs t + max_timeout_secs + 1 <= i64_max.
(* environment: a wall clock that is not before 1970 *)
Definition wall_env (t : timespec) : Prop := ts_wf t /\ 0 <= t_secs t.
(* the residual range of tokio-util's timer wheel once timeouts are clamped to MAX_TIMEOUT *)
Definition dq_lag_max : Z := dq_max - max_timeout_secs * 1000.
(* environment: a timer queue created at `start`, whose wheel has advanced to `elapsed` ms, read at `now`:
   the wheel lags the clock by at most dq_lag_max ms *)
Definition dq_env (start : timespec) (elapsed : Z) (now : timespec) : Prop :=
  ts_wf start /\ 0 <= elapsed /\ ts_ns start <= ts_ns now /\
  ms_up (duration_since now start) - elapsed <= dq_lag_max.
Definition hop_env (h : timespec * timespec) : Prop :=
  ts_wf (fst h) /\ mono_env (snd h) /\ ts_ns (fst h) <= ts_ns (snd h).

(* ================= bridging lemmas: records <-> nanoseconds ================= *)

Ltac lits := unfold ts_limit, NS, i64_max, i64_min, u64_max, max_timeout_secs,
                    default_deadline_secs, rfc3339_cap_secs, dq_max in *.

Lemma ts_eq : forall a b, ts_wf a -> ts_wf b -> ts_ns a = ts_ns b -> a = b.
Proof.
  intros [as_ an] [bs bn] [_ Ha] [_ Hb] H. unfold ts_ns in H.
  cbn [t_secs t_nanos] in *. lits.
  assert (as_ = bs) by lia. subst. f_equal. lia.
Qed.

Lemma ts_leb_spec : forall a b, ts_wf a -> ts_wf b -> (ts_leb a b = true <-> ts_ns a <= ts_ns b).
Proof.
  intros [as_ an] [bs bn] [_ Ha] [_ Hb]. unfold ts_leb, ts_ns.
  cbn [t_secs t_nanos] in *.
  rewrite orb_true_iff, andb_true_iff, Z.ltb_lt, Z.eqb_eq, Z.leb_le. lits. lia.
Qed.

Lemma ts_leb_false : forall a b, ts_wf a -> ts_wf b -> (ts_leb a b = false <-> ts_ns b < ts_ns a).
Proof.
  intros a b Ha Hb. pose proof (ts_leb_spec a b Ha Hb) as S.
  destruct (ts_leb a b).
  - split; intro H; [discriminate|].
    assert (ts_ns a <= ts_ns b) by (apply S; reflexivity). lia.
  - split; intro H; [|reflexivity].
    destruct (Z_le_gt_dec (ts_ns a) (ts_ns b)) as [L|L]; [|lia].
    apply S in L. discriminate.
Qed.

Lemma dur_leb_spec : forall a b, dur_wf a -> dur_wf b -> (dur_leb a b = true <-> dur_ns a <= dur_ns b).
Proof.
  intros [as_ an] [bs bn] [_ Ha] [_ Hb]. unfold dur_leb, dur_ns.
  cbn [d_secs d_nanos] in *.
  rewrite orb_true_iff, andb_true_iff, Z.ltb_lt, Z.eqb_eq, Z.leb_le. lits. lia.
Qed.

Lemma dur_min_spec : forall a b, dur_wf a -> dur_wf b ->
  dur_wf (dur_min a b) /\ dur_ns (dur_min a b) = Z.min (dur_ns a) (dur_ns b).
Proof.
  intros a b Ha Hb. unfold dur_min. pose proof (dur_leb_spec a b Ha Hb) as S.
  destruct (dur_leb a b).
  - split; [assumption|]. assert (dur_ns a <= dur_ns b) by (apply S; reflexivity). lia.
  - split; [assumption|].
    destruct (Z_le_gt_dec (dur_ns a) (dur_ns b)) as [L|L]; [|lia].
    apply S in L. discriminate.
Qed.

Lemma ts_min_spec : forall a b, ts_wf a -> ts_wf b ->
  ts_wf (ts_min a b) /\ ts_ns (ts_min a b) = Z.min (ts_ns a) (ts_ns b).
Proof.
  intros a b Ha Hb. unfold ts_min. pose proof (ts_leb_spec a b Ha Hb) as S.
  destruct (ts_leb a b).
  - split; [assumption|]. assert (ts_ns a <= ts_ns b) by (apply S; reflexivity). lia.
  - split; [assumption|].
    destruct (Z_le_gt_dec (ts_ns a) (ts_ns b)) as [L|L]; [|lia].
    apply S in L. discriminate.
Qed.

(* Timespec::checked_add_duration, both outcomes *)
Lemma ts_checked_add_spec : forall t d, ts_wf t -> dur_wf d ->
  match ts_checked_add t d with
  | Some x => ts_ns x = ts_ns t + dur_ns d /\ ts_wf x /\ ts_ns t + dur_ns d < ts_limit
  | None => ts_limit <= ts_ns t + dur_ns d
  end.
Proof.
  intros [ts tn] [ds dn] [Ht1 Ht2] [Hd1 Hd2]. unfold ts_checked_add, ts_ns, dur_ns, ts_wf in *.
  cbn [t_secs t_nanos d_secs d_nanos] in *.
  destruct (i64_max <? ts + ds) eqn:E1.
  { apply Z.ltb_lt in E1. lits. lia. }
  apply Z.ltb_ge in E1.
  destruct (NS <=? dn + tn) eqn:E2.
  - apply Z.leb_le in E2.
    destruct (i64_max <? ts + ds + 1) eqn:E3.
    { apply Z.ltb_lt in E3. lits. lia. }
    apply Z.ltb_ge in E3. cbn [t_secs t_nanos]. lits. lia.
  - apply Z.leb_gt in E2. cbn [t_secs t_nanos]. lits. lia.
Qed.

Lemma ts_checked_add_some : forall t d x, ts_wf t -> dur_wf d -> ts_checked_add t d = Some x ->
  ts_ns x = ts_ns t + dur_ns d /\ ts_wf x.
Proof.
  intros t d x Ht Hd H. pose proof (ts_checked_add_spec t d Ht Hd) as S.
  rewrite H in S. tauto.
Qed.

Lemma ts_checked_add_none : forall t d, ts_wf t -> dur_wf d ->
  (ts_checked_add t d = None <-> ts_ns t + dur_ns d >= ts_limit).
Proof.
  intros t d Ht Hd. pose proof (ts_checked_add_spec t d Ht Hd) as S.
  destruct (ts_checked_add t d); split; intro H; try discriminate; try reflexivity; lia.
Qed.

Lemma ts_sub_ge_spec : forall a b, ts_wf a -> ts_wf b -> ts_ns b <= ts_ns a ->
  dur_wf (ts_sub_ge a b) /\ dur_ns (ts_sub_ge a b) = ts_ns a - ts_ns b.
Proof.
  intros [as_ an] [bs bn] [Ha1 Ha2] [Hb1 Hb2] H. unfold ts_sub_ge, ts_ns, dur_ns, dur_wf in *.
  cbn [t_secs t_nanos] in *.
  destruct (bn <=? an) eqn:E; [apply Z.leb_le in E | apply Z.leb_gt in E];
    cbn [d_secs d_nanos]; lits; lia.
Qed.

Lemma duration_since_spec : forall a b, ts_wf a -> ts_wf b ->
  dur_wf (duration_since a b) /\ dur_ns (duration_since a b) = Z.max 0 (ts_ns a - ts_ns b).
Proof.
  intros a b Ha Hb. unfold duration_since.
  destruct (ts_leb b a) eqn:E.
  - apply (ts_leb_spec b a Hb Ha) in E.
    destruct (ts_sub_ge_spec a b Ha Hb E) as [W N]. split; [assumption|]. lia.
  - apply (ts_leb_false b a Hb Ha) in E. split.
    + unfold dur_wf. cbn [d_secs d_nanos]. lits. lia.
    + unfold dur_ns. cbn [d_secs d_nanos]. lia.
Qed.

Lemma max_timeout_wf : dur_wf max_timeout /\ dur_ns max_timeout = max_timeout_secs * NS.
Proof.
  unfold max_timeout, from_secs, dur_wf, dur_ns. cbn [d_secs d_nanos]. lits. lia.
Qed.

(* adding at most MAX_TIMEOUT to a mono_env clock always succeeds *)
Lemma mono_add_ok : forall now d, mono_env now -> dur_wf d -> dur_ns d <= max_timeout_secs * NS ->
  exists x, ts_checked_add now d = Some x /\ ts_wf x /\ ts_ns x = ts_ns now + dur_ns d.
Proof.
  intros now d [Hn Hm] Hd Hle. pose proof (ts_checked_add_spec now d Hn Hd) as S.
  destruct (ts_checked_add now d) as [x|].
  - exists x. tauto.
  - exfalso. destruct Hn as [Hn1 Hn2]. unfold ts_ns in *. lits. lia.
Qed.

(* ---------------- C07 ---------------- *)
Lemma ser_deadline_spec : forall now D, ts_wf now -> ts_wf D ->
  dur_wf (ser_deadline now D) /\ dur_ns (ser_deadline now D) = Z.max 0 (ts_ns D - ts_ns now).
Proof.
  intros now D Hn HD. unfold ser_deadline. apply duration_since_spec; assumption.
Qed.

Lemma de_deadline_spec : forall now d, mono_env now -> dur_wf d ->
  exists D, de_deadline now d = Ok D /\ ts_wf D /\
    (ts_ns now + dur_ns d < ts_limit -> ts_ns D = ts_ns now + dur_ns d) /\
    (ts_limit <= ts_ns now + dur_ns d -> ts_ns D = ts_ns now + max_timeout_secs * NS).
Proof.
  intros now d Hm Hd. unfold de_deadline.
  pose proof (ts_checked_add_spec now d (proj1 Hm) Hd) as S.
  destruct (ts_checked_add now d) as [x|].
  - exists x. destruct S as (S1 & S2 & S3).
    split; [reflexivity|]. split; [assumption|]. split; intro; lia.
  - destruct max_timeout_wf as [W N].
    destruct (mono_add_ok now max_timeout Hm W) as (x & Hx & Hxw & Hxn); [lia|].
    unfold instant_add. rewrite Hx. exists x.
    split; [reflexivity|]. split; [assumption|]. split; intro; lia.
Qed.

(* one hop never errs, whatever the deadline *)
Theorem hop_total : forall ts tr D, ts_wf ts -> mono_env tr -> ts_wf D ->
  exists D', hop ts tr D = Ok D' /\ ts_wf D'.
Proof.
  intros ts tr D Hts Htr HD. unfold hop.
  destruct (ser_deadline_spec ts D Hts HD) as [W _].
  destruct (de_deadline_spec tr _ Htr W) as (D' & H1 & H2 & _).
  exists D'. tauto.
Qed.

(* one hop: sender clock ts, receiver clock tr on the same time line, tr >= ts *)
Theorem deadline_hop_holds : forall ts tr D, ts_wf ts -> mono_env tr -> ts_wf D ->
  ts_ns ts <= ts_ns tr ->
  Z.max (ts_ns D) (ts_ns ts) + (ts_ns tr - ts_ns ts) < ts_limit ->
  exists D', hop ts tr D = Ok D' /\ ts_wf D' /\
    (ts_ns ts <= ts_ns D -> ts_ns D' = ts_ns D + (ts_ns tr - ts_ns ts)) /\
    (ts_ns D < ts_ns ts -> D' = tr) /\
    ts_ns D <= ts_ns D'.
Proof.
  intros ts tr D Hts Htr HD Hle Hlim. unfold hop.
  destruct (ser_deadline_spec ts D Hts HD) as [W N].
  destruct (de_deadline_spec tr _ Htr W) as (D' & H1 & H2 & H3 & _).
  exists D'. split; [assumption|]. split; [assumption|].
  assert (E : ts_ns D' = ts_ns tr + Z.max 0 (ts_ns D - ts_ns ts)) by (rewrite <- N; apply H3; lia).
  split; [|split].
  - intro. lia.
  - intro. apply ts_eq; try assumption. apply Htr. lia.
  - lia.
Qed.

(* the representability premise is necessary: within transit time of the end of the Instant
   range the decoder saturates at now + MAX_TIMEOUT, which is EARLIER than the sender's deadline *)
Lemma deadline_hop_saturation_refuted : exists ts tr D D',
  ts_wf ts /\ mono_env tr /\ ts_wf D /\ ts_ns ts <= ts_ns tr /\ ts_ns ts <= ts_ns D /\
  hop ts tr D = Ok D' /\ ts_ns D' < ts_ns D.
Proof.
  exists {| t_secs := 0; t_nanos := 0 |},
         {| t_secs := i64_max - max_timeout_secs - 1; t_nanos := 0 |},
         {| t_secs := i64_max; t_nanos := 0 |},
         {| t_secs := i64_max - 1; t_nanos := 0 |}.
  unfold mono_env, ts_wf, ts_ns. cbn [t_secs t_nanos].
  split; [lits; lia|]. split; [lits; lia|]. split; [lits; lia|].
  split; [lits; lia|]. split; [lits; lia|].
  split; [vm_compute; reflexivity | lits; lia].
Qed.

Lemma transit_nonneg : forall hops, Forall hop_env hops -> 0 <= transit_ns hops.
Proof.
  induction 1 as [|[ts tr] r Hh HF IH]; cbn [transit_ns]; [lia|].
  destruct Hh as (_ & _ & Hle). cbn [fst snd] in Hle. lia.
Qed.

Lemma latest_send_ge : forall hops D, ts_ns D <= latest_send D hops.
Proof.
  induction hops as [|[ts tr] r IH]; intro D; cbn [latest_send]; [lia|].
  specialize (IH D). lia.
Qed.

Lemma latest_send_shift : forall hops D D' x c, 0 <= c ->
  ts_ns D' <= Z.max (ts_ns D) x + c ->
  latest_send D' hops <= Z.max x (latest_send D hops) + c.
Proof.
  induction hops as [|[ts tr] r IH]; intros D D' x c Hc H; cbn [latest_send]; [lia|].
  specialize (IH D D' x c Hc H). lia.
Qed.

(* n hops, each sent before the deadline it carries has passed *)
Theorem deadline_chain_holds : forall hops D0, ts_wf D0 -> Forall hop_env hops ->
  sent_in_time D0 hops ->
  ts_ns D0 + transit_ns hops < ts_limit ->
  exists Dn, chain D0 hops = Ok Dn /\ ts_wf Dn /\
    ts_ns Dn - ts_ns D0 = transit_ns hops /\
    0 <= ts_ns Dn - ts_ns D0 <= transit_ns hops.
Proof.
  induction hops as [|[ts tr] r IH]; intros D0 HD HF Hs Hlim.
  - exists D0. cbn [chain transit_ns]. split; [reflexivity|]. split; [assumption|]. lia.
  - inversion HF as [|h l Hh HF']; subst.
    destruct Hh as (Hts & Htr & Hle). cbn [fst snd] in *.
    cbn [sent_in_time] in Hs. destruct Hs as [Hs1 Hs2].
    cbn [transit_ns] in *.
    pose proof (transit_nonneg r HF') as Hr.
    destruct (deadline_hop_holds ts tr D0 Hts Htr HD Hle) as (D' & Hhop & HD' & Heq & _ & _); [lia|].
    rewrite Hhop in Hs2. specialize (Heq Hs1).
    destruct (IH D' HD' HF' Hs2) as (Dn & Hc & Hw & He & _); [lia|].
    exists Dn. cbn [chain]. rewrite Hhop. unfold rbind.
    split; [assumption|]. split; [assumption|]. lia.
Qed.

(* n hops in general (a hop may be sent after the deadline passed: it then arrives as "now") *)
Theorem deadline_chain_late_holds : forall hops D0, ts_wf D0 -> Forall hop_env hops ->
  latest_send D0 hops + transit_ns hops < ts_limit ->
  exists Dn, chain D0 hops = Ok Dn /\ ts_wf Dn /\
    ts_ns D0 <= ts_ns Dn <= latest_send D0 hops + transit_ns hops.
Proof.
  induction hops as [|[ts tr] r IH]; intros D0 HD HF Hlim.
  - exists D0. cbn [chain transit_ns latest_send]. split; [reflexivity|]. split; [assumption|]. lia.
  - inversion HF as [|h l Hh HF']; subst.
    destruct Hh as (Hts & Htr & Hle). cbn [fst snd] in *.
    cbn [transit_ns latest_send] in *.
    pose proof (transit_nonneg r HF') as Hr.
    pose proof (latest_send_ge r D0) as Hg.
    destruct (deadline_hop_holds ts tr D0 Hts Htr HD Hle) as (D' & Hhop & HD' & Heq & Hlt & Hge); [lia|].
    assert (E : ts_ns D' = Z.max (ts_ns D0) (ts_ns ts) + (ts_ns tr - ts_ns ts)).
    { destruct (Z_le_gt_dec (ts_ns ts) (ts_ns D0)) as [L|L].
      - rewrite (Heq L). lia.
      - rewrite (Hlt ltac:(lia)). lia. }
    assert (S : latest_send D' r <= Z.max (ts_ns ts) (latest_send D0 r) + (ts_ns tr - ts_ns ts)).
    { apply latest_send_shift; lia. }
    destruct (IH D' HD' HF') as (Dn & Hc & Hw & He); [lia|].
    exists Dn. cbn [chain]. rewrite Hhop. unfold rbind.
    split; [assumption|]. split; [assumption|]. lia.
Qed.

Theorem default_deadline_holds : forall now, mono_env now ->
  exists D, de_context_deadline now None = Ok D /\ ts_wf D /\
            ts_ns D = ts_ns now + default_deadline_secs * NS.
Proof.
  intros now Hm. unfold de_context_deadline, ten_seconds_from_now, instant_add.
  assert (W : dur_wf (from_secs default_deadline_secs) /\
              dur_ns (from_secs default_deadline_secs) = default_deadline_secs * NS).
  { unfold from_secs, dur_wf, dur_ns. cbn [d_secs d_nanos]. lits. lia. }
  destruct W as [W N].
  destruct (mono_add_ok now _ Hm W) as (x & Hx & Hxw & Hxn).
  { rewrite N. lits. lia. }
  rewrite Hx. exists x. split; [reflexivity|]. split; [assumption|]. lia.
Qed.

(* ---------------- C16 ---------------- *)
(* decoding never panics, for every Duration in u64 x [0, 10^9) *)
Theorem decode_no_panic : forall now d, mono_env now -> dur_wf d ->
  exists D, de_deadline now d = Ok D /\ ts_wf D /\ ts_ns now <= ts_ns D.
Proof.
  intros now d Hm Hd.
  destruct (de_deadline_spec now d Hm Hd) as (D & H1 & H2 & H3 & H4).
  exists D. split; [assumption|]. split; [assumption|].
  assert (0 <= dur_ns d) by (destruct Hd; unfold dur_ns; lits; lia).
  destruct (Z_lt_le_dec (ts_ns now + dur_ns d) ts_limit) as [L|L].
  - rewrite (H3 L). lia.
  - rewrite (H4 L). lits. lia.
Qed.

(* tokio_util's ms(d, Round::Up) on one line *)
Lemma ms_up_spec : forall d, dur_wf d ->
  ms_up d = Z.min u64_max ((dur_ns d + 999999) / 1000000).
Proof.
  intros [s n] [Hs Hn]. unfold ms_up, dur_ns. cbn [d_secs d_nanos] in *. lits.
  Z.div_mod_to_equations. lia.
Qed.

(* the clamped timeout *)
Lemma clamp_spec : forall now D, ts_wf now -> ts_wf D ->
  dur_wf (dur_min (time_until now D) max_timeout) /\
  0 <= dur_ns (dur_min (time_until now D) max_timeout) <= max_timeout_secs * NS.
Proof.
  intros now D Hn HD. unfold time_until.
  destruct (duration_since_spec D now HD Hn) as [W N].
  destruct max_timeout_wf as [MW MN].
  destruct (dur_min_spec _ _ W MW) as [W' N'].
  split; [assumption|]. rewrite N', N, MN. lits. lia.
Qed.

(* arithmetic core of arm_no_panic: A = clock - start, B = clamped timeout, both in ns *)
Lemma arm_arith : forall A B elapsed,
  0 <= A -> 0 <= B <= 31536000 * 1000000000 -> 0 <= elapsed ->
  Z.min 18446744073709551615 ((A + 999999) / 1000000) - elapsed <= 68719476735 - 31536000 * 1000 ->
  Z.max (Z.min 18446744073709551615 ((A + B + 999999) / 1000000)) elapsed - elapsed <= 68719476735.
Proof.
  intros A B elapsed HA HB He H.
  assert (M : (A + B + 999999) / 1000000 <= (A + 999999) / 1000000 + 31536000000).
  { replace ((A + 999999) / 1000000 + 31536000000)
      with ((A + 999999 + 31536000000 * 1000000) / 1000000)
      by (rewrite Z.div_add by lia; reflexivity).
    apply Z.div_le_mono; lia. }
  lia.
Qed.

(* arming the timer never panics, for EVERY instant D (peer-decoded or chosen by a local caller) *)
Theorem arm_no_panic : forall start elapsed now_std now_tokio D,
  ts_wf now_std -> mono_env now_tokio -> ts_wf D -> dq_env start elapsed now_tokio ->
  exists a, arm_timer start elapsed now_std now_tokio D = Ok a.
Proof.
  intros start elapsed now_std now_tokio D Hs Hm HD (Hst & He & Hle & Hlag).
  unfold arm_timer, dq_insert.
  destruct (clamp_spec now_std D Hs HD) as (TW & TN).
  set (T := dur_min (time_until now_std D) max_timeout) in *.
  destruct (mono_add_ok now_tokio T Hm TW) as (w & Hw & Hww & Hwn); [lia|].
  unfold instant_add. rewrite Hw. unfold rbind.
  assert (L : ts_ltb w start = false).
  { unfold ts_ltb. apply negb_false_iff. apply ts_leb_spec; try assumption. lia. }
  rewrite L. cbv zeta.
  destruct (Z.max (ms_up (duration_since w start)) elapsed <=? elapsed); [eexists; reflexivity|].
  destruct (dq_max <? Z.max (ms_up (duration_since w start)) elapsed - elapsed) eqn:E;
    [|eexists; reflexivity].
  exfalso. apply Z.ltb_lt in E.
  destruct (duration_since_spec w start Hww Hst) as [W1 N1].
  destruct (duration_since_spec now_tokio start (proj1 Hm) Hst) as [W2 N2].
  rewrite (ms_up_spec _ W1) in E. rewrite (ms_up_spec _ W2) in Hlag.
  rewrite N1 in E. rewrite N2 in Hlag. unfold dq_lag_max in Hlag.
  rewrite Hwn in E.
  rewrite (Z.max_r 0 (ts_ns now_tokio + dur_ns T - ts_ns start)) in E by lia.
  rewrite (Z.max_r 0 (ts_ns now_tokio - ts_ns start)) in Hlag by lia.
  replace (ts_ns now_tokio + dur_ns T - ts_ns start)
    with ((ts_ns now_tokio - ts_ns start) + dur_ns T) in E by lia.
  pose proof (arm_arith (ts_ns now_tokio - ts_ns start) (dur_ns T) elapsed) as AA.
  lits. lia.
Qed.

(* computing and rendering the rpc.deadline field never panics *)
Theorem field_no_panic : forall listening wall now D,
  wall_env wall -> ts_wf now -> ts_wf D -> deadline_field listening wall now D = Ok tt.
Proof.
  intros listening wall now D [Hw Hw0] Hn HD.
  unfold deadline_field, format_deadline.
  replace (systime_add unix_epoch (from_secs rfc3339_cap_secs))
    with (Ok {| t_secs := rfc3339_cap_secs; t_nanos := 0 |}) by (vm_compute; reflexivity).
  unfold rbind. destruct listening; [|reflexivity].
  set (mx := {| t_secs := rfc3339_cap_secs; t_nanos := 0 |}).
  assert (Hmx : ts_wf mx) by (unfold mx, ts_wf; cbn [t_secs t_nanos]; lits; lia).
  assert (Nmx : ts_ns mx = rfc3339_cap_secs * NS) by (unfold mx, ts_ns; cbn [t_secs t_nanos]; lia).
  assert (He : ts_wf unix_epoch) by (unfold unix_epoch, ts_wf; cbn [t_secs t_nanos]; lits; lia).
  assert (Ne : ts_ns unix_epoch = 0) by reflexivity.
  (* the formatted instant lies in [epoch, cap] *)
  assert (R : exists t, match ts_checked_add wall (time_until now D) with
                        | Some x => ts_min x mx | None => mx end = t /\
                        ts_wf t /\ 0 <= ts_ns t <= rfc3339_cap_secs * NS).
  { unfold time_until. destruct (duration_since_spec D now HD Hn) as [W N].
    pose proof (ts_checked_add_spec wall _ Hw W) as S.
    destruct (ts_checked_add wall (duration_since D now)) as [x|].
    - destruct S as (S1 & S2 & _). destruct (ts_min_spec x mx S2 Hmx) as [W' N'].
      eexists. split; [reflexivity|]. split; [assumption|].
      rewrite N', S1, N, Nmx. destruct Hw as [_ Hw]. unfold ts_ns. lits. lia.
    - exists mx. split; [reflexivity|]. split; [assumption|]. rewrite Nmx. lits. lia. }
  destruct R as (t & -> & Ht & Hr).
  unfold render_rfc3339.
  assert (L : ts_ltb t unix_epoch = false).
  { unfold ts_ltb. apply negb_false_iff. apply ts_leb_spec; try assumption. lia. }
  rewrite L.
  destruct (duration_since_spec t unix_epoch Ht He) as [W N].
  rewrite Ne in N.
  destruct (rfc3339_cap_secs + 1 <=? d_secs (duration_since t unix_epoch)) eqn:E; [|reflexivity].
  exfalso. apply Z.leb_le in E. destruct W as [_ Wn]. unfold dur_ns in N. lits. lia.
Qed.

Theorem server_no_panic : forall listening start elapsed wall now w,
  mono_env now -> wall_env wall -> dq_env start elapsed now ->
  match w with Some d => dur_wf d | None => True end ->
  exists D a, server_receive listening start elapsed wall now w = Ok (D, a) /\ ts_wf D.
Proof.
  intros listening start elapsed wall now w Hm Hw Hq Hd.
  assert (DD : exists D, de_context_deadline now w = Ok D /\ ts_wf D).
  { destruct w as [d|].
    - destruct (decode_no_panic now d Hm Hd) as (D & H1 & H2 & _). exists D. tauto.
    - destruct (default_deadline_holds now Hm) as (D & H1 & H2 & _). exists D. tauto. }
  destruct DD as (D & HD & HDw).
  destruct (arm_no_panic start elapsed now now D (proj1 Hm) Hm HDw Hq) as (a & Ha).
  exists D, a. split; [|assumption].
  unfold server_receive. rewrite HD. unfold rbind at 1.
  rewrite (field_no_panic listening wall now D Hw (proj1 Hm) HDw). unfold rbind at 1.
  rewrite Ha. reflexivity.
Qed.

Theorem client_no_panic : forall listening start elapsed wall now D,
  mono_env now -> wall_env wall -> dq_env start elapsed now -> ts_wf D ->
  exists a d, client_send listening start elapsed wall now D = Ok (a, d) /\ dur_wf d.
Proof.
  intros listening start elapsed wall now D Hm Hw Hq HD.
  destruct (arm_no_panic start elapsed now now D (proj1 Hm) Hm HD Hq) as (a & Ha).
  exists a, (ser_deadline now D). split.
  - unfold client_send.
    rewrite (field_no_panic listening wall now D Hw (proj1 Hm) HD). unfold rbind at 1.
    rewrite Ha. reflexivity.
  - apply ser_deadline_spec; [apply Hm | assumption].
Qed.

(* the pre-fix behaviour, with concrete witnesses (all by computation) *)
Lemma decode_prefix_refuted :
  de_deadline_prefix {| t_secs := 1000000; t_nanos := 0 |} {| d_secs := u64_max; d_nanos := 0 |}
  = Panic SInstantAdd.
Proof. vm_compute; reflexivity. Qed.

Lemma arm_prefix_refuted :
  let now := {| t_secs := 1000000; t_nanos := 0 |} in
  arm_timer_prefix now 0 now now {| t_secs := 1000000 + 3 * 31536000; t_nanos := 0 |} = Panic SDelayQueueRange.
Proof. vm_compute; reflexivity. Qed.

Lemma field_prefix_refuted :
  let now := {| t_secs := 1000000; t_nanos := 0 |} in
  let wall := {| t_secs := 1600000000; t_nanos := 0 |} in
  deadline_field_prefix false wall now {| t_secs := i64_max; t_nanos := 0 |} = Panic SSystemTimeAdd /\
  deadline_field_prefix true wall now {| t_secs := 1000000 + 8000 * 31536000; t_nanos := 0 |} = Panic SRfc3339Year.
Proof. split; vm_compute; reflexivity. Qed.

(* the residual boundary of the repaired code: a timer queue that has been quiet for longer than
   dq_lag_max still panics although the timeout is clamped *)
Lemma arm_lag_refuted :
  let start := {| t_secs := 1000000; t_nanos := 0 |} in
  let now := {| t_secs := 1000000 + 38000000; t_nanos := 0 |} in
  ~ dq_env start 0 now /\
  arm_timer start 0 now now {| t_secs := 1000000 + 38000000 + 31536000; t_nanos := 0 |} = Panic SDelayQueueRange.
Proof.
  split.
  - intros (_ & _ & _ & H). vm_compute in H. apply H. reflexivity.
  - vm_compute; reflexivity.
Qed.
