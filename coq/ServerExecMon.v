(* Executable side of the execute() adapter check (additive to ServerExec.v; no proofs here):
   equality of the application's observations, the Server.v run INDUCED by a list of such
   observations (what the channel saw), and the monitor evaluated on the real code's traces. *)
From Coq Require Import List Bool Arith NArith.
Import ListNotations.
From TarpcV Require Import Base Transport TimerWheel Server ServerMon ServerExec.

Definition eres_eqb (a b : eres) : bool :=
  match a, b with
  | EItem k, EItem k' => Nat.eqb k k'
  | EEnd, EEnd | EPend, EPend | ERepoll, ERepoll => true
  | _, _ => false
  end.

Definition eobs_eqb (a b : eobs) : bool :=
  match a, b with
  | EPolled i r, EPolled i' r' => list_eqb (list_eqb obs_eqb) i i' && eres_eqb r r'
  | EOp l, EOp l' => list_eqb obs_eqb l l'
  | _, _ => false
  end.

(* the Server.v ops and observations the channel saw, read off the application's view: every
   inner poll that an execute-stream poll made is one OPoll *)
Fixpoint induced_of {C : Type} (eops : list (eop C)) (tr : list eobs) : list (op C) * list (list obs) :=
  match eops, tr with
  | o :: eops', x :: tr' =>
    let '(ops, ls) := induced_of eops' tr' in
    match to_op o, x with
    | None, EPolled inner _ => (map (fun _ => OPoll) inner ++ ops, inner ++ ls)
    | Some p, EOp l => (p :: ops, l :: ls)
    | _, _ => (ops, ls)
    end
  | _, _ => ([], [])
  end.

(* shape: polls answer with EPolled, everything else with EOp, same length *)
Fixpoint eshape {C : Type} (eops : list (eop C)) (tr : list eobs) : bool :=
  match eops, tr with
  | [], [] => true
  | o :: eops', x :: tr' =>
    match to_op o, x with
    | None, EPolled _ r => match r with ERepoll => false | _ => eshape eops' tr' end
    | Some _, EOp _ => eshape eops' tr'
    | _, _ => false
    end
  | _, _ => false
  end.

(* the inner Requests stream yielded an error in this poll *)
Definition inner_err (inner : list (list obs)) : bool :=
  existsb (fun l => match inner_result l with Some (SItem (RErr _)) => true | _ => false end) inner.

(* once the adapter has returned End because of an error it never returns an item again, and it
   never polls the Requests stream again *)
Fixpoint no_item_after_err (seen : bool) (tr : list eobs) : bool :=
  match tr with
  | [] => true
  | EPolled inner r :: tr' =>
    (negb seen || (match r with EEnd => true | _ => false end && match inner with [] => true | _ => false end))
    && no_item_after_err (seen || inner_err inner) tr'
  | EOp _ :: tr' => no_item_after_err seen tr'
  end.

(* the monitor on an execute()-driven trace: well shaped; the induced Server.v run satisfies
   stops_after_error and the transport contract over EVERY poll (polls_all, no boundary); the
   adapter ends for good after an error *)
Definition exec_ok {C : Type} (c : cfg) (eops : list (eop C)) (tr : list eobs) : bool :=
  let '(ops, ls) := induced_of eops tr in
  eshape eops tr
  && stops_after_error c ops ls
  && no_fuel ls
  && contract_ok (fun _ : response => true) (polls_all ops ls)
  && no_item_after_err false tr.

(* the scripted instance the correspondence check runs *)
Definition sexec_run (c : cfg) (t0 : stransport cmsg) (eops : list (eop (trop cmsg))) : list eobs :=
  exec_run (@scripted response cmsg) (@s_control cmsg) (fun t => length (st_inbox t)) c t0 eops.
