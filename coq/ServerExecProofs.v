(* The boundary `stops_after_error` discharged for tarpc's own consumer of the Requests stream,
   Requests::execute / Channel::execute, as modelled in ServerExec.v (TakeWhile with the predicate
   is_ok; FilterMap / Map as pure mappings - third-party semantics modelled, not verified).

   exec_stops_after_error: for EVERY transport, environment, fuel measure, configuration, initial
   transport state and op list over the execute-stream ops, the Server.v run the channel sees
   satisfies the observer's hypothesis h_stop (ServerMon.stops_after_error).
   exec_no_poll_after_err: the same, stated on the run itself (no OPoll after a poll that
   yielded OStreamErr).
   Hence, unconditionally for runs driven through execute():
   C14_server_contract_exec (the contract over polls_all: EVERY poll) and C09_server_monitor_exec.

   (TakeWhile does not latch the END of the inner stream: after Requests returned None the adapter
   polls it again if the application polls again; h_stop does not concern that case.) *)
From Coq Require Import List Bool Arith NArith Lia.
Import ListNotations.
From TarpcV Require Import Base Transport TimerWheel Server ServerMon ServerFuel ServerContract
     ServerSim ServerSim2 ServerSim3 ServerSim4 ServerSim5 ServerSim6 ServerSim7 ServerProps
     ServerSpec ServerProofsPC3 ServerExec.

(* ================================================================== the observer's two flags *)
Definition FS (o o' : ostate) : Prop :=
  h_stop (o_v o') = h_stop (o_v o) /\ c_err (o_v o') = c_err (o_v o).
Lemma FS_refl o : FS o o.
Proof. split; reflexivity. Qed.
Lemma FS_trans o1 o2 o3 : FS o1 o2 -> FS o2 o3 -> FS o1 o3.
Proof. intros [] []. split; congruence. Qed.

Lemma FS_mark_bad o : FS o (mark_bad o).
Proof. unfold FS. oproj. rewrite andb_true_r, orb_false_r. auto. Qed.

Lemma FS_hevent o e : FS o (o_hevent o e).
Proof.
  destruct e; cbn [o_hevent]; try apply FS_refl; try apply FS_mark_bad.
  - destruct (nth_error (o_incs o) k); [|apply FS_mark_bad]. unfold FS. oproj. auto.
  - unfold FS. oproj. auto.
  - destruct (nth_error (o_incs o) k); [|apply FS_mark_bad]. unfold FS. oproj. auto.
Qed.
Lemma FS_hevents body : forall o, FS o (fold_left o_hevent body o).
Proof.
  induction body as [|e r IH]; intro o; cbn [fold_left]; [apply FS_refl|].
  eapply FS_trans; [apply FS_hevent|apply IH].
Qed.
Lemma FS_guard_dropped k need o : FS o (guard_dropped k need o).
Proof.
  unfold guard_dropped. destruct (nth_error (o_incs o) k) as [i|]; [|apply FS_refl]. cbv zeta.
  destruct (match oi_ph i with PFresh => _ | _ => _ end), (negb (o_dropped o)); cbn [andb];
    try apply FS_refl; unfold FS; oproj; auto.
Qed.
Lemma FS_gauges st' bl o a b : FS o (o_gauges st' bl o a b).
Proof. destruct (o_gauges_proj st' bl o a b) as (_ & _ & _ & _ & _ & A & B & _). split; assumption. Qed.

(* the end of every ostep *)
Definition tail_of (yielded settled blocked ended : bool) (lim : option nat) (o1 : ostate)
  (g : option (nat * nat)) : ostate :=
  match g with
  | Some (a, b) =>
    if o_dropped o1 then mark_bad o1
    else if c_err (o_v o1) then o1
    else
      let o2 := chk12a o1 (negb yielded || match lim with Some l => Nat.leb a l | None => true end) in
      o_gauges settled blocked (chk10 o2 (negb ended || Nat.eqb a 0)) a b
  | None => if o_dropped o1 then o1 else mark_bad o1
  end.
Lemma FS_tail y st' bl en lim o1 g : FS o1 (tail_of y st' bl en lim o1 g).
Proof.
  unfold tail_of. destruct g as [[a b]|].
  - destruct (o_dropped o1); [apply FS_mark_bad|]. destruct (c_err (o_v o1)); [apply FS_refl|].
    cbv zeta. eapply FS_trans; [|apply FS_gauges]. unfold FS. oproj. auto.
  - destruct (o_dropped o1); [apply FS_refl|apply FS_mark_bad].
Qed.

Ltac fs_tail :=
  match goal with
  | |- FS ?o1 (if o_dropped ?o1 then _ else _) =>
    destruct (o_dropped o1); [apply FS_mark_bad|];
    destruct (c_err (o_v o1)); [apply FS_refl|];
    (eapply FS_trans; [|apply FS_gauges]); unfold FS; oproj; auto
  end.

(* an op other than a poll never changes the two flags, whatever it observed *)
Lemma FS_ostep_nonpoll {C : Type} lim o (p : op C) l :
  match p with OPoll => False | _ => True end -> FS o (ostep lim o p l).
Proof.
  intro Hp. unfold ostep. destruct (h_stop (o_v o)); cbn [negb]; [|apply FS_refl].
  destruct (split_gauges l) as [body g].
  destruct p; try contradiction.
  - change (FS o (tail_of false false false false lim (match body with [] => o | _ => mark_bad o end) g)).
    eapply FS_trans; [|apply FS_tail]. destruct body; [apply FS_refl|apply FS_mark_bad].
  - change (FS o (tail_of false false false false lim (fold_left o_hevent body o) g)).
    eapply FS_trans; [|apply FS_tail]. apply FS_hevents.
  - change (FS o (tail_of false false false false lim (guard_dropped k PStarted (fold_left o_hevent body o)) g)).
    eapply FS_trans; [|apply FS_tail]. eapply FS_trans; [apply FS_hevents|apply FS_guard_dropped].
  - change (FS o (tail_of false false false false lim (guard_dropped k PFresh (fold_left o_hevent body o)) g)).
    eapply FS_trans; [|apply FS_tail]. eapply FS_trans; [apply FS_hevents|apply FS_guard_dropped].
  - match goal with |- FS o (match ?g0 with Some _ => _ | None => _ end) => idtac end.
    change (FS o (tail_of false false false false lim
                    (mko (o_incs o) (o_now o) (o_gauge o) true (o_eof o) (o_dirty o) (o_pend o) (o_first o)
                         (o_after_thr o) (o_blocked o) (o_freed o) (o_errcall o) (o_v o)) g)).
    eapply FS_trans; [|apply FS_tail]. split; reflexivity.
  - change (FS o (tail_of false false false false lim
                    (mko (age (o_now o + dt)%N (o_incs o)) (o_now o + dt)%N (o_gauge o) (o_dropped o) (o_eof o)
                         (o_dirty o) (o_pend o) (o_first o) (o_after_thr o) (o_blocked o) (o_freed o)
                         (o_errcall o) (o_v o)) g)).
    eapply FS_trans; [|apply FS_tail]. split; reflexivity.
Qed.

(* the result of a poll: h_stop is kept; c_err is set only by OStreamErr *)
Lemma oresult_flags o r :
  h_stop (o_v (o_result o r)) = h_stop (o_v o) /\
  (match r with OStreamErr _ => False | _ => True end -> c_err (o_v (o_result o r)) = c_err (o_v o)).
Proof.
  destruct r; try (destruct (FS_mark_bad o) as [A B]; split; [exact A|intros _; exact B]).
  - destruct (o_result_yield_proj o k id dl tr body) as (_ & _ & _ & _ & _ & P6 & P7 & _). auto.
  - cbn [o_result]. destruct (finish_idle_proj o) as (_ & _ & _ & _ & _ & P6 & P7 & _). auto.
  - cbn [o_result]. destruct (finish_idle_proj (chk10 o (o_eof o && negb (o_dirty o)))) as (_ & _ & _ & _ & _ & P6 & P7 & _).
    cbv zeta in *. oproj. auto.
  - destruct (o_result_err_proj o a) as (_ & _ & _ & _ & _ & P6 & _). split; [exact P6|contradiction].
Qed.

(* ================================================================== the adapter *)
Definition errp (l : list obs) : bool :=
  match inner_result l with Some (SItem (RErr _)) => true | _ => false end.

Section ExecProofs.
  Context {T C : Type}.
  Variable tp : transport T response cmsg.
  Variable ctl : T -> C -> T.
  Variable tfuel : T -> nat.
  Variable c : cfg.
  Notation st := (@sstate T).
  Notation est := (@estate T).
  Notation lim := (cfg_limit c).
  Notation sstep := (step tp ctl tfuel c).
  Notation estp := (estep tp ctl tfuel c).

  Definition is_poll (p : op C) : bool := match p with OPoll => true | _ => false end.

  (* one op of the application: the inner stream sees nothing (TakeWhile is done), or one op *)
  Lemma estep_cases (e : est) o e1 ind x :
    estp e o = (e1, ind, x) ->
    (ind = [] /\ e1 = e /\ e_done e = true /\ o = OPollExec) \/
    (exists p l, ind = [(p, l)] /\ sstep (e_s e) p = (e_s e1, l) /\
       (if is_poll p then e_done e = false /\ e_done e1 = errp l else e_done e1 = e_done e)).
  Proof.
    unfold estep. destruct (to_op o) as [p|] eqn:Eo.
    - destruct (sstep (e_s e) p) as [s1 l] eqn:ES. intros [= <- <- <-]. right. exists p, l.
      split; [reflexivity|]. split; [exact ES|]. destruct o; cbn in Eo; try discriminate;
        injection Eo as <-; reflexivity.
    - destruct o; try discriminate. unfold take_while_poll. destruct (e_done e) eqn:Ed.
      + intros [= <- <- <-]. left. auto.
      + destruct (sstep (e_s e) OPoll) as [s1 l] eqn:ES.
        destruct (inner_result l) as [[[k|a]| |]|] eqn:Ei; cbn [is_ok]; intros [= <- <- <-]; right;
          exists OPoll, l; unfold errp; rewrite Ei; cbn [is_poll e_s e_done]; auto.
  Qed.

  (* what the channel emits at a poll *)
  Lemma poll_obs (s : st) s1 l :
    sstep s OPoll = (s1, l) ->
    (l = [] /\ s_dropped s = true) \/
    (exists log r g ab, l = OCalls log :: r :: g /\ split_gauges l = ([OCalls log; r], Some ab) /\
       match r with OYield _ _ _ _ _ | OPending | OStreamEnd | OStreamErr _ | OFuel => True | _ => False end).
  Proof.
    unfold step. destruct (poll_requests tp tfuel c s) as [s0 l0] eqn:EP. intros [= <- <-].
    unfold poll_requests in EP. destruct (s_dropped s) eqn:ED.
    { injection EP as <- <-. left. unfold gauges. rewrite ED. auto. }
    right. destruct (requests_poll_next tp c (poll_fuel tfuel s) (set_log s [])) as [r s2] eqn:ER.
    pose proof (dropped_requests tp _ _ _ _ _ ER) as Hd. sproj.
    assert (Hd0 : s_dropped s0 = false) by (destruct r; injection EP as <- _; sproj; congruence).
    unfold gauges. rewrite Hd0.
    destruct r; injection EP as _ <-; do 4 eexists; (split; [reflexivity|]);
      (split; [|exact I]); unfold split_gauges; destruct (s_bad s0); reflexivity.
  Qed.

  (* h_stop holds, and the observer has seen an error only if TakeWhile is done *)
  Definition VS (o : ostate) (d : bool) : Prop :=
    h_stop (o_v o) = true /\ (c_err (o_v o) = true -> d = true).

  Lemma vs_step o (s : st) p s1 l d d1 :
    VS o d -> sstep s p = (s1, l) ->
    (if is_poll p then d = false /\ d1 = errp l else d1 = d) ->
    VS (ostep lim o p l) d1.
  Proof.
    intros [Hs Hc] ES Hd. destruct (is_poll p) eqn:Ep.
    2:{ subst d1. destruct (FS_ostep_nonpoll lim o p l) as [A B]; [destruct p; try exact I; discriminate|].
        split; [congruence|]. intro X. apply Hc. congruence. }
    destruct p; try discriminate. destruct Hd as [-> ->].
    assert (Hc0 : c_err (o_v o) = false) by (destruct (c_err (o_v o)); [discriminate (Hc eq_refl)|reflexivity]).
    unfold ostep. rewrite Hs. cbn [negb].
    destruct (poll_obs _ _ _ ES) as [[-> _]|(log & r & g & [a b] & -> & -> & Hr)].
    - (* the channel had been dropped: nothing observed *)
      cbn [split_gauges rev]. destruct (o_dropped o) eqn:Eod; cbn iota beta; rewrite ?Eod.
      + split; [exact Hs|]. rewrite Hc0. discriminate.
      + rewrite Hc0. cbn iota. assert (X : o_dropped (mark_bad o) = false) by (oproj; exact Eod). rewrite X.
        destruct (FS_mark_bad (mark_bad o)) as [A B]. destruct (FS_mark_bad o) as [A' B'].
        split; [congruence|]. rewrite B, B', Hc0. discriminate.
    - destruct (o_dropped o) eqn:Eod.
      + cbv beta iota zeta.
        match goal with |- VS ?X _ => assert (F : FS o X) end.
        { eapply FS_trans with (chk08 o false); [unfold FS; oproj; auto|]. fs_tail. }
        destruct F as [A B]. split; [congruence|]. rewrite B, Hc0. discriminate.
      + rewrite Hc0. cbv beta iota zeta.
        set (oc := o_calls lim (start_poll o) log).
        assert (Foc : FS o oc).
        { unfold oc, o_calls. destruct (ocs_proj lim log (start_poll o)) as (_ & _ & A & _ & B).
          split; [rewrite A|rewrite B]; reflexivity. }
        destruct (oresult_flags oc r) as [R1 R2].
        set (o1 := o_result oc r) in *.
        match goal with |- VS ?X _ => assert (F : FS o1 X) end.
        { fs_tail. }
        destruct F as [A B]. destruct Foc as [A' B'].
        split; [congruence|]. rewrite B. intro X.
        unfold errp. cbn [inner_result].
        destruct r; try contradiction; try reflexivity;
          (rewrite R2 in X by exact I; rewrite B', Hc0 in X; discriminate).
  Qed.

  (* ---------------------------------------------------------------- runs *)
  Notation ind_steps := (induced_steps tp ctl tfuel c).
  Notation ind_from := (induced_from tp ctl tfuel c).

  Lemma run_vs : forall (eops : list (eop C)) (e : est) o,
    VS o (e_done e) ->
    h_stop (o_v (orun lim o (ind_from e eops)
                      (fst (run_from tp ctl tfuel c (e_s e) (ind_from e eops))))) = true.
  Proof.
    unfold induced_from.
    induction eops as [|x eops IH]; intros e o HV; cbn [induced_steps].
    { cbn [map run_from fst orun]. exact (proj1 HV). }
    destruct (estp e x) as [[e1 ind] xo] eqn:EE.
    destruct (estep_cases _ _ _ _ _ EE) as [(-> & -> & _)|(p & l & -> & ES & Hd)].
    { cbn [app]. apply IH. exact HV. }
    cbn [app map fst run_from]. rewrite ES.
    pose proof (vs_step o (e_s e) p (e_s e1) l (e_done e) (e_done e1) HV ES Hd) as HV1.
    specialize (IH e1 (ostep lim o p l) HV1).
    destruct (run_from tp ctl tfuel c (e_s e1) (map fst (ind_steps e1 eops))) as [ls s2].
    cbn [fst orun] in *. exact IH.
  Qed.

  (* ---------------------------------------------------------------- the same on the run itself *)
  (* no OPoll after a poll whose result was OStreamErr *)
  Fixpoint no_poll_after_err (seen : bool) (ops : list (op C)) (tr : list (list obs)) : bool :=
    match ops, tr with
    | p :: ops', l :: tr' =>
      if is_poll p then negb seen && no_poll_after_err (seen || errp l) ops' tr'
      else no_poll_after_err seen ops' tr'
    | _, _ => true
    end.

  Lemma run_npae : forall (eops : list (eop C)) (e : est) seen,
    (seen = true -> e_done e = true) ->
    no_poll_after_err seen (ind_from e eops)
                      (fst (run_from tp ctl tfuel c (e_s e) (ind_from e eops))) = true.
  Proof.
    unfold induced_from.
    induction eops as [|x eops IH]; intros e seen Hs; cbn [induced_steps]; [reflexivity|].
    destruct (estp e x) as [[e1 ind] xo] eqn:EE.
    destruct (estep_cases _ _ _ _ _ EE) as [(-> & -> & _)|(p & l & -> & ES & Hd)].
    { cbn [app]. apply IH. exact Hs. }
    cbn [app map fst run_from]. rewrite ES.
    destruct (run_from tp ctl tfuel c (e_s e1) (map fst (ind_steps e1 eops))) as [ls s2] eqn:ER.
    cbn [fst no_poll_after_err].
    destruct (is_poll p).
    - destruct Hd as [D0 D1]. destruct seen; [rewrite (Hs eq_refl) in D0; discriminate|].
      cbn [negb andb orb].
      specialize (IH e1 (errp l)). rewrite ER in IH. apply IH. intro X. congruence.
    - specialize (IH e1 seen). rewrite ER in IH. apply IH. intro X. rewrite Hd. auto.
  Qed.

  (* ---------------------------------------------------------------- polls_all = polls_of *)
  Lemma polls_all_nopoll : forall (ops : list (op C)) tr,
    forallb (fun p => negb (is_poll p)) ops = true -> polls_all ops tr = [].
  Proof.
    induction ops as [|p ops IH]; intros tr H; [destruct tr; reflexivity|].
    cbn [forallb] in H. apply andb_true_iff in H. destruct H as [Hp H].
    destruct tr as [|l tr]; [destruct p; reflexivity|].
    destruct p; try discriminate; cbn [polls_all]; apply IH; exact H.
  Qed.

  Lemma done_nopoll : forall (eops : list (eop C)) (e : est),
    e_done e = true -> forallb (fun p => negb (is_poll p)) (ind_from e eops) = true.
  Proof.
    unfold induced_from.
    induction eops as [|x eops IH]; intros e Hd; cbn [induced_steps]; [reflexivity|].
    destruct (estp e x) as [[e1 ind] xo] eqn:EE.
    destruct (estep_cases _ _ _ _ _ EE) as [(-> & -> & _)|(p & l & -> & ES & Hd1)].
    { cbn [app]. apply IH. exact Hd. }
    cbn [app map fst forallb]. destruct (is_poll p).
    - destruct Hd1 as [X _]. congruence.
    - cbn [negb andb]. apply IH. congruence.
  Qed.

  Lemma run_polls_all : forall (eops : list (eop C)) (e : est),
    no_fuel (fst (run_from tp ctl tfuel c (e_s e) (ind_from e eops))) = true ->
    polls_all (ind_from e eops) (fst (run_from tp ctl tfuel c (e_s e) (ind_from e eops)))
    = polls_of (ind_from e eops) (fst (run_from tp ctl tfuel c (e_s e) (ind_from e eops))).
  Proof.
    induction eops as [|x eops IH]; intros e; unfold induced_from; cbn [induced_steps]; [reflexivity|].
    destruct (estp e x) as [[e1 ind] xo] eqn:EE.
    destruct (estep_cases _ _ _ _ _ EE) as [(-> & -> & _)|(p & l & -> & ES & Hd)].
    { cbn [app]. apply IH. }
    cbn [app map fst run_from]. rewrite ES.
    specialize (IH e1). unfold induced_from in IH.
    pose proof (done_nopoll eops e1) as DN. unfold induced_from in DN.
    destruct (run_from tp ctl tfuel c (e_s e1) (map fst (ind_steps e1 eops))) as [ls s2] eqn:ER.
    cbn [fst] in *. intro NF. unfold no_fuel in NF. cbn [forallb] in NF.
    apply andb_true_iff in NF. destruct NF as [NFl NF]. fold (no_fuel ls) in NF. specialize (IH NF).
    destruct p; try (cbn [polls_all polls_of]; exact IH).
    cbn [is_poll] in Hd. destruct Hd as [_ D1].
    destruct (poll_obs _ _ _ ES) as [[-> _]|(log & r & g & ab & -> & _ & Hr)].
    { cbn [polls_all polls_of]. exact IH. }
    cbn [polls_all polls_of]. unfold errp in D1. cbn [inner_result] in D1.
    destruct r; try contradiction; try (rewrite IH; reflexivity).
    - (* error: TakeWhile is done, no further poll *)
      rewrite (polls_all_nopoll _ ls (DN D1)). reflexivity.
    - (* out of fuel: excluded *)
      cbn in NFl. discriminate.
  Qed.
End ExecProofs.

(* ================================================================== the theorems *)
(* the Server.v run that the channel sees when the application drives it through execute() *)
Definition exec_ops {T C : Type} (tp : transport T response cmsg) (ctl : T -> C -> T) (tfuel : T -> nat)
  (c : cfg) (t0 : T) (eops : list (eop C)) : list (op C) := induced tp ctl tfuel c t0 eops.
Definition exec_trace {T C : Type} (tp : transport T response cmsg) (ctl : T -> C -> T) (tfuel : T -> nat)
  (c : cfg) (t0 : T) (eops : list (eop C)) : list (list obs) :=
  fst (run tp ctl tfuel c t0 (exec_ops tp ctl tfuel c t0 eops)).

(* stops_after_error holds of every run driven through execute(): every transport, environment,
   fuel measure (no side condition), configuration, initial state and op list *)
Theorem exec_stops_after_error : forall (T C : Type) (tp : transport T response cmsg) (ctl : T -> C -> T)
    (tfuel : T -> nat) (c : cfg) (t0 : T) (eops : list (eop C)),
  stops_after_error c (exec_ops tp ctl tfuel c t0 eops) (exec_trace tp ctl tfuel c t0 eops) = true.
Proof.
  intros. unfold stops_after_error, observe, exec_trace, exec_ops, induced, run.
  apply (run_vs tp ctl tfuel c eops (einit c t0) o_init). split; [reflexivity|discriminate].
Qed.

(* ... and on the run itself: the Requests stream is never polled after it yielded an error *)
Theorem exec_no_poll_after_err : forall (T C : Type) (tp : transport T response cmsg) (ctl : T -> C -> T)
    (tfuel : T -> nat) (c : cfg) (t0 : T) (eops : list (eop C)),
  no_poll_after_err false (exec_ops tp ctl tfuel c t0 eops) (exec_trace tp ctl tfuel c t0 eops) = true.
Proof.
  intros. unfold exec_trace, exec_ops, induced, run.
  apply (run_npae tp ctl tfuel c eops (einit c t0) false). discriminate.
Qed.

(* FilterMap's closure never returns None: TakeWhile hands it only Ok items *)
Theorem exec_never_repoll : forall (T C : Type) (tp : transport T response cmsg) (ctl : T -> C -> T)
    (tfuel : T -> nat) (c : cfg) (e : @estate T) (o : eop C),
  match snd (estep tp ctl tfuel c e o) with EPolled _ ERepoll => False | _ => True end.
Proof.
  intros. unfold estep. destruct (to_op o).
  - destruct (step tp ctl tfuel c (e_s e) o0). exact I.
  - unfold take_while_poll. destruct (e_done e); [exact I|].
    destruct (step tp ctl tfuel c (e_s e) OPoll) as [s1 l].
    destruct (inner_result l) as [[[k|a]| |]|]; exact I.
Qed.

(* C14, server half, WITHOUT the boundary: the contract holds over the call logs of EVERY poll of
   the Requests stream (polls_all, not polls_of) when the channel is driven through execute() *)
Theorem C14_server_contract_exec : forall (T C : Type) (tp : transport T response cmsg) (ctl : T -> C -> T)
    (tfuel : T -> nat) (c : cfg) (t0 : T) (eops : list (eop C)),
  tfuel_ok tp tfuel ->
  contract_ok (fun _ : response => true)
    (polls_all (exec_ops tp ctl tfuel c t0 eops) (exec_trace tp ctl tfuel c t0 eops)) = true.
Proof.
  intros T C tp ctl tfuel c t0 eops TF. unfold exec_trace, exec_ops, induced, run.
  pose proof (run_polls_all tp ctl tfuel c eops (einit c t0)) as E.
  unfold einit in *. cbn [e_s] in E. rewrite E.
  - exact (C14_server_contract T C tp ctl tfuel c t0 _).
  - exact (C14_server_total T C tp ctl tfuel c t0 _ TF).
Qed.

(* C09, server monitor, WITHOUT the hypothesis stops_after_error: the trace is well formed and,
   under B1 alone, the C09 clauses hold (a failing transport call is the last call of its poll and
   the poll yields Err naming that call's activity; nothing is polled after the channel was dropped) *)
Theorem C09_server_monitor_exec : forall (T C : Type) (tp : transport T response cmsg) (ctl : T -> C -> T)
    (tfuel : T -> nat) (c : cfg) (t0 : T) (eops : list (eop C)),
  tfuel_ok tp tfuel ->
  let ops := exec_ops tp ctl tfuel c t0 eops in
  let v := observe c ops (exec_trace tp ctl tfuel c t0 eops) in
  c09s_ok c ops (exec_trace tp ctl tfuel c t0 eops) = true
  /\ h_stop v = true /\ v_bad v = false /\ (h_b1 v = true -> v09 v = true).
Proof.
  intros T C tp ctl tfuel c t0 eops TF ops v.
  pose proof (s09_holds T C tp ctl tfuel c t0 ops TF) as H. cbv beta in H.
  pose proof (exec_stops_after_error T C tp ctl tfuel c t0 eops) as HS.
  unfold stops_after_error in HS. fold ops in HS. change (h_stop v = true) in HS.
  split; [exact H|]. split; [exact HS|].
  unfold c09s_ok in H. change (negb (v_bad v) && (negb (h_b1 v && h_stop v) || v09 v) = true) in H.
  apply andb_true_iff in H. destruct H as [Hb H]. split; [destruct (v_bad v); [discriminate|reflexivity]|].
  intro B1. rewrite B1, HS in H. exact H.
Qed.

(* non-vacuity: the script of ServerWitness.e1_witness (a flush fault, then the application keeps
   polling and another request arrives) driven through execute(): the poll that yields the error
   is the last one the Requests stream sees; the adapter answers the later polls with None itself;
   the contract holds over every poll, where it fails for the raw Requests stream (e1_witness) *)
From TarpcV Require Import ServerWitness.
Definition e1_eops : list (eop (trop cmsg)) :=
  [OECtl (TDeliver (MReq 1 9000 1 1)); OPollExec; OEHandlerPoll 0 (SFinish 1); OECtl (TFail MFlush);
   OPollExec; OECtl (TDeliver (MReq 2 9000 1 1)); OPollExec; OEHandlerPoll 1 (SFinish 2); OPollExec].
Example exec_e1 :
  let ops := exec_ops (@scripted response cmsg) (@s_control cmsg) sfuel e1_cfg t_unbounded e1_eops in
  let tr := exec_trace (@scripted response cmsg) (@s_control cmsg) sfuel e1_cfg t_unbounded e1_eops in
  ops = [OCtl (TDeliver (MReq 1 9000 1 1)); OPoll; OHandlerPoll 0 (SFinish 1); OCtl (TFail MFlush);
         OPoll; OCtl (TDeliver (MReq 2 9000 1 1)); OHandlerPoll 1 (SFinish 2)]
  /\ existsb (fun l => existsb (fun e => match e with OStreamErr _ => true | _ => false end) l) tr = true
  /\ map (fun x => match x with EPolled _ r => Some r | EOp _ => None end)
         (exec_run (@scripted response cmsg) (@s_control cmsg) sfuel e1_cfg t_unbounded e1_eops)
     = [None; Some (EItem 0); None; None; Some EEnd; None; Some EEnd; None; Some EEnd]
  /\ stops_after_error e1_cfg ops tr = true
  /\ contract_ok (fun _ : response => true) (polls_all ops tr) = true.
Proof. vm_compute. repeat split; reflexivity. Qed.

Print Assumptions exec_stops_after_error.
Print Assumptions exec_no_poll_after_err.
Print Assumptions exec_never_repoll.
Print Assumptions C14_server_contract_exec.
Print Assumptions C09_server_monitor_exec.
