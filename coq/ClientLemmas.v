(* General-purpose lemmas shared by the client proofs (append-only; see the prompts). *)
From Coq Require Import List Bool Arith NArith Lia.
Import ListNotations.
From TarpcV Require Import Base Transport Client.
Local Open Scope N_scope.

Section AList.
  Context {A : Type}.
  Implicit Types (m : list (N * A)) (k : N) (v : A).

  Lemma alookup_aremove_same k m : alookup k (aremove k m) = None.
  Proof.
    induction m as [|[k' v] r IH]; cbn; [reflexivity|].
    destruct (N.eqb k k') eqn:E; cbn; [exact IH|rewrite E; exact IH].
  Qed.

  Lemma alookup_aremove_other k k' m : k <> k' -> alookup k (aremove k' m) = alookup k m.
  Proof.
    intro H. induction m as [|[k2 v] r IH]; cbn; [reflexivity|].
    destruct (N.eqb k' k2) eqn:E1; cbn.
    - apply N.eqb_eq in E1; subst.
      destruct (N.eqb k k2) eqn:E2; [apply N.eqb_eq in E2; congruence|exact IH].
    - destruct (N.eqb k k2); [reflexivity|exact IH].
  Qed.

  Lemma alookup_aset k v k' m :
    alookup k' (aset k v m) = if N.eqb k' k then Some v else alookup k' m.
  Proof.
    unfold aset; cbn. destruct (N.eqb k' k) eqn:E; [reflexivity|].
    apply alookup_aremove_other. intro; subst. rewrite N.eqb_refl in E; discriminate.
  Qed.

  Lemma alookup_in k v m : alookup k m = Some v -> In (k, v) m.
  Proof.
    induction m as [|[k' v'] r IH]; cbn; [discriminate|].
    destruct (N.eqb k k') eqn:E.
    - intros [= <-]. apply N.eqb_eq in E; subst. left; reflexivity.
    - intro H. right. apply IH, H.
  Qed.

  Lemma alookup_none_notin k m : alookup k m = None -> ~ In k (map fst m).
  Proof.
    induction m as [|[k' v'] r IH]; cbn; [tauto|].
    destruct (N.eqb k k') eqn:E; [discriminate|].
    intros H [Hk|Hin]; [subst; rewrite N.eqb_refl in E; discriminate|exact (IH H Hin)].
  Qed.

  Lemma notin_alookup_none k m : ~ In k (map fst m) -> alookup k m = None.
  Proof.
    induction m as [|[k' v'] r IH]; cbn; [reflexivity|].
    intro H. destruct (N.eqb k k') eqn:E.
    - apply N.eqb_eq in E. subst. exfalso. apply H. left; reflexivity.
    - apply IH. intro Hin. apply H. right; exact Hin.
  Qed.

  Lemma in_map_fst_aremove k k' m : In k (map fst (aremove k' m)) <-> In k (map fst m) /\ k <> k'.
  Proof.
    induction m as [|[k2 v] r IH]; cbn; [tauto|].
    destruct (N.eqb k' k2) eqn:E; cbn.
    - apply N.eqb_eq in E; subst. rewrite IH. split.
      + intros [H1 H2]; split; [right; exact H1|exact H2].
      + intros [[H1|H1] H2]; [congruence|split; assumption].
    - rewrite IH. apply N.eqb_neq in E. split.
      + intros [H|[H1 H2]]; [subst; split; [left; reflexivity|congruence]|split; [right; exact H1|exact H2]].
      + intros [[H1|H1] H2]; [left; exact H1|right; split; assumption].
  Qed.

  Lemma notin_map_fst_aremove k m : ~ In k (map fst (aremove k m)).
  Proof. rewrite in_map_fst_aremove. tauto. Qed.

  Lemma length_aremove_le k m : (length (aremove k m) <= length m)%nat.
  Proof.
    induction m as [|[k2 v] r IH]; cbn; [lia|]. destruct (N.eqb k k2); cbn; lia.
  Qed.

  Lemma aremove_notin k m : ~ In k (map fst m) -> aremove k m = m.
  Proof.
    induction m as [|[k2 v] r IH]; cbn; [reflexivity|].
    intro H. destruct (N.eqb k k2) eqn:E.
    - apply N.eqb_eq in E; subst. exfalso; apply H; left; reflexivity.
    - f_equal. apply IH. intro Hin; apply H; right; exact Hin.
  Qed.

  Lemma NoDup_map_fst_aremove k m : NoDup (map fst m) -> NoDup (map fst (aremove k m)).
  Proof.
    induction m as [|[k2 v] r IH]; cbn; [constructor|].
    intro H. inversion H as [|? ? Hn Hd]; subst.
    destruct (N.eqb k k2); [apply IH, Hd|].
    cbn. constructor; [|apply IH, Hd].
    rewrite in_map_fst_aremove. tauto.
  Qed.

  Lemma NoDup_map_fst_aset k v m : NoDup (map fst m) -> NoDup (map fst (aset k v m)).
  Proof.
    intro H. unfold aset; cbn. constructor;
      [apply notin_map_fst_aremove|apply NoDup_map_fst_aremove, H].
  Qed.

  Lemma length_aremove_in k m :
    NoDup (map fst m) -> In k (map fst m) -> S (length (aremove k m)) = length m.
  Proof.
    induction m as [|[k2 v] r IH]; cbn; [tauto|].
    intros H Hin. inversion H as [|? ? Hn Hd]; subst.
    destruct (N.eqb k k2) eqn:E.
    - apply N.eqb_eq in E; subst. rewrite aremove_notin by exact Hn. reflexivity.
    - cbn. f_equal. apply IH; [exact Hd|].
      destruct Hin as [Hk|Hin]; [subst; rewrite N.eqb_refl in E; discriminate|exact Hin].
  Qed.
End AList.

(* the two tables of InFlightRequests are always updated with the same keys *)
Lemma map_fst_aremove_eq {A B} (k : N) (m1 : list (N * A)) (m2 : list (N * B)) :
  map fst m1 = map fst m2 -> map fst (aremove k m1) = map fst (aremove k m2).
Proof.
  revert m2. induction m1 as [|[k1 v1] r1 IH]; intros [|[k2 v2] r2]; cbn; try discriminate;
    [reflexivity|].
  intros [= -> H]. destruct (N.eqb k k2); cbn; [apply IH, H|f_equal; apply IH, H].
Qed.

Lemma map_fst_aset_eq {A B} (k : N) (v1 : A) (v2 : B) (m1 : list (N * A)) (m2 : list (N * B)) :
  map fst m1 = map fst m2 -> map fst (aset k v1 m1) = map fst (aset k v2 m2).
Proof. intro H. unfold aset; cbn. f_equal. apply map_fst_aremove_eq, H. Qed.

Lemma set_nth_length {A} (n : nat) (x : A) (l : list A) : length (set_nth n x l) = length l.
Proof. revert n; induction l as [|y r IH]; intros [|n]; cbn; try reflexivity. f_equal; apply IH. Qed.

Lemma nth_error_set_nth_same {A} (n : nat) (x : A) (l : list A) :
  (n < length l)%nat -> nth_error (set_nth n x l) n = Some x.
Proof. revert n; induction l as [|y r IH]; intros [|n] H; cbn in *; try lia; [reflexivity|apply IH; lia]. Qed.

Lemma nth_error_set_nth_other {A} (n k : nat) (x : A) (l : list A) :
  n <> k -> nth_error (set_nth n x l) k = nth_error l k.
Proof.
  revert n k; induction l as [|y r IH]; intros [|n] [|k] H; cbn; try reflexivity; try congruence.
  apply IH. congruence.
Qed.
