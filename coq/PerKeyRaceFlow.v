(* Control flow of the listener task in PerKeyRace.v: the order in which the program counter
   passes the boundaries at which hook H5 has its yield points.  harness/src/c13r.rs reconstructs
   the number of listener actions between two yield points from exactly this automaton, and
   Checks/C13rcheck.v compares the program counter after every action. *)
From Coq Require Import List Arith Bool.
Import ListNotations.
From TarpcV Require Import PerKey PerKeyRace.

Definition at_top (p : rpc) : Prop := p = PcIdle \/ p = PcLoop.

Lemma listen_pc b w : forall s o, listen b w = (s, o) ->
  (exists k t, pc s = PcUpgrade k t) \/ (exists l, pc s = PcClosed l).
Proof.
  intros s o; unfold listen.
  destruct (arrivals b) as [|k r].
  - intros H; inversion H; subst; right; eexists; reflexivity.
  - destruct (lookup k (kc (pop_arrival b))) as [t|].
    + destruct (lim (pop_arrival b) <=? strong t (chans (pop_arrival b))); intros H; inversion H; subst.
      * right; eexists; reflexivity.
      * left; do 2 eexists; reflexivity.
    + intros H; inversion H; subst; right; eexists; reflexivity.
Qed.

Lemma finish_pc b w l c : at_top (pc (fst (finish b w l c))).
Proof.
  unfold finish, at_top; destruct l; destruct c; cbn; auto.
Qed.

(* one listener action moves the program counter along
     top -> (before upgrade | before recv);  before upgrade -> before recv;
     before recv -> (before check | top);    before check -> top *)
Theorem race_pc_flow : forall s,
  let s' := fst (lstep s) in
  match pc s with
  | PcIdle | PcLoop => (exists k t, pc s' = PcUpgrade k t) \/ (exists l, pc s' = PcClosed l)
  | PcUpgrade _ _ => exists l, pc s' = PcClosed l
  | PcClosed l => (exists k, pc s' = PcCheck l k) \/ at_top (pc s')
  | PcCheck _ _ => at_top (pc s')
  end.
Proof.
  intros s; cbv zeta; unfold lstep.
  destruct (pc s) as [| |k t|l|l k].
  - destruct (listen (rb s) (owed s)) as [s1 o] eqn:E; cbn [fst]; eapply listen_pc; exact E.
  - destruct (listen (rb s) (owed s)) as [s1 o] eqn:E; cbn [fst]; eapply listen_pc; exact E.
  - unfold upgrade; cbn [fst pc]; eexists; reflexivity.
  - destruct (notifs (rb s)) as [|k r].
    + right; apply finish_pc.
    + left; cbn [fst pc]; eexists; reflexivity.
  - apply finish_pc.
Qed.

(* ops of other threads never move the listener's program counter *)
Theorem race_env_keeps_pc : forall s o, o <> RListener -> pc (fst (rstep s o)) = pc s.
Proof.
  intros s o Ho; destruct o; cbn [rstep]; try reflexivity; try congruence.
  match goal with |- context [existsb ?f ?l] => destruct (existsb f l) end; reflexivity.
Qed.
