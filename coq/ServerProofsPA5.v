(* Server proofs, group A, part 5 (engineer C, copy-adapted from ServerProofsPA0.v as agreed with
   engineer A): the loops of a Requests poll once more, exporting PREFIX-closedness of the C08 flag:
   for every prefix p of the call log of the poll, h_b1 -> v08 holds of the observer after p.
   (PA0's loops establish GH at every micro-step but export it only for the whole log.) *)
From Coq Require Import List Bool Arith NArith Lia.
Import ListNotations.
From TarpcV Require Import Base Transport TimerWheel Server ServerMon ServerFuel ServerContract
     ServerSim ServerSim2 ServerSim3 ServerSim4 ServerSim5 ServerSim6 ServerSim7 ServerProofsPA0.

Definition PV (o : ostate) : Prop := h_b1 (o_v o) = true -> v08 (o_v o) = true.

(* the part of InvH about the response queue: it survives a stream error *)
Section InvQ.
  Context {T : Type}.
  Notation st := (@sstate T).
  Record InvQ (o : ostate) (s : st) : Prop := {
    q_unsent : forall k hr oi, nth_error (s_handlers s) k = Some hr -> nth_error (o_incs o) k = Some oi ->
                 unsent (h_st hr) ->
                 lastk (o_incs o) k (oi_id oi) /\ oi_wire oi <> WAnswered
                 /\ ~ In (oi_id oi) (map resp_id (s_respq s));
    q_nodup : NoDup (map resp_id (s_respq s));
    q_prov : forall m, In m (s_respq s) ->
                 exists k hr oi, nth_error (s_handlers s) k = Some hr /\ nth_error (o_incs o) k = Some oi
                   /\ oi_id oi = resp_id m /\ lastk (o_incs o) k (resp_id m) /\ h_st hr = HDone
                   /\ oi_done oi = Some (resp_body m) /\ oi_wire oi <> WAnswered }.
  Lemma InvQ_of_InvH : forall o (s : st), InvH o s -> InvQ o s.
  Proof. intros o s []. constructor; assumption. Qed.
  Lemma InvQ_frame : forall o o' (s s' : st),
    InvQ o s -> o_incs o' = o_incs o -> s_handlers s' = s_handlers s -> s_respq s' = s_respq s -> InvQ o' s'.
  Proof. intros o o' s s' [] E1 E2 E3. constructor; rewrite ?E1, ?E2, ?E3; assumption. Qed.
  Definition ErrQ (o : ostate) (s : st) : Prop := h_b1 (o_v o) = true -> InvQ o s.
  Definition rpostQ (r : pres treq) (o : ostate) (s : st) : Prop :=
    match r with PErr _ => ErrQ o s | _ => True end.
End InvQ.

Section PVall.
  Variable lim : option nat.
  Notation ocs := (fold_left (o_call lim)).

  Definition PVall (o : ostate) (new : list call) : Prop := forall p q, new = p ++ q -> PV (ocs p o).

  Lemma PVall_nil : forall o, PV o -> PVall o [].
  Proof. intros o H p q E. symmetry in E. apply app_eq_nil in E. destruct E as [-> _]. exact H. Qed.
  Lemma PVall_head : forall o new, PVall o new -> PV o.
  Proof. intros o new H. exact (H [] new eq_refl). Qed.
  Lemma PVall_end : forall o new, PVall o new -> PV (ocs new o).
  Proof. intros o new H. apply (H new []). rewrite app_nil_r. reflexivity. Qed.
  Lemma PVall_app : forall o a b, PVall o a -> PVall (ocs a o) b -> PVall o (a ++ b).
  Proof.
    intros o a b Ha Hb p q E. apply app_eq_app in E. destruct E as (l & [[E1 E2]|[E1 E2]]).
    - apply (Ha p l). exact E1.
    - subst p. rewrite fold_left_app. apply (Hb l q). exact E2.
  Qed.
  Lemma PVall_one : forall o c, PV o -> PV (o_call lim o c) -> PVall o [c].
  Proof.
    intros o c H0 H1 p q E. destruct p as [|x p]; [exact H0|].
    injection E as <- E. symmetry in E. apply app_eq_nil in E. destruct E as [-> _]. exact H1.
  Qed.
End PVall.

Section LoopsP.
  Context {T : Type}.
  Variable tp : transport T response cmsg.
  Variable lim : option nat.
  Notation st := (@sstate T).
  Notation ocs := (fold_left (o_call lim)).

  Lemma PV_GH : forall o (s : st), GH o s -> PV o.
  Proof. intros o s G Hb. exact (proj2 (G Hb)). Qed.
  Lemma PV_BH : forall o (s : st), BH o s -> PV o.
  Proof. intros o s (_ & G). exact (PV_GH _ _ G). Qed.
  Lemma PV_QH : forall o (s : st) q, QH o s q -> PV o.
  Proof. intros o s q G Hb. destruct (G Hb) as (_ & B & _). exact B. Qed.

  Lemma base_invP : forall f (s : st) r s' o,
    BInv o s -> BH o s -> base_poll_next tp f s = (r, s') ->
    exists new, ext s s' new /\ post r (ocs new o) s' /\ postH r (ocs new o) s' /\ PVall lim o new.
  Proof.
    induction f as [|f IH]; intros s r s' o HB HH H; cbn [base_poll_next] in H.
    { injection H as <- <-. exists []. split; [apply ext_refl|split; [exact HB|split; [exact HH|apply PVall_nil, (PV_BH _ _ HH)]]]. }
    destruct HB as (HI & Hh & Hce).
    (* cancel queue *)
    set (cs := match s_cancels s with
               | id :: r0 => (RSReady, snd (remove_request id (set_cancels s r0)))
               | [] => (RSClosed, s) end) in H.
    assert (Hc : (BInv o (snd cs) /\ BH o (snd cs)) /\ s_log (snd cs) = s_log s).
    { subst cs. destruct (s_cancels s) as [|id r0] eqn:EC; cbn [snd];
        [split; [exact (conj (conj HI (conj Hh Hce)) HH)|reflexivity]|].
      split; [|rewrite log_remove_request; reflexivity].
      split.
      - split; [apply InvU_server_cancel; auto|split; [|exact Hce]].
        destruct (remove_request_shape id (set_cancels s r0)) as [(_ & Heq & _)|(_ & _ & B1 & B2 & B3 & _)];
          cbv zeta in *.
        + rewrite Heq. exact Hh.
        + eapply (handled_remove s); eauto.
      - apply BH_server_cancel; auto. apply all_owned_of_handled; auto. }
    destruct cs as [cst s1]. cbn [snd] in Hc. destruct Hc as (((HI1 & Hh1 & _) & HH1) & Hl1).
    (* expiry *)
    destruct (poll_expired s1) as [est s2] eqn:EE.
    assert (HI2 : InvU o s2) by (eapply InvU_poll_expired; eauto).
    assert (HH2 : BH o s2) by exact (BH_expired o s1 est s2 HI1 HH1 EE).
    pose proof (log_poll_expired s1) as Hl2. rewrite EE in Hl2. cbn [snd] in Hl2.
    assert (Hh2 : handled s2).
    { destruct (poll_expired_shape _ _ _ EE) as (A1 & A2 & A3 & A4 & A5 & A6 & _ & _ & _ & _ & _ & HS).
      destruct HS as [(_ & B1 & _)|(_ & id & w & _ & _ & _ & C4 & _)].
      - apply (handled_sub s1 s2 Hh1); [rewrite B1; auto|rewrite A1; reflexivity].
      - eapply (handled_remove s1); eauto. }
    assert (Hall2 : all_owned o s2) by (apply all_owned_of_handled; auto).
    assert (Hown2 : pend_id o = None \/ all_owned o s2) by (right; exact Hall2).
    assert (H02 : ext s s2 []) by (apply ext_same; congruence).
    assert (HB2 : BInv o s2) by (exact (conj HI2 (conj Hh2 Hce))).
    (* the final status *)
    assert (Hfin : forall rst sx new0 r s',
               ext s sx new0 -> BInv (ocs new0 o) sx -> BH (ocs new0 o) sx -> o_pend (ocs new0 o) = None -> PVall lim o new0 ->
               match combine (combine cst est) rst with
               | RSReady => base_poll_next tp f sx
               | RSClosed => (PEnd, sx)
               | RSPending => (PPending, sx)
               end = (r, s') ->
               exists new, ext s s' new /\ post r (ocs new o) s' /\ postH r (ocs new o) s' /\ PVall lim o new).
    { intros rst sx new0 r0 s0 Hx HBx HHx Hpx Hpv HE. destruct (combine (combine cst est) rst).
      - destruct (IH _ _ _ _ HBx HHx HE) as (n1 & E1 & Post & PostH & Pv1). exists (new0 ++ n1).
        split; [eapply ext_trans; eauto|]. rewrite ocs_app. split; [assumption|split; [assumption|apply PVall_app; assumption]].
      - injection HE as <- <-. exists new0. split; [exact Hx|split; [exact HBx|split; [exact (conj HHx Hpx)|exact Hpv]]].
      - injection HE as <- <-. exists new0. split; [exact Hx|split; [exact HBx|split; [exact (conj HHx Hpx)|exact Hpv]]]. }
    pose proof (PV_BH _ _ HH2) as Pv2.
    destruct (s_fused s2) eqn:EF.
    - apply (Hfin RSClosed s2 []); [exact H02|exact HB2|exact HH2| |apply PVall_nil; exact Pv2|exact H].
      cbn [fold_left]. destruct HH2 as (P2 & _). unfold pend_ok in P2.
      destruct (o_pend o) as [[[[a b] d] e]|]; [destruct P2; congruence|reflexivity].
    - destruct (do_next tp s2) as [rr s3] eqn:EN.
      destruct (do_next_core tp _ _ _ EN) as (C3 & F3 & _ & _ & _ & L3).
      assert (H23 : ext s s3 [CNext rr]).
      { unfold ext in *. rewrite L3, H02. reflexivity. }
      assert (Hh3 : handled s3).
      { destruct C3 as (D1 & D2 & D3 & _). apply (handled_sub s2 s3 Hh2); [rewrite D3; auto|rewrite D1; reflexivity]. }
      destruct rr as [m| | |].
      + destruct m as [id dl tr body|id tr].
        * destruct (start_request id dl s3) as [[h s4]|] eqn:ES.
          -- injection H as <- <-.
             destruct (step_next_accept tp lim o s2 id dl tr body s3 h s4 HI2 Hown2 Hce EN ES) as (A & B & C & D).
             pose proof (BH_next_accept tp lim o s2 id dl tr body s3 h s4 HI2 Hall2 Hce HH2 EN ES) as QQ.
             exists [CNext (RItem (MReq id dl tr body))].
             split; [|cbn [fold_left post postH]; split; [exact (conj (conj A (conj B C)) D)|split; [exact QQ|apply PVall_one; [exact Pv2|exact (PV_QH _ _ _ QQ)]]]].
             unfold ext in *. rewrite (log_start_request _ _ _ _ _ ES). exact H23.
          -- destruct (step_next_dup tp lim o s2 id dl tr body s3 HI2 Hown2 Hce EN) as (A & B & C).
             pose proof (BH_next_dup tp lim o s2 id dl tr body s3 HI2 Hall2 Hce HH2 EN EF ES) as HH3.
             assert (HB3 : BInv (ocs [CNext (RItem (MReq id dl tr body))] o) s3)
               by (cbn [fold_left]; exact (conj A (conj Hh3 C))).
             destruct (IH _ _ _ _ HB3 HH3 H) as (n1 & E1 & Post & PostH & Pv1).
             exists ([CNext (RItem (MReq id dl tr body))] ++ n1). split; [eapply ext_trans; eauto|].
             rewrite ocs_app. split; [assumption|split; [assumption|]].
             apply PVall_app; [apply PVall_one; [exact Pv2|exact (PV_BH _ _ HH3)]|exact Pv1].
        * destruct (step_next_cancel tp lim o s2 id tr s3 HI2 Hown2 Hce EN) as (A & B).
          pose proof (BH_next_cancel tp lim o s2 id tr s3 HI2 Hall2 Hce HH2 EN) as HH3.
          apply (Hfin RSReady (cancel_request id s3) [CNext (RItem (MCancel id tr))]); [| | | |apply PVall_one; [exact Pv2|exact (PV_BH _ _ HH3)]|exact H].
          -- unfold ext in *. rewrite log_cancel_request. exact H23.
          -- cbn [fold_left]. split; [exact A|split].
             ++ destruct (cancel_request_shape id s3) as [(Heq & _)|(e & _ & B1 & _ & _ & B4 & _)]; cbv zeta in *.
                ** rewrite Heq. exact Hh3.
                ** eapply (handled_remove s3); eauto.
             ++ destruct (ocall_next_proj lim o (RItem (MCancel id tr))) as (_ & _ & P3 & _). cbv zeta in P3. congruence.
          -- exact HH3.
          -- cbn [fold_left]. destruct (ocall_next_proj lim o (RItem (MCancel id tr))) as (_ & _ & _ & _ & _ & _ & _ & Pn). exact Pn.
      + injection H as <- <-.
        destruct (step_next_idle tp lim o s2 RErr s3 HI2 Hown2 Hce EN I) as (A & B).
        pose proof (BH_next_idle tp lim o s2 RErr s3 HH2 EN I) as HH3.
        exists [CNext RErr]. split; [exact H23|]. cbn [fold_left post postH]. split; [|split].
        * split; [exact A|split; [exact Hh3|]].
          destruct (ocall_next_proj lim o RErr) as (_ & _ & P3 & _). cbv zeta in P3. congruence.
        * split; [exact HH3|]. destruct (ocall_next_proj lim o RErr) as (_ & _ & _ & _ & _ & _ & _ & Pn). exact Pn.
        * apply PVall_one; [exact Pv2|exact (PV_BH _ _ HH3)].
      + destruct (step_next_idle tp lim o s2 REof s3 HI2 Hown2 Hce EN I) as (A & B).
        pose proof (BH_next_idle tp lim o s2 REof s3 HH2 EN I) as HH3.
        apply (Hfin RSClosed (set_fused s3 true) [CNext REof]); [exact H23| |exact HH3| |apply PVall_one; [exact Pv2|exact (PV_BH _ _ HH3)]|exact H].
        * cbn [fold_left]. split; [exact A|split; [exact Hh3|]].
          destruct (ocall_next_proj lim o REof) as (_ & _ & P3 & _). cbv zeta in P3. congruence.
        * cbn [fold_left]. destruct (ocall_next_proj lim o REof) as (_ & _ & _ & _ & _ & _ & _ & Pn & _). exact Pn.
      + destruct (step_next_idle tp lim o s2 RPending s3 HI2 Hown2 Hce EN I) as (A & B).
        pose proof (BH_next_idle tp lim o s2 RPending s3 HH2 EN I) as HH3.
        apply (Hfin RSPending s3 [CNext RPending]); [exact H23| |exact HH3| |apply PVall_one; [exact Pv2|exact (PV_BH _ _ HH3)]|exact H].
        * cbn [fold_left]. split; [exact A|split; [exact Hh3|]].
          destruct (ocall_next_proj lim o RPending) as (_ & _ & P3 & _). cbv zeta in P3. congruence.
        * cbn [fold_left]. destruct (ocall_next_proj lim o RPending) as (_ & _ & _ & _ & _ & _ & _ & Pn). exact Pn.
  Qed.


  Lemma maxreq_invP : forall f limit (s : st) r s' o,
    BInv o s -> BH o s -> o_pend o = None -> maxreq_poll_next tp f limit s = (r, s') ->
    exists new, ext s s' new /\ post r (ocs new o) s' /\ postH r (ocs new o) s' /\ PVall lim o new.
  Proof.
    induction f as [|f IH]; intros limit s r s' o HB HH Hp H; cbn [maxreq_poll_next] in H.
    { injection H as <- <-. exists []. split; [apply ext_refl|split; [exact HB|split; [exact HH|apply PVall_nil, (PV_BH _ _ HH)]]]. }
    destruct (limit <=? length (s_inflight s)).
    - destruct (do_ready tp s) as [x s1] eqn:ER.
      pose proof (BInv_ready tp lim _ _ _ _ HB ER) as HB1.
      pose proof (BH_ready tp lim _ _ _ _ HH ER) as HH1.
      destruct (ocall_flags_ready lim o x) as (_ & _ & _ & _ & Pn1). cbv zeta in Pn1. rewrite Hp in Pn1.
      destruct (do_ready_core tp _ _ _ ER) as (_ & _ & _ & _ & _ & L1).
      assert (E01 : ext s s1 [CReady x]) by (unfold ext; rewrite L1; reflexivity).
      assert (Pv01 : PVall lim o [CReady x]) by (apply PVall_one; [exact (PV_BH _ _ HH)|exact (PV_BH _ _ HH1)]).
      destruct x.
      + destruct (base_poll_next tp (S f) s1) as [y s2] eqn:EB.
        destruct (base_invP _ _ _ _ _ HB1 HH1 EB) as (n2 & E2 & Post2 & PostH2 & Pv2).
        assert (E02 : ext s s2 ([CReady TOk] ++ n2)) by (eapply ext_trans; eauto).
        assert (Pv02 : PVall lim o ([CReady TOk] ++ n2)) by (apply PVall_app; [exact Pv01|exact Pv2]).
        destruct y as [q| |a| |].
        * destruct Post2 as ((HI2 & HP2 & Hce2) & Hin2).
          destruct (base_start_send tp (mkresp (q_id q) BThrottle) s2) as [e s3] eqn:ESS.
          destruct (step_throttle tp lim _ s2 q e s3 HI2 HP2 Hce2 Hin2 ESS) as (rr & L3 & He & HI3 & Hp3 & Hce3 & Hi3).
          pose proof (QH_throttle tp lim _ s2 q e s3 rr HI2 HP2 PostH2 Hin2 ESS) as HH3.
          cbv zeta in *.
          assert (E03 : ext s s3 (([CReady TOk] ++ n2) ++ [CSend (mkresp (q_id q) BThrottle) rr])).
          { eapply ext_trans; [exact E02|]. unfold ext. rewrite L3. reflexivity. }
          assert (Hh3 : handled s3).
          { intros e0 He0. rewrite Hi3 in He0. apply in_drop_entry in He0. destruct He0 as [He0 Hne].
            destruct HP2 as (_ & Q2 & _).
            destruct (base_start_send_shape tp _ _ _ _ ESS) as [(_ & _ & ->)|(_ & _ & _ & _ & _ & _ & B3 & _)].
            - destruct (classic_handled s2 e0) as [Hy|Hn]; [exact Hy|].
              exfalso. pose proof (Q2 e0 He0 Hn) as ->. cbn in Hne. congruence.
            - rewrite B3. destruct (classic_handled s2 e0) as [Hy|Hn]; [exact Hy|].
              exfalso. pose proof (Q2 e0 He0 Hn) as ->. cbn in Hne. congruence. }
          assert (HB3 : BInv (ocs (([CReady TOk] ++ n2) ++ [CSend (mkresp (q_id q) BThrottle) rr]) o) s3).
          { rewrite ocs_app. cbn [fold_left]. rewrite ocs_app. cbn [fold_left]. exact (conj HI3 (conj Hh3 Hce3)). }
          assert (HH3' : BH (ocs (([CReady TOk] ++ n2) ++ [CSend (mkresp (q_id q) BThrottle) rr]) o) s3).
          { rewrite ocs_app. cbn [fold_left]. rewrite ocs_app. cbn [fold_left]. exact HH3. }
          assert (Hp3' : o_pend (ocs (([CReady TOk] ++ n2) ++ [CSend (mkresp (q_id q) BThrottle) rr]) o) = None).
          { rewrite ocs_app. cbn [fold_left]. rewrite ocs_app. cbn [fold_left].
            unfold pend_id in Hp3. destruct (o_pend _) as [[[[a b] d] g]|]; [discriminate|reflexivity]. }
          assert (Pv03 : PVall lim o (([CReady TOk] ++ n2) ++ [CSend (mkresp (q_id q) BThrottle) rr])).
          { apply PVall_app; [exact Pv02|]. apply PVall_one; [exact (PVall_end _ _ _ Pv02)|].
            rewrite ocs_app in HH3'. cbn [fold_left] in HH3'. exact (PV_BH _ _ HH3'). }
          destruct e as [a|].
          -- injection H as <- <-. eexists; split; [exact E03|split; [exact HB3|split; [exact (conj HH3' Hp3')|exact Pv03]]].
          -- destruct (IH _ _ _ _ _ HB3 HH3' Hp3' H) as (n4 & E4 & Post4 & PostH4 & Pv4).
             eexists; split; [eapply ext_trans; [exact E03|exact E4]|]. rewrite ocs_app. split; [assumption|split; [assumption|apply PVall_app; assumption]].
        * injection H as <- <-. eexists; split; [exact E02|]. rewrite ocs_app. split; [assumption|split; [assumption|exact Pv02]].
        * injection H as <- <-. eexists; split; [exact E02|]. rewrite ocs_app. split; [assumption|split; [assumption|exact Pv02]].
        * injection H as <- <-. eexists; split; [exact E02|]. rewrite ocs_app. split; [assumption|split; [assumption|exact Pv02]].
        * injection H as <- <-. eexists; split; [exact E02|]. rewrite ocs_app. split; [assumption|split; [assumption|exact Pv02]].
      + injection H as <- <-. eexists; split; [exact E01|split; [exact HB1|split; [exact (conj HH1 Pn1)|exact Pv01]]].
      + injection H as <- <-. eexists; split; [exact E01|split; [exact HB1|split; [exact (conj HH1 Pn1)|exact Pv01]]].
    - exact (base_invP _ _ _ _ _ HB HH H).
  Qed.
End LoopsP.

Section WriteP.
  Context {T : Type}.
  Variable tp : transport T response cmsg.
  Variable lim : option nat.
  Notation st := (@sstate T).
  Notation ocs := (fold_left (o_call lim)).

  Variable X : ostate -> st -> Prop.
  Hypothesis XPV : forall o (s : st), X o s -> PV o.
  Hypothesis Xready : forall o (s : st) r s', X o s -> do_ready tp s = (r, s') -> X (o_call lim o (CReady r)) s'.
  Hypothesis Xflush : forall o (s : st) r s', X o s -> do_flush tp s = (r, s') -> X (o_call lim o (CFlush r)) s'.
  Hypothesis Xsend : forall o (s : st) m rest e s2,
    InvU o s -> c_err (o_v o) = false -> X o s -> s_respq s = m :: rest -> resp_body m <> BThrottle ->
    base_start_send tp m (add_permit (set_respq s rest)) = (e, s2) ->
    (find_entry (resp_id m) (add_permit (set_respq s rest)) = None -> X o s2)
    /\ (forall en r, find_entry (resp_id m) (add_permit (set_respq s rest)) = Some en ->
                     X (o_call lim o (CSend m r)) s2).

  Lemma ensure_invP : forall o (s : st) w s',
    InvU o s -> c_err (o_v o) = false -> X o s -> ensure_writeable tp s = (w, s') ->
    exists new, ext s s' new /\ wpost o s (ocs new o) s' /\ s_respq s' = s_respq s /\ X (ocs new o) s' /\ PVall lim o new.
  Proof.
    intros o s w s' HI Hce HX H. unfold ensure_writeable in H.
    destruct (do_ready tp s) as [r s1] eqn:E1.
    destruct (IF_ready tp lim _ _ _ _ HI Hce E1) as (I1 & C1 & P1 & W1 & L1 & Q1). cbv zeta in *.
    pose proof (Xready _ _ _ _ HX E1) as X1'.
    assert (X1 : ext s s1 [CReady r]) by (unfold ext; rewrite L1; reflexivity).
    assert (Pv1 : PVall lim o [CReady r]) by (apply PVall_one; [exact (XPV _ _ HX)|exact (XPV _ _ X1')]).
    destruct r; try (injection H as <- <-; eexists;
                     (split; [exact X1|]); (split; [exact (conj I1 (conj C1 (conj P1 W1)))|split; [exact Q1|split; [exact X1'|exact Pv1]]])).
    destruct (do_flush tp s1) as [f s2] eqn:E2.
    destruct (IF_flush tp lim _ _ _ _ I1 C1 E2) as (I2 & C2 & P2 & W2 & L2 & Q2). cbv zeta in *.
    pose proof (Xflush _ _ _ _ X1' E2) as X2'.
    assert (X2 : ext s s2 ([CReady TPending] ++ [CFlush f])).
    { eapply ext_trans; [exact X1|]. unfold ext; rewrite L2; reflexivity. }
    assert (Pv2 : PVall lim o ([CReady TPending] ++ [CFlush f])).
    { apply PVall_app; [exact Pv1|]. apply PVall_one; [exact (XPV _ _ X1')|exact (XPV _ _ X2')]. }
    destruct f; try (injection H as <- <-; eexists; (split; [exact X2|]); rewrite ocs_app; cbn [fold_left];
                     (split; [exact (conj I2 (conj C2 (conj (eq_trans P2 P1) (wframe_trans _ _ _ W1 W2))))|split; [congruence|split; [exact X2'|exact Pv2]]])).
    destruct (do_ready tp s2) as [r2 s3] eqn:E3.
    destruct (IF_ready tp lim _ _ _ _ I2 C2 E3) as (I3 & C3 & P3 & W3 & L3 & Q3). cbv zeta in *.
    pose proof (Xready _ _ _ _ X2' E3) as X3'.
    assert (X3 : ext s s3 (([CReady TPending] ++ [CFlush TOk]) ++ [CReady r2])).
    { eapply ext_trans; [exact X2|]. unfold ext; rewrite L3; reflexivity. }
    assert (Pv3 : PVall lim o (([CReady TPending] ++ [CFlush TOk]) ++ [CReady r2])).
    { apply PVall_app; [exact Pv2|]. rewrite ocs_app. cbn [fold_left]. apply PVall_one; [exact (XPV _ _ X2')|exact (XPV _ _ X3')]. }
    destruct r2; injection H as <- <-; eexists; (split; [exact X3|]); rewrite !ocs_app; cbn [fold_left];
      (split; [exact (conj I3 (conj C3 (conj (eq_trans P3 (eq_trans P2 P1))
                                               (wframe_trans _ _ _ (wframe_trans _ _ _ W1 W2) W3))))|split; [congruence|split; [exact X3'|exact Pv3]]]).
  Qed.

  Lemma pump_write_invP : forall rc o (s : st) w s',
    InvU o s -> c_err (o_v o) = false -> no_thr s -> X o s -> pump_write tp rc s = (w, s') ->
    exists new, ext s s' new /\ wpost o s (ocs new o) s' /\ no_thr s' /\ X (ocs new o) s' /\ PVall lim o new.
  Proof.
    intros rc o s w s' HI Hce Hnt HX H. unfold pump_write, poll_next_response in H.
    destruct (ensure_writeable tp s) as [x s1] eqn:EW.
    destruct (ensure_invP _ _ _ _ HI Hce HX EW) as (n1 & X1 & (I1 & C1 & P1 & W1) & Q1 & HX1 & Pv1).
    assert (Hnt1 : no_thr s1) by (intros m Hm; apply Hnt; rewrite <- Q1; exact Hm).
    assert (Hflush : forall w s',
      (let '(f, s2) := do_flush tp s1 in
       match f with
       | TOk => if rc && Nat.eqb (length (s_inflight s2)) 0 then (@PEnd unit, s2) else (PPending, s2)
       | TErr => (PErr AFlush, s2)
       | TPending => (PPending, s2)
       end) = (w, s') ->
      exists new, ext s s' new /\ wpost o s (ocs new o) s' /\ no_thr s' /\ X (ocs new o) s' /\ PVall lim o new).
    { intros w0 s0 HH. destruct (do_flush tp s1) as [f s2] eqn:EF.
      destruct (IF_flush tp lim _ _ _ _ I1 C1 EF) as (I2 & C2 & P2 & W2 & L2 & Q2). cbv zeta in *.
      pose proof (Xflush _ _ _ _ HX1 EF) as HX2.
      assert (X2 : ext s s2 (n1 ++ [CFlush f])).
      { eapply ext_trans; [exact X1|]. unfold ext; rewrite L2; reflexivity. }
      assert (Hnt2 : no_thr s2) by (intros m Hm; apply Hnt1; rewrite <- Q2; exact Hm).
      assert (R : exists new, ext s s2 new /\ wpost o s (ocs new o) s2 /\ no_thr s2 /\ X (ocs new o) s2 /\ PVall lim o new).
      { eexists; split; [exact X2|]. rewrite ocs_app. cbn [fold_left].
        split; [exact (conj I2 (conj C2 (conj (eq_trans P2 P1) (wframe_trans _ _ _ W1 W2))))|split; [exact Hnt2|split; [exact HX2|]]].
        apply PVall_app; [exact Pv1|]. apply PVall_one; [exact (XPV _ _ HX1)|exact (XPV _ _ HX2)]. }
      destruct f; [destruct (rc && _)| |]; injection HH as <- <-; exact R. }
    destruct x as [| |a].
    - destruct (s_respq s1) as [|m q] eqn:EQ.
      + apply (Hflush w s'). exact H.
      + destruct (base_start_send tp m (add_permit (set_respq s1 q))) as [e s2] eqn:ES.
        assert (Hm : resp_body m <> BThrottle) by (apply Hnt1; rewrite EQ; left; reflexivity).
        destruct (Xsend _ _ _ _ _ _ I1 C1 HX1 EQ Hm ES) as (XA & XB).
        destruct (add_permit_shape (set_respq s1 q)) as (A1 & A2 & A3 & A4 & A5 & A6 & A7 & A8 & A9 & A10 & A11 & A12 & A13).
        cbv zeta in *. sproj.
        assert (Hq2 : forall mm, In mm (s_respq s2) -> In mm (s_respq s1)).
        { destruct (base_start_send_shape tp _ _ _ _ ES) as [(_ & _ & ->)|(_ & _ & _ & _ & _ & _ & _ & _ & _ & _ & _ & _ & _ & B12 & _)];
            intros mm Hmm; [rewrite A11 in Hmm|rewrite B12, A11 in Hmm]; rewrite EQ; right; exact Hmm. }
        assert (Hnt2 : no_thr s2) by (intros mm Hmm; apply Hnt1; apply Hq2; exact Hmm).
        destruct (step_send tp lim _ s1 m q e s2 I1 C1 Hm ES)
          as [(He & L2 & I2 & Hsub & Hieq)|(r & L2 & He & I2 & P2 & C2 & Hi2)]; cbv zeta in *.
        * assert (W2 : wframe s1 s2 /\ X (ocs n1 o) s2).
          { destruct (base_start_send_shape tp _ _ _ _ ES) as [(Hfn & _ & Heq)|(en & rr & _ & _ & _ & _ & _ & _ & _ & _ & _ & _ & _ & _ & _ & _ & LL)].
            - split; [|exact (XA Hfn)]. subst s2. unfold wframe. rewrite A1, A3, A6, A7, A9. repeat split; auto.
            - exfalso. rewrite A12 in LL. rewrite L2 in LL. clear -LL.
              assert (length (s_log s1) = length (CSend m rr :: s_log s1)) by (rewrite <- LL; reflexivity).
              cbn in H. lia. }
          destruct W2 as (W2 & HX2).
          assert (R : exists new, ext s s2 new /\ wpost o s (ocs new o) s2 /\ no_thr s2 /\ X (ocs new o) s2 /\ PVall lim o new).
          { exists n1. split; [unfold ext in *; rewrite L2; exact X1|].
            split; [exact (conj I2 (conj C1 (conj P1 (wframe_trans _ _ _ W1 W2))))|split; [exact Hnt2|split; [exact HX2|exact Pv1]]]. }
          subst e. injection H as <- <-. exact R.
        * assert (W2 : wframe s1 s2 /\ X (o_call lim (ocs n1 o) (CSend m r)) s2).
          { destruct (base_start_send_shape tp _ _ _ _ ES) as [(_ & _ & Heq)|(en & rr & Hfe & _ & B1 & B2 & B3 & B4 & B5 & B6 & B7 & B8 & B9 & B10 & _)].
            - exfalso. rewrite Heq, A12 in L2. clear -L2.
              assert (length (s_log s1) = length (CSend m r :: s_log s1)) by (rewrite <- L2; reflexivity).
              cbn in H. lia.
            - split; [|exact (XB en r Hfe)]. unfold wframe. rewrite B3, B4, B5, B6, B8, A1, A3, A6, A7, A9. repeat split; auto.
              intros e0 He0. rewrite B1, A4 in He0. apply in_drop_entry in He0. tauto. }
          destruct W2 as (W2 & HX2).
          assert (R : exists new, ext s s2 new /\ wpost o s (ocs new o) s2 /\ no_thr s2 /\ X (ocs new o) s2 /\ PVall lim o new).
          { exists (n1 ++ [CSend m r]). split; [eapply ext_trans; [exact X1|unfold ext; rewrite L2; reflexivity]|].
            rewrite ocs_app. cbn [fold_left].
            split; [exact (conj I2 (conj C2 (conj (eq_trans P2 P1) (wframe_trans _ _ _ W1 W2))))|split; [exact Hnt2|split; [exact HX2|]]].
            apply PVall_app; [exact Pv1|]. apply PVall_one; [exact (XPV _ _ HX1)|exact (XPV _ _ HX2)]. }
          destruct e; injection H as <- <-; exact R.
    - apply (Hflush w s'). exact H.
    - injection H as <- <-. exists n1. split; [exact X1|]. split; [exact (conj I1 (conj C1 (conj P1 W1)))|split; [exact Hnt1|split; [exact HX1|exact Pv1]]].
  Qed.
End WriteP.

Section LoopsP2.
  Context {T : Type}.
  Variable tp : transport T response cmsg.
  Variable lim : option nat.
  Notation st := (@sstate T).
  Notation ocs := (fold_left (o_call lim)).

  Lemma PV_XB : forall o (s : st), XB o s -> PV o.
  Proof. intros o s (_ & G). exact (PV_GH _ _ G). Qed.
  Lemma PV_XQ : forall q o (s : st), XQ q o s -> PV o.
  Proof. intros q o s (_ & G & _). exact (PV_QH _ _ _ G). Qed.

  Lemma pump_write_invPB : forall rc o (s : st) w s',
    InvU o s -> c_err (o_v o) = false -> no_thr s -> XB o s -> pump_write tp rc s = (w, s') ->
    exists new, ext s s' new /\ wpost o s (ocs new o) s' /\ no_thr s' /\ XB (ocs new o) s' /\ PVall lim o new.
  Proof. exact (pump_write_invP tp lim XB PV_XB (XB_ready tp lim) (XB_flush tp lim) (XB_send tp lim)). Qed.

  Lemma pump_write_invPQ : forall q rc o (s : st) w s',
    InvU o s -> c_err (o_v o) = false -> no_thr s -> XQ q o s -> pump_write tp rc s = (w, s') ->
    exists new, ext s s' new /\ wpost o s (ocs new o) s' /\ no_thr s' /\ XQ q (ocs new o) s' /\ PVall lim o new.
  Proof. intro q. exact (pump_write_invP tp lim (XQ q) (PV_XQ q) (XQ_ready tp lim q) (XQ_flush tp lim q) (XQ_send tp lim q)). Qed.

  Lemma requests_invP : forall c f (s : st) r s' o,
    cfg_limit c = lim ->
    BInv o s -> no_thr s -> BH o s -> o_pend o = None -> requests_poll_next tp c f s = (r, s') ->
    exists new, ext s s' new /\ rpost c r (ocs new o) s' /\ no_thr s' /\ rpostH r (ocs new o) s' /\ PVall lim o new
                /\ rpostQ r (ocs new o) s'.
  Proof.
    assert (ErrQ_of_GH : forall o (s : st), GH o s -> ErrQ o s).
    { intros o s G Hb. destruct (G Hb) as (A & _). exact (InvQ_of_InvH _ _ A). }
    intros c f; induction f as [|f IH]; intros s r s' o Hlim HB Hnt HH Hp H; cbn [requests_poll_next] in H.
    { injection H as <- <-. exists []. split; [apply ext_refl|split; [exact I|split; [exact Hnt|split; [exact I|split; [apply PVall_nil, (PV_BH _ _ HH)|exact I]]]]]. }
    destruct (pump_read tp c (S f) s) as [rd s1] eqn:ER.
    assert (Hrd : exists n1, ext s s1 n1 /\ post rd (ocs n1 o) s1 /\ postH rd (ocs n1 o) s1 /\ PVall lim o n1).
    { unfold pump_read in ER. destruct (cfg_limit c) as [l|]; [eapply maxreq_invP; eauto|eapply base_invP; eauto]. }
    destruct Hrd as (n1 & X1 & Post1 & PostH1 & Pv1).
    assert (Hq1 : s_respq s1 = s_respq s).
    { unfold pump_read in ER. destruct (cfg_limit c) as [l|].
      - clear -ER. revert s l rd s1 ER. generalize (S f) as g.
        induction g as [|g IHg]; intros s l rd s1 ER; cbn [maxreq_poll_next] in ER; [injection ER as _ <-; reflexivity|].
        destruct (l <=? length (s_inflight s)).
        + destruct (do_ready tp s) as [x sx] eqn:E1. destruct (do_ready_core tp _ _ _ E1) as (_ & _ & Q1 & _).
          destruct x; try (injection ER as _ <-; exact Q1).
          destruct (base_poll_next tp (S g) sx) as [y sy] eqn:E2.
          pose proof (respq_base tp _ _ _ _ E2) as Q2.
          destruct y; try (injection ER as _ <-; congruence).
          destruct (base_start_send tp (mkresp (q_id x) BThrottle) sy) as [e sz] eqn:E3.
          pose proof (respq_start_send tp _ _ _ _ E3) as Q3.
          destruct e; [injection ER as _ <-; congruence|].
          rewrite (IHg _ _ _ _ ER). congruence.
        + exact (respq_base tp _ _ _ _ ER).
      - exact (respq_base tp _ _ _ _ ER). }
    assert (Hnt1 : no_thr s1) by (intros m Hm; apply Hnt; rewrite <- Hq1; exact Hm).
    destruct rd as [q| |a| |].
    - (* a request was accepted: pump_write, then yield *)
      destruct Post1 as ((HI1 & HP1 & Hce1) & Hin1). cbn [postH] in PostH1.
      destruct (pump_write tp false s1) as [wr s2] eqn:EW.
      destruct (pump_write_invPQ q _ _ _ _ _ HI1 Hce1 Hnt1 (conj HP1 (conj PostH1 (fun _ => Hin1))) EW) as (n2 & X2 & WP & Hnt2 & (HP2 & HQ2' & Hin2) & Pv2).
      assert (X02 : ext s s2 (n1 ++ n2)) by (eapply ext_trans; eauto).
      assert (Pv02 : PVall lim o (n1 ++ n2)) by (apply PVall_app; assumption).
      pose proof (QInv_wpost _ _ _ _ _ (conj HI1 (conj HP1 Hce1)) WP) as HQ2.
      destruct wr as [u| |a| |]; injection H as <- <-; exists (n1 ++ n2); rewrite ocs_app;
        (split; [first [exact X02|unfold ext in *; sproj; exact X02]|]).
      + split; [exact HQ2|split; [exact Hnt2|split; [exact (conj HQ2' Hin2)|split; [exact Pv02|exact I]]]].
      + split; [exact HQ2|split; [exact Hnt2|split; [exact (conj HQ2' Hin2)|split; [exact Pv02|exact I]]]].
      + split; [right; exists q, s2; split; [exact HQ2|reflexivity]|]. split; [intros m Hm; apply Hnt2; exact Hm|]. split; [|split; [exact Pv02|]].
        2:{ intros Hb. destruct (HQ2' Hb) as (A & _). eapply InvQ_frame; [exact (InvQ_of_InvH _ _ A)|reflexivity..]. }
        intros Hb. destruct (HQ2' Hb) as (A & B & _).
        split; [|split; [exact B|]].
        * intros k hr Hk. destruct (h_safe _ _ A k hr Hk) as [(hr' & e & Y1 & Y2 & Y3)|R]; [left|right; exact R].
          exists hr', e. sproj. auto.
        * intros k oi Hk Hw. destruct (h_open_tracked _ _ A k oi Hk Hw) as (hr' & e & Y1 & Y2 & Y3).
          exists hr', e. sproj. auto.
      + split; [exact HQ2|split; [exact Hnt2|split; [exact (conj HQ2' Hin2)|split; [exact Pv02|exact I]]]].
      + split; [exact I|split; [exact Hnt2|split; [exact I|split; [exact Pv02|exact I]]]].
    - destruct (pump_write tp true s1) as [wr s2] eqn:EW.
      destruct Post1 as (HI1 & Hh1 & Hce1). destruct PostH1 as ((Pk1 & G1) & Pn1).
      destruct (pump_write_invPB _ _ _ _ _ HI1 Hce1 Hnt1 (conj Hh1 G1) EW) as (n2 & X2 & WP & Hnt2 & (Hh2 & G2) & Pv2).
      assert (X02 : ext s s2 (n1 ++ n2)) by (eapply ext_trans; eauto).
      assert (Pv02 : PVall lim o (n1 ++ n2)) by (apply PVall_app; assumption).
      pose proof (BInv_wpost _ _ _ _ (conj HI1 (conj Hh1 Hce1)) WP) as HB2.
      assert (Pn2 : o_pend (ocs n2 (ocs n1 o)) = None) by (destruct WP as (_ & _ & P & _); congruence).
      assert (HH2 : BH (ocs n2 (ocs n1 o)) s2) by (split; [apply pend_ok_none; exact Pn2|exact G2]).
      destruct wr as [u| |a| |]; try (injection H as <- <-; exists (n1 ++ n2); rewrite ocs_app;
        (split; [exact X02|split; [first [exact HB2|left; exact HB2|exact I]|split; [exact Hnt2|split; [
           first [exact (conj HH2 Pn2)|exact (ErrH_of_GH _ _ G2)|exact I]|split; [exact Pv02|first [exact I|exact (ErrQ_of_GH _ _ G2)]]]]]])).
      rewrite <- ocs_app in HB2, HH2, Pn2.
      destruct (IH _ _ _ _ Hlim HB2 Hnt2 HH2 Pn2 H) as (n3 & X3 & Post3 & Hnt3 & PostH3 & Pv3 & PostQ3).
      exists ((n1 ++ n2) ++ n3). split; [eapply ext_trans; eauto|]. rewrite ocs_app. split; [auto|split; [auto|split; [auto|split; [|exact PostQ3]]]].
      apply PVall_app; assumption.
    - injection H as <- <-. exists n1. split; [exact X1|split; [left; exact Post1|split; [exact Hnt1|split; [|split; [exact Pv1|]]]]].
      + destruct PostH1 as ((_ & G1) & _). exact (ErrH_of_GH _ _ G1).
      + destruct PostH1 as ((_ & G1) & _). exact (ErrQ_of_GH _ _ G1).
    - destruct (pump_write tp false s1) as [wr s2] eqn:EW.
      destruct Post1 as (HI1 & Hh1 & Hce1). destruct PostH1 as ((Pk1 & G1) & Pn1).
      destruct (pump_write_invPB _ _ _ _ _ HI1 Hce1 Hnt1 (conj Hh1 G1) EW) as (n2 & X2 & WP & Hnt2 & (Hh2 & G2) & Pv2).
      assert (X02 : ext s s2 (n1 ++ n2)) by (eapply ext_trans; eauto).
      assert (Pv02 : PVall lim o (n1 ++ n2)) by (apply PVall_app; assumption).
      pose proof (BInv_wpost _ _ _ _ (conj HI1 (conj Hh1 Hce1)) WP) as HB2.
      assert (Pn2 : o_pend (ocs n2 (ocs n1 o)) = None) by (destruct WP as (_ & _ & P & _); congruence).
      assert (HH2 : BH (ocs n2 (ocs n1 o)) s2) by (split; [apply pend_ok_none; exact Pn2|exact G2]).
      destruct wr as [u| |a| |]; try (injection H as <- <-; exists (n1 ++ n2); rewrite ocs_app;
        (split; [exact X02|split; [first [exact HB2|left; exact HB2|exact I]|split; [exact Hnt2|split; [
           first [exact (conj HH2 Pn2)|exact (ErrH_of_GH _ _ G2)|exact I]|split; [exact Pv02|first [exact I|exact (ErrQ_of_GH _ _ G2)]]]]]])).
      rewrite <- ocs_app in HB2, HH2, Pn2.
      destruct (IH _ _ _ _ Hlim HB2 Hnt2 HH2 Pn2 H) as (n3 & X3 & Post3 & Hnt3 & PostH3 & Pv3 & PostQ3).
      exists ((n1 ++ n2) ++ n3). split; [eapply ext_trans; eauto|]. rewrite ocs_app. split; [auto|split; [auto|split; [auto|split; [|exact PostQ3]]]].
      apply PVall_app; assumption.
    - injection H as <- <-. exists n1. split; [exact X1|split; [exact I|split; [exact Hnt1|split; [exact I|split; [exact Pv1|exact I]]]]].
  Qed.
End LoopsP2.
