(* End-to-end response integrity over the composition (C01 + C08 across hops): the monitor and
   the statements.  No proofs in this file.  The monitor is a fold over the trace, like
   Chain.mon (which it carries along for the head calls and the taint flag); it does not touch
   Chain.v.

   What it remembers:
     rm_rq : requests written into a link (KWire): link, request id, body
     rm_ys : requests yielded to the application (KYield): node, incarnation, request id, body
     rm_st : handlers started (KHStart): node, incarnation
     rm_dn : handlers finished with Ok v (KHDone _ _ (BOk v)): node, incarnation, value
   What it checks (one flag each, so that each can be proved or reported on its own):
     rm_val   (i)   a head call that resolves with Ok v: some handler of node 0 finished with v
                    before; a handler of a non-leaf node i that finishes with Ok v: some handler
                    of node i+1 finished with v before.  By induction v is a value a LEAF
                    handler was scripted to return: no value out of thin air, on any hop.
     rm_body  (i)   the same with the request identified: the finishing handler of the next node
                    served a request with the body of the head call / of the finishing handler's
                    own request.  Owed on untainted runs only (it rests on request ids being
                    handed out once, ChainInv.cross).
     rm_once  (ii)  a head call resolves at most once, and never after it was abandoned.
     rm_yield (iii) a request yielded on node i was written into link i before, with this id and
                    this body, and the incarnation number is the number of earlier yields.
     rm_uniq  (iii) a request id is yielded at most once per link (untainted runs only).
     rm_start (iii) a handler starts at most once, and only for a yielded request. *)
From Coq Require Import List Bool Arith NArith.
Import ListNotations.
From TarpcV Require Import Base Transport Chain ChainSpec.
From TarpcV Require Client Server.

Record rmon := mkrm {
  rm_mon : mon;
  rm_rq : list (nat * N * N);
  rm_ys : list (nat * nat * N * N);
  rm_st : list (nat * nat);
  rm_dn : list (nat * nat * N);
  rm_val : bool; rm_body : bool; rm_once : bool; rm_yield : bool; rm_uniq : bool; rm_start : bool }.
Definition rmon0 : rmon := mkrm mon0 [] [] [] [] true true true true true true.

(* ---- lookups ---- *)
Definition has_dn (dn : list (nat * nat * N)) (i : nat) (v : N) : bool :=
  existsb (fun p => let '(i', _, v') := p in Nat.eqb i i' && N.eqb v v') dn.
Definition mem_dn (dn : list (nat * nat * N)) (i k : nat) (v : N) : bool :=
  existsb (fun p => let '(i', k', v') := p in Nat.eqb i i' && Nat.eqb k k' && N.eqb v v') dn.
Definition has_rq (rq : list (nat * N * N)) (i : nat) (id body : N) : bool :=
  existsb (fun p => let '(i', id', b') := p in Nat.eqb i i' && N.eqb id id' && N.eqb body b') rq.
Definition ys_body (ys : list (nat * nat * N * N)) (i k : nat) : option N :=
  match find (fun p => let '(i', k', _, _) := p in Nat.eqb i i' && Nat.eqb k k') ys with
  | Some (_, _, _, b) => Some b
  | None => None
  end.
Definition ys_count (ys : list (nat * nat * N * N)) (i : nat) : nat :=
  length (filter (fun p => let '(i', _, _, _) := p in Nat.eqb i i') ys).
Definition ys_has_id (ys : list (nat * nat * N * N)) (i : nat) (id : N) : bool :=
  existsb (fun p => let '(i', _, id', _) := p in Nat.eqb i i' && N.eqb id id') ys.
(* some handler of node i that served a request with body b finished with v *)
Definition served (ys : list (nat * nat * N * N)) (dn : list (nat * nat * N)) (i : nat) (b v : N) : bool :=
  existsb (fun p => let '(i', k', _, b') := p in Nat.eqb i i' && N.eqb b b' && mem_dn dn i k' v) ys.

(* ---- what one observation adds ---- *)
Definition rq_obs (rq : list (nat * N * N)) (e : cobs) : list (nat * N * N) :=
  match e with
  | KWire i l =>
    fold_left (fun acc w => match w with WReq id _ _ _ body => (i, id, body) :: acc | WCancel _ _ _ => acc end)
              l rq
  | _ => rq
  end.
Definition ys_obs (ys : list (nat * nat * N * N)) (e : cobs) : list (nat * nat * N * N) :=
  match e with KYield i k id _ _ body => (i, k, id, body) :: ys | _ => ys end.
Definition st_obs (st : list (nat * nat)) (e : cobs) : list (nat * nat) :=
  match e with KHStart i k => (i, k) :: st | _ => st end.
Definition dn_obs (dn : list (nat * nat * N)) (e : cobs) : list (nat * nat * N) :=
  match e with KHDone i k (Server.BOk v) => (i, k, v) :: dn | _ => dn end.

(* ---- the checks (all against the state BEFORE the observation) ---- *)
Definition val_chk (d : nat) (dn : list (nat * nat * N)) (e : cobs) : bool :=
  match e with
  | KCall _ (Client.CDone (Client.OReply v)) => has_dn dn 0 v
  | KHDone i _ (Server.BOk v) => negb (S i <? d) || has_dn dn (S i) v
  | _ => true
  end.
Definition body_chk (d : nat) (x : rmon) (e : cobs) : bool :=
  match e with
  | KCall j (Client.CDone (Client.OReply v)) =>
    mo_tainted (rm_mon x)
    || match nth_error (mo_calls (rm_mon x)) j with
       | Some h => served (rm_ys x) (rm_dn x) 0 (hc_body h) v
       | None => false
       end
  | KHDone i k (Server.BOk v) =>
    negb (S i <? d) || mo_tainted (rm_mon x)
    || match ys_body (rm_ys x) i k with
       | Some b => served (rm_ys x) (rm_dn x) (S i) b v
       | None => false
       end
  | _ => true
  end.
Definition once_chk (x : rmon) (e : cobs) : bool :=
  match e with
  | KCall j (Client.CDone _) =>
    match nth_error (mo_calls (rm_mon x)) j with
    | Some h => negb (hc_over h)
    | None => false
    end
  | _ => true
  end.
Definition yield_chk (x : rmon) (e : cobs) : bool :=
  match e with
  | KYield i k id _ _ body => has_rq (rm_rq x) i id body && Nat.eqb k (ys_count (rm_ys x) i)
  | _ => true
  end.
Definition uniq_chk (x : rmon) (e : cobs) : bool :=
  match e with
  | KYield i _ id _ _ _ => mo_tainted (rm_mon x) || negb (ys_has_id (rm_ys x) i id)
  | _ => true
  end.
Definition start_chk (x : rmon) (e : cobs) : bool :=
  match e with
  | KHStart i k =>
    match ys_body (rm_ys x) i k with Some _ => true | None => false end && negb (memp (i, k) (rm_st x))
  | _ => true
  end.

Definition rm_obs (d : nat) (x : rmon) (e : cobs) : rmon :=
  mkrm (mon_obs (rm_mon x) e)
       (rq_obs (rm_rq x) e) (ys_obs (rm_ys x) e) (st_obs (rm_st x) e) (dn_obs (rm_dn x) e)
       (rm_val x && val_chk d (rm_dn x) e)
       (rm_body x && body_chk d x e)
       (rm_once x && once_chk x e)
       (rm_yield x && yield_chk x e)
       (rm_uniq x && uniq_chk x e)
       (rm_start x && start_chk x e).

Definition rm_set_mon (x : rmon) (m : mon) : rmon :=
  mkrm m (rm_rq x) (rm_ys x) (rm_st x) (rm_dn x)
       (rm_val x) (rm_body x) (rm_once x) (rm_yield x) (rm_uniq x) (rm_start x).

(* rm_mon follows Chain.mon_step exactly *)
Definition rm_step (d : nat) (x : rmon) (o : cop) (l : list cobs) : rmon :=
  let x1 := fold_left (rm_obs d) l (rm_set_mon x (mon_op (rm_mon x) o)) in
  match o with SettleAll => rm_set_mon x1 (mon_settled (rm_mon x1) l) | _ => x1 end.

Fixpoint rm_run (d : nat) (x : rmon) (ops : list cop) (tr : list (list cobs)) : option rmon :=
  match ops, tr with
  | [], [] => Some x
  | o :: ops', l :: tr' => rm_run d (rm_step d x o l) ops' tr'
  | _, _ => None
  end.

Definition rm_flag (f : rmon -> bool) (d : nat) (ops : list cop) (tr : list (list cobs)) : bool :=
  match rm_run d rmon0 ops tr with Some x => f x | None => false end.

Definition c01c_val := rm_flag rm_val.
Definition c01c_body := rm_flag rm_body.
Definition c01c_once := rm_flag rm_once.
Definition c01c_yield := rm_flag rm_yield.
Definition c01c_uniq := rm_flag rm_uniq.
Definition c01c_start := rm_flag rm_start.

Definition c01c_ok (d : nat) (ops : list cop) (tr : list (list cobs)) : bool :=
  c01c_val d ops tr && c01c_body d ops tr && c01c_once d ops tr
  && c01c_yield d ops tr && c01c_uniq d ops tr && c01c_start d ops tr.

(* ---- statements ---- *)
(* (i), value provenance: every depth, every op list, every state (tainted or not, wrapped
   request ids or not) *)
Definition stmt_resp_val : Prop :=
  forall d ops, c01c_val d ops (fst (run d ops)) = true.
Definition stmt_resp_body : Prop :=
  forall d ops, chain_no_wrap ops -> c01c_body d ops (fst (run d ops)) = true.
Definition stmt_resp_once : Prop :=
  forall d ops, chain_no_wrap ops -> c01c_once d ops (fst (run d ops)) = true.
Definition stmt_resp_yield : Prop :=
  forall d ops, c01c_yield d ops (fst (run d ops)) = true.
Definition stmt_resp_uniq : Prop :=
  forall d ops, chain_no_wrap ops -> c01c_uniq d ops (fst (run d ops)) = true.
Definition stmt_resp_start : Prop :=
  forall d ops, c01c_start d ops (fst (run d ops)) = true.
(* the whole monitor *)
Definition stmt_resp : Prop :=
  forall d ops, chain_no_wrap ops -> c01c_ok d ops (fst (run d ops)) = true.
