(* Timer wheel proofs, part 6: along every run of the server model without a request limiter
   (cfg_limit = None, the configuration of Chain.v), for every transport: while the clock stays
   at or below LIMIT the order oracle never disagrees - s_bad stays false, OOracle is never
   printed. *)
From Coq Require Import List Bool Arith NArith Lia Permutation.
Import ListNotations.
From TarpcV Require Import Base Transport TimerWheel Server ServerFuel ServerSim ServerSim2.
From TarpcV Require ChainSrv.
From TarpcV Require Import TimerWheelProofs0 TimerWheelProofs4 TimerWheelProofs5.
Local Open Scope N_scope.

Section Run.
  Context {T C : Type}.
  Variable tp : transport T response cmsg.
  Variable ctl : T -> C -> T.
  Variable tfuel : T -> nat.
  Notation st := (@sstate T).

  Variable n : N.
  Definition SL (s : st) : Prop := SI s /\ (s_now s = n /\ n <= LIMIT).

  Lemma SL_frame (s s' : st) :
    s_dq s' = s_dq s -> s_timers s' = s_timers s -> s_inflight s' = s_inflight s -> s_now s' = s_now s ->
    s_bad s' = s_bad s -> SL s -> SL s'.
  Proof.
    intros E1 E2 E3 E4 E5 [[D EL WN C0 ND TR B] L]. split; [|rewrite E4; exact L].
    constructor; rewrite ?E1, ?E2, ?E4, ?E5; try assumption.
    intros p H. unfold tracked. rewrite E3. apply (TR p). exact H.
  Qed.

  Lemma SL_add_permit (s : st) : SL s -> SL (add_permit s).
  Proof.
    apply SL_frame; unfold add_permit; destruct (s_waiters s) as [|k r]; sproj; try reflexivity;
      destruct (nth_error (s_handlers s) k) as [[h i []]|]; reflexivity.
  Qed.
  Lemma SL_remove_request id (s : st) : SL s -> SL (snd (remove_request id s)).
  Proof.
    intros [I L]. split; [apply SI_remove_request, I|]. unfold remove_request. destruct (find_entry id s); exact L.
  Qed.
  Lemma SL_do_send m (s : st) r s' : do_send tp m s = (r, s') -> SL s -> SL s'.
  Proof. unfold do_send. destruct (t_send tp (s_t s) m). intros [= _ <-]. apply SL_frame; reflexivity. Qed.
  Lemma SL_do_ready (s : st) r s' : do_ready tp s = (r, s') -> SL s -> SL s'.
  Proof. unfold do_ready. destruct (t_ready tp (s_t s)). intros [= _ <-]. apply SL_frame; reflexivity. Qed.
  Lemma SL_do_flush (s : st) r s' : do_flush tp s = (r, s') -> SL s -> SL s'.
  Proof. unfold do_flush. destruct (t_flush tp (s_t s)). intros [= _ <-]. apply SL_frame; reflexivity. Qed.
  Lemma SL_do_next (s : st) r s' : do_next tp s = (r, s') -> SL s -> SL s'.
  Proof. unfold do_next. destruct (t_next tp (s_t s)). intros [= _ <-]. apply SL_frame; reflexivity. Qed.

  Lemma SL_requests_poll_next f (s : st) r s' :
    requests_poll_next tp (mkcfg None 100) f s = (r, s') -> SL s -> SL s'.
  Proof.
    intros H K.
    pose proof (ChainSrv.requests_poll_next_ind tp SL (fun _ => SL)) as IND.
    assert (G : match r with PReady q => SL s' | _ => SL s' end); [|destruct r; exact G].
    eapply IND; try eassumption; clear.
    - intros s id r _ K. apply SL_remove_request. revert K. apply SL_frame; reflexivity.
    - intros s r s' H [I L]. split; [eapply SI_poll_expired; eassumption|].
      apply poll_expired_shape in H. destruct H as (_ & _ & _ & E & _). rewrite E. exact L.
    - intros s r s' H _. eapply SL_do_next, H.
    - intros s. apply SL_frame; reflexivity.
    - intros s id dl tr body s1 h s2 H K S. pose proof (SL_do_next _ _ _ H K) as [I L].
      split; [eapply SI_start_request; [exact I|lia|eassumption]|].
      apply start_request_shape in S. destruct S as (_ & _ & _ & _ & _ & _ & _ & _ & E & _). rewrite E. exact L.
    - intros s id dl tr body s1 H K _. eapply SL_do_next; eassumption.
    - intros s id tr s1 H K. pose proof (SL_do_next _ _ _ H K) as [I L].
      split; [apply SI_cancel_request, I|]. unfold cancel_request. destruct (find_entry id s1); exact L.
    - intros s r s'. apply SL_do_ready.
    - intros s r s'. apply SL_do_flush.
    - intros q s r s'. apply SL_do_ready.
    - intros q s r s'. apply SL_do_flush.
    - intros s m r e s' _ H K. unfold base_start_send in H.
      assert (K1 : SL (add_permit (set_respq s r))) by (apply SL_add_permit; revert K; apply SL_frame; reflexivity).
      pose proof (SL_remove_request (resp_id m) _ K1) as K2.
      destruct (remove_request (resp_id m) (add_permit (set_respq s r))) as [was sx]. cbn [snd] in K2. destruct was.
      + destruct (do_send tp m sx) as [rr sy] eqn:ES. injection H as _ <-. eapply SL_do_send; eassumption.
      + injection H as _ <-. exact K2.
    - intros q s m r e s' _ H K. cbv beta in *. unfold base_start_send in H.
      assert (K1 : SL (add_permit (set_respq s r))) by (apply SL_add_permit; revert K; apply SL_frame; reflexivity).
      pose proof (SL_remove_request (resp_id m) _ K1) as K2.
      destruct (remove_request (resp_id m) (add_permit (set_respq s r))) as [was sx]. cbn [snd] in K2. destruct was.
      + destruct (do_send tp m sx) as [rr sy] eqn:ES. injection H as _ <-. eapply SL_do_send; eassumption.
      + injection H as _ <-. exact K2.
    - intros q s. apply SL_frame; reflexivity.
  Qed.

  (* ---- every configuration: with or without the request limiter ---- *)
  Lemma SL_base_start_send m (s : st) e s' : base_start_send tp m s = (e, s') -> SL s -> SL s'.
  Proof.
    unfold base_start_send. intros H K. pose proof (SL_remove_request (resp_id m) _ K) as K2.
    destruct (remove_request (resp_id m) s) as [was sx]. cbn [snd] in K2. destruct was.
    - destruct (do_send tp m sx) as [rr sy] eqn:ES. injection H as _ <-. eapply SL_do_send; eassumption.
    - injection H as _ <-. exact K2.
  Qed.

  Lemma SL_base_poll_next f (s : st) r s' : base_poll_next tp f s = (r, s') -> SL s -> SL s'.
  Proof.
    intros H K.
    pose proof (ChainSrv.base_poll_next_ind tp SL (fun _ => SL)) as IND.
    assert (G : match r with PReady q => SL s' | _ => SL s' end); [|destruct r; exact G].
    eapply IND; try eassumption; clear.
    - intros s id r _ K. apply SL_remove_request. revert K. apply SL_frame; reflexivity.
    - intros s r s' H [I L]. split; [eapply SI_poll_expired; eassumption|].
      apply poll_expired_shape in H. destruct H as (_ & _ & _ & E & _). rewrite E. exact L.
    - intros s r s' H _. eapply SL_do_next, H.
    - intros s. apply SL_frame; reflexivity.
    - intros s id dl tr body s1 h s2 H K S. pose proof (SL_do_next _ _ _ H K) as [I L].
      split; [eapply SI_start_request; [exact I|lia|eassumption]|].
      apply start_request_shape in S. destruct S as (_ & _ & _ & _ & _ & _ & _ & _ & E & _). rewrite E. exact L.
    - intros s id dl tr body s1 H K _. eapply SL_do_next; eassumption.
    - intros s id tr s1 H K. pose proof (SL_do_next _ _ _ H K) as [I L].
      split; [apply SI_cancel_request, I|]. unfold cancel_request. destruct (find_entry id s1); exact L.
  Qed.

  Lemma SL_maxreq_poll_next limit f : forall (s : st) r s', maxreq_poll_next tp f limit s = (r, s') -> SL s -> SL s'.
  Proof.
    induction f as [|f IH]; intros s r s' H K; cbn [maxreq_poll_next] in H; [injection H as _ <-; exact K|].
    destruct (limit <=? length (s_inflight s))%nat; [|eapply SL_base_poll_next; eassumption].
    destruct (do_ready tp s) as [rd s1] eqn:E1. pose proof (SL_do_ready _ _ _ E1 K) as K1.
    destruct rd; try (injection H as _ <-; exact K1).
    destruct (base_poll_next tp (S f) s1) as [x s2] eqn:E2. pose proof (SL_base_poll_next _ _ _ _ E2 K1) as K2.
    destruct x as [q| |a| |]; try (injection H as _ <-; exact K2).
    destruct (base_start_send tp (mkresp (q_id q) BThrottle) s2) as [e s3] eqn:E3.
    pose proof (SL_base_start_send _ _ _ _ E3 K2) as K3.
    destruct e; [injection H as _ <-; exact K3|eapply IH; eassumption].
  Qed.

  Lemma SL_pump_write rc (s : st) w s' : pump_write tp rc s = (w, s') -> SL s -> SL s'.
  Proof.
    intros H K. eapply (ChainSrv.pump_write_ind tp SL); [| | |exact H|exact K].
    - intros s0 r s0'. apply SL_do_ready.
    - intros s0 r s0'. apply SL_do_flush.
    - intros s0 m r e s0' _ HS K0. eapply SL_base_start_send; [exact HS|].
      apply SL_add_permit. revert K0. apply SL_frame; reflexivity.
  Qed.

  Lemma SL_requests_poll_next_cfg c f : forall (s : st) r s',
    requests_poll_next tp c f s = (r, s') -> SL s -> SL s'.
  Proof.
    induction f as [|f IH]; intros s r s' H K; cbn [requests_poll_next] in H; [injection H as _ <-; exact K|].
    destruct (pump_read tp c (S f) s) as [rd s1] eqn:ER.
    assert (K1 : SL s1).
    { unfold pump_read in ER. destruct (cfg_limit c); [eapply SL_maxreq_poll_next|eapply SL_base_poll_next]; eassumption. }
    destruct rd as [q| |a| |]; try (injection H as _ <-; exact K1).
    all: match type of H with context [pump_write tp ?b ?sx] =>
           destruct (pump_write tp b sx) as [wr s2] eqn:EW; pose proof (SL_pump_write _ _ _ _ EW K1) as K2 end.
    all: destruct wr as [u| |a| |]; try (injection H as _ <-; exact K2); try (eapply IH; eassumption).
    injection H as _ <-. revert K2. apply SL_frame; reflexivity.
  Qed.

  Ltac frm := apply SL_frame; sproj; reflexivity.

  Lemma SL_execute_poll k hs (s : st) s' l : execute_poll k hs s = (s', l) -> SL s -> SL s'.
  Proof.
    unfold execute_poll. destruct (nth_error (s_handlers s) k) as [hr|]; [|intros [= <- _]; auto].
    assert (AP : forall x : st, SL x -> SL (add_permit x)) by apply SL_add_permit.
    destruct (h_st hr); try (intros [= <- _]; auto);
      destruct (existsb (Nat.eqb (h_h hr)) (s_aborted s));
      try (intros [= <- _] K; first [revert K; frm | (apply (SL_frame (add_permit s)); [sproj; reflexivity..|apply AP, K])]);
      try (destruct hs; try (intros [= <- _] K; revert K; frm));
      try (destruct (s_dropped s); [intros [= <- _] K; revert K; frm|]);
      try (destruct (s_permits s); intros [= <- _] K; revert K; frm);
      try (intros [= <- _] K; revert K; frm).
  Qed.

  Lemma SL_guard_cancel id (s : st) : SL s -> SL (guard_cancel id s).
  Proof. unfold guard_cancel. destruct (s_dropped s); [auto|frm]. Qed.

End Run.

Section Run2.
  Context {T C : Type}.
  Variable tp : transport T response cmsg.
  Variable ctl : T -> C -> T.
  Variable tfuel : T -> nat.
  Notation st := (@sstate T).
  Ltac frm := apply SL_frame; sproj; reflexivity.

  Definition adv1 (o : op C) : N := match o with OAdvance dt => dt | _ => 0 end.
  Definition advs (ops : list (op C)) : N := fold_right (fun o a => adv1 o + a) 0 ops.

  Lemma SL_step_cfg c n (s : st) (o : op C) s' l :
    step tp ctl tfuel c s o = (s', l) -> SL n s -> n + adv1 o <= LIMIT ->
    SL (n + adv1 o) s' /\ ~ In OOracle l.
  Proof.
    intros H K LM. unfold step in H.
    assert (G : forall m s1 l1, SL m s1 -> (s1, l1 ++ gauges s1) = (s', l) -> (forall x, In x l1 -> x <> OOracle) -> SL m s' /\ ~ In OOracle l).
    { intros m s1 l1 K1 [= <- <-] NO. split; [exact K1|]. intro X. apply in_app_or in X. destruct X as [X|X]; [exact (NO _ X eq_refl)|].
      unfold gauges in X. destruct (s_dropped s1); [destruct X|]. destruct X as [X|X]; [discriminate|].
      rewrite (si_bad _ (proj1 K1)) in X. destruct X. }
    destruct o as [|x|k hs|k|k| |dt]; cbn [adv1] in *; rewrite ?N.add_0_r in *.
    - unfold poll_requests in H. destruct (s_dropped s).
      + eapply G; [exact K|exact H|intros ? []].
      + destruct (requests_poll_next tp c (poll_fuel tfuel s) (set_log s [])) as [r s1] eqn:ER.
        assert (K1 : SL n s1) by (eapply SL_requests_poll_next_cfg; [exact ER|revert K; frm]).
        destruct r; (eapply G; [|exact H|intros y [<-|[<-|[]]]; discriminate]); try exact K1. revert K1. frm.
    - eapply G; [|exact H|intros ? []]. revert K. frm.
    - destruct (execute_poll k hs s) as [s1 l1] eqn:EE. eapply G; [eapply SL_execute_poll; eassumption|exact H|].
      intros y Hy ->. unfold execute_poll in EE. revert EE Hy.
      destruct (nth_error (s_handlers s) k) as [hr|]; [|intros [= _ <-] []].
      destruct (h_st hr); try (intros [= _ <-] []);
        destruct (existsb _ _); try (intros [= _ <-] Hy; cbn in Hy; intuition discriminate);
        try (destruct hs; try (intros [= _ <-] Hy; cbn in Hy; intuition discriminate));
        try (destruct (s_dropped s)); try (destruct (s_permits s)); intros [= _ <-] Hy; cbn in Hy; intuition discriminate.
    - destruct (drop_handler k s) as [s1 l1] eqn:EE. eapply G; [|exact H|].
      + unfold drop_handler in EE. destruct (nth_error (s_handlers s) k) as [hr|]; [|injection EE as <- _; exact K].
        destruct (h_st hr); injection EE as <- _; try exact K; apply SL_guard_cancel.
        * revert K. frm.
        * revert K. frm.
        * apply (SL_frame n (add_permit s)); [sproj; reflexivity..|apply SL_add_permit, K].
      + intros y Hy ->. unfold drop_handler in EE. destruct (nth_error (s_handlers s) k) as [hr|]; [|injection EE as _ <-; destruct Hy].
        destruct (h_st hr); injection EE as _ <-; cbn in Hy; intuition discriminate.
    - destruct (drop_yielded k s) as [s1 l1] eqn:EE. eapply G; [|exact H|].
      + unfold drop_yielded in EE. destruct (nth_error (s_handlers s) k) as [[h i []]|]; injection EE as <- _; try exact K.
        apply SL_guard_cancel. revert K. frm.
      + intros y Hy ->. unfold drop_yielded in EE. destruct (nth_error (s_handlers s) k) as [[h i []]|]; injection EE as _ <-; destruct Hy.
    - eapply G; [|exact H|intros ? []]. unfold drop_channel. destruct (s_dropped s); [exact K|revert K; frm].
    - destruct K as [[D EL WN C0 ND TR B] [L1 L2]].
      assert (K1 : SL (n + dt) (set_now s (s_now s + dt))).
      { split; [|sproj; split; [rewrite L1; reflexivity|exact LM]]. constructor; sproj; try assumption; try lia.
        eapply cor_mono; [|exact C0]. lia. }
      eapply (G _ _ [] K1); [exact H|intros ? []].
  Qed.

  (* along every run: as long as the clock stays at or below LIMIT, the oracle never disagrees *)
  Lemma SL_run_cfg c ops : forall n (s : st),
    SL n s -> n + advs ops <= LIMIT ->
    forall l, In l (fst (run_from tp ctl tfuel c s ops)) -> ~ In OOracle l.
  Proof.
    induction ops as [|o r IH]; intros n s K LM l; cbn [run_from advs fold_right] in *; [intros []|].
    fold (advs r) in LM.
    destruct (step tp ctl tfuel c s o) as [s1 l1] eqn:ES.
    destruct (SL_step_cfg _ _ _ _ _ _ ES K ltac:(lia)) as [K1 NO].
    specialize (IH (n + adv1 o) s1 K1 ltac:(lia)).
    destruct (run_from tp ctl tfuel c s1 r) as [ls s2]. cbn [fst] in *.
    intros [<-|H]; [exact NO|apply IH, H].
  Qed.

  Lemma SL_init_cfg c t0 : SL 0 (init c t0 : st).
  Proof.
    split; [|split; [reflexivity|unfold LIMIT; lia]]. constructor; cbn.
    - apply DI_init.
    - lia.
    - lia.
    - exists []. split; [reflexivity|]. split; [reflexivity|intros ? []].
    - constructor.
    - intros ? [].
    - reflexivity.
  Qed.

  (* the pinned form: every run of the server model (no limiter, any transport, any ops) whose
     clock - the sum of its OAdvance steps - stays at or below LIMIT prints no OOracle *)
  Theorem server_oracle_agrees_cfg c t0 ops :
    advs ops <= LIMIT ->
    forall l, In l (fst (run tp ctl tfuel c t0 ops)) -> ~ In OOracle l.
  Proof. intros LM. unfold run. eapply SL_run_cfg; [apply SL_init_cfg|lia]. Qed.

  (* the instances without a limiter, as first stated *)
  Definition SL_step n (s : st) (o : op C) s' l := SL_step_cfg (mkcfg None 100) n s o s' l.
  Definition SL_run ops n (s : st) := SL_run_cfg (mkcfg None 100) ops n s.
  Definition SL_init t0 := SL_init_cfg (mkcfg None 100) t0.
  Theorem server_oracle_agrees t0 ops :
    advs ops <= LIMIT ->
    forall l, In l (fst (run tp ctl tfuel (mkcfg None 100) t0 ops)) -> ~ In OOracle l.
  Proof. apply server_oracle_agrees_cfg. Qed.
End Run2.
Print Assumptions server_oracle_agrees.
Print Assumptions server_oracle_agrees_cfg.
