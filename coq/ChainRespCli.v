(* Chain proofs, response integrity, client side: where a reply value can come from.  A oneshot
   slot holds Ok v only if a response with body Ok v was read from the inbound side of the link;
   a call resolves with Ok v only if its slot holds it.  `P` is the set of values the server of
   this node has produced (a handler of this node finished with it).  Over Chain.ctp, in every
   state. *)
From Coq Require Import List Bool Arith NArith Lia.
Import ListNotations.
From TarpcV Require Import Base Transport Client ClientLemmas ClientSimBase ClientProofsG1Frames.
From TarpcV Require Server Chain ChainCli.

Arguments N.modulo : simpl never.
Arguments N.add : simpl never.
Arguments N.mul : simpl never.
Arguments N.min : simpl never.
Arguments N.sub : simpl never.

Notation ctp := Chain.ctp.
Notation cst := (@cstate Chain.link).

Section CVal.
  (* P id v: the server of this node has produced v for request id *)
  Variable P : N -> N -> Prop.
  Implicit Types s : cst.

  Definition sl_ok (id : N) (x : slot) : Prop := forall v, sl_val x = Some (OReply v) -> P id v.
  Definition cl_ok s : Prop := forall id x, In (id, x) (slots s) -> sl_ok id x.
  Definition lk_ok (l : Chain.link) : Prop :=
    forall r v, In r (Chain.l_s2c l) -> r_body r = BOk v -> P (r_id r) v.
  Definition cv s : Prop := cl_ok s /\ lk_ok (tr s).

  Lemma cv_eq s s' : slots s' = slots s -> tr s' = tr s -> cv s -> cv s'.
  Proof. intros E1 E2 [A B]. split; [unfold cl_ok; rewrite E1; exact A|rewrite E2; exact B]. Qed.

  Lemma sl_ok_get s id : cl_ok s -> sl_ok id (get_slot s id).
  Proof.
    intro A. unfold get_slot. destruct (alookup id (slots s)) as [x|] eqn:E.
    - eapply A, alookup_in, E.
    - intros v H. discriminate.
  Qed.
  Lemma cv_set_slot s id x : sl_ok id x -> cv s -> cv (set_slot s id x).
  Proof.
    intros Hx [A B]. split; [|exact B]. intros id' x' H. unfold set_slot in H. cbn [slots upd_slots] in H.
    apply In_aset in H. destruct H as [[-> ->]|[H _]]; [exact Hx|eapply A, H].
  Qed.
  Lemma cv_slot_send s id o : (forall v, o = OReply v -> P id v) -> cv s -> cv (slot_send s id o).
  Proof.
    intros Ho H. pose proof (sl_ok_get s id (proj1 H)) as G. unfold slot_send.
    destruct (sl_rx_closed _); apply cv_set_slot; try exact H; intros v E; cbn [sl_val] in E.
    - apply G, E.
    - injection E as ->. apply Ho. reflexivity.
  Qed.
  Lemma cv_slot_tx_drop s id : cv s -> cv (slot_tx_drop s id).
  Proof.
    intro H. pose proof (sl_ok_get s id (proj1 H)) as G. unfold slot_tx_drop.
    apply cv_set_slot; [|exact H]. intros v E. apply G, E.
  Qed.
  Lemma cv_slot_rx_close s id : cv s -> cv (slot_rx_close s id).
  Proof.
    intro H. pose proof (sl_ok_get s id (proj1 H)) as G. unfold slot_rx_close.
    apply cv_set_slot; [|exact H]. intros v E. apply G, E.
  Qed.

  Lemma slots_set_phase s i p : slots (set_phase s i p) = slots s.
  Proof. unfold set_phase. destruct (nth_error _ _); reflexivity. Qed.
  Lemma cv_set_phase s i p : cv s -> cv (set_phase s i p).
  Proof. apply cv_eq; [apply slots_set_phase|apply ChainCli.tr_set_phase]. Qed.
  Lemma cv_release_permit s : cv s -> cv (release_permit s).
  Proof.
    intro H. unfold release_permit. destruct (waiters s) as [|w r].
    - eapply cv_eq; [..|exact H]; reflexivity.
    - apply cv_set_phase. eapply cv_eq; [..|exact H]; reflexivity.
  Qed.
  Lemma cv_fold_set_phase p (l : list nat) s :
    cv s -> cv (fold_left (fun acc w => set_phase acc w p) l s).
  Proof. revert s; induction l as [|w r IH]; intros s H; cbn; [exact H|]. apply IH, cv_set_phase, H. Qed.
  Lemma cv_q_close s : cv s -> cv (q_close s).
  Proof.
    intro H. unfold q_close. destruct (rx_closed s); [exact H|].
    pose proof (cv_fold_set_phase PAcqClosed (waiters s) s H) as H1.
    eapply cv_eq; [..|exact H1]; reflexivity.
  Qed.
  Lemma cv_push_cancel s id : cv s -> cv (push_cancel s id).
  Proof. intro H. unfold push_cancel. destruct (dropped s); [exact H|]. eapply cv_eq; [..|exact H]; reflexivity. Qed.

  (* ---------------------------------------------------------------- the user side *)
  Lemma cv_poll_slot s i id r s' :
    poll_slot s i id = (r, s') -> cv s -> cv s' /\ forall v, r = CDone (OReply v) -> P id v.
  Proof.
    intros E H. pose proof (sl_ok_get s id (proj1 H)) as G. unfold poll_slot in E.
    destruct (sl_val (get_slot s id)) as [o|] eqn:EV.
    - injection E as <- <-. split; [apply cv_set_phase, cv_slot_rx_close, H|].
      intros v [= ->]. apply G. exact EV.
    - destruct (sl_tx_gone _); injection E as <- <-.
      + split; [apply cv_set_phase, cv_slot_rx_close, H|]. intros v [=].
      + split; [exact H|]. intros v [=].
  Qed.
  Lemma cv_fail_shutdown s i id : cv s -> cv (snd (fail_shutdown s i id)).
  Proof.
    intro H. unfold fail_shutdown. cbn [snd].
    apply cv_set_phase, cv_push_cancel, cv_slot_rx_close, cv_slot_tx_drop, H.
  Qed.
  Lemma cv_enqueue s i c id tc r s' :
    enqueue s i c id tc = (r, s') -> cv s -> cv s' /\ forall v, r = CDone (OReply v) -> P id v.
  Proof.
    unfold enqueue. intros E H. eapply cv_poll_slot; [exact E|].
    apply cv_set_phase. eapply cv_eq; [..|exact H]; reflexivity.
  Qed.

  (* the id under which call i is (being) registered *)
  Definition call_id s (c : call) : N := match c_phase c with PNew => next_id s | _ => c_id c end.

  Lemma cv_poll_call s i r s' :
    poll_call s i = (r, s') -> cv s ->
    cv s' /\ forall v, r = CDone (OReply v) ->
              exists c, nth_error (calls s) i = Some c /\ P (call_id s c) v.
  Proof.
    unfold poll_call. intros E H. destruct (nth_error (calls s) i) as [c|].
    2: { injection E as <- <-. split; [exact H|intros v [=]]. }
    assert (FS : forall sx id, cv sx -> fail_shutdown sx i id = (r, s') ->
                 cv s' /\ forall v, r = CDone (OReply v) -> exists c0, Some c = Some c0 /\ P (call_id s c0) v).
    { intros sx id Hx Ex. pose proof (cv_fail_shutdown sx i id Hx) as K. rewrite Ex in K.
      split; [exact K|]. unfold fail_shutdown in Ex. injection Ex as <- _. intros v [=]. }
    assert (WR : forall id, call_id s c = id ->
                 (cv s' /\ forall v, r = CDone (OReply v) -> P id v) ->
                 cv s' /\ forall v, r = CDone (OReply v) -> exists c0, Some c = Some c0 /\ P (call_id s c0) v).
    { intros id <- [A B]. split; [exact A|]. intros v Ev. exists c. split; [reflexivity|apply B, Ev]. }
    unfold call_id in WR. destruct (c_phase c).
    - set (s0 := with_id _ i c (next_id s)) in *. set (s1 := set_slot s0 (next_id s) slot0) in *.
      assert (H1 : cv s1).
      { apply cv_set_slot; [intros v [=]|]. eapply cv_eq; [..|exact H]; reflexivity. }
      destruct (rx_closed s1); [eapply FS; [exact H1|exact E]|].
      destruct (permits s1) as [|p].
      + injection E as <- <-. split; [|intros v [=]].
        apply cv_set_phase. eapply cv_eq; [..|exact H1]; reflexivity.
      + apply (WR (next_id s) eq_refl). eapply cv_enqueue; [exact E|]. eapply cv_eq; [..|exact H1]; reflexivity.
    - injection E as <- <-. split; [exact H|intros v [=]].
    - destruct (rx_closed s).
      + eapply FS; [|exact E]. eapply cv_eq; [..|exact H]; reflexivity.
      + apply (WR (c_id c) eq_refl). eapply cv_enqueue; eassumption.
    - eapply FS; eassumption.
    - apply (WR (c_id c) eq_refl). eapply cv_poll_slot; eassumption.
    - injection E as <- <-. split; [exact H|intros v [=]].
    - injection E as <- <-. split; [exact H|intros v [=]].
    - injection E as <- <-. split; [exact H|intros v [=]].
  Qed.

  Lemma cv_guard_close s i : cv s -> cv (guard_close s i).
  Proof.
    intro H. unfold guard_close. destruct (nth_error (calls s) i) as [c|]; [|exact H].
    destruct (c_phase c); try exact H.
    - apply cv_set_phase, H.
    - apply cv_set_phase, cv_slot_rx_close, cv_slot_tx_drop. eapply cv_eq; [..|exact H]; reflexivity.
    - apply cv_slot_rx_close, cv_slot_tx_drop.
      pose proof (cv_set_phase s i PClosing H) as H1.
      destruct (rx_closed _); [eapply cv_eq; [..|exact H1]; reflexivity|apply cv_release_permit, H1].
    - apply cv_set_phase, cv_slot_rx_close, cv_slot_tx_drop, H.
    - apply cv_set_phase, cv_slot_rx_close, H.
  Qed.
  Lemma cv_guard_cancel s i : cv s -> cv (guard_cancel s i).
  Proof.
    intro H. unfold guard_cancel. destruct (nth_error (calls s) i) as [c|]; [|exact H].
    destruct (c_phase c); try exact H. apply cv_set_phase, cv_push_cancel, H.
  Qed.

  (* ---------------------------------------------------------------- the dispatch *)
  Lemma cv_X_same s s' : XFrame s s' -> tr s' = tr s -> cv s -> cv s'.
  Proof. intros F E. apply cv_eq; [apply F|exact E]. Qed.
  Lemma cv_do_ready s r s' : do_ready ctp s = (r, s') -> cv s -> cv s'.
  Proof. intro E. apply cv_X_same; [eapply XFrame_do_ready, E|eapply ChainCli.tr_do_ready, E]. Qed.
  Lemma cv_do_flush s r s' : do_flush ctp s = (r, s') -> cv s -> cv s'.
  Proof. intro E. apply cv_X_same; [eapply XFrame_do_flush, E|eapply ChainCli.tr_do_flush, E]. Qed.
  Lemma cv_do_close s r s' : do_close ctp s = (r, s') -> cv s -> cv s'.
  Proof. intro E. apply cv_X_same; [eapply XFrame_do_close, E|eapply ChainCli.tr_do_close, E]. Qed.
  Lemma cv_do_send s m r s' : do_send ctp s m = (r, s') -> cv s -> cv s'.
  Proof.
    intros E [A B]. pose proof (XFrame_do_send ctp _ _ _ _ E) as F. split.
    - unfold cl_ok. rewrite (xf_slots _ _ F). exact A.
    - unfold do_send in E. cbn in E. destruct (Chain.l_sgone (tr s)); injection E as <- <-; exact B.
  Qed.
  Lemma cv_do_next s r s' :
    do_next ctp s = (r, s') -> cv s ->
    cv s' /\ match r with RItem x => forall v, r_body x = BOk v -> P (r_id x) v | _ => True end.
  Proof.
    intros E [A B]. pose proof (XFrame_do_next ctp _ _ _ E) as F.
    assert (A' : cl_ok s') by (unfold cl_ok; rewrite (xf_slots _ _ F); exact A).
    unfold do_next in E. destruct (fused s); [injection E as <- <-; split; [split; assumption|exact I]|].
    cbn in E. destruct (Chain.l_s2c (tr s)) as [|x rest] eqn:EL.
    - injection E as <- <-. split; [split; [exact A'|exact B]|]. destruct (Chain.l_sgone _); exact I.
    - injection E as <- <-. split.
      + split; [exact A'|]. intros r v Hr. cbn in Hr. apply B. rewrite EL. right. exact Hr.
      + intros v Hv. eapply B; [rewrite EL; left; reflexivity|exact Hv].
  Qed.

  Lemma cv_ensure_writeable s r s' : ensure_writeable ctp s = (r, s') -> cv s -> cv s'.
  Proof.
    intros E H. apply ensure_writeable_inv in E.
    destruct E as [r1 s1 E1 _|s1 s2 E1 E2|s1 s2 E1 E2|s1 s2 r3 s3 E1 E2 E3].
    - eapply cv_do_ready; eassumption.
    - eapply cv_do_flush; [eassumption|]. eapply cv_do_ready; eassumption.
    - eapply cv_do_flush; [eassumption|]. eapply cv_do_ready; eassumption.
    - eapply cv_do_ready; [eassumption|]. eapply cv_do_flush; [eassumption|].
      eapply cv_do_ready; eassumption.
  Qed.

  Lemma cv_complete_request s id o :
    (forall v, o = OReply v -> P id v) -> cv s -> cv (snd (complete_request s id o)).
  Proof.
    intros Ho H. unfold complete_request. destruct (alookup id (inflight s)); cbn [snd]; [|exact H].
    apply cv_slot_send; [exact Ho|]. eapply cv_eq; [..|exact H]; reflexivity.
  Qed.
  Lemma cv_poll_expired s : cv s -> cv (snd (poll_expired s)).
  Proof.
    intro H. unfold poll_expired. destruct (min_timer _ _) as [[id w]|]; [|exact H].
    destruct (N.leb w (now s)); [|exact H]. cbn [inflight upd_if].
    destruct (alookup id (inflight s)); cbn [snd].
    - apply cv_slot_send; [intros v [=]|]. eapply cv_eq; [..|exact H]; reflexivity.
    - eapply cv_eq; [..|exact H]; reflexivity.
  Qed.

  Lemma cv_q_poll_recv s : cv s -> cv (snd (q_poll_recv s)).
  Proof.
    intro H. unfold q_poll_recv. destruct (queue s) as [|x rest].
    - destruct (Nat.eqb _ _); [exact H|]. destruct (_ && _); exact H.
    - cbn [snd]. apply cv_release_permit. eapply cv_eq; [..|exact H]; reflexivity.
  Qed.
  Lemma cv_next_request_loop f : forall s, cv s -> cv (snd (next_request_loop f s)).
  Proof.
    induction f as [|f IH]; intros s H; cbn [next_request_loop]; [exact H|].
    pose proof (cv_q_poll_recv s H) as H1. destruct (q_poll_recv s) as [x s1]. cbn [snd] in H1.
    destruct x as [q| |]; try exact H1.
    destruct (sl_rx_closed _); [apply IH, cv_slot_tx_drop, H1|exact H1].
  Qed.

  Lemma cv_poll_write_request s r s' : poll_write_request ctp s = (r, s') -> cv s -> cv s'.
  Proof.
    intros E H. apply poll_write_request_inv in E.
    destruct E as [_|r1 s1 _ E1 _|r1 s1 s2 _ E1 E2 _|s1 q s2 w s3 _ E1 E2 E3].
    - exact H.
    - eapply cv_ensure_writeable; eassumption.
    - pose proof (cv_next_request_loop (S (length (queue s1))) s1) as K. rewrite E2 in K.
      apply K. eapply cv_ensure_writeable; eassumption.
    - pose proof (cv_next_request_loop (S (length (queue s1))) s1) as K. rewrite E2 in K.
      assert (H3 : cv s3).
      { eapply cv_do_send; [exact E3|]. eapply cv_eq; [..|apply K; eapply cv_ensure_writeable; eassumption];
          reflexivity. }
      destruct w; [exact H3|]. apply cv_complete_request; [intros v [=]|exact H3].
  Qed.

  Lemma cv_next_cancel_loop f : forall s, cv s -> cv (snd (next_cancel_loop f s)).
  Proof.
    induction f as [|f IH]; intros s H; cbn [next_cancel_loop]; [exact H|].
    unfold c_poll_recv. destruct (cancels s) as [|x rest].
    - destruct (Nat.eqb _ _); exact H.
    - set (s1 := upd_cancels s rest).
      assert (H1 : cv s1) by (eapply cv_eq; [..|exact H]; reflexivity).
      unfold cancel_request. destruct (alookup x (inflight s1)); cbn [snd].
      + eapply cv_eq; [..|exact H1]; reflexivity.
      + apply IH, H1.
  Qed.
  Lemma cv_poll_write_cancel s r s' : poll_write_cancel ctp s = (r, s') -> cv s -> cv s'.
  Proof.
    intros E H. apply poll_write_cancel_inv in E.
    destruct E as [r1 s1 E1 _|r1 s1 s2 E1 E2 _|s1 id e s2 w s3 E1 E2 E3].
    - eapply cv_ensure_writeable; eassumption.
    - pose proof (cv_next_cancel_loop (S (length (cancels s1))) s1) as K. rewrite E2 in K.
      apply K. eapply cv_ensure_writeable; eassumption.
    - pose proof (cv_next_cancel_loop (S (length (cancels s1))) s1) as K. rewrite E2 in K.
      eapply cv_do_send; [exact E3|]. apply K. eapply cv_ensure_writeable; eassumption.
  Qed.

  Lemma cv_pump_write s r s' : pump_write ctp s = (r, s') -> cv s -> cv s'.
  Proof.
    intros E H. apply pump_write_inv in E.
    assert (PE : forall a e b, poll_expired a = (e, b) -> cv a -> cv b).
    { intros a e b Ee Ha. pose proof (cv_poll_expired a Ha) as F. rewrite Ee in F. exact F. }
    destruct E as [a s1 E1|u s1 E1|r1 s1 a s2 E1 _ E2|r1 s1 u s2 E1 _ E2
                  |r1 s1 r2 s2 id s3 E1 _ E2 _ E3|s1 s2 s3 c s4 E1 E2 E3 E4
                  |r1 s1 r2 s2 s3 f s4 E1 _ E2 _ _ E3 E4].
    - eapply cv_poll_write_request; eassumption.
    - eapply cv_poll_write_request; eassumption.
    - eapply cv_poll_write_cancel; [eassumption|]. eapply cv_poll_write_request; eassumption.
    - eapply cv_poll_write_cancel; [eassumption|]. eapply cv_poll_write_request; eassumption.
    - eapply PE; [eassumption|]. eapply cv_poll_write_cancel; [eassumption|].
      eapply cv_poll_write_request; eassumption.
    - eapply cv_do_close; [eassumption|]. eapply PE; [eassumption|].
      eapply cv_poll_write_cancel; [eassumption|]. eapply cv_poll_write_request; eassumption.
    - eapply cv_do_flush; [eassumption|]. eapply PE; [eassumption|].
      eapply cv_poll_write_cancel; [eassumption|]. eapply cv_poll_write_request; eassumption.
  Qed.

  (* the one place a reply value enters the client *)
  Lemma cv_pump_read s r s' : pump_read ctp s = (r, s') -> cv s -> cv s'.
  Proof.
    intros E H. apply pump_read_inv in E. destruct E as (x & s1 & E1 & _ & ->).
    destruct (cv_do_next _ _ _ E1 H) as [H1 Hx].
    destruct x as [y| | |]; try exact H1. unfold complete. apply cv_complete_request; [|exact H1].
    intros v Ev. destruct (r_body y) as [v0|k]; [injection Ev as <-; apply Hx; reflexivity|discriminate].
  Qed.

  Lemma cv_run_loop f : forall s r s', run_loop ctp f s = (r, s') -> cv s -> cv s'.
  Proof.
    induction f as [|f IH]; intros s r s' E H; [cbn in E; injection E as <- <-; exact H|].
    apply run_loop_inv in E.
    destruct E as [a s1 E1|rd s1 a s2 E1 _ E2|s1 wr s2 E1 E2 _|rd s1 s2 E1 _ E2 _
                  |s1 wr s2 E1 E2 _|rd s1 wr s2 r s3 E1 E2 _ E3].
    - eapply cv_pump_read; eassumption.
    - eapply cv_pump_write; [eassumption|]. eapply cv_pump_read; eassumption.
    - eapply cv_pump_write; [eassumption|]. eapply cv_pump_read; eassumption.
    - eapply cv_pump_write; [eassumption|]. eapply cv_pump_read; eassumption.
    - eapply cv_pump_write; [eassumption|]. eapply cv_pump_read; eassumption.
    - eapply IH; [eassumption|]. eapply cv_pump_write; [eassumption|]. eapply cv_pump_read; eassumption.
  Qed.

  Lemma cv_fold_slot_send {B} (g : B -> N) o (l : list B) s :
    (forall v, o = OReply v -> False) -> cv s -> cv (fold_left (fun acc p => slot_send acc (g p) o) l s).
  Proof.
    intro Ho. revert s; induction l as [|x r IH]; intros s H; cbn; [exact H|].
    apply IH, cv_slot_send; [intros v Ev; destruct (Ho v Ev)|exact H].
  Qed.
  Lemma cv_drain_loop f a : forall s, cv s -> cv (snd (drain_loop f a s)).
  Proof.
    induction f as [|f IH]; intros s H; cbn [drain_loop]; [exact H|].
    pose proof (cv_q_poll_recv s H) as H1. destruct (q_poll_recv s) as [x s1]. cbn [snd] in H1.
    destruct x; cbn [snd]; try exact H1. apply IH, cv_slot_send; [intros v [=]|exact H1].
  Qed.
  Lemma cv_shut_down s a : cv s -> cv (snd (shut_down s a)).
  Proof.
    intro H. unfold shut_down. apply cv_drain_loop. unfold complete_all.
    apply cv_fold_slot_send; [intros v [=]|]. eapply cv_eq; [..|apply cv_q_close, H]; reflexivity.
  Qed.
  Lemma cv_poll_dispatch f s r s' : poll_dispatch ctp f s = (r, s') -> cv s -> cv s'.
  Proof.
    unfold poll_dispatch. intros E H. destruct (terminal s) as [a|].
    - pose proof (cv_shut_down s a H) as K. destruct (shut_down s a) as [b s1].
      destruct b; injection E as <- <-; exact K.
    - destruct (run_loop ctp f s) as [rr s1] eqn:Er. pose proof (cv_run_loop _ _ _ _ Er H) as H1.
      destruct rr; try (injection E as <- <-; exact H1).
      assert (H2 : cv (upd_term s1 (Some a))) by (eapply cv_eq; [..|exact H1]; reflexivity).
      pose proof (cv_shut_down _ a H2) as K. destruct (shut_down _ a) as [b s3].
      destruct b; injection E as <- <-; exact K.
  Qed.

  Lemma cv_drop_dispatch s : cv s -> cv (drop_dispatch s).
  Proof.
    intro H. unfold drop_dispatch.
    assert (FT : forall {B} (g : B -> N) (l : list B) x, cv x ->
                 cv (fold_left (fun acc p => slot_tx_drop acc (g p)) l x)).
    { intros B g l. induction l as [|y r IH]; intros x Hx; cbn; [exact Hx|]. apply IH, cv_slot_tx_drop, Hx. }
    eapply cv_eq; [..|apply FT, FT, cv_q_close, H]; reflexivity.
  Qed.

  Variable fuel_of : cst -> nat.

  (* every op of the client model; what a call resolves with was in its slot *)
  Lemma cv_step s o s' os :
    step ctp fuel_of s o = (s', os) -> (forall g, o <> Tr g) -> cv s ->
    cv s' /\ forall v, In (OCall (CDone (OReply v))) os ->
              exists i c, o = PollCall i /\ nth_error (calls s) i = Some c /\ P (call_id s c) v.
  Proof.
    intros E HT H. destruct o; cbn [step] in E.
    - injection E as <- <-. split; [|intros v []]. destruct (nth_error _ _) as [[|]|]; exact H.
    - injection E as <- <-. split; [|intros v []]. destruct (nth_error _ _) as [[|]|]; exact H.
    - injection E as <- <-. split; [|intros v []]. eapply cv_eq; [..|exact H]; reflexivity.
    - destruct (poll_call s i) as [r s1] eqn:EP. destruct (cv_poll_call _ _ _ _ EP H) as [K1 K2].
      injection E as <- <-. split; [exact K1|]. intros v Hin.
      destruct (K2 v) as (c & Ec & Pc).
      { destruct r; cbn in Hin; try contradiction; destruct Hin as [Hin|[]]; congruence. }
      exists i, c. split; [reflexivity|]. split; assumption.
    - injection E as <- <-. split; [|intros v []]. destruct (option_map _ _) as [[]|];
        try apply cv_guard_cancel, cv_guard_close, H. exact H.
    - injection E as <- <-. split; [|intros v []]. destruct (option_map _ _) as [[]|]; try apply cv_guard_close, H. exact H.
    - injection E as <- <-. split; [|intros v []]. apply cv_guard_cancel, H.
    - destruct (finished s); [injection E as <- <-; split; [exact H|intros v []]|].
      destruct (dropped s); [injection E as <- <-; split; [exact H|intros v []]|].
      set (s0 := upd_tr s (tr s) (fused s) []) in *.
      assert (H0 : cv s0) by (eapply cv_eq; [..|exact H]; reflexivity).
      destruct (poll_dispatch ctp (fuel_of s0) s0) as [r s1] eqn:Ep.
      pose proof (cv_poll_dispatch _ _ _ _ Ep H0) as H1.
      injection E as <- <-. split.
      + eapply cv_eq; [..|exact H1]; destruct r; reflexivity.
      + intros v Hin. cbn in Hin. destruct Hin as [Hin|[Hin|[Hin|[]]]]; discriminate.
    - injection E as <- <-. split; [|intros v []]. destruct (dropped s); [exact H|apply cv_drop_dispatch, H].
    - injection E as <- <-. split; [|intros v []]. eapply cv_eq; [..|exact H]; reflexivity.
    - exfalso. eapply HT. reflexivity.
  Qed.
End CVal.

Lemma cv_mono (P P' : N -> N -> Prop) (s : cst) : (forall id v, P id v -> P' id v) -> cv P s -> cv P' s.
Proof.
  intros M [A B]. split.
  - intros id x H v E. apply M. eapply A; eassumption.
  - intros r v H E. apply M. eapply B; eassumption.
Qed.
