(* Timer wheel proofs, part 5: Server.v's use of the wheel.  While the server's clock stays at or
   below LIMIT = 2^36 - 1 - MAX_TIMEOUT ms, the order oracle never disagrees: the primitives that
   touch the DelayQueue keep the invariant SI (timers and queue contents correspond, the queue
   invariant holds, s_bad = false). *)
From Coq Require Import List Bool Arith NArith Lia Permutation.
Import ListNotations.
From TarpcV Require Import Base Transport TimerWheel Server ServerFuel.
From TarpcV Require Import TimerWheelProofs0 TimerWheelProofs1 TimerWheelProofs2 TimerWheelProofs3 TimerWheelProofs4.
Local Open Scope N_scope.

Definition LIMIT : N := 37183476735.      (* 2^36 - 1 - MAX_TIMEOUT *)
Lemma LIMIT_eq : LIMIT + MAX_TIMEOUT + 1 = RNG. Proof. reflexivity. Qed.

Definition trip := (N * N * N)%type.       (* id, when (s_timers), when in the queue *)
Definition t_id (t : trip) : N := fst (fst t).
Definition t_tim (t : trip) : N * N := (fst (fst t), snd (fst t)).
Definition t_ent (t : trip) : wentry := {| we_id := fst (fst t); we_when := snd t |}.
Definition t_ok (now : N) (t : trip) : Prop := snd (fst t) <= snd t /\ snd t <= N.max (snd (fst t)) now.

Definition cor (now : N) (tim : list (N * N)) (cont : list wentry) : Prop :=
  exists l : list trip, map t_tim l = tim /\ Permutation (map t_ent l) cont /\ forall t, In t l -> t_ok now t.

Section Srv.
  Context {T : Type}.
  Notation st := (@sstate T).

  Record SI (s : st) : Prop := {
    si_di : DI (s_dq s);
    si_el : w_elapsed (dq_wheel (s_dq s)) <= s_now s;
    si_wn : dq_wheel_now (s_dq s) <= s_now s;
    si_cor : cor (s_now s) (s_timers s) (contents (s_dq s));
    si_nodup : NoDup (map fst (s_timers s));
    si_trk : forall p, In p (s_timers s) -> tracked (fst p) s = true;
    si_bad : s_bad s = false }.

  Definition fl (id : N) (l : list trip) : list trip := filter (fun t => negb (N.eqb (t_id t) id)) l.
  Lemma fl_tim id l : map t_tim (fl id l) = drop_timer id (map t_tim l).
  Proof. unfold fl, drop_timer. induction l as [|t r IH]; cbn [filter map]; [reflexivity|].
         change (fst (t_tim t)) with (t_id t). destruct (negb (t_id t =? id)); cbn [map]; rewrite IH; reflexivity. Qed.
  Lemma fl_ent id l : map t_ent (fl id l) = filter (keep id) (map t_ent l).
  Proof. unfold fl. induction l as [|t r IH]; cbn [filter map]; [reflexivity|].
         unfold keep at 1. change (we_id (t_ent t)) with (t_id t). destruct (negb (t_id t =? id)); cbn [map]; rewrite IH; reflexivity. Qed.
  Lemma Permutation_filter' {X} (p : X -> bool) a b : Permutation a b -> Permutation (filter p a) (filter p b).
  Proof.
    induction 1; cbn [filter]; [constructor| | |eapply perm_trans; eassumption].
    - destruct (p x); [constructor|]; assumption.
    - destruct (p x), (p y); try reflexivity. constructor.
  Qed.
  Lemma cor_ids now tim cont : cor now tim cont -> Permutation (map fst tim) (map we_id cont).
  Proof.
    intros (l & <- & P & _). rewrite map_map. apply (Permutation_map we_id) in P. rewrite map_map in P. exact P.
  Qed.
  Lemma cor_mono now now' tim cont : now <= now' -> cor now tim cont -> cor now' tim cont.
  Proof. intros L (l & A & B & C). exists l. split; [exact A|]. split; [exact B|]. intros t H. destruct (C t H). split; lia. Qed.

  Lemma cor_remove now tim q id :
    DI q -> NoDup (map fst tim) -> cor now tim (contents q) -> cor now (drop_timer id tim) (contents (dq_remove id q)).
  Proof.
    intros D ND C. pose proof (cor_ids _ _ _ C) as PI. destruct C as (l & A & B & OK).
    destruct (dq_remove_spec id q D) as (_ & R & _).
    rewrite R by (eapply Permutation_NoDup; eassumption).
    exists (fl id l). split; [rewrite fl_tim, A; reflexivity|]. split; [rewrite fl_ent; apply Permutation_filter', B|].
    intros t H. apply filter_In in H. apply OK, H.
  Qed.

  Lemma existsb_drop_entry id id' l :
    id' <> id -> existsb (fun e => N.eqb (e_id e) id') l = true ->
    existsb (fun e => N.eqb (e_id e) id') (drop_entry id l) = true.
  Proof.
    intros NE H. apply existsb_exists in H. destruct H as (e & I & E). apply existsb_exists. exists e. split; [|exact E].
    apply filter_In. split; [exact I|]. apply N.eqb_eq in E. apply negb_true_iff, N.eqb_neq. congruence.
  Qed.
  Lemma drop_timer_in id p l : In p (drop_timer id l) -> In p l /\ fst p <> id.
  Proof. unfold drop_timer. intro H. apply filter_In in H. destruct H as [A B]. split; [exact A|]. apply negb_true_iff, N.eqb_neq in B. exact B. Qed.
  Lemma NoDup_drop_timer id l : NoDup (map fst l) -> NoDup (map fst (drop_timer id l)).
  Proof. apply NoDup_map_filter. Qed.

  (* forgetting a request (response sent, Cancel read, server-side cancel) *)
  Lemma SI_forget id (s s' : st) :
    SI s ->
    s_dq s' = dq_remove id (s_dq s) -> s_timers s' = drop_timer id (s_timers s) ->
    s_inflight s' = drop_entry id (s_inflight s) -> s_now s' = s_now s -> s_bad s' = s_bad s -> SI s'.
  Proof.
    intros [D EL WN C ND TR B] E1 E2 E3 E4 E5.
    destruct (dq_remove_spec id (s_dq s) D) as (D' & _ & _ & RE & RW).
    constructor.
    - rewrite E1. exact D'.
    - rewrite E1, E4, RE. exact EL.
    - rewrite E1, E4, RW. exact WN.
    - rewrite E1, E2, E4. apply cor_remove; assumption.
    - rewrite E2. apply NoDup_drop_timer, ND.
    - intros p H. rewrite E2 in H. apply drop_timer_in in H. destruct H as [H NE]. unfold tracked. rewrite E3.
      apply existsb_drop_entry; [exact NE|]. apply (TR p H).
    - rewrite E5. exact B.
  Qed.

  Lemma SI_remove_request id (s : st) : SI s -> SI (snd (remove_request id s)).
  Proof.
    intro I. unfold remove_request. destruct (find_entry id s); cbn [snd]; [|exact I].
    eapply (SI_forget id s); [exact I|..]; sproj; reflexivity.
  Qed.
  Lemma SI_cancel_request id (s : st) : SI s -> SI (cancel_request id s).
  Proof.
    intro I. unfold cancel_request. destruct (find_entry id s); [|exact I].
    eapply (SI_forget id s); [exact I|..]; sproj; reflexivity.
  Qed.

  (* a new request arms its timer *)
  Lemma SI_start_request id dl (s : st) h s' :
    SI s -> s_now s <= LIMIT -> start_request id dl s = Some (h, s') -> SI s'.
  Proof.
    intros [D EL WN C ND TR B] LM H. unfold start_request in H. destruct (tracked id s) eqn:ET; [discriminate|].
    injection H as _ <-.
    set (when := s_now s + N.min (dl - s_now s) MAX_TIMEOUT).
    assert (WR : when < RNG) by (unfold when; pose proof LIMIT_eq; unfold MAX_TIMEOUT, LIMIT, RNG in *; lia).
    assert (MX : N.max when (w_elapsed (dq_wheel (s_dq s))) = when) by (unfold when; lia).
    destruct (dq_insert_spec id when (s_dq s) D) as (D' & P & IE & IW); [rewrite MX; exact WR|].
    rewrite MX in P.
    constructor; sproj; fold when.
    - exact D'.
    - rewrite IE. exact EL.
    - rewrite IW. exact WN.
    - destruct C as (l & A & Bp & OK). exists (l ++ [(id, when, when)]). split; [|split].
      + rewrite map_app, A. reflexivity.
      + rewrite map_app. cbn [map t_ent fst snd]. eapply perm_trans; [|symmetry; exact P].
        eapply perm_trans; [apply Permutation_app_comm|]. cbn [app]. constructor. exact Bp.
      + intros t Ht. apply in_app_or in Ht. destruct Ht as [Ht|[<-|[]]]; [apply OK, Ht|]. unfold t_ok. cbn. lia.
    - rewrite map_app. cbn [map fst]. apply NoDup_snoc; [exact ND|]. intro Hin.
      apply in_map_iff in Hin. destruct Hin as (p & Ep & Ip). specialize (TR p Ip). rewrite Ep in TR. congruence.
    - intros p Hp. apply in_app_or in Hp. unfold tracked. sproj. rewrite existsb_app. apply orb_true_iff.
      destruct Hp as [Hp|[<-|[]]]; [left; apply (TR p Hp)|right]. cbn. rewrite N.eqb_refl. reflexivity.
    - exact B.
  Qed.

  (* the order oracle agrees: poll_expired keeps SI, in particular s_bad = false *)
  Lemma cor_in_tim now tim cont e :
    cor now tim cont -> In e cont -> exists w, In (we_id e, w) tim /\ w <= we_when e /\ we_when e <= N.max w now.
  Proof.
    intros (l & A & P & OK) H. apply (Permutation_in _ (Permutation_sym P)) in H.
    apply in_map_iff in H. destruct H as (t & <- & It). exists (snd (fst t)). split.
    - rewrite <- A. apply in_map_iff. exists t. split; [reflexivity|exact It].
    - apply (OK t It).
  Qed.
  Lemma cor_in_cont now tim cont p :
    cor now tim cont -> In p tim -> exists e, In e cont /\ we_id e = fst p /\ snd p <= we_when e /\ we_when e <= N.max (snd p) now.
  Proof.
    intros (l & A & P & OK) H. rewrite <- A in H. apply in_map_iff in H. destruct H as (t & <- & It).
    exists (t_ent t). split; [apply (Permutation_in _ P), in_map, It|]. split; [reflexivity|apply (OK t It)].
  Qed.

  Lemma cor_pop now tim cont cont' e :
    NoDup (map fst tim) -> cor now tim cont -> Permutation cont (e :: cont') ->
    cor now (drop_timer (we_id e) tim) cont'.
  Proof.
    intros ND C P. pose proof (cor_ids _ _ _ C) as PI. destruct C as (l & A & B & OK).
    assert (NDc : NoDup (map we_id (e :: cont'))).
    { eapply Permutation_NoDup; [|exact ND]. eapply perm_trans; [exact PI|]. apply Permutation_map, P. }
    exists (fl (we_id e) l). split; [rewrite fl_tim, A; reflexivity|]. split.
    - rewrite fl_ent. eapply perm_trans; [apply Permutation_filter'; eapply perm_trans; [exact B|exact P]|].
      cbn [filter]. unfold keep at 1. rewrite N.eqb_refl. cbn [negb].
      cbn [map] in NDc. inversion NDc as [|? ? NI _]; subst.
      assert (F : forall c, (forall x, In x c -> we_id x <> we_id e) -> filter (keep (we_id e)) c = c).
      { induction c as [|x r IH]; intro Hc; cbn [filter]; [reflexivity|]. unfold keep at 1.
        destruct (N.eqb_spec (we_id x) (we_id e)) as [Z|Z]; [exfalso; apply (Hc x (or_introl eq_refl) Z)|].
        cbn [negb]. f_equal. apply IH. intros y Y. apply Hc. right; exact Y. }
      rewrite F; [reflexivity|]. intros x Hx Z. apply NI. rewrite <- Z. apply in_map, Hx.
    - intros t H. apply filter_In in H. apply OK, H.
  Qed.

  Lemma SI_poll_expired (s : st) r s' : SI s -> poll_expired s = (r, s') -> SI s'.
  Proof.
    intros [D EL WN C ND TR B] H. unfold poll_expired in H.
    destruct (s_timers s) as [|p0 tr0] eqn:ET; [injection H as _ <-; constructor; rewrite ?ET; assumption|].
    rewrite <- ET in *.
    destruct (dq_poll (s_now s) (s_dq s)) as [choice dq'] eqn:EP.
    destruct (dq_poll_spec _ _ D EL WN _ _ EP) as (D' & P2 & P3 & P4 & P5).
    assert (NEc : contents (s_dq s) <> []).
    { destruct (cor_in_cont _ _ _ p0 C) as (e & Ie & _); [rewrite ET; left; reflexivity|]. intro Z. rewrite Z in Ie. destruct Ie. }
    destruct (due s) as [|[id0 w0] rest] eqn:ED.
    - (* nothing due: the queue must say Pending *)
      assert (CP : choice = DQPending).
      { destruct choice as [i| |]; [| |reflexivity]; exfalso.
        - destruct P5 as (e & <- & Pm & DUE & _).
          destruct (cor_in_tim _ _ _ e C) as (w & Iw & W1 & _); [apply (Permutation_in _ (Permutation_sym Pm)); left; reflexivity|].
          assert (In (we_id e, w) (due s)) by (unfold due; apply filter_In; split; [exact Iw|apply N.leb_le; cbn; lia]).
          rewrite ED in H0. destruct H0.
        - destruct P5 as [Z _]. contradiction. }
      subst choice. injection H as _ <-. destruct P5 as (Pm & _).
      constructor; sproj; try assumption.
      destruct C as (l & A1 & A2 & A3). exists l. split; [exact A1|]. split; [eapply perm_trans; eassumption|exact A3].
    - (* something is due: the queue hands out a due timer *)
      assert (Id0 : In (id0, w0) (due s)) by (rewrite ED; left; reflexivity).
      unfold due in Id0. apply filter_In in Id0. destruct Id0 as [It0 Dw0]. apply N.leb_le in Dw0. cbn [snd] in Dw0.
      destruct (cor_in_cont _ _ _ _ C It0) as (e0 & Ie0 & _ & _ & U0). cbn [snd] in U0.
      destruct choice as [i| |].
      + destruct P5 as (e & <- & Pm & DUE & _).
        destruct (cor_in_tim _ _ _ e C) as (w & Iw & W1 & _); [apply (Permutation_in _ (Permutation_sym Pm)); left; reflexivity|].
        assert (AG : existsb (fun p => N.eqb (fst p) (we_id e)) ((id0, w0) :: rest) = true).
        { rewrite <- ED. apply existsb_exists. exists (we_id e, w). split; [|cbn; apply N.eqb_refl].
          unfold due. apply filter_In. split; [exact Iw|apply N.leb_le; cbn; lia]. }
        rewrite AG in H. cbv zeta beta iota in H.
        match type of H with (_, ?X) = _ => set (s3 := X) in H end. injection H as _ <-.
        assert (SI (set_timers (set_dq s dq') (drop_timer (we_id e) (s_timers (set_dq s dq'))))) as I2.
        { constructor; sproj; try assumption.
          - eapply cor_pop; eassumption.
          - apply NoDup_drop_timer, ND.
          - intros p Hp. apply drop_timer_in in Hp. destruct Hp as [Hp _]. apply (TR p Hp). }
        (* the tracked entry goes too *)
        unfold s3. set (s2 := set_timers (set_dq s dq') _) in *.
        destruct (find_entry (we_id e) s2) as [en|]; [|exact I2].
        destruct I2 as [D2 EL2 WN2 C2 ND2 TR2 B2]. constructor; sproj; try assumption.
        intros p Hp. unfold s2 in Hp. revert Hp. sproj. intro Hp. apply drop_timer_in in Hp. destruct Hp as [Hp NE].
        unfold tracked. sproj. apply existsb_drop_entry; [exact NE|]. apply (TR p Hp).
      + exfalso. destruct P5 as [Z _]. contradiction.
      + exfalso. destruct P5 as (Pm & AL). apply (Permutation_in _ Pm) in Ie0. specialize (AL e0 Ie0). lia.
  Qed.
End Srv.
