(* Chain proofs, cascade: the invariants of one node (definitions only, with their trivial
   consequences).  A node = client c, link l, server s, at clock T.

   `cross` ties the three together, request id by request id:
   - a request still in the link is in flight at the client, or its cancellation is behind it in
     the link, or its deadline has passed;
   - a request tracked by the server is in flight at the client, or its cancellation is in the
     link, or its server-side timer is due;
   - timers: the server's timer of a request is never later than the client's (or now);
   - ids: every id that has reached the link or the server was handed out by the client and is
     neither queued nor waiting for a queue slot there; the ids in the link and the ids of the
     handler incarnations are pairwise distinct. *)
From Coq Require Import List Bool Arith NArith Lia.
Import ListNotations.
From TarpcV Require Import Base Transport TimerWheel Chain.
From TarpcV Require Client Server ClientProofsG1Rec.

Notation cstate := (Client.cstate (T := link)).
Notation sstate := (Server.sstate (T := link)).

Definition MAXT : N := 31536000000%N.

Definition req_ids (l : list Server.cmsg) : list N :=
  flat_map (fun m => match m with Server.MReq id _ _ _ => [id] | Server.MCancel _ _ => [] end) l.
Definition has_cancel (id : N) (l : list Server.cmsg) : Prop := exists tr, In (Server.MCancel id tr) l.

(* every request of the list satisfies P (id, deadline, what follows it) *)
Fixpoint reqs_ok (P : N -> N -> list Server.cmsg -> Prop) (l : list Server.cmsg) : Prop :=
  match l with
  | [] => True
  | Server.MReq id dl _ _ :: r => P id dl r /\ reqs_ok P r
  | Server.MCancel _ _ :: r => reqs_ok P r
  end.

Definition ifl (c : cstate) : list N := map fst (Client.inflight c).
Definition hids (s : sstate) : list N := map Server.h_id (Server.s_handlers s).
Definition tids (s : sstate) : list N := map Server.e_id (Server.s_inflight s).

(* an id the client has handed out and is no longer holding back *)
Record sent_id (c : cstate) (id : N) : Prop := {
  si_lt : (id < Client.next_id c)%N;
  si_queue : forall q, In q (Client.queue c) -> Client.q_id q <> id;
  si_staged : forall k, In k (Client.calls c) -> ClientProofsG1Rec.gS (Client.c_phase k) = true ->
                        Client.c_id k <> id }.

(* `pend`: ids of requests the server has registered but not yet handed to the application
   (non-empty only inside a poll of the request stream) *)
Record cross (T : N) (pend : list N) (c : cstate) (l : link) (s : sstate) : Prop := {
  x_cgone : l_cgone l = false;
  x_sgone : l_sgone l = false;
  x_req : reqs_ok (fun id dl rest => In id (ifl c) \/ has_cancel id rest \/ (dl <= T)%N) (l_c2s l);
  x_trk : forall e, In e (Server.s_inflight s) ->
            In (Server.e_id e) (ifl c) \/ has_cancel (Server.e_id e) (l_c2s l)
            \/ exists w, In (Server.e_id e, w) (Server.s_timers s) /\ (w <= T)%N;
  x_t0 : forall id dl tr b w, In (Server.MReq id dl tr b) (l_c2s l) ->
            In (id, w) (Client.timers c) -> (dl <= w)%N;
  x_t1 : forall id ws w, In (id, ws) (Server.s_timers s) -> In (id, w) (Client.timers c) ->
            (ws <= N.max w T)%N;
  x_clamp : forall id dl tr b, In (Server.MReq id dl tr b) (l_c2s l) -> (dl <= T + MAXT)%N;
  x_nodup : NoDup (req_ids (l_c2s l) ++ hids s ++ pend);
  x_sent : forall id, In id (req_ids (l_c2s l) ++ hids s ++ pend) -> sent_id c id;
  x_keys : map fst (Server.s_timers s) = tids s;
  x_trk_h : forall id, In id (tids s) -> In id (hids s ++ pend);
  x_s2c_h : forall r, In r (l_s2c l) -> In (Client.r_id r) (hids s);
  x_s2c_u : forall r, In r (l_s2c l) -> ~ In (Client.r_id r) (tids s) }.

(* the server by itself *)
Definition live_st (st : Server.hstate) : bool :=
  match st with Server.HDone | Server.HGone => false | _ => true end.

Record srv_inv (s : sstate) : Prop := {
  sv_cancels : Server.s_cancels s = [];
  sv_dropped : Server.s_dropped s = false;
  sv_fused : Server.s_fused s = false;
  sv_trk_nodup : NoDup (tids s);
  sv_respq : forall r, In r (Server.s_respq s) ->
               exists hr, In hr (Server.s_handlers s) /\ Server.h_id hr = Server.resp_id r
                          /\ Server.h_st hr = Server.HDone;
  sv_live : forall hr, In hr (Server.s_handlers s) -> live_st (Server.h_st hr) = true ->
              In (Server.h_h hr) (Server.s_aborted s)
              \/ exists e, In e (Server.s_inflight s) /\ Server.e_id e = Server.h_id hr
                           /\ Server.e_h e = Server.h_h hr;
  sv_eh : forall e hr, In e (Server.s_inflight s) -> In hr (Server.s_handlers s) ->
            Server.h_id hr = Server.e_id e -> Server.h_h hr = Server.e_h e }.

(* the client by itself *)
Definition over_phase (p : Client.phase) : bool :=
  match p with Client.PDone | Client.PGone => true | _ => false end.

(* calls that have been polled at least once or dropped: each of them used up at most one id *)
Definition is_new (p : Client.phase) : bool := match p with Client.PNew => true | _ => false end.
Definition npolled (c : cstate) : nat :=
  length (filter (fun k => negb (is_new (Client.c_phase k))) (Client.calls c)).

Record cli_inv (T : N) (c : cstate) : Prop := {
  cv_live : ClientProofsG1Rec.Live c;
  cv_terminal : Client.terminal c = None;
  cv_finished : Client.finished c = None;
  cv_fused : Client.fused c = false;
  cv_noclosing : forall k, In k (Client.calls c) -> Client.c_phase k <> Client.PClosing;
  cv_now : Client.now c = T;
  (* deadlines within the span both sides arm their timers for without clamping *)
  cv_clamp_c : forall k, In k (Client.calls c) -> (Client.c_deadline k <= T + MAXT)%N;
  cv_clamp_q : forall q, In q (Client.queue c) -> (Client.q_deadline q <= T + MAXT)%N;
  cv_maxif : Client.max_if c = maxif0;
  cv_nid : (Client.next_id c <= N.of_nat (npolled c))%N }.
