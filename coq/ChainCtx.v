(* Chain proofs: C18 / C07 multi-hop.  Invariant: every request context (deadline, trace
   number, body) held anywhere in the chain - call table, request queue, link, yielded-request
   table of any node - is the context of a head call.  By induction over op lists. *)
From Coq Require Import List Bool Arith NArith Lia.
Import ListNotations.
From TarpcV Require Import Base Transport TimerWheel Chain ChainSpec ChainBase.
From TarpcV Require Client Server ChainCli ChainSrv.

Definition hikey (h : hinfo) : N * N * N := (hi_dl h, hi_tr h, hi_body h).

Record nok (Hs : list (N * N * N)) (T : N) (nd : node) : Prop := {
  nk_calls : incl (map ChainCli.ckey (Client.calls (n_cli nd))) Hs;
  nk_queue : incl (map ChainCli.qkey (Client.queue (n_cli nd))) Hs;
  nk_link : ChainCli.link_ok Hs (n_link nd);
  nk_hs : incl (map hikey (n_hs nd)) Hs;
  nk_now : Client.now (n_cli nd) = T }.

Lemma nok_incl Hs Hs' T nd : incl Hs Hs' -> nok Hs T nd -> nok Hs' T nd.
Proof.
  intros I [A B C D E]. constructor; try (eapply incl_tran; eassumption); try assumption.
Qed.

(* ---- one client step on a node ---- *)
Lemma nok_cstep Hs T nd o nd' l :
  cstep nd o = (nd', l) -> nok Hs T nd ->
  (forall h d tid smp body, o = Client.Call h d tid smp body ->
     In (T + d, 2 * tid + (if smp then 1 else 0), body)%N Hs) ->
  (forall g, o <> Client.Tr g) ->
  nok Hs (match o with Client.Advance dt => (T + dt)%N | _ => T end) nd'.
Proof.
  unfold cstep. intros E [A B C D F] HC HT.
  set (c0 := Client.upd_tr (n_cli nd) (n_link nd) (Client.fused (n_cli nd)) (Client.plog (n_cli nd))) in *.
  destruct (Client.step ctp cfuel c0 o) as [c1 l1] eqn:ES. injection E as <- <-.
  assert (K0 : ChainCli.cok Hs c0) by (constructor; assumption).
  assert (K1 : ChainCli.cok Hs c1).
  { eapply ChainCli.cok_step; [exact ES| |exact HT|exact K0].
    intros h d tid smp body ->. specialize (HC h d tid smp body eq_refl).
    replace (Client.now c0) with T by (symmetry; exact F). exact HC. }
  destruct K1 as [A1 B1 C1]. constructor; cbn [n_cli n_link n_hs]; try assumption.
  rewrite (ChainCli.now_step _ _ _ _ _ ES). cbn [Client.now Client.upd_tr c0].
  destruct o; rewrite ?F; reflexivity.
Qed.

(* ---- one server step on a node ---- *)
Lemma sstep_link_other nd o nd' l :
  sstep nd o = (nd', l) -> (match o with Server.OPoll | Server.OCtl _ => False | _ => True end) ->
  n_link nd' = n_link nd /\ n_cli nd' = n_cli nd /\ n_hs nd' = n_hs nd /\ n_over nd' = n_over nd.
Proof.
  unfold sstep. intros E H.
  pose proof (ChainSrv.st_step_other (fun t (_ : unit) => t) (fun t => length (l_c2s t)) scfg
                (Server.set_t (n_srv nd) (n_link nd)) o H) as K.
  destruct (Server.step _ _ _ _ _ o) as [s1 l1]. injection E as <- <-. cbn in *. auto.
Qed.

Lemma nok_sstep_other Hs T nd o nd' l :
  sstep nd o = (nd', l) -> (match o with Server.OPoll | Server.OCtl _ => False | _ => True end) ->
  nok Hs T nd -> nok Hs T nd'.
Proof.
  intros E H [A B C D F]. destruct (sstep_link_other _ _ _ _ E H) as (E1 & E2 & E3 & _).
  constructor; rewrite ?E1, ?E2, ?E3; assumption.
Qed.

Lemma nok_sstep_poll Hs T nd nd' l :
  sstep nd Server.OPoll = (nd', l) -> nok Hs T nd ->
  nok Hs T nd' /\ n_hs nd' = n_hs nd /\
  forall k id dl tr b, In (Server.OYield k id dl tr b) l -> In (dl, tr, b) Hs.
Proof.
  unfold sstep. intros E [A B C D F].
  destruct (Server.step _ _ _ _ _ _) as [s1 l1] eqn:ES. injection E as <- <-.
  destruct (ChainSrv.sok_step_poll Hs _ _ _ _ _ ES) as [K1 K2]; [exact C|].
  split; [|split; [reflexivity|exact K2]].
  constructor; cbn [n_cli n_link n_hs]; assumption.
Qed.

(* ------------------------------------------------------------------------------------------ *)
(* the component polls *)
Definition cok_chain Hs T (ch : chain) : Prop := Forall (nok Hs T) ch.

Lemma tr_cobs_no_yield i o : forall i' k id dl tr b, ~ In (KYield i' k id dl tr b) (tr_cobs i o).
Proof. intros i' k id dl tr b H. destruct o; cbn in H; try (destruct H as [H|[]]; discriminate); contradiction. Qed.

Lemma yields_ok_tr_cobs Hs i l : yields_ok Hs (flat_map (tr_cobs i) l).
Proof.
  intros i' k id dl tr b H. apply in_flat_map in H. destruct H as (o & _ & H).
  exfalso. eapply tr_cobs_no_yield, H.
Qed.

Lemma yields_ok_tr_sobs Hs i l :
  (forall k id dl tr b, In (Server.OYield k id dl tr b) l -> In (dl, tr, b) Hs) ->
  yields_ok Hs (flat_map (tr_sobs i) l).
Proof.
  intros Y i' k id dl tr b H. apply in_flat_map in H. destruct H as (o & Ho & H).
  destruct o; cbn in H; try contradiction; try (destruct H as [H|[]]; discriminate).
  destruct H as [H|[]]. injection H as _ _ _ <- <- <-. eapply Y, Ho.
Qed.

Lemma ctx_poll_head Hs T j ch ch' l :
  poll_head j ch = (ch', l) -> cok_chain Hs T ch -> cok_chain Hs T ch' /\ yields_ok Hs l.
Proof.
  unfold poll_head. destruct (nth_error ch 0) as [nd|] eqn:E0; [|intros [= <- <-] K; split; [exact K|apply yields_ok_nil]].
  destruct (cstep nd (Client.PollCall j)) as [nd1 l1] eqn:ES. intros [= <- <-] K. split.
  - apply Forall_set_node; [exact K|].
    apply (nok_cstep Hs T _ _ _ _ ES (Forall_nth _ _ _ _ K E0)); [discriminate|discriminate].
  - intros i k id dl tr b H. apply in_flat_map in H. destruct H as (o & _ & H).
    destruct o; cbn in H; try contradiction. destruct H as [H|[]]; discriminate.
Qed.

Lemma ctx_poll_dispatch Hs T i ch ch' l :
  Chain.poll_dispatch i ch = (ch', l) -> cok_chain Hs T ch -> cok_chain Hs T ch' /\ yields_ok Hs l.
Proof.
  unfold Chain.poll_dispatch. destruct (nth_error ch i) as [nd|] eqn:E0; [|intros [= <- <-] K; split; [exact K|apply yields_ok_nil]].
  destruct (cstep nd Client.PollDispatch) as [nd1 l1] eqn:ES. intros [= <- <-] K. split.
  - apply Forall_set_node; [exact K|].
    apply (nok_cstep Hs T _ _ _ _ ES (Forall_nth _ _ _ _ K E0)); [discriminate|discriminate].
  - apply yields_ok_tr_cobs.
Qed.

Lemma ctx_poll_requests Hs T i ch ch' l :
  poll_requests i ch = (ch', l) -> cok_chain Hs T ch -> cok_chain Hs T ch' /\ yields_ok Hs l.
Proof.
  unfold poll_requests. destruct (nth_error ch i) as [nd|] eqn:E0; [|intros [= <- <-] K; split; [exact K|apply yields_ok_nil]].
  destruct (n_over nd || _); [intros [= <- <-] K; split; [exact K|apply yields_ok_nil]|].
  destruct (sstep nd Server.OPoll) as [nd1 l1] eqn:ES. intros [= <- <-] K.
  destruct (nok_sstep_poll Hs T _ _ _ ES (Forall_nth _ _ _ _ K E0)) as ([A B C D F] & EH & Y).
  split; [|apply yields_ok_tr_sobs, Y].
  apply Forall_set_node; [exact K|]. constructor; cbn [n_cli n_link n_hs]; try assumption.
  rewrite map_app. apply incl_app; [exact D|].
  intros x Hx. apply in_map_iff in Hx. destruct Hx as (h & <- & Hh).
  apply in_flat_map in Hh. destruct Hh as (o & Ho & Hh).
  destruct o; cbn in Hh; try contradiction. destruct Hh as [<-|[]]. cbn. eapply Y, Ho.
Qed.

Lemma trnum_mk tr :
  Chain.trnum {| Client.tc_tid := N.div2 tr; Client.tc_sid := 0; Client.tc_sampled := N.odd tr |} = tr.
Proof.
  unfold Chain.trnum. cbn. rewrite (N.div2_odd tr) at 3. unfold N.b2n. destruct (N.odd tr); reflexivity.
Qed.

Lemma nok_mk_call Hs T nd dl tr body :
  nok Hs T nd -> In (dl, tr, body) Hs ->
  nok Hs T (mknode (mk_call (n_cli nd) dl tr body) (n_link nd) (n_srv nd) (n_hs nd) (n_over nd)).
Proof.
  intros [A B C D F] H. constructor; cbn [n_cli n_link n_hs]; try assumption.
  unfold mk_call. cbn [Client.calls Client.upd_calls]. rewrite map_app. apply incl_app; [exact A|].
  intros x [<-|[]]. unfold ChainCli.ckey. cbn [Client.c_deadline Client.c_tc Client.c_body].
  rewrite trnum_mk. exact H.
Qed.

Lemma nok_set_hs Hs T nd hs :
  nok Hs T nd -> incl (map hikey hs) Hs ->
  nok Hs T (mknode (n_cli nd) (n_link nd) (n_srv nd) hs (n_over nd)).
Proof. intros [A B C D F] H. constructor; cbn; assumption. Qed.

Lemma hikeys_set_hcall k j l : map hikey (set_hcall k j l) = map hikey l.
Proof.
  unfold set_hcall. destruct (nth_error l k) as [h|] eqn:E; [|reflexivity].
  revert k E; induction l as [|x r IH]; intros [|k] E; cbn in *; try discriminate.
  - injection E as ->. reflexivity.
  - f_equal. apply IH, E.
Qed.

Lemma ctx_inner_poll Hs T k nd nx nd1 nx1 st :
  inner_poll k nd nx = (nd1, nx1, st) -> nok Hs T nd -> nok Hs T nx -> nok Hs T nd1 /\ nok Hs T nx1.
Proof.
  unfold inner_poll. destruct (nth_error (n_hs nd) k) as [h|] eqn:EH; [|intros [= <- <- <-]; auto].
  intros E Kd Kx.
  assert (Hh : In (hikey h) Hs).
  { apply (nk_hs _ _ _ Kd), in_map, (nth_error_In _ _ EH). }
  destruct (hi_call h) as [j|].
  - destruct (cstep nx (Client.PollCall j)) as [nx2 l] eqn:ES. injection E as <- <- _.
    split; [exact Kd|]. apply (nok_cstep Hs T _ _ _ _ ES Kx); discriminate.
  - match type of E with context [cstep ?n _] => set (nxc := n) in * end.
    destruct (cstep nxc _) as [nx2 l] eqn:ES. injection E as <- <- _. split.
    + apply nok_set_hs; [exact Kd|]. rewrite hikeys_set_hcall. apply Kd.
    + assert (Kc : nok Hs T nxc) by (apply nok_mk_call; assumption).
      apply (nok_cstep Hs T _ _ _ _ ES Kc); discriminate.
Qed.

Lemma ctx_poll_handler Hs T i k st ch ch' l :
  poll_handler i k st ch = (ch', l) -> cok_chain Hs T ch -> cok_chain Hs T ch' /\ yields_ok Hs l.
Proof.
  assert (YS : forall i0 nd o nd' l0, sstep nd o = (nd', l0) ->
               (match o with Server.OPoll | Server.OCtl _ => False | _ => True end) ->
               forall pre, yields_ok Hs pre -> yields_ok Hs (pre ++ flat_map (tr_sobs i0) l0)).
  { intros i0 nd o nd' l0 E H pre Yp. apply yields_ok_app; [exact Yp|].
    apply yields_ok_tr_sobs. intros k0 id dl tr b Hin. exfalso.
    unfold sstep in E.
    pose proof (ChainSrv.hobs_step_other (fun t (_ : unit) => t) (fun t => length (l_c2s t)) scfg
                  (Server.set_t (n_srv nd) (n_link nd)) o H) as HB.
    destruct (Server.step _ _ _ _ _ o) as [s1 l1]. injection E as _ <-. cbn [snd] in HB.
    rewrite forallb_forall in HB. specialize (HB _ Hin). discriminate. }
  unfold poll_handler. destruct (nth_error ch i) as [nd|] eqn:E0; [|intros [= <- <-] K; split; [exact K|apply yields_ok_nil]].
  destruct (nth_error (Server.s_handlers (n_srv nd)) k) as [hr|]; [|intros [= <- <-] K; split; [exact K|apply yields_ok_nil]].
  intros E K. pose proof (Forall_nth _ _ _ _ K E0) as Kd.
  assert (first_ok : forall (x : list cobs), x = [KHStart i k] \/ x = [] -> yields_ok Hs x).
  { intros x [-> | ->]; intros i' k' id dl tr b H; [destruct H as [H|[]]; discriminate|destruct H]. }
  destruct (Server.h_st hr) eqn:EST.
  - (* HYielded *)
    destruct (is_aborted _ _).
    + destruct (sstep nd _) as [nd1 l1] eqn:ES. pinj E. split.
      * set (ch1 := set_node i nd1 ch).
        assert (K1 : cok_chain Hs T ch1) by (apply Forall_set_node; [exact K|eapply nok_sstep_other; [exact ES|exact I|exact Kd]]).
        destruct (option_map hi_call _) as [[j|]|]; try exact K1.
        destruct (nth_error ch1 (S i)) as [nx|] eqn:EX; [|exact K1].
        apply Forall_set_node; [exact K1|].
        destruct (cstep nx (Client.DropCall j)) as [nx1 lx] eqn:EC. cbn [fst].
        apply (nok_cstep Hs T _ _ _ _ EC (Forall_nth _ _ _ _ K1 EX)); discriminate.
      * apply (YS i _ _ _ _ ES I []). apply yields_ok_nil.
    + destruct (nth_error ch (S i)) as [nx|] eqn:EX.
      * destruct (inner_poll k nd nx) as [[nd1 nx1] st1] eqn:EI.
        destruct (sstep nd1 _) as [nd2 l1] eqn:ES. pinj E.
        destruct (ctx_inner_poll Hs T _ _ _ _ _ _ EI Kd (Forall_nth _ _ _ _ K EX)) as [K1 K2]. split.
        -- apply Forall_set_node; [apply Forall_set_node; [exact K|]|exact K2].
           eapply nok_sstep_other; [exact ES|exact I|exact K1].
        -- apply (YS i _ _ _ _ ES I). apply first_ok. left. reflexivity.
      * destruct (sstep nd _) as [nd1 l1] eqn:ES. pinj E. split.
        -- apply Forall_set_node; [exact K|eapply nok_sstep_other; [exact ES|exact I|exact Kd]].
        -- apply (YS i _ _ _ _ ES I). apply first_ok. left. reflexivity.
  - (* HRunning *)
    destruct (is_aborted _ _).
    + destruct (sstep nd _) as [nd1 l1] eqn:ES. pinj E. split.
      * set (ch1 := set_node i nd1 ch).
        assert (K1 : cok_chain Hs T ch1) by (apply Forall_set_node; [exact K|eapply nok_sstep_other; [exact ES|exact I|exact Kd]]).
        destruct (option_map hi_call _) as [[j|]|]; try exact K1.
        destruct (nth_error ch1 (S i)) as [nx|] eqn:EX; [|exact K1].
        apply Forall_set_node; [exact K1|].
        destruct (cstep nx (Client.DropCall j)) as [nx1 lx] eqn:EC. cbn [fst].
        apply (nok_cstep Hs T _ _ _ _ EC (Forall_nth _ _ _ _ K1 EX)); discriminate.
      * apply (YS i _ _ _ _ ES I []). apply yields_ok_nil.
    + destruct (nth_error ch (S i)) as [nx|] eqn:EX.
      * destruct (inner_poll k nd nx) as [[nd1 nx1] st1] eqn:EI.
        destruct (sstep nd1 _) as [nd2 l1] eqn:ES. pinj E.
        destruct (ctx_inner_poll Hs T _ _ _ _ _ _ EI Kd (Forall_nth _ _ _ _ K EX)) as [K1 K2]. split.
        -- apply Forall_set_node; [apply Forall_set_node; [exact K|]|exact K2].
           eapply nok_sstep_other; [exact ES|exact I|exact K1].
        -- apply (YS i _ _ _ _ ES I). apply first_ok. right. reflexivity.
      * destruct (sstep nd _) as [nd1 l1] eqn:ES. pinj E. split.
        -- apply Forall_set_node; [exact K|eapply nok_sstep_other; [exact ES|exact I|exact Kd]].
        -- apply (YS i _ _ _ _ ES I). apply first_ok. right. reflexivity.
  - destruct (sstep nd _) as [nd1 l1] eqn:ES. pinj E. split.
    + apply Forall_set_node; [exact K|eapply nok_sstep_other; [exact ES|exact I|exact Kd]].
    + apply (YS i _ _ _ _ ES I []). apply yields_ok_nil.
  - destruct (sstep nd _) as [nd1 l1] eqn:ES. pinj E. split.
    + apply Forall_set_node; [exact K|eapply nok_sstep_other; [exact ES|exact I|exact Kd]].
    + apply (YS i _ _ _ _ ES I []). apply yields_ok_nil.
  - pinj E. split; [exact K|apply yields_ok_nil].
  - pinj E. split; [exact K|apply yields_ok_nil].
Qed.

(* ------------------------------------------------------------------------------------------ *)
(* SettleAll *)
Lemma ctx_poll_heads Hs T n : forall j ch acc ch' l,
  poll_heads j n ch acc = (ch', l) -> cok_chain Hs T ch -> yields_ok Hs acc ->
  cok_chain Hs T ch' /\ yields_ok Hs l.
Proof.
  induction n as [|n IH]; intros j ch acc ch' l E K Y; cbn [poll_heads] in E; [pinj E; auto|].
  match type of E with (if ?b then _ else _) = _ => destruct b end.
  - destruct (poll_head j ch) as [ch1 l1] eqn:EP.
    destruct (ctx_poll_head Hs T _ _ _ _ EP K) as [K1 Y1].
    eapply IH; [exact E|exact K1|apply yields_ok_app; assumption].
  - eapply IH; eassumption.
Qed.

Lemma ctx_poll_handlers Hs T i n : forall k ch acc ch' l,
  poll_handlers i k n ch acc = (ch', l) -> cok_chain Hs T ch -> yields_ok Hs acc ->
  cok_chain Hs T ch' /\ yields_ok Hs l.
Proof.
  induction n as [|n IH]; intros k ch acc ch' l E K Y; cbn [poll_handlers] in E; [pinj E; auto|].
  destruct (poll_handler i k Server.SRun ch) as [ch1 l1] eqn:EP.
  destruct (ctx_poll_handler Hs T _ _ _ _ _ _ EP K) as [K1 Y1].
  eapply IH; [exact E|exact K1|apply yields_ok_app; assumption].
Qed.

Lemma ctx_settle_node Hs T i ch ch' l :
  settle_node i ch = (ch', l) -> cok_chain Hs T ch -> cok_chain Hs T ch' /\ yields_ok Hs l.
Proof.
  unfold settle_node. destruct (Chain.poll_dispatch i ch) as [ch1 l1] eqn:E1.
  destruct (poll_requests i ch1) as [ch2 l2] eqn:E2.
  destruct (poll_handlers i 0 _ ch2 []) as [ch3 l3] eqn:E3. intros E K. pinj E.
  destruct (ctx_poll_dispatch Hs T _ _ _ _ E1 K) as [K1 Y1].
  destruct (ctx_poll_requests Hs T _ _ _ _ E2 K1) as [K2 Y2].
  destruct (ctx_poll_handlers Hs T _ _ _ _ _ _ _ E3 K2 (yields_ok_nil Hs)) as [K3 Y3].
  split; [exact K3|]. repeat apply yields_ok_app; assumption.
Qed.

Lemma ctx_settle_nodes Hs T n : forall i ch acc ch' l,
  settle_nodes i n ch acc = (ch', l) -> cok_chain Hs T ch -> yields_ok Hs acc ->
  cok_chain Hs T ch' /\ yields_ok Hs l.
Proof.
  induction n as [|n IH]; intros i ch acc ch' l E K Y; cbn [settle_nodes] in E; [pinj E; auto|].
  destruct (settle_node i ch) as [ch1 l1] eqn:EP.
  destruct (ctx_settle_node Hs T _ _ _ _ EP K) as [K1 Y1].
  eapply IH; [exact E|exact K1|apply yields_ok_app; assumption].
Qed.

Lemma ctx_round Hs T ch ch' l :
  round ch = (ch', l) -> cok_chain Hs T ch -> cok_chain Hs T ch' /\ yields_ok Hs l.
Proof.
  unfold round. destruct (poll_heads 0 _ ch []) as [ch1 l1] eqn:E1.
  destruct (settle_nodes 0 _ ch1 []) as [ch2 l2] eqn:E2. intros E K. pinj E.
  destruct (ctx_poll_heads Hs T _ _ _ _ _ _ E1 K (yields_ok_nil Hs)) as [K1 Y1].
  destruct (ctx_settle_nodes Hs T _ _ _ _ _ _ E2 K1 (yields_ok_nil Hs)) as [K2 Y2].
  split; [exact K2|]. apply yields_ok_filter, yields_ok_app; assumption.
Qed.

Lemma ctx_settle Hs T n : forall ch acc ch' l q,
  settle n ch acc = (ch', l, q) -> cok_chain Hs T ch -> yields_ok Hs acc ->
  cok_chain Hs T ch' /\ yields_ok Hs l.
Proof.
  induction n as [|n IH]; intros ch acc ch' l q E K Y; cbn [settle] in E.
  - pinj E. match goal with H : (_, _) = (_, _) |- _ => pinj H end. auto.
  - destruct (round ch) as [ch1 ev] eqn:ER. destruct (ctx_round Hs T _ _ _ ER K) as [K1 Y1].
    match type of E with (if ?b then _ else _) = _ => destruct b end.
    + pinj E. match goal with H : (_, _) = (_, _) |- _ => pinj H end. auto.
    + eapply IH; [exact E|exact K1|apply yields_ok_app; assumption].
Qed.

Lemma yields_ok_gauges Hs ch : forall i, yields_ok Hs (all_gauges i ch).
Proof.
  induction ch as [|nd r IH]; intros i i' k id dl tr b H; cbn in H; [contradiction|].
  destruct H as [H|H]; [discriminate|]. apply in_app_or in H. destruct H as [H|H]; [|eapply IH, H].
  unfold sgauge in H. destruct (Server.s_dropped _); [contradiction|].
  destruct H as [H|H]; [discriminate|]. destruct (Server.s_bad _); [destruct H as [H|[]]; discriminate|contradiction].
Qed.

Lemma ctx_settle_all Hs T ch ch' l :
  settle_all ch = (ch', l) -> cok_chain Hs T ch -> cok_chain Hs T ch' /\ yields_ok Hs l.
Proof.
  unfold settle_all. destruct (settle _ ch []) as [[ch1 ev] q] eqn:ES. intros E K. pinj E.
  destruct (ctx_settle Hs T _ _ _ _ _ _ ES K (yields_ok_nil Hs)) as [K1 Y1].
  split; [exact K1|]. apply yields_ok_app; [exact Y1|]. apply yields_ok_app; [|apply yields_ok_gauges].
  destruct q; intros i k id dl tr b H; [contradiction|destruct H as [H|[]]; discriminate].
Qed.

(* ------------------------------------------------------------------------------------------ *)
(* every op *)
Definition hs_after (Hs : list (N * N * N)) (T : N) (o : cop) : list (N * N * N) :=
  match o with
  | HCall d tid smp body => Hs ++ [(T + d, 2 * tid + (if smp then 1 else 0), body)%N]
  | _ => Hs
  end.
Definition now_after (T : N) (o : cop) : N :=
  match o with Advance dt => (T + dt)%N | _ => T end.

Lemma nok_advance Hs T dt nd : nok Hs T nd -> nok Hs (T + dt)%N (advance_node dt nd).
Proof.
  intro K. unfold advance_node.
  destruct (cstep nd (Client.Advance dt)) as [nd1 l1] eqn:E1.
  destruct (sstep nd1 (Server.OAdvance dt)) as [nd2 l2] eqn:E2.
  pose proof (nok_cstep Hs T _ _ _ _ E1 K) as K1. cbn in K1.
  eapply nok_sstep_other; [exact E2|exact I|]. apply K1; discriminate.
Qed.

Lemma ctx_step Hs T ch o ch' l :
  step ch o = (ch', l) -> cok_chain Hs T ch ->
  cok_chain (hs_after Hs T o) (now_after T o) ch' /\ yields_ok (hs_after Hs T o) l.
Proof.
  destruct o; cbn [step hs_after now_after]; intros E K.
  - (* HCall *)
    set (Hs' := Hs ++ _).
    assert (I1 : incl Hs Hs') by (apply incl_appl, incl_refl).
    assert (K' : cok_chain Hs' T ch).
    { unfold cok_chain in *. rewrite Forall_forall in *. intros nd Hn. eapply nok_incl; [exact I1|apply K, Hn]. }
    destruct (nth_error ch 0) as [nd|] eqn:E0; pinj E; [|split; [exact K'|apply yields_ok_nil]].
    split; [|apply yields_ok_nil]. apply Forall_set_node; [exact K'|].
    destruct (cstep nd _) as [nd1 l1] eqn:ES. cbn [fst].
    apply (nok_cstep Hs' T _ _ _ _ ES (Forall_nth _ _ _ _ K' E0)); [|discriminate].
    intros h d0 tid0 smp0 body0 [= _ <- <- <- <-]. apply in_or_app. right. left. reflexivity.
  - eapply ctx_poll_head; eassumption.
  - destruct (nth_error ch 0) as [nd|] eqn:E0; pinj E; [|split; [exact K|apply yields_ok_nil]].
    split; [|apply yields_ok_nil]. apply Forall_set_node; [exact K|].
    destruct (cstep nd _) as [nd1 l1] eqn:ES. cbn [fst].
    apply (nok_cstep Hs T _ _ _ _ ES (Forall_nth _ _ _ _ K E0)); discriminate.
  - eapply ctx_poll_dispatch; eassumption.
  - eapply ctx_poll_requests; eassumption.
  - eapply ctx_poll_handler; eassumption.
  - (* DropDispatch *)
    destruct (nth_error ch i) as [nd|] eqn:E0; [|pinj E; split; [exact K|apply yields_ok_nil]].
    destruct (Client.dropped _); [pinj E; split; [exact K|apply yields_ok_nil]|].
    destruct (cstep nd Client.DropDispatch) as [nd1 l1] eqn:ES. pinj E.
    split; [|apply yields_ok_nil]. apply Forall_set_node; [exact K|].
    pose proof (nok_cstep Hs T _ _ _ _ ES (Forall_nth _ _ _ _ K E0)) as K1. cbn in K1.
    destruct K1 as [A B C D F]; try discriminate. constructor; cbn; assumption.
  - (* DropServer *)
    destruct (nth_error ch i) as [nd|] eqn:E0; [|pinj E; split; [exact K|apply yields_ok_nil]].
    destruct (Server.s_dropped _); [pinj E; split; [exact K|apply yields_ok_nil]|].
    destruct (sstep nd Server.ODropChannel) as [nd1 l1] eqn:ES. pinj E.
    split; [|apply yields_ok_nil]. apply Forall_set_node; [exact K|].
    pose proof (nok_sstep_other Hs T _ _ _ _ ES I (Forall_nth _ _ _ _ K E0)) as K1.
    destruct K1 as [A B C D F]. constructor; cbn; assumption.
  - pinj E. split; [|apply yields_ok_nil]. unfold cok_chain in *. rewrite Forall_forall in *.
    intros nd Hn. apply in_map_iff in Hn. destruct Hn as (nd0 & <- & Hn0). apply nok_advance, K, Hn0.
  - eapply ctx_settle_all; eassumption.
Qed.

(* ------------------------------------------------------------------------------------------ *)
(* the monitor along a run *)
Record ctx_inv (m : mon) (ch : chain) : Prop := {
  ci_c18 : mo_c18 m = true;
  ci_c07 : mo_c07 m = true;
  ci_ok : cok_chain (map hkey (mo_calls m)) (mo_now m) ch }.

Lemma mon_op_hkeys m o : map hkey (mo_calls (mon_op m o)) = hs_after (map hkey (mo_calls m)) (mo_now m) o.
Proof.
  destruct o; cbn [mon_op hs_after mo_calls]; try reflexivity.
  - rewrite map_app. reflexivity.
  - apply hkeys_set_over.
Qed.
Lemma mon_op_now m o : mo_now (mon_op m o) = now_after (mo_now m) o.
Proof. destruct o; reflexivity. Qed.
Lemma mon_op_c18 m o : mo_c18 (mon_op m o) = mo_c18 m.
Proof. destruct o; reflexivity. Qed.
Lemma mon_op_c07 m o : mo_c07 (mon_op m o) = mo_c07 m.
Proof. destruct o; reflexivity. Qed.

Lemma ctx_mon_step m ch o ch' l :
  step ch o = (ch', l) -> ctx_inv m ch -> ctx_inv (mon_step m o l) ch'.
Proof.
  intros E [A B K]. destruct (ctx_step _ _ _ _ _ _ E K) as [K1 Y1].
  unfold mon_step. set (m0 := mon_op m o).
  assert (E1 : map hkey (mo_calls m0) = hs_after (map hkey (mo_calls m)) (mo_now m) o) by apply mon_op_hkeys.
  assert (E2 : mo_now m0 = now_after (mo_now m) o) by apply mon_op_now.
  destruct (fold_mon_obs_c18_c07 l m0) as [A1 B1].
  { rewrite E1. exact Y1. }
  { unfold m0. rewrite mon_op_c18. exact A. }
  { unfold m0. rewrite mon_op_c07. exact B. }
  set (m1 := fold_left mon_obs l m0) in *.
  assert (K2 : cok_chain (map hkey (mo_calls m1)) (mo_now m1) ch').
  { unfold m1. rewrite fold_mon_obs_hkeys, fold_mon_obs_now, E1, E2. exact K1. }
  destruct o; constructor; assumption.
Qed.

Lemma ctx_run : forall ops m ch,
  ctx_inv m ch ->
  exists m', mon_run m ops (fst (run_from ch ops)) = Some m' /\ mo_c18 m' = true /\ mo_c07 m' = true.
Proof.
  induction ops as [|o r IH]; intros m ch K; cbn [run_from].
  - exists m. cbn. split; [reflexivity|]. split; apply K.
  - destruct (step ch o) as [ch1 l] eqn:ES. destruct (run_from ch1 r) as [ls ch2] eqn:ER.
    cbn [fst mon_run]. specialize (IH _ _ (ctx_mon_step _ _ _ _ _ ES K)). rewrite ER in IH. exact IH.
Qed.

Lemma ctx_init d : ctx_inv mon0 (init d).
Proof.
  constructor; try reflexivity. unfold cok_chain, init. apply Forall_forall. intros nd Hn.
  apply repeat_spec in Hn. subst nd. constructor; cbn; try (intros x []); reflexivity.
Qed.

Theorem chain_trace : stmt_chain_trace.
Proof.
  intros d ops. unfold c18c_ok, run. destruct (ctx_run ops mon0 (init d) (ctx_init d)) as (m' & -> & A & _).
  exact A.
Qed.

Theorem chain_deadline : stmt_chain_deadline.
Proof.
  intros d ops. unfold c07c_ok, run. destruct (ctx_run ops mon0 (init d) (ctx_init d)) as (m' & -> & _ & B).
  exact B.
Qed.
