(* PINNED STATEMENTS for the wake-driven server model (C02, server half).  No proofs here.
   Both are PROVED (ServerWakeSettles.v, ServerWakeMon.v; restated in Properties/C02.v); they are also evaluated by vm_compute on generated scripts
   (Checks/SrvWakeSpecTest.v: verdict 0 on every case = neither statement is false there) and the
   monitor runs on the real code's wake-driven traces on every run (Checks/C02server.v).

   Proof plan as it was handed to the provers (carried out in ServerWakeSettles.v and
   ServerWakeMon0-4.v).  settle (ServerWake.v) iterates `one round = poll_requests, then execute_poll of
   every live handler` until the digest (queue lengths, handler phases, transport digest) and the
   event list stop changing.
   - termination: a measure that strictly decreases in every non-quiet round, e.g. lexicographic
     (inbox length; number of live handlers not yet HDone; |s_respq| + |s_waiters| + |s_cancels| +
     |due timers|; st_buffered); ServerFuel.poll_requests_no_fuel gives the inner bound for each
     poll.  rounds_of was chosen generously (16 + 6 * sum of the queue lengths + inbox).
   - monitor: at a quiet round the state is a fixpoint of `poll_requests` and of every
     `execute_poll`, so ServerSim4.requests_ctrl (a poll that returns Pending either ran
     BaseChannel to Complete - no server cancel queued, no timer due - or was blocked on the sink)
     and ServerState.aborted_stops / ServerSim3.pump_write_inv give the clauses: (a) Complete +
     abort flags => a live handler polled in the quiet round would have ended; (b),(d) a quiet
     pump_write with the sink writable leaves s_respq = [] and every waiter has its permit; (c) a
     quiet base_poll_next returned Pending from CNext RPending, i.e. the inbox is empty; (e) from
     ServerSim.InvU (u_owner, u_timers) as for C11. *)
From Coq Require Import List Bool Arith NArith.
Import ListNotations.
From TarpcV Require Import Base Transport TimerWheel Server ServerMon ServerWake.

(* scripts of the wake-driven driver never poll explicitly *)
Definition wake_op (o : swop) : bool :=
  match o with
  | WOp OPoll | WOp (OHandlerPoll _ _) | WOp (ODropYielded _) => false
  | _ => true
  end.

Definition no_wfuel (tr : list wobs) : bool :=
  forallb (fun x => match x with WFuel => false | _ => true end) tr.

(* every settle of every run over the scripted transport terminates within rounds_of *)
Definition stmt_w_settle_terminates : Prop :=
  forall (c : cfg) (t0 : stransport cmsg) (ops : list swop),
    no_wfuel (swrun c t0 ops) = true.

(* the monitor accepts every wake-driven run of the model (from the initial transport state, with
   a response buffer of at least 1); the hypothesis reuse_only_after_completion is inside the
   monitor (it stops demanding anything once the peer re-uses an id too early), K2 is exempt inside
   clauses (a), (c), (e) *)
Definition stmt_w_monitor : Prop :=
  forall (c : cfg) (cap : nat) (coupled : bool) (ops : list swop),
    1 <= cfg_buf c -> forallb wake_op ops = true ->
    c02s_ok c (st_init cmsg cap coupled) ops (swrun c (st_init cmsg cap coupled) ops) = true.
