(* ShippedProofs.v -- C15/C16: the monitors of Shipped.v accept every run of the model
   (the strict one, wire_strict_ok, unless the stream is cut exactly after a length header;
   the relaxed one, c15_ok, always).

   Route (framed codecs):
     1. [run_collect]: before the first Close the machine appends one entry (payload, tree) to
        [written] per frame it puts on the stream, and the monitor's [collect] gathers exactly one
        (expectation, frame length) pair per entry: [ent]; the expectation of an entry is what the
        reader makes of it ([expo], a function of the payload bytes alone): for Send by the
        round-trip theorems of WireProofs (bincode) and JsonTextProofs (Json text), for SendRaw
        by unfolding.
     2. [close_obs_gen]: what the reader yields at Close ([close_obs]) is the whole frames followed
        by [close_tail]: no cut -> framing_any_chunking_holds; a cut inside the last frame ->
        framing_truncated_holds.  [close_obs_eq]: for cut <> 4 (not exactly after the length
        header) that is what the strict monitor wants ([want_of]); [close_obs_relaxed]: for every
        cut it is something the relaxed monitor accepts.
     3. after Close the machine is silent ([run_closed]).
   Channels: [chan_view] of a run is a run of the channel model; fifo_holds. *)
From Coq Require Import String Ascii.
From Coq Require Import List NArith ZArith Bool Arith Lia.
Import ListNotations.
From TarpcV Require Import Base Schema Wire WireProofs JsonText JsonTextProofs Framing FramingProofs Shipped.

(* ------------------------------------------------------------------------------------------ *)
(* what a script may contain *)
Definition wmsg_wf (m : wmsg) : Prop :=
  match m with MC x => cm_wf x /\ explicit x | MR r => resp_wf r end.
Definition same_dir (c2s : bool) (o : op) : Prop :=
  match o with
  | Send (MC _) => c2s = true
  | Send (MR _) => c2s = false
  | _ => True
  end.
Definition op_wf (c2s : bool) (o : op) : Prop :=
  same_dir c2s o /\ match o with Send m => wmsg_wf m | _ => True end.

(* ------------------------------------------------------------------------------------------ *)
(* reflexivity of the executable equalities *)

Lemma list_eqb_refl {A} (eqb : A -> A -> bool) : (forall a, eqb a a = true) ->
  forall l, list_eqb eqb l l = true.
Proof.
  intros H. induction l as [|x l IH]; [reflexivity|].
  cbn [list_eqb]. rewrite H, IH. reflexivity.
Qed.

Lemma bytes_eqb_refl b : bytes_eqb b b = true.
Proof. unfold bytes_eqb. apply list_eqb_refl. apply N.eqb_refl. Qed.

Lemma prim_eqb_refl p : prim_eqb p p = true.
Proof. destruct p; reflexivity. Qed.

Lemma kind_eqb_refl k : kind_eqb k k = true.
Proof. destruct k; try reflexivity. cbn [kind_eqb]. apply N.eqb_refl. Qed.

Lemma trace_eqb_refl t : trace_eqb t t = true.
Proof. unfold trace_eqb. rewrite !N.eqb_refl, Bool.eqb_reflx. reflexivity. Qed.

Lemma deadline_eqb_refl d : deadline_eqb d d = true.
Proof. destruct d; [|reflexivity]. cbn [deadline_eqb]. rewrite !N.eqb_refl. reflexivity. Qed.

Lemma cm_eqb_refl m : cm_eqb m m = true.
Proof.
  destruct m as [r|t id]; cbn [cm_eqb].
  - rewrite deadline_eqb_refl, trace_eqb_refl, N.eqb_refl, bytes_eqb_refl. reflexivity.
  - rewrite trace_eqb_refl, N.eqb_refl. reflexivity.
Qed.

Lemma resp_eqb_refl r : resp_eqb r r = true.
Proof.
  unfold resp_eqb. rewrite N.eqb_refl. destruct (resp_msg r) as [b|e].
  - rewrite bytes_eqb_refl. reflexivity.
  - rewrite kind_eqb_refl, bytes_eqb_refl. reflexivity.
Qed.

Lemma wmsg_eqb_refl m : wmsg_eqb m m = true.
Proof. destruct m; cbn [wmsg_eqb]; [apply cm_eqb_refl|apply resp_eqb_refl]. Qed.

Lemma event_eqb_refl e : event_eqb e e = true.
Proof.
  destruct e; cbn [event_eqb];
    rewrite ?prim_eqb_refl, ?Z.eqb_refl, ?bytes_eqb_refl, ?Nat.eqb_refl, ?String.eqb_refl;
    reflexivity.
Qed.

Lemma obs_eqb_refl o : obs_eqb o o = true.
Proof.
  destruct o; cbn [obs_eqb]; try reflexivity.
  - apply list_eqb_refl. apply event_eqb_refl.
  - apply bytes_eqb_refl.
  - apply wmsg_eqb_refl.
Qed.

(* ------------------------------------------------------------------------------------------ *)
(* the run, one op at a time *)

Lemma run_from_cons c c2s s o r :
  fst (run_from c c2s s (o :: r)) =
  snd (step c c2s s o) :: fst (run_from c c2s (fst (step c c2s s o)) r).
Proof.
  cbn [run_from]. destruct (step c c2s s o) as [s1 l]. cbn [fst snd].
  destruct (run_from c c2s s1 r) as [ls s2]. reflexivity.
Qed.

Lemma max_frame_small : (max_frame_default < 4294967296)%N.
Proof. reflexivity. Qed.

(* ------------------------------------------------------------------------------------------ *)
(* in-memory channels *)

Lemma to_ch_obs_inv (l : list (ch_obs wmsg)) :
  omap_list to_ch_obs (map ch_obs_to_obs l) = Some l.
Proof.
  induction l as [|x l IH]; [reflexivity|].
  cbn [map omap_list]. rewrite IH. destruct x; reflexivity.
Qed.

Lemma chan_view_run c c2s : is_framed (codec c) = false ->
  forall ops s, exists co,
    chan_view (codec c) ops (fst (run_from c c2s s ops)) =
    Some (co, ch_run_from (chan_cap (codec c)) (chan s) co).
Proof.
  intros Hf. induction ops as [|o ops IH]; intros s.
  - exists []. reflexivity.
  - rewrite run_from_cons. unfold step. rewrite Hf.
    destruct o as [m|p t| | |].
    + destruct (ch_step (chan_cap (codec c)) (chan s) (ChSend m)) as [q l] eqn:E.
      cbn [fst snd].
      destruct (IH {| written := written s; closed := closed s; chan := q |}) as [co Hco].
      exists (ChSend m :: co). cbn [chan_view to_ch_op]. rewrite Hco, to_ch_obs_inv.
      cbn [ch_run_from chan] in *. rewrite E. reflexivity.
    + cbn [fst snd]. destruct (IH s) as [co Hco]. exists co.
      cbn [chan_view to_ch_op]. rewrite Hco. reflexivity.
    + destruct (ch_step (chan_cap (codec c)) (chan s) ChRecv) as [q l] eqn:E.
      cbn [fst snd].
      destruct (IH {| written := written s; closed := closed s; chan := q |}) as [co Hco].
      exists (ChRecv :: co). cbn [chan_view to_ch_op]. rewrite Hco, to_ch_obs_inv.
      cbn [ch_run_from chan] in *. rewrite E. reflexivity.
    + destruct (ch_step (chan_cap (codec c)) (chan s) ChDropTx) as [q l] eqn:E.
      cbn [fst snd].
      destruct (IH {| written := written s; closed := closed s; chan := q |}) as [co Hco].
      exists (ChDropTx :: co). cbn [chan_view to_ch_op]. rewrite Hco, to_ch_obs_inv.
      cbn [ch_run_from chan] in *. rewrite E. reflexivity.
    + (* CloseSink: a drop on the bounded channel, nothing on the unbounded one *)
      destruct (codec c) as [| |cap|] eqn:Ec; try discriminate Hf.
      * destruct (ch_step (chan_cap (TBounded cap)) (chan s) ChDropTx) as [q l] eqn:E.
        cbn [fst snd].
        destruct (IH {| written := written s; closed := closed s; chan := q |}) as [co Hco].
        exists (ChDropTx :: co). cbn [chan_view to_ch_op]. rewrite Hco, to_ch_obs_inv.
        cbn [ch_run_from chan] in *. rewrite E. reflexivity.
      * cbn [fst snd]. destruct (IH s) as [co Hco]. exists co.
        cbn [chan_view to_ch_op]. rewrite Hco. reflexivity.
Qed.

Theorem strict_monitor_channels : forall c ops,
  is_framed (codec c) = false -> wire_strict_ok c ops (fst (run c ops)) = true.
Proof.
  intros c ops Hf. unfold wire_strict_ok, run. rewrite Hf.
  destruct (chan_view_run c (is_c2s ops) Hf ops init) as [co Hco]. rewrite Hco.
  exact (fifo_holds wmsg wmsg_eqb wmsg_eqb_refl (chan_cap (codec c)) co).
Qed.

(* ------------------------------------------------------------------------------------------ *)
(* framed codecs: the vocabulary *)

(* an entry of [written] whose frame the encoder accepted *)
Definition fits (w : bytes * option jv) : Prop := (blen (fst w) <= max_frame_default)%N.
(* what the reader makes of the entry, when its frame arrives whole *)
Definition expo (C : tcodec) (c2s : bool) (w : bytes * option jv) : obs :=
  decode_payload C c2s (fst w) (Some w).
(* the monitor's view of the entry *)
Definition ent (C : tcodec) (c2s : bool) (w : bytes * option jv) : obs * nat :=
  (expo C c2s w, length (frame (fst w))).
(* what the reader yields at Close *)
Definition close_obs (c : cfg) (c2s : bool) (W : list (bytes * option jv)) : list obs :=
  decode_outs (codec c) c2s
    (read_stream max_frame_default (split_chunks (chunks c) (cut_stream (cut c) (map fst W)))) W.

(* the monitor's computation after [collect], named *)
Definition total (es : list (obs * nat)) : nat := fold_right (fun p a => snd p + a)%nat O es.
Definition lastlen (es : list (obs * nat)) : nat :=
  match rev es with (_, n) :: _ => n | [] => O end.
Definition kept_of (c : cfg) (es : list (obs * nat)) : nat :=
  if Nat.eqb (cut c) 0 then total es
  else if Nat.ltb (cut c) (lastlen es) then (total es - lastlen es + cut c)%nat else total es.
Definition want_of (c : cfg) (es : list (obs * nat)) : list obs :=
  let '(items, boundary) := whole_frames es (kept_of c es) in
  items ++ (if boundary then [OEnd] else [OStreamErr; OEnd]).
Definition all_nil (rt : list (list obs)) : bool :=
  forallb (fun l => match l with [] => true | _ => false end) rt.

Lemma framed_strict_ok_eq c ops tr :
  framed_strict_ok c ops tr =
  match collect (codec c) (is_c2s ops) ops tr with
  | None => false
  | Some (_, None, _, _) => true
  | Some (es, Some got, _, rt) => list_eqb obs_eqb got (want_of c es) && all_nil rt
  end.
Proof.
  unfold framed_strict_ok, want_of, kept_of, total, lastlen, all_nil.
  destruct (collect (codec c) (is_c2s ops) ops tr) as [[[[es cl] ro] rt]|]; [|reflexivity].
  destruct cl as [got|]; [|reflexivity].
  match goal with |- context [whole_frames es ?k] => destruct (whole_frames es k) as [items b] end.
  reflexivity.
Qed.

(* ------------------------------------------------------------------------------------------ *)
(* frames and streams *)

Lemma frame_length p : length (frame p) = (4 + length p)%nat.
Proof. unfold frame, be32. rewrite app_length. reflexivity. Qed.

Lemma frame_encode_some p f : frame_encode max_frame_default p = Some f ->
  f = frame p /\ (blen p <= max_frame_default)%N.
Proof.
  unfold frame_encode. destruct (N.ltb_spec max_frame_default (blen p)) as [H|H]; [discriminate|].
  intros [= <-]. split; [reflexivity|exact H].
Qed.

Lemma concat_split_chunks : forall sizes bs, concat (split_chunks sizes bs) = bs.
Proof.
  induction sizes as [|n r IH]; intros bs; cbn [split_chunks concat].
  - apply app_nil_r.
  - rewrite IH. apply firstn_skipn.
Qed.

Lemma stream_of_snoc ps p : stream_of (ps ++ [p]) = stream_of ps ++ frame p.
Proof. unfold stream_of. rewrite flat_map_app. cbn [flat_map]. rewrite app_nil_r. reflexivity. Qed.

Lemma cut_stream_nil k : cut_stream k [] = [].
Proof. reflexivity. Qed.

Lemma cut_stream_snoc k ps p :
  cut_stream k (ps ++ [p]) =
  stream_of ps ++ (if Nat.eqb k 0 then frame p else firstn k (frame p)).
Proof.
  unfold cut_stream. rewrite rev_app_distr. cbn [rev app]. rewrite rev_involutive. reflexivity.
Qed.

Lemma fits_payloads W : Forall fits W ->
  Forall (fun p => (blen p <= max_frame_default)%N) (map fst W).
Proof. intros H. apply Forall_map. exact H. Qed.

(* ------------------------------------------------------------------------------------------ *)
(* the reader's items, positionally *)

Lemma decode_outs_frames C c2s : forall W rest W',
  decode_outs C c2s (map FFrame (map fst W) ++ rest) (W ++ W') =
  map (expo C c2s) W ++ decode_outs C c2s rest W'.
Proof.
  induction W as [|w W IH]; intros rest W'; [reflexivity|].
  cbn [map app decode_outs hd_error tl]. rewrite IH. reflexivity.
Qed.

(* ------------------------------------------------------------------------------------------ *)
(* the monitor's arithmetic *)

Lemma total_app a b : total (a ++ b) = (total a + total b)%nat.
Proof.
  unfold total. induction a as [|x a IH]; [reflexivity|].
  cbn [app fold_right]. rewrite IH. lia.
Qed.

Lemma lastlen_snoc es e n : lastlen (es ++ [(e, n)]) = n.
Proof. unfold lastlen. rewrite rev_app_distr. reflexivity. Qed.

Lemma whole_frames_prefix C c2s : forall F rest k,
  whole_frames (map (ent C c2s) F ++ rest) (total (map (ent C c2s) F) + k) =
  let '(l, b) := whole_frames rest k in (map (expo C c2s) F ++ l, b).
Proof.
  induction F as [|w F IH]; intros rest k.
  - cbn [map app total fold_right plus]. destruct (whole_frames rest k). reflexivity.
  - cbn [map app]. unfold ent at 1. cbn [whole_frames].
    change (total (ent C c2s w :: map (ent C c2s) F))
      with (length (frame (fst w)) + total (map (ent C c2s) F))%nat.
    replace (Nat.leb (length (frame (fst w)))
                     (length (frame (fst w)) + total (map (ent C c2s) F) + k)) with true
      by (symmetry; apply Nat.leb_le; lia).
    replace (length (frame (fst w)) + total (map (ent C c2s) F) + k - length (frame (fst w)))%nat
      with (total (map (ent C c2s) F) + k)%nat by lia.
    rewrite IH. destruct (whole_frames rest k). reflexivity.
Qed.

(* ------------------------------------------------------------------------------------------ *)
(* Close: the reader yields what the monitor wants *)

(* how the stream ends, given whether it ends on a frame boundary: inside a frame the reader
   reports an error, except exactly after the 4-byte length header (tokio-util's decode_eof) *)
Definition close_tail (c : cfg) (boundary : bool) : list obs :=
  if boundary then [OEnd] else if Nat.eqb (cut c) 4 then [OEnd] else [OStreamErr; OEnd].

Lemma close_obs_gen c c2s W : Forall fits W ->
  close_obs c c2s W =
  let '(items, b) := whole_frames (map (ent (codec c) c2s) W) (kept_of c (map (ent (codec c) c2s) W)) in
  items ++ close_tail c b.
Proof.
  intros HW. unfold close_obs.
  destruct W as [|w0 W0] using rev_ind.
  - (* nothing written *)
    try clear IHW0.
    cbn [map]. rewrite cut_stream_nil.
    rewrite (framing_any_chunking_holds max_frame_default [] _ max_frame_small (Forall_nil _)
               (concat_split_chunks _ _)).
    assert (Hk : kept_of c [] = 0%nat).
    { unfold kept_of. cbn [total lastlen fold_right rev].
      destruct (Nat.eqb (cut c) 0); [reflexivity|]. destruct (cut c); reflexivity. }
    rewrite Hk. reflexivity.
  - try clear IHW0. rename W0 into F. rename w0 into wl.
    apply Forall_app in HW. destruct HW as [HF Hl].
    apply Forall_cons_iff in Hl. destruct Hl as [Hl _]. unfold fits in Hl.
    set (E := ent (codec c) c2s).
    rewrite !map_app. cbn [map]. rewrite cut_stream_snoc.
    assert (Htot : total (map E F ++ [E wl]) = (total (map E F) + length (frame (fst wl)))%nat).
    { rewrite total_app. unfold E at 2, ent, total at 2. cbn [fold_right snd]. lia. }
    assert (Hlast : lastlen (map E F ++ [E wl]) = length (frame (fst wl))).
    { unfold E at 2, ent. apply lastlen_snoc. }
    pose proof (frame_length (fst wl)) as Hfl.
    destruct (Nat.eqb (cut c) 0) eqn:E0;
      [|destruct (Nat.ltb (cut c) (length (frame (fst wl)))) eqn:E1].
    + (* no cut *)
      rewrite <- stream_of_snoc.
      rewrite (framing_any_chunking_holds max_frame_default (map fst F ++ [fst wl]) _
                 max_frame_small).
      2:{ apply Forall_app. split; [apply fits_payloads; exact HF|]. constructor; [exact Hl|constructor]. }
      2:{ apply concat_split_chunks. }
      replace (map fst F ++ [fst wl]) with (map fst (F ++ [wl])) by (rewrite map_app; reflexivity).
      rewrite <- (app_nil_r (F ++ [wl])) at 2.
      rewrite decode_outs_frames. cbn [decode_outs].
      assert (Hk : kept_of c (map E F ++ [E wl]) = (total (map E (F ++ [wl])) + 0)%nat).
      { unfold kept_of. rewrite E0, map_app. cbn [map]. lia. }
      rewrite Hk. replace (map E F ++ [E wl]) with (map E (F ++ [wl]) ++ [])
        by (rewrite app_nil_r, map_app; reflexivity).
      unfold E. rewrite whole_frames_prefix. cbn [whole_frames Nat.eqb]. rewrite app_nil_r. reflexivity.
    + (* cut inside the last frame *)
      apply Nat.eqb_neq in E0. apply Nat.ltb_lt in E1.
      rewrite (framing_truncated_holds max_frame_default (map fst F) (fst wl)
                 (firstn (cut c) (frame (fst wl))) (skipn (cut c) (frame (fst wl))) _
                 max_frame_small (fits_payloads F HF) Hl).
      2:{ intros Hn. apply (f_equal (@length N)) in Hn. rewrite firstn_length in Hn.
          cbn [length] in Hn. lia. }
      2:{ intros Hn. apply (f_equal (@length N)) in Hn. rewrite skipn_length in Hn.
          cbn [length] in Hn. lia. }
      2:{ symmetry. apply firstn_skipn. }
      2:{ apply concat_split_chunks. }
      rewrite firstn_length_le by lia.
      rewrite decode_outs_frames.
      assert (Hk : kept_of c (map E F ++ [E wl]) = (total (map E F) + cut c)%nat).
      { unfold kept_of. rewrite Hlast, Htot.
        replace (Nat.eqb (cut c) 0) with false by (symmetry; apply Nat.eqb_neq; exact E0).
        replace (Nat.ltb (cut c) (length (frame (fst wl)))) with true
          by (symmetry; apply Nat.ltb_lt; exact E1).
        lia. }
      rewrite Hk. unfold E. rewrite whole_frames_prefix. fold E.
      unfold E at 1, ent. cbn [whole_frames].
      replace (Nat.leb (length (frame (fst wl))) (cut c)) with false
        by (symmetry; apply Nat.leb_gt; exact E1).
      replace (Nat.eqb (cut c) 0) with false by (symmetry; apply Nat.eqb_neq; exact E0).
      rewrite app_nil_r. unfold close_tail. destruct (Nat.eqb (cut c) 4); reflexivity.
    + (* the cut keeps the whole last frame *)
      apply Nat.ltb_ge in E1. rewrite firstn_all2 by exact E1.
      rewrite <- stream_of_snoc.
      rewrite (framing_any_chunking_holds max_frame_default (map fst F ++ [fst wl]) _
                 max_frame_small).
      2:{ apply Forall_app. split; [apply fits_payloads; exact HF|]. constructor; [exact Hl|constructor]. }
      2:{ apply concat_split_chunks. }
      replace (map fst F ++ [fst wl]) with (map fst (F ++ [wl])) by (rewrite map_app; reflexivity).
      rewrite <- (app_nil_r (F ++ [wl])) at 2.
      rewrite decode_outs_frames. cbn [decode_outs].
      assert (Hk : kept_of c (map E F ++ [E wl]) = (total (map E (F ++ [wl])) + 0)%nat).
      { unfold kept_of. rewrite Hlast, E0.
        replace (Nat.ltb (cut c) (length (frame (fst wl)))) with false
          by (symmetry; apply Nat.ltb_ge; exact E1).
        rewrite map_app. cbn [map]. lia. }
      rewrite Hk. replace (map E F ++ [E wl]) with (map E (F ++ [wl]) ++ [])
        by (rewrite app_nil_r, map_app; reflexivity).
      unfold E. rewrite whole_frames_prefix. cbn [whole_frames Nat.eqb]. rewrite app_nil_r. reflexivity.
Qed.

(* the strict monitor's form: the cut is not exactly after the length header *)
Lemma close_obs_eq c c2s W : cut c <> 4%nat -> Forall fits W ->
  close_obs c c2s W = want_of c (map (ent (codec c) c2s) W).
Proof.
  intros Hcut HW. rewrite (close_obs_gen c c2s W HW). unfold want_of, close_tail.
  destruct (whole_frames (map (ent (codec c) c2s) W) (kept_of c (map (ent (codec c) c2s) W)))
    as [items b].
  replace (Nat.eqb (cut c) 4) with false by (symmetry; apply Nat.eqb_neq; exact Hcut).
  destruct b; reflexivity.
Qed.

(* ------------------------------------------------------------------------------------------ *)
(* the expectation of a written entry is what the reader makes of it *)

Lemma send_expo C c2s m p : is_framed C = true -> same_dir c2s (Send m) -> wmsg_wf m ->
  payload_of C m = Some p ->
  expo C c2s (p, match C with TJson => tree_of m | _ => None end) = ORecv (arrives_as m).
Proof.
  intros Hf Hd Hwf Hp. unfold expo. cbn [fst].
  destruct C as [| |cap|]; try discriminate; destruct m as [x|r];
    cbn [same_dir] in Hd; subst c2s; cbn [wmsg_wf] in Hwf; unfold payload_of in Hp;
    unfold decode_payload, arrives_as, tree_of.
  - destruct Hwf as [Hwf He].
    destruct (bincode_roundtrip_cm x Hwf He) as (bs & Eb & Db).
    rewrite Eb in Hp. injection Hp as <-. rewrite Db. reflexivity.
  - destruct (bincode_roundtrip_resp r Hwf) as (bs & Eb & Db).
    rewrite Eb in Hp. injection Hp as <-. rewrite Db. reflexivity.
  - destruct Hwf as [Hwf _].
    destruct (json_text_roundtrip_cm x Hwf) as (t & Et & Dt).
    unfold cm_json_text in Et. rewrite Et in Hp. injection Hp as <-. rewrite Dt. reflexivity.
  - destruct (json_text_roundtrip_resp r Hwf) as (t & Et & Dt).
    unfold resp_json_text in Et. rewrite Et in Hp. injection Hp as <-. rewrite Dt. reflexivity.
Qed.

(* a well-formed message always has an encoding (so ONoEncoding is never observed) *)
Lemma payload_of_wf C m : is_framed C = true -> wmsg_wf m -> exists p, payload_of C m = Some p.
Proof.
  intros Hf Hwf. destruct C as [| |cap|]; try discriminate; destruct m as [x|r];
    cbn [wmsg_wf] in Hwf; unfold payload_of.
  - destruct Hwf as [Hwf He]. destruct (bincode_roundtrip_cm x Hwf He) as (bs & Eb & _).
    exists bs. exact Eb.
  - destruct (bincode_roundtrip_resp r Hwf) as (bs & Eb & _). exists bs. exact Eb.
  - destruct Hwf as [Hwf _]. destruct (json_tree_roundtrip_cm x Hwf) as (j & Ej & _).
    exists (json_print j). rewrite Ej. reflexivity.
  - destruct (json_tree_roundtrip_resp r Hwf) as (j & Ej & _).
    exists (json_print j). rewrite Ej. reflexivity.
Qed.

Lemma raw_expo C c2s p t : is_framed C = true ->
  expect_of C c2s (SendRaw p t) = Some (expo C c2s (p, t)).
Proof.
  intros Hf. unfold expo. cbn [fst expect_of].
  destruct C as [| |cap|]; try discriminate; reflexivity.
Qed.

(* ------------------------------------------------------------------------------------------ *)
(* the machine, framed, step by step *)

Lemma step_closed c c2s s o : is_framed (codec c) = true -> closed s = true ->
  step c c2s s o = (s, []).
Proof. intros Hf Hc. unfold step. rewrite Hf, Hc. reflexivity. Qed.

Lemma run_closed c c2s : is_framed (codec c) = true ->
  forall ops s, closed s = true -> all_nil (fst (run_from c c2s s ops)) = true.
Proof.
  intros Hf. induction ops as [|o ops IH]; intros s Hc; [reflexivity|].
  rewrite run_from_cons, step_closed by assumption. cbn [fst snd].
  unfold all_nil. cbn [forallb]. apply IH. exact Hc.
Qed.

Lemma step_open c c2s s o : is_framed (codec c) = true -> closed s = false ->
  step c c2s s o =
  match o with
  | Send m =>
    match payload_of (codec c) m with
    | None => (s, [OEvents (msg_events m); ONoEncoding])
    | Some p =>
      match frame_encode max_frame_default p with
      | None => (s, [OEvents (msg_events m); OTooBig])
      | Some f =>
        ({| written := written s ++ [(p, match codec c with TJson => tree_of m | _ => None end)];
            closed := false; chan := chan s |},
         [OEvents (msg_events m); OFrame f])
      end
    end
  | SendRaw p t =>
    match frame_encode max_frame_default p with
    | None => (s, [OTooBig])
    | Some f => ({| written := written s ++ [(p, t)]; closed := false; chan := chan s |}, [OFrame f])
    end
  | Recv => (s, [])
  | Close => ({| written := written s; closed := true; chan := chan s |}, close_obs c c2s (written s))
  | CloseSink =>
    ({| written := written s; closed := true; chan := chan s |}, OShut :: close_obs c c2s (written s))
  end.
Proof. intros Hf Hc. unfold step. rewrite Hf, Hc. reflexivity. Qed.

Lemma collect_cons C c2s o ops l tr : o <> Close -> o <> CloseSink ->
  collect C c2s (o :: ops) (l :: tr) =
  match collect C c2s ops tr with
  | None => None
  | Some (es, cl, ro, rt) =>
    match expect_of C c2s o, frame_len l with
    | Some e, Some n => Some ((e, n) :: es, cl, ro, rt)
    | Some _, None => Some (es, cl, ro, rt)
    | None, _ => match l with [] => Some (es, cl, ro, rt) | _ => None end
    end
  end.
Proof. intros Ho Ho'. destruct o; try reflexivity; contradiction. Qed.

(* before the first Close: one monitor entry per written entry; at Close: the reader's items *)
Lemma run_collect c c2s : is_framed (codec c) = true ->
  forall ops s, closed s = false -> Forall (op_wf c2s) ops ->
  exists ws cl ro rt,
    collect (codec c) c2s ops (fst (run_from c c2s s ops)) =
      Some (map (ent (codec c) c2s) ws, cl, ro, rt) /\
    Forall fits ws /\
    match cl with
    | None => True
    | Some got => got = close_obs c c2s (written s ++ ws) /\ all_nil rt = true
    end.
Proof.
  intros Hf. induction ops as [|o ops IH]; intros s Hc Hwf.
  - exists [], None, [], []. split; [reflexivity|]. split; [constructor|exact I].
  - apply Forall_cons_iff in Hwf. destruct Hwf as [[Hd Hm] Hwf].
    rewrite run_from_cons, (step_open c c2s s o Hf Hc).
    destruct o as [m|p t| | |].
    + (* Send *)
      destruct (payload_of (codec c) m) as [p|] eqn:Ep.
      * destruct (frame_encode max_frame_default p) as [f|] eqn:Ef.
        -- cbn [fst snd]. apply frame_encode_some in Ef. destruct Ef as [-> Hfit].
           destruct (IH {| written := written s ++
                             [(p, match codec c with TJson => tree_of m | _ => None end)];
                           closed := false; chan := chan s |} eq_refl Hwf)
             as (ws & cl & ro & rt & Hcol & Hfits & Hcl).
           exists ((p, match codec c with TJson => tree_of m | _ => None end) :: ws), cl, ro, rt.
           split; [|split].
           ++ rewrite collect_cons by discriminate. rewrite Hcol.
              cbn [expect_of frame_len find map]. unfold ent at 2. cbn [fst].
              rewrite (send_expo (codec c) c2s m p Hf Hd Hm Ep). reflexivity.
           ++ constructor; [exact Hfit|exact Hfits].
           ++ cbn [written] in Hcl. rewrite <- app_assoc in Hcl. exact Hcl.
        -- cbn [fst snd]. destruct (IH s Hc Hwf) as (ws & cl & ro & rt & Hcol & Hfits & Hcl).
           exists ws, cl, ro, rt. split; [|split; assumption].
           rewrite collect_cons by discriminate. rewrite Hcol. reflexivity.
      * cbn [fst snd]. destruct (IH s Hc Hwf) as (ws & cl & ro & rt & Hcol & Hfits & Hcl).
        exists ws, cl, ro, rt. split; [|split; assumption].
        rewrite collect_cons by discriminate. rewrite Hcol. reflexivity.
    + (* SendRaw *)
      destruct (frame_encode max_frame_default p) as [f|] eqn:Ef.
      * cbn [fst snd]. apply frame_encode_some in Ef. destruct Ef as [-> Hfit].
        destruct (IH {| written := written s ++ [(p, t)]; closed := false; chan := chan s |}
                     eq_refl Hwf) as (ws & cl & ro & rt & Hcol & Hfits & Hcl).
        exists ((p, t) :: ws), cl, ro, rt. split; [|split].
        -- rewrite collect_cons by discriminate. rewrite Hcol, (raw_expo _ _ _ _ Hf).
           reflexivity.
        -- constructor; [exact Hfit|exact Hfits].
        -- cbn [written] in Hcl. rewrite <- app_assoc in Hcl. exact Hcl.
      * cbn [fst snd]. destruct (IH s Hc Hwf) as (ws & cl & ro & rt & Hcol & Hfits & Hcl).
        exists ws, cl, ro, rt. split; [|split; assumption].
        rewrite collect_cons by discriminate. rewrite Hcol, (raw_expo _ _ _ _ Hf). reflexivity.
    + (* Recv *)
      cbn [fst snd]. destruct (IH s Hc Hwf) as (ws & cl & ro & rt & Hcol & Hfits & Hcl).
      exists ws, cl, ro, rt. split; [|split; assumption].
      rewrite collect_cons by discriminate. rewrite Hcol. reflexivity.
    + (* Close *)
      cbn [fst snd].
      exists [], (Some (close_obs c c2s (written s))), ops,
        (fst (run_from c c2s {| written := written s; closed := true; chan := chan s |} ops)).
      split; [reflexivity|]. split; [constructor|]. split.
      * rewrite app_nil_r. reflexivity.
      * apply run_closed; [exact Hf|reflexivity].
    + (* CloseSink: OShut, then what a Close yields *)
      cbn [fst snd].
      exists [], (Some (close_obs c c2s (written s))), ops,
        (fst (run_from c c2s {| written := written s; closed := true; chan := chan s |} ops)).
      split; [reflexivity|]. split; [constructor|]. split.
      * rewrite app_nil_r. reflexivity.
      * apply run_closed; [exact Hf|reflexivity].
Qed.

(* ------------------------------------------------------------------------------------------ *)
(* the flush clause: every OFrame the machine emits is one complete frame *)

Definition obs_shape_ok (o : obs) : bool :=
  match o with OFrame b => frame_shape_ok b | _ => true end.

Lemma frames_on_wire_eq tr : frames_on_wire tr = forallb (forallb obs_shape_ok) tr.
Proof. reflexivity. Qed.

Lemma frame_shape_frame p : (blen p <= max_frame_default)%N -> frame_shape_ok (frame p) = true.
Proof.
  intros Hp. destruct (be32_roundtrip (blen p)) as (a & b & c0 & d & Hbe & Hval).
  - pose proof max_frame_small. lia.
  - unfold frame. rewrite Hbe. cbn [app frame_shape_ok]. rewrite Hval. apply N.eqb_refl.
Qed.

Lemma frame_encode_shape p f : frame_encode max_frame_default p = Some f ->
  frame_shape_ok f = true.
Proof.
  intros Ef. apply frame_encode_some in Ef. destruct Ef as [-> Hp]. apply frame_shape_frame. exact Hp.
Qed.

Lemma decode_payload_shape C c2s p w : obs_shape_ok (decode_payload C c2s p w) = true.
Proof.
  unfold decode_payload. destruct C as [| |cap|]; try reflexivity; destruct c2s.
  - destruct (cm_of_bincode p); reflexivity.
  - destruct (resp_of_bincode p); reflexivity.
  - destruct (cm_of_json_text p); reflexivity.
  - destruct (resp_of_json_text p); reflexivity.
Qed.

Lemma decode_outs_shape C c2s : forall outs W, forallb obs_shape_ok (decode_outs C c2s outs W) = true.
Proof.
  induction outs as [|o outs IH]; intros W; [reflexivity|].
  destruct o; cbn [decode_outs forallb]; rewrite ?decode_payload_shape, IH; reflexivity.
Qed.

Lemma ch_obs_shape (l : list (ch_obs wmsg)) : forallb obs_shape_ok (map ch_obs_to_obs l) = true.
Proof.
  induction l as [|x l IH]; [reflexivity|]. cbn [map forallb]. rewrite IH. destruct x; reflexivity.
Qed.

Lemma step_shape c c2s s o : forallb obs_shape_ok (snd (step c c2s s o)) = true.
Proof.
  unfold step. destruct (is_framed (codec c)).
  - destruct (closed s); [reflexivity|]. destruct o as [m|p t| | |].
    + destruct (payload_of (codec c) m) as [p|]; [|reflexivity].
      destruct (frame_encode max_frame_default p) as [f|] eqn:Ef; [|reflexivity].
      cbn [snd forallb obs_shape_ok]. rewrite (frame_encode_shape p f Ef). reflexivity.
    + destruct (frame_encode max_frame_default p) as [f|] eqn:Ef; [|reflexivity].
      cbn [snd forallb obs_shape_ok]. rewrite (frame_encode_shape p f Ef). reflexivity.
    + reflexivity.
    + cbn [snd]. apply decode_outs_shape.
    + cbn [snd forallb obs_shape_ok]. apply decode_outs_shape.
  - destruct o as [m|p t| | |].
    + destruct (ch_step (chan_cap (codec c)) (chan s) (ChSend m)) as [q l]. apply ch_obs_shape.
    + reflexivity.
    + destruct (ch_step (chan_cap (codec c)) (chan s) ChRecv) as [q l]. apply ch_obs_shape.
    + destruct (ch_step (chan_cap (codec c)) (chan s) ChDropTx) as [q l]. apply ch_obs_shape.
    + destruct (codec c) as [| |cap|]; try reflexivity;
        destruct (ch_step (chan_cap (TBounded cap)) (chan s) ChDropTx) as [q l]; apply ch_obs_shape.
Qed.

Lemma run_from_frames_on_wire c c2s : forall ops s,
  frames_on_wire (fst (run_from c c2s s ops)) = true.
Proof.
  induction ops as [|o ops IH]; intros s; [reflexivity|].
  rewrite run_from_cons, frames_on_wire_eq. cbn [forallb].
  rewrite step_shape, <- frames_on_wire_eq, IH. reflexivity.
Qed.

(* no premise at all: whatever the configuration and the script *)
Lemma run_frames_on_wire : forall c ops, frames_on_wire (fst (run c ops)) = true.
Proof. intros c ops. unfold run. apply run_from_frames_on_wire. Qed.

(* ------------------------------------------------------------------------------------------ *)
(* C15 *)

Theorem strict_monitor_framed : forall c ops,
  is_framed (codec c) = true ->
  Forall (op_wf (is_c2s ops)) ops ->
  cut c <> 4%nat ->
  wire_strict_ok c ops (fst (run c ops)) = true.
Proof.
  intros c ops Hf Hwf Hcut. unfold wire_strict_ok, run.
  rewrite Hf, run_from_frames_on_wire, andb_true_r, framed_strict_ok_eq.
  destruct (run_collect c (is_c2s ops) Hf ops init eq_refl Hwf)
    as (ws & cl & ro & rt & Hcol & Hfits & Hcl).
  rewrite Hcol. destruct cl as [got|]; [|reflexivity].
  destruct Hcl as [-> Hrt]. cbn [written init app].
  rewrite (close_obs_eq c (is_c2s ops) ws Hcut Hfits), Hrt.
  rewrite (list_eqb_refl obs_eqb obs_eqb_refl). reflexivity.
Qed.

Theorem strict_monitor_holds : forall c ops,
  Forall (op_wf (is_c2s ops)) ops ->
  cut c <> 4%nat ->
  wire_strict_ok c ops (fst (run c ops)) = true.
Proof.
  intros c ops Hwf Hcut. destruct (is_framed (codec c)) eqn:Hf.
  - apply strict_monitor_framed; assumption.
  - apply strict_monitor_channels; assumption.
Qed.

(* the excluded corner: a stream cut exactly after a 4-byte length header reads as a clean
   end-of-stream (tokio-util's decode_eof), which the monitor rejects *)
Lemma strict_header_only_refuted : exists c ops,
  Forall (op_wf (is_c2s ops)) ops /\ cut c = 4%nat /\ wire_strict_ok c ops (fst (run c ops)) = false.
Proof.
  exists {| codec := TBincode; chunks := []; cut := 4 |},
         [Send (MC (CCancel default_trace 1)); Close].
  split; [|split].
  - constructor; [|constructor; [|constructor]].
    + split; [reflexivity|]. cbn [wmsg_wf cm_wf explicit]. unfold trace_wf.
      repeat split; reflexivity.
    + split; exact I.
  - reflexivity.
  - vm_compute. reflexivity.
Qed.

(* ------------------------------------------------------------------------------------------ *)
(* C15 proper: the relaxed monitor (no condition on the cut position) *)

Definition relaxed_ok (c : cfg) (es : list (obs * nat)) (got : list obs) : bool :=
  let '(items, boundary) := whole_frames es (kept_of c es) in
  list_eqb obs_eqb got (items ++ [OEnd]) ||
  (negb boundary && list_eqb obs_eqb got (items ++ [OStreamErr; OEnd])).

Lemma framed_ok_eq c ops tr :
  framed_ok c ops tr =
  match collect (codec c) (is_c2s ops) ops tr with
  | None => false
  | Some (_, None, _, _) => true
  | Some (es, Some got, _, rt) => relaxed_ok c es got && all_nil rt
  end.
Proof.
  unfold framed_ok, relaxed_ok, kept_of, total, lastlen, all_nil.
  destruct (collect (codec c) (is_c2s ops) ops tr) as [[[[es cl] ro] rt]|]; [|reflexivity].
  destruct cl as [got|]; [|reflexivity].
  match goal with |- context [whole_frames es ?k] => destruct (whole_frames es k) as [items b] end.
  reflexivity.
Qed.

(* whatever the strict monitor wants, the relaxed one accepts *)
Lemma strict_relaxed c es got rt :
  list_eqb obs_eqb got (want_of c es) && all_nil rt = true ->
  relaxed_ok c es got && all_nil rt = true.
Proof.
  unfold want_of, relaxed_ok. destruct (whole_frames es (kept_of c es)) as [items b].
  intros H. apply andb_true_iff in H. destruct H as [H1 H2]. rewrite H2.
  destruct b; rewrite H1; cbn [negb andb]; [reflexivity|]. rewrite orb_true_r. reflexivity.
Qed.

(* the strict monitor implies the relaxed one (any trace, framed or not) *)
Lemma strict_implies_c15 : forall c ops tr, wire_strict_ok c ops tr = true -> c15_ok c ops tr = true.
Proof.
  intros c ops tr. unfold wire_strict_ok, c15_ok.
  destruct (is_framed (codec c)); [|exact (fun H => H)].
  intros H. apply andb_true_iff in H. destruct H as [H Hw]. rewrite Hw, andb_true_r.
  revert H. rewrite framed_strict_ok_eq, framed_ok_eq.
  destruct (collect (codec c) (is_c2s ops) ops tr) as [[[[es cl] ro] rt]|]; [|exact (fun H => H)].
  destruct cl as [got|]; [|exact (fun H => H)].
  apply strict_relaxed.
Qed.

(* Close, for every cut: the reader's items are accepted by the relaxed monitor *)
Lemma close_obs_relaxed c c2s W : Forall fits W ->
  relaxed_ok c (map (ent (codec c) c2s) W) (close_obs c c2s W) = true.
Proof.
  intros HW. unfold relaxed_ok. rewrite (close_obs_gen c c2s W HW). unfold close_tail.
  destruct (whole_frames (map (ent (codec c) c2s) W) (kept_of c (map (ent (codec c) c2s) W)))
    as [items b].
  destruct b; [|destruct (Nat.eqb (cut c) 4)];
    rewrite (list_eqb_refl obs_eqb obs_eqb_refl); cbn [negb andb orb]; try reflexivity.
  apply orb_true_r.
Qed.

Theorem c15_monitor_framed : forall c ops,
  is_framed (codec c) = true ->
  Forall (op_wf (is_c2s ops)) ops ->
  c15_ok c ops (fst (run c ops)) = true.
Proof.
  intros c ops Hf Hwf. unfold c15_ok, run.
  rewrite Hf, run_from_frames_on_wire, andb_true_r, framed_ok_eq.
  destruct (run_collect c (is_c2s ops) Hf ops init eq_refl Hwf)
    as (ws & cl & ro & rt & Hcol & Hfits & Hcl).
  rewrite Hcol. destruct cl as [got|]; [|reflexivity].
  destruct Hcl as [-> Hrt]. cbn [written init app].
  rewrite (close_obs_relaxed c (is_c2s ops) ws Hfits), Hrt. reflexivity.
Qed.

Theorem c15_monitor_channels : forall c ops,
  is_framed (codec c) = false -> c15_ok c ops (fst (run c ops)) = true.
Proof.
  intros c ops Hf. apply strict_implies_c15. apply strict_monitor_channels. exact Hf.
Qed.

(* C15 proper: no condition on the cut position *)
Theorem c15_monitor_holds : forall c ops,
  Forall (op_wf (is_c2s ops)) ops ->
  c15_ok c ops (fst (run c ops)) = true.
Proof.
  intros c ops Hwf. destruct (is_framed (codec c)) eqn:Hf.
  - apply c15_monitor_framed; assumption.
  - apply c15_monitor_channels; assumption.
Qed.

(* the header-only cut, which the strict monitor rejects (strict_header_only_refuted), is
   accepted by the relaxed one: the implication above is strict *)
Lemma c15_header_only_accepted : exists c ops,
  cut c = 4%nat /\ wire_strict_ok c ops (fst (run c ops)) = false /\
  c15_ok c ops (fst (run c ops)) = true.
Proof.
  exists {| codec := TBincode; chunks := []; cut := 4 |},
         [Send (MC (CCancel default_trace 1)); Close].
  split; [reflexivity|]. split; vm_compute; reflexivity.
Qed.

(* ------------------------------------------------------------------------------------------ *)
(* closing (not dropping) the writing end of a framed transport: the close reaches the byte
   stream and the reader sees end-of-stream right after the last message *)

Lemma run_from_cons_snd c c2s s o r :
  snd (run_from c c2s s (o :: r)) = snd (run_from c c2s (fst (step c c2s s o)) r).
Proof.
  cbn [run_from]. destruct (step c c2s s o) as [s1 l]. cbn [fst snd].
  destruct (run_from c c2s s1 r) as [ls s2]. reflexivity.
Qed.

Lemma run_from_snoc c c2s o : forall a s,
  fst (run_from c c2s s (a ++ [o])) =
  fst (run_from c c2s s a) ++ [snd (step c c2s (snd (run_from c c2s s a)) o)].
Proof.
  induction a as [|x a IH]; intros s.
  - cbn [app]. rewrite run_from_cons. reflexivity.
  - cbn [app]. rewrite !run_from_cons, IH, run_from_cons_snd. reflexivity.
Qed.

Definition not_closing (o : op) : Prop :=
  match o with Close | CloseSink => False | _ => True end.

(* without a closing op the machine stays open and every written entry fits *)
Lemma run_open c c2s : is_framed (codec c) = true ->
  forall ops s, Forall not_closing ops -> closed s = false -> Forall fits (written s) ->
  closed (snd (run_from c c2s s ops)) = false /\ Forall fits (written (snd (run_from c c2s s ops))).
Proof.
  intros Hf. induction ops as [|o ops IH]; intros s Hn Hc HW.
  - split; assumption.
  - apply Forall_cons_iff in Hn. destruct Hn as [Ho Hn].
    rewrite run_from_cons_snd, (step_open c c2s s o Hf Hc).
    destruct o as [m|p t| | |]; try contradiction.
    + destruct (payload_of (codec c) m) as [p|]; [|apply IH; assumption].
      destruct (frame_encode max_frame_default p) as [f|] eqn:Ef; [|apply IH; assumption].
      apply frame_encode_some in Ef. destruct Ef as [_ Hfit]. cbn [fst].
      apply IH; [exact Hn|reflexivity|]. cbn [written]. apply Forall_app. split; [exact HW|].
      constructor; [exact Hfit|constructor].
    + destruct (frame_encode max_frame_default p) as [f|] eqn:Ef; [|apply IH; assumption].
      apply frame_encode_some in Ef. destruct Ef as [_ Hfit]. cbn [fst].
      apply IH; [exact Hn|reflexivity|]. cbn [written]. apply Forall_app. split; [exact HW|].
      constructor; [exact Hfit|constructor].
    + apply IH; assumption.
Qed.

(* an uncut stream: every frame, then end-of-stream *)
Lemma close_obs_nocut c c2s W : cut c = 0%nat -> Forall fits W ->
  close_obs c c2s W = map (expo (codec c) c2s) W ++ [OEnd].
Proof.
  intros Hcut HW. rewrite (close_obs_gen c c2s W HW).
  assert (Hk : kept_of c (map (ent (codec c) c2s) W) = (total (map (ent (codec c) c2s) W) + 0)%nat).
  { unfold kept_of. rewrite Hcut. cbn [Nat.eqb]. lia. }
  rewrite Hk. rewrite <- (app_nil_r (map (ent (codec c) c2s) W)) at 1.
  rewrite whole_frames_prefix. cbn [whole_frames Nat.eqb]. rewrite app_nil_r. reflexivity.
Qed.

(* the reader's item for a frame is a message or an Err item, nothing else *)
Lemma expo_kind C c2s w : expo C c2s w = ORecvErr \/ exists m, expo C c2s w = ORecv m.
Proof.
  unfold expo, decode_payload. destruct w as [p t]. cbn [fst].
  destruct C as [| |cap|]; try (left; reflexivity).
  - destruct c2s.
    + destruct (cm_of_bincode p); [right; eexists; reflexivity|left; reflexivity].
    + destruct (resp_of_bincode p); [right; eexists; reflexivity|left; reflexivity].
  - destruct c2s.
    + destruct (cm_of_json_text p); [right; eexists; reflexivity|left; reflexivity].
    + destruct (resp_of_json_text p); [right; eexists; reflexivity|left; reflexivity].
Qed.

Lemma expo_items C c2s W o : In o (map (expo C c2s) W) -> o = ORecvErr \/ exists m, o = ORecv m.
Proof.
  intros Hin. apply in_map_iff in Hin. destruct Hin as (w & <- & _). apply expo_kind.
Qed.

Theorem c15_close_signals_end : forall c ops,
  is_framed (codec c) = true -> cut c = 0%nat ->
  Forall (op_wf (is_c2s (ops ++ [CloseSink]))) ops ->
  Forall (fun o => match o with Close | CloseSink => False | _ => True end) ops ->
  exists items, last (fst (run c (ops ++ [CloseSink]))) [] = OShut :: items ++ [OEnd] /\
                ~ In OStreamErr items /\ ~ In OEnd items /\ ~ In OShut items.
Proof.
  intros c ops Hf Hcut _ Hn. unfold run.
  set (c2s := is_c2s (ops ++ [CloseSink])).
  destruct (run_open c c2s Hf ops init Hn eq_refl (Forall_nil _)) as [Hc HW].
  exists (map (expo (codec c) c2s) (written (snd (run_from c c2s init ops)))).
  split; [|split; [|split]].
  - rewrite run_from_snoc, last_last, (step_open c c2s _ CloseSink Hf Hc). cbn [snd].
    rewrite (close_obs_nocut c c2s _ Hcut HW). reflexivity.
  - intros Hin. apply expo_items in Hin. destruct Hin as [Hin|[m Hin]]; discriminate Hin.
  - intros Hin. apply expo_items in Hin. destruct Hin as [Hin|[m Hin]]; discriminate Hin.
  - intros Hin. apply expo_items in Hin. destruct Hin as [Hin|[m Hin]]; discriminate Hin.
Qed.

(* ------------------------------------------------------------------------------------------ *)
(* the byte stream under a framed transport: poll_flush over a stream with a staging buffer *)

(* the write loop: nothing reaches the wire, nothing is lost or reordered, the stream's flush
   script is untouched; Ready means the codec buffer is empty; with enough fuel a Pending comes
   from a Pending poll_write, which consumes one entry of the write script *)
Lemma write_out_inv : forall fuel w p w', write_out fuel w = (p, w') ->
  b_wire (w_io w') = b_wire (w_io w) /\
  b_stage (w_io w') ++ w_buf w' = b_stage (w_io w) ++ w_buf w /\
  w_fl w' = w_fl w /\
  (p = PReady -> w_buf w' = []) /\
  (length (w_wr w') <= length (w_wr w))%nat /\
  ((length (w_buf w) < fuel)%nat -> p = PPending -> (length (w_wr w') < length (w_wr w))%nat).
Proof.
  induction fuel as [|f IH]; intros w p w' H.
  - cbn [write_out] in H. injection H as <- <-.
    repeat split; try reflexivity; try lia. discriminate.
  - cbn [write_out] in H. destruct (w_buf w) as [|x buf] eqn:Eb.
    + injection H as <- <-. rewrite Eb.
      repeat split; try reflexivity; try lia. discriminate.
    + destruct (w_wr w) as [|[|k] r] eqn:Ew.
      * apply IH in H. cbn [w_buf w_io w_wr w_fl b_stage b_wire length] in H.
        destruct H as (H1 & H2 & H3 & H4 & H5 & H6).
        rewrite app_nil_r in H2.
        repeat split; try assumption. cbn [length]. intros Hlt Hp. apply H6 in Hp; lia.
      * injection H as <- <-. cbn [w_buf w_io w_wr w_fl length].
        repeat split; try reflexivity; try lia. discriminate.
      * apply IH in H. cbn [w_buf w_io w_wr w_fl b_stage b_wire] in H.
        destruct H as (H1 & H2 & H3 & H4 & H5 & H6).
        rewrite <- app_assoc, firstn_skipn in H2.
        repeat split; try assumption.
        -- cbn [length]. lia.
        -- cbn [length]. intros Hlt Hp.
           assert (Hs : (length (skipn (S k) (x :: buf)) < f)%nat).
           { rewrite skipn_length. cbn [length] in *. lia. }
           specialize (H6 Hs Hp). lia.
Qed.

(* a Transport::poll_flush that returned Ready(Ok) left nothing behind: codec buffer and staging
   buffer are empty and everything that was in them is on the wire, in order *)
Theorem flush_ready_means_on_wire : forall w w', poll_flush w = (PReady, w') ->
  w_buf w' = [] /\ b_stage (w_io w') = [] /\
  b_wire (w_io w') = b_wire (w_io w) ++ b_stage (w_io w) ++ w_buf w.
Proof.
  intros w w' H. unfold poll_flush in H.
  destruct (write_out (S (length (w_buf w))) w) as [p w1] eqn:E.
  destruct p; [|discriminate].
  apply write_out_inv in E. destruct E as (H1 & H2 & H3 & H4 & _ & _).
  specialize (H4 eq_refl). rewrite H4, app_nil_r in H2.
  unfold stream_flush in H. destruct (w_fl w1); [|discriminate].
  injection H as <-. cbn [w_buf w_io b_stage b_wire].
  rewrite H1, H2, H4. repeat split; reflexivity.
Qed.

(* a Pending poll_flush loses and reorders nothing, puts nothing new on the wire, and makes
   progress in the script *)
Theorem flush_pending_keeps_bytes : forall w w', poll_flush w = (PPending, w') ->
  b_wire (w_io w') = b_wire (w_io w) /\
  b_stage (w_io w') ++ w_buf w' = b_stage (w_io w) ++ w_buf w /\
  (length (w_wr w') + w_fl w' < length (w_wr w) + w_fl w)%nat.
Proof.
  intros w w' H. unfold poll_flush in H.
  destruct (write_out (S (length (w_buf w))) w) as [p w1] eqn:E.
  apply write_out_inv in E. destruct E as (H1 & H2 & H3 & H4 & H5 & H6).
  destruct p.
  - unfold stream_flush in H. destruct (w_fl w1) as [|k] eqn:Ef; [discriminate|].
    injection H as <-. cbn [w_buf w_io w_wr w_fl].
    repeat split; try assumption. lia.
  - injection H as <-. repeat split; try assumption.
    specialize (H6 (Nat.lt_succ_diag_r _) eq_refl). lia.
Qed.

Lemma flush_until_ready_measure : forall n w, (length (w_wr w) + w_fl w <= n)%nat ->
  exists w', flush_until_ready (S n) w = Some w' /\
    w_buf w' = [] /\ b_stage (w_io w') = [] /\
    b_wire (w_io w') = b_wire (w_io w) ++ b_stage (w_io w) ++ w_buf w.
Proof.
  induction n as [|n IH]; intros w Hm.
  - cbn [flush_until_ready]. destruct (poll_flush w) as [p w1] eqn:E. destruct p.
    + exists w1. split; [reflexivity|]. apply flush_ready_means_on_wire. exact E.
    + apply flush_pending_keeps_bytes in E. lia.
  - cbn [flush_until_ready]. destruct (poll_flush w) as [p w1] eqn:E. destruct p.
    + exists w1. split; [reflexivity|]. apply flush_ready_means_on_wire. exact E.
    + apply flush_pending_keeps_bytes in E. destruct E as (E1 & E2 & E3).
      destruct (IH w1) as (w' & Hr & Hb & Hs & Hw); [lia|].
      exists w'. split; [exact Hr|]. split; [exact Hb|]. split; [exact Hs|].
      rewrite Hw, E1, E2. reflexivity.
Qed.

(* polling until Ready terminates, whatever the script of partial writes and Pending results *)
Theorem flush_terminates : forall w, exists w',
  flush_until_ready (S (length (w_wr w) + w_fl w)) w = Some w' /\
  w_buf w' = [] /\ b_stage (w_io w') = [] /\
  b_wire (w_io w') = b_wire (w_io w) ++ b_stage (w_io w) ++ w_buf w.
Proof. intros w. apply flush_until_ready_measure. apply Nat.le_refl. Qed.

(* hence: send a frame, flush until Ready => exactly that frame was added to the wire (this is what
   `step` assumes for a Send over a clean stream) *)
Theorem send_flush_on_wire : forall w f, w_buf w = [] -> b_stage (w_io w) = [] -> exists w',
  flush_until_ready (S (length (w_wr w) + w_fl w)) (start_send_frame w f) = Some w' /\
  w_buf w' = [] /\ b_stage (w_io w') = [] /\ b_wire (w_io w') = b_wire (w_io w) ++ f.
Proof.
  intros w f Hb Hs. destruct (flush_terminates (start_send_frame w f)) as (w' & Hr & Hb' & Hs' & Hw).
  cbn [start_send_frame w_buf w_io w_wr w_fl] in Hr, Hw. rewrite Hb, Hs in Hw. cbn [app] in Hw.
  exists w'. repeat split; assumption.
Qed.

(* the seeded fast path is wrong: Ready with bytes still in the staging buffer *)
Lemma flush_skipping_refuted : exists w w1 w2,
  poll_flush_skipping w = (PPending, w1) /\ poll_flush_skipping w1 = (PReady, w2) /\
  b_stage (w_io w2) <> [] /\ b_wire (w_io w2) = b_wire (w_io w).
Proof.
  exists {| w_buf := [1%N; 2%N; 3%N]; w_io := {| b_stage := []; b_wire := [] |};
            w_wr := []; w_fl := 1 |}.
  do 2 eexists. split; [vm_compute; reflexivity|]. split; [vm_compute; reflexivity|].
  split; [discriminate|reflexivity].
Qed.
