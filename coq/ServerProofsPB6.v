(* Server proofs, engineer B, part 6: the final theorems of C12 (c) and C06 (late clause), from the
   conditional theorems of parts 4 and 5 and engineer A's run theorem ServerProofsPA4.run_invh. *)
From Coq Require Import List Bool Arith NArith Lia.
Import ListNotations.
From TarpcV Require Import Base Transport TimerWheel Server ServerMon ServerSpec
     ServerProofsPA0 ServerProofsPA4 ServerProofsPB4 ServerProofsPB5.

Theorem s_v12c_rel : stmt_s_v12c_rel.
Proof. exact (s_v12c_rel_of run_invh). Qed.
Theorem s_v12c : stmt_s_v12c.
Proof. exact (s_v12c_of run_invh). Qed.
Theorem s12_rel : stmt_s12_rel.
Proof. exact (s12_rel_of run_invh). Qed.
Theorem s12 : stmt_s12.
Proof. exact (s12_of run_invh). Qed.

Theorem s_v06l_rel : stmt_s_v06l_rel.
Proof. exact (s_v06l_rel_of run_invh). Qed.
Theorem s_v06l : stmt_s_v06l.
Proof. exact (s_v06l_of run_invh). Qed.
Theorem s06_rel : stmt_s06_rel.
Proof. exact (s06_rel_of run_invh). Qed.
Theorem s06 : stmt_s06.
Proof. exact (s06_of run_invh). Qed.

Print Assumptions s_v12c_rel.
Print Assumptions s_v12c.
Print Assumptions s12_rel.
Print Assumptions s12.
Print Assumptions s_v06l_rel.
Print Assumptions s_v06l.
Print Assumptions s06_rel.
Print Assumptions s06.
