(* Chain proofs, SettleAll terminates, part 4: a round, settle, SettleAll, runs.
   Result: `chain_rounds_if` - if the bound `rounds_of` dominates the potential Phi, every
   SettleAll that prints no KOracle reaches a quiet round (stmt_chain_rounds). *)
From Coq Require Import List Bool Arith NArith Lia.
Import ListNotations.
From TarpcV Require Import Base Transport TimerWheel Chain ChainBase ChainLoops ChainSpec.
From TarpcV Require Client Server ChainRounds3.
Import ChainRounds3.

Definition orb_not (p : cobs -> bool) (x : bool) (e : cobs) : bool := x || negb (p e).
Lemma fold_orb_not p l : forall x, fold_left (orb_not p) l x = x || negb (forallb p l).
Proof.
  induction l as [|e r IH]; intro x; cbn [fold_left forallb]; [destruct x; reflexivity|].
  rewrite IH. unfold orb_not. destruct x, (p e), (forallb p r); reflexivity.
Qed.

(* ---------------------------------------------------------------- one round *)
Lemma round_RC ch ch1 ev : round ch = (ch1, ev) -> RC ch ch1 ev.
Proof.
  intro ER.
  set (Inv := fun (x : bool) (c : chain) =>
                Phi c <= Phi ch /\ (Phi c = Phi ch -> digest c = digest ch /\ x = false)).
  assert (K : forall x c c' l, Inv x c -> RC c c' l -> Inv (fold_left (orb_not okev) l x) c').
  { intros x c c' l [L H] [L' H']. split; [lia|]. intro E.
    destruct H as [D X]; [lia|]. destruct H' as [D' O]; [lia|]. split; [congruence|].
    rewrite fold_orb_not, X, O. reflexivity. }
  assert (I0 : Inv false ch) by (split; [lia|intros _; split; reflexivity]).
  pose proof (lp_round bool (orb_not okev) Inv
                (fun x j c c' l I E => K x c c' l I (rc_poll_head j c c' l E))
                (fun x i c c' l I E => K x c c' l I (rc_poll_dispatch i c c' l E))
                (fun x i c c' l I E => K x c c' l I (rc_poll_requests i c c' l E))
                (fun x i k st c c' l I E => K x c c' l I (rc_poll_handler i k st c c' l E))) as LR.
  destruct (LR (fun x e H => ltac:(unfold orb_not, okev; rewrite H; destruct x; reflexivity))
               false ch ch1 ev I0 ER) as [L H].
  split; [exact L|]. intro E. destruct (H E) as [D X]. split; [exact D|].
  rewrite fold_orb_not in X. cbn [orb] in X. destruct (forallb okev ev); [reflexivity|discriminate].
Qed.

Lemma round_events ch ch1 ev : round ch = (ch1, ev) -> forall e, In e ev -> is_event e = true.
Proof.
  unfold round. destruct (poll_heads 0 _ ch []) as [c1 l1]. destruct (settle_nodes 0 _ c1 []) as [c2 l2].
  intros [= _ <-] e H. apply filter_In in H. apply H.
Qed.

Lemma list_eqb_refl {X} (eqb : X -> X -> bool) (R : forall x, eqb x x = true) l : list_eqb eqb l l = true.
Proof. induction l as [|x r IH]; cbn; [reflexivity|]. rewrite R, IH. reflexivity. Qed.
Lemma digest_eqb_refl d : digest_eqb d d = true.
Proof.
  unfold digest_eqb. apply list_eqb_refl. intros [[a b] c]. unfold dnode_eqb.
  rewrite !(list_eqb_refl N.eqb N.eqb_refl). reflexivity.
Qed.

(* ---------------------------------------------------------------- settle *)
Lemma settle_incl n : forall ch acc ch' evs q, settle n ch acc = (ch', evs, q) -> incl acc evs.
Proof.
  induction n as [|n IH]; intros ch acc ch' evs q E; cbn [settle] in E.
  - injection E as _ <- _. apply incl_refl.
  - destruct (round ch) as [ch1 ev]. destruct (_ && _).
    + injection E as _ <- _. apply incl_refl.
    + apply IH in E. intros e H. apply E, in_or_app. left; exact H.
Qed.

Lemma settle_quiet n : forall ch acc ch' evs q,
  Phi ch < n -> settle n ch acc = (ch', evs, q) -> q = true \/ exists i, In (KOracle i) evs.
Proof.
  induction n as [|n IH]; intros ch acc ch' evs q B E; [lia|]. cbn [settle] in E.
  destruct (round ch) as [ch1 ev] eqn:ER. destruct (round_RC _ _ _ ER) as [L H].
  destruct (digest_eqb (digest ch) (digest ch1) && match ev with [] => true | _ => false end) eqn:EQ.
  - injection E as _ _ <-. left; reflexivity.
  - destruct (Nat.eq_dec (Phi ch1) (Phi ch)) as [X|X].
    + destruct (H X) as [D O]. rewrite D, digest_eqb_refl in EQ. cbn [andb] in EQ.
      destruct ev as [|e r]; [discriminate|]. right.
      pose proof (round_events _ _ _ ER e (or_introl eq_refl)) as Ev.
      cbn [forallb] in O. apply andb_true_iff in O. destruct O as [O _]. unfold okev in O. rewrite Ev in O.
      cbn [negb orb] in O. destruct e; try discriminate. exists i.
      apply (settle_incl _ _ _ _ _ _ E). apply in_or_app. right. left. reflexivity.
    + eapply IH; [|exact E]. lia.
Qed.

(* ---------------------------------------------------------------- no poll prints KRounds *)
Definition nr (l : list cobs) : Prop := ~ In KRounds l.
Lemma nr_nil : nr []. Proof. intros []. Qed.
Lemma nr_app a b : nr a -> nr b -> nr (a ++ b).
Proof. unfold nr. intros A B H. apply in_app_or in H. tauto. Qed.
Lemma nr_tr_cobs i l : nr (flat_map (tr_cobs i) l).
Proof. intro H. apply in_flat_map in H. destruct H as (o & _ & H). destruct o; cbn in H; intuition discriminate. Qed.
Lemma nr_tr_sobs i l : nr (flat_map (tr_sobs i) l).
Proof. intro H. apply in_flat_map in H. destruct H as (o & _ & H). destruct o; cbn in H; intuition discriminate. Qed.
Lemma nr_poll_head j ch : nr (snd (poll_head j ch)).
Proof.
  unfold poll_head. destruct (nth_error ch 0) as [nd|]; [|apply nr_nil].
  destruct (cstep nd (Client.PollCall j)) as [nd1 l]. cbn [snd]. intros H.
  apply in_flat_map in H. destruct H as (o & _ & H). destruct o; cbn in H; intuition discriminate.
Qed.
Lemma nr_poll_dispatch i ch : nr (snd (Chain.poll_dispatch i ch)).
Proof.
  unfold Chain.poll_dispatch. destruct (nth_error ch i) as [nd|]; [|apply nr_nil].
  destruct (cstep nd Client.PollDispatch) as [nd1 l]. apply nr_tr_cobs.
Qed.
Lemma nr_poll_requests i ch : nr (snd (poll_requests i ch)).
Proof.
  unfold poll_requests. destruct (nth_error ch i) as [nd|]; [|apply nr_nil].
  destruct (n_over nd || _); [apply nr_nil|].
  destruct (sstep nd Server.OPoll) as [nd1 l]. apply nr_tr_sobs.
Qed.
Lemma nr_poll_handler i k st ch : nr (snd (poll_handler i k st ch)).
Proof.
  unfold poll_handler. destruct (nth_error ch i) as [nd|]; [|apply nr_nil].
  destruct (nth_error (Server.s_handlers (n_srv nd)) k) as [hr|]; [|apply nr_nil].
  assert (F : forall (x : list cobs) l, (x = [KHStart i k] \/ x = []) -> nr l -> nr (x ++ l)).
  { intros x l [-> | ->] A; [|exact A]. apply nr_app; [|exact A]. intros [H|[]]. discriminate. }
  destruct (Server.h_st hr).
  1,2: destruct (is_aborted _ _);
    [destruct (sstep nd _) as [nd1 l]; cbn [snd]; apply nr_tr_sobs|];
    destruct (nth_error ch (S i)) as [nx|];
    [destruct (inner_poll k nd nx) as [[nd1 nx1] st1]; destruct (sstep nd1 _) as [nd2 l]
    |destruct (sstep nd _) as [nd1 l]];
    cbn [snd]; (apply F; [auto|]); apply nr_tr_sobs.
  1,2: destruct (sstep nd _) as [nd1 l]; cbn [snd]; apply nr_tr_sobs.
  all: apply nr_nil.
Qed.

Definition isR (e : cobs) : bool := match e with KRounds => true | _ => false end.
Lemma nr_forallb l : nr l -> forallb (fun e => negb (isR e)) l = true.
Proof.
  intro H. apply forallb_forall. intros e He. destruct e; try reflexivity. exfalso. exact (H He).
Qed.
Lemma forallb_nr l : forallb (fun e => negb (isR e)) l = true -> nr l.
Proof. intros H He. rewrite forallb_forall in H. specialize (H _ He). discriminate. Qed.

Lemma nr_settle n ch ch' evs q : settle n ch [] = (ch', evs, q) -> nr evs.
Proof.
  intro E. set (p := fun e => negb (isR e)).
  assert (K : forall x l, x = false -> nr l -> fold_left (orb_not p) l x = false).
  { intros x l -> N. rewrite fold_orb_not. unfold p. rewrite (nr_forallb l N). reflexivity. }
  pose proof (lp_settle bool (orb_not p) (fun x _ => x = false)
    (fun x j c c' l I E => K x l I (eq_ind _ (fun z => nr (snd z)) (nr_poll_head j c) _ E))
    (fun x i c c' l I E => K x l I (eq_ind _ (fun z => nr (snd z)) (nr_poll_dispatch i c) _ E))
    (fun x i c c' l I E => K x l I (eq_ind _ (fun z => nr (snd z)) (nr_poll_requests i c) _ E))
    (fun x i k st c c' l I E => K x l I (eq_ind _ (fun z => nr (snd z)) (nr_poll_handler i k st c) _ E))) as LS.
  assert (NE : forall (x : bool) e, is_event e = false -> orb_not p x e = x).
  { intros x e H. unfold orb_not, p. destruct e; try discriminate; destruct x; reflexivity. }
  specialize (LS NE n ch [] ch' evs q false eq_refl E). cbv beta in LS.
  rewrite fold_orb_not in LS. cbn [orb] in LS. apply forallb_nr.
  fold p. destruct (forallb p evs); [reflexivity|discriminate].
Qed.

Lemma nr_gauges ch : forall i, nr (all_gauges i ch).
Proof.
  induction ch as [|nd r IH]; intro i; cbn [all_gauges]; [apply nr_nil|].
  apply nr_app; [intros [H|[]]; discriminate|]. apply nr_app; [|apply IH].
  unfold sgauge. destruct (Server.s_dropped _); [apply nr_nil|].
  destruct (Server.s_bad _); intros H; cbn in H; intuition discriminate.
Qed.

(* ---------------------------------------------------------------- SettleAll and runs *)
Lemma settle_all_rounds ch :
  Phi ch < rounds_of ch ->
  (forall i, ~ In (KOracle i) (snd (settle_all ch))) -> nr (snd (settle_all ch)).
Proof.
  unfold settle_all. intro B. destruct (settle (rounds_of ch) ch []) as [[ch1 ev] q] eqn:ES. cbn [snd].
  intros NO. pose proof (nr_settle _ _ _ _ _ ES) as N1.
  destruct (settle_quiet _ _ _ _ _ _ B ES) as [->|(i & Hi)].
  - apply nr_app; [exact N1|]. apply nr_app; [apply nr_nil|apply nr_gauges].
  - exfalso. apply (NO i). apply in_or_app. left; exact Hi.
Qed.

Lemma step_rounds ch o :
  (forall c, Phi c < rounds_of c) ->
  (forall i, ~ In (KOracle i) (snd (step ch o))) -> nr (snd (step ch o)).
Proof.
  intros B. destruct o; cbn [step].
  - destruct (nth_error ch 0); intros _; apply nr_nil.
  - intros _. apply nr_poll_head.
  - destruct (nth_error ch 0); intros _; apply nr_nil.
  - intros _. apply nr_poll_dispatch.
  - intros _. apply nr_poll_requests.
  - intros _. apply nr_poll_handler.
  - intros _. destruct (nth_error ch i) as [nd|]; [|apply nr_nil].
    destruct (Client.dropped _); [apply nr_nil|]. destruct (cstep nd _). apply nr_nil.
  - intros _. destruct (nth_error ch i) as [nd|]; [|apply nr_nil].
    destruct (Server.s_dropped _); [apply nr_nil|]. destruct (sstep nd _). apply nr_nil.
  - intros _. apply nr_nil.
  - apply settle_all_rounds, B.
Qed.

Lemma run_from_rounds ops : forall ch,
  (forall c, Phi c < rounds_of c) ->
  (forall l i, In l (fst (run_from ch ops)) -> ~ In (KOracle i) l) ->
  forall l, In l (fst (run_from ch ops)) -> ~ In KRounds l.
Proof.
  induction ops as [|o r IH]; intros ch B; cbn [run_from]; [intros _ l []|].
  pose proof (step_rounds ch o B) as H. destruct (step ch o) as [ch1 l1]. cbn [snd] in H.
  specialize (IH ch1 B). destruct (run_from ch1 r) as [ls ch2]. cbn [fst] in *.
  intros NO l [<-|H1].
  - apply H. intros i. apply NO. left; reflexivity.
  - apply IH; [|exact H1]. intros l' i Hl'. apply NO. right; exact Hl'.
Qed.

(* the pinned statement, from the bound *)
Theorem chain_rounds_if : (forall ch, Phi ch < rounds_of ch) -> stmt_chain_rounds.
Proof. intros B d ops NO l Hl. unfold run in *. eapply run_from_rounds; eassumption. Qed.
Print Assumptions chain_rounds_if.
