(* GENERATED SIDE CONDITIONS for C07: the default deadline, that the request context's deadline
   is the one member that may be omitted (its #[serde(default)] flag is part of the shape), and
   that it travels as a Duration { secs : u64, nanos : u32 }. *)
From Coq Require Import String List NArith ZArith.
Import ListNotations.
From TarpcV Require Schema Wire Time Generated.

Lemma gen_default_deadline : Some Time.default_deadline_secs = Generated.default_deadline_secs.
Proof. vm_compute; reflexivity. Qed.
Lemma gen_client_message_shape : Wire.client_message_shape = Generated.client_message_shape.
Proof. vm_compute; reflexivity. Qed.
Lemma gen_client_message_shape_wf : Wire.schema_wf Generated.client_message_shape = true.
Proof. vm_compute; reflexivity. Qed.
Lemma gen_max_timeout : Some Time.max_timeout_secs = Generated.max_timeout_secs.
Proof. vm_compute; reflexivity. Qed.
Lemma gen_deserialize_checked_add : Generated.deserialize_checked_add = true.
Proof. vm_compute; reflexivity. Qed.
