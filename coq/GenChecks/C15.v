(* GENERATED SIDE CONDITIONS for C15 (nothing else lives here).  Generated.v is re-derived from
   the current /repo sources by tools/gen on every run; each lemma below is closed by
   computation, so an edit to an io::ErrorKind table, to a serde derive or to the primitive
   type of a leaf in /repo makes this file stop compiling. *)
From Coq Require Import String List NArith ZArith.
Import ListNotations.
From TarpcV Require Schema Wire Shipped Generated.

(* the shapes the theorems are about are the shapes the real impls have *)
Lemma gen_client_message_shape : Wire.client_message_shape = Generated.client_message_shape.
Proof. vm_compute; reflexivity. Qed.
Lemma gen_response_shape : Wire.response_shape = Generated.response_shape.
Proof. vm_compute; reflexivity. Qed.
(* ... and they satisfy the side condition of the round-trip theorems: every leaf is read back
   as the primitive it was written as, names are distinct, enums fit a u32 tag *)
Lemma gen_client_message_shape_wf : Wire.schema_wf Generated.client_message_shape = true.
Proof. vm_compute; reflexivity. Qed.
Lemma gen_response_shape_wf : Wire.schema_wf Generated.response_shape = true.
Proof. vm_compute; reflexivity. Qed.
(* the integer type of the kind: as recorded from the running code and as written in the source *)
Lemma gen_kind_types :
  (Wire.kind_ser_type, Wire.kind_de_type) = (Generated.kind_ser_prim, Generated.kind_de_prim) /\
  (Wire.kind_ser_type, Wire.kind_de_type) = (Generated.kind_ser_src_type, Generated.kind_de_src_type).
Proof. split; vm_compute; reflexivity. Qed.
(* the two tables of util/serde.rs *)
Lemma gen_kind_ser_table :
  Wire.kind_ser_table = Generated.kind_ser_table /\ Some Wire.kind_ser_default = Generated.kind_ser_default.
Proof. split; vm_compute; reflexivity. Qed.
Lemma gen_kind_de_table :
  Wire.kind_de_table = Generated.kind_de_table /\ Some Wire.kind_de_default = Generated.kind_de_default.
Proof. split; vm_compute; reflexivity. Qed.
(* the default a decoder substitutes for an omitted deadline, as the delivery step of Shipped.v reports it *)
Lemma gen_default_deadline_wire :
  match Shipped.default_deadline_wire with
  | Wire.DlExplicit s n => (Some (Z.of_N s), n) = (Generated.default_deadline_secs, 0%N)
  | Wire.DlOmitted => False
  end.
Proof. vm_compute; reflexivity. Qed.
(* serde_json hands a JSON ARRAY to a struct's visit_seq: which prefixes of each struct's array
   form the real Deserialize impls accept (probing deserializer driving visit_seq) is what the
   model's positional decoder (Wire.json_dec_fields_seq) assumes: exactly those whose missing
   trailing fields all carry #[serde(default)] *)
Lemma gen_seq_tables :
  Wire.seq_table Wire.client_message_shape = Generated.cm_seq_table /\
  Wire.seq_table Wire.response_shape = Generated.resp_seq_table.
Proof. split; vm_compute; reflexivity. Qed.
