(* GENERATED SIDE CONDITIONS for C16: the constants of Time.v are the constants in /repo, and
   the three repairs the no-panic theorems are about are in place (Time.de_deadline models the
   checked add, Time.arm_timer the clamp, Time.format_deadline the saturating helper). *)
From Coq Require Import String List NArith ZArith.
Import ListNotations.
From TarpcV Require Schema Wire Time Generated.

Lemma gen_max_timeout : Some Time.max_timeout_secs = Generated.max_timeout_secs.
Proof. vm_compute; reflexivity. Qed.
Lemma gen_default_deadline : Some Time.default_deadline_secs = Generated.default_deadline_secs.
Proof. vm_compute; reflexivity. Qed.
Lemma gen_rfc3339_cap : Some Time.rfc3339_cap_secs = Generated.rfc3339_cap_secs.
Proof. vm_compute; reflexivity. Qed.
Lemma gen_deserialize_checked_add : Generated.deserialize_checked_add = true.
Proof. vm_compute; reflexivity. Qed.
Lemma gen_timers_clamped :
  Generated.client_timer_clamped = true /\ Generated.server_timer_clamped = true.
Proof. split; vm_compute; reflexivity. Qed.
Lemma gen_deadline_field_saturates : Generated.deadline_field_saturates = true.
Proof. vm_compute; reflexivity. Qed.
(* the decoders the no-panic theorems quantify over read the shapes the real impls have *)
Lemma gen_client_message_shape : Wire.client_message_shape = Generated.client_message_shape.
Proof. vm_compute; reflexivity. Qed.
Lemma gen_response_shape : Wire.response_shape = Generated.response_shape.
Proof. vm_compute; reflexivity. Qed.
